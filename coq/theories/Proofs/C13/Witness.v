(** C13: a concrete source, a sequence of edits of it that satisfy the hypotheses of the theorems,
    and two insertions of blank space that do not (inside :: and inside a string literal), which do
    change the result. *)
From RS Require Import Base.Bytes Base.Outcome Base.Utf8 Lex.Tokens Lex.LexSpec Interp.Run Interp.Cli Interp.Batch.
From RS.Proofs.C13 Require Import LexCuts LexEdit CliErase EndToEnd BatchProofs.
From Coq Require Import Relations.
Open Scope list_scope.

Definition tx (s : string) : bytes := bytes_of_string s.

Definition L1 := tx "import ipv4;".
Definition L2 := tx "let f = ipv4::udp::flow(1.2.3.4:1, 5.6.7.8:2);".
Definition L3 := tx "f.client_dgram(""ab"" ""cd"");".
Definition lines1 := [L1; L2; L3].

(* a // comment appended; a line of blank space and a # comment inserted; a tab and a no-break
   space (U+00A0) inserted after an opening parenthesis; blank space inserted at the start of a
   line and between two adjacent string literals *)
Definition L1' := L1 ++ tx "// first".
Definition T := tx "  # x".
Definition L2' := tx "let f = ipv4::udp::flow(" ++ [9; 194; 160] ++ tx "1.2.3.4:1, 5.6.7.8:2);".
Definition L3' := tx "  " ++ L3.
Definition L3'' := tx "  f.client_dgram(""ab""" ++ tx " " ++ tx " ""cd"");".
Definition lines2 := [L1'; T; L2'; L3''].

(* not at a lexeme boundary *)
Definition L2bad := tx "let f = ipv4:" ++ tx " " ++ tx ":udp::flow(1.2.3.4:1, 5.6.7.8:2);".
Definition L3bad := tx "f.client_dgram(""a" ++ tx " " ++ tx "b"" ""cd"");".

Ltac blank_edit := apply LE_blank; [vm_compute; reflexivity|apply boundaryb_sound; vm_compute; reflexivity|
                                    apply blank_runb_sound; vm_compute; reflexivity].

Lemma step1 : lines_edit lines1 [L1'; L2; L3].
Proof.
  apply (ED_line [] L1 L1' [L2; L3]). apply LE_comment;
    [vm_compute; reflexivity|apply boundaryb_sound; vm_compute; reflexivity|
     apply comment_textb_sound; vm_compute; reflexivity|vm_compute; reflexivity|vm_compute; discriminate].
Qed.
Lemma step2 : lines_edit [L1'; L2; L3] [L1'; T; L2; L3].
Proof.
  apply (ED_insert [L1'] T [L2; L3]). exists (tx "  "), (tx "# x"). split; [reflexivity|].
  split; [vm_compute; reflexivity|]. right. split; [apply comment_textb_sound|]; vm_compute; reflexivity.
Qed.
Lemma step3 : lines_edit [L1'; T; L2; L3] [L1'; T; L2'; L3].
Proof.
  apply (ED_line [L1'; T] L2 L2' [L3]).
  change (line_edit (tx "let f = ipv4::udp::flow(" ++ tx "1.2.3.4:1, 5.6.7.8:2);")
                    (tx "let f = ipv4::udp::flow(" ++ [9; 194; 160] ++ tx "1.2.3.4:1, 5.6.7.8:2);")).
  blank_edit.
Qed.
Lemma step4 : lines_edit [L1'; T; L2'; L3] [L1'; T; L2'; L3'].
Proof. apply (ED_line [L1'; T; L2'] L3 L3' []). change (line_edit ([] ++ L3) ([] ++ tx "  " ++ L3)). blank_edit. Qed.
Lemma step5 : lines_edit [L1'; T; L2'; L3'] lines2.
Proof.
  apply (ED_line [L1'; T; L2'] L3' L3'' []).
  change (line_edit (tx "  f.client_dgram(""ab""" ++ tx " ""cd"");") (tx "  f.client_dgram(""ab""" ++ tx " " ++ tx " ""cd"");")).
  blank_edit.
Qed.

Definition ok_with (n : nat) (r : run_result) : Prop :=
  match r with RunOk pcap ws _ => length pcap = n /\ ws = [] | _ => False end.

(* a batch: two inputs that ask for the same output path, one without a file name, one that fails *)
Definition in_a := {| in_path := "a/x.rsyn"%string; in_out := Some "out/x.pcap"%string; in_src := join_lf lines1 |}.
Definition in_b := {| in_path := "b/x.rsyn"%string; in_out := Some "out/x.pcap"%string; in_src := join_lf [L1] |}.
Definition in_c := {| in_path := ".."%string; in_out := None; in_src := [] |}.
Definition in_d := {| in_path := "d.rsyn"%string; in_out := Some "out/d.pcap"%string; in_src := tx "$" |}.

Definition batch_witness : Prop :=
  let st := run_batch false [] [("out/d.pcap"%string, Whole [1])] [in_a; in_b; in_c; in_d] in
  map rp_verdict (b_reports st)
  = [Compiled (run_src [] (join_lf lines1)); RefusedOutputUsed "out/x.pcap"%string; RefusedNoName; Compiled (run_src [] (tx "$"))]
  /\ b_status st = ExitFailure
  /\ (exists pcap, fs_lookup "out/x.pcap"%string (b_fs st) = Some (Whole pcap) /\ length pcap = 86%nat)
  /\ fs_lookup "out/d.pcap"%string (b_fs st) = None
  /\ b_status (run_batch false [] [] [in_a]) = ExitSuccess.

Lemma batch_witness_holds : batch_witness.
Proof.
  unfold batch_witness. vm_compute. split; [reflexivity|]. split; [reflexivity|].
  split; [eexists; split; reflexivity|]. split; reflexivity.
Qed.

Theorem witness :
  edited lines1 lines2
  /\ split_lines (join_lf lines1) = lines1 /\ split_lines (join_crlf lines2) = lines2
  /\ ok_with 86 (run_src [] (join_lf lines1))
  /\ run_src [] (join_crlf lines2) = run_src [] (join_lf lines1)
  (* blank space between the two colons of :: is not at a lexeme boundary, and is a parse error *)
  /\ boundaryb (tx "let f = ipv4:") (tx ":udp::flow(1.2.3.4:1, 5.6.7.8:2);") = false
  /\ (exists l part, run_src [] (join_lf [L1; L2bad; L3]) = RunErr EParse l part)
  (* blank space inside a string literal is not at a lexeme boundary, and is payload *)
  /\ boundaryb (tx "f.client_dgram(""a") (tx "b"" ""cd"");") = false
  /\ ok_with 87 (run_src [] (join_lf [L1; L2; L3bad]))
  /\ batch_witness.
Proof.
  split.
  { eapply rst_trans; [apply rst_step, step1|]. eapply rst_trans; [apply rst_step, step2|].
    eapply rst_trans; [apply rst_step, step3|]. eapply rst_trans; [apply rst_step, step4|]. apply rst_step, step5. }
  split; [vm_compute; reflexivity|]. split; [vm_compute; reflexivity|].
  split; [vm_compute; split; reflexivity|]. split; [vm_compute; reflexivity|].
  split; [vm_compute; reflexivity|]. split; [eexists; eexists; vm_compute; reflexivity|].
  split; [vm_compute; reflexivity|]. split; [vm_compute; split; reflexivity|exact batch_witness_holds].
Qed.
