(** C13, whole pipeline: src/cli.rs process_file on two sources whose lines differ by the edits of
    LexEdit.v (and by inserted lines of blank space / comments) gives the same program state up to
    locations: the same records written, clock, registers, heap, library calls, number of warnings,
    and the same error kind when it fails. *)
From RS Require Import Base.Bytes Base.Outcome Base.Utf8 Bind.Types Pkt.Packet Pkt.Pcap
  Lex.Tokens Lex.LexClass Lex.Scanner Lex.LexSpec Parse.Automaton Parse.Grammar
  Interp.Val Interp.Ast Interp.Eval Interp.Cli Lib.LibBase.
From RS.Proofs.C10 Require Import Final.
From RS Require Import Proofs.Tactics.
From RS.Proofs.C13 Require Import LexCuts LexEdit ParseErase EvalErase.
From Coq Require Import Relations.
Open Scope N_scope.

(** a result of process_file with its locations blanked *)
Definition cli_norm (r : cli_result) : cli_result :=
  match r with
  | CliOk p => CliOk (norm p)
  | CliErr e _ p => CliErr e nil_loc (norm p)
  | CliPanic s => CliPanic s
  end.
Definition cli_sim (r r' : cli_result) : Prop := cli_norm r = cli_norm r'.

(** two lines that Lexer::line cannot tell apart, locations aside *)
Definition line_sim (l l' : bytes) : Prop :=
  utf8_valid l = utf8_valid l' /\
  (utf8_valid l = true -> forall lx lx' lno lno', lx_pending lx = lx_pending lx' ->
     lex_sim (lex_line lx lno l) (lex_line lx' lno' l')).

(** two files: line by line indistinguishable, with trivia lines inserted on either side *)
Inductive lines_sim : list bytes -> list bytes -> Prop :=
| LS_nil : lines_sim [] []
| LS_cons l l' r r' : line_sim l l' -> lines_sim r r' -> lines_sim (l :: r) (l' :: r')
| LS_skip_l n r r' : trivia_line n -> lines_sim r r' -> lines_sim (n :: r) r'
| LS_skip_r n r r' : trivia_line n -> lines_sim r r' -> lines_sim r (n :: r').

Lemma strip_erase ts ts' : map strip_loc ts = map strip_loc ts' -> map erase_tok ts = map erase_tok ts'.
Proof.
  revert ts'. induction ts as [|t r IH]; intros [|t' r'] H; try discriminate; [reflexivity|].
  cbn [map] in *. unfold strip_loc at 1 3 in H. injection H as H1 H2 H3. f_equal; [|apply IH; exact H3].
  apply erase_tok_iff. auto.
Qed.

Lemma ROk_inv {A} (a a' : A) p p' : ROk a p = ROk a' p' -> a = a' /\ p = p'.
Proof. intros H. split; congruence. Qed.
Lemma RErr_inv {A} e e' p p' : @RErr A e p = RErr e' p' -> e = e' /\ p = p'.
Proof. intros H. split; congruence. Qed.
Lemma RPanic_inv {A} s s' p p' : @RPanic A s p = RPanic s' p' -> s = s' /\ p = p'.
Proof. intros H. split; congruence. Qed.

Section Cli.
Variable functions : list funcdef.
Variable classes : list (string * list (string * string)).
Variable modules : list (string * list (string * symbol)).
Variable exec : string -> option nat -> list val -> list val -> heap -> option libres.

Notation add_stmts := (add_stmts functions classes modules exec).
Notation run_stmts := (run_stmts functions classes modules exec).
Notation process_lines := (process_lines functions classes modules exec).
Notation process_file := (process_file functions classes modules exec).

Lemma run_stmts_sim ss ss' p p' k k' :
  map erase_stmt ss = map erase_stmt ss' -> norm p = norm p' ->
  (forall q q', norm q = norm q' -> cli_sim (k q) (k' q')) ->
  cli_sim (run_stmts p ss k) (run_stmts p' ss' k').
Proof.
  intros Hs Hp Hk. unfold Cli.run_stmts.
  pose proof (add_stmts_sim functions classes modules exec ss ss' p p' Hs Hp) as H.
  destruct (add_stmts p ss) as [[] q|e q|s q]; destruct (add_stmts p' ss') as [[] q'|e' q'|s' q'];
    cbn [norm_res] in H; try discriminate.
  - apply ROk_inv in H. destruct H as [_ H]. apply Hk. exact H.
  - apply RErr_inv in H. destruct H as [-> H]. unfold cli_sim. cbn [cli_norm]. rewrite H. reflexivity.
  - apply RPanic_inv in H. destruct H as [-> H]. reflexivity.
Qed.

Lemma feed_line_sim : forall ts ts' ps ps',
  map erase_tok ts = map erase_tok ts' -> erase_parser ps = erase_parser ps' ->
  match feed_line ps ts, feed_line ps' ts' with
  | inr (e, _), inr (e', _) => e = e'
  | inl o, inl o' => omap erase_parser o = omap erase_parser o'
  | _, _ => False
  end.
Proof.
  induction ts as [|t r IH]; intros [|t' r'] ps ps' Ht Hp; try discriminate.
  - cbn [feed_line omap obind]. rewrite Hp. reflexivity.
  - cbn [map] in Ht. assert (Hr : map erase_tok r = map erase_tok r') by congruence.
    assert (Ht' : erase_tok t = erase_tok t') by congruence. clear Ht. rename Ht' into Ht. cbn [feed_line].
    pose proof (feed_sim ps ps' t t' Hp Ht) as F.
    destruct (feed ps t) as [q|e|s|]; destruct (feed ps' t') as [q'|e'|s'|]; cbn [omap obind] in F; try discriminate.
    + apply Ok_inj in F. apply IH; assumption.
    + injection F as ->. reflexivity.
    + exact F.
    + reflexivity.
Qed.

Lemma get_results_nil ps : p_stmts ps = [] -> get_results ps = ([], ps).
Proof. destruct ps as [st stk ss]. cbn. intros ->. reflexivity. Qed.

Theorem process_lines_sim : forall ls ls', lines_sim ls ls' ->
  forall lno lno' lx lx' ps ps' p p',
    lx_pending lx = lx_pending lx' -> erase_parser ps = erase_parser ps' -> norm p = norm p' ->
    p_stmts ps = [] -> p_stmts ps' = [] ->
    cli_sim (process_lines lno ls lx ps p) (process_lines lno' ls' lx' ps' p').
Proof.
  induction 1 as [|l l' r r' [Hv Hl] Hr IH|n r r' Hn Hr IH|n r r' Hn Hr IH];
    intros lno lno' lx lx' ps ps' p p' Hlx Hps Hp Hs Hs'.
  - (* end of input *)
    cbn [Cli.process_lines].
    pose proof (feed_sim ps ps' eof_token eof_token Hps eq_refl) as F.
    destruct (feed ps eof_token) as [q|e|s|]; destruct (feed ps' eof_token) as [q'|e'|s'|]; cbn [omap obind] in F; try discriminate.
    + apply Ok_inj in F. destruct (get_results q) as [ss q1] eqn:G. destruct (get_results q') as [ss' q1'] eqn:G'.
      apply run_stmts_sim; [|exact Hp|].
      * pose proof (get_results_erase q) as [E1 _]. pose proof (get_results_erase q') as [E1' _].
        rewrite G in E1. rewrite G' in E1'. cbn [fst] in *. rewrite E1, E1', F. reflexivity.
      * intros u u' Hu. unfold cli_sim. cbn [cli_norm]. rewrite Hu. reflexivity.
    + injection F as ->. unfold cli_sim. cbn [cli_norm]. rewrite Hp. reflexivity.
    + injection F as ->. reflexivity.
    + reflexivity.
  - (* a line on each side *)
    cbn [Cli.process_lines]. rewrite <- Hv. destruct (utf8_valid l) eqn:V; cbn [negb].
    2:{ unfold cli_sim. cbn [cli_norm]. rewrite Hp. reflexivity. }
    specialize (Hl eq_refl lx lx' lno lno' Hlx). destruct Hl as [Hpend Htoks].
    destruct (lex_line lx lno l) as [lx1 o]. destruct (lex_line lx' lno' l') as [lx1' o']. cbn [fst snd] in *.
    destruct o as [ts|e|s|]; destruct o' as [ts'|e'|s'|]; try contradiction.
    + apply strip_erase in Htoks. pose proof (feed_line_sim ts ts' ps ps' Htoks Hps) as F.
      destruct (feed_line ps ts) as [o|[e ?]]; destruct (feed_line ps' ts') as [o'|[e' ?]]; try contradiction.
      * destruct o as [q|e|s|]; destruct o' as [q'|e'|s'|]; cbn [omap obind] in F; try discriminate.
        -- apply Ok_inj in F. destruct (get_results q) as [ss q1] eqn:G. destruct (get_results q') as [ss' q1'] eqn:G'.
           pose proof (get_results_erase q) as [E1 E2]. pose proof (get_results_erase q') as [E1' E2'].
           rewrite G in E1, E2. rewrite G' in E1', E2'. cbn [fst snd] in *.
           apply run_stmts_sim; [rewrite E1, E1', F; reflexivity|exact Hp|].
           intros u u' Hu. apply IH; try assumption.
           ++ rewrite E2, E2', F. reflexivity.
           ++ unfold get_results in G. injection G as _ <-. reflexivity.
           ++ unfold get_results in G'. injection G' as _ <-. reflexivity.
        -- injection F as ->. unfold cli_sim. cbn [cli_norm]. rewrite Hp. reflexivity.
        -- injection F as ->. reflexivity.
        -- reflexivity.
      * subst e'. unfold cli_sim. cbn [cli_norm]. rewrite Hp. reflexivity.
    + subst e'. unfold cli_sim. cbn [cli_norm]. rewrite Hp. reflexivity.
  - (* a trivia line on the left *)
    cbn [Cli.process_lines]. destruct (trivia_lex n Hn) as [V L]. rewrite V. cbn [negb].
    destruct (L lx lno) as (lx1 & E & Hpend). rewrite E. cbn [feed_line].
    rewrite (get_results_nil ps Hs). unfold Cli.run_stmts. cbn [Eval.add_stmts].
    apply IH; try assumption. congruence.
  - cbn [Cli.process_lines]. destruct (trivia_lex n Hn) as [V L]. rewrite V. cbn [negb].
    destruct (L lx' lno') as (lx1 & E & Hpend). rewrite E. cbn [feed_line].
    rewrite (get_results_nil ps' Hs'). unfold Cli.run_stmts. cbn [Eval.add_stmts].
    apply IH; try assumption. congruence.
Qed.

(** the edits, on the lines of a file *)
Inductive lines_edit : list bytes -> list bytes -> Prop :=
| ED_line pre l l' post : line_edit l l' -> lines_edit (pre ++ l :: post) (pre ++ l' :: post)
| ED_insert pre n post : trivia_line n -> lines_edit (pre ++ post) (pre ++ n :: post).

Lemma line_sim_refl l : line_sim l l.
Proof. split; [reflexivity|]. intros V lx lx' lno lno' Hp. apply same_line_lex; assumption. Qed.

Lemma lines_sim_refl : forall ls, lines_sim ls ls.
Proof. induction ls; constructor; [apply line_sim_refl|assumption]. Qed.

Lemma lines_sim_prefix : forall pre a b, lines_sim a b -> lines_sim (pre ++ a) (pre ++ b).
Proof. induction pre; intros; cbn [app]; [assumption|]. constructor; [apply line_sim_refl|auto]. Qed.

Lemma lines_edit_sim ls ls' : lines_edit ls ls' -> lines_sim ls ls'.
Proof.
  intros [pre l l' post H|pre n post H]; apply lines_sim_prefix.
  - constructor; [|apply lines_sim_refl]. destruct (line_edit_lex l l' H) as (V & V' & L).
    split; [congruence|]. intros _. exact L.
  - apply LS_skip_r; [exact H|apply lines_sim_refl].
Qed.

(** any number of edits, in either direction (a comment or blank space may as well be removed) *)
Definition edited : list bytes -> list bytes -> Prop := clos_refl_sym_trans _ lines_edit.

Lemma cli_sim_equiv : (forall r, cli_sim r r) /\ (forall r r', cli_sim r r' -> cli_sim r' r)
  /\ (forall a b c, cli_sim a b -> cli_sim b c -> cli_sim a c).
Proof. unfold cli_sim. repeat split; congruence. Qed.

Definition run_lines (ls : list bytes) : cli_result := process_lines 1 ls lexer_init parser_init prog_init.

Theorem edited_lines_same ls ls' : edited ls ls' -> cli_sim (run_lines ls) (run_lines ls').
Proof.
  induction 1 as [a b H| | |a b c _ IH1 _ IH2]; unfold cli_sim in *; try congruence.
  apply lines_edit_sim in H. apply (process_lines_sim _ _ H); reflexivity.
Qed.

(** the end-to-end statement on source bytes *)
Theorem edited_source_same src src' : edited (split_lines src) (split_lines src') ->
  cli_sim (process_file src) (process_file src').
Proof. apply edited_lines_same. Qed.

End Cli.
