(** C13, lexical part 1: what the lexeme recognised at the head of a text depends on.

    [first_class (s1 ++ s2)] is compared with [first_class (s1 ++ h :: t ++ s2)], the same text with
    something inserted after [s1], where the inserted text starts with a byte [h] that no token
    can continue with (no identifier character, colon, dot, double quote or newline; a slash only
    when [s1] is not itself a single slash).  A lexeme that ends strictly inside [s1], or exactly at
    the end of [s1] when it is a token, is recognised unchanged. *)
From RS Require Import Base.Bytes Base.Outcome Base.Utf8 Lex.Tokens Lex.LexClass Lex.LexSpec.
From RS Require Import Proofs.BytesLemmas.
From RS.Proofs.C10 Require Import Utf8Facts RuleFacts SpecEquiv Maximal Meets.
From Coq Require Import ZArith Lia ZifyBool ZifyNat ZifyN.
Ltac Zify.zify_post_hook ::= Z.div_mod_to_equations.
Open Scope N_scope.

(** a byte that cannot continue any token *)
Definition sep (c : N) : bool :=
  negb (ident_char c) && negb (c =? 58) && negb (c =? 46) && negb (c =? 34) && negb (c =? 10).

(* ------------------------------------------------------------------ list helpers *)
Lemma span_app_lt p s1 r : (span p s1 < length s1)%nat -> span p (s1 ++ r) = span p s1.
Proof.
  induction s1 as [|c s1 IH]; cbn [span length app]; intros H; [lia|].
  destruct (p c); [|reflexivity]. rewrite IH by lia. reflexivity.
Qed.

Lemma span_app_all p s1 r : span p s1 = length s1 -> span p (s1 ++ r) = (length s1 + span p r)%nat.
Proof.
  induction s1 as [|c s1 IH]; cbn [span length app]; intros H; [reflexivity|].
  destruct (p c); [|discriminate]. rewrite IH by lia. reflexivity.
Qed.

Lemma span_len p s : (span p s <= length s)%nat.
Proof. induction s as [|c s IH]; cbn [span length]; [lia|]. destruct (p c); lia. Qed.

(** the inserted byte stops every run *)
Lemma span_ins p s1 h r : p h = false -> span p (s1 ++ h :: r) = span p s1.
Proof.
  intros Hh. pose proof (span_len p s1) as L.
  destruct (Nat.eq_dec (span p s1) (length s1)) as [E|E].
  - rewrite span_app_all by exact E. cbn [span]. rewrite Hh. lia.
  - apply span_app_lt. lia.
Qed.

Lemma span_mono p s1 r : (span p s1 <= span p (s1 ++ r))%nat.
Proof.
  pose proof (span_len p s1) as L.
  destruct (Nat.eq_dec (span p s1) (length s1)) as [E|E].
  - rewrite span_app_all by exact E. lia.
  - rewrite span_app_lt by lia. lia.
Qed.

Lemma span_inside p s1 r : (span p (s1 ++ r) <= length s1)%nat -> span p (s1 ++ r) = span p s1.
Proof.
  intros H. pose proof (span_len p s1) as L.
  destruct (Nat.eq_dec (span p s1) (length s1)) as [E|E].
  - rewrite span_app_all in * by exact E. lia.
  - apply span_app_lt. lia.
Qed.

Lemma starts_with_inside w : forall s1 r, (length w <= length s1)%nat -> starts_with w (s1 ++ r) = starts_with w s1.
Proof.
  induction w as [|c w IH]; intros s1 r H; [reflexivity|].
  destruct s1 as [|d s1]; [cbn [length] in H; lia|]. cbn [starts_with app]. rewrite IH by (cbn [length] in H; lia).
  reflexivity.
Qed.

Lemma starts_with_len w : forall s, starts_with w s = true -> (length w <= length s)%nat.
Proof.
  induction w as [|c w IH]; intros s H; [cbn; lia|]. destruct s as [|d s]; [discriminate|].
  cbn [starts_with] in H. apply andb_true_iff in H. destruct H as [_ H]. apply IH in H. cbn [length]. lia.
Qed.

Lemma starts_with_firstn w : forall s, starts_with w s = true -> firstn (length w) s = w.
Proof.
  induction w as [|c w IH]; intros s H; [reflexivity|]. destruct s as [|d s]; [discriminate|].
  cbn [starts_with] in H. apply andb_true_iff in H. destruct H as [E H]. apply N.eqb_eq in E. subst d.
  cbn [length firstn]. rewrite IH by exact H. reflexivity.
Qed.

(** a word made of identifier characters cannot reach across the inserted byte *)
Lemma starts_with_ins w : forall s1 h r, forallb ident_char w = true -> ident_char h = false ->
  starts_with w (s1 ++ h :: r) = true -> (length w <= length s1)%nat.
Proof.
  induction w as [|c w IH]; intros s1 h r Hw Hh H; [cbn; lia|].
  cbn [forallb] in Hw. apply andb_true_iff in Hw. destruct Hw as [Hc Hw].
  destruct s1 as [|d s1].
  - cbn [app starts_with] in H. apply andb_true_iff in H. destruct H as [E _]. apply N.eqb_eq in E. subst h. congruence.
  - cbn [app starts_with] in H. apply andb_true_iff in H. destruct H as [_ H].
    apply IH in H; [cbn [length]; lia|exact Hw|exact Hh].
Qed.

Lemma followed_by_inside p n s1 r : (n < length s1)%nat -> followed_by p n (s1 ++ r) = followed_by p n s1.
Proof. intros H. unfold followed_by. rewrite skipn_app. replace (n - length s1)%nat with O by lia.
  cbn [skipn]. destruct (skipn n s1) as [|c q] eqn:E; [|reflexivity].
  apply (f_equal (@length N)) in E. rewrite skipn_length in E. cbn [length] in E. lia.
Qed.

Lemma followed_by_end p s1 r : followed_by p (length s1) (s1 ++ r) = match r with c :: _ => p c | [] => false end.
Proof. unfold followed_by. rewrite skipn_app, skipn_all, Nat.sub_diag. reflexivity. Qed.

Lemma firstn_inside {A} n (s1 r : list A) : (n <= length s1)%nat -> firstn n (s1 ++ r) = firstn n s1.
Proof. intros H. rewrite firstn_app. replace (n - length s1)%nat with O by lia. cbn [firstn]. apply app_nil_r. Qed.

Lemma skipn_inside {A} n (s1 r : list A) : (n <= length s1)%nat -> skipn n (s1 ++ r) = skipn n s1 ++ r.
Proof. intros H. rewrite skipn_app. replace (n - length s1)%nat with O by lia. reflexivity. Qed.

Lemma sep_not_ident h : sep h = true -> ident_char h = false.
Proof. unfold sep. destruct (ident_char h); [discriminate|reflexivity]. Qed.
Lemma sep_not_digit h : sep h = true -> digit h = false.
Proof. intros H. apply sep_not_ident in H. unfold ident_char in H. destruct (digit h); [|reflexivity].
  rewrite orb_true_r in H. discriminate. Qed.
Lemma sep_not_hexdigit h : sep h = true -> hexdigit h = false.
Proof. intros H. apply sep_not_ident in H. unfold ident_char, hexdigit, letter, digit in *. lia. Qed.
Lemma sep_neq h : sep h = true -> h <> 58 /\ h <> 46 /\ h <> 34 /\ h <> 10.
Proof. unfold sep. intros H. repeat split; intros ->; vm_compute in H; discriminate. Qed.

Lemma to_eol_nz s c : starts_with [c] s = true -> c <> 10 -> to_eol s <> O.
Proof.
  destruct s as [|d q]; [discriminate|]. cbn [starts_with]. rewrite andb_true_r. intros E Hc.
  apply N.eqb_eq in E. subst d. unfold to_eol. cbn [span].
  destruct (c =? newline) eqn:E; [apply N.eqb_eq in E; unfold newline in E; congruence|]. cbn [negb]. lia.
Qed.

Lemma starts_with_2_1 a b s : starts_with [a; b] s = true -> starts_with [a] s = true.
Proof. destruct s as [|c q]; [discriminate|]. cbn [starts_with]. intros H. apply andb_true_iff in H. destruct H as [-> _]. reflexivity. Qed.

(** ** blank space *)
Definition bl (s : bytes) : nat := blanks (length s) s.

Lemma blank_width_le s : (blank_width s <= length s)%nat.
Proof.
  unfold blank_width. destruct (utf8_decode s) as [[cp n]|] eqn:E; [|lia].
  apply decode_len in E. destruct (is_whitespace cp && negb (cp =? newline)); lia.
Qed.

Lemma blanks_fuel2 : forall f s g, (length s <= f)%nat -> (length s <= g)%nat -> blanks f s = blanks g s.
Proof.
  induction f as [|f IH]; intros s g Hf Hg.
  - destruct s; [destruct g; reflexivity|cbn [length] in Hf; lia].
  - destruct s as [|b r]; [destruct g; reflexivity|]. destruct g as [|g]; [cbn [length] in Hg; lia|].
    cbn [blanks]. pose proof (blank_width_le (b :: r)) as L.
    destruct (blank_width (b :: r)) as [|n] eqn:E; [reflexivity|].
    f_equal. apply IH; rewrite skipn_length; cbn [length] in *; lia.
Qed.

Lemma blanks_fuel f s : (length s <= f)%nat -> blanks f s = bl s.
Proof. intros H. unfold bl. apply blanks_fuel2; [exact H|lia]. Qed.

Lemma bl_step s : bl s = match blank_width s with O => O | n => (n + bl (skipn n s))%nat end.
Proof.
  destruct s as [|b r]; [reflexivity|]. unfold bl at 1. cbn [length blanks].
  pose proof (blank_width_le (b :: r)) as L.
  destruct (blank_width (b :: r)) as [|n] eqn:E; [reflexivity|]. rewrite blanks_fuel; [reflexivity|].
  rewrite skipn_length. cbn [length] in *. lia.
Qed.

Lemma decode_app l cp n r : utf8_decode l = Some (cp, n) -> utf8_decode (l ++ r) = Some (cp, n).
Proof.
  unfold utf8_decode. destruct l as [|b0 l]; [discriminate|]. cbn [app].
  destruct (b0 <? 128); [auto|]. destruct (b0 <? 194); [auto|].
  destruct (b0 <? 224). { destruct l as [|b1 l]; [discriminate|]. cbn [app]. auto. }
  destruct (b0 <? 240). { destruct l as [|b1 [|b2 l]]; try discriminate. cbn [app]. auto. }
  destruct (b0 <? 245); [|auto]. destruct l as [|b1 [|b2 [|b3 l]]]; try discriminate. cbn [app]. auto.
Qed.

Lemma bl_app_valid u : Valid u -> forall r,
  bl (u ++ r) = if Nat.eqb (bl u) (length u) then (length u + bl r)%nat else bl u.
Proof.
  induction 1 as [|l cp n Hd Hv IH]; intros r; [reflexivity|].
  pose proof (decode_len _ _ _ Hd) as Hn.
  rewrite (bl_step (l ++ r)), (bl_step l). unfold blank_width. rewrite (decode_app _ _ _ r Hd), Hd.
  destruct (is_whitespace cp && negb (cp =? newline)).
  - destruct n as [|n]; [lia|]. rewrite skipn_inside by lia. rewrite IH.
    rewrite skipn_length.
    generalize (bl (skipn (S n) l)) (bl r) (length l) Hn. clear. intros a b c Hn.
    destruct (Nat.eqb_spec a (c - S n)); destruct (Nat.eqb_spec (S n + a) c); lia.
  - destruct (Nat.eqb 0 (length l)) eqn:E; [apply Nat.eqb_eq in E; lia|reflexivity].
Qed.

(** ** dotted quads *)
Section Quad.
  Variables (s2 r : bytes) (h : N).
  Hypothesis h_nd : digit h = false.
  Hypothesis h_ndot : h <> 46.

  Lemma OD_new u m : octet_dot (u ++ h :: r) = m -> m <> O -> octet_dot (u ++ s2) = m /\ (m <= length u)%nat.
  Proof.
    unfold octet_dot. rewrite (span_ins digit u h r h_nd). intros H Hm.
    pose proof (span_len digit u) as L.
    destruct (is_octet (firstn (span digit u) (u ++ h :: r)) && followed_by (fun c => c =? 46) (span digit u) (u ++ h :: r)) eqn:E;
      [|congruence].
    apply andb_true_iff in E. destruct E as [E1 E2].
    assert (Hlt : (span digit u < length u)%nat).
    { destruct (Nat.eq_dec (span digit u) (length u)) as [Q|Q]; [|lia].
      rewrite Q, followed_by_end in E2. apply N.eqb_eq in E2. congruence. }
    rewrite (span_app_lt digit u s2 Hlt). rewrite firstn_inside in E1 by lia. rewrite followed_by_inside in E2 by lia.
    rewrite firstn_inside by lia. rewrite followed_by_inside by lia. rewrite E1, E2. cbn [andb]. split; [exact H|lia].
  Qed.

  Lemma OD_old u m : octet_dot (u ++ s2) = m -> (0 < m <= length u)%nat -> octet_dot (u ++ h :: r) = m.
  Proof.
    unfold octet_dot. intros H Hm.
    destruct (is_octet (firstn (span digit (u ++ s2)) (u ++ s2)) && followed_by (fun c => c =? 46) (span digit (u ++ s2)) (u ++ s2)) eqn:E;
      [|lia].
    assert (Hin : span digit (u ++ s2) = span digit u) by (apply span_inside; lia).
    rewrite Hin in *. rewrite (span_ins digit u h r h_nd).
    rewrite firstn_inside in E by lia. rewrite followed_by_inside in E by lia.
    rewrite firstn_inside by lia. rewrite followed_by_inside by lia. rewrite E. exact H.
  Qed.

  Lemma cand_inside u x j : (j <= length u)%nat -> cand_ok (u ++ x) j = cand_ok u j.
  Proof. intros H. unfold cand_ok. rewrite firstn_inside by exact H. reflexivity. Qed.

  Lemma forallb_firstn_ins p u j : p h = false -> (length u < j)%nat -> forallb p (firstn j (u ++ h :: r)) = false.
  Proof.
    intros Hp Hj. rewrite firstn_app. rewrite firstn_all2 by lia. rewrite forallb_app.
    destruct (j - length u)%nat as [|k] eqn:E; [lia|]. cbn [firstn forallb]. rewrite Hp. cbn [andb]. apply andb_false_r.
  Qed.

  Lemma cand_beyond u j : (length u < j)%nat -> cand_ok (u ++ h :: r) j = false.
  Proof.
    intros Hj. unfold cand_ok, is_octet. rewrite (forallb_firstn_ins digit u j h_nd Hj).
    rewrite !andb_false_r; cbn [andb]; rewrite ?andb_false_r; reflexivity.
  Qed.

  Lemma last_octet_cands s : last_octet s = if cand_ok s 3 then 3%nat else if cand_ok s 2 then 2%nat else if cand_ok s 1 then 1%nat else O.
  Proof. unfold last_octet, cand_ok. cbn [find]. repeat match goal with |- context[if ?c then _ else _] => destruct c end; reflexivity. Qed.

  Lemma cand_1_of u j : cand_ok u j = true -> (1 <= j)%nat -> cand_ok u 1 = true.
  Proof.
    unfold cand_ok, is_octet. intros H Hj. destruct u as [|d q].
    - destruct j; [lia|]. cbn in H. discriminate.
    - destruct j as [|j]; [lia|]. cbn [firstn length] in *. rewrite !andb_true_iff in H.
      destruct H as (_ & ((_ & _) & Hd) & _). cbn [forallb] in Hd. apply andb_true_iff in Hd. destruct Hd as [Hd _].
      cbn [Nat.eqb Nat.leb forallb andb]. rewrite Hd. cbn [andb]. unfold dec_value. cbn [fold_left].
      unfold digit in Hd. lia.
  Qed.

  Lemma LO_new u : last_octet (u ++ h :: r) <> O -> last_octet (u ++ s2) <> O.
  Proof.
    intros H.
    assert (C : exists j, (1 <= j <= length u)%nat /\ cand_ok u j = true).
    { rewrite last_octet_cands in H.
      destruct (cand_ok (u ++ h :: r) 3) eqn:E3.
      { exists 3%nat. destruct (Nat.le_gt_cases 3 (length u)) as [Q|Q]; [|rewrite cand_beyond in E3 by lia; discriminate].
        rewrite cand_inside in E3 by lia. split; [lia|exact E3]. }
      destruct (cand_ok (u ++ h :: r) 2) eqn:E2.
      { exists 2%nat. destruct (Nat.le_gt_cases 2 (length u)) as [Q|Q]; [|rewrite cand_beyond in E2 by lia; discriminate].
        rewrite cand_inside in E2 by lia. split; [lia|exact E2]. }
      destruct (cand_ok (u ++ h :: r) 1) eqn:E1; [|congruence].
      exists 1%nat. destruct (Nat.le_gt_cases 1 (length u)) as [Q|Q]; [|rewrite cand_beyond in E1 by lia; discriminate].
      rewrite cand_inside in E1 by lia. split; [lia|exact E1]. }
    destruct C as (j & Hj & Cj). apply cand_1_of in Cj; [|lia].
    rewrite last_octet_cands. rewrite (cand_inside u s2 1) by lia. rewrite Cj.
    destruct (cand_ok (u ++ s2) 3); [lia|]. destruct (cand_ok (u ++ s2) 2); lia.
  Qed.

  Lemma LO_old u m : last_octet (u ++ s2) = m -> (0 < m <= length u)%nat -> last_octet (u ++ h :: r) = m.
  Proof.
    rewrite !last_octet_cands. intros H Hm.
    assert (T : forall j, cand_ok (u ++ h :: r) j = if Nat.leb j (length u) then cand_ok (u ++ s2) j else false).
    { intros j. destruct (Nat.leb j (length u)) eqn:E; [apply Nat.leb_le in E|apply Nat.leb_gt in E].
      - rewrite !cand_inside by lia. reflexivity.
      - apply cand_beyond. lia. }
    rewrite !T.
    destruct (cand_ok (u ++ s2) 3); destruct (cand_ok (u ++ s2) 2); destruct (cand_ok (u ++ s2) 1);
      destruct (Nat.leb 3 (length u)) eqn:L3; destruct (Nat.leb 2 (length u)) eqn:L2; destruct (Nat.leb 1 (length u)) eqn:L1;
      try apply Nat.leb_le in L3; try apply Nat.leb_le in L2; try apply Nat.leb_le in L1;
      try apply Nat.leb_gt in L3; try apply Nat.leb_gt in L2; try apply Nat.leb_gt in L1; lia.
  Qed.

  Lemma skipn_add {A} a b (l : list A) : skipn (a + b) l = skipn b (skipn a l).
  Proof. rewrite skipn_skipn. reflexivity. Qed.

  Lemma DQ_new u : dotted_quad (u ++ h :: r) <> O -> dotted_quad (u ++ s2) <> O.
  Proof.
    unfold dotted_quad.
    destruct (octet_dot (u ++ h :: r)) as [|n1] eqn:E1; [congruence|].
    destruct (OD_new u _ E1 ltac:(lia)) as [F1 L1]. rewrite F1.
    rewrite (skipn_inside (S n1) u) in * by lia.
    rewrite (skipn_inside (S n1) u s2) by lia.
    destruct (octet_dot (skipn (S n1) u ++ h :: r)) as [|n2] eqn:E2; [congruence|].
    destruct (OD_new _ _ E2 ltac:(lia)) as [F2 L2]. rewrite F2.
    rewrite !skipn_add. rewrite (skipn_inside (S n1) u) by lia. rewrite (skipn_inside (S n1) u s2) by lia.
    rewrite (skipn_inside (S n2)) by lia. rewrite (skipn_inside (S n2) _ s2) by lia.
    destruct (octet_dot (skipn (S n2) (skipn (S n1) u) ++ h :: r)) as [|n3] eqn:E3; [congruence|].
    destruct (OD_new _ _ E3 ltac:(lia)) as [F3 L3]. rewrite F3.
    rewrite !skipn_add. rewrite (skipn_inside (S n1) u) by lia. rewrite (skipn_inside (S n1) u s2) by lia.
    rewrite (skipn_inside (S n2)) by lia. rewrite (skipn_inside (S n2) _ s2) by lia.
    rewrite (skipn_inside (S n3)) by lia. rewrite (skipn_inside (S n3) _ s2) by lia.
    intros H.
    destruct (last_octet (skipn (S n3) (skipn (S n2) (skipn (S n1) u)) ++ h :: r)) as [|n4] eqn:E4; [congruence|].
    assert (G : last_octet (skipn (S n3) (skipn (S n2) (skipn (S n1) u)) ++ s2) <> O) by (apply LO_new; rewrite E4; lia).
    destruct (last_octet (skipn (S n3) (skipn (S n2) (skipn (S n1) u)) ++ s2)); [congruence|lia].
  Qed.

  Lemma DQ_old u n : dotted_quad (u ++ s2) = n -> (0 < n <= length u)%nat -> dotted_quad (u ++ h :: r) = n.
  Proof.
    unfold dotted_quad. intros H Hn.
    destruct (octet_dot (u ++ s2)) as [|n1] eqn:E1; [lia|].
    destruct (octet_dot (skipn (S n1) (u ++ s2))) as [|n2] eqn:E2; [lia|].
    destruct (octet_dot (skipn (S n1 + S n2) (u ++ s2))) as [|n3] eqn:E3; [lia|].
    destruct (last_octet (skipn (S n1 + S n2 + S n3) (u ++ s2))) as [|n4] eqn:E4; [lia|].
    repeat rewrite skipn_add in E3. repeat rewrite skipn_add in E4.
    assert (L1 : (S n1 <= length u)%nat) by lia.
    rewrite (skipn_inside (S n1) u s2) in * by lia.
    assert (L2 : (S n2 <= length (skipn (S n1) u))%nat) by (rewrite skipn_length; lia).
    rewrite (skipn_inside (S n2) _ s2) in * by lia.
    assert (L3 : (S n3 <= length (skipn (S n2) (skipn (S n1) u)))%nat) by (rewrite !skipn_length; lia).
    rewrite (skipn_inside (S n3) _ s2) in * by lia.
    assert (L4 : (S n4 <= length (skipn (S n3) (skipn (S n2) (skipn (S n1) u))))%nat) by (rewrite !skipn_length; lia).
    rewrite (OD_old u (S n1) E1) by lia. cbv iota beta.
    rewrite (skipn_inside (S n1) u) by lia. rewrite (OD_old _ (S n2) E2) by lia. cbv iota beta.
    rewrite !skipn_add. rewrite (skipn_inside (S n1) u) by lia.
    rewrite (skipn_inside (S n2)) by lia. rewrite (OD_old _ (S n3) E3) by lia. cbv iota beta.
    rewrite !skipn_add. rewrite (skipn_inside (S n1) u) by lia. rewrite (skipn_inside (S n2)) by lia.
    rewrite (skipn_inside (S n3)) by lia. rewrite (LO_old _ (S n4) E4) by lia. exact H.
  Qed.
End Quad.

(* ------------------------------------------------------------------ the classes one by one *)
Section Stable.
  Variables (s1 s2 t : bytes) (h : N).
  Hypothesis s1_ne : s1 <> [].
  Hypothesis s1_valid : Valid s1.
  Hypothesis h_sep : sep h = true.
  Hypothesis h_slash : h = 47 -> s1 <> [47].

  Notation old := (s1 ++ s2).
  Notation new := (s1 ++ h :: t ++ s2).

  Lemma s1_len : (0 < length s1)%nat.
  Proof. destruct s1; [congruence|cbn [length]; lia]. Qed.

  (** [exactly] for a one-byte spelling looks at the first byte only *)
  Lemma exactly1_same (c : N) f : (forall s, f s = if starts_with [c] s then 1%nat else O) -> f new = f old.
  Proof.
    intros Hf. rewrite !Hf. rewrite !(starts_with_inside [c]) by (pose proof s1_len; cbn [length]; lia). reflexivity.
  Qed.

  Lemma to_eol_new_nonzero c : starts_with [c] new = true -> c <> 10 -> to_eol old <> O.
  Proof.
    intros H Hc. rewrite (starts_with_inside [c]) in H by (pose proof s1_len; cbn [length]; lia).
    destruct s1 as [|d q]; [congruence|]. cbn [starts_with] in H. rewrite andb_true_r in H. apply N.eqb_eq in H. subst d.
    unfold to_eol. cbn [app span]. destruct (c =? newline) eqn:E; [apply N.eqb_eq in E; unfold newline in E; congruence|].
    cbn [negb]. lia.
  Qed.

  Lemma to_eol_inside n : to_eol old = n -> (n < length s1)%nat -> to_eol new = n.
  Proof.
    unfold to_eol. intros H Hn. rewrite span_inside in H by lia. rewrite span_app_lt by lia. exact H.
  Qed.

  (* hash comment *)
  Lemma A_hash : extent KHashComment new <> O -> extent KHashComment old <> O.
  Proof.
    cbn [extent]. change (text "#") with [35].
    destruct (starts_with [35] new) eqn:E; [|congruence]. intros _.
    rewrite (starts_with_inside [35]) in E by (pose proof s1_len; cbn [length]; lia).
    rewrite (starts_with_inside [35]) by (pose proof s1_len; cbn [length]; lia). rewrite E.
    apply (to_eol_new_nonzero 35); [|lia]. rewrite (starts_with_inside [35]) by (pose proof s1_len; cbn [length]; lia). exact E.
  Qed.
  Lemma B_hash n : extent KHashComment old = n -> (0 < n < length s1)%nat -> extent KHashComment new = n.
  Proof.
    cbn [extent]. change (text "#") with [35].
    rewrite !(starts_with_inside [35]) by (pose proof s1_len; cbn [length]; lia).
    destruct (starts_with [35] s1); [|lia]. intros H Hn. apply to_eol_inside; [exact H|lia].
  Qed.

  (* two-byte spellings *)
  Lemma sw2_new a b : (b = h -> s1 <> [a]) -> starts_with [a; b] new = true ->
    starts_with [a; b] old = true /\ (2 <= length s1)%nat.
  Proof.
    intros Hb H. destruct s1 as [|c [|d q]]; [congruence| |].
    - exfalso. cbn [app starts_with] in H. apply andb_true_iff in H. destruct H as [E1 H].
      apply andb_true_iff in H. destruct H as [E2 _]. apply N.eqb_eq in E1, E2. subst c. apply Hb; [exact E2|reflexivity].
    - rewrite (starts_with_inside [a; b]) in H by (cbn [length]; lia).
      rewrite (starts_with_inside [a; b]) by (cbn [length]; lia). split; [exact H|cbn [length]; lia].
  Qed.

  Lemma h47 : 47 = h -> s1 <> [47].
  Proof. intros E. apply h_slash. symmetry. exact E. Qed.

  (* cpp comment *)
  Lemma A_cpp : extent KCppComment new <> O -> extent KCppComment old <> O.
  Proof.
    cbn [extent]. change (text "//") with [47; 47].
    destruct (starts_with [47; 47] new) eqn:E; [|congruence]. intros _.
    apply (sw2_new 47 47 h47) in E. destruct E as [E L]. rewrite E.
    apply (to_eol_nz _ 47); [|lia]. eapply starts_with_2_1; exact E.
  Qed.
  Lemma B_cpp n : extent KCppComment old = n -> (0 < n < length s1)%nat -> extent KCppComment new = n.
  Proof.
    cbn [extent]. change (text "//") with [47; 47]. intros H Hn.
    rewrite (starts_with_inside [47; 47]) in H by (cbn [length]; lia).
    rewrite (starts_with_inside [47; 47]) by (cbn [length]; lia).
    destruct (starts_with [47; 47] s1); [|lia]. apply to_eol_inside; [exact H|lia].
  Qed.

  (* newline and the one-byte punctuation: the first byte decides *)
  Lemma same_first (w : bytes) : length w = 1%nat -> starts_with w new = starts_with w old.
  Proof. intros H. rewrite !(starts_with_inside w) by (pose proof s1_len; lia). reflexivity. Qed.

  Lemma newline_same : extent KNewLine new = extent KNewLine old.
  Proof. cbn [extent]. rewrite (same_first [newline]) by reflexivity. reflexivity. Qed.

  Lemma exactly1_same' (w : string) : length (text w) = 1%nat -> exactly w new = exactly w old.
  Proof. intros H. unfold exactly. rewrite (same_first (text w) H). reflexivity. Qed.

  (* :: *)
  Lemma A_dcolon : exactly "::" new <> O -> exactly "::" old <> O.
  Proof.
    unfold exactly. change (text "::") with [58; 58].
    destruct (starts_with [58; 58] new) eqn:E; [|congruence]. intros _.
    apply (sw2_new 58 58) in E; [|intros Q; exfalso; destruct (sep_neq h h_sep) as (Q1 & _); congruence].
    destruct E as [E _]. rewrite E. cbn [length]. lia.
  Qed.
  Lemma B_dcolon n : exactly "::" old = n -> (0 < n <= length s1)%nat -> exactly "::" new = n.
  Proof.
    unfold exactly. change (text "::") with [58; 58]. intros H Hn.
    destruct (starts_with [58; 58] old) eqn:E; [|lia]. cbn [length] in H.
    rewrite (starts_with_inside [58; 58]) in E by (cbn [length]; lia).
    rewrite (starts_with_inside [58; 58]) by (cbn [length]; lia). rewrite E. exact H.
  Qed.

  (* reserved words *)
  Lemma A_word (kw : string) : forallb ident_char (text kw) = true ->
    word kw new <> O ->
    word kw old <> O \/ (s1 = text kw /\ followed_by ident_char (length s1) old = true).
  Proof.
    intros Hkw. unfold word.
    destruct (starts_with (text kw) new) eqn:E; cbn [andb]; [|congruence].
    pose proof (starts_with_ins _ _ _ _ Hkw (sep_not_ident h h_sep) E) as L.
    rewrite starts_with_inside in E by exact L. rewrite starts_with_inside by exact L. rewrite E. cbn [andb].
    destruct (Nat.eq_dec (length (text kw)) (length s1)) as [Q|Q].
    - intros _. assert (S1 : s1 = text kw).
      { apply starts_with_firstn in E. rewrite Q, firstn_all in E. exact E. }
      rewrite Q. destruct (followed_by ident_char (length s1) old) eqn:F; [right; split; [exact S1|reflexivity]|].
      left. cbn [negb]. rewrite <- Q. destruct (text kw); [cbn in Q; pose proof s1_len; lia|cbn [length]; lia].
    - rewrite !followed_by_inside by lia. intros H. left. exact H.
  Qed.
  Lemma B_word (kw : string) n : word kw old = n -> (0 < n <= length s1)%nat -> word kw new = n.
  Proof.
    unfold word. intros H Hn.
    destruct (starts_with (text kw) old) eqn:E; cbn [andb] in H; [|lia].
    destruct (followed_by ident_char (length (text kw)) old) eqn:F; cbn [negb] in H; [lia|].
    rewrite starts_with_inside in E by lia. rewrite starts_with_inside by lia. rewrite E. cbn [andb].
    destruct (Nat.eq_dec (length (text kw)) (length s1)) as [Q|Q].
    - rewrite Q, followed_by_end. rewrite (sep_not_ident h h_sep). cbn [negb]. lia.
    - rewrite followed_by_inside in F by lia. rewrite followed_by_inside by lia. rewrite F. exact H.
  Qed.

  (* identifiers *)
  Lemma start_is_ident c : letter c || (c =? 95) = true -> ident_char c = true.
  Proof. unfold ident_char. intros H. apply orb_true_iff in H. destruct H as [-> | ->]; [reflexivity|apply orb_true_r]. Qed.

  Lemma A_ident : identifier new <> O -> identifier old <> O.
  Proof.
    unfold identifier. destruct s1 as [|c q]; [congruence|]. cbn [app].
    destruct (letter c || (c =? 95)) eqn:E; [|congruence]. intros _.
    cbn [span]. rewrite (start_is_ident c E). lia.
  Qed.
  Lemma B_ident n : identifier old = n -> (0 < n <= length s1)%nat -> identifier new = n.
  Proof.
    unfold identifier. intros H Hn. destruct s1 as [|c q] eqn:S1; [congruence|]. cbn [app] in *.
    destruct (letter c || (c =? 95)); [|lia].
    change (c :: q ++ s2) with ((c :: q) ++ s2) in H. change (c :: q ++ h :: t ++ s2) with ((c :: q) ++ h :: t ++ s2).
    rewrite span_inside in H by lia. rewrite span_ins by (apply sep_not_ident; exact h_sep). exact H.
  Qed.

  (* string literals *)
  Lemma A_string : string_literal new <> O -> exists q, s1 = 34 :: q.
  Proof.
    unfold string_literal. destruct s1 as [|c q]; [congruence|]. cbn [app].
    destruct (c =? quote) eqn:E; [|congruence]. intros _. apply N.eqb_eq in E. exists q. unfold quote in E. congruence.
  Qed.
  Lemma B_string n : string_literal old = n -> (0 < n <= length s1)%nat -> string_literal new = n.
  Proof.
    unfold string_literal. intros H Hn. destruct s1 as [|c q] eqn:S1; [congruence|]. cbn [app length] in *.
    destruct (c =? quote); [|lia].
    set (nq := fun c0 : N => negb (c0 =? quote)) in *. set (isq := fun c0 : N => c0 =? quote) in *.
    destruct (followed_by isq (span nq (q ++ s2)) (q ++ s2)) eqn:F; [|lia].
    assert (Hm : Nat.lt (span nq (q ++ s2)) (length q)) by lia.
    assert (Hin : span nq (q ++ s2) = span nq q) by (apply span_inside; lia).
    rewrite Hin in *. rewrite span_app_lt by lia.
    rewrite followed_by_inside in F by lia. rewrite followed_by_inside by lia. rewrite F. exact H.
  Qed.

  (* hexadecimal *)
  Lemma h_not_x : 120 = h -> s1 <> [48].
  Proof. intros <-. vm_compute in h_sep. discriminate. Qed.

  Lemma A_hex : hex_integer new <> O -> hex_integer old <> O.
  Proof.
    unfold hex_integer. change (text "0x") with [48; 120].
    destruct (starts_with [48; 120] new) eqn:E; [|congruence].
    apply (sw2_new 48 120 h_not_x) in E. destruct E as [E L]. rewrite E.
    rewrite !skipn_inside by lia. rewrite span_ins by (apply sep_not_hexdigit; exact h_sep).
    pose proof (span_mono hexdigit (skipn 2 s1) s2) as M.
    destruct (span hexdigit (skipn 2 s1)); [congruence|]. intros _.
    destruct (span hexdigit (skipn 2 s1 ++ s2)); lia.
  Qed.
  Lemma B_hex n : hex_integer old = n -> (0 < n <= length s1)%nat -> hex_integer new = n.
  Proof.
    unfold hex_integer. change (text "0x") with [48; 120]. intros H Hn.
    destruct (starts_with [48; 120] old) eqn:E; [|lia].
    pose proof (starts_with_len _ _ E) as L0. cbn [length] in L0.
    destruct (span hexdigit (skipn 2 old)) as [|m] eqn:M; [lia|].
    assert (L : (3 <= length s1)%nat) by lia.
    rewrite starts_with_inside in E by (cbn [length]; lia). rewrite starts_with_inside by (cbn [length]; lia). rewrite E.
    rewrite skipn_inside in M by lia. rewrite skipn_inside by lia.
    rewrite span_inside in M by (rewrite skipn_length; lia).
    rewrite span_ins by (apply sep_not_hexdigit; exact h_sep). rewrite M. exact H.
  Qed.

  (* decimal *)
  Lemma A_int : integer new <> O -> integer old <> O.
  Proof.
    unfold integer. change (text "-") with [45]. rewrite (same_first [45]) by reflexivity.
    destruct (starts_with [45] old) eqn:E.
    - destruct (Nat.eq_dec (length s1) 1) as [Q|Q].
      + destruct s1 as [|c [|d q]]; cbn [length] in Q; try lia. cbn [app skipn span].
        rewrite (sep_not_digit h h_sep). congruence.
      + pose proof s1_len. rewrite !skipn_inside by lia. rewrite span_ins by (apply sep_not_digit; exact h_sep).
        pose proof (span_mono digit (skipn 1 s1) s2) as M.
        destruct (span digit (skipn 1 s1)); [congruence|]. intros _. destruct (span digit (skipn 1 s1 ++ s2)); lia.
    - cbn [skipn]. rewrite span_ins by (apply sep_not_digit; exact h_sep).
      pose proof (span_mono digit s1 s2) as M.
      destruct (span digit s1); [congruence|]. intros _. destruct (span digit (s1 ++ s2)); lia.
  Qed.
  Lemma B_int n : integer old = n -> (0 < n <= length s1)%nat -> integer new = n.
  Proof.
    unfold integer. change (text "-") with [45]. rewrite (same_first [45]) by reflexivity. intros H Hn.
    destruct (starts_with [45] old) eqn:E.
    - destruct (span digit (skipn 1 old)) as [|m] eqn:M; [lia|].
      assert (L : (2 <= length s1)%nat) by lia.
      rewrite skipn_inside in M by lia. rewrite skipn_inside by lia.
      rewrite span_inside in M by (rewrite skipn_length; lia).
      rewrite span_ins by (apply sep_not_digit; exact h_sep). rewrite M. exact H.
    - cbn [skipn] in *. destruct (span digit old) as [|m] eqn:M; [lia|].
      rewrite span_inside in M by lia. rewrite span_ins by (apply sep_not_digit; exact h_sep). rewrite M. exact H.
  Qed.

  (* blank space *)
  Lemma A_ws : extent KWhitespace new <> O -> extent KWhitespace old <> O.
  Proof.
    cbn [extent]. change (blanks (length new) new) with (bl new). change (blanks (length old) old) with (bl old).
    rewrite !(bl_app_valid s1 s1_valid). pose proof s1_len as L.
    destruct (Nat.eqb_spec (bl s1) (length s1)); lia.
  Qed.
  Lemma B_ws n : extent KWhitespace old = n -> (0 < n < length s1)%nat -> extent KWhitespace new = n.
  Proof.
    cbn [extent]. change (blanks (length new) new) with (bl new). change (blanks (length old) old) with (bl old).
    rewrite !(bl_app_valid s1 s1_valid). destruct (Nat.eqb_spec (bl s1) (length s1)); lia.
  Qed.

  (* dotted quads *)
  Lemma A_quad : dotted_quad new <> O -> dotted_quad old <> O.
  Proof. apply DQ_new; [apply sep_not_digit; exact h_sep|destruct (sep_neq h h_sep) as (_ & Q & _); exact Q]. Qed.
  Lemma B_quad n : dotted_quad old = n -> (0 < n <= length s1)%nat -> dotted_quad new = n.
  Proof. apply DQ_old; [apply sep_not_digit; exact h_sep|destruct (sep_neq h h_sep) as (_ & Q & _); exact Q]. Qed.
End Stable.

(* ------------------------------------------------------------------ all classes together *)
Lemma find_transfer {A} (q q' : A -> bool) l k :
  find q l = Some k -> (forall x, q' x = true -> q x = true) -> q' k = true -> find q' l = Some k.
Proof.
  induction l as [|a l IH]; cbn [find]; intros F T K; [discriminate|].
  destruct (q a) eqn:Qa.
  - injection F as ->. rewrite K. reflexivity.
  - destruct (q' a) eqn:Q'a; [rewrite (T a Q'a) in Qa; discriminate|]. apply IH; assumption.
Qed.

(** only a string literal starts with a double quote *)
Lemma only_string r k : extent k (34 :: r) <> O -> k = KTok TStringLit.
Proof.
  destruct k as [| | | |[]]; intros H; try reflexivity; exfalso; apply H; reflexivity.
Qed.

Section Combine.
  Variables (s1 s2 t : bytes) (h : N).
  Hypothesis s1_ne : s1 <> [].
  Hypothesis s1_valid : Valid s1.
  Hypothesis h_sep : sep h = true.
  Hypothesis h_slash : h = 47 -> s1 <> [47].
  Variables (k : lexclass) (n : nat).
  Hypothesis Hfc : first_class (s1 ++ s2) = Some (k, n).
  Hypothesis Hn : (n < length s1)%nat \/ (n = length s1 /\ skipped k = false).

  Notation old := (s1 ++ s2).
  Notation new := (s1 ++ h :: t ++ s2).

  Lemma n_facts : n = extent k old /\ (0 < n <= length s1)%nat.
  Proof. destruct (first_class_extent _ _ _ Hfc) as [E N0]. split; [exact E|lia]. Qed.

  Lemma word_case (kw : string) tk : In (kw, tk) keywords -> forallb ident_char (text kw) = true ->
    word kw new <> O -> word kw old <> O.
  Proof.
    intros Hin Hkw H. assert (AW := A_word s1 s2 t h).
    repeat (match type of AW with ?P -> _ => specialize (AW ltac:(assumption)) end).
    destruct AW as [G|[S1 F]]; [exact G|]. exfalso. destruct n_facts as [_ L].
    rewrite followed_by_end in F. pose proof (keyword_unless_ident_follows kw tk s2 Hin) as K.
    rewrite <- S1 in K. destruct s2 as [|c r]; [discriminate|]. rewrite F in K. rewrite Hfc in K.
    injection K as _ K. cbn [span] in K. rewrite F in K. lia.
  Qed.

  Lemma A_all k' : extent k' new <> O -> extent k' old <> O.
  Proof.
    destruct k' as [| | | |tk]; [apply A_ws|apply A_hash|apply A_cpp|rewrite newline_same; auto|]; try assumption.
    destruct tk; cbn [extent]; try (rewrite exactly1_same' by (assumption || reflexivity); auto; fail).
    - congruence.
    - apply A_dcolon; assumption.
    - apply (word_case "import" TImport); [cbn; tauto|reflexivity].
    - apply (word_case "let" TLet); [cbn; tauto|reflexivity].
    - intros H. assert (W : word "true" new <> O \/ word "false" new <> O) by lia.
      destruct W as [W|W]; [apply (word_case "true" TBoolLit) in W|apply (word_case "false" TBoolLit) in W];
        try (cbn; tauto); try reflexivity; lia.
    - apply A_ident; assumption.
    - apply A_quad; assumption.
    - intros H. apply A_string in H; [|assumption..]. destruct n_facts as [E L]. destruct H as [q ->].
      assert (K : k = KTok TStringLit) by (apply (only_string (q ++ s2)); cbn [app] in E; rewrite <- E; lia).
      subst k. cbn [extent] in E. rewrite <- E. lia.
    - apply A_hex; assumption.
    - apply A_int; assumption.
  Qed.

  Lemma word_same (kw : string) tk : In (kw, tk) keywords -> forallb ident_char (text kw) = true ->
    (word kw old <= length s1)%nat -> word kw new = word kw old.
  Proof.
    intros I F Hl. destruct (word kw old) as [|m] eqn:W.
    - destruct (word kw new) eqn:W'; [reflexivity|]. exfalso.
      apply (word_case kw tk I F); [rewrite W'; lia|exact W].
    - apply B_word; try assumption. lia.
  Qed.

  Lemma B_all : extent k new = n.
  Proof.
    destruct n_facts as [E L]. symmetry in E. pose proof word_same as WS. clear Hfc.
    destruct k as [| | | |tk].
    - apply B_ws; [assumption..|]. destruct Hn as [Q|[_ Q]]; [lia|discriminate].
    - apply B_hash; [assumption..|]. destruct Hn as [Q|[_ Q]]; [lia|discriminate].
    - apply B_cpp; [assumption..|]. destruct Hn as [Q|[_ Q]]; [lia|discriminate].
    - rewrite newline_same; assumption.
    - destruct tk; cbn [extent] in *; try (rewrite exactly1_same' by (assumption || reflexivity); exact E; fail).
      + lia.
      + apply B_dcolon; assumption.
      + apply B_word; assumption.
      + apply B_word; assumption.
      + rewrite (WS "true"%string TBoolLit), (WS "false"%string TBoolLit); try (cbn; tauto); try reflexivity; try lia.
      + apply B_ident; assumption.
      + apply B_quad; assumption.
      + apply B_string; assumption.
      + apply B_hex; assumption.
      + apply B_int; assumption.
  Qed.

  Theorem fc_stable : first_class new = Some (k, n).
  Proof.
    pose proof B_all as B. pose proof A_all as A. destruct n_facts as [E L].
    unfold first_class in *.
    destruct (find (fun k0 => negb (Nat.eqb (extent k0 old) 0)) classes) as [k0|] eqn:F; [|discriminate].
    injection Hfc as K _. subst k0.
    rewrite (find_transfer _ (fun k0 => negb (Nat.eqb (extent k0 new) 0)) _ _ F).
    - rewrite B. reflexivity.
    - intros x Hx. apply negb_true_iff in Hx. apply Nat.eqb_neq in Hx. apply A in Hx.
      apply negb_true_iff. apply Nat.eqb_neq. exact Hx.
    - rewrite B. apply negb_true_iff. apply Nat.eqb_neq. lia.
  Qed.
End Combine.
