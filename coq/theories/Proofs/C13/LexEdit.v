(** C13, lexical part 3: the edits the property names, on one line, and what they do to the
    result of Lexer::line as modelled ([Scanner.lex_line]): nothing, locations aside.

    Where blank space IS significant in this lexer the hypotheses say so: blank space may be
    inserted only at a lexeme boundary ([lexeme_boundary]) -- not inside a string literal, not
    between the characters of a token such as ::, a number, a dotted quad or an identifier; a
    comment may be appended only to a line that lexes to its end (so not inside an unterminated
    string), and a // comment not directly after a token / . *)
From RS Require Import Base.Bytes Base.Outcome Base.Utf8 Lex.Tokens Lex.LexClass Lex.Scanner Lex.LexSpec.
From RS Require Import Proofs.BytesLemmas.
From RS.Proofs.C10 Require Import Utf8Facts RuleFacts Theorems Merge SpecEquiv Maximal Meets Final.
From RS.Proofs.C13 Require Import Stable LexCuts.
From Coq Require Import ZArith Lia ZifyBool ZifyNat ZifyN.
Ltac Zify.zify_post_hook ::= Z.div_mod_to_equations.
Open Scope N_scope.

(** [a] is cut into whole lexemes when the line [a ++ b] is lexed from its start *)
Definition lexeme_boundary (a b : bytes) : Prop := exists la, cuts first_class (a ++ b) la b.

(** one edit of one line *)
Inductive line_edit : bytes -> bytes -> Prop :=
| LE_blank a b w :                      (* blank space inserted at a lexeme boundary (also: line start, line end) *)
    utf8_valid (a ++ b) = true -> lexeme_boundary a b -> blank_run w ->
    line_edit (a ++ b) (a ++ w ++ b)
| LE_comment a c :                      (* a comment appended to a line that lexes to its end *)
    utf8_valid a = true -> lexeme_boundary a [] -> comment_text c -> utf8_valid c = true ->
    (hd 0 c = 47 -> last a 0 <> 47) ->
    line_edit a (a ++ c).

(** a line that holds nothing but blank space and/or a comment *)
Definition trivia_line (n : bytes) : Prop :=
  exists w c, n = w ++ c /\ blank_or_empty w /\ (c = [] \/ (comment_text c /\ utf8_valid c = true)).

(** results of Lexer::line that agree except for locations *)
Definition lex_sim (r r' : lexer * outcome (list token)) : Prop :=
  lx_pending (fst r) = lx_pending (fst r') /\
  match snd r, snd r' with
  | Ok ts, Ok ts' => map strip_loc ts = map strip_loc ts'
  | Err e, Err e' => e = e'
  | _, _ => False
  end.

Lemma spec_line_sim l l' l1 r1 l2 r2 :
  fullcut l l1 r1 -> fullcut l' l2 r2 -> sig l1 = sig l2 -> (r1 = [] <-> r2 = []) ->
  forall pend lno lno', lex_sim (as_lexer (spec_line pend lno l)) (as_lexer (spec_line pend lno' l')).
Proof.
  intros F1 F2 Hs Hr pend lno lno'. unfold spec_line, line_tokens.
  rewrite (fullcut_lexemes _ _ _ F1), (fullcut_lexemes _ _ _ F2).
  destruct r1 as [|c1 r1]; destruct r2 as [|c2 r2].
  - pose proof (assemble_strip lno 0 l1 pend) as A1. pose proof (assemble_strip lno' 0 l2 pend) as A2.
    rewrite essence_sig in A1, A2. rewrite Hs in A1. rewrite <- A2 in A1. clear A2.
    destruct (assemble lno 0 pend l1) as [ts p]. destruct (assemble lno' 0 pend l2) as [ts' p'].
    injection A1 as E1 E2. split; [exact E2|exact E1].
  - exfalso. destruct Hr as [Hr _]. specialize (Hr eq_refl). discriminate.
  - exfalso. destruct Hr as [_ Hr]. specialize (Hr eq_refl). discriminate.
  - split; reflexivity.
Qed.

Lemma valid_iff l : utf8_valid l = true <-> Valid l.
Proof. apply utf8_valid_iff. Qed.

(** an edited line is still valid UTF-8 and lexes to the same tokens, locations aside, with the
    same literal left pending; or to the same error *)
Theorem line_edit_lex l l' : line_edit l l' ->
  utf8_valid l = true /\ utf8_valid l' = true /\
  forall lx lx' lno lno', lx_pending lx = lx_pending lx' ->
    lex_sim (lex_line lx lno l) (lex_line lx' lno' l').
Proof.
  intros H. destruct H as [a b w Hv [la Hc] Hw|a c Hv [la Hc] Hcm Hvc Hsl].
  - pose proof Hv as V. apply valid_iff in V.
    assert (Vb : Valid b) by (apply (cuts_valid _ _ _ Hc V)).
    assert (Va : Valid a) by (apply (valid_prefix _ _ b eq_refl V Vb)).
    assert (V' : Valid (a ++ w ++ b)).
    { apply valid_app; [exact Va|]. apply valid_app; [apply blank_valid; apply Hw|exact Vb]. }
    split; [exact Hv|]. split; [apply valid_iff; exact V'|].
    intros lx lx' lno lno' Hp.
    rewrite (scan_meets_spec lx lno _ Hv), (scan_meets_spec lx' lno' _ (proj2 (valid_iff _) V')), Hp.
    pose proof (lexemes_fullcut (a ++ b)) as F1.
    destruct (insert_blank a b la w _ _ Hc V Hw F1) as (l2 & F2 & S2).
    eapply spec_line_sim; [exact F1|exact F2|symmetry; exact S2|tauto].
  - pose proof Hv as V. apply valid_iff in V. pose proof Hvc as Vc. apply valid_iff in Vc.
    rewrite app_nil_r in Hc.
    assert (V' : Valid (a ++ c)) by (apply valid_app; assumption).
    split; [exact Hv|]. split; [apply valid_iff; exact V'|].
    intros lx lx' lno lno' Hp.
    rewrite (scan_meets_spec lx lno _ Hv), (scan_meets_spec lx' lno' _ (proj2 (valid_iff _) V')), Hp.
    destruct (append_comment a la c Hc V Hcm Hsl) as (l2 & C2 & S2).
    eapply (spec_line_sim a (a ++ c) la [] l2 []); [split; [exact Hc|left; reflexivity]|split; [exact C2|left; reflexivity]|symmetry; exact S2|tauto].
Qed.

(** an unchanged line on another line number, with the same literal pending *)
Theorem same_line_lex l : utf8_valid l = true ->
  forall lx lx' lno lno', lx_pending lx = lx_pending lx' -> lex_sim (lex_line lx lno l) (lex_line lx' lno' l).
Proof.
  intros Hv lx lx' lno lno' Hp. rewrite (scan_meets_spec lx lno _ Hv), (scan_meets_spec lx' lno' _ Hv), Hp.
  pose proof (lexemes_fullcut l) as F. eapply spec_line_sim; [exact F|exact F|reflexivity|tauto].
Qed.

(** a line of blank space and/or a comment yields no token and keeps the pending literal *)
Theorem trivia_lex n : trivia_line n ->
  utf8_valid n = true /\ forall lx lno, exists lx', lex_line lx lno n = (lx', Ok []) /\ lx_pending lx' = lx_pending lx.
Proof.
  intros (w & c & -> & Hw & Hc).
  assert (Vw : Valid w) by (apply blank_valid; exact Hw).
  assert (C : exists ls, cuts first_class (w ++ c) ls [] /\ sig ls = [] /\ Valid (w ++ c)).
  { destruct Hc as [->|[Hcm Hvc]].
    - rewrite app_nil_r. destruct w as [|h t] eqn:Ew.
      + exists []. split; [reflexivity|]. split; [reflexivity|constructor].
      + rewrite <- Ew in *. assert (Hr : blank_run w) by (split; [rewrite Ew; discriminate|exact Hw]).
        assert (F0 : fullcut [] [] []) by (split; [reflexivity|left; reflexivity]).
        destruct (ws_front w [] [] [] Hr F0) as (l2 & [C2 _] & S2).
        rewrite app_nil_r in C2. exists l2. split; [exact C2|]. split; [exact S2|exact Vw].
    - pose proof Hvc as Vc. apply valid_iff in Vc.
      destruct (fc_comment c Hcm) as (kc & Skc & Fc). destruct (comment_head c Hcm) as (h & t & Ec & Hh & Blc & Cne).
      assert (Cc : fullcut c [(kc, c)] []).
      { split; [|left; reflexivity]. cbn [cuts]. split; [exact Cne|]. split; [exact Fc|].
        exists []. split; [symmetry; apply app_nil_r|reflexivity]. }
      destruct w as [|h0 t0] eqn:Ew.
      + exists [(kc, c)]. cbn [app]. split; [apply Cc|]. split; [|exact Vc]. cbn [sig filter fst]. rewrite Skc. reflexivity.
      + rewrite <- Ew in *. assert (Hr : blank_run w) by (split; [rewrite Ew; discriminate|exact Hw]).
        destruct (ws_front w c _ _ Hr Cc) as (l2 & [C2 _] & S2). exists l2. split; [exact C2|]. split; [|apply valid_app; assumption].
        rewrite S2. cbn [sig filter fst]. rewrite Skc. reflexivity. }
  destruct C as (ls & Hcut & Hsig & V). assert (Hv : utf8_valid (w ++ c) = true) by (apply valid_iff; exact V).
  split; [exact Hv|]. intros lx lno. rewrite (scan_meets_spec lx lno _ Hv).
  unfold spec_line, line_tokens. rewrite (fullcut_lexemes _ ls []) by (split; [exact Hcut|left; reflexivity]).
  pose proof (assemble_strip lno 0 ls (lx_pending lx)) as A. rewrite essence_sig, Hsig in A.
  destruct (assemble lno 0 (lx_pending lx) ls) as [ts p]. cbn in A. injection A as E1 E2.
  destruct ts; [|discriminate]. eexists. split; [reflexivity|]. cbn. exact E2.
Qed.

(* ------------------------------------------------------------------ the hypotheses are decidable *)
Definition bytes_eqb (x y : bytes) : bool := if list_eq_dec N.eq_dec x y then true else false.

(** is [a] a whole number of lexemes of the line [a ++ b]? *)
Definition boundaryb (a b : bytes) : bool :=
  let ls := fst (lexemes first_class (length (a ++ b)) (a ++ b)) in
  existsb (fun n => bytes_eqb (concat (map snd (firstn n ls))) a) (seq 0 (S (length ls))).

Lemma boundaryb_sound a b : boundaryb a b = true -> lexeme_boundary a b.
Proof.
  unfold boundaryb. intros H. apply existsb_exists in H. destruct H as (n & _ & E).
  unfold bytes_eqb in E. destruct (list_eq_dec N.eq_dec _ a) as [Ea|]; [|discriminate].
  pose proof (lexemes_fullcut (a ++ b)) as [C _].
  set (ls := fst (lexemes first_class (length (a ++ b)) (a ++ b))) in *.
  rewrite <- (firstn_skipn n ls) in C. apply cuts_app in C. destruct C as (mid & C1 & _).
  exists (firstn n ls). pose proof (cuts_concat first_class _ _ _ C1) as Q. rewrite Ea in Q.
  apply app_inv_head in Q. subst mid. exact C1.
Qed.

Definition blank_runb (w : bytes) : bool := negb (Nat.eqb (length w) 0) && Nat.eqb (bl w) (length w).
Lemma blank_runb_sound w : blank_runb w = true -> blank_run w.
Proof.
  unfold blank_runb. intros H. apply andb_true_iff in H. destruct H as [H1 H2].
  apply Nat.eqb_eq in H2. split; [|exact H2]. intros ->. discriminate.
Qed.

Definition comment_textb (c : bytes) : bool :=
  (match c with 35 :: _ => true | 47 :: 47 :: _ => true | _ => false end) && Nat.eqb (to_eol c) (length c).
Lemma comment_textb_sound c : comment_textb c = true -> comment_text c.
Proof.
  unfold comment_textb. intros H. apply andb_true_iff in H. destruct H as [H1 H2]. apply Nat.eqb_eq in H2.
  split; [|exact H2]. destruct c as [|c0 r]; [discriminate|].
  destruct (N.eq_dec c0 35) as [->|N35]; [left; eexists; reflexivity|].
  destruct (N.eq_dec c0 47) as [->|N47].
  - right. destruct r as [|c1 r]; [discriminate|]. destruct (N.eq_dec c1 47) as [->|N1]; [eexists; reflexivity|].
    exfalso. destruct c1 as [|p]; [discriminate|]. do 6 (try (destruct p as [p|p|]; try discriminate)). congruence.
  - exfalso. destruct c0 as [|p]; [discriminate|]. do 6 (try (destruct p as [p|p|]; try discriminate)); congruence.
Qed.
