(** C13, interpreter part: the interpreter stores locations (into p_loc and p_warnings) and
    never reads them.  Statements that differ in their locations only have the same effect on
    everything else: packets written, clock, registers, imports, heap, library calls, the number
    of warnings, and the kind of error when they fail. *)
From RS Require Import Base.Bytes Base.Outcome Bind.Types Bind.Binder Pkt.Packet Pkt.Pcap
  Lex.Tokens Interp.Val Interp.Ast Interp.Eval Lib.LibBase Parse.Grammar.
Open Scope N_scope.

(** a program state with its locations blanked *)
Definition norm (p : prog) : prog :=
  {| p_now := p_now p; p_regs := p_regs p; p_imports := p_imports p; p_heap := p_heap p; p_out := p_out p;
     p_loc := nil_loc; p_warnings := map (fun _ => nil_loc) (p_warnings p); p_trace := p_trace p |}.

Definition norm_res {A} (r : res A) : res A :=
  match r with ROk a p => ROk a (norm p) | RErr e p => RErr e (norm p) | RPanic s p => RPanic s (norm p) end.

Lemma norm_idem p : norm (norm p) = norm p.
Proof. unfold norm. cbn. rewrite map_map. reflexivity. Qed.

Lemma rbind_norm {A B} (x : res A) (f f' : A -> prog -> res B) :
  (forall a p, f' a (norm p) = norm_res (f a p)) -> rbind (norm_res x) f' = norm_res (rbind x f).
Proof. intros H. destruct x; cbn [norm_res rbind]; [apply H|reflexivity|reflexivity]. Qed.

Lemma lift_norm {A} p (x : outcome A) : lift (norm p) x = norm_res (lift p x).
Proof. destruct x; reflexivity. Qed.

Section Erase.
Variable functions : list funcdef.
Variable classes : list (string * list (string * string)).
Variable modules : list (string * list (string * symbol)).
Variable exec : string -> option nat -> list val -> list val -> heap -> option libres.

Notation eval := (eval functions classes modules exec).
Notation call := (call functions exec).
Notation add_stmt := (add_stmt functions classes modules exec).
Notation add_stmts := (add_stmts functions classes modules exec).
Notation eval_obj_ref := (eval_obj_ref classes modules).

Lemma eval_obj_ref_norm p ms cs : eval_obj_ref (norm p) ms cs = eval_obj_ref p ms cs.
Proof. reflexivity. Qed.

Lemma call_norm p key this vs : call (norm p) key this vs = norm_res (call p key this vs).
Proof.
  unfold Eval.call. destruct (find_func functions key) as [f|]; [|reflexivity].
  rewrite lift_norm. apply rbind_norm. intros [slots extra] q. cbn [norm p_heap].
  destruct (exec key this slots extra (p_heap q)) as [r|]; [|reflexivity].
  change (add_trace (norm q) key) with (norm (add_trace q key)). rewrite lift_norm.
  apply rbind_norm. intros [v h] q'. destruct (vtype_eqb (val_type v) (fd_ret f)); reflexivity.
Qed.

Lemma eval_erase : forall e p, eval (norm p) (erase_expr e) = norm_res (eval p e).
Proof.
  fix IH 1. intros e p. destruct e as [|l v|l ms cs|l ms cs args|a b].
  - reflexivity.
  - reflexivity.
  - cbn [erase_expr Eval.eval]. change (set_loc (norm p) L0) with (norm (set_loc p l)).
    rewrite eval_obj_ref_norm. apply lift_norm.
  - cbn [erase_expr Eval.eval]. change (set_loc (norm p) L0) with (norm (set_loc p l)).
    rewrite eval_obj_ref_norm, lift_norm. apply rbind_norm. intros callee q.
    set (ea := fix eval_args (p0 : prog) (l0 : list (option string * expr)) {struct l0} : res (list (option string * val)) :=
                 match l0 with
                 | [] => ROk [] p0
                 | (n, a) :: r => rbind (eval p0 a) (fun v p1 => rbind (eval_args p1 r) (fun vs p2 => ROk ((n, v) :: vs) p2))
                 end).
    assert (EA : forall l0 p0, ea (norm p0) (map (fun a => (fst a, erase_expr (snd a))) l0) = norm_res (ea p0 l0)).
    { clear - IH. induction l0 as [|[n a] r IHr]; intros p0; [reflexivity|].
      cbn [map fst snd ea]. rewrite IH. apply rbind_norm. intros v p1. rewrite IHr.
      apply rbind_norm. intros vs p2. reflexivity. }
    destruct callee; try reflexivity.
    + rewrite EA. apply rbind_norm. intros vs p2. apply call_norm.
    + rewrite EA. apply rbind_norm. intros vs p2. apply call_norm.
  - cbn [erase_expr Eval.eval]. rewrite IH. apply rbind_norm. intros va q.
    destruct (negb (vtype_eqb (val_type va) TIp4)); [reflexivity|].
    cbn [norm p_loc]. rewrite IH. apply rbind_norm. intros vb q'.
    destruct (negb (is_integral (val_type vb))); [reflexivity|].
    change (set_loc (norm q') nil_loc) with (norm (set_loc q' (p_loc q))).
    rewrite lift_norm. apply rbind_norm. intros ip q2. rewrite lift_norm. apply rbind_norm. intros port q3.
    destruct (65535 <? port); reflexivity.
Qed.

Lemma update_time_norm p ns : update_time (norm p) ns = norm_res (update_time p ns).
Proof. unfold update_time. cbn [norm p_now]. destruct (p_now p + ns <? two64); reflexivity. Qed.

Lemma advance_all_norm : forall ks p, advance_all (norm p) ks = norm_res (advance_all p ks).
Proof.
  induction ks as [|k r IH]; intros p; [reflexivity|]. cbn [advance_all].
  rewrite update_time_norm. apply rbind_norm. intros _ q. apply IH.
Qed.

Lemma write_all_norm : forall ks p, write_all (norm p) ks = norm_res (write_all p ks).
Proof.
  induction ks as [|k r IH]; intros p; [reflexivity|]. cbn [write_all]. cbn [norm p_now].
  change (p_now p) with (p_now p). rewrite lift_norm. apply rbind_norm. intros [b u] q.
  change (add_out (norm q) b) with (norm (add_out q b)). apply IH.
Qed.

Lemma emit_val_norm p v : emit_val (norm p) v = norm_res (emit_val p v).
Proof.
  destruct v; cbn [emit_val]; try reflexivity.
  - rewrite update_time_norm. apply rbind_norm. intros _ q. apply write_all_norm.
  - rewrite advance_all_norm. apply rbind_norm. intros _ q. apply write_all_norm.
  - apply update_time_norm.
Qed.

Theorem add_stmt_erase s p : add_stmt (norm p) (erase_stmt s) = norm_res (add_stmt p s).
Proof.
  destruct s as [l name|l target rv|e]; cbn [erase_stmt Eval.add_stmt].
  - change (set_loc (norm p) L0) with (norm (set_loc p l)). cbn [norm p_imports set_loc].
    destruct (assoc name (p_imports p)); [reflexivity|].
    destruct (assoc EmptyString modules) as [syms|]; [|reflexivity].
    destruct (assoc name syms) as [[]|]; reflexivity.
  - change (set_loc (norm p) L0) with (norm (set_loc p l)). cbn [norm p_regs set_loc].
    destruct (assoc target (p_regs p)); [reflexivity|].
    change {| p_now := p_now p; p_regs := p_regs p; p_imports := p_imports p; p_heap := p_heap p; p_out := p_out p;
              p_loc := nil_loc; p_warnings := map (fun _ => nil_loc) (p_warnings p); p_trace := p_trace p |}
      with (norm (set_loc p l)).
    rewrite eval_erase. apply rbind_norm. intros v q. reflexivity.
  - rewrite eval_erase. apply rbind_norm. intros v q. apply emit_val_norm.
Qed.

Theorem add_stmts_erase : forall ss p, add_stmts (norm p) (map erase_stmt ss) = norm_res (add_stmts p ss).
Proof.
  induction ss as [|s r IH]; intros p; [reflexivity|]. cbn [map Eval.add_stmts].
  rewrite add_stmt_erase. apply rbind_norm. intros _ q. apply IH.
Qed.

(** two runs from states that agree except for locations, over statements that agree except for
    locations *)
Corollary add_stmts_sim ss ss' p p' : map erase_stmt ss = map erase_stmt ss' -> norm p = norm p' ->
  norm_res (add_stmts p ss) = norm_res (add_stmts p' ss').
Proof. intros Hs Hp. rewrite <- !add_stmts_erase, Hs, Hp. reflexivity. Qed.

End Erase.
