(** C13, batch part: the CLI loop over several inputs (Interp/Batch.v).  What is reported for an
    input, and what is left at an output path, is what compiling the input alone reports and leaves
    -- unless its output path was used by an earlier input, in which case it is refused and touches
    nothing; the exit status is failure iff something other than "ok" was reported; permuting inputs
    with distinct output paths permutes the reports. *)
From RS Require Import Base.Bytes Base.Outcome Bind.Types Lex.Tokens Interp.Run Interp.Batch.
From Coq Require Import Permutation PeanoNat Lia.
Open Scope N_scope.

Definition panics (files : list (bytes * bytes)) (i : input) : Prop :=
  exists s, run_src files (in_src i) = RunPanic s.
Definition is_panic_b (files : list (bytes * bytes)) (i : input) : bool :=
  match run_src files (in_src i) with RunPanic _ => true | _ => false end.

(** the output paths a list of inputs asks for *)
Definition outs (l : list input) : list string :=
  flat_map (fun i => match in_out i with Some o => [o] | None => [] end) l.

(** what is reported for an input compiled on its own *)
Definition alone_report (files : list (bytes * bytes)) (i : input) : report :=
  match in_out i with
  | None => {| rp_in := in_path i; rp_verdict := RefusedNoName |}
  | Some _ => report_of files i
  end.
Definition refusal (i : input) (o : string) : report := {| rp_in := in_path i; rp_verdict := RefusedOutputUsed o |}.

(** a report that is not "<in> -> <out> ok" *)
Definition bad_report (r : report) : Prop :=
  match rp_verdict r with Compiled (RunOk _ _ _) => False | _ => True end.

(** the reports of a batch, by recursion on the inputs, given the output paths already used:
    stops after an input that panics *)
Fixpoint expected (files : list (bytes * bytes)) (us : list string) (l : list input) : list report :=
  match l with
  | [] => []
  | i :: r =>
    match in_out i with
    | None => alone_report files i :: expected files us r
    | Some o =>
      if used o us then refusal i o :: expected files us r
      else report_of files i :: (if is_panic_b files i then [] else expected files (us ++ [o]) r)
    end
  end.

(** the first input that asks for the output path [o] *)
Definition asks_for (o : string) (i : input) : bool :=
  match in_out i with Some o' => String.eqb o o' | None => false end.
Definition first_for (o : string) (l : list input) : option input := find (asks_for o) l.

Lemma used_app o a b : used o (a ++ b) = used o a || used o b.
Proof. unfold used. apply existsb_app. Qed.
Lemma used_in o l : used o l = true <-> In o l.
Proof.
  unfold used. rewrite existsb_exists. split.
  - intros (x & Hx & E). apply String.eqb_eq in E. subst. exact Hx.
  - intros H. exists o. split; [exact H|apply String.eqb_refl].
Qed.

Section Batch.
Variable keep : bool.
Variable files : list (bytes * bytes).

Notation step := (batch_step keep files).

Lemma fold_aborted : forall l st s, b_aborted st = Some s -> fold_left step l st = st.
Proof.
  induction l as [|i r IH]; intros st s H; [reflexivity|]. cbn [fold_left].
  assert (E : step st i = st) by (unfold batch_step; rewrite H; reflexivity). rewrite E. eapply IH; eauto.
Qed.

(** one step, case by case *)
Lemma step_noname st i : b_aborted st = None -> in_out i = None -> step st i = refuse st i RefusedNoName.
Proof. intros H E. unfold batch_step. rewrite H, E. reflexivity. Qed.
Lemma step_used st i o : b_aborted st = None -> in_out i = Some o -> used o (b_used st) = true ->
  step st i = refuse st i (RefusedOutputUsed o).
Proof. intros H E U. unfold batch_step. rewrite H, E, U. reflexivity. Qed.
Lemma step_compiled st i o : b_aborted st = None -> in_out i = Some o -> used o (b_used st) = false ->
  b_reports (step st i) = b_reports st ++ [report_of files i]
  /\ b_used (step st i) = b_used st ++ [o]
  /\ (is_panic_b files i = false -> b_aborted (step st i) = None)
  /\ (is_panic_b files i = true -> exists s, b_aborted (step st i) = Some s)
  /\ (b_status (step st i) = ExitFailure <-> b_status st = ExitFailure \/ bad_report (report_of files i)).
Proof.
  intros H E U. unfold batch_step, is_panic_b, bad_report, report_of. rewrite H, E, U. cbv zeta. cbn [rp_verdict].
  destruct (run_src files (in_src i)); cbn [b_reports b_used b_aborted b_status]; repeat split; eauto; try discriminate; tauto.
Qed.

(** the reports of the whole batch *)
Lemma fold_reports : forall l st, b_aborted st = None ->
  b_reports (fold_left step l st) = b_reports st ++ expected files (b_used st) l.
Proof.
  induction l as [|i r IH]; intros st H; [cbn; rewrite app_nil_r; reflexivity|].
  cbn [fold_left expected]. destruct (in_out i) as [o|] eqn:E.
  - destruct (used o (b_used st)) eqn:U.
    + rewrite (step_used st i o H E U). rewrite IH by reflexivity. cbn [refuse b_reports b_used].
      rewrite <- app_assoc. reflexivity.
    + destruct (step_compiled st i o H E U) as (R & Us & A0 & A1 & _).
      destruct (is_panic_b files i) eqn:P.
      * destruct (A1 eq_refl) as [s A]. rewrite (fold_aborted r _ s A), R. reflexivity.
      * rewrite IH by (apply A0; reflexivity). rewrite R, Us, <- app_assoc. reflexivity.
  - rewrite (step_noname st i H E). rewrite IH by reflexivity. cbn [refuse b_reports b_used].
    rewrite <- app_assoc. unfold alone_report. rewrite E. reflexivity.
Qed.

Theorem batch_reports f inputs : b_reports (run_batch keep files f inputs) = expected files [] inputs.
Proof. unfold run_batch. rewrite fold_reports by reflexivity. reflexivity. Qed.

(** without panics: every input gets exactly one report, and the used paths are those asked for *)
Lemma expected_np : forall l, Forall (fun i => ~ panics files i) l ->
  forall us, length (expected files us l) = length l.
Proof.
  induction 1 as [|i r Hi _ IH]; intros us; [reflexivity|]. cbn [expected length].
  destruct (in_out i) as [o|]; [|cbn [length]; rewrite IH; reflexivity].
  destruct (used o us); cbn [length]; [rewrite IH; reflexivity|].
  unfold is_panic_b. destruct (run_src files (in_src i)) eqn:E; try (rewrite IH; reflexivity).
  exfalso. apply Hi. eexists; exact E.
Qed.

Lemma expected_app : forall pre us rest, Forall (fun i => ~ panics files i) pre ->
  exists us', expected files us (pre ++ rest) = expected files us pre ++ expected files us' rest
              /\ (forall o, used o us' = used o us || used o (outs pre)).
Proof.
  induction pre as [|i r IH]; intros us rest Hp.
  - exists us. split; [reflexivity|]. intros o. cbn. rewrite orb_false_r. reflexivity.
  - inversion Hp as [|? ? Hi Hr]; subst. cbn [app expected outs flat_map]. fold (outs r).
    destruct (in_out i) as [o|] eqn:E.
    + destruct (used o us) eqn:U.
      * destruct (IH us rest Hr) as (us' & E1 & E2). exists us'. split; [rewrite E1; reflexivity|].
        intros o'. rewrite E2, used_app. cbn [used existsb]. rewrite orb_false_r.
        destruct (String.eqb o' o) eqn:Q; [apply String.eqb_eq in Q; subst o'; rewrite U; reflexivity|reflexivity].
      * assert (P : is_panic_b files i = false).
        { unfold is_panic_b. destruct (run_src files (in_src i)) eqn:Q; try reflexivity. exfalso. apply Hi. eexists; exact Q. }
        rewrite P. destruct (IH (us ++ [o]) rest Hr) as (us' & E1 & E2). exists us'. split; [rewrite E1; reflexivity|].
        intros o'. rewrite E2, !used_app. cbn [used existsb]. rewrite !orb_false_r, orb_assoc. reflexivity.
    + destruct (IH us rest Hr) as (us' & E1 & E2). exists us'. split; [rewrite E1; reflexivity|].
      intros o'. rewrite E2. reflexivity.
Qed.

(** the report for an input at any position of any batch: the report of compiling it alone, unless
    an earlier input already took its output path -- then the refusal *)
Theorem batch_report_alone f f' pre x post :
  Forall (fun i => ~ panics files i) pre ->
  nth_error (b_reports (run_batch keep files f (pre ++ x :: post))) (length pre)
  = Some (match in_out x with
          | Some o => if used o (outs pre) then refusal x o else alone_report files x
          | None => alone_report files x
          end)
  /\ nth_error (b_reports (run_batch keep files f' [x])) 0 = Some (alone_report files x).
Proof.
  intros Hp. rewrite !batch_reports. split.
  - destruct (expected_app pre [] (x :: post) Hp) as (us' & E1 & E2). rewrite E1.
    rewrite nth_error_app2 by (rewrite expected_np by exact Hp; apply Nat.le_refl).
    rewrite expected_np by exact Hp. rewrite Nat.sub_diag. cbn [expected]. unfold alone_report.
    destruct (in_out x) as [o|]; [|reflexivity]. rewrite E2. cbn [used existsb orb].
    fold (used o (outs pre)). destruct (used o (outs pre)); reflexivity.
  - cbn [expected]. unfold alone_report. destruct (in_out x); reflexivity.
Qed.

(** the exit status is failure iff something other than "ok" was reported *)
Lemma fold_status : forall l st,
  (b_status st = ExitFailure <-> exists r, In r (b_reports st) /\ bad_report r) ->
  (b_status (fold_left step l st) = ExitFailure <-> exists r, In r (b_reports (fold_left step l st)) /\ bad_report r).
Proof.
  induction l as [|i r IH]; intros st Inv; [exact Inv|]. cbn [fold_left]. apply IH.
  destruct (b_aborted st) as [s|] eqn:A; [unfold batch_step; rewrite A; exact Inv|].
  assert (Ref : forall v, (v = RefusedNoName \/ exists o, v = RefusedOutputUsed o) ->
            (b_status (refuse st i v) = ExitFailure <-> exists r0, In r0 (b_reports (refuse st i v)) /\ bad_report r0)).
  { intros v Hv. cbn [refuse b_status b_reports]. split; [|reflexivity]. intros _.
    exists {| rp_in := in_path i; rp_verdict := v |}. split; [apply in_or_app; right; left; reflexivity|].
    unfold bad_report. cbn. destruct Hv as [->|[o ->]]; exact I. }
  destruct (in_out i) as [o|] eqn:E.
  - destruct (used o (b_used st)) eqn:U.
    + rewrite (step_used st i o A E U). apply Ref. right. eexists; reflexivity.
    + destruct (step_compiled st i o A E U) as (R & _ & _ & _ & S). rewrite S, R, Inv. split.
      * intros [(r0 & I0 & B0)|B]; [exists r0; split; [apply in_or_app; left; exact I0|exact B0]|].
        exists (report_of files i). split; [apply in_or_app; right; left; reflexivity|exact B].
      * intros (r0 & I0 & B0). apply in_app_or in I0. destruct I0 as [I0|[<-|[]]]; [left; eauto|right; exact B0].
  - rewrite (step_noname st i A E). apply Ref. left. reflexivity.
Qed.

Theorem batch_status f inputs :
  b_status (run_batch keep files f inputs) = ExitFailure <->
  exists r, In r (b_reports (run_batch keep files f inputs)) /\ bad_report r.
Proof.
  unfold run_batch. apply fold_status. cbn. split; [discriminate|intros (r & [] & _)].
Qed.

(** inputs with pairwise distinct output paths: everything is as if compiled alone, so permuting the
    inputs permutes the reports and keeps the exit status *)
Lemma expected_distinct : forall l us, Forall (fun i => ~ panics files i) l -> NoDup (outs l) ->
  (forall o, In o (outs l) -> used o us = false) ->
  expected files us l = map (alone_report files) l.
Proof.
  induction l as [|i r IH]; intros us Hp Hd Hu; [reflexivity|].
  inversion Hp as [|? ? Hi Hr]; subst. cbn [expected map outs flat_map] in *. fold (outs r) in *. unfold alone_report at 2.
  destruct (in_out i) as [o|] eqn:E.
  - cbn [app] in Hd, Hu. inversion Hd as [|? ? Hni Hd']; subst.
    rewrite (Hu o (or_introl eq_refl)).
    assert (P : is_panic_b files i = false).
    { unfold is_panic_b. destruct (run_src files (in_src i)) eqn:Q; try reflexivity. exfalso. apply Hi. eexists; exact Q. }
    rewrite P. f_equal. apply IH; try assumption. intros o' Ho'. rewrite used_app, (Hu o' (or_intror Ho')).
    cbn [used existsb orb]. rewrite orb_false_r. destruct (String.eqb o' o) eqn:Q; [|reflexivity].
    apply String.eqb_eq in Q. subst o'. contradiction.
  - cbn [app] in Hd, Hu. unfold alone_report at 1. rewrite E. f_equal. apply IH; assumption.
Qed.

Theorem batch_permutation f f' inputs inputs' :
  Forall (fun i => ~ panics files i) inputs -> NoDup (outs inputs) -> Permutation inputs inputs' ->
  b_reports (run_batch keep files f inputs) = map (alone_report files) inputs
  /\ Permutation (b_reports (run_batch keep files f inputs)) (b_reports (run_batch keep files f' inputs'))
  /\ b_status (run_batch keep files f inputs) = b_status (run_batch keep files f' inputs').
Proof.
  intros Hp Hd P.
  assert (Hp' : Forall (fun i => ~ panics files i) inputs').
  { rewrite Forall_forall in *. intros i Hi. apply Hp. eapply Permutation_in; [apply Permutation_sym; exact P|exact Hi]. }
  assert (Hd' : NoDup (outs inputs')).
  { eapply Permutation_NoDup; [|exact Hd]. unfold outs. apply Permutation_flat_map. exact P. }
  assert (R1 : b_reports (run_batch keep files f inputs) = map (alone_report files) inputs)
    by (rewrite batch_reports; apply expected_distinct; [assumption..|reflexivity]).
  assert (R2 : b_reports (run_batch keep files f' inputs') = map (alone_report files) inputs')
    by (rewrite batch_reports; apply expected_distinct; [assumption..|reflexivity]).
  assert (PR : Permutation (b_reports (run_batch keep files f inputs)) (b_reports (run_batch keep files f' inputs')))
    by (rewrite R1, R2; apply Permutation_map; exact P).
  split; [exact R1|]. split; [exact PR|].
  pose proof (batch_status f inputs) as S1. pose proof (batch_status f' inputs') as S2.
  assert (Q : (exists r, In r (b_reports (run_batch keep files f inputs)) /\ bad_report r) <->
              (exists r, In r (b_reports (run_batch keep files f' inputs')) /\ bad_report r)).
  { split; intros (r & Hi & Hb); exists r; (split; [|exact Hb]);
      [eapply Permutation_in; [exact PR|exact Hi]|eapply Permutation_in; [apply Permutation_sym; exact PR|exact Hi]]. }
  destruct (b_status (run_batch keep files f inputs)); destruct (b_status (run_batch keep files f' inputs')); try reflexivity; exfalso.
  - assert (X : ExitSuccess = ExitFailure) by (apply S1, Q, S2; reflexivity). discriminate.
  - assert (X : ExitSuccess = ExitFailure) by (apply S2, Q, S1; reflexivity). discriminate.
Qed.

(** ** the output paths *)
Lemma lookup_remove_same p g : fs_lookup p (fs_remove p g) = None.
Proof.
  unfold fs_lookup, fs_remove. induction g as [|[q c] g IH]; [reflexivity|]. cbn [filter fst].
  destruct (String.eqb p q) eqn:E; cbn [negb]; [exact IH|]. cbn [assoc]. rewrite E. exact IH.
Qed.
Lemma lookup_remove_other p q g : p <> q -> fs_lookup p (fs_remove q g) = fs_lookup p g.
Proof.
  intros N. unfold fs_lookup, fs_remove. induction g as [|[r c] g IH]; [reflexivity|]. cbn [filter fst].
  destruct (String.eqb q r) eqn:E; cbn [negb].
  - apply String.eqb_eq in E. subst r. cbn [assoc]. destruct (String.eqb p q) eqn:E2; [apply String.eqb_eq in E2; congruence|exact IH].
  - cbn [assoc]. destruct (String.eqb p r); [reflexivity|exact IH].
Qed.
Lemma lookup_write_same p c g : fs_lookup p (fs_write p c g) = Some c.
Proof. unfold fs_lookup, fs_write. cbn [assoc]. rewrite String.eqb_refl. reflexivity. Qed.
Lemma lookup_write_other p q c g : p <> q -> fs_lookup p (fs_write q c g) = fs_lookup p g.
Proof.
  intros N. unfold fs_write. unfold fs_lookup at 1. cbn [assoc].
  destruct (String.eqb p q) eqn:E; [apply String.eqb_eq in E; congruence|]. apply lookup_remove_other. exact N.
Qed.

(** what one input leaves at its own output path when it is compiled *)
Definition leaves (i : input) : option content :=
  match run_src files (in_src i) with
  | RunOk pcap _ _ => Some (Whole pcap)
  | RunErr _ _ partial => if keep then Some (Whole partial) else None
  | RunPanic _ => Some Torn
  end.

Lemma step_fs_compiled st i o : b_aborted st = None -> in_out i = Some o -> used o (b_used st) = false ->
  fs_lookup o (b_fs (step st i)) = leaves i
  /\ forall p, p <> o -> fs_lookup p (b_fs (step st i)) = fs_lookup p (b_fs st).
Proof.
  intros H E U. unfold batch_step, leaves. rewrite H, E, U. cbv zeta.
  destruct (run_src files (in_src i)); cbn [b_fs]; (split; [try apply lookup_write_same|intros p N; try (apply lookup_write_other; exact N)]).
  - destruct keep; [apply lookup_write_same|apply lookup_remove_same].
  - destruct keep; [apply lookup_write_other|apply lookup_remove_other]; exact N.
Qed.

Lemma fold_lookup : forall l st o, b_aborted st = None -> Forall (fun i => ~ panics files i) l ->
  fs_lookup o (b_fs (fold_left step l st)) =
  if used o (b_used st) then fs_lookup o (b_fs st)
  else match first_for o l with Some x => leaves x | None => fs_lookup o (b_fs st) end.
Proof.
  induction l as [|i r IH]; intros st o H Hp.
  - cbn. destruct (used o (b_used st)); reflexivity.
  - inversion Hp as [|? ? Hi Hr]; subst. cbn [fold_left first_for find]. unfold asks_for at 1.
    destruct (in_out i) as [oi|] eqn:E.
    + destruct (used oi (b_used st)) eqn:U.
      * rewrite (step_used st i oi H E U). rewrite IH by (try reflexivity; assumption). cbn [refuse b_used b_fs].
        destruct (used o (b_used st)) eqn:Uo; [reflexivity|].
        destruct (String.eqb o oi) eqn:Q; [apply String.eqb_eq in Q; subst oi; congruence|reflexivity].
      * destruct (step_compiled st i oi H E U) as (_ & Us & A0 & _ & _).
        destruct (step_fs_compiled st i oi H E U) as [Own Oth].
        assert (P : is_panic_b files i = false).
        { unfold is_panic_b. destruct (run_src files (in_src i)) eqn:Q; try reflexivity. exfalso. apply Hi. eexists; exact Q. }
        rewrite IH by (try (apply A0; exact P); assumption). rewrite Us, used_app. cbn [used existsb]. rewrite orb_false_r.
        destruct (String.eqb o oi) eqn:Q.
        -- apply String.eqb_eq in Q. subst oi. rewrite orb_true_r. fold (used o (b_used st)). rewrite U. exact Own.
        -- rewrite orb_false_r. assert (N : o <> oi) by (intros ->; rewrite String.eqb_refl in Q; discriminate).
           rewrite (Oth o N). reflexivity.
    + rewrite (step_noname st i H E). rewrite IH by (try reflexivity; assumption). reflexivity.
Qed.

(** every output path ends up holding what the FIRST input that asked for it leaves there when that
    input is compiled alone (later inputs asking for the same path are refused and touch nothing);
    paths nobody asked for are untouched -- whatever else is on the command line, in whatever order *)
Theorem batch_outputs f f' inputs o :
  Forall (fun i => ~ panics files i) inputs ->
  match first_for o inputs with
  | Some x => fs_lookup o (b_fs (run_batch keep files f inputs)) = leaves x
              /\ fs_lookup o (b_fs (run_batch keep files f' [x])) = leaves x
  | None => fs_lookup o (b_fs (run_batch keep files f inputs)) = fs_lookup o f
  end.
Proof.
  intros Hp. unfold run_batch. rewrite (fold_lookup inputs (batch_init f) o eq_refl Hp). cbn [batch_init b_used used existsb b_fs].
  destruct (first_for o inputs) as [x|] eqn:F; [|reflexivity]. split; [reflexivity|].
  apply find_some in F. destruct F as [Hin Ha]. unfold asks_for in Ha. destruct (in_out x) as [ox|] eqn:E; [|discriminate].
  apply String.eqb_eq in Ha. subst ox.
  cbn [fold_left]. apply (step_fs_compiled (batch_init f') x o eq_refl E eq_refl).
Qed.

End Batch.
