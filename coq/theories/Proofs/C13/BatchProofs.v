(** C13, batch part: the CLI loop over several inputs (Interp/Batch.v).  What is reported for an
    input, and what is left at its output path, is what compiling it alone reports and leaves; the
    exit status is failure iff some input failed; permuting the inputs permutes the reports. *)
From RS Require Import Base.Bytes Base.Outcome Bind.Types Lex.Tokens Interp.Run Interp.Batch.
From Coq Require Import Permutation PeanoNat Lia.
Open Scope N_scope.

Definition panics (files : list (bytes * bytes)) (i : input) : Prop :=
  exists s, run_src files (in_src i) = RunPanic s.
Definition fails (files : list (bytes * bytes)) (i : input) : Prop :=
  match run_src files (in_src i) with RunOk _ _ _ => False | _ => True end.

Definition is_panic_b (files : list (bytes * bytes)) (i : input) : bool :=
  match run_src files (in_src i) with RunPanic _ => true | _ => false end.
Definition fails_b (files : list (bytes * bytes)) (i : input) : bool :=
  match run_src files (in_src i) with RunOk _ _ _ => false | _ => true end.

(** the inputs the process gets to: all of them, or up to and including the first that panics *)
Fixpoint reached (files : list (bytes * bytes)) (l : list input) : list input :=
  match l with
  | [] => []
  | i :: r => if is_panic_b files i then [i] else i :: reached files r
  end.

Lemma reached_no_panic files l : Forall (fun i => ~ panics files i) l -> reached files l = l.
Proof.
  induction 1 as [|i r Hi _ IH]; [reflexivity|]. cbn [reached]. unfold is_panic_b.
  destruct (run_src files (in_src i)) eqn:E; try (rewrite IH; reflexivity).
  exfalso. apply Hi. eexists; exact E.
Qed.

Section Batch.
Variable keep : bool.
Variable files : list (bytes * bytes).

Notation step := (batch_step keep files).

Lemma fold_aborted : forall l st s, b_aborted st = Some s -> fold_left step l st = st.
Proof.
  induction l as [|i r IH]; intros st s H; [reflexivity|]. cbn [fold_left].
  assert (E : step st i = st) by (unfold batch_step; rewrite H; reflexivity). rewrite E. eapply IH; eauto.
Qed.

Lemma step_facts st i : b_aborted st = None ->
  b_reports (step st i) = b_reports st ++ [report_of files i]
  /\ b_status (step st i) = (if fails_b files i then ExitFailure else b_status st)
  /\ (if is_panic_b files i then exists s, b_aborted (step st i) = Some s else b_aborted (step st i) = None).
Proof.
  intros H. unfold batch_step, fails_b, is_panic_b. rewrite H. cbv zeta.
  change (rp_result (report_of files i)) with (run_src files (in_src i)).
  destruct (run_src files (in_src i)); cbn [b_reports b_status b_aborted]; repeat split; eauto.
Qed.

(** the reports and the status, for any starting accumulator that has not aborted *)
Lemma fold_reports : forall l st, b_aborted st = None ->
  b_reports (fold_left step l st) = b_reports st ++ map (report_of files) (reached files l)
  /\ (b_status (fold_left step l st) = ExitFailure <->
      b_status st = ExitFailure \/ existsb (fails_b files) (reached files l) = true).
Proof.
  induction l as [|i r IH]; intros st H.
  - cbn [fold_left reached map existsb]. rewrite app_nil_r. split; [reflexivity|]. split; [auto|intros [?|?]; [auto|discriminate]].
  - cbn [fold_left reached]. destruct (step_facts st i H) as (R & S & A). set (st' := step st i) in *.
    destruct (is_panic_b files i) eqn:P.
    + destruct A as [s A]. rewrite (fold_aborted r st' s A). rewrite R, S. cbn [map existsb]. rewrite orb_false_r.
      split; [reflexivity|]. destruct (fails_b files i); [tauto|]. split; [tauto|intros [?|?]; [assumption|discriminate]].
    + destruct (IH st' A) as [R' S']. rewrite R', R, S', S. split.
      * rewrite <- app_assoc. reflexivity.
      * cbn [existsb]. destruct (fails_b files i); cbn [orb]; [tauto|]. tauto.
Qed.

Theorem batch_reports f inputs :
  b_reports (run_batch keep files f inputs) = map (report_of files) (reached files inputs).
Proof. unfold run_batch. destruct (fold_reports inputs (batch_init f) eq_refl) as [R _]. exact R. Qed.

(** the report for an input at any position of any batch is the report of compiling it alone *)
Theorem batch_report_alone f f' pre x post :
  Forall (fun i => ~ panics files i) pre ->
  nth_error (b_reports (run_batch keep files f (pre ++ x :: post))) (length pre)
  = nth_error (b_reports (run_batch keep files f' [x])) 0.
Proof.
  intros Hp. rewrite !batch_reports.
  assert (E : reached files (pre ++ x :: post) = pre ++ reached files (x :: post)).
  { clear - Hp. induction Hp as [|i r Hi _ IH]; [reflexivity|]. cbn [app reached]. unfold is_panic_b in *.
    destruct (run_src files (in_src i)) eqn:Q; try (rewrite IH; reflexivity). exfalso. apply Hi. eexists; exact Q. }
  rewrite E, map_app. rewrite nth_error_app2 by (rewrite map_length; apply Nat.le_refl).
  rewrite map_length, Nat.sub_diag. cbn [reached]. destruct (is_panic_b files x); reflexivity.
Qed.

Theorem batch_status f inputs :
  b_status (run_batch keep files f inputs) = ExitFailure <-> exists i, In i (reached files inputs) /\ fails files i.
Proof.
  unfold run_batch. destruct (fold_reports inputs (batch_init f) eq_refl) as [_ S]. rewrite S. cbn [batch_init b_status].
  rewrite existsb_exists. split.
  - intros [H|(i & Hi & Hf)]; [discriminate|]. exists i. split; [exact Hi|]. unfold fails, fails_b in *.
    destruct (run_src files (in_src i)); [discriminate|exact I|exact I].
  - intros (i & Hi & Hf). right. exists i. split; [exact Hi|]. unfold fails, fails_b in *.
    destruct (run_src files (in_src i)); [contradiction|reflexivity|reflexivity].
Qed.

Theorem batch_permutation f f' inputs inputs' :
  Forall (fun i => ~ panics files i) inputs -> Permutation inputs inputs' ->
  Permutation (b_reports (run_batch keep files f inputs)) (b_reports (run_batch keep files f' inputs'))
  /\ b_status (run_batch keep files f inputs) = b_status (run_batch keep files f' inputs').
Proof.
  intros Hp P.
  assert (Hp' : Forall (fun i => ~ panics files i) inputs').
  { rewrite Forall_forall in *. intros i Hi. apply Hp. eapply Permutation_in; [apply Permutation_sym; exact P|exact Hi]. }
  split.
  - rewrite !batch_reports, !reached_no_panic by assumption. apply Permutation_map. exact P.
  - assert (S : forall g l, Forall (fun i => ~ panics files i) l ->
                 (b_status (run_batch keep files g l) = ExitFailure <-> exists i, In i l /\ fails files i)).
    { intros g l H. rewrite batch_status, reached_no_panic by exact H. tauto. }
    pose proof (S f inputs Hp) as S1. pose proof (S f' inputs' Hp') as S2.
    assert (Q : (exists i, In i inputs /\ fails files i) <-> (exists i, In i inputs' /\ fails files i)).
    { split; intros (i & Hi & Hf); exists i; (split; [|exact Hf]);
        [eapply Permutation_in; [exact P|exact Hi]|eapply Permutation_in; [apply Permutation_sym; exact P|exact Hi]]. }
    destruct (b_status (run_batch keep files f inputs)); destruct (b_status (run_batch keep files f' inputs')); try reflexivity; exfalso.
    + assert (X : ExitSuccess = ExitFailure) by (apply S1, Q, S2; reflexivity). discriminate.
    + assert (X : ExitSuccess = ExitFailure) by (apply S2, Q, S1; reflexivity). discriminate.
Qed.

(** ** the output paths *)
Lemma lookup_remove_same p g : fs_lookup p (fs_remove p g) = None.
Proof.
  unfold fs_lookup, fs_remove. induction g as [|[q c] g IH]; [reflexivity|]. cbn [filter fst].
  destruct (String.eqb p q) eqn:E; cbn [negb]; [exact IH|]. cbn [assoc]. rewrite E. exact IH.
Qed.
Lemma lookup_remove_other p q g : p <> q -> fs_lookup p (fs_remove q g) = fs_lookup p g.
Proof.
  intros N. unfold fs_lookup, fs_remove. induction g as [|[r c] g IH]; [reflexivity|]. cbn [filter fst].
  destruct (String.eqb q r) eqn:E; cbn [negb].
  - apply String.eqb_eq in E. subst r. cbn [assoc]. destruct (String.eqb p q) eqn:E2; [apply String.eqb_eq in E2; congruence|exact IH].
  - cbn [assoc]. destruct (String.eqb p r); [reflexivity|exact IH].
Qed.
Lemma lookup_write_same p c g : fs_lookup p (fs_write p c g) = Some c.
Proof. unfold fs_lookup, fs_write. cbn [assoc]. rewrite String.eqb_refl. reflexivity. Qed.
Lemma lookup_write_other p q c g : p <> q -> fs_lookup p (fs_write q c g) = fs_lookup p g.
Proof.
  intros N. unfold fs_write. unfold fs_lookup at 1. cbn [assoc].
  destruct (String.eqb p q) eqn:E; [apply String.eqb_eq in E; congruence|]. apply lookup_remove_other. exact N.
Qed.

(** what one input leaves at its own output path *)
Definition leaves (i : input) : option content :=
  match run_src files (in_src i) with
  | RunOk pcap _ _ => Some (Whole pcap)
  | RunErr _ _ partial => if keep then Some (Whole partial) else None
  | RunPanic _ => Some Torn
  end.

Lemma step_lookup_own st i : b_aborted st = None -> fs_lookup (in_out i) (b_fs (step st i)) = leaves i.
Proof.
  intros H. unfold batch_step, leaves. rewrite H. cbv zeta. change (rp_result (report_of files i)) with (run_src files (in_src i)).
  destruct (run_src files (in_src i)); cbn [b_fs]; try apply lookup_write_same.
  destruct keep; [apply lookup_write_same|apply lookup_remove_same].
Qed.
Lemma step_lookup_other st i p : p <> in_out i -> fs_lookup p (b_fs (step st i)) = fs_lookup p (b_fs st).
Proof.
  intros N. unfold batch_step. destruct (b_aborted st); [reflexivity|]. cbv zeta. change (rp_result (report_of files i)) with (run_src files (in_src i)).
  destruct (run_src files (in_src i)); cbn [b_fs]; try (apply lookup_write_other; exact N).
  destruct keep; [apply lookup_write_other|apply lookup_remove_other]; exact N.
Qed.

Lemma fold_lookup_other : forall l st p, ~ In p (map in_out l) ->
  fs_lookup p (b_fs (fold_left step l st)) = fs_lookup p (b_fs st).
Proof.
  induction l as [|i r IH]; intros st p N; [reflexivity|]. cbn [fold_left map In] in *.
  rewrite IH by tauto. apply step_lookup_other. intros E. apply N. left. symmetry. exact E.
Qed.

(** with pairwise distinct output paths, every output path ends up holding what its own input
    leaves there when compiled alone, whatever else is on the command line and in whatever order *)
Theorem batch_outputs f inputs x :
  NoDup (map in_out inputs) -> Forall (fun i => ~ panics files i) inputs -> In x inputs ->
  fs_lookup (in_out x) (b_fs (run_batch keep files f inputs)) = leaves x
  /\ fs_lookup (in_out x) (b_fs (run_batch keep files f [x])) = leaves x.
Proof.
  intros Hd Hp Hx. split; [|unfold run_batch; cbn [fold_left]; apply step_lookup_own; reflexivity].
  unfold run_batch. generalize (batch_init f) (eq_refl : b_aborted (batch_init f) = None).
  induction inputs as [|i r IH]; intros st Hst; [contradiction|].
  cbn [map] in Hd. inversion Hd as [|? ? Hni Hd']; subst. inversion Hp as [|? ? Hpi Hp']; subst.
  cbn [fold_left]. destruct Hx as [->|Hx].
  - rewrite fold_lookup_other by exact Hni. apply step_lookup_own. exact Hst.
  - apply IH; try assumption. unfold batch_step. rewrite Hst. cbv zeta. change (rp_result (report_of files i)) with (run_src files (in_src i)).
    destruct (run_src files (in_src i)) eqn:E; try reflexivity. exfalso. apply Hpi. eexists; exact E.
Qed.

End Batch.
