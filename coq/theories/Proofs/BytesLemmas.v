(** Arithmetic and list facts about the byte encodings. *)
From RS Require Import Base.Bytes.
From Coq Require Import ZArith Lia ZifyBool ZifyNat ZifyN.
Ltac Zify.zify_post_hook ::= Z.div_mod_to_equations.
Open Scope N_scope.

Lemma frev_rev {A} (l : list A) : frev l = rev l.
Proof. unfold frev. rewrite rev_append_rev. apply app_nil_r. Qed.

Lemma len_app {A} (a b : list A) : len (a ++ b) = len a + len b.
Proof. unfold len. rewrite app_length. lia. Qed.

Lemma len_nil {A} : len (@nil A) = 0.
Proof. reflexivity. Qed.

Lemma len_cons {A} (x : A) l : len (x :: l) = 1 + len l.
Proof. unfold len. cbn [length]. lia. Qed.

Lemma len_map {A B} (f : A -> B) l : len (map f l) = len l.
Proof. unfold len. now rewrite map_length. Qed.

Lemma len_rev {A} (l : list A) : len (rev l) = len l.
Proof. unfold len. now rewrite rev_length. Qed.

Lemma length_be16 x : length (be16 x) = 2%nat. Proof. reflexivity. Qed.
Lemma length_be32 x : length (be32 x) = 4%nat. Proof. reflexivity. Qed.
Lemma length_be64 x : length (be64 x) = 8%nat. Proof. reflexivity. Qed.
Lemma length_le32 x : length (le32 x) = 4%nat. Proof. reflexivity. Qed.
Lemma length_le16 x : length (le16 x) = 2%nat. Proof. reflexivity. Qed.

Lemma le32_unfold x :
  le32 x = [x mod 65536 mod 256; (x mod 65536 / 256) mod 256; (x / 65536) mod 256; (x / 65536 / 256) mod 256].
Proof. reflexivity. Qed.

Lemma le16_unfold x : le16 x = [x mod 256; (x / 256) mod 256].
Proof. reflexivity. Qed.

Lemma be16_wf x : wf_bytes (be16 x).
Proof. unfold be16, wf_bytes. repeat constructor; lia. Qed.

Lemma be32_wf x : wf_bytes (be32 x).
Proof. unfold be32, wf_bytes. apply Forall_app; split; apply be16_wf. Qed.

Lemma wf_app a b : wf_bytes a -> wf_bytes b -> wf_bytes (a ++ b).
Proof. unfold wf_bytes. intros. apply Forall_app; auto. Qed.

Lemma takeN_app_exact {A} (a b : list A) : takeN (len a) (a ++ b) = a.
Proof.
  unfold takeN, len. rewrite Nat2N.id. rewrite firstn_app, Nat.sub_diag, firstn_all. cbn. now rewrite app_nil_r.
Qed.

Lemma dropN_app_exact {A} (a b : list A) : dropN (len a) (a ++ b) = b.
Proof.
  unfold dropN, len. rewrite Nat2N.id. rewrite skipn_app, Nat.sub_diag, skipn_all. reflexivity.
Qed.

Lemma takeN_app_exact_nil {A} (a : list A) : takeN (len a) a = a.
Proof. unfold takeN, len. rewrite Nat2N.id. apply firstn_all. Qed.
