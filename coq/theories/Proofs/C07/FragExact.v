(** C07, model side: each fragment the context produces is the requested slice of the payload with
    the requested offset, MF set exactly when payload bytes remain, and the context's header fields. *)
From RS Require Import Base.Bytes Base.Outcome Pkt.Csum Pkt.Hdrs Pkt.Packet Ez.Ip4 Spec.Wire Spec.Reasm4
  Proofs.BytesLemmas Proofs.C02.IpLemmas Proofs.C02.TcpIp Proofs.C02.OtherIp Proofs.C07.Reasm Proofs.Tactics.
From Coq Require Import ZArith Lia ZifyBool ZifyNat ZifyN.
Ltac Zify.zify_post_hook ::= Z.div_mod_to_equations.
Open Scope N_scope.

(** the fragment word the builder computes: offset, the context's DF/evil bits, MF *)
Definition frag_word (off fr : N) (mf : bool) : N := set_bit16 (N.lor off (N.land fr 57344)) IP_MF mf.

Definition frag_word_ok (off fr : N) (mf : bool) : bool :=
  let w := frag_word off fr mf in
  (w mod 8192 =? off) && Bool.eqb (negb (N.land w 8192 =? 0)) mf && (N.land w 49152 =? fr) && (w <? 65536).

(** finite domain: 8192 offsets x 4 flag words x 2 -- checked exhaustively *)
Lemma frag_word_table :
  forallb (fun off => forallb (fun fr => forallb (frag_word_ok off fr) [true; false]) [0; 16384; 32768; 49152])
          (map N.of_nat (seq 0 (N.to_nat 8192))) = true.
Proof. vm_compute. reflexivity. Qed.

Lemma frag_word_spec off fr mf :
  off < 8192 -> In fr [0; 16384; 32768; 49152] ->
  let w := frag_word off fr mf in
  w mod 8192 = off /\ (negb (N.land w 8192 =? 0)) = mf /\ N.land w 49152 = fr /\ w < 65536.
Proof.
  intros Ho Hfr. pose proof frag_word_table as T. rewrite forallb_forall in T.
  assert (Hin : In off (map N.of_nat (seq 0 (N.to_nat 8192)))).
  { apply in_map_iff. exists (N.to_nat off). split; [lia|]. apply in_seq. lia. }
  specialize (T off Hin). rewrite forallb_forall in T. specialize (T fr Hfr). rewrite forallb_forall in T.
  assert (Hm : In mf [true; false]) by (destruct mf; cbn; tauto).
  specialize (T mf Hm). unfold frag_word_ok in T. cbn zeta.
  apply andb_prop in T as (T & T4). apply andb_prop in T as (T & T3). apply andb_prop in T as (T1 & T2).
  apply N.eqb_eq in T1, T3. apply N.ltb_lt in T4. apply Bool.eqb_prop in T2. tauto.
Qed.

Definition ctx_ok (h : ip_hdr) : Prop := ip_wf h /\ In (Hdrs.ip_frag h) [0; 16384; 32768; 49152].

Lemma len_takeN_exact {A} n (l : list A) : n <= len l -> len (takeN n l) = n.
Proof. unfold len, takeN. intros H. rewrite firstn_length. lia. Qed.
Lemma len_dropN {A} s (l : list A) : len (dropN s l) = len l - s.
Proof. unfold len, dropN. rewrite skipn_length. lia. Qed.

Lemma skipn_ip_ser h rest : skipn 20 (ip_ser h ++ rest) = rest.
Proof. reflexivity. Qed.

Lemma frag_field_read h rest : Hdrs.ip_frag h < 65536 ->
  nth 6 (ip_ser h ++ rest) 0 * 256 + nth 7 (ip_ser h ++ rest) 0 = Hdrs.ip_frag h.
Proof. intros H. unfold ip_ser, be16. cbn [app nth]. lia. Qed.

Theorem fragment_exact f off l raw p :
  ctx_ok (fr_hdr f) -> off < 8192 -> off * 8 <= len (fr_payload f) -> 20 + len (fr_payload f) < 65536 ->
  frag_fragment f off l raw = Ok p ->
  let d := l3_of raw (pk_body p) in
  fg_off (fragment_of d) = off
  /\ slice_of (fr_payload f) (fragment_of d)
  /\ fg_data (fragment_of d) = takeN (N.min (off * 8 + l * 8) (len (fr_payload f)) - off * 8) (dropN (off * 8) (fr_payload f))
  /\ ip_src_of d = ip_src (fr_hdr f) /\ ip_dst_of d = ip_dst (fr_hdr f) /\ ip_proto_of d = ip_proto (fr_hdr f)
  /\ ip_id_of d = ip_id (fr_hdr f) /\ ip_ttl_of d = ip_ttl (fr_hdr f)
  /\ N.land (ip_frag_of d) 49152 = Hdrs.ip_frag (fr_hdr f).
Proof.
  intros (Hw & Hfr) Ho Hin Hfit. unfold frag_fragment.
  set (plen := len (fr_payload f)) in *.
  set (e := N.min (off * 8 + l * 8) plen).
  replace (N.min (off * 8) e) with (off * 8) by (unfold e; lia).
  set (content := takeN (e - off * 8) (dropN (off * 8) (fr_payload f))).
  assert (Lc : len content = e - off * 8).
  { unfold content. apply len_takeN_exact. rewrite len_dropN. fold plen. unfold e. lia. }
  unfold ipdgram, wrap16. rewrite (N.mod_small (len content)) by (rewrite Lc; unfold e; lia).
  rewrite (N.mod_small (len content + 20)) by (rewrite Lc; unfold e; lia).
  intros E. apply Ok_inj in E. subst p. cbn zeta. unfold pkt_of_body. cbn [pk_body].
  rewrite l3_of_framed by reflexivity.
  set (mf := negb (e =? plen)).
  set (h1 := ip_set_mf (ip_set_frag_off (ip_set_tot_len (fr_hdr f) (len content + 20)) off) mf).
  assert (Hw1 : ip_wf h1).
  { unfold h1. apply ip_set_mf_wf, ip_set_frag_off_wf; [|lia]. apply ip_set_tot_len_wf; [exact Hw|lia]. }
  assert (Fw : Hdrs.ip_frag h1 = frag_word off (Hdrs.ip_frag (fr_hdr f)) mf) by reflexivity.
  destruct (frag_word_spec off (Hdrs.ip_frag (fr_hdr f)) mf Ho Hfr) as (W1 & W2 & W3 & W4).
  destruct (ip_fields_readback h1 content Hw1) as (R1 & R2 & R3 & R4 & R5 & R6).
  assert (Fo : nth 6 (ip_ser (ip_calc_csum h1) ++ content) 0 * 256 + nth 7 (ip_ser (ip_calc_csum h1) ++ content) 0
               = frag_word off (Hdrs.ip_frag (fr_hdr f)) mf).
  { rewrite frag_field_read; [exact Fw|]. change (Hdrs.ip_frag (ip_calc_csum h1)) with (Hdrs.ip_frag h1). rewrite Fw. exact W4. }
  unfold fragment_of. rewrite Fo, skipn_ip_ser. cbn [fg_off fg_mf fg_data].
  split; [exact W1|]. split.
  - unfold slice_of. cbn [fg_off fg_mf fg_data]. rewrite W1, W2, Lc. fold plen.
    split; [unfold e; lia|]. split; [reflexivity|].
    unfold mf. destruct (e =? plen) eqn:Ee; cbn [negb]; split; intros H; try discriminate; try reflexivity.
    + apply N.eqb_eq in Ee. lia.
    + apply N.eqb_neq in Ee. lia.
  - split; [reflexivity|].
    unfold ip_frag_of in *. rewrite R5, R6, R4, R1, R3.
    repeat split; try reflexivity.
    unfold u16_at. rewrite Fo. exact W3.
Qed.

(** tail = fragment to the end; datagram = everything, offset 0, MF clear *)
Theorem tail_is_fragment f off raw : frag_tail f off raw = frag_fragment f off (wrap16 (len (fr_payload f))) raw.
Proof. reflexivity. Qed.

Theorem datagram_whole f raw p :
  ctx_ok (fr_hdr f) -> 20 + len (fr_payload f) < 65536 -> frag_datagram f raw = Ok p ->
  let d := l3_of raw (pk_body p) in
  fragment_of d = {| fg_off := 0; fg_mf := false; fg_data := fr_payload f |}.
Proof.
  intros (Hw & Hfr) Hfit. unfold frag_datagram, ipdgram, wrap16.
  rewrite (N.mod_small (len (fr_payload f))) by lia.
  rewrite (N.mod_small (len (fr_payload f) + 20)) by lia.
  intros E. apply Ok_inj in E. subst p. cbn zeta. unfold pkt_of_body. cbn [pk_body].
  rewrite l3_of_framed by reflexivity.
  set (h1 := ip_set_mf (ip_set_frag_off (ip_set_tot_len (fr_hdr f) (len (fr_payload f) + 20)) 0) false).
  assert (Fw : Hdrs.ip_frag h1 = frag_word 0 (Hdrs.ip_frag (fr_hdr f)) false) by reflexivity.
  destruct (frag_word_spec 0 (Hdrs.ip_frag (fr_hdr f)) false ltac:(lia) Hfr) as (W1 & W2 & W3 & W4).
  unfold fragment_of. rewrite skipn_ip_ser. rewrite frag_field_read by (change (Hdrs.ip_frag (ip_calc_csum h1)) with (Hdrs.ip_frag h1); rewrite Fw; exact W4).
  change (Hdrs.ip_frag (ip_calc_csum h1)) with (Hdrs.ip_frag h1). rewrite Fw, W1, W2. reflexivity.
Qed.
