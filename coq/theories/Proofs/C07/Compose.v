(** C07, composition: the "consequently" of the property.  A request is what a script can ask of a
    fragmentation context -- fragment(off, len), tail(off), datagram().  Each request designates one
    explicit fragment of the payload ([req_fragment]); the packet the builder emits for it reads back, as
    RFC 791 lays a datagram out, to exactly that fragment and carries the context's header fields; hence
    any list of requests whose clipped ranges cover the payload yields packets that reassemble to the
    payload, in every order, with duplicates. *)
From RS Require Import Base.Bytes Base.Outcome Pkt.Csum Pkt.Hdrs Pkt.Packet Ez.Ip4 Spec.Wire Spec.Reasm4
  Proofs.BytesLemmas Proofs.C02.IpLemmas Proofs.C02.TcpIp Proofs.C02.OtherIp
  Proofs.C07.Reasm Proofs.C07.FragExact Proofs.Tactics.
From Coq Require Import ZArith Lia ZifyBool ZifyNat ZifyN Permutation.
Ltac Zify.zify_post_hook ::= Z.div_mod_to_equations.
Open Scope N_scope.

(* ------------------------------------------------------------------ requests *)
Inductive req := RFrag (off l : N) | RTail (off : N) | RDgram.

Definition req_run (f : ip_frag) (r : req) (raw : bool) : outcome packet :=
  match r with
  | RFrag off l => frag_fragment f off l raw
  | RTail off => frag_tail f off raw
  | RDgram => frag_datagram f raw
  end.

(** offset (8-byte units) and clipped end (bytes) of the range a request designates in a payload of
    [plen] bytes.  An over-long request (8*(off+l) beyond the payload, in particular any l >= 8192, whose
    byte length does not fit 16 bits) is clipped to the end; a zero-length request designates the empty
    range at 8*off. *)
Definition req_off (r : req) : N := match r with RFrag off _ | RTail off => off | RDgram => 0 end.
Definition req_end (plen : N) (r : req) : N :=
  match r with RFrag off l => N.min (off * 8 + l * 8) plen | RTail _ | RDgram => plen end.

(** the request addresses bytes inside the payload *)
Definition req_ok (plen : N) (r : req) : Prop := req_off r * 8 <= plen.

(** byte index k lies in the clipped range *)
Definition req_covers (plen : N) (r : req) (k : N) : Prop := req_off r * 8 <= k /\ k < req_end plen r.

(** the fragment a request designates: offset as asked, the bytes of the clipped range, MF clear
    exactly when the clipped range ends where the payload ends *)
Definition req_fragment (payload : bytes) (r : req) : fragment :=
  let e := req_end (len payload) r in
  {| fg_off := req_off r;
     fg_mf := negb (e =? len payload);
     fg_data := takeN (e - req_off r * 8) (dropN (req_off r * 8) payload) |}.

(** the context's header fields, read off a datagram: the reassembly key (src, dst, proto, id), the
    TTL and the DF / evil bits *)
Definition hdr_carried (h : ip_hdr) (d : bytes) : Prop :=
  ip_src_of d = ip_src h /\ ip_dst_of d = ip_dst h /\ ip_proto_of d = ip_proto h /\ ip_id_of d = ip_id h
  /\ ip_ttl_of d = ip_ttl h /\ N.land (ip_frag_of d) 49152 = Hdrs.ip_frag h.

(** what the packet emitted for request [r] looks like on the wire *)
Definition emitted_ok (f : ip_frag) (r : req) (raw : bool) (p : packet) : Prop :=
  let d := l3_of raw (pk_body p) in
  fragment_of d = req_fragment (fr_payload f) r /\ hdr_carried (fr_hdr f) d /\ ipv4_ok d = true.

(* ------------------------------------------------------------------ every request is a fragment() call *)
Definition req_len (plen : N) (r : req) : N := match r with RFrag _ l => l | RTail _ | RDgram => plen end.

Lemma takeN_all {A} (l : list A) : takeN (len l - 0) (dropN 0 l) = l.
Proof. rewrite N.sub_0_r. unfold dropN. cbn [N.to_nat skipn]. apply takeN_app_exact_nil. Qed.

(** datagram() = tail(0) = fragment(0, |payload|) *)
Lemma datagram_is_tail f raw : len (fr_payload f) < 65536 -> frag_datagram f raw = frag_tail f 0 raw.
Proof.
  intros Hfit. unfold frag_tail, frag_fragment, frag_datagram, wrap16.
  rewrite (N.mod_small (len (fr_payload f))) by exact Hfit.
  replace (N.min (0 * 8 + len (fr_payload f) * 8) (len (fr_payload f))) with (len (fr_payload f)) by lia.
  replace (N.min (0 * 8) (len (fr_payload f))) with 0 by lia.
  rewrite takeN_all, N.eqb_refl. reflexivity.
Qed.

Lemma req_as_fragment f r raw : len (fr_payload f) < 65536 ->
  req_run f r raw = frag_fragment f (req_off r) (req_len (len (fr_payload f)) r) raw.
Proof.
  intros Hfit. destruct r as [off l|off|]; cbn [req_run req_off req_len].
  - reflexivity.
  - unfold frag_tail, wrap16. rewrite N.mod_small by exact Hfit. reflexivity.
  - rewrite datagram_is_tail by exact Hfit. unfold frag_tail, wrap16. rewrite N.mod_small by exact Hfit. reflexivity.
Qed.

Lemma req_end_as_fragment plen r :
  N.min (req_off r * 8 + req_len plen r * 8) plen = req_end plen r.
Proof. destruct r as [off l|off|]; cbn [req_off req_len req_end]; lia. Qed.

(** requests never fail *)
Lemma req_run_total f r raw : exists p, req_run f r raw = Ok p.
Proof. destruct r; cbn [req_run]; unfold frag_tail, frag_fragment, frag_datagram, ipdgram; eexists; reflexivity. Qed.

(* ------------------------------------------------------------------ one request, on the wire *)
Theorem req_emitted f r raw p :
  ctx_ok (fr_hdr f) -> 20 + len (fr_payload f) < 65536 -> req_ok (len (fr_payload f)) r ->
  req_run f r raw = Ok p -> emitted_ok f r raw p.
Proof.
  intros Hctx Hfit Hok E. unfold req_ok in Hok.
  rewrite req_as_fragment in E by lia.
  assert (Ho : req_off r < 8192) by lia.
  pose proof (fragment_exact f (req_off r) (req_len (len (fr_payload f)) r) raw p Hctx Ho Hok Hfit E) as X.
  cbn zeta in X. destruct X as (X1 & X2 & X3 & X4 & X5 & X6 & X7 & X8 & X9).
  unfold emitted_ok. cbn zeta. split; [|split].
  - rewrite req_end_as_fragment in X3. unfold req_fragment. cbn zeta.
    destruct X2 as (S1 & _ & S3). revert X1 X3 S1 S3.
    generalize (fragment_of (l3_of raw (pk_body p))). intros [o m dt]. cbn [fg_off fg_mf fg_data].
    intros -> E3 S1 S3.
    assert (Ld : len dt = req_end (len (fr_payload f)) r - req_off r * 8).
    { rewrite E3. apply len_takeN_exact. rewrite len_dropN.
      destruct r as [off l|off|]; cbn [req_end req_off] in *; lia. }
    assert (Le : req_off r * 8 <= req_end (len (fr_payload f)) r)
      by (destruct r as [off l|off|]; cbn [req_end req_off] in *; lia).
    f_equal; [|exact E3].
    destruct (req_end (len (fr_payload f)) r =? len (fr_payload f)) eqn:Ee; cbn [negb].
    + apply N.eqb_eq in Ee. apply S3. lia.
    + apply N.eqb_neq in Ee. destruct m; [reflexivity|]. exfalso. apply Ee.
      destruct S3 as (S3 & _). specialize (S3 eq_refl). lia.
  - unfold hdr_carried. tauto.
  - destruct Hctx as (Hw & _).
    assert (Ho' : req_off r < 65536) by lia.
    exact (frag_fragment_ip_ok f _ _ raw p Hw Ho' Hfit E).
Qed.

(** the designated fragment is a slice of the payload, whatever the request *)
Lemma req_fragment_slice payload r : req_ok (len payload) r -> slice_of payload (req_fragment payload r).
Proof.
  intros Hok. unfold req_ok in Hok. unfold slice_of, req_fragment. cbn [fg_off fg_mf fg_data].
  assert (Le : req_off r * 8 <= req_end (len payload) r /\ req_end (len payload) r <= len payload)
    by (destruct r as [off l|off|]; cbn [req_end req_off] in *; lia).
  assert (Ld : len (takeN (req_end (len payload) r - req_off r * 8) (dropN (req_off r * 8) payload))
               = req_end (len payload) r - req_off r * 8).
  { apply len_takeN_exact. rewrite len_dropN. lia. }
  rewrite Ld. split; [lia|]. split; [reflexivity|].
  destruct (req_end (len payload) r =? len payload) eqn:Ee; cbn [negb].
  - apply N.eqb_eq in Ee. split; intros _; [lia|reflexivity].
  - apply N.eqb_neq in Ee. split; intros H; [discriminate H|lia].
Qed.

Lemma req_fragment_covers payload r k :
  req_ok (len payload) r -> req_covers (len payload) r k -> covers (req_fragment payload r) k = true.
Proof.
  intros Hok (H1 & H2). unfold req_ok in Hok. unfold covers, req_fragment. cbn [fg_off fg_data].
  assert (Le : req_end (len payload) r <= len payload)
    by (destruct r as [off l|off|]; cbn [req_end req_off] in *; lia).
  rewrite len_takeN_exact by (rewrite len_dropN; lia).
  apply andb_true_intro. split; [apply N.leb_le; exact H1|apply N.ltb_lt; lia].
Qed.

(* ------------------------------------------------------------------ MF exactness, positively *)
(** the more-fragments bit (0x2000 of the flags/offset word) is clear iff the clipped end of the
    request is the end of the payload *)
Theorem mf_clear_iff f r raw p :
  ctx_ok (fr_hdr f) -> 20 + len (fr_payload f) < 65536 -> req_ok (len (fr_payload f)) r ->
  req_run f r raw = Ok p ->
  (N.land (ip_frag_of (l3_of raw (pk_body p))) 8192 = 0 <-> req_end (len (fr_payload f)) r = len (fr_payload f)).
Proof.
  intros Hctx Hfit Hok E. destruct (req_emitted f r raw p Hctx Hfit Hok E) as (V & _).
  assert (M : fg_mf (fragment_of (l3_of raw (pk_body p))) = negb (req_end (len (fr_payload f)) r =? len (fr_payload f)))
    by (rewrite V; reflexivity).
  revert M. unfold fragment_of, ip_frag_of, u16_at. cbn [fg_mf].
  generalize (N.land (nth 6 (l3_of raw (pk_body p)) 0 * 256 + nth 7 (l3_of raw (pk_body p)) 0) 8192). intros w M.
  destruct (w =? 0) eqn:Ew; destruct (req_end (len (fr_payload f)) r =? len (fr_payload f)) eqn:Ee;
    cbn [negb] in M; try discriminate M.
  - apply N.eqb_eq in Ew, Ee. tauto.
  - apply N.eqb_neq in Ew, Ee. tauto.
Qed.

(** the cases the property singles out *)
Corollary mf_cases f raw p :
  ctx_ok (fr_hdr f) -> 20 + len (fr_payload f) < 65536 ->
  let plen := len (fr_payload f) in
  let mf_clear := N.land (ip_frag_of (l3_of raw (pk_body p))) 8192 = 0 in
  (forall off l, off * 8 <= plen -> frag_fragment f off l raw = Ok p -> (mf_clear <-> plen <= off * 8 + l * 8))
  /\ (forall off, off * 8 <= plen -> frag_tail f off raw = Ok p -> mf_clear)
  /\ (frag_datagram f raw = Ok p -> mf_clear).
Proof.
  intros Hctx Hfit plen mf_clear. split; [|split].
  - intros off l Hok E. pose proof (mf_clear_iff f (RFrag off l) raw p Hctx Hfit Hok E) as K.
    cbn [req_end] in K. fold plen in K. unfold mf_clear. rewrite K. lia.
  - intros off Hok E. apply (mf_clear_iff f (RTail off) raw p Hctx Hfit Hok E). reflexivity.
  - intros E. apply (mf_clear_iff f RDgram raw p Hctx Hfit); [unfold req_ok; cbn [req_off]; lia|exact E|reflexivity].
Qed.

(* ------------------------------------------------------------------ many requests *)
(** a request with its framing option, and the packets a list of them emits *)
Definition rq := (req * bool)%type.
Definition emits (f : ip_frag) (reqs : list rq) (ps : list packet) : Prop :=
  Forall2 (fun q p => req_run f (fst q) (snd q) = Ok p) reqs ps.
(** the IPv4 fragment views of the emitted packets, each read with the framing it was asked with *)
Definition views (reqs : list rq) (ps : list packet) : list fragment :=
  map (fun qp => fragment_of (l3_of (snd (fst qp)) (pk_body (snd qp)))) (combine reqs ps).

Definition reqs_ok (plen : N) (reqs : list rq) : Prop := Forall (fun q => req_ok plen (fst q)) reqs.
Definition reqs_cover (plen : N) (reqs : list rq) : Prop :=
  forall k, k < plen -> exists q, In q reqs /\ req_covers plen (fst q) k.

Lemma emits_total f reqs : exists ps, emits f reqs ps.
Proof.
  induction reqs as [|q r (ps & IH)]; [exists []; constructor|].
  destruct (req_run_total f (fst q) (snd q)) as (p & E). exists (p :: ps). constructor; assumption.
Qed.

Lemma views_designated f reqs ps :
  ctx_ok (fr_hdr f) -> 20 + len (fr_payload f) < 65536 -> reqs_ok (len (fr_payload f)) reqs ->
  emits f reqs ps -> views reqs ps = map (fun q => req_fragment (fr_payload f) (fst q)) reqs.
Proof.
  intros Hctx Hfit Hok E. unfold views. induction E as [|q p reqs ps E1 E IH]; [reflexivity|].
  inversion Hok as [|? ? Hq Hr]; subst. cbn [combine map fst snd]. rewrite (IH Hr). f_equal.
  destruct (req_emitted f (fst q) (snd q) p Hctx Hfit Hq E1) as (V & _). exact V.
Qed.

(** a covering list contains a piece reaching the end of the payload (MF clear) -- not assumed:
    the request covering the last byte is one; for the empty payload every admissible request is one *)
Lemma cover_has_last payload reqs :
  reqs_ok (len payload) reqs -> reqs_cover (len payload) reqs -> (len payload = 0 -> reqs <> []) ->
  exists q, In q reqs /\ fg_mf (req_fragment payload (fst q)) = false.
Proof.
  intros Hok Hcov Hne. unfold req_fragment. cbn [fg_mf].
  destruct (N.eq_dec (len payload) 0) as [Hz|Hnz].
  - destruct reqs as [|q r]; [exfalso; exact (Hne Hz eq_refl)|]. exists q. split; [left; reflexivity|].
    inversion Hok as [|? ? Hq _]; subst. unfold req_ok in Hq.
    replace (req_end (len payload) (fst q)) with (len payload)
      by (destruct (fst q) as [off l|off|]; cbn [req_end req_off] in *; lia).
    rewrite N.eqb_refl. reflexivity.
  - destruct (Hcov (len payload - 1) ltac:(lia)) as (q & Hin & (_ & H2)). exists q. split; [exact Hin|].
    assert (Le : req_end (len payload) (fst q) <= len payload)
      by (destruct (fst q) as [off l|off|]; cbn [req_end]; lia).
    replace (req_end (len payload) (fst q)) with (len payload) by lia.
    rewrite N.eqb_refl. reflexivity.
Qed.

(** COMPOSITION.  Any requests that address the payload and cover it: the emitted packets, read as IPv4
    fragments, reassemble to exactly the payload -- and so does every list [fs'] with the same members
    (every permutation, with any duplicates). *)
Theorem compose_reassembles f reqs ps fs' :
  ctx_ok (fr_hdr f) -> 20 + len (fr_payload f) < 65536 ->
  reqs_ok (len (fr_payload f)) reqs -> reqs_cover (len (fr_payload f)) reqs ->
  (len (fr_payload f) = 0 -> reqs <> []) ->
  emits f reqs ps ->
  (forall x, In x (views reqs ps) <-> In x fs') ->
  reassemble fs' = Some (fr_payload f).
Proof.
  intros Hctx Hfit Hok Hcov Hne E Hsame.
  rewrite (views_designated f reqs ps Hctx Hfit Hok E) in Hsame.
  apply (reassemble_any_order (fr_payload f) (map (fun q => req_fragment (fr_payload f) (fst q)) reqs) fs').
  - apply Forall_forall. intros x Hx. apply in_map_iff in Hx. destruct Hx as (q & <- & Hq).
    apply req_fragment_slice. unfold reqs_ok in Hok. rewrite Forall_forall in Hok. exact (Hok q Hq).
  - intros k Hk. destruct (Hcov k Hk) as (q & Hq & Hc). exists (req_fragment (fr_payload f) (fst q)).
    split; [apply in_map_iff; exists q; split; [reflexivity|exact Hq]|].
    apply req_fragment_covers; [|exact Hc]. unfold reqs_ok in Hok. rewrite Forall_forall in Hok. exact (Hok q Hq).
  - destruct (cover_has_last (fr_payload f) reqs Hok Hcov Hne) as (q & Hq & Hm).
    exists (req_fragment (fr_payload f) (fst q)). split; [|exact Hm].
    apply in_map_iff. exists q. split; [reflexivity|exact Hq].
  - exact Hsame.
Qed.

Corollary compose_permutation f reqs ps fs' :
  ctx_ok (fr_hdr f) -> 20 + len (fr_payload f) < 65536 ->
  reqs_ok (len (fr_payload f)) reqs -> reqs_cover (len (fr_payload f)) reqs ->
  (len (fr_payload f) = 0 -> reqs <> []) ->
  emits f reqs ps -> Permutation (views reqs ps) fs' ->
  reassemble fs' = Some (fr_payload f).
Proof.
  intros Hctx Hfit Hok Hcov Hne E P. apply (compose_reassembles f reqs ps fs'); try assumption.
  intros x. split; intros H; [eapply Permutation_in; [exact P|exact H]|].
  eapply Permutation_in; [apply Permutation_sym; exact P|exact H].
Qed.

(** all emitted packets carry the context's header: one reassembly key (src, dst, proto, id), and a
    verifying IPv4 header whose total length is the datagram's *)
Theorem compose_same_key f reqs ps :
  ctx_ok (fr_hdr f) -> 20 + len (fr_payload f) < 65536 -> reqs_ok (len (fr_payload f)) reqs ->
  emits f reqs ps ->
  Forall2 (fun q p => emitted_ok f (fst q) (snd q) p) reqs ps.
Proof.
  intros Hctx Hfit Hok E. induction E as [|q p reqs ps E1 E IH]; [constructor|].
  inversion Hok as [|? ? Hq Hr]; subst. constructor; [|exact (IH Hr)].
  exact (req_emitted f (fst q) (snd q) p Hctx Hfit Hq E1).
Qed.

(* ------------------------------------------------------------------ the edge requests, explicitly *)
(** a zero-length request yields an empty fragment at its offset, MF clear only at the very end *)
Lemma req_zero_length payload off : off * 8 <= len payload ->
  req_fragment payload (RFrag off 0) = {| fg_off := off; fg_mf := negb (off * 8 =? len payload); fg_data := [] |}.
Proof.
  intros Hok. unfold req_fragment. cbn [req_end req_off].
  replace (N.min (off * 8 + 0 * 8) (len payload)) with (off * 8) by lia.
  rewrite N.sub_diag. reflexivity.
Qed.

(** an over-long request -- in particular every length of 8192 units or more, whose byte count does not
    fit 16 bits -- yields what tail() yields: everything from the offset on, MF clear *)
Lemma req_overlong payload off l : len payload <= off * 8 + l * 8 ->
  req_fragment payload (RFrag off l) = req_fragment payload (RTail off).
Proof.
  intros Hl. unfold req_fragment. cbn [req_end req_off].
  replace (N.min (off * 8 + l * 8) (len payload)) with (len payload) by lia. reflexivity.
Qed.
Lemma req_overlong_8192 payload off l : len payload < 65536 -> 8192 <= l ->
  req_fragment payload (RFrag off l) = req_fragment payload (RTail off).
Proof. intros Hp Hl. apply req_overlong. lia. Qed.

Lemma req_tail_data payload off : off * 8 <= len payload ->
  req_fragment payload (RTail off) = {| fg_off := off; fg_mf := false; fg_data := dropN (off * 8) payload |}.
Proof.
  intros Hok. unfold req_fragment. cbn [req_end req_off]. rewrite N.eqb_refl. cbn [negb]. f_equal.
  rewrite <- (len_dropN (off * 8) payload). apply takeN_app_exact_nil.
Qed.

(* ------------------------------------------------------------------ raw: honoured *)
(** the framed record is the raw record behind a 14-byte Ethernet header (type 0x0800, addresses
    derived from the context's) *)
Theorem raw_honoured f r pr pf :
  req_run f r true = Ok pr -> req_run f r false = Ok pf ->
  let eth := eth_ser (eth_new (mac_of_ip (ip_src (fr_hdr f))) (mac_of_ip (ip_dst (fr_hdr f))) ETH_IPV4) in
  pk_body pf = (eth ++ pk_body pr)%list /\ length eth = 14%nat
  /\ l3_of false (pk_body pf) = pk_body pr /\ l3_of true (pk_body pr) = pk_body pr.
Proof.
  intros Er Ef. cbn zeta.
  assert (Le : length (eth_ser (eth_new (mac_of_ip (ip_src (fr_hdr f))) (mac_of_ip (ip_dst (fr_hdr f))) ETH_IPV4)) = 14%nat)
    by reflexivity.
  assert (B : pk_body pf = (eth_ser (eth_new (mac_of_ip (ip_src (fr_hdr f))) (mac_of_ip (ip_dst (fr_hdr f))) ETH_IPV4)
                            ++ pk_body pr)%list).
  { revert Er Ef. destruct r as [off l|off|]; cbn [req_run]; unfold frag_tail, frag_fragment, frag_datagram, ipdgram;
      intros Er Ef; apply Ok_inj in Er; apply Ok_inj in Ef; subst pr pf; reflexivity. }
  split; [exact B|]. split; [exact Le|]. split; [|reflexivity].
  rewrite B. exact (l3_of_framed false _ (pk_body pr) Le).
Qed.
