(** C07 at the library level: ipv4::frag creates the fragmentation context its arguments designate; the
    three IpFrag methods, as dispatched by [exec] on a heap, emit the fragment their arguments designate
    and leave the heap alone; hence in any history of calls the k-th call's packet is that fragment of
    the one payload, and the packets of a covering history reassemble to it. *)
From RS Require Import Base.Bytes Base.Outcome Bind.Types Pkt.Csum Pkt.Hdrs Pkt.Packet Ez.Ip4
  Interp.Val Interp.Eval Lib.LibBase Lib.StdLib Lib.Ipv4Lib Spec.Wire Spec.Reasm4
  Proofs.BytesLemmas Proofs.Tactics Proofs.C02.IpLemmas Proofs.C02.TcpIp Proofs.C02.OtherIp
  Proofs.C03.LibCalls Proofs.C03.LibFrame Proofs.C07.Reasm Proofs.C07.FragExact Proofs.C07.Compose.
From RSGen Require Import Catalogue.
From Coq Require Import Arith ZArith Lia ZifyBool ZifyNat ZifyN.
Ltac Zify.zify_post_hook ::= Z.div_mod_to_equations.
Open Scope N_scope.

Definition frag_class : string := "ipv4::IpFrag"%string.

(* ------------------------------------------------------------------ ipv4::frag *)
Lemma join_nil_concat (bs : list bytes) : join [] bs = concat bs.
Proof.
  induction bs as [|x r IH]; [reflexivity|]. cbn [concat]. rewrite <- IH.
  destruct r as [|y r']; [cbn [join]; rewrite app_nil_r; reflexivity|reflexivity].
Qed.

(** the DF / evil bits of the context, as a flags word *)
Definition ctx_flags (evil df : bool) : N := (if evil then 32768 else 0) + (if df then 16384 else 0).

Lemma conv_u8_lt v n : conv_u8 v = Ok n -> n < 256.
Proof.
  unfold conv_u8, omap. intros H. destruct (conv_int v); cbn [obind] in H; try discriminate H.
  apply Ok_inj in H. subst n. unfold wrap8. apply N.mod_lt. discriminate.
Qed.

Theorem frag_created e slots extra h v h' :
  exec e "ipv4::frag" None slots extra h = Some (Ok (v, h')) ->
  exists src dst id evil df ttl proto bs,
    conv_ip4 (nth 0 slots VNil) = Ok src /\ conv_ip4 (nth 1 slots VNil) = Ok dst
    /\ conv_u16 (nth 2 slots VNil) = Ok id /\ conv_bool (nth 3 slots VNil) = Ok evil
    /\ conv_bool (nth 4 slots VNil) = Ok df /\ conv_u8 (nth 5 slots VNil) = Ok ttl
    /\ conv_u8 (nth 6 slots VNil) = Ok proto /\ omapM conv_buf extra = Ok bs
    /\ let f := {| fr_hdr := {| ip_tot_len := 20; ip_id := id; Hdrs.ip_frag := ctx_flags evil df; ip_ttl := ttl;
                                ip_proto := proto; ip_csum := 0; ip_src := src; ip_dst := dst |};
                   fr_payload := concat bs |} in
       v = VObj (length h) /\ h' = (h ++ [OFrag f])%list
       /\ (src < 4294967296 -> dst < 4294967296 -> ctx_ok (fr_hdr f)).
Proof.
  intros H. exec_unfold_in H. apply Some_inj in H. revert H. unfold ipv4_frag_fn. intros H.
  destruct slots as [|s1 [|s2 [|s3 [|s4 [|s5 [|s6 [|s7 [|? ?]]]]]]]]; try (exfalso; exact (bad_args_not_ok' _ H)).
  cbn [nth].
  binv1 H. rename a into src, E into Esrc. binv1 H. rename a into dst, E into Edst.
  binv1 H. rename a into id, E into Eid. binv1 H. rename a into evil, E into Eev.
  binv1 H. rename a into df, E into Edf. binv1 H. rename a into ttl, E into Ettl.
  binv1 H. rename a into proto, E into Epr. binv1 H. rename a into payload, E into Epl.
  revert Epl. unfold join_extra. intros Epl. binv1 Epl. rename a into bs, E into Ebs. apply Ok_inj in Epl.
  exists src, dst, id, evil, df, ttl, proto, bs.
  repeat (split; [assumption|]). cbn zeta.
  assert (Ef : Hdrs.ip_frag (ip_set_df (ip_set_evil (ip_set_id ip_default id) evil) df) = ctx_flags evil df)
    by (destruct evil, df; reflexivity).
  revert H. unfold alloc. intros H. apply Ok_inj in H. apply pair_equal_spec in H. destruct H as [<- <-].
  rewrite <- Epl, join_nil_concat.
  unfold ip_set_daddr, ip_set_saddr, ip_set_protocol, ip_set_ttl.
  cbn [ip_tot_len ip_id Hdrs.ip_frag ip_ttl ip_proto ip_csum ip_src ip_dst]. rewrite Ef.
  split; [reflexivity|]. split; [reflexivity|].
  intros Hs Hd. unfold ctx_ok, ip_wf. cbn [fr_hdr ip_tot_len ip_id Hdrs.ip_frag ip_ttl ip_proto ip_csum ip_src ip_dst].
  pose proof (conv_u16_lt _ _ Eid). pose proof (conv_u8_lt _ _ Ettl). pose proof (conv_u8_lt _ _ Epr).
  split; [|destruct evil, df; cbn; tauto].
  assert (ctx_flags evil df < 65536) by (destruct evil, df; unfold ctx_flags; lia). lia.
Qed.

(* ------------------------------------------------------------------ the IpFrag methods *)
(** the request a method call designates: fragment(off, len, raw:), tail(off, raw:), datagram(raw:) --
    offsets and lengths as the 16-bit values the arguments convert to *)
Definition frag_call_req (name : string) (slots : list val) : option rq :=
  if String.eqb name "fragment" then
    match slots with
    | [off; l; raw] => match conv_u16 off, conv_u16 l, conv_bool raw with
                       | Ok o, Ok ln, Ok r => Some (RFrag o ln, r) | _, _, _ => None end
    | _ => None end
  else if String.eqb name "tail" then
    match slots with
    | [off; raw] => match conv_u16 off, conv_bool raw with Ok o, Ok r => Some (RTail o, r) | _, _ => None end
    | _ => None end
  else if String.eqb name "datagram" then
    match slots with
    | [raw] => match conv_bool raw with Ok r => Some (RDgram, r) | _ => None end
    | _ => None end
  else None.

Ltac frag_cases Hms Hin :=
  vm_compute in Hms; apply Some_inj in Hms; subst; cbn [In] in Hin;
  destruct Hin as [Hin|[Hin|[Hin|[]]]]; apply pair_equal_spec in Hin; destruct Hin as [<- <-].

(** every method of the IpFrag class, on a heap where the receiver is a fragmentation context: the
    heap is unchanged, the result is the packet of the designated request *)
Theorem frag_method_sound e ms name key slots extra h a f v h' :
  assoc frag_class class_table = Some ms -> In (name, key) ms ->
  nth_error h a = Some (OFrag f) ->
  exec e key (Some a) slots extra h = Some (Ok (v, h')) ->
  h' = h /\ exists q p, frag_call_req name slots = Some q /\ v = VPkt p /\ req_run f (fst q) (snd q) = Ok p.
Proof.
  intros Hms Hin Ha H. frag_cases Hms Hin; exec_unfold_in H; apply Some_inj in H;
    binv1 H; revert E; unfold take_this; rewrite Ha; intros E; ok_inv E; binv1 H; ok_inv H;
    (split; [reflexivity|]).
  - destruct slots as [|s1 [|s2 [|s3 [|? ?]]]]; try (exfalso; exact (bad_args_not_ok' _ E)).
    binv1 E. binv1 E. binv1 E.
    match goal with
    | E1 : conv_u16 s1 = Ok ?o, E2 : conv_u16 s2 = Ok ?l, E3 : conv_bool s3 = Ok ?r |- _ =>
      exists (RFrag o l, r); eexists; split; [unfold frag_call_req; cbn [String.eqb Ascii.eqb Bool.eqb]; rewrite E1, E2, E3; reflexivity|]
    end.
    split; [reflexivity|exact E].
  - destruct slots as [|s1 [|s2 [|? ?]]]; try (exfalso; exact (bad_args_not_ok' _ E)).
    binv1 E. binv1 E.
    match goal with
    | E1 : conv_u16 s1 = Ok ?o, E3 : conv_bool s2 = Ok ?r |- _ =>
      exists (RTail o, r); eexists; split; [unfold frag_call_req; cbn [String.eqb Ascii.eqb Bool.eqb]; rewrite E1, E3; reflexivity|]
    end.
    split; [reflexivity|exact E].
  - destruct slots as [|s1 [|? ?]]; try (exfalso; exact (bad_args_not_ok' _ E)).
    binv1 E.
    match goal with
    | E3 : conv_bool s1 = Ok ?r |- _ =>
      exists (RDgram, r); eexists; split; [unfold frag_call_req; cbn [String.eqb Ascii.eqb Bool.eqb]; rewrite E3; reflexivity|]
    end.
    split; [reflexivity|exact E].
Qed.

(** ... whose bytes are the designated fragment with the context's header (C07_fragment_exact /
    C07_tail_is_fragment / C07_datagram_whole for the object in the heap), read with [raw:] honoured *)
Corollary frag_method_wire e ms name key slots extra h a f v h' :
  assoc frag_class class_table = Some ms -> In (name, key) ms ->
  nth_error h a = Some (OFrag f) -> ctx_ok (fr_hdr f) -> 20 + len (fr_payload f) < 65536 ->
  exec e key (Some a) slots extra h = Some (Ok (v, h')) ->
  h' = h /\ exists q p, frag_call_req name slots = Some q /\ v = VPkt p /\ req_run f (fst q) (snd q) = Ok p
    /\ (req_ok (len (fr_payload f)) (fst q) -> emitted_ok f (fst q) (snd q) p).
Proof.
  intros Hms Hin Ha Hctx Hfit H.
  destruct (frag_method_sound e ms name key slots extra h a f v h' Hms Hin Ha H) as (-> & q & p & Hq & -> & E).
  split; [reflexivity|]. exists q, p. split; [exact Hq|]. split; [reflexivity|]. split; [exact E|].
  intros Hok. exact (req_emitted f (fst q) (snd q) p Hctx Hfit Hok E).
Qed.

(* ------------------------------------------------------------------ frame *)
(** IpFrag methods never change the heap, on whatever object they are called; ipv4::frag and
    ipv4::datagram only allocate *)
Theorem frag_methods_foreign e name key a a' slots extra :
  class_method frag_class name key -> foreign e a (mcall key a' slots extra).
Proof.
  intros (ms & Hms & Hin). frag_cases Hms Hin; frame_start H;
    binv1 H; (match goal with Et : take_this _ _ = Ok (?n, ?ob) |- _ => destruct ob end); try discriminate H;
    binv1 H; ok_inv H; assumption.
Qed.

Lemma nth_error_app_some {A} (l r : list A) n x : nth_error l n = Some x -> nth_error (l ++ r) n = Some x.
Proof. intros H. rewrite nth_error_app1; [exact H|]. apply nth_error_Some. congruence. Qed.

Theorem frag_functions_foreign e key a slots extra :
  In key ["ipv4::frag"; "ipv4::datagram"]%string -> foreign e a (fcall key slots extra).
Proof.
  intros Hk. cbn [In] in Hk. destruct Hk as [<-|[<-|[]]]; frame_start H.
  - revert H. unfold ipv4_frag_fn. intros H.
    destruct slots as [|s1 [|s2 [|s3 [|s4 [|s5 [|s6 [|s7 [|? ?]]]]]]]]; try (exfalso; exact (bad_args_not_ok' _ H)).
    do 8 binv1 H. revert H. unfold alloc. intros H. ok_inv H. apply nth_error_app_some. assumption.
  - revert H. unfold ipv4_datagram_fn. intros H.
    destruct slots as [|s1 [|s2 [|s3 [|s4 [|s5 [|s6 [|s7 [|s8 [|s9 [|? ?]]]]]]]]]]; try (exfalso; exact (bad_args_not_ok' _ H)).
    do 10 binv1 H. ok_inv H. assumption.
Qed.

(* ------------------------------------------------------------------ histories *)
Definition frag_call_on (a : nat) (c : call) : Prop :=
  c_this c = Some a /\ exists name, class_method frag_class name (c_key c).

(** the request a call of a history designates on the object at [a] (None: not an IpFrag call on [a]) *)
Definition frag_req_of (a : nat) (c : call) : option rq :=
  match c_this c with
  | Some a' => if Nat.eqb a' a then
                 match strip_prefix "ipv4::IpFrag." (c_key c) with
                 | Some name => frag_call_req name (c_slots c)
                 | None => None
                 end
               else None
  | None => None
  end.

(** the requests a history makes of the object at [a], and the packets they returned, in call order *)
Fixpoint hist_reqs (a : nat) (cs : list call) : list rq :=
  match cs with
  | [] => []
  | c :: r => match frag_req_of a c with Some q => q :: hist_reqs a r | None => hist_reqs a r end
  end.
Fixpoint hist_pkts (a : nat) (cs : list call) (vs : list val) : list packet :=
  match cs, vs with
  | c :: r, v :: vr => match frag_req_of a c, v with
                       | Some _, VPkt p => p :: hist_pkts a r vr
                       | _, _ => hist_pkts a r vr
                       end
  | _, _ => []
  end.

Lemma frag_call_foreign e a c : frag_call_on a c -> foreign e a c.
Proof.
  intros (Ht & name & Hcm). destruct c as [key this slots extra]. cbn [c_this c_key] in *. subst this.
  exact (frag_methods_foreign e name key a a slots extra Hcm).
Qed.

Lemma strip_prefix_app p : forall s r, strip_prefix p s = Some r -> s = (p ++ r)%string.
Proof.
  induction p as [|a p IH]; intros s r H; cbn [strip_prefix] in H.
  - apply Some_inj in H. subst r. reflexivity.
  - destruct s as [|b s]; [discriminate H|]. destruct (Ascii.eqb_spec a b) as [->|]; [|discriminate H].
    cbn [String.append]. f_equal. apply IH. exact H.
Qed.

(** one step: the object stays; a call that designates a request returned that request's packet *)
Lemma frag_step e a c h f v h1 :
  nth_error h a = Some (OFrag f) -> frag_call_on a c \/ foreign e a c ->
  do_call e c h = Some (Ok (v, h1)) ->
  nth_error h1 a = Some (OFrag f)
  /\ (frag_call_on a c -> exists q p, frag_req_of a c = Some q /\ v = VPkt p /\ req_run f (fst q) (snd q) = Ok p)
  /\ (forall q, frag_req_of a c = Some q -> exists p, v = VPkt p /\ req_run f (fst q) (snd q) = Ok p).
Proof.
  intros Ha Hstep Ec.
  assert (Hfor : foreign e a c) by (destruct Hstep as [Hon|Hfor]; [apply frag_call_foreign; exact Hon|exact Hfor]).
  split; [exact (Hfor h v h1 _ Ha Ec)|]. split.
  - intros (Ht & name & ms & Hms & Hin). unfold do_call in Ec. rewrite Ht in Ec.
    destruct (frag_method_sound e ms name _ _ _ h a f v h1 Hms Hin Ha Ec) as (_ & q & p & Hq & Hv & Er).
    exists q, p. split; [|split; assumption].
    unfold frag_req_of. rewrite Ht, Nat.eqb_refl. revert Hq.
    frag_cases Hms Hin; intros Hq; exact Hq.
  - intros q Hq. unfold frag_req_of in Hq. destruct (c_this c) as [a'|] eqn:Ht; [|discriminate Hq].
    destruct (Nat.eqb_spec a' a) as [->|]; [|discriminate Hq].
    destruct (strip_prefix "ipv4::IpFrag." (c_key c)) as [name|] eqn:Ek; [|discriminate Hq].
    assert (Hname : In (name, c_key c) [("fragment", "ipv4::IpFrag.fragment"); ("tail", "ipv4::IpFrag.tail");
                                        ("datagram", "ipv4::IpFrag.datagram")]%string).
    { assert (Ekey : c_key c = ("ipv4::IpFrag." ++ name)%string)
        by (apply strip_prefix_app; exact Ek).
      rewrite Ekey. unfold frag_call_req in Hq.
      destruct (String.eqb_spec name "fragment") as [->|_]; [left; reflexivity|].
      destruct (String.eqb_spec name "tail") as [->|_]; [right; left; reflexivity|].
      destruct (String.eqb_spec name "datagram") as [->|_]; [right; right; left; reflexivity|discriminate Hq]. }
    unfold do_call in Ec. rewrite Ht in Ec.
    destruct (frag_method_sound e _ name _ _ _ h a f v h1 eq_refl Hname Ha Ec) as (_ & q' & p & Hq' & Hv & Er).
    rewrite Hq in Hq'. apply Some_inj in Hq'. subst q'. exists p. split; assumption.
Qed.

(** any history of calls, each an IpFrag method on the object at [a] or a call that leaves that object
    alone: the context is unchanged at the end (every call saw the same payload); the requests made
    of it returned, in order, exactly their packets; and the k-th call, if an IpFrag method on [a],
    returned the packet of the request its arguments designate *)
Theorem frag_history e a cs : forall h f vs h',
  nth_error h a = Some (OFrag f) ->
  Forall (fun c => frag_call_on a c \/ foreign e a c) cs ->
  run_hist e cs h = Some (vs, h') ->
  nth_error h' a = Some (OFrag f)
  /\ emits f (hist_reqs a cs) (hist_pkts a cs vs)
  /\ forall k c v, nth_error cs k = Some c -> nth_error vs k = Some v -> frag_call_on a c ->
       exists q p, frag_req_of a c = Some q /\ v = VPkt p /\ req_run f (fst q) (snd q) = Ok p.
Proof.
  induction cs as [|c r IH]; intros h f vs h' Ha Hall H; cbn [run_hist] in H.
  - apply Some_inj in H. apply pair_equal_spec in H. destruct H as [<- <-].
    split; [exact Ha|]. split; [constructor|]. intros [|k] c v Hc; discriminate Hc.
  - destruct (do_call e c h) as [[[v h1]| | |]|] eqn:Ec; try discriminate H.
    destruct (run_hist e r h1) as [[vs2 h2]|] eqn:Er; try discriminate H.
    apply Some_inj in H. apply pair_equal_spec in H. destruct H as [<- <-].
    inversion Hall as [|? ? Hc Hr]; subst.
    destruct (frag_step e a c h f v h1 Ha Hc Ec) as (Ha1 & Hon & Hreq).
    destruct (IH h1 f vs2 h2 Ha1 Hr Er) as (Ha2 & Hem & Hk).
    split; [exact Ha2|]. split.
    + cbn [hist_reqs hist_pkts]. destruct (frag_req_of a c) as [q|] eqn:Eq; [|destruct v; exact Hem].
      destruct (Hreq q eq_refl) as (p & -> & Erun). constructor; assumption.
    + intros [|k] c' v' Hc' Hv'; cbn [nth_error] in Hc', Hv'.
      * apply Some_inj in Hc', Hv'. subst c' v'. exact Hon.
      * exact (Hk k c' v' Hc' Hv').
Qed.

(** ... on the wire: the k-th call's packet is the fragment its arguments designate, of the one payload *)
Corollary frag_history_wire e a cs h f vs h' :
  nth_error h a = Some (OFrag f) -> ctx_ok (fr_hdr f) -> 20 + len (fr_payload f) < 65536 ->
  Forall (fun c => frag_call_on a c \/ foreign e a c) cs ->
  run_hist e cs h = Some (vs, h') ->
  forall k c v, nth_error cs k = Some c -> nth_error vs k = Some v -> frag_call_on a c ->
    exists q p, frag_req_of a c = Some q /\ v = VPkt p
      /\ (req_ok (len (fr_payload f)) (fst q) -> emitted_ok f (fst q) (snd q) p).
Proof.
  intros Ha Hctx Hfit Hall H k c v Hc Hv Hon.
  destruct (frag_history e a cs h f vs h' Ha Hall H) as (_ & _ & Hk).
  destruct (Hk k c v Hc Hv Hon) as (q & p & Hq & -> & E). exists q, p. split; [exact Hq|]. split; [reflexivity|].
  intros Hok. exact (req_emitted f (fst q) (snd q) p Hctx Hfit Hok E).
Qed.

(** consequently: if the requests a history makes of a context address and cover its payload, the
    packets they returned reassemble to the payload, in any order, with duplicates *)
Theorem history_reassembles e a cs h f vs h' fs' :
  nth_error h a = Some (OFrag f) -> ctx_ok (fr_hdr f) -> 20 + len (fr_payload f) < 65536 ->
  Forall (fun c => frag_call_on a c \/ foreign e a c) cs ->
  run_hist e cs h = Some (vs, h') ->
  reqs_ok (len (fr_payload f)) (hist_reqs a cs) -> reqs_cover (len (fr_payload f)) (hist_reqs a cs) ->
  (len (fr_payload f) = 0 -> hist_reqs a cs <> []) ->
  (forall x, In x (views (hist_reqs a cs) (hist_pkts a cs vs)) <-> In x fs') ->
  reassemble fs' = Some (fr_payload f).
Proof.
  intros Ha Hctx Hfit Hall H Hok Hcov Hne Hsame.
  destruct (frag_history e a cs h f vs h' Ha Hall H) as (_ & Hem & _).
  exact (compose_reassembles f _ _ fs' Hctx Hfit Hok Hcov Hne Hem Hsame).
Qed.

(* ------------------------------------------------------------------ a concrete history *)
(** ipv4::frag with a 43-byte payload collected from three arguments, then, in a shuffled order and
    with mixed framing: tail(2), datagram(), fragment(1,3), fragment(0,2), an over-long fragment(5,9000)
    and a zero-length fragment(3,0) *)
Definition ex_env : env := {| env_files := [] |}.
Definition ex_payload : bytes := map N.of_nat (seq 0 43).
Definition ex_calls : list call := [
  fcall "ipv4::frag" [VIp4 16909060; VIp4 16909061; VU16 4660; VBool false; VBool true; VU8 63; VU8 17]
        [VStr (map N.of_nat (seq 0 20)); VU8 20; VStr (map N.of_nat (seq 21 22))];
  mcall "ipv4::IpFrag.tail" 0 [VU16 2; VBool true] [];
  mcall "ipv4::IpFrag.datagram" 0 [VBool false] [];
  mcall "ipv4::IpFrag.fragment" 0 [VU16 1; VU16 3; VBool false] [];
  mcall "ipv4::IpFrag.fragment" 0 [VU16 0; VU16 2; VBool true] [];
  mcall "ipv4::IpFrag.fragment" 0 [VU16 5; VU16 9000; VBool false] [];
  mcall "ipv4::IpFrag.fragment" 0 [VU16 3; VU16 0; VBool false] []]%string.
Definition ex_reqs : list rq :=
  [(RTail 2, true); (RDgram, false); (RFrag 1 3, false); (RFrag 0 2, true); (RFrag 5 9000, false); (RFrag 3 0, false)].

Lemma ex_steps : Forall (fun c => frag_call_on 0 c \/ foreign ex_env 0 c) (tl ex_calls).
Proof.
  assert (K : forall name key slots, In (name, key) [("fragment", "ipv4::IpFrag.fragment"); ("tail", "ipv4::IpFrag.tail");
                 ("datagram", "ipv4::IpFrag.datagram")]%string -> frag_call_on 0 (mcall key 0 slots []) \/ foreign ex_env 0 (mcall key 0 slots [])).
  { intros name key slots Hin. left. split; [reflexivity|]. exists name. eexists. split; [reflexivity|exact Hin]. }
  unfold ex_calls, tl.
  repeat (constructor; [eapply K; cbn [In]; tauto|]). constructor.
Qed.

(** the first two requests alone cover: fragment(0,2) gives bytes 0..16, tail(2) the rest *)
Lemma ex_cover : reqs_ok 43 ex_reqs /\ reqs_cover 43 ex_reqs.
Proof.
  split.
  - unfold reqs_ok, ex_reqs, req_ok. repeat (constructor; [cbn [fst req_off]; lia|]). constructor.
  - intros k Hk. destruct (N.ltb_spec k 16) as [Hlt|Hge].
    + exists (RFrag 0 2, true). split; [cbn [In ex_reqs]; tauto|]. unfold req_covers. cbn [fst req_off req_end]. lia.
    + exists (RTail 2, true). split; [cbn [In ex_reqs]; tauto|]. unfold req_covers. cbn [fst req_off req_end]. lia.
Qed.
