(** C07, specification side: RFC 791 reassembly of consistent fragments recovers the payload, whatever
    the arrival order, with duplicates and overlaps. *)
From RS Require Import Base.Bytes Spec.Reasm4 Proofs.BytesLemmas.
From Coq Require Import ZArith Lia ZifyBool ZifyNat ZifyN Permutation.
Open Scope N_scope.

(** a fragment that is a slice of [payload] at its own offset, with MF telling whether bytes remain *)
Definition slice_of (payload : bytes) (f : fragment) : Prop :=
  fg_off f * 8 + len (fg_data f) <= len payload
  /\ fg_data f = takeN (len (fg_data f)) (dropN (fg_off f * 8) payload)
  /\ (fg_mf f = false <-> fg_off f * 8 + len (fg_data f) = len payload).

Lemma nth_error_firstn' {A} (l : list A) n i : (i < n)%nat -> nth_error (firstn n l) i = nth_error l i.
Proof.
  revert n i. induction l as [|x l IH]; intros n i Hi.
  - rewrite firstn_nil. reflexivity.
  - destruct n as [|n]; [lia|]. destruct i as [|i]; [reflexivity|]. cbn. apply IH. lia.
Qed.

Lemma nth_error_skipn' {A} (l : list A) s i : nth_error (skipn s l) i = nth_error l (s + i).
Proof.
  revert l. induction s as [|s IH]; intros l; [reflexivity|].
  destruct l as [|x l]; [destruct i; reflexivity|]. cbn. apply IH.
Qed.

Lemma nth_error_takeN_dropN {A} (l : list A) s n i :
  (i < N.to_nat n)%nat -> nth_error (takeN n (dropN s l)) i = nth_error l (N.to_nat s + i).
Proof.
  intros Hi. unfold takeN, dropN.
  rewrite nth_error_firstn' by exact Hi. apply nth_error_skipn'.
Qed.

Lemma lookup_agrees payload fs k b :
  Forall (slice_of payload) fs -> lookup fs k = Some b -> nth_error payload (N.to_nat k) = Some b.
Proof.
  induction fs as [|f r IH]; intros Hall Hl; cbn [lookup] in Hl; [discriminate|].
  inversion Hall as [|? ? Hf Hr]; subst.
  destruct (covers f k) eqn:Hc.
  - unfold covers in Hc. destruct Hf as (Hle & Hd & _).
    rewrite Hd in Hl. rewrite nth_error_takeN_dropN in Hl by lia.
    rewrite <- Hl. f_equal. lia.
  - apply IH; assumption.
Qed.

Lemma lookup_covered fs k : (exists f, In f fs /\ covers f k = true) -> lookup fs k <> None.
Proof.
  induction fs as [|f r IH]; intros (g & Hin & Hc); [destruct Hin|].
  cbn [lookup]. destruct (covers f k) eqn:Hcf.
  - unfold covers in Hcf. intros Hn. apply nth_error_None in Hn. unfold len in Hcf. lia.
  - apply IH. destruct Hin as [->|Hin]; [congruence|]. exists g. split; assumption.
Qed.

Lemma collect_payload payload fs :
  Forall (slice_of payload) fs ->
  (forall k, k < len payload -> exists f, In f fs /\ covers f k = true) ->
  forall n k, k + N.of_nat n <= len payload -> collect fs n k = Some (firstn n (skipn (N.to_nat k) payload)).
Proof.
  intros Hall Hcov. induction n as [|n IH]; intros k Hk; cbn [collect firstn]; [reflexivity|].
  destruct (lookup fs k) as [b|] eqn:Hl.
  - pose proof (lookup_agrees _ _ _ _ Hall Hl) as Hb.
    rewrite IH by lia.
    replace (N.to_nat (k + 1)) with (S (N.to_nat k)) by lia.
    destruct (skipn (N.to_nat k) payload) as [|x xs] eqn:Es.
    + exfalso. assert (length (skipn (N.to_nat k) payload) = 0%nat) by (rewrite Es; reflexivity).
      rewrite skipn_length in H. unfold len in Hk. lia.
    + assert (x = b).
      { assert (E : nth_error (skipn (N.to_nat k) payload) 0 = Some b) by (rewrite nth_error_skipn', Nat.add_0_r; exact Hb).
        rewrite Es in E. cbn in E. congruence. }
      subst x.
      assert (Ext : skipn (S (N.to_nat k)) payload = xs).
      { clear -Es. revert Es. generalize (N.to_nat k) as m. intros m. revert payload.
        induction m as [|m IHm]; intros payload Es.
        - cbn in Es. subst payload. reflexivity.
        - destruct payload as [|y ys]; [discriminate|]. cbn in Es. cbn [skipn]. apply IHm. exact Es. }
      rewrite Ext. reflexivity.
  - exfalso. apply (lookup_covered fs k); [apply Hcov; lia|exact Hl].
Qed.

Lemma total_len_some payload r : Forall (slice_of payload) r -> forall t, total_len r = Some t -> t = len payload.
Proof.
  induction r as [|h r IH]; intros Hr t Et; cbn [total_len] in Et; [discriminate|].
  inversion Hr as [|? ? Hh Hr']; subst.
  destruct (fg_mf h) eqn:Hmh; [apply IH; assumption|].
  destruct Hh as (_ & _ & Hendh).
  assert (E : fg_off h * 8 + len (fg_data h) = len payload) by (apply Hendh; exact Hmh).
  destruct (total_len r) as [t'|] eqn:Et'.
  - destruct (t' =? _) eqn:Eq; [|discriminate]. inversion Et; subst. apply IH; [assumption|reflexivity].
  - inversion Et; subst. exact E.
Qed.

Lemma total_len_known payload fs :
  Forall (slice_of payload) fs -> (exists f, In f fs /\ fg_mf f = false) -> total_len fs = Some (len payload).
Proof.
  induction fs as [|f r IH]; intros Hall (g & Hin & Hg); [destruct Hin|].
  inversion Hall as [|? ? Hf Hr]; subst. cbn [total_len].
  destruct (fg_mf f) eqn:Hmf.
  - apply IH; [exact Hr|]. destruct Hin as [->|Hin]; [congruence|]. exists g. split; assumption.
  - destruct Hf as (_ & _ & Hend). assert (E : fg_off f * 8 + len (fg_data f) = len payload) by (apply Hend; exact Hmf).
    destruct (total_len r) as [t|] eqn:Et.
    + assert (t = len payload) by (eapply total_len_some; eassumption).
      subst t. rewrite E, N.eqb_refl. reflexivity.
    + rewrite E. reflexivity.
Qed.

(** any list of fragments that are slices of the payload, cover it, and contain a last fragment,
    reassembles to exactly the payload *)
Theorem reassemble_cover payload fs :
  Forall (slice_of payload) fs ->
  (forall k, k < len payload -> exists f, In f fs /\ covers f k = true) ->
  (exists f, In f fs /\ fg_mf f = false) ->
  reassemble fs = Some payload.
Proof.
  intros Hall Hcov Hlast. unfold reassemble. rewrite (total_len_known payload fs Hall Hlast).
  rewrite (collect_payload payload fs Hall Hcov) by (unfold len; lia).
  unfold len. rewrite Nat2N.id. cbn [N.to_nat skipn]. rewrite firstn_all. reflexivity.
Qed.

(** ... and so does every permutation of it (emission order is irrelevant), with any duplicates added *)
Corollary reassemble_any_order payload fs fs' :
  Forall (slice_of payload) fs ->
  (forall k, k < len payload -> exists f, In f fs /\ covers f k = true) ->
  (exists f, In f fs /\ fg_mf f = false) ->
  (forall f, In f fs <-> In f fs') ->
  reassemble fs' = Some payload.
Proof.
  intros Hall Hcov Hlast Hsame. apply reassemble_cover.
  - apply Forall_forall. intros f Hf. rewrite Forall_forall in Hall. apply Hall, Hsame, Hf.
  - intros k Hk. destruct (Hcov k Hk) as (f & Hin & Hc). exists f. split; [apply Hsame, Hin|exact Hc].
  - destruct Hlast as (f & Hin & Hm). exists f. split; [apply Hsame, Hin|exact Hm].
Qed.
