(** C12, real library: the four time::jump_* calls are jumps in the sense of ProgramShift.jump_at, `import time`
    makes them available, and inserting one anywhere in a compiling program shifts exactly the later records. *)
From RS Require Import Base.Bytes Base.Outcome Bind.Types Bind.Binder Pkt.Packet Pkt.Pcap Interp.Val Interp.Ast
  Interp.Eval Interp.Run Lib.LibBase Lib.MiscLib Lib.StdLib Spec.Timeline Proofs.C12.Jump.
From RSGen Require Import Catalogue.
From Coq Require Import ZArith Lia ZifyBool ZifyNat ZifyN.
From RS Require Import Proofs.C12.ProgramShift.
Open Scope list_scope.
Open Scope N_scope.

Definition jump_call (l l' : loc) (name : string) (n : N) : expr :=
  ECall l ["time"%string] [name] [(None, ELit l' (VU64 n))].


Lemma find_jump key : In key ["time::jump_seconds"; "time::jump_millis"; "time::jump_micros"; "time::jump_nanos"]%string ->
  exists f, find_func catalogue key = Some f /\ fd_ret f = TTimeJump
    /\ forall n, argvec val val_type val_of_valdef f [(None, VU64 n)] = Ok ([VU64 n], []).
Proof.
  intros H. cbn [In] in H. destruct H as [<-|[<-|[<-|[<-|[]]]]];
    (eexists; split; [lazy [find_func find catalogue fd_key String.eqb Ascii.eqb Bool.eqb]; reflexivity|];
     split; [reflexivity|]; intros n; vm_compute; reflexivity).
Qed.

Lemma exec_jump e key u w : In (key, (u, w)) [("time::jump_seconds", (1000000000, true)); ("time::jump_millis", (1000000, false));
      ("time::jump_micros", (1000, false)); ("time::jump_nanos", (1, false))]%string ->
  forall a x h, exec e key None a x h = Some (time_jump_fn u w a x h).
Proof.
  intros H. cbn [In] in H. destruct H as [E|[E|[E|[E|[]]]]]; inversion E; subst; intros a x h;
    unfold exec; lazy [assoc functions String.eqb Ascii.eqb Bool.eqb]; reflexivity.
Qed.

Definition jump_table : list (string * (string * (N * bool))) :=
  [("jump_seconds", ("time::jump_seconds", (1000000000, true))); ("jump_millis", ("time::jump_millis", (1000000, false)));
   ("jump_micros", ("time::jump_micros", (1000, false))); ("jump_nanos", ("time::jump_nanos", (1, false)))]%string.

Lemma time_jump_exact u w n h : (w = true -> u = 1000000000 /\ n < two32) -> n * u < two64 ->
  time_jump_fn u w [VU64 n] [] h = Ok (VTimeJump (n * u), h).
Proof.
  intros Hw H. destruct w.
  - destruct (Hw eq_refl) as (-> & Hn). apply jump_seconds_exact. exact Hn.
  - apply jump_u64_exact. exact H.
Qed.

(** the library's four jump calls are jumps in the sense of [jump_at], in every state that has imported
    the time module *)
Theorem jump_call_at e p l l' name key u w n :
  In (name, (key, (u, w))) jump_table ->
  assoc "time"%string (p_imports p) = Some "time"%string ->
  (w = true -> n < two32) -> n * u < two64 ->
  jump_at catalogue class_table module_table (exec e) p (jump_call l l' name n) (n * u).
Proof.
  intros Hin Himp Hw Hlt.
  assert (Hk : In key ["time::jump_seconds"; "time::jump_millis"; "time::jump_micros"; "time::jump_nanos"]%string).
  { cbn [In jump_table] in Hin. destruct Hin as [E|[E|[E|[E|[]]]]]; inversion E; subst; cbn; tauto. }
  assert (Hx : In (key, (u, w)) [("time::jump_seconds", (1000000000, true)); ("time::jump_millis", (1000000, false));
      ("time::jump_micros", (1000, false)); ("time::jump_nanos", (1, false))]%string).
  { cbn [In jump_table] in Hin. destruct Hin as [E|[E|[E|[E|[]]]]]; inversion E; subst; cbn; tauto. }
  assert (Hu : w = true -> u = 1000000000).
  { cbn [In jump_table] in Hin. destruct Hin as [E|[E|[E|[E|[]]]]]; inversion E; subst; intros; congruence. }
  assert (Href : eval_obj_ref class_table module_table (set_loc p l) ["time"%string] [name] = Ok (VFunc key)).
  { cbn [eval_obj_ref]. unfold eval_extern_ref. cbn [set_loc p_imports]. rewrite Himp. cbn [walk_modules obind].
    cbn [In jump_table] in Hin. destruct Hin as [E|[E|[E|[E|[]]]]]; inversion E; subst;
      lazy [assoc module_table String.eqb Ascii.eqb Bool.eqb obind]; reflexivity. }
  destruct (find_jump key Hk) as (f & Hf & Hret & Hav).
  unfold jump_at, jump_call. eexists. split.
  - cbn [eval]. rewrite Href. cbn [lift rbind eval].
    unfold call. rewrite Hf. rewrite Hav. cbn [lift rbind].
    rewrite (exec_jump e key u w Hx). cbn [set_loc p_heap].
    rewrite time_jump_exact; [|intros W; split; [apply Hu; exact W|apply Hw; exact W]|exact Hlt].
    cbn [lift rbind val_type]. rewrite Hret. cbn [vtype_eqb]. reflexivity.
  - unfold Q. cbn. repeat split.
Qed.

(** ** `import time;` anywhere earlier in the program is what makes the calls available *)
Notation run_vals_real e := (Program.run_vals catalogue class_table module_table (exec e)).

Definition imports_time (a : list stmt) : Prop := exists l, In (SImport l "time"%string) a.
Definition time_wf (p : prog) : Prop := forall path, assoc "time"%string (p_imports p) = Some path -> path = "time"%string.

Lemma root_time : exists syms, assoc EmptyString module_table = Some syms /\ assoc "time"%string syms = Some (SModule "time"%string).
Proof. eexists. split; lazy [assoc module_table String.eqb Ascii.eqb Bool.eqb]; reflexivity. Qed.

Lemma import_step e p l name p1 :
  add_stmt catalogue class_table module_table (exec e) p (SImport l name) = ROk tt p1 -> time_wf p ->
  time_wf p1
  /\ (assoc "time"%string (p_imports p) <> None -> assoc "time"%string (p_imports p1) <> None)
  /\ (name = "time"%string -> assoc "time"%string (p_imports p1) <> None).
Proof.
  intros E W. cbn [add_stmt] in E. cbn [set_loc p_imports] in E.
  destruct (assoc name (p_imports p)) as [x|] eqn:A.
  - inversion E; subst. cbn [set_loc p_imports time_wf]. split; [exact W|]. split; [tauto|]. intros ->. congruence.
  - destruct root_time as (syms & R1 & R2). rewrite R1 in E.
    destruct (assoc name syms) as [[path|k|k|d]|] eqn:B; try discriminate.
    inversion E; subst. unfold time_wf. cbn [p_imports assoc].
    destruct (String.eqb "time" name) eqn:N.
    + apply String.eqb_eq in N. subst name. rewrite R2 in B. inversion B; subst.
      split; [intros path' P; inversion P; reflexivity|]. split; intros; discriminate.
    + split; [exact W|]. split; [tauto|]. intros ->. rewrite String.eqb_refl in N. discriminate.
Qed.

Theorem import_time_available e a : forall p va pa, run_vals_real e p a va pa -> time_wf p ->
  assoc "time"%string (p_imports p) <> None \/ imports_time a ->
  assoc "time"%string (p_imports pa) = Some "time"%string.
Proof.
  intros p va pa H. induction H as [p|p l name p1 r vs p' Hs Hn Ho _ IH|p l x ex p1 r vs p' Hs Hn Ho _ IH|p ex v p1 p2 r vs p' He Hn Ho Hemit _ IH];
    intros W HI.
  - destruct HI as [HI|(l & [])]. destruct (assoc "time"%string (p_imports p)) as [x|] eqn:A; [|contradiction].
    rewrite (W x A). reflexivity.
  - destruct (import_step e p l name p1 Hs W) as (W1 & M1 & N1). apply IH; [exact W1|].
    destruct HI as [HI|(l0 & [HI|HI])]; [left; apply M1; exact HI| |right; exists l0; exact HI].
    inversion HI; subst. left. apply N1. reflexivity.
  - assert (Hi : p_imports p1 = p_imports p).
    { cbn [add_stmt] in Hs. destruct (assoc x (p_regs (set_loc p l))); [discriminate|].
      destruct (eval catalogue class_table module_table (exec e) (set_loc p l) ex) as [v pa| |] eqn:Ee; cbn [rbind] in Hs; try discriminate.
      inversion Hs; subst. cbn [p_imports].
      destruct (EvalPreserves.eval_same_io _ _ _ _ ex _ _ _ Ee) as (_ & _ & _ & Hi & _). exact Hi. }
    apply IH; [unfold time_wf; rewrite Hi; exact W|]. rewrite Hi.
    destruct HI as [HI|(l0 & [HI|HI])]; [left; exact HI|discriminate|right; exists l0; exact HI].
  - assert (Hi : p_imports p2 = p_imports p).
    { destruct (EvalPreserves.eval_same_io _ _ _ _ ex _ _ _ He) as (_ & _ & _ & Hi & _).
      destruct (TimelineProofs.emit_val_refines _ _ _ Hemit) as (_ & _ & (_ & Hi2 & _)). congruence. }
    apply IH; [unfold time_wf; rewrite Hi; exact W|]. rewrite Hi.
    destruct HI as [HI|(l0 & [HI|HI])]; [left; exact HI|discriminate|right; exists l0; exact HI].
Qed.

(** ** the headline: inserting `time::jump_<unit>(n)` anywhere after `import time` in any program that
    compiles shifts every later record by exactly n units and no earlier record at all *)
Theorem real_jump_insertion e a b l l' name key u w n p' :
  run_prog e (a ++ b) = ROk tt p' ->
  imports_time a -> In (name, (key, (u, w))) jump_table -> (w = true -> n < two32) ->
  p_now p' + n * u < two64 ->
  exists va vb p'',
    run_prog e (a ++ SExpr (jump_call l l' name n) :: b) = ROk tt p''
    /\ pcap_of p'  = file_of (timeline 0 va ++ timeline (final_time 0 va) vb)
    /\ pcap_of p'' = file_of (timeline 0 va ++ shift_recs (n * u) (timeline (final_time 0 va) vb))
    /\ p_now p'' = p_now p' + n * u.
Proof.
  unfold run_prog. intros E HI Hin Hw Hlt.
  destruct (Program.add_stmts_run_vals _ _ _ _ _ _ _ E) as (vs & R).
  destruct (Program.run_vals_output _ _ _ _ _ _ _ _ R) as (Hn & Ho). cbn [prog_init p_now p_out] in Hn, Ho.
  destruct (jump_insertion catalogue class_table module_table (exec e) a b (jump_call l l' name n) (n * u) prog_init vs p' R)
    as (va & vb & pa & p'' & -> & Ra & R'' & T1 & T2 & Hn'').
  - intros va pa Ra. apply (jump_call_at e pa l l' name key u w n Hin); [|exact Hw|lia].
    apply (import_time_available e a prog_init va pa Ra); [intros path P; discriminate|right; exact HI].
  - cbn [prog_init p_now]. rewrite <- Hn. exact Hlt.
  - cbn [prog_init p_now] in T1, T2.
    exists va, vb, p''. split; [apply (run_vals_sound _ _ _ _ _ _ _ _ R'')|].
    destruct (Program.run_vals_output _ _ _ _ _ _ _ _ R'') as (_ & Ho''). cbn [prog_init p_now p_out] in Ho''.
    split; [|split; [|exact Hn'']].
    + unfold pcap_of, file_of. rewrite BytesLemmas.frev_rev, Ho, app_nil_r, rev_involutive, T1. reflexivity.
    + unfold pcap_of, file_of. rewrite BytesLemmas.frev_rev, Ho'', app_nil_r, rev_involutive, T2. reflexivity.
Qed.
