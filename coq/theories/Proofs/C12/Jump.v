(** time::jump_* produce a jump of exactly n units (or panic on u64 overflow: debug build). *)
From RS Require Import Base.Bytes Base.Outcome Interp.Val Lib.LibBase Lib.MiscLib.
From Coq Require Import ZArith Lia ZifyBool ZifyNat ZifyN.
Ltac Zify.zify_post_hook ::= Z.div_mod_to_equations.
Open Scope N_scope.

Lemma jump_u64_exact unit_ns n h :
  n * unit_ns < two64 ->
  time_jump_fn unit_ns false [VU64 n] [] h = Ok (VTimeJump (n * unit_ns), h).
Proof.
  intros H. unfold time_jump_fn, conv_u64, conv_int, cmul. cbn [obind].
  destruct (n * unit_ns <? two64) eqn:E; [reflexivity|lia].
Qed.

Lemma jump_seconds_exact n h :
  n < two32 ->
  time_jump_fn 1000000000 true [VU64 n] [] h = Ok (VTimeJump (n * 1000000000), h).
Proof.
  intros H. unfold time_jump_fn, conv_u32, conv_int, omap, cmul, wrap32. cbn [obind].
  rewrite N.mod_small by (unfold two32 in H; lia).
  destruct (n * 1000000000 <? two64) eqn:E; [reflexivity|unfold two64, two32 in *; lia].
Qed.
