(** C12 (and the record-level half of C01): facts about [timeline], and the refinement lemma that
    ties the interpreter's [emit_val] to it. *)
From RS Require Import Base.Bytes Base.Outcome Pkt.Packet Pkt.Pcap Interp.Val Interp.Ast Interp.Eval
  Spec.Timeline Proofs.BytesLemmas.
From Coq Require Import ZArith Lia ZifyBool ZifyNat ZifyN Sorted.
Ltac Zify.zify_post_hook ::= Z.div_mod_to_equations.
Open Scope N_scope.

(* ------------------------------------------------------------------ pure facts *)

Lemma timeline_app now a b :
  timeline now (a ++ b) = timeline now a ++ timeline (final_time now a) b.
Proof.
  revert now. induction a as [|v a IH]; intros now; cbn [app timeline final_time].
  - reflexivity.
  - rewrite IH, app_assoc. reflexivity.
Qed.

Lemma final_time_app now a b : final_time now (a ++ b) = final_time (final_time now a) b.
Proof. revert now. induction a as [|v a IH]; intros; cbn [app final_time]; auto. Qed.

Lemma final_time_ge now vs : now <= final_time now vs.
Proof. revert now. induction vs as [|v vs IH]; intros; cbn [final_time]; [lia|]. specialize (IH (now + gap v)). lia. Qed.

Lemma timeline_times_ge now vs : Forall (fun r => now <= fst r) (timeline now vs).
Proof.
  revert now. induction vs as [|v vs IH]; intros now; cbn [timeline]; [constructor|].
  apply Forall_app; split.
  - apply Forall_forall. intros r Hr. apply in_map_iff in Hr as (f & <- & _). cbn. lia.
  - eapply Forall_impl; [|apply IH]. cbn. intros; lia.
Qed.

Lemma timeline_times_le now vs : Forall (fun r => fst r <= final_time now vs) (timeline now vs).
Proof.
  revert now. induction vs as [|v vs IH]; intros now; cbn [timeline final_time]; [constructor|].
  apply Forall_app; split.
  - apply Forall_forall. intros r Hr. apply in_map_iff in Hr as (f & <- & _). cbn.
    apply final_time_ge.
  - apply IH.
Qed.

(** timestamps never decrease from one record to the next *)
Theorem timeline_sorted now vs : StronglySorted (fun a b => fst a <= fst b) (timeline now vs).
Proof.
  revert now. induction vs as [|v vs IH]; intros now; cbn [timeline]; [constructor|].
  remember (now + gap v) as t.
  assert (Hrest : Forall (fun r => t <= fst r) (timeline t vs)) by apply timeline_times_ge.
  specialize (IH t).
  induction (frames v) as [|f fs IHf]; cbn [map app]; [exact IH|].
  constructor; [exact IHf|].
  apply Forall_app; split.
  - apply Forall_forall. intros r Hr. apply in_map_iff in Hr as (g & <- & _). cbn. lia.
  - eapply Forall_impl; [|exact Hrest]. cbn. intros; lia.
Qed.

(** a value that emits at least one packet advances the clock by at least 192 ns *)
Lemma gap_pos v : frames v <> [] -> 192 <= gap v.
Proof.
  destruct v; cbn [frames gap]; try (intros H; exfalso; apply H; reflexivity).
  - intros _. unfold pkt_bit_time. lia.
  - destruct ps as [|k ks]; [intros H; exfalso; apply H; reflexivity|]. intros _. cbn [map sumN]. unfold pkt_bit_time. lia.
Qed.

(** strictly increasing from one packet-emitting statement to the next: the records of a later
    statement [w] that emits something carry a timestamp strictly above every record emitted
    before it (whatever lies in between). *)
Lemma final_time_snoc now a w : final_time now (a ++ [w]) = final_time now a + gap w.
Proof. rewrite final_time_app. reflexivity. Qed.

Lemma timeline_snoc now a w :
  timeline now (a ++ [w]) = timeline now a ++ map (fun f => (final_time now a + gap w, f)) (frames w).
Proof. rewrite timeline_app. cbn [timeline]. rewrite app_nil_r. reflexivity. Qed.

Theorem strict_between_statements now a w r1 r2 :
  In r1 (timeline now a) ->
  In r2 (map (fun f => (final_time now a + gap w, f)) (frames w)) ->
  fst r1 < fst r2.
Proof.
  intros H1 H2.
  assert (Hw : frames w <> []) by (destruct (frames w); [destruct H2 | discriminate]).
  apply in_map_iff in H2 as (f & <- & _). cbn [fst].
  pose proof (timeline_times_le now a) as Hle.
  rewrite Forall_forall in Hle. specialize (Hle _ H1).
  pose proof (gap_pos w Hw). lia.
Qed.

(** the clock advance of a statement depends only on what it emits *)
Theorem gap_local now1 now2 v : (now1 + gap v) - now1 = (now2 + gap v) - now2.
Proof. lia. Qed.

Lemma timeline_shift d now vs : timeline (now + d) vs = shift_recs d (timeline now vs).
Proof.
  revert now. induction vs as [|v vs IH]; intros now; cbn [timeline]; [reflexivity|].
  unfold shift_recs in *. rewrite map_app, map_map. cbn [fst snd].
  replace (now + d + gap v) with (now + gap v + d) by lia.
  rewrite IH. reflexivity.
Qed.

(** inserting a jump of d ns shifts every later record by exactly d and no earlier record at all *)
Theorem jump_shift now a b d :
  timeline now (a ++ [VTimeJump d] ++ b)
  = timeline now a ++ shift_recs d (timeline (final_time now a) b).
Proof.
  rewrite timeline_app. f_equal. cbn [app timeline frames map gap].
  apply timeline_shift.
Qed.

Corollary jump_keeps_frames now a b d :
  map snd (timeline now (a ++ [VTimeJump d] ++ b)) = map snd (timeline now (a ++ b)).
Proof.
  rewrite jump_shift, timeline_app, !map_app. f_equal.
  unfold shift_recs. rewrite map_map. reflexivity.
Qed.

(** below the pcap limit the (sec, nsec) pair determines the time: no information is lost *)
Theorem sec_nsec_exact t :
  t < TS_LIMIT -> ts_to_secs t * 1000000000 + ts_to_nsecs t = t /\ ts_to_nsecs t < 1000000000.
Proof.
  unfold TS_LIMIT, ts_to_secs, ts_to_nsecs, wrap32, NS_PER_SEC. intros H.
  assert (t / 1000000000 < 4294967296) by lia.
  rewrite (N.mod_small (t / 1000000000)) by lia.
  rewrite (N.mod_small (t mod 1000000000)) by lia.
  lia.
Qed.

Theorem nsec_always_lt_1e9 t : ts_to_nsecs t < 1000000000.
Proof. unfold ts_to_nsecs, wrap32, NS_PER_SEC. lia. Qed.

(** lexicographic (sec, nsec) order is the order of times below the limit *)
Theorem sec_nsec_monotone t1 t2 :
  t1 <= t2 -> t2 < TS_LIMIT ->
  ts_to_secs t1 < ts_to_secs t2 \/ (ts_to_secs t1 = ts_to_secs t2 /\ ts_to_nsecs t1 <= ts_to_nsecs t2).
Proof.
  intros Hle Hlim.
  destruct (sec_nsec_exact t1) as [E1 L1]; [lia|].
  destruct (sec_nsec_exact t2) as [E2 L2]; [lia|].
  nia.
Qed.

(* ------------------------------------------------------------------ the interpreter refines the timeline *)

Definition same_but_clock_out (p p' : prog) : Prop :=
  p_regs p' = p_regs p /\ p_imports p' = p_imports p /\ p_heap p' = p_heap p /\ p_loc p' = p_loc p
  /\ p_trace p' = p_trace p.

Lemma update_time_ok p ns p' :
  update_time p ns = ROk tt p' ->
  p_now p' = p_now p + ns /\ p_out p' = p_out p /\ p_warnings p' = p_warnings p /\ same_but_clock_out p p'
  /\ p_now p + ns < two64.
Proof.
  unfold update_time. destruct (p_now p + ns <? two64) eqn:E; [|discriminate].
  intros H; inversion H; subst; clear H. cbn. unfold same_but_clock_out. cbn. repeat split; lia.
Qed.

Lemma advance_all_ok ks : forall p p',
  advance_all p ks = ROk tt p' ->
  p_now p' = p_now p + sumN (map pkt_bit_time ks) /\ p_out p' = p_out p /\ p_warnings p' = p_warnings p
  /\ same_but_clock_out p p'.
Proof.
  induction ks as [|k ks IH]; intros p p' H; cbn [advance_all map sumN] in *.
  - inversion H; subst. unfold same_but_clock_out. repeat split; lia.
  - destruct (update_time p (pkt_bit_time k)) as [[] p1| |] eqn:E; cbn [rbind] in H; try discriminate.
    apply update_time_ok in E as (En & Eo & Ew & Es & _).
    apply IH in H as (Hn & Ho & Hw & Hs).
    unfold same_but_clock_out in *. repeat split; try lia; intuition congruence.
Qed.

Lemma write_packet_ok t k b k' :
  write_packet t k = Ok (b, k') -> b = rec_bytes (t, pk_body k) /\ pk_body k' = pk_body k.
Proof.
  unfold write_packet. destruct (Nat.ltb _ _); [discriminate|].
  intros H; inversion H; subst. unfold rec_bytes, pkt_len. cbn. split; reflexivity.
Qed.

Lemma write_all_ok ks : forall p p',
  write_all p ks = ROk tt p' ->
  p_now p' = p_now p
  /\ p_out p' = rev (map (fun k => rec_bytes (p_now p, pk_body k)) ks) ++ p_out p
  /\ p_warnings p' = p_warnings p /\ same_but_clock_out p p'.
Proof.
  induction ks as [|k ks IH]; intros p p' H; cbn [write_all] in *.
  - inversion H; subst. unfold same_but_clock_out. cbn. repeat split; reflexivity.
  - destruct (write_packet (p_now p) k) as [[b k']| | |] eqn:E; cbn [lift rbind] in H; try discriminate.
    apply write_packet_ok in E as (Eb & _). subst b.
    apply IH in H as (Hn & Ho & Hw & Hs). cbn in *.
    unfold same_but_clock_out in *. cbn in *.
    repeat split; try tauto.
    rewrite Ho. cbn [map rev]. rewrite <- app_assoc. reflexivity.
Qed.

(** one expression statement: the interpreter appends exactly the records the timeline prescribes *)
Theorem emit_val_refines p v p' :
  emit_val p v = ROk tt p' ->
  p_now p' = p_now p + gap v
  /\ p_out p' = rev (map rec_bytes (map (fun f => (p_now p + gap v, f)) (frames v))) ++ p_out p
  /\ same_but_clock_out p p'.
Proof.
  destruct v; cbn [emit_val gap frames map rev app]; intros H;
    try (inversion H; subst; unfold same_but_clock_out; cbn; repeat split; lia).
  - (* VPkt *)
    destruct (update_time p (pkt_bit_time p0)) as [[] p1| |] eqn:E; cbn [rbind] in H; try discriminate.
    apply update_time_ok in E as (En & Eo & Ew & Es & _).
    apply write_all_ok in H as (Hn & Ho & Hw & Hs).
    unfold same_but_clock_out in *. cbn [map rev app] in *.
    repeat split; try (intuition congruence); try (rewrite Ho, En, Eo; reflexivity).
  - (* VPktGen *)
    destruct (advance_all p ps) as [[] p1| |] eqn:E; cbn [rbind] in H; try discriminate.
    apply advance_all_ok in E as (En & Eo & Ew & Es).
    apply write_all_ok in H as (Hn & Ho & Hw & Hs).
    unfold same_but_clock_out in *.
    repeat split; try (intuition congruence); try (rewrite Ho, En, Eo, !map_map; reflexivity).
  - (* VTimeJump *)
    apply update_time_ok in H as (En & Eo & Ew & Es & _).
    split; [exact En|]. split; [exact Eo|exact Es].
Qed.

(** a run of expression statements whose values are vs *)
Fixpoint emit_all (p : prog) (vs : list val) : res unit :=
  match vs with
  | [] => ROk tt p
  | v :: r => rbind (emit_val p v) (fun _ p => emit_all p r)
  end.

Theorem emit_all_refines vs : forall p p',
  emit_all p vs = ROk tt p' ->
  p_now p' = final_time (p_now p) vs
  /\ p_out p' = rev (map rec_bytes (timeline (p_now p) vs)) ++ p_out p.
Proof.
  induction vs as [|v vs IH]; intros p p' H; cbn [emit_all timeline final_time] in *.
  - inversion H; subst. split; reflexivity.
  - destruct (emit_val p v) as [[] p1| |] eqn:E; cbn [rbind] in H; try discriminate.
    apply emit_val_refines in E as (En & Eo & _).
    apply IH in H as (Hn & Ho). rewrite En in *. split; [exact Hn|].
    rewrite Ho, Eo, map_app, rev_app_distr, <- app_assoc. reflexivity.
Qed.
