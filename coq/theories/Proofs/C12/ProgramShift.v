(** C12, program level: what a program computes does not depend on the clock, so the values of its
    expression statements -- and therefore its records up to their timestamps -- are the same from any
    starting time; inserting a statement that evaluates to a time jump of d ns at any position of any
    program shifts every later record by exactly d and leaves every earlier record alone.
    Generic in the library (Section variables), hence true of the real one. *)
From RS Require Import Base.Bytes Base.Outcome Bind.Types Bind.Binder Pkt.Packet Pkt.Pcap Interp.Val Interp.Ast
  Interp.Eval Lib.LibBase Spec.Timeline Spec.PcapRead Proofs.BytesLemmas Proofs.C01.PcapLemmas
  Proofs.C01.EvalPreserves Proofs.C01.Program Proofs.C12.TimelineProofs Proofs.C14.Basics Proofs.C14.Sim.
From Coq Require Import ZArith Lia ZifyBool ZifyNat ZifyN Sorted.
Ltac Zify.zify_post_hook ::= Z.div_mod_to_equations.
Open Scope N_scope.

(** what evaluation can read: variables, imports, objects.  Not the clock, not the output, not the
    current location, the warnings or the call trace. *)
Definition Q (p q : prog) : Prop :=
  p_regs p = p_regs q /\ p_imports p = p_imports q /\ p_heap p = p_heap q.

Lemma Q_refl p : Q p p. Proof. repeat split. Qed.
Lemma Q_sym p q : Q p q -> Q q p. Proof. intros (A & B & C). repeat split; congruence. Qed.
Lemma Q_trans p q r : Q p q -> Q q r -> Q p r. Proof. intros (A & B & C) (D & E & F). repeat split; congruence. Qed.

Section Interp.
Variable functions : list funcdef.
Variable classes : list (string * list (string * string)).
Variable modules : list (string * list (string * symbol)).
Variable exec : string -> option nat -> list val -> list val -> heap -> option libres.

Notation eval := (eval functions classes modules exec).
Notation call := (call functions exec).
Notation add_stmt := (add_stmt functions classes modules exec).
Notation add_stmts := (add_stmts functions classes modules exec).
Notation eval_obj_ref := (eval_obj_ref classes modules).
Notation eval_args_spec := (eval_args_spec functions classes modules exec).
Notation run_vals := (run_vals functions classes modules exec).

Lemma Q_set_loc p q l l' : Q p q -> Q (set_loc p l) (set_loc q l').
Proof. intros H. exact H. Qed.

Lemma obj_ref_Q p q ms cs : Q p q -> eval_obj_ref p ms cs = eval_obj_ref q ms cs.
Proof.
  intros (Hr & Hi & Hh). destruct ms as [|m ms]; cbn [Eval.eval_obj_ref].
  - destruct cs as [|x more]; [reflexivity|]. unfold eval_local_ref. rewrite Hr.
    destruct (Nat.ltb 2 (length (x :: more))); [reflexivity|].
    destruct (assoc x (p_regs q)) as [v|]; [|reflexivity]. destruct more; [reflexivity|].
    unfold method_lookup. rewrite Hh. reflexivity.
  - unfold eval_extern_ref. rewrite Hi. reflexivity.
Qed.

Lemma call_Q p q key this vs : Q p q -> rsim Q (call p key this vs) (call q key this vs).
Proof.
  intros HQ. pose proof HQ as (Hr & Hi & Hh).
  unfold Eval.call. destruct (find_func functions key) as [f|]; [|cbn; split; [reflexivity|exact HQ]].
  destruct (argvec val val_type val_of_valdef f vs) as [[slots extra]|e|s|]; cbn [lift rbind];
    try (cbn; split; [reflexivity|exact HQ]).
  rewrite Hh. destruct (exec key this slots extra (p_heap q)) as [r|]; [|cbn; split; [reflexivity|exact HQ]].
  assert (HT : Q (add_trace p key) (add_trace q key)) by exact HQ.
  destruct r as [[v h]|e|s|]; cbn [lift rbind]; try (cbn; split; [reflexivity|exact HT]).
  assert (HS : Q (set_heap (add_trace p key) h) (set_heap (add_trace q key) h)).
  { unfold Q. cbn. repeat split; assumption. }
  destruct (vtype_eqb (val_type v) (fd_ret f)); cbn; split; try reflexivity; exact HS.
Qed.

Lemma eval_args_Q args :
  Forall (fun a => forall p q, Q p q -> rsim Q (eval p (snd a)) (eval q (snd a))) args ->
  forall p q, Q p q -> rsim Q (eval_args_spec p args) (eval_args_spec q args).
Proof.
  induction 1 as [|[n a] r Ha Hr IH]; intros p q HQ; cbn [Basics.eval_args_spec].
  - cbn. split; [reflexivity|exact HQ].
  - apply rsim_rbind; [apply Ha; assumption|]. intros v p1 q1 _ _ HQ1.
    apply rsim_rbind; [apply IH; assumption|]. intros vs p2 q2 _ _ HQ2. cbn. split; [reflexivity|exact HQ2].
Qed.

(** evaluation reads only variables, imports and objects: same value, same outcome, same new objects *)
Theorem eval_Q e : forall p q, Q p q -> rsim Q (eval p e) (eval q e).
Proof.
  induction e as [|l v|l ms cs|l ms cs args IH|a b IHa IHb] using expr_ind'; intros p q HQ.
  - cbn. split; [reflexivity|exact HQ].
  - cbn. split; [reflexivity|exact HQ].
  - cbn [Eval.eval].
    rewrite (obj_ref_Q (set_loc p l) (set_loc q l) ms cs (Q_set_loc p q l l HQ)).
    apply rsim_lift. exact HQ.
  - rewrite !eval_ECall. unfold eval_call_spec.
    rewrite (obj_ref_Q (set_loc p l) (set_loc q l) ms cs (Q_set_loc p q l l HQ)).
    apply rsim_rbind; [apply rsim_lift; exact HQ|]. intros callee p1 q1 _ _ HQ1.
    pose proof (eval_args_Q args IH) as HA.
    destruct callee; try (cbn; split; [reflexivity|exact HQ1]);
      (apply rsim_rbind; [apply HA; exact HQ1|]; intros vs p2 q2 _ _ HQ2; apply call_Q; exact HQ2).
  - cbn [Eval.eval].
    apply rsim_rbind; [apply IHa; assumption|]. intros va p1 q1 _ _ HQ1.
    destruct (negb (vtype_eqb (val_type va) TIp4)); [cbn; split; [reflexivity|exact HQ1]|].
    apply rsim_rbind; [apply IHb; assumption|]. intros vb p2 q2 _ _ HQ2.
    destruct (negb (is_integral (val_type vb))); [cbn; split; [reflexivity|exact HQ2]|].
    apply rsim_rbind; [apply rsim_lift; exact HQ2|]. intros ip p3 q3 _ _ HQ3.
    apply rsim_rbind; [apply rsim_lift; exact HQ3|]. intros port p4 q4 _ _ HQ4.
    destruct (65535 <? port); cbn; split; try reflexivity; exact HQ4.
Qed.

Corollary eval_Q_ok e p q v p1 : Q p q -> eval p e = ROk v p1 ->
  exists q1, eval q e = ROk v q1 /\ Q p1 q1 /\ p_now q1 = p_now q /\ p_out q1 = p_out q.
Proof.
  intros HQ E. pose proof (eval_Q e p q HQ) as S. rewrite E in S.
  destruct (eval q e) as [v' q1| |] eqn:E'; cbn [rsim] in S; try contradiction.
  destruct S as (<- & HQ1). exists q1. split; [reflexivity|]. split; [exact HQ1|].
  destruct (eval_same_io functions classes modules exec e _ _ _ E') as (Hn & Ho & _). split; assumption.
Qed.

(** ** emission from a different clock value *)
Lemma update_time_at p q ns p' : Q p q -> update_time p ns = ROk tt p' -> p_now q + ns < two64 ->
  exists q', update_time q ns = ROk tt q' /\ Q p' q' /\ p_now q' = p_now q + ns.
Proof.
  intros HQ E Hlt. apply update_time_ok in E as (_ & _ & _ & (Hr & Hi & Hh & _) & _).
  unfold update_time. destruct (p_now q + ns <? two64) eqn:B; [|lia].
  eexists. split; [reflexivity|]. destruct HQ as (A & B' & C). unfold Q. cbn. repeat split; congruence.
Qed.

Lemma advance_all_at ks : forall p q p', Q p q -> advance_all p ks = ROk tt p' ->
  p_now q + sumN (map pkt_bit_time ks) < two64 ->
  exists q', advance_all q ks = ROk tt q' /\ Q p' q' /\ p_now q' = p_now q + sumN (map pkt_bit_time ks).
Proof.
  induction ks as [|k ks IH]; intros p q p' HQ E Hlt; cbn [advance_all map sumN] in *.
  - inversion E; subst. exists q. split; [reflexivity|]. split; [exact HQ|lia].
  - destruct (update_time p (pkt_bit_time k)) as [[] p1| |] eqn:E1; cbn [rbind] in E; try discriminate.
    destruct (update_time_at p q _ p1 HQ E1) as (q1 & F1 & HQ1 & Hn1); [lia|].
    rewrite F1. cbn [rbind].
    destruct (IH p1 q1 p' HQ1 E) as (q' & F & HQ' & Hn'); [lia|].
    exists q'. split; [exact F|]. split; [exact HQ'|lia].
Qed.

Lemma write_all_at ks : forall p q p', Q p q -> write_all p ks = ROk tt p' ->
  exists q', write_all q ks = ROk tt q' /\ Q p' q' /\ p_now q' = p_now q.
Proof.
  induction ks as [|k ks IH]; intros p q p' HQ E; cbn [write_all] in *.
  - inversion E; subst. exists q. split; [reflexivity|]. split; [exact HQ|reflexivity].
  - unfold write_packet in *. destruct (Nat.ltb (length (pk_hr k)) 16); cbn [lift rbind] in E; [discriminate|].
    cbn [lift rbind].
    destruct (IH (add_out p (pcap_rec_hdr (p_now p) (pkt_len k) ++ pk_body k))
                 (add_out q (pcap_rec_hdr (p_now q) (pkt_len k) ++ pk_body k)) p') as (q' & F & HQ' & Hn');
      [exact HQ|exact E|].
    exists q'. split; [exact F|]. split; [exact HQ'|exact Hn'].
Qed.

Lemma emit_val_at p q v p' : Q p q -> emit_val p v = ROk tt p' -> p_now q + gap v < two64 ->
  exists q', emit_val q v = ROk tt q' /\ Q p' q'.
Proof.
  intros HQ E Hlt. destruct v; cbn [emit_val gap] in *;
    try (inversion E; subst; eexists; split; [reflexivity|exact HQ]).
  - destruct (update_time p (pkt_bit_time p0)) as [[] p1| |] eqn:E1; cbn [rbind] in E; try discriminate.
    destruct (update_time_at p q _ p1 HQ E1 Hlt) as (q1 & F1 & HQ1 & _). rewrite F1. cbn [rbind].
    destruct (write_all_at [p0] p1 q1 p' HQ1 E) as (q' & F & HQ' & _). exists q'. split; assumption.
  - destruct (advance_all p ps) as [[] p1| |] eqn:E1; cbn [rbind] in E; try discriminate.
    destruct (advance_all_at ps p q p1 HQ E1 Hlt) as (q1 & F1 & HQ1 & _). rewrite F1. cbn [rbind].
    destruct (write_all_at ps p1 q1 p' HQ1 E) as (q' & F & HQ' & _). exists q'. split; assumption.
  - destruct (update_time_at p q _ p' HQ E Hlt) as (q' & F & HQ' & _). exists q'. split; assumption.
Qed.

(** ** the values a program computes do not depend on the clock it is started at *)
Theorem run_vals_any_clock p ss vs p' : run_vals p ss vs p' ->
  forall q, Q p q -> final_time (p_now q) vs < two64 ->
  exists q', run_vals q ss vs q' /\ Q p' q'.
Proof.
  induction 1 as [p|p l name p1 r vs p' Hs Hn Ho _ IH|p l x e p1 r vs p' Hs Hn Ho _ IH|p e v p1 p2 r vs p' He Hn Ho Hemit _ IH];
    intros q HQ Hlt.
  - exists q. split; [constructor|exact HQ].
  - (* import *)
    assert (exists q1, add_stmt q (SImport l name) = ROk tt q1 /\ Q p1 q1) as (q1 & F1 & HQ1).
    { pose proof HQ as (Hr & Hi & Hh). revert Hs. cbn [Eval.add_stmt]. cbn [set_loc p_imports]. rewrite Hi.
      destruct (assoc name (p_imports q)); [intros E; inversion E; subst; eexists; split; [reflexivity|exact HQ]|].
      destruct (assoc EmptyString modules) as [syms|]; [|discriminate].
      destruct (assoc name syms) as [[path|k|k|d]|]; try discriminate.
      intros E; inversion E; subst. eexists; split; [reflexivity|]. unfold Q. cbn. repeat split; congruence. }
    destruct (import_quiet functions classes modules exec _ _ _ _ F1) as (Hn1 & Ho1).
    destruct (IH q1 HQ1) as (q' & R' & HQ'); [rewrite Hn1; exact Hlt|].
    exists q'. split; [eapply RV_import; eassumption|exact HQ'].
  - (* let *)
    assert (exists q1, add_stmt q (SAssign l x e) = ROk tt q1 /\ Q p1 q1) as (q1 & F1 & HQ1).
    { pose proof HQ as (Hr & Hi & Hh). revert Hs. cbn [Eval.add_stmt]. cbn [set_loc p_regs]. rewrite Hr.
      destruct (assoc x (p_regs q)); [discriminate|].
      destruct (Eval.eval functions classes modules exec (set_loc p l) e) as [v pa| |] eqn:Ee; cbn [rbind]; try discriminate.
      destruct (eval_Q_ok e (set_loc p l) (set_loc q l) v pa (Q_set_loc p q l l HQ) Ee) as (qa & Fe & HQa & _).
      rewrite Fe. cbn [rbind]. intros E; inversion E; subst. eexists; split; [reflexivity|].
      destruct HQa as (A & B & C). unfold Q. cbn. repeat split; congruence. }
    destruct (assign_quiet functions classes modules exec _ _ _ _ _ F1) as (Hn1 & Ho1).
    destruct (IH q1 HQ1) as (q' & R' & HQ'); [rewrite Hn1; exact Hlt|].
    exists q'. split; [eapply RV_assign; eassumption|exact HQ'].
  - (* expression statement *)
    destruct (eval_Q_ok e p q v p1 HQ He) as (q1 & Fe & HQ1 & Hn1 & Ho1).
    cbn [final_time] in Hlt.
    assert (Hg : p_now q1 + gap v < two64).
    { rewrite Hn1. pose proof (final_time_ge (p_now q + gap v) vs). lia. }
    destruct (emit_val_at p1 q1 v p2 HQ1 Hemit Hg) as (q2 & F2 & HQ2).
    assert (Hn2 : p_now q2 = p_now q + gap v).
    { destruct (emit_val_refines _ _ _ F2) as (En & _). rewrite En, Hn1. reflexivity. }
    destruct (IH q2 HQ2) as (q' & R' & HQ'); [rewrite Hn2; exact Hlt|].
    exists q'. split; [eapply RV_expr; eassumption|exact HQ'].
Qed.

(** ** splitting and joining runs *)
Lemma run_vals_sound p ss vs p' : run_vals p ss vs p' -> add_stmts p ss = ROk tt p'.
Proof.
  induction 1 as [p|p l name p1 r vs p' Hs _ _ _ IH|p l x e p1 r vs p' Hs _ _ _ IH|p e v p1 p2 r vs p' He _ _ Hemit _ IH];
    cbn [Eval.add_stmts]; [reflexivity| | |].
  - rewrite Hs. cbn [rbind]. exact IH.
  - rewrite Hs. cbn [rbind]. exact IH.
  - cbn [Eval.add_stmt]. rewrite He. cbn [rbind]. rewrite Hemit. cbn [rbind]. exact IH.
Qed.

Lemma run_vals_app p a va pa b vb p' : run_vals p a va pa -> run_vals pa b vb p' -> run_vals p (a ++ b) (va ++ vb) p'.
Proof.
  induction 1 as [p|p l name p1 r vs pa Hs Hn Ho _ IH|p l x e p1 r vs pa Hs Hn Ho _ IH|p e v p1 p2 r vs pa He Hn Ho Hemit _ IH];
    intros Hb; cbn [app].
  - exact Hb.
  - eapply RV_import; eauto.
  - eapply RV_assign; eauto.
  - eapply RV_expr; eauto.
Qed.

Lemma run_vals_split a : forall p b vs p', run_vals p (a ++ b) vs p' ->
  exists va vb pa, vs = va ++ vb /\ run_vals p a va pa /\ run_vals pa b vb p'.
Proof.
  induction a as [|s a IH]; intros p b vs p' H; cbn [app] in H.
  - exists [], vs, p. split; [reflexivity|]. split; [constructor|exact H].
  - inversion H; subst.
    + match goal with Hr : run_vals _ (a ++ b) _ _ |- _ => destruct (IH _ _ _ _ Hr) as (va & vb & pa & -> & Ra & Rb) end.
      exists va, vb, pa. split; [reflexivity|]. split; [eapply RV_import; eassumption|exact Rb].
    + match goal with Hr : run_vals _ (a ++ b) _ _ |- _ => destruct (IH _ _ _ _ Hr) as (va & vb & pa & -> & Ra & Rb) end.
      exists va, vb, pa. split; [reflexivity|]. split; [eapply RV_assign; eassumption|exact Rb].
    + match goal with Hr : run_vals _ (a ++ b) _ _ |- _ => destruct (IH _ _ _ _ Hr) as (va & vb & pa & -> & Ra & Rb) end.
      exists (v :: va), vb, pa. split; [reflexivity|]. split; [eapply RV_expr; eassumption|exact Rb].
Qed.

(** ** inserting a jump *)
(** [e] is a jump of [d] ns at state [p]: it evaluates to the time-jump value and changes nothing that
    later statements can read (the library's time::jump_* calls are of this kind, see [JumpCalls]) *)
Definition jump_at (p : prog) (e : expr) (d : N) : Prop :=
  exists p1, eval p e = ROk (VTimeJump d) p1 /\ Q p p1.

Theorem jump_insertion a b e d p vs p' :
  run_vals p (a ++ b) vs p' ->
  (forall va pa, run_vals p a va pa -> jump_at pa e d) ->
  final_time (p_now p) vs + d < two64 ->
  exists va vb pa p'',
    vs = va ++ vb /\ run_vals p a va pa
    /\ run_vals p (a ++ SExpr e :: b) (va ++ VTimeJump d :: vb) p''
    /\ timeline (p_now p) vs = timeline (p_now p) va ++ timeline (final_time (p_now p) va) vb
    /\ timeline (p_now p) (va ++ VTimeJump d :: vb)
       = timeline (p_now p) va ++ shift_recs d (timeline (final_time (p_now p) va) vb)
    /\ p_now p'' = p_now p' + d.
Proof.
  intros H HJ Hlt. destruct (run_vals_split a p b vs p' H) as (va & vb & pa & -> & Ra & Rb).
  destruct (HJ va pa Ra) as (p1 & Ej & HQ1).
  destruct (eval_same_io functions classes modules exec e _ _ _ Ej) as (Hn1 & Ho1 & _).
  destruct (run_vals_output functions classes modules exec _ _ _ _ Ra) as (Hna & _).
  destruct (run_vals_output functions classes modules exec _ _ _ _ Rb) as (Hnb & _).
  rewrite final_time_app in Hlt.
  assert (Hj : p_now p1 + d < two64).
  { rewrite Hn1, Hna. pose proof (final_time_ge (final_time (p_now p) va) vb). lia. }
  assert (exists p2, emit_val p1 (VTimeJump d) = ROk tt p2 /\ Q p1 p2 /\ p_now p2 = p_now p1 + d) as (p2 & E2 & HQ2 & Hn2).
  { cbn [emit_val]. unfold update_time. destruct (p_now p1 + d <? two64) eqn:B; [|lia].
    eexists. split; [reflexivity|]. split; [|reflexivity]. unfold Q. cbn. repeat split. }
  assert (final_time_shift : forall l t, final_time (t + d) l = final_time t l + d).
  { induction l as [|v l IHl]; intros t; cbn [final_time]; [reflexivity|].
    replace (t + d + gap v) with (t + gap v + d) by lia. apply IHl. }
  destruct (run_vals_any_clock pa b vb p' Rb p2 (Q_trans _ _ _ HQ1 HQ2)) as (p'' & R'' & HQ'').
  { rewrite Hn2, Hn1, Hna, final_time_shift. lia. }
  exists va, vb, pa, p''. split; [reflexivity|]. split; [exact Ra|].
  split; [apply (run_vals_app p a va pa); [exact Ra|eapply RV_expr; eassumption]|].
  split; [apply timeline_app|]. split; [apply (jump_shift (p_now p) va vb d)|].
  destruct (run_vals_output functions classes modules exec _ _ _ _ R'') as (Hn'' & _).
  rewrite Hn'', Hn2, Hn1, Hna, final_time_shift, Hnb, Hna. reflexivity.
Qed.

(** every successful run keeps the clock below 2^64 (it is a u64 in the code) *)
Lemma advance_all_below ks : forall p p', advance_all p ks = ROk tt p' -> p_now p < two64 -> p_now p' < two64.
Proof.
  induction ks as [|k ks IH]; intros p p' E Hlt; cbn [advance_all] in E.
  - inversion E; subst. exact Hlt.
  - destruct (update_time p (pkt_bit_time k)) as [[] p1| |] eqn:E1; cbn [rbind] in E; try discriminate.
    apply update_time_ok in E1 as (En & _ & _ & _ & Hb). apply (IH p1 p' E). lia.
Qed.

Lemma emit_val_below p v p' : emit_val p v = ROk tt p' -> p_now p < two64 -> p_now p' < two64.
Proof.
  intros E Hlt. destruct v; cbn [emit_val] in E; try (inversion E; subst; exact Hlt).
  - destruct (update_time p (pkt_bit_time p0)) as [[] p1| |] eqn:E1; cbn [rbind] in E; try discriminate.
    apply update_time_ok in E1 as (En & _ & _ & _ & Hb). apply write_all_ok in E as (Hn & _). lia.
  - destruct (advance_all p ps) as [[] p1| |] eqn:E1; cbn [rbind] in E; try discriminate.
    apply advance_all_below in E1; [|exact Hlt]. apply write_all_ok in E as (Hn & _). lia.
  - apply update_time_ok in E as (En & _ & _ & _ & Hb). lia.
Qed.

Theorem run_vals_below p ss vs p' : run_vals p ss vs p' -> p_now p < two64 -> final_time (p_now p) vs < two64.
Proof.
  intros H Hlt. destruct (run_vals_output functions classes modules exec _ _ _ _ H) as (<- & _).
  induction H as [p|p l name p1 r vs p' _ Hn _ _ IH|p l x e p1 r vs p' _ Hn _ _ IH|p e v p1 p2 r vs p' _ Hn _ Hemit _ IH].
  - exact Hlt.
  - apply IH. rewrite Hn. exact Hlt.
  - apply IH. rewrite Hn. exact Hlt.
  - apply IH. apply (emit_val_below p1 v p2 Hemit). rewrite Hn. exact Hlt.
Qed.

Lemma final_time_mono l : forall s t, s <= t -> final_time s l <= final_time t l.
Proof. induction l as [|v l IHl]; intros s t Hst; cbn [final_time]; [exact Hst|]. apply IHl. lia. Qed.

(** the other direction: a program that contains a jump also runs without it (the clock only gets smaller),
    and computes the same values *)
Theorem jump_removal a b e d p vs' p'' :
  run_vals p (a ++ SExpr e :: b) vs' p'' ->
  (forall va pa, run_vals p a va pa -> jump_at pa e d) ->
  exists va vb p', vs' = va ++ VTimeJump d :: vb /\ run_vals p (a ++ b) (va ++ vb) p'.
Proof.
  intros H HJ. destruct (run_vals_split a p (SExpr e :: b) vs' p'' H) as (va & vb' & pa & -> & Ra & Rb').
  destruct (HJ va pa Ra) as (p1 & Ej & HQ1).
  inversion Rb' as [| | |p0 e0 v p1' pj r vbb p0' He Hn1 Ho1 Hemit Rbb]; subst.
  rewrite Ej in He. inversion He; subst v p1'. clear He.
  pose proof Hemit as Hup. cbn [emit_val] in Hup.
  apply update_time_ok in Hup as (En2 & _ & _ & (Hr2 & Hi2 & Hh2 & _) & Hb2).
  assert (HQb : Q pj pa).
  { destruct HQ1 as (A & B & C). unfold Q. repeat split; congruence. }
  destruct (run_vals_any_clock pj b vbb p'' Rbb pa HQb) as (p' & R' & _).
  { pose proof (run_vals_below pj b vbb p'' Rbb) as B1.
    pose proof (final_time_mono vbb (p_now pa) (p_now pj)) as B2. lia. }
  exists va, vbb, p'. split; [reflexivity|]. apply (run_vals_app p a va pa); assumption.
Qed.

(** ** what a reader of the file sees: (sec, nsec) never decreases, nsec < 10^9 *)
Definition rec_le (r1 r2 : pcap_rec) : Prop :=
  r_sec r1 < r_sec r2 \/ (r_sec r1 = r_sec r2 /\ r_nsec r1 <= r_nsec r2).

Lemma sorted_abs (l : list (N * bytes)) T :
  StronglySorted (fun a b => fst a <= fst b) l -> Forall (fun r => fst r <= T) l -> T < TS_LIMIT ->
  StronglySorted rec_le (map abs_rec l).
Proof.
  intros HS HB HT. induction HS as [|r l HS IH HF]; cbn [map]; [constructor|].
  inversion HB as [|? ? Hr HB']; subst. constructor; [apply IH; exact HB'|].
  apply Forall_forall. intros x Hx. apply in_map_iff in Hx as (y & <- & Hy).
  rewrite Forall_forall in HF, HB'. specialize (HF y Hy). specialize (HB' y Hy). cbn beta in HF, HB'.
  unfold rec_le, abs_rec. cbn [r_sec r_nsec]. apply sec_nsec_monotone; lia.
Qed.

Theorem program_records_sorted ss p' :
  add_stmts prog_init ss = ROk tt p' -> p_now p' < TS_LIMIT ->
  exists vs, run_vals prog_init ss vs p'
    /\ (Forall rec_ok (timeline 0 vs) ->
        exists recs, pcap_read (pcap_of p') = Some recs
          /\ StronglySorted rec_le recs
          /\ Forall (fun r => r_nsec r < 1000000000) recs
          /\ map r_frame recs = map snd (timeline 0 vs)).
Proof.
  intros E HT. destruct (program_pcap functions classes modules exec ss p' E) as (vs & R & F & Hread).
  exists vs. split; [exact R|]. intros Hok. exists (map abs_rec (timeline 0 vs)). split; [apply Hread; exact Hok|].
  destruct (run_vals_output functions classes modules exec _ _ _ _ R) as (Hn & _). cbn [prog_init p_now] in Hn.
  split; [|split].
  - apply (sorted_abs _ (p_now p')); [apply timeline_sorted|rewrite Hn; apply timeline_times_le|exact HT].
  - apply Forall_forall. intros x Hx. apply in_map_iff in Hx as (y & <- & _). cbn [abs_rec r_nsec]. apply nsec_always_lt_1e9.
  - rewrite map_map. reflexivity.
Qed.

End Interp.
