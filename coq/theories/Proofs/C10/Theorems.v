(** Consequences of [lex_line_pipeline]: totality, the partition into lexemes and the columns,
    the error position, purity. *)
From RS Require Import Base.Bytes Base.Outcome Base.Utf8 Lex.Tokens Lex.LexClass Lex.Scanner Lex.LexSpec.
From RS Require Import Proofs.BytesLemmas.
From RS.Proofs.C10 Require Import Utf8Facts RuleFacts Loop.
From Coq Require Import ZArith Lia ZifyBool ZifyNat ZifyN.
Ltac Zify.zify_post_hook ::= Z.div_mod_to_equations.
Open Scope N_scope.

(** ** generic facts about [lexemes], [cuts], [assemble] *)
Section Generic.
  Variable m : bytes -> option (lexclass * nat).
  Hypothesis m_bounds : forall s k n, m s = Some (k, n) -> (0 < n <= length s)%nat.

  Lemma lexemes_cuts : forall f s ls rest, (length s <= f)%nat ->
    lexemes m f s = (ls, rest) -> cuts m s ls rest /\ (rest = [] \/ m rest = None).
  Proof.
    induction f as [|f IH]; intros s ls rest Hf H.
    - destruct s; [|cbn [length] in Hf; lia]. cbn in H. injection H as <- <-. split; [reflexivity|left; reflexivity].
    - destruct s as [|b r]; [cbn in H; injection H as <- <-; split; [reflexivity|left; reflexivity]|].
      cbn [lexemes] in H. destruct (m (b :: r)) as [[k n]|] eqn:M.
      + destruct (lexemes m f (skipn n (b :: r))) as [ls' rest'] eqn:L. injection H as <- <-.
        pose proof (m_bounds _ _ _ M) as Hn.
        apply IH in L; [|rewrite skipn_length; lia]. destruct L as [Hc Hr]. split; [|exact Hr].
        cbn [cuts]. rewrite firstn_length. replace (Nat.min n (length (b :: r))) with n by lia.
        split; [|split; [exact M|]].
        * intros E. apply (f_equal (@length N)) in E. rewrite firstn_length in E. cbn [length] in *. lia.
        * exists (skipn n (b :: r)). split; [symmetry; apply firstn_skipn|exact Hc].
      + injection H as <- <-. split; [reflexivity|right; exact M].
  Qed.

  Lemma lexemes_step f s k n : s <> [] -> m s = Some (k, n) ->
    lexemes m (S f) s = (let (ls, rest) := lexemes m f (skipn n s) in ((k, firstn n s) :: ls, rest)).
  Proof. intros Hne M. destruct s; [congruence|]. cbn [lexemes]. rewrite M. reflexivity. Qed.

  Lemma cuts_lexemes : forall ls s rest f, (length s <= f)%nat ->
    cuts m s ls rest -> (rest = [] \/ m rest = None) -> lexemes m f s = (ls, rest).
  Proof.
    induction ls as [|[k x] ls IH]; intros s rest f Hf Hc Hr.
    - cbn [cuts] in Hc. subst s. destruct rest as [|b r]; [destruct f; reflexivity|].
      destruct Hr as [Hr|Hr]; [discriminate|]. destruct f; cbn [lexemes]; [reflexivity|]. now rewrite Hr.
    - cbn [cuts] in Hc. destruct Hc as (Hx & M & s' & -> & Hc).
      assert (Hlx : (0 < length x)%nat) by (destruct x; [congruence|cbn [length]; lia]).
      rewrite app_length in Hf. destruct f as [|f]; [lia|].
      rewrite (lexemes_step f (x ++ s') k (length x)); [|destruct x; [congruence|discriminate]|exact M].
      rewrite skipn_app, skipn_all, Nat.sub_diag. cbn [app skipn].
      rewrite (IH s' rest f) by (auto; lia).
      rewrite firstn_app, firstn_all, Nat.sub_diag. cbn [firstn]. rewrite app_nil_r. reflexivity.
  Qed.

  Lemma cuts_concat : forall ls s rest, cuts m s ls rest -> s = concat (map snd ls) ++ rest.
  Proof.
    induction ls as [|[k x] ls IH]; intros s rest Hc; cbn [cuts] in Hc.
    - exact Hc.
    - destruct Hc as (_ & _ & s' & -> & Hc). cbn [map snd concat]. rewrite <- app_assoc. f_equal. apply IH. exact Hc.
  Qed.

  Lemma cuts_nonempty : forall ls s rest, cuts m s ls rest -> Forall (fun l => snd l <> []) ls.
  Proof.
    induction ls as [|[k x] ls IH]; intros s rest Hc; cbn [cuts] in Hc; constructor.
    - cbn. tauto.
    - destruct Hc as (_ & _ & s' & _ & Hc). eapply IH; eauto.
  Qed.

  (** columns *)
  Lemma assemble_placed lno line : forall ls done s rest pend ts p,
    line = done ++ s -> cuts m s ls rest -> assemble lno (len done) pend ls = (ts, p) ->
    Forall (token_placed m lno line) ts.
  Proof.
    induction ls as [|[k x] ls IH]; intros done s rest pend ts p Hl Hc Ha; cbn [assemble] in Ha.
    - injection Ha as <- <-. constructor.
    - cbn [cuts] in Hc. destruct Hc as (Hx & M & s' & -> & Hc).
      assert (Hl' : line = (done ++ x) ++ s') by (rewrite <- app_assoc; exact Hl).
      rewrite <- len_app in Ha.
      destruct k as [| | | |t]; try (eapply IH; eassumption).
      destruct t; try (eapply IH; eassumption);
        (destruct (assemble lno (len (done ++ x)) None ls) as [ts' p'] eqn:Ha'; injection Ha as <- <-;
         apply Forall_app; split;
         [destruct pend; cbn [flush]; repeat constructor; intros Hn; cbn in Hn; congruence|];
         constructor; [|eapply IH; eassumption];
         intros _; exists done, x, s'; cbn [tk_type tk_loc tk_val]; repeat split; assumption).
  Qed.

  Lemma strings_located_cons_nonstring t ts :
    tk_type t <> TStringLit -> strings_located ts -> strings_located (t :: ts).
  Proof. intros H Hs. cbn [strings_located]. split; [intros E; congruence|exact Hs]. Qed.

  Lemma assemble_strings_located lno : forall ls off pend, strings_located (fst (assemble lno off pend ls)).
  Proof.
    induction ls as [|[k x] ls IH]; intros off pend; cbn [assemble]; [exact I|].
    destruct k as [| | | |t]; try apply IH.
    destruct t; try apply IH;
      (specialize (IH (off + len x) None); destruct (assemble lno (off + len x) None ls) as [ts' p']; cbn [fst] in *;
       destruct pend; cbn [flush app];
       [cbn [strings_located tk_type tk_loc]; split; [intros _; split; [reflexivity|discriminate]|];
        split; [intros E; discriminate|exact IH]
       |apply strings_located_cons_nonstring; [cbn; discriminate|exact IH]]).
  Qed.

  (** only the class, the text and the position of a lexeme matter *)
  Lemma assemble_strip2 l1 l2 : forall ls o1 o2 pend,
    (let (ts, p) := assemble l1 o1 pend ls in (map strip_loc ts, p)) =
    (let (ts, p) := assemble l2 o2 pend ls in (map strip_loc ts, p)).
  Proof.
    induction ls as [|[k x] ls IH]; intros o1 o2 pend; cbn [assemble]; [reflexivity|].
    destruct k as [| | | |t]; try apply IH.
    destruct t; try apply IH;
      (specialize (IH (o1 + len x) (o2 + len x) None);
       destruct (assemble l1 (o1 + len x) None ls) as [ts p];
       destruct (assemble l2 (o2 + len x) None ls) as [ts0 p0];
       injection IH as IH1 IH2; subst p0; rewrite !map_app; cbn [map]; rewrite IH1;
       destruct pend; reflexivity).
  Qed.

  Lemma assemble_strip lno off ls pend :
    (let (ts, p) := assemble lno off pend ls in (map strip_loc ts, p)) = essence pend ls.
  Proof. unfold essence. apply assemble_strip2. Qed.

  Lemma assemble_app lno : forall a off pend b,
    assemble lno off pend (a ++ b) =
    (let (ta, pa) := assemble lno off pend a in
     let (tb, pb) := assemble lno (off + len (concat (map snd a))) pa b in (ta ++ tb, pb)).
  Proof.
    induction a as [|[k x] a IH]; intros off pend b; cbn [app assemble map concat snd].
    - unfold len. cbn [length]. rewrite N.add_0_r. destruct (assemble lno off pend b); reflexivity.
    - rewrite len_app, N.add_assoc.
      destruct k as [| | | |t]; try apply IH.
      destruct t; try apply IH;
        (rewrite IH; destruct (assemble lno (off + len x) None a) as [ta pa];
         destruct (assemble lno (off + len x + len (concat (map snd a))) pa b) as [tb pb];
         rewrite <- app_assoc; reflexivity).
  Qed.
End Generic.

Lemma match_rules_bounds w s k n : match_rules w s = Some (k, n) -> (0 < n <= length s)%nat.
Proof. intros H. apply match_rules_good in H. destruct H as [[H _] _]. exact H. Qed.

(** The theorems, for any classifier [m] for which Lexer::line is the pipeline: the scanner's own
    pattern [match_rules w] (by [lex_line_pipeline]) and, once the scanner is shown to meet the
    specification, the specification's [first_class] (Proofs/C10/Meets.v). *)
Section Theorems.
  Variable w : N -> bool.
  Variable m : bytes -> option (lexclass * nat).
  Hypothesis m_bounds : forall s k n, m s = Some (k, n) -> (0 < n <= length s)%nat.
  Hypothesis pipe : forall lx lno line, Valid line ->
    lex_line_gen w lx lno line =
    (let '((lc, p), o) := line_tokens m (lx_pending lx) lno line in ({| lx_loc := lc; lx_pending := p |}, o)).

  (** 1. totality: on valid UTF-8 the lexer returns tokens or a lex error, never a panic, and the
      fuel [length line + 1] is never exhausted *)
  Theorem lex_total lx lno line : utf8_valid line = true ->
    (exists toks, snd (lex_line_gen w lx lno line) = Ok toks) \/ snd (lex_line_gen w lx lno line) = Err ELex.
  Proof.
    intros Hv. apply utf8_valid_iff in Hv. rewrite (pipe lx lno line Hv).
    unfold line_tokens. destruct (lexemes m (length line) line) as [ls rest].
    destruct rest; [destruct (assemble lno 0 (lx_pending lx) ls)|]; cbn [snd]; eauto.
  Qed.

  (** 2. success: the tokens are assembled from a cutting of the whole line *)
  Theorem lex_ok_cuts lx lno line lx' toks : utf8_valid line = true ->
    lex_line_gen w lx lno line = (lx', Ok toks) <->
    exists ls, cuts m line ls [] /\
               assemble lno 0 (lx_pending lx) ls = (toks, lx_pending lx') /\
               lx_loc lx' = loc_at lno (len line).
  Proof.
    intros Hv. apply utf8_valid_iff in Hv. rewrite (pipe lx lno line Hv).
    unfold line_tokens. destruct (lexemes m (length line) line) as [ls rest] eqn:L. split.
    - intros H. pose proof (lexemes_cuts m m_bounds _ _ _ _ (Nat.le_refl _) L) as [Hc _].
      destruct rest; [|discriminate]. destruct (assemble lno 0 (lx_pending lx) ls) as [ts p] eqn:A.
      injection H as <- <-. exists ls. cbn [lx_pending lx_loc]. repeat split; auto.
      rewrite (cuts_concat m _ _ _ Hc), app_nil_r. reflexivity.
    - intros (ls' & Hc & A & Hloc).
      rewrite (cuts_lexemes m m_bounds ls' line [] (length line) (Nat.le_refl _) Hc (or_introl eq_refl)) in L.
      injection L as <- <-. rewrite A. destruct lx' as [lc p]. cbn [lx_loc lx_pending] in *. subst lc.
      rewrite (cuts_concat m _ _ _ Hc), app_nil_r. reflexivity.
  Qed.

  (** the lexemes, skipped ones included, concatenate to the line; every token that is not a string
      literal sits on its lexeme, so its column is 1 + the number of bytes before it; every string
      literal token is at the location of the token that ended it *)
  Theorem lexemes_partition lx lno line lx' toks : utf8_valid line = true ->
    lex_line_gen w lx lno line = (lx', Ok toks) ->
    exists ls, concat (map snd ls) = line /\ Forall (fun l => snd l <> []) ls /\ cuts m line ls []
               /\ Forall (token_placed m lno line) toks /\ strings_located toks.
  Proof.
    intros Hv H. apply (lex_ok_cuts lx lno line lx' toks Hv) in H. destruct H as (ls & Hc & A & _).
    exists ls. repeat split.
    - pose proof (cuts_concat m _ _ _ Hc) as E. rewrite app_nil_r in E. auto.
    - eapply cuts_nonempty; eauto.
    - exact Hc.
    - eapply (assemble_placed m lno line ls [] line [] (lx_pending lx) toks); eauto.
    - pose proof (assemble_strings_located lno ls 0 (lx_pending lx)) as S. rewrite A in S. exact S.
  Qed.

  (** 3. failure: the error is located at the first position, reached by cutting lexemes from the
      start of the line, at which no alternative matches *)
  Theorem lex_error_position lx lno line lx' e : utf8_valid line = true ->
    lex_line_gen w lx lno line = (lx', Err e) <->
    exists ls rest, cuts m line ls rest /\ rest <> [] /\ m rest = None /\ e = ELex /\
                    lx' = {| lx_loc := loc_at lno (len line - len rest); lx_pending := None |}.
  Proof.
    intros Hv. apply utf8_valid_iff in Hv. rewrite (pipe lx lno line Hv).
    unfold line_tokens. destruct (lexemes m (length line) line) as [ls rest] eqn:L. split.
    - intros H. pose proof (lexemes_cuts m m_bounds _ _ _ _ (Nat.le_refl _) L) as [Hc Hr].
      destruct rest as [|b rest]; [destruct (assemble lno 0 (lx_pending lx) ls); discriminate|].
      injection H as <- <-. exists ls, (b :: rest). destruct Hr as [Hr|Hr]; [discriminate|].
      repeat split; auto; [discriminate|]. f_equal. f_equal.
      pose proof (cuts_concat m _ _ _ Hc) as E. apply (f_equal (@len N)) in E. rewrite len_app in E. lia.
    - intros (ls' & rest' & Hc & Hne & Hm & -> & ->).
      rewrite (cuts_lexemes m m_bounds ls' line rest' (length line) (Nat.le_refl _) Hc (or_intror Hm)) in L.
      injection L as <- <-. destruct rest' as [|b r]; [congruence|].
      f_equal. f_equal. f_equal.
      pose proof (cuts_concat m _ _ _ Hc) as E. apply (f_equal (@len N)) in E. rewrite len_app in E. lia.
  Qed.
End Theorems.
