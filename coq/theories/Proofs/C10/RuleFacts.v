(** Every alternative of LEX_RE consumes at least one byte, stays inside the text and ends on a
    character boundary of a valid UTF-8 text. *)
From RS Require Import Base.Bytes Base.Outcome Base.Utf8 Lex.Tokens Lex.LexClass Lex.Scanner.
From RS.Proofs.C10 Require Import Utf8Facts.
From Coq Require Import ZArith Lia ZifyBool ZifyNat ZifyN.
Ltac Zify.zify_post_hook ::= Z.div_mod_to_equations.
Open Scope N_scope.

(** a match of [n] bytes at the head of [s] is good: non-empty, inside [s], and what follows is
    again valid UTF-8 whenever [s] is *)
Definition good (s : bytes) (n : nat) : Prop :=
  (0 < n <= length s)%nat /\ (Valid s -> Valid (skipn n s)).

Lemma is_char_boundary_eq s : is_char_boundary s = boundary s.
Proof. reflexivity. Qed.

(** *** star *)
Lemma star_le p s : (star p s <= length s)%nat.
Proof. induction s as [|c r IH]; cbn [star length]; [lia|]. destruct (p c); lia. Qed.

Lemma star_forall p s : Forall (fun c => p c = true) (firstn (star p s) s).
Proof.
  induction s as [|c r IH]; cbn [star]; [constructor|].
  destruct (p c) eqn:E; cbn [firstn]; [constructor; assumption|constructor].
Qed.

Lemma star_next p s : match skipn (star p s) s with [] => True | c :: _ => p c = false end.
Proof.
  induction s as [|c r IH]; cbn [star]; [exact I|].
  destruct (p c) eqn:E; cbn [skipn]; [exact IH|exact E].
Qed.

Lemma valid_skip_ascii n : forall s, Valid s -> (n <= length s)%nat ->
  Forall (fun c => c < 128) (firstn n s) -> Valid (skipn n s).
Proof.
  induction n as [|n IH]; intros s Hv Hn Hf; [exact Hv|].
  destruct s as [|b r]; [cbn in Hn; lia|]. cbn [firstn skipn length] in *.
  inversion Hf as [|? ? Hb Hf']; subst. apply IH; [eapply valid_tail; eauto|lia|exact Hf'].
Qed.

(** what follows an ASCII byte of a valid text is valid *)
Lemma valid_after_ascii s k b r : Valid s -> skipn k s = b :: r -> b < 128 -> Valid r.
Proof.
  intros Hv Hk Hb. assert (Hv' : Valid (skipn k s)).
  { apply valid_skipn; [exact Hv|]. rewrite Hk. cbn. unfold is_cont. lia. }
  rewrite Hk in Hv'. eapply valid_tail; eauto.
Qed.

Lemma good_ascii s n : (0 < n <= length s)%nat -> Forall (fun c => c < 128) (firstn n s) -> good s n.
Proof. intros Hn Hf. split; [exact Hn|]. intros Hv. apply valid_skip_ascii; [exact Hv|lia|exact Hf]. Qed.

Lemma good_boundary s n : (0 < n <= length s)%nat -> boundary (skipn n s) = true -> good s n.
Proof. intros Hn Hb. split; [exact Hn|]. intros Hv. apply valid_skipn; assumption. Qed.

Lemma Forall_impl' {A} (P Q : A -> Prop) l : (forall a, P a -> Q a) -> Forall P l -> Forall Q l.
Proof. intros H. apply Forall_impl. exact H. Qed.

(** *** literals *)
Lemma lit_spec w : forall s n, lit w s = Some n -> n = length w /\ firstn n s = w /\ (n <= length s)%nat.
Proof.
  induction w as [|c w IH]; intros s n H; cbn [lit] in H.
  - injection H as <-. cbn. repeat split. lia.
  - destruct s as [|d s]; [discriminate|]. destruct (c =? d) eqn:E; [|discriminate].
    destruct (lit w s) as [m|] eqn:Hm; [|discriminate]. cbn [option_map] in H. injection H as <-.
    apply IH in Hm. destruct Hm as (-> & Hf & Hl). cbn [length firstn]. rewrite Hf.
    apply N.eqb_eq in E. subst d. repeat split. lia.
Qed.

Lemma lit_complete w : forall s, firstn (length w) s = w -> lit w s = Some (length w).
Proof.
  induction w as [|c w IH]; intros s H; cbn [lit length]; [reflexivity|].
  destruct s as [|d s]; [discriminate|]. cbn [firstn length] in H. injection H as -> H.
  rewrite N.eqb_refl. rewrite IH by exact H. reflexivity.
Qed.

Lemma good_lit w s n : w <> [] -> Forall (fun c => c < 128) w -> lit w s = Some n -> good s n.
Proof.
  intros Hne Hw H. apply lit_spec in H. destruct H as (-> & Hf & Hl).
  apply good_ascii; [|rewrite Hf; exact Hw]. destruct w; [congruence|]. cbn [length] in *. lia.
Qed.

Lemma ascii_string_forall (w : string) : forallb (fun c => c <? 128) (bytes_of_string w) = true ->
  Forall (fun c => c < 128) (bytes_of_string w).
Proof. intros H. rewrite forallb_forall in H. apply Forall_forall. intros x Hx. apply H in Hx. lia. Qed.

Lemma good_re_lit (w : string) s n :
  bytes_of_string w <> [] -> forallb (fun c => c <? 128) (bytes_of_string w) = true ->
  re_lit w s = Some n -> good s n.
Proof. intros Hne Hw. apply good_lit; [exact Hne|apply ascii_string_forall; exact Hw]. Qed.

(** *** whitespace *)
Lemma ws_star_good f : forall s, (re_ws_star f s <= length s)%nat /\ (Valid s -> Valid (skipn (re_ws_star f s) s)).
Proof.
  induction f as [|f IH]; intros s; cbn [re_ws_star]; [split; [lia|auto]|].
  destruct (utf8_decode s) as [[cp n]|] eqn:Hd; [|split; [lia|auto]].
  destruct (is_whitespace cp && negb (cp =? 10)); [|split; [lia|auto]].
  pose proof (decode_len _ _ _ Hd) as Hn. destruct (IH (skipn n s)) as [Hl Hv].
  rewrite skipn_length in Hl. split; [lia|]. intros Hs.
  rewrite <- skipn_skipn. apply Hv. inversion Hs as [|l cp' n' Hd' Hv']; subst; [discriminate|].
  rewrite Hd in Hd'. injection Hd' as <- <-. exact Hv'.
Qed.

Lemma good_whitespace s n : re_whitespace s = Some n -> good s n.
Proof.
  unfold re_whitespace. destruct (re_ws_star (length s) s) as [|m] eqn:E; [discriminate|].
  intros H; injection H as <-. destruct (ws_star_good (length s) s) as [Hl Hv]. rewrite E in *.
  split; [lia|exact Hv].
Qed.

(** *** comments *)
Lemma not_nl_boundary r : boundary (skipn (star re_not_nl r) r) = true.
Proof.
  pose proof (star_next re_not_nl r) as H. destruct (skipn (star re_not_nl r) r) as [|c t]; [reflexivity|].
  unfold re_not_nl in H. apply negb_false_iff, N.eqb_eq in H. subst c. reflexivity.
Qed.

Lemma good_hashcomment s n : re_hashcomment s = Some n -> good s n.
Proof.
  unfold re_hashcomment. destruct s as [|c r]; [discriminate|]. destruct (c =? 35); [|discriminate].
  intros H; injection H as <-. pose proof (star_le re_not_nl r). apply good_boundary; cbn [length skipn]; [lia|].
  apply not_nl_boundary.
Qed.

Lemma good_cppcomment s n : re_cppcomment s = Some n -> good s n.
Proof.
  unfold re_cppcomment. destruct s as [|c [|d r]]; try discriminate. destruct ((c =? 47) && (d =? 47)); [|discriminate].
  intros H; injection H as <-. pose proof (star_le re_not_nl r). apply good_boundary; cbn [length skipn]; [lia|].
  apply not_nl_boundary.
Qed.

(** *** identifiers, numbers *)
Lemma ident_cont_ascii c : re_ident_cont c = true -> c < 128.
Proof. unfold re_ident_cont, in_range. lia. Qed.
Lemma ident_start_ascii c : re_ident_start c = true -> c < 128.
Proof. unfold re_ident_start, in_range. lia. Qed.
Lemma digit_ascii c : re_digit c = true -> c < 128.
Proof. unfold re_digit, in_range. lia. Qed.
Lemma hexdigit_ascii c : re_hexdigit c = true -> c < 128.
Proof. unfold re_hexdigit, in_range. lia. Qed.

Lemma star_ascii p s : (forall c, p c = true -> c < 128) -> Forall (fun c => c < 128) (firstn (star p s) s).
Proof. intros H. eapply Forall_impl'; [|apply star_forall]. exact H. Qed.

Lemma good_identifier s n : re_identifier s = Some n -> good s n.
Proof.
  unfold re_identifier. destruct s as [|c r]; [discriminate|]. destruct (re_ident_start c) eqn:E; [|discriminate].
  intros H; injection H as <-. pose proof (star_le re_ident_cont r).
  apply good_ascii; cbn [length firstn]; [lia|]. constructor; [apply ident_start_ascii; exact E|].
  apply star_ascii. exact ident_cont_ascii.
Qed.

Lemma good_digits1 s n : re_digits1 s = Some n -> good s n.
Proof.
  unfold re_digits1. destruct (star re_digit s) as [|m] eqn:E; [discriminate|]. intros H; injection H as <-.
  pose proof (star_le re_digit s). rewrite <- E. apply good_ascii; [lia|]. apply star_ascii. exact digit_ascii.
Qed.

Lemma good_cons b r n : b < 128 -> good r n -> good (b :: r) (S n).
Proof.
  intros Hb [Hn Hv]. split; [cbn [length]; lia|]. intros H. cbn [skipn]. apply Hv. eapply valid_tail; eauto.
Qed.

Lemma good_integer s n : re_integer s = Some n -> good s n.
Proof.
  unfold re_integer. destruct s as [|c r].
  - cbn. discriminate.
  - destruct (c =? 45) eqn:E.
    + destruct (re_digits1 r) as [m|] eqn:Hm; cbn [option_map].
      * intros H; injection H as <-. apply good_cons; [lia|]. apply good_digits1. exact Hm.
      * apply good_digits1.
    + apply good_digits1.
Qed.

Lemma good_hex s n : re_hex s = Some n -> good s n.
Proof.
  unfold re_hex. destruct s as [|a [|b r]]; try discriminate. destruct ((a =? 48) && (b =? 120)) eqn:E; [|discriminate].
  destruct (star re_hexdigit r) as [|m] eqn:Hm; [discriminate|]. intros H; injection H as <-.
  apply good_cons; [lia|]. apply good_cons; [lia|]. rewrite <- Hm. pose proof (star_le re_hexdigit r).
  apply good_ascii; [lia|]. apply star_ascii. exact hexdigit_ascii.
Qed.

(** *** strings *)
Lemma good_string s n : re_string s = Some n -> good s n /\ (2 <= n)%nat.
Proof.
  unfold re_string. destruct s as [|c r]; [discriminate|]. destruct (c =? 34) eqn:E; [|discriminate].
  destruct (skipn (star re_not_quote r) r) as [|q t] eqn:Hs; [discriminate|].
  destruct (q =? 34) eqn:Eq; [|discriminate]. intros H; injection H as <-.
  pose proof (star_le re_not_quote r) as Hle.
  assert (Hlen : (star re_not_quote r < length r)%nat).
  { assert (length (skipn (star re_not_quote r) r) = length (q :: t)) as HH by now rewrite Hs.
    rewrite skipn_length in HH. cbn [length] in HH. lia. }
  split; [|lia]. split; [cbn [length]; lia|]. intros Hv.
  assert (Hr : skipn (S (star re_not_quote r)) (c :: r) = q :: t) by exact Hs.
  assert (Ht : skipn (S (S (star re_not_quote r))) (c :: r) = t).
  { change (skipn (S (S (star re_not_quote r))) (c :: r)) with (skipn (S (star re_not_quote r)) r).
    replace (S (star re_not_quote r)) with (star re_not_quote r + 1)%nat by lia.
    rewrite <- skipn_skipn, Hs. reflexivity. }
  rewrite Ht. eapply valid_after_ascii; [exact Hv|exact Hr|lia].
Qed.

(** *** keywords *)
Lemma first_some_in {A B} (f : A -> option B) l y : first_some f l = Some y -> exists x, In x l /\ f x = Some y.
Proof.
  induction l as [|x l IH]; cbn [first_some]; [discriminate|].
  destruct (f x) eqn:E.
  - intros H; injection H as <-. exists x. split; [left; reflexivity|exact E].
  - intros H. destruct (IH H) as (x' & Hin & Hx). exists x'. split; [right; exact Hin|exact Hx].
Qed.

Lemma good_keyword w (kw : string) s n :
  bytes_of_string kw <> [] -> forallb (fun c => c <? 128) (bytes_of_string kw) = true ->
  re_keyword w kw s = Some n -> good s n.
Proof.
  intros Hne Hw. unfold re_keyword. destruct (lit (bytes_of_string kw) s) as [m|] eqn:E; [|discriminate].
  destruct (word_boundary_after_word w (skipn m s)); [|discriminate]. intros H; injection H as <-.
  eapply good_lit; [exact Hne|apply ascii_string_forall; exact Hw|exact E].
Qed.

Lemma good_boolean w s n : re_boolean w s = Some n -> good s n.
Proof.
  unfold re_boolean. intros H. apply first_some_in in H. destruct H as (kw & Hin & H).
  destruct Hin as [<-|[<-|[]]]; refine (good_keyword w _ s n _ _ H); first [discriminate|reflexivity].
Qed.

(** *** dotted quads *)
Lemma good_skip_ascii s m n : (m <= length s)%nat -> Forall (fun c => c < 128) (firstn m s) ->
  good (skipn m s) n -> good s (m + n).
Proof.
  intros Hm Hf [Hn Hv]. rewrite skipn_length in Hn. split; [lia|]. intros H.
  rewrite <- skipn_skipn. apply Hv. apply valid_skip_ascii; assumption.
Qed.

Definition digits_prefix (s : bytes) (m : nat) : Prop :=
  (1 <= m <= 3)%nat /\ (m <= length s)%nat /\ Forall (fun c => re_digit c = true) (firstn m s).

Lemma digit_optdigit_in s m : In m (digit_optdigit s) -> (1 <= m <= 2)%nat /\ (m <= length s)%nat
  /\ Forall (fun c => re_digit c = true) (firstn m s).
Proof.
  unfold digit_optdigit. destruct s as [|a r]; [intros []|]. destruct (re_digit a) eqn:Ea; [|intros []].
  intros H. apply in_app_or in H. destruct H as [H|[<-|[]]].
  - destruct r as [|b r']; [destruct H|]. destruct (re_digit b) eqn:Eb; [|destruct H]. destruct H as [<-|[]].
    cbn [length firstn]. repeat split; try lia. repeat constructor; assumption.
  - cbn [length firstn]. repeat split; try lia. repeat constructor; assumption.
Qed.

Lemma octet_cands_in s m : In m (octet_cands s) -> digits_prefix s m.
Proof.
  unfold octet_cands, digits_prefix. intros H. apply in_app_or in H. destruct H as [H|H]; [|apply in_app_or in H; destruct H as [H|H]].
  - unfold octet_alt1 in H. destruct s as [|a [|b [|c r]]]; try destruct H.
    destruct ((a =? 50) && (b =? 53) && in_range 48 53 c) eqn:E; [|destruct H]. destruct H as [<-|[]].
    cbn [length firstn]. repeat split; try lia. unfold re_digit, in_range in *. repeat constructor; lia.
  - unfold octet_alt2 in H. destruct s as [|a [|b [|c r]]]; try destruct H.
    destruct ((a =? 50) && in_range 48 52 b && re_digit c) eqn:E; [|destruct H]. destruct H as [<-|[]].
    cbn [length firstn]. repeat split; try lia. unfold re_digit, in_range in *. repeat constructor; lia.
  - unfold octet_alt3 in H. apply in_app_or in H. destruct H as [H|H].
    + destruct s as [|a r]; [destruct H|]. destruct (in_range 48 49 a) eqn:Ea; [|destruct H].
      apply in_map_iff in H. destruct H as (m' & <- & H). apply digit_optdigit_in in H.
      destruct H as (H1 & H2 & H3). cbn [length firstn]. repeat split; try lia.
      constructor; [unfold re_digit, in_range in *; lia|exact H3].
    + apply digit_optdigit_in in H. destruct H as (H1 & H2 & H3). repeat split; try lia. exact H3.
Qed.

Lemma digits_prefix_ascii s m : digits_prefix s m -> Forall (fun c => c < 128) (firstn m s).
Proof. intros (_ & _ & H). eapply Forall_impl'; [|exact H]. exact digit_ascii. Qed.

Lemma good_ipv4_from k : forall s n, re_ipv4_from k s = Some n -> good s n.
Proof.
  induction k as [|k IH]; intros s n; cbn [re_ipv4_from].
  - destruct (octet_cands s) as [|m t] eqn:E; [discriminate|]. intros H; injection H as <-.
    assert (Hin : In m (octet_cands s)) by (rewrite E; left; reflexivity).
    apply octet_cands_in in Hin. pose proof (digits_prefix_ascii _ _ Hin) as Ha. destruct Hin as (H1 & H2 & _).
    apply good_ascii; [lia|exact Ha].
  - intros H. apply first_some_in in H. destruct H as (m & Hin & H).
    apply octet_cands_in in Hin. pose proof (digits_prefix_ascii _ _ Hin) as Ha. destruct Hin as (H1 & H2 & _).
    destruct (skipn m s) as [|c r] eqn:Hs; [discriminate|]. destruct (c =? 46) eqn:Ec; [|discriminate].
    destruct (re_ipv4_from k r) as [m'|] eqn:Hr; [|discriminate]. cbn [option_map] in H. injection H as <-.
    replace (m + 1 + m')%nat with (m + S m')%nat by lia. apply good_skip_ascii; [lia|exact Ha|].
    rewrite Hs. apply good_cons; [lia|]. apply IH. exact Hr.
Qed.

Lemma good_ipv4 s n : re_ipv4 s = Some n -> good s n.
Proof. apply good_ipv4_from. Qed.

(** *** the whole pattern *)
Lemma first_group_in tbl s k n : first_group tbl s = Some (k, n) -> exists re, In (k, re) tbl /\ re s = Some n.
Proof.
  induction tbl as [|[k' re] t IH]; cbn [first_group]; [discriminate|].
  destruct (re s) as [m|] eqn:E.
  - intros H; injection H as <- <-. exists re. split; [left; reflexivity|exact E].
  - intros H. destruct (IH H) as (re' & Hin & Hre). exists re'. split; [right; exact Hin|exact Hre].
Qed.

Lemma lex_re_good w k re : In (k, re) (lex_re w) ->
  forall s n, re s = Some n -> good s n /\ (k = KTok TStringLit -> (2 <= n)%nat).
Proof.
  unfold lex_re. intros H s n Hre.
  repeat (destruct H as [H|H];
          [injection H as <- <-; split; [|try discriminate]|]); try destruct H.
  - apply good_whitespace; exact Hre.
  - apply good_hashcomment; exact Hre.
  - apply good_cppcomment; exact Hre.
  - change (lit [10] s = Some n) in Hre. refine (good_lit [10] s n _ _ Hre); [discriminate|repeat constructor; lia].
  - refine (good_re_lit _ s n _ _ Hre); first [discriminate|reflexivity].
  - refine (good_re_lit _ s n _ _ Hre); first [discriminate|reflexivity].
  - refine (good_re_lit _ s n _ _ Hre); first [discriminate|reflexivity].
  - refine (good_re_lit _ s n _ _ Hre); first [discriminate|reflexivity].
  - refine (good_re_lit _ s n _ _ Hre); first [discriminate|reflexivity].
  - refine (good_re_lit _ s n _ _ Hre); first [discriminate|reflexivity].
  - refine (good_re_lit _ s n _ _ Hre); first [discriminate|reflexivity].
  - refine (good_re_lit _ s n _ _ Hre); first [discriminate|reflexivity].
  - refine (good_re_lit _ s n _ _ Hre); first [discriminate|reflexivity].
  - refine (good_keyword w _ s n _ _ Hre); first [discriminate|reflexivity].
  - refine (good_keyword w _ s n _ _ Hre); first [discriminate|reflexivity].
  - eapply good_boolean; exact Hre.
  - apply good_identifier; exact Hre.
  - eapply good_ipv4; exact Hre.
  - apply (good_string s n Hre).
  - intros _. apply (good_string s n Hre).
  - apply good_hex; exact Hre.
  - apply good_integer; exact Hre.
Qed.

Lemma match_rules_good w s k n : match_rules w s = Some (k, n) ->
  good s n /\ (k = KTok TStringLit -> (2 <= n)%nat).
Proof.
  unfold match_rules. intros H. apply first_group_in in H. destruct H as (re & Hin & Hre).
  eapply lex_re_good; eauto.
Qed.
