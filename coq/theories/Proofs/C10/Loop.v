(** Lexer::line (Scanner.scan_loop) computes the phased pipeline of LexSpec.v (cut into lexemes,
    then assemble tokens) for the classifier [match_rules]; it never panics and never runs out of
    fuel on valid UTF-8. *)
From RS Require Import Base.Bytes Base.Outcome Base.Utf8 Lex.Tokens Lex.LexClass Lex.Scanner Lex.LexSpec.
From RS Require Import Proofs.BytesLemmas.
From RS.Proofs.C10 Require Import Utf8Facts RuleFacts.
From Coq Require Import ZArith Lia ZifyBool ZifyNat ZifyN.
Ltac Zify.zify_post_hook ::= Z.div_mod_to_equations.
Open Scope N_scope.

Definition pend_of (strs : list bytes) : option bytes :=
  match strs with [] => None | _ => Some (concat strs) end.

Definition proj (r : N * outcome (list token * list bytes)) : N * outcome (list token * option bytes) :=
  match r with
  | (p, Ok (ret, strs)) => (p, Ok (ret, pend_of strs))
  | (p, Err e) => (p, Err e)
  | (p, Panic s) => (p, Panic s)
  | (p, OutOfFuel) => (p, OutOfFuel)
  end.

Section Loop.
  Variable w : N -> bool.

  Definition pipeline_result (lno : N) (f2 : nat) (s : bytes) (pos : N) (ret : list token) (pend : option bytes)
    : N * outcome (list token * option bytes) :=
    let (ls, rest) := lexemes (match_rules w) f2 s in
    let scanned := len (concat (map snd ls)) in
    match rest with
    | [] => let (ts, p) := assemble lno pos pend ls in (pos + scanned, Ok (ret ++ ts, p))
    | _ :: _ => (pos + scanned, Err ELex)
    end.

  Lemma len_firstn (s : bytes) n : (n <= length s)%nat -> len (firstn n s) = N.of_nat n.
  Proof. intros H. unfold len. rewrite firstn_length. f_equal. lia. Qed.

  Lemma pipeline_step lno f2 s pos ret pend k n :
    s <> [] -> match_rules w s = Some (k, n) -> (n <= length s)%nat ->
    pipeline_result lno (S f2) s pos ret pend =
    match k with
    | KTok TStringLit =>
      pipeline_result lno f2 (skipn n s) (pos + N.of_nat n) ret
                      (Some (pend_text pend ++ literal_body (firstn n s)))
    | KTok t =>
      pipeline_result lno f2 (skipn n s) (pos + N.of_nat n)
                      (ret ++ flush lno pos pend ++
                           [{| tk_type := t; tk_loc := loc_at lno pos; tk_val := token_text t (firstn n s) |}]) None
    | _ => pipeline_result lno f2 (skipn n s) (pos + N.of_nat n) ret pend
    end.
  Proof.
    intros Hne M Hn. unfold pipeline_result. destruct s as [|b r]; [congruence|].
    cbn [lexemes]. rewrite M. destruct (lexemes (match_rules w) f2 (skipn n (b :: r))) as [ls rest].
    cbn [map snd concat]. pose proof (len_firstn (b :: r) n Hn) as Hlf. rewrite !len_app, !Hlf, !N.add_assoc.
    destruct k as [| | | |t]; cbn [assemble]; rewrite ?Hlf;
      try (destruct rest; [destruct (assemble lno (pos + N.of_nat n) pend ls)|]; reflexivity).
    destruct t; cbn [assemble]; rewrite ?Hlf;
      try (destruct rest; [destruct (assemble lno (pos + N.of_nat n) None ls) as [ts p]|]; [|reflexivity];
           rewrite <- !app_assoc; cbn [app]; reflexivity).
    destruct rest; [destruct (assemble lno (pos + N.of_nat n) _ ls)|]; reflexivity.
  Qed.

  Lemma pend_text_of strs : pend_text (pend_of strs) = concat strs.
  Proof. destruct strs; reflexivity. Qed.

  Lemma pend_of_snoc strs x : pend_of (strs ++ [x]) = Some (concat strs ++ x).
  Proof.
    unfold pend_of. rewrite concat_app. cbn [concat]. rewrite app_nil_r.
    destruct strs; reflexivity.
  Qed.

  Lemma literal_body_eq (v : bytes) : literal_body v = firstn (length v - 2) (skipn 1 v).
  Proof.
    unfold literal_body. rewrite removelast_firstn_len. destruct v as [|a v]; [reflexivity|].
    cbn [tl skipn length]. f_equal. lia.
  Qed.

  Lemma flush_eq lno pos strs (ret : list token) :
    match strs with
    | [] => ret
    | _ => ret ++ [{| tk_type := TStringLit; tk_loc := loc_new lno (pos + 1); tk_val := Some (concat strs) |}]
    end = ret ++ flush lno pos (pend_of strs).
  Proof. destruct strs; cbn [pend_of flush]; [now rewrite app_nil_r|reflexivity]. Qed.

  Lemma token_text_eq t v : t <> TStringLit -> get_val t v = token_text t v.
  Proof. destruct t; intros H; try reflexivity. congruence. Qed.

  Lemma scan_loop_pipeline lno : forall f1 s f2 pos ret strs,
    Valid s -> (length s < f1)%nat -> (length s <= f2)%nat ->
    proj (scan_loop w f1 lno s pos ret strs) = pipeline_result lno f2 s pos ret (pend_of strs).
  Proof.
    induction f1 as [|f1 IH]; intros s f2 pos ret strs Hv H1 H2; [lia|].
    destruct s as [|b r].
    - cbn [scan_loop proj]. unfold pipeline_result. destruct f2; cbn [lexemes map concat assemble];
      rewrite app_nil_r; unfold len; cbn [length]; f_equal; lia.
    - destruct f2 as [|f2]; [cbn [length] in H2; lia|].
      cbn [scan_loop]. destruct (match_rules w (b :: r)) as [[k n]|] eqn:M.
      + destruct (match_rules_good w _ _ _ M) as [[Hn Hval] Hstr].
        specialize (Hval Hv). rewrite is_char_boundary_eq, (valid_boundary _ Hval). cbn [negb].
        rewrite (pipeline_step lno f2 (b :: r) pos ret (pend_of strs) k n) by (try discriminate; auto; lia).
        assert (L1 : (length (skipn n (b :: r)) < f1)%nat) by (rewrite skipn_length; lia).
        assert (L2 : (length (skipn n (b :: r)) <= f2)%nat) by (rewrite skipn_length; lia).
        destruct k as [| | | |t]; cbn [skipped]; try (apply IH; assumption).
        destruct t; cbn [skipped];
          try (rewrite (IH _ f2) by assumption; rewrite flush_eq; rewrite <- app_assoc;
               rewrite token_text_eq by discriminate; reflexivity).
        specialize (Hstr eq_refl). destruct (Nat.ltb n 2) eqn:E; [apply Nat.ltb_lt in E; lia|].
        rewrite (IH _ f2) by assumption. rewrite pend_of_snoc, pend_text_of, literal_body_eq.
        rewrite firstn_length. replace (Nat.min n (length (b :: r))) with n by lia. reflexivity.
      + cbn [proj]. unfold pipeline_result. cbn [lexemes]. rewrite M. cbn [map concat].
        unfold len. cbn [length]. f_equal. lia.
  Qed.

  (** Lexer::line is the pipeline *)
  Theorem lex_line_pipeline lx lno line : Valid line ->
    lex_line_gen w lx lno line =
    (let '((lc, p), o) := line_tokens (match_rules w) (lx_pending lx) lno line in
     ({| lx_loc := lc; lx_pending := p |}, o)).
  Proof.
    intros Hv. unfold lex_line_gen, line_tokens.
    pose proof (scan_loop_pipeline lno (S (length line)) line (length line) 0 []
                  (match lx_pending lx with Some s => [s] | None => [] end) Hv) as H.
    specialize (H ltac:(lia) ltac:(lia)).
    assert (Hp : pend_of (match lx_pending lx with Some s => [s] | None => [] end) = lx_pending lx).
    { destruct (lx_pending lx); cbn; [now rewrite app_nil_r|reflexivity]. }
    rewrite Hp in H. unfold pipeline_result in H.
    destruct (lexemes (match_rules w) (length line) line) as [ls rest].
    destruct (scan_loop w (S (length line)) lno line 0 [] _) as [pos o].
    destruct rest as [|c rest].
    - destruct (assemble lno 0 (lx_pending lx) ls) as [ts p].
      destruct o as [[ret strs]|e|site|]; cbn [proj app] in H; try discriminate.
      injection H as H1 H2 H3. subst pos ret p. unfold loc_new, loc_at, wrap32, pend_of.
      rewrite N.add_0_l. reflexivity.
    - destruct o as [[ret strs]|e|site|]; cbn [proj] in H; try discriminate.
      injection H as H1 H2. subst pos e. unfold loc_new, loc_at, wrap32. rewrite N.add_0_l. reflexivity.
  Qed.
End Loop.
