(** Keywords versus identifiers, and maximality of identifier / integer lexemes, stated on the
    specification's [first_class] (which the scanner computes, Meets.v). *)
From RS Require Import Base.Bytes Base.Outcome Base.Utf8 Lex.Tokens Lex.LexClass Lex.Scanner Lex.LexSpec.
From RS.Proofs.C10 Require Import Utf8Facts RuleFacts SpecEquiv WordChar.
From Coq Require Import ZArith Lia ZifyBool ZifyNat ZifyN.
Ltac Zify.zify_post_hook ::= Z.div_mod_to_equations.
Open Scope N_scope.

Lemma first_class_extent s k n : first_class s = Some (k, n) -> n = extent k s /\ n <> O.
Proof.
  unfold first_class. destruct (find _ classes) as [k'|] eqn:E; [|discriminate].
  intros H; injection H as <- <-. apply find_some in E. destruct E as [_ E]. split; [reflexivity|].
  apply negb_true_iff, Nat.eqb_neq in E. exact E.
Qed.

Lemma span_forall p s : forallb p (firstn (span p s) s) = true.
Proof. induction s as [|c r IH]; cbn [span]; [reflexivity|]. destruct (p c) eqn:E; cbn [firstn forallb]; [rewrite E; exact IH|reflexivity]. Qed.

Lemma followed_by_span p s : followed_by p (span p s) s = false.
Proof.
  unfold followed_by. pose proof (span_next p s) as H. destruct (skipn (span p s) s); [reflexivity|exact H].
Qed.

Lemma followed_by_skip p a n s : followed_by p (a + n) s = followed_by p n (skipn a s).
Proof. unfold followed_by. rewrite skipn_skipn. reflexivity. Qed.

(** an identifier lexeme consists of identifier characters and cannot be extended *)
Theorem ident_maximal s n : first_class s = Some (KTok TIdent, n) ->
  forallb ident_char (firstn n s) = true /\ followed_by ident_char n s = false.
Proof.
  intros H. apply first_class_extent in H. destruct H as [-> Hn]. cbn [extent] in *. unfold identifier in *.
  destruct s as [|c r]; [congruence|]. destruct (letter c || (c =? 95)); [|congruence].
  split; [apply span_forall|apply followed_by_span].
Qed.

(** a decimal integer lexeme is an optional sign and digits, and no digit follows it *)
Theorem int_maximal s n : first_class s = Some (KTok TIntLit, n) -> followed_by digit n s = false.
Proof.
  intros H. apply first_class_extent in H. destruct H as [-> Hn]. cbn [extent] in *. unfold integer in *.
  destruct (span digit (skipn (if starts_with (text "-") s then 1%nat else 0%nat) s)) as [|m] eqn:E; [congruence|].
  rewrite followed_by_skip, <- E. apply followed_by_span.
Qed.

(** a hexadecimal integer lexeme cannot be extended by a hexadecimal digit *)
Theorem hex_maximal s n : first_class s = Some (KTok THexLit, n) -> followed_by hexdigit n s = false.
Proof.
  intros H. apply first_class_extent in H. destruct H as [-> Hn]. cbn [extent] in *. unfold hex_integer in *.
  destruct (starts_with (text "0x") s); [|congruence].
  destruct (span hexdigit (skipn 2 s)) as [|m] eqn:E; [congruence|].
  change (S (S (S m))) with (2 + S m)%nat. rewrite followed_by_skip, <- E. apply followed_by_span.
Qed.

(** keywords *)
Definition keywords : list (string * toktype) :=
  [("import"%string, TImport); ("let"%string, TLet); ("true"%string, TBoolLit); ("false"%string, TBoolLit)].

Lemma starts_with_app w r : starts_with w (w ++ r) = true.
Proof. induction w as [|c w IH]; cbn [starts_with app]; [reflexivity|]. rewrite N.eqb_refl, IH. reflexivity. Qed.

Lemma word_app (kw : string) rest :
  word kw (text kw ++ rest) =
  if (match rest with c :: _ => ident_char c | [] => false end) then O else length (text kw).
Proof.
  unfold word, followed_by. rewrite starts_with_app. cbn [andb].
  rewrite skipn_app, skipn_all, Nat.sub_diag. cbn [app skipn]. destruct rest as [|c r]; [reflexivity|].
  destruct (ident_char c); reflexivity.
Qed.

Lemma star_app_all p l r : forallb p l = true -> star p (l ++ r) = (length l + star p r)%nat.
Proof.
  induction l as [|x l IH]; cbn [forallb app star length]; intros H; [reflexivity|].
  apply andb_true_iff in H. destruct H as [Hx Hl]. rewrite Hx, IH by assumption. reflexivity.
Qed.

Lemma keyword_shape (kw : string) t c0 tl0 rest :
  text kw = c0 :: tl0 -> bytes_of_string kw <> [] -> forallb re_ident_cont tl0 = true -> shape w0 kw t c0 ->
  first_class (text kw ++ rest) =
  if (match rest with c :: _ => ident_char c | [] => false end)
  then Some (KTok TIdent, (length (text kw) + span ident_char rest)%nat)
  else Some (KTok t, length (text kw)).
Proof.
  intros Hk Hne Htl Hsh. rewrite <- match_rules_w0. pose proof (word_app kw rest) as Hw.
  rewrite Hk in *. cbn [app length] in *. rewrite Hsh.
  change (c0 :: tl0 ++ rest) with ((c0 :: tl0) ++ rest). rewrite <- Hk. rewrite (eq_word kw) by exact Hne.
  rewrite Hk. cbn [app]. rewrite Hw.
  destruct (match rest with c :: _ => ident_char c | [] => false end); cbn [to_opt]; [|reflexivity].
  rewrite star_app_all by exact Htl. rewrite (star_span re_ident_cont ident_char) by exact ident_cont_eq. reflexivity.
Qed.

(** the words import, let, true, false are keywords unless an identifier character follows them,
    in which case the whole run of identifier characters is one identifier *)
Theorem keyword_unless_ident_follows kw t rest : In (kw, t) keywords ->
  first_class (text kw ++ rest) =
  if (match rest with c :: _ => ident_char c | [] => false end)
  then Some (KTok TIdent, (length (text kw) + span ident_char rest)%nat)
  else Some (KTok t, length (text kw)).
Proof.
  intros [H|[H|[H|[H|[]]]]]; injection H as <- <-.
  - apply (keyword_shape "import" TImport 105 (tl (text "import"))); [reflexivity|discriminate|reflexivity|apply shape_import].
  - apply (keyword_shape "let" TLet 108 (tl (text "let"))); [reflexivity|discriminate|reflexivity|apply shape_let].
  - apply (keyword_shape "true" TBoolLit 116 (tl (text "true"))); [reflexivity|discriminate|reflexivity|apply shape_true].
  - apply (keyword_shape "false" TBoolLit 102 (tl (text "false"))); [reflexivity|discriminate|reflexivity|apply shape_false].
Qed.
