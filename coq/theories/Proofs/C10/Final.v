(** The C10 theorems in their final form: about [Scanner.lex_line] (the model of Lexer::line) and
    the specification's classes [LexSpec.first_class]. *)
From RS Require Import Base.Bytes Base.Outcome Base.Utf8 Lex.Tokens Lex.LexClass Lex.Scanner Lex.LexSpec.
From RS Require Import Proofs.BytesLemmas.
From RS.Proofs.C10 Require Import Utf8Facts RuleFacts Loop Theorems Merge SpecEquiv WordChar Meets Maximal.
From Coq Require Import ZArith Lia ZifyBool ZifyNat ZifyN.
Ltac Zify.zify_post_hook ::= Z.div_mod_to_equations.
Open Scope N_scope.

Notation dw := default_nonascii_word.
Notation pipe_dw := (spec_pipe dw default_admissible).

Theorem scan_meets_spec lx lno line : utf8_valid line = true ->
  lex_line lx lno line = as_lexer (spec_line (lx_pending lx) lno line).
Proof. apply (scan_meets_spec_gen dw default_admissible). Qed.

Theorem lex_total_final lx lno line : utf8_valid line = true ->
  (exists toks, snd (lex_line lx lno line) = Ok toks) \/ snd (lex_line lx lno line) = Err ELex.
Proof. apply (lex_total dw first_class pipe_dw). Qed.

Theorem lex_ok_cuts_final lx lno line lx' toks : utf8_valid line = true ->
  lex_line lx lno line = (lx', Ok toks) <->
  exists ls, cuts first_class line ls [] /\
             assemble lno 0 (lx_pending lx) ls = (toks, lx_pending lx') /\
             lx_loc lx' = loc_at lno (len line).
Proof. apply (lex_ok_cuts dw first_class first_class_bounds pipe_dw). Qed.

Theorem lexemes_partition_final lx lno line lx' toks : utf8_valid line = true ->
  lex_line lx lno line = (lx', Ok toks) ->
  exists ls, concat (map snd ls) = line /\ Forall (fun l => snd l <> []) ls /\ cuts first_class line ls []
             /\ Forall (token_placed first_class lno line) toks /\ strings_located toks.
Proof. apply (lexemes_partition dw first_class first_class_bounds pipe_dw). Qed.

Theorem error_position_final lx lno line lx' e : utf8_valid line = true ->
  lex_line lx lno line = (lx', Err e) <->
  exists ls rest, cuts first_class line ls rest /\ rest <> [] /\ first_class rest = None /\ e = ELex /\
                  lx' = {| lx_loc := loc_at lno (len line - len rest); lx_pending := None |}.
Proof. apply (lex_error_position dw first_class first_class_bounds pipe_dw). Qed.

Theorem lines_essence_final lines lx lno lx' toks :
  Forall (fun l => utf8_valid l = true) lines ->
  lex_lines lx lno lines = (lx', Ok toks) ->
  (map strip_loc toks, lx_pending lx') = essence (lx_pending lx) (concat (map (lexemes_of first_class) lines)).
Proof. apply (lines_essence dw first_class first_class_bounds pipe_dw). Qed.

(** columns without the 32-bit wrap, for lines and files of ordinary size *)
Lemma loc_at_small lno off : lno < 4294967296 -> off + 1 < 4294967296 -> loc_at lno off = (lno, off + 1).
Proof. intros H1 H2. unfold loc_at. rewrite !N.mod_small by assumption. reflexivity. Qed.

Theorem ident_int_maximal s n :
  (first_class s = Some (KTok TIdent, n) ->
   forallb ident_char (firstn n s) = true /\ followed_by ident_char n s = false)
  /\ (first_class s = Some (KTok TIntLit, n) -> followed_by digit n s = false)
  /\ (first_class s = Some (KTok THexLit, n) -> followed_by hexdigit n s = false).
Proof.
  split; [intros H; apply (ident_maximal s n H)|split; intros H; [apply (int_maximal s n H)|apply (hex_maximal s n H)]].
Qed.

Theorem lex_pure lx1 lx2 l1 l2 line :
  lx_pending lx1 = lx_pending lx2 ->
  lex_line lx1 l1 line = lex_line lx2 l1 line
  /\ lex_line lx1 l2 line = relabel l2 (lex_line lx1 l1 line).
Proof. intros H. split; [apply lex_pending_only; exact H|apply lex_lno_labels]. Qed.
