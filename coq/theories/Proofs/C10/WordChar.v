(** The non-ASCII part of the regex crate's \w table cannot be observed through Lexer::line:
    for every [w] that is false on White_Space characters the scanner's pattern either agrees with
    the ASCII-only one, or both consume the same keyword-shaped lexeme (one as a keyword, the other
    as an identifier) and both fail on the very next character. *)
From RS Require Import Base.Bytes Base.Outcome Base.Utf8 Lex.Tokens Lex.LexClass Lex.Scanner Lex.LexSpec.
From RS.Proofs.C10 Require Import Utf8Facts RuleFacts SpecEquiv.
From Coq Require Import ZArith Lia ZifyBool ZifyNat ZifyN.
Ltac Zify.zify_post_hook ::= Z.div_mod_to_equations.
Open Scope N_scope.

Definition admissible (w : N -> bool) : Prop := forall cp, is_whitespace cp = true -> w cp = false.

Lemma w0_admissible : admissible w0.
Proof. intros cp _. reflexivity. Qed.

Lemma default_admissible : admissible default_nonascii_word.
Proof. intros cp H. unfold default_nonascii_word. rewrite H. reflexivity. Qed.

(** *** which first byte each alternative needs *)
Definition fb (k : lexclass) (c : N) : bool :=
  match k with
  | KWhitespace => true
  | KHashComment => c =? 35
  | KCppComment => c =? 47
  | KNewLine => c =? 10
  | KTok TLParen => c =? 40
  | KTok TRParen => c =? 41
  | KTok TDot => c =? 46
  | KTok TDoubleColon => c =? 58
  | KTok TColon => c =? 58
  | KTok TSemiColon => c =? 59
  | KTok TEquals => c =? 61
  | KTok TComma => c =? 44
  | KTok TSlash => c =? 47
  | KTok TImport => c =? 105
  | KTok TLet => c =? 108
  | KTok TBoolLit => (c =? 116) || (c =? 102)
  | KTok TIdent => re_ident_start c
  | KTok TIPv4Lit => re_digit c
  | KTok TStringLit => c =? 34
  | KTok THexLit => c =? 48
  | KTok TIntLit => (c =? 45) || re_digit c
  | KTok TEof => false
  end.

Lemma lit_first x w' c r n : lit (x :: w') (c :: r) = Some n -> (c =? x) = true.
Proof. cbn [lit]. destruct (x =? c) eqn:E; [|discriminate]. intros _. apply N.eqb_eq in E. subst. apply N.eqb_refl. Qed.

Lemma re_lit_first (s : string) x w' c r n : bytes_of_string s = x :: w' -> re_lit s (c :: r) = Some n -> (c =? x) = true.
Proof. unfold re_lit. intros ->. apply lit_first. Qed.

Lemma re_keyword_first w (s : string) x w' c r n :
  bytes_of_string s = x :: w' -> re_keyword w s (c :: r) = Some n -> (c =? x) = true.
Proof.
  unfold re_keyword. intros ->. destruct (lit (x :: w') (c :: r)) eqn:E; [|discriminate]. intros _.
  eapply lit_first; eauto.
Qed.

Lemma lex_re_first_byte w k re c r n : In (k, re) (lex_re w) -> re (c :: r) = Some n -> fb k c = true.
Proof.
  unfold lex_re. intros H Hre.
  repeat (destruct H as [H|H]; [injection H as <- <-|]); try destruct H; cbn [fb].
  - reflexivity.
  - unfold re_hashcomment in Hre. destruct (c =? 35); [reflexivity|discriminate].
  - unfold re_cppcomment in Hre. destruct r; [discriminate|]. destruct (c =? 47); [reflexivity|discriminate].
  - exact (lit_first 10 [] c r n Hre).
  - eapply (re_lit_first "("); [reflexivity|exact Hre].
  - eapply (re_lit_first ")"); [reflexivity|exact Hre].
  - eapply (re_lit_first "."); [reflexivity|exact Hre].
  - eapply (re_lit_first "::"); [reflexivity|exact Hre].
  - eapply (re_lit_first ":"); [reflexivity|exact Hre].
  - eapply (re_lit_first ";"); [reflexivity|exact Hre].
  - eapply (re_lit_first "="); [reflexivity|exact Hre].
  - eapply (re_lit_first ","); [reflexivity|exact Hre].
  - eapply (re_lit_first "/"); [reflexivity|exact Hre].
  - eapply (re_keyword_first w "import"); [reflexivity|exact Hre].
  - eapply (re_keyword_first w "let"); [reflexivity|exact Hre].
  - unfold re_boolean in Hre. apply first_some_in in Hre. destruct Hre as (kw & [<-|[<-|[]]] & Hk).
    + pose proof (re_keyword_first w "true" 116 _ _ _ _ eq_refl Hk) as E. rewrite E. reflexivity.
    + pose proof (re_keyword_first w "false" 102 _ _ _ _ eq_refl Hk) as E. rewrite E. apply orb_true_r.
  - unfold re_identifier in Hre. destruct (re_ident_start c); [reflexivity|discriminate].
  - unfold re_ipv4 in Hre. cbn [re_ipv4_from] in Hre. apply first_some_in in Hre. destruct Hre as (m & Hin & _).
    apply octet_cands_in in Hin. destruct Hin as (Hm & _ & Hf). destruct m; [lia|]. cbn [firstn] in Hf.
    inversion Hf; assumption.
  - unfold re_string in Hre. destruct (c =? 34); [reflexivity|discriminate].
  - unfold re_hex in Hre. destruct r; [discriminate|]. destruct (c =? 48); [reflexivity|discriminate].
  - unfold re_integer in Hre. destruct (c =? 45) eqn:E; [reflexivity|]. cbn [orb].
    unfold re_digits1 in Hre. cbn [star] in Hre. destruct (re_digit c); [reflexivity|discriminate].
Qed.

Lemma lex_re_none w k re c r : In (k, re) (lex_re w) -> fb k c = false -> re (c :: r) = None.
Proof.
  intros Hin Hfb. destruct (re (c :: r)) as [n|] eqn:E; [|reflexivity].
  rewrite (lex_re_first_byte w k re c r n Hin E) in Hfb. discriminate.
Qed.

Lemma first_group_none tbl s : (forall k re, In (k, re) tbl -> re s = None) -> first_group tbl s = None.
Proof.
  induction tbl as [|[k re] t IH]; intros H; cbn [first_group]; [reflexivity|].
  rewrite (H k re) by (left; reflexivity). apply IH. intros k' re' Hin. apply (H k'). right. exact Hin.
Qed.

Lemma fb_nonascii k b : 128 <= b -> k <> KWhitespace -> fb k b = false.
Proof.
  intros Hb Hk. destruct k as [| | | |t]; [congruence|cbn [fb]; lia..|].
  destruct t; cbn [fb]; unfold re_ident_start, re_digit, in_range; lia.
Qed.

Lemma whitespace_entry w re : In (KWhitespace, re) (lex_re w) -> re = re_whitespace.
Proof.
  unfold lex_re. intros H. repeat (destruct H as [H|H]; [try discriminate; injection H as <-; reflexivity|]). destruct H.
Qed.

Lemma re_whitespace_none s cp n : utf8_decode s = Some (cp, n) -> is_whitespace cp = false -> re_whitespace s = None.
Proof.
  intros Hd Hw. unfold re_whitespace. destruct s as [|b r]; [discriminate|]. cbn [length re_ws_star].
  rewrite Hd, Hw. reflexivity.
Qed.

(** nothing matches at a non-ASCII character that is not white space *)
Lemma no_match_nonascii w b r cp n :
  utf8_decode (b :: r) = Some (cp, n) -> 128 <= cp -> is_whitespace cp = false -> match_rules w (b :: r) = None.
Proof.
  intros Hd Hcp Hws. unfold match_rules. apply first_group_none. intros k re Hin.
  assert (Hb : 128 <= b).
  { destruct (b <? 128) eqn:E; [|lia]. destruct (decode_head _ _ _ _ _ Hd eq_refl) as [H1 _].
    destruct H1 as [-> _]; lia. }
  destruct k as [| | | |t] eqn:Ek.
  - apply whitespace_entry in Hin. subst re. eapply re_whitespace_none; eauto.
  - eapply lex_re_none; [exact Hin|apply fb_nonascii; [exact Hb|discriminate]].
  - eapply lex_re_none; [exact Hin|apply fb_nonascii; [exact Hb|discriminate]].
  - eapply lex_re_none; [exact Hin|apply fb_nonascii; [exact Hb|discriminate]].
  - eapply lex_re_none; [exact Hin|apply fb_nonascii; [exact Hb|discriminate]].
Qed.

(** *** texts that start with an identifier-start character: only the keyword rules and the
    identifier rule can match *)
Lemma ident_start_not_ws c : re_ident_start c = true -> c < 128 /\ is_whitespace c = false.
Proof. unfold re_ident_start, in_range, is_whitespace. lia. Qed.

Lemma match_rules_ident_start w c r : re_ident_start c = true ->
  match_rules w (c :: r) =
  match re_keyword w "import" (c :: r) with
  | Some n => Some (KTok TImport, n)
  | None =>
    match re_keyword w "let" (c :: r) with
    | Some n => Some (KTok TLet, n)
    | None =>
      match re_boolean w (c :: r) with
      | Some n => Some (KTok TBoolLit, n)
      | None => Some (KTok TIdent, S (star re_ident_cont r))
      end
    end
  end.
Proof.
  intros Hc. destruct (ident_start_not_ws c Hc) as [Hlt Hws].
  assert (Hfb : forall k, In k [KHashComment; KCppComment; KNewLine; KTok TLParen; KTok TRParen; KTok TDot;
                                KTok TDoubleColon; KTok TColon; KTok TSemiColon; KTok TEquals; KTok TComma; KTok TSlash]
                          -> fb k c = false).
  { intros k Hk. unfold re_ident_start, in_range in Hc.
    repeat (destruct Hk as [<-|Hk]; [cbn [fb]; lia|]). destruct Hk. }
  unfold match_rules, lex_re. cbn [first_group].
  rewrite (re_whitespace_none (c :: r) c 1%nat (decode_ascii c r Hlt) Hws).
  assert (N1 : re_hashcomment (c :: r) = None)
    by (apply (lex_re_none w KHashComment); [unfold lex_re; cbn; tauto|apply Hfb; cbn; tauto]).
  assert (N2 : re_cppcomment (c :: r) = None)
    by (apply (lex_re_none w KCppComment); [unfold lex_re; cbn; tauto|apply Hfb; cbn; tauto]).
  assert (N3 : lit [10] (c :: r) = None)
    by (apply (lex_re_none w KNewLine); [unfold lex_re; cbn; tauto|apply Hfb; cbn; tauto]).
  rewrite N1, N2, N3.
  rewrite (lex_re_none w (KTok TLParen) (re_lit "(") c r) by (try (unfold lex_re; cbn; tauto); apply Hfb; cbn; tauto).
  rewrite (lex_re_none w (KTok TRParen) (re_lit ")") c r) by (try (unfold lex_re; cbn; tauto); apply Hfb; cbn; tauto).
  rewrite (lex_re_none w (KTok TDot) (re_lit ".") c r) by (try (unfold lex_re; cbn; tauto); apply Hfb; cbn; tauto).
  rewrite (lex_re_none w (KTok TDoubleColon) (re_lit "::") c r) by (try (unfold lex_re; cbn; tauto); apply Hfb; cbn; tauto).
  rewrite (lex_re_none w (KTok TColon) (re_lit ":") c r) by (try (unfold lex_re; cbn; tauto); apply Hfb; cbn; tauto).
  rewrite (lex_re_none w (KTok TSemiColon) (re_lit ";") c r) by (try (unfold lex_re; cbn; tauto); apply Hfb; cbn; tauto).
  rewrite (lex_re_none w (KTok TEquals) (re_lit "=") c r) by (try (unfold lex_re; cbn; tauto); apply Hfb; cbn; tauto).
  rewrite (lex_re_none w (KTok TComma) (re_lit ",") c r) by (try (unfold lex_re; cbn; tauto); apply Hfb; cbn; tauto).
  rewrite (lex_re_none w (KTok TSlash) (re_lit "/") c r) by (try (unfold lex_re; cbn; tauto); apply Hfb; cbn; tauto).
  unfold re_identifier. rewrite Hc. reflexivity.
Qed.

(** *** where the choice of [w] can matter at all *)
Definition kw_diverges (w : N -> bool) (kw : string) (s : bytes) : Prop :=
  re_keyword w kw s = None /\ re_keyword w0 kw s = Some (length (bytes_of_string kw))
  /\ firstn (length (bytes_of_string kw)) s = bytes_of_string kw
  /\ exists cp n, utf8_decode (skipn (length (bytes_of_string kw)) s) = Some (cp, n) /\ 128 <= cp /\ w cp = true.

Lemma kw_cases w (kw : string) s : re_keyword w kw s = re_keyword w0 kw s \/ kw_diverges w kw s.
Proof.
  unfold kw_diverges, re_keyword. destruct (lit (bytes_of_string kw) s) as [m|] eqn:E; [|left; reflexivity].
  destruct (lit_spec _ _ _ E) as (-> & Hf & _). unfold word_boundary_after_word.
  destruct (utf8_decode (skipn (length (bytes_of_string kw)) s)) as [[cp n]|] eqn:Hd; [|left; reflexivity].
  unfold is_word_char, w0. destruct (cp <? 128) eqn:Ec; [left; reflexivity|].
  destruct (w cp) eqn:Ew; [|left; reflexivity]. right. cbn [negb]. repeat split; auto.
  exists cp, n. repeat split; auto. lia.
Qed.

Lemma re_keyword_none w (kw : string) x w' c r : bytes_of_string kw = x :: w' -> c <> x -> re_keyword w kw (c :: r) = None.
Proof.
  intros Hk Hne. destruct (re_keyword w kw (c :: r)) as [n|] eqn:E; [|reflexivity].
  pose proof (re_keyword_first w kw x w' c r n Hk E) as H. apply N.eqb_eq in H. congruence.
Qed.

Lemma re_boolean_true w r : re_boolean w (116 :: r) = re_keyword w "true" (116 :: r).
Proof.
  unfold re_boolean. cbn [first_some]. destruct (re_keyword w "true" (116 :: r)); [reflexivity|].
  rewrite (re_keyword_none w "false" 102 _ 116 r eq_refl) by lia. reflexivity.
Qed.

Lemma re_boolean_false w r : re_boolean w (102 :: r) = re_keyword w "false" (102 :: r).
Proof.
  unfold re_boolean. cbn [first_some].
  rewrite (re_keyword_none w "true" 116 _ 102 r eq_refl) by lia. destruct (re_keyword w "false" (102 :: r)); reflexivity.
Qed.

Lemma re_boolean_none w c r : c <> 116 -> c <> 102 -> re_boolean w (c :: r) = None.
Proof.
  intros H1 H2. unfold re_boolean. cbn [first_some].
  rewrite (re_keyword_none w "true" 116 _ c r eq_refl H1), (re_keyword_none w "false" 102 _ c r eq_refl H2). reflexivity.
Qed.

Definition shape (w : N -> bool) (kw : string) (t : toktype) (c0 : N) : Prop :=
  forall r, match_rules w (c0 :: r) =
            match re_keyword w kw (c0 :: r) with
            | Some n => Some (KTok t, n)
            | None => Some (KTok TIdent, S (star re_ident_cont r))
            end.

Lemma shape_import w : shape w "import" TImport 105.
Proof.
  intros r. rewrite match_rules_ident_start by reflexivity.
  destruct (re_keyword w "import" (105 :: r)); [reflexivity|].
  rewrite (re_keyword_none w "let" 108 _ 105 r eq_refl) by lia. rewrite re_boolean_none by lia. reflexivity.
Qed.

Lemma shape_let w : shape w "let" TLet 108.
Proof.
  intros r. rewrite match_rules_ident_start by reflexivity.
  rewrite (re_keyword_none w "import" 105 _ 108 r eq_refl) by lia.
  destruct (re_keyword w "let" (108 :: r)); [reflexivity|]. rewrite re_boolean_none by lia. reflexivity.
Qed.

Lemma shape_true w : shape w "true" TBoolLit 116.
Proof.
  intros r. rewrite match_rules_ident_start by reflexivity.
  rewrite (re_keyword_none w "import" 105 _ 116 r eq_refl) by lia.
  rewrite (re_keyword_none w "let" 108 _ 116 r eq_refl) by lia. rewrite re_boolean_true. reflexivity.
Qed.

Lemma shape_false w : shape w "false" TBoolLit 102.
Proof.
  intros r. rewrite match_rules_ident_start by reflexivity.
  rewrite (re_keyword_none w "import" 105 _ 102 r eq_refl) by lia.
  rewrite (re_keyword_none w "let" 108 _ 102 r eq_refl) by lia. rewrite re_boolean_false. reflexivity.
Qed.

Definition diverge (m1 m2 : bytes -> option (lexclass * nat)) (s : bytes) : Prop :=
  exists k1 k2 n, m1 s = Some (k1, n) /\ m2 s = Some (k2, n) /\ skipn n s <> []
                  /\ m1 (skipn n s) = None /\ m2 (skipn n s) = None.

Lemma star_prefix p l b r : forallb p l = true -> p b = false -> star p (l ++ b :: r) = length l.
Proof.
  induction l as [|x l IH]; cbn [forallb app star length]; intros H Hb; [now rewrite Hb|].
  apply andb_true_iff in H. destruct H as [Hx Hl]. rewrite Hx, IH by assumption. reflexivity.
Qed.

Lemma diverge_kw w (kw : string) t c0 tl0 s :
  admissible w -> bytes_of_string kw = c0 :: tl0 -> forallb re_ident_cont tl0 = true ->
  shape w kw t c0 -> shape w0 kw t c0 -> kw_diverges w kw s ->
  diverge (match_rules w) (match_rules w0) s.
Proof.
  intros Hadm Hkw Htl Hsh Hsh0 (Hn & H0 & Hf & cp & n & Hd & Hcp & Hw).
  assert (Hws : is_whitespace cp = false).
  { destruct (is_whitespace cp) eqn:E; [|reflexivity]. rewrite (Hadm cp E) in Hw. discriminate. }
  rewrite Hkw in *. cbn [length] in *.
  destruct (skipn (S (length tl0)) s) as [|b r'] eqn:Hs; [discriminate|].
  assert (Hb : 128 <= b).
  { destruct (b <? 128) eqn:E; [|lia]. destruct (decode_head _ _ _ _ _ Hd eq_refl) as [H1 _]. destruct H1 as [-> _]; lia. }
  assert (Es : s = c0 :: tl0 ++ b :: r').
  { rewrite <- (firstn_skipn (S (length tl0)) s), Hf, Hs. reflexivity. }
  exists (KTok TIdent), (KTok t), (S (length tl0)). rewrite Hs.
  assert (Hst : star re_ident_cont (tl0 ++ b :: r') = length tl0).
  { apply star_prefix; [exact Htl|]. unfold re_ident_cont, in_range. lia. }
  repeat split.
  - rewrite Es, Hsh. rewrite Es in Hn. rewrite Hn, Hst. reflexivity.
  - rewrite Es, Hsh0. rewrite Es in H0. rewrite H0. reflexivity.
  - discriminate.
  - eapply no_match_nonascii; eauto.
  - eapply no_match_nonascii; eauto.
Qed.

Lemma first_group_ext s : forall t1 t2,
  Forall2 (fun a b => fst a = fst b /\ snd a s = snd b s) t1 t2 -> first_group t1 s = first_group t2 s.
Proof.
  induction 1 as [|[k1 r1] [k2 r2] t1 t2 [Hk Hr] _ IH]; cbn [first_group]; [reflexivity|].
  cbn [fst snd] in *. subst k2. rewrite Hr, IH. reflexivity.
Qed.

(** the word-character table matters only where both readings fail one character later *)
Theorem match_rules_wordchar w s : admissible w ->
  match_rules w s = match_rules w0 s \/ diverge (match_rules w) (match_rules w0) s.
Proof.
  intros Hadm.
  destruct (kw_cases w "import" s) as [A1|D1];
    [|right; eapply (diverge_kw w "import" TImport); eauto using shape_import; reflexivity].
  destruct (kw_cases w "let" s) as [A2|D2];
    [|right; eapply (diverge_kw w "let" TLet); eauto using shape_let; reflexivity].
  destruct (kw_cases w "true" s) as [A3|D3];
    [|right; eapply (diverge_kw w "true" TBoolLit); eauto using shape_true; reflexivity].
  destruct (kw_cases w "false" s) as [A4|D4];
    [|right; eapply (diverge_kw w "false" TBoolLit); eauto using shape_false; reflexivity].
  left. unfold match_rules. apply first_group_ext. unfold lex_re.
  repeat (constructor; [cbn [fst snd]; split; [reflexivity|]; try reflexivity|]); try constructor; try assumption.
  unfold re_boolean. cbn [first_some]. rewrite A3, A4. reflexivity.
Qed.
