(** The scanner meets the specification: Lexer::line as modelled (Scanner.lex_line_gen, for every
    admissible reading of the regex crate's non-ASCII \w) is LexSpec.spec_line on every valid
    UTF-8 line; and the theorems of Theorems.v / Merge.v restated with the specification's classes. *)
From RS Require Import Base.Bytes Base.Outcome Base.Utf8 Lex.Tokens Lex.LexClass Lex.Scanner Lex.LexSpec.
From RS Require Import Proofs.BytesLemmas.
From RS.Proofs.C10 Require Import Utf8Facts RuleFacts Loop Theorems Merge SpecEquiv WordChar.
From Coq Require Import ZArith Lia ZifyBool ZifyNat ZifyN.
Ltac Zify.zify_post_hook ::= Z.div_mod_to_equations.
Open Scope N_scope.

Lemma lexemes_stuck m f s : s <> [] -> m s = None -> lexemes m f s = ([], s).
Proof. intros Hne Hm. destruct s; [congruence|]. destruct f; cbn [lexemes]; [reflexivity|]. now rewrite Hm. Qed.

Lemma lexemes_related m1 m2 : (forall s, m1 s = m2 s \/ diverge m1 m2 s) ->
  forall f s ls1 rest1 ls2 rest2,
    lexemes m1 f s = (ls1, rest1) -> lexemes m2 f s = (ls2, rest2) ->
    rest1 = rest2 /\ map snd ls1 = map snd ls2 /\ (rest1 = [] -> ls1 = ls2).
Proof.
  intros H. induction f as [|f IH]; intros s ls1 rest1 ls2 rest2 L1 L2.
  - destruct s; cbn [lexemes] in *; injection L1 as <- <-; injection L2 as <- <-; auto.
  - destruct s as [|b r]; [cbn [lexemes] in *; injection L1 as <- <-; injection L2 as <- <-; auto|].
    destruct (H (b :: r)) as [E|(k1 & k2 & n & M1 & M2 & Hne & N1 & N2)].
    + cbn [lexemes] in L1, L2. rewrite E in L1. destruct (m2 (b :: r)) as [[k n]|].
      * destruct (lexemes m1 f (skipn n (b :: r))) as [l1 r1] eqn:E1.
        destruct (lexemes m2 f (skipn n (b :: r))) as [l2 r2] eqn:E2.
        injection L1 as <- <-. injection L2 as <- <-.
        destruct (IH _ _ _ _ _ E1 E2) as (Hr & Hm & Hl). repeat split; auto.
        -- cbn [map snd]. now rewrite Hm.
        -- intros Hnil. now rewrite (Hl Hnil).
      * injection L1 as <- <-. injection L2 as <- <-. repeat split; auto.
    + cbn [lexemes] in L1, L2. rewrite M1 in L1. rewrite M2 in L2.
      rewrite (lexemes_stuck m1 f _ Hne N1) in L1. rewrite (lexemes_stuck m2 f _ Hne N2) in L2.
      injection L1 as <- <-. injection L2 as <- <-. repeat split; auto. intros Hnil. congruence.
Qed.

Lemma line_tokens_related m1 m2 : (forall s, m1 s = m2 s \/ diverge m1 m2 s) ->
  forall pend lno line, line_tokens m1 pend lno line = line_tokens m2 pend lno line.
Proof.
  intros H pend lno line. unfold line_tokens.
  destruct (lexemes m1 (length line) line) as [l1 r1] eqn:E1.
  destruct (lexemes m2 (length line) line) as [l2 r2] eqn:E2.
  destruct (lexemes_related m1 m2 H _ _ _ _ _ _ E1 E2) as (<- & Hm & Hl).
  destruct r1 as [|c r1]; [rewrite (Hl eq_refl); reflexivity|]. rewrite Hm. reflexivity.
Qed.

(** for every admissible word-character table the pipeline over the scanner's pattern is the
    specification *)
Theorem line_tokens_spec w : admissible w ->
  forall pend lno line, line_tokens (match_rules w) pend lno line = spec_line pend lno line.
Proof.
  intros Hadm pend lno line. unfold spec_line.
  rewrite (line_tokens_related (match_rules w) (match_rules w0)) by (intros s; apply match_rules_wordchar; exact Hadm).
  apply line_tokens_related. intros s. left. apply match_rules_w0.
Qed.

Definition as_lexer (r : (loc * option bytes) * outcome (list token)) : lexer * outcome (list token) :=
  let '((lc, p), o) := r in ({| lx_loc := lc; lx_pending := p |}, o).

Theorem scan_meets_spec_gen w : admissible w -> forall lx lno line, utf8_valid line = true ->
  lex_line_gen w lx lno line = as_lexer (spec_line (lx_pending lx) lno line).
Proof.
  intros Hadm lx lno line Hv. apply utf8_valid_iff in Hv.
  rewrite (lex_line_pipeline w lx lno line Hv), (line_tokens_spec w Hadm). reflexivity.
Qed.

Theorem wordchar_irrelevant w1 w2 : admissible w1 -> admissible w2 -> forall lx lno line, utf8_valid line = true ->
  lex_line_gen w1 lx lno line = lex_line_gen w2 lx lno line.
Proof. intros H1 H2 lx lno line Hv. rewrite !scan_meets_spec_gen by assumption. reflexivity. Qed.

Lemma first_class_bounds s k n : first_class s = Some (k, n) -> (0 < n <= length s)%nat.
Proof. rewrite <- match_rules_w0. apply match_rules_bounds. Qed.

Lemma spec_pipe w : admissible w -> forall lx lno line, Valid line ->
  lex_line_gen w lx lno line =
  (let '((lc, p), o) := line_tokens first_class (lx_pending lx) lno line in ({| lx_loc := lc; lx_pending := p |}, o)).
Proof. intros Hadm lx lno line Hv. apply utf8_valid_iff in Hv. apply (scan_meets_spec_gen w Hadm lx lno line Hv). Qed.
