(** The scanner's recognisers (regex alternatives with their leftmost-first extents, Scanner.v)
    compute the extents the specification gives to the classes (LexSpec.v), rule by rule; with the
    ASCII-only word boundary [w0] the whole pattern is [first_class]. *)
From RS Require Import Base.Bytes Base.Outcome Base.Utf8 Lex.Tokens Lex.LexClass Lex.Scanner Lex.LexSpec.
From RS.Proofs.C10 Require Import Utf8Facts RuleFacts.
From Coq Require Import ZArith Lia ZifyBool ZifyNat ZifyN.
Ltac Zify.zify_post_hook ::= Z.div_mod_to_equations.
Open Scope N_scope.

Definition to_opt (n : nat) : option nat := match n with O => None | S _ => Some n end.

(** the word boundary that looks at ASCII identifier characters only *)
Definition w0 : N -> bool := fun _ => false.

(** *** character classes *)
Lemma ident_cont_eq c : re_ident_cont c = ident_char c.
Proof. unfold re_ident_cont, ident_char, letter, digit, in_range. lia. Qed.
Lemma ident_start_eq c : re_ident_start c = (letter c || (c =? 95)).
Proof. unfold re_ident_start, letter, in_range. lia. Qed.
Lemma digit_eq c : re_digit c = digit c.
Proof. reflexivity. Qed.
Lemma hexdigit_eq c : re_hexdigit c = hexdigit c.
Proof. unfold re_hexdigit, hexdigit, digit, in_range. lia. Qed.

Lemma star_span p q s : (forall c, p c = q c) -> star p s = span q s.
Proof. intros H. induction s as [|c r IH]; cbn [star span]; [reflexivity|]. rewrite <- H, IH. reflexivity. Qed.

Lemma lit_starts_with w : forall s, lit w s = if starts_with w s then Some (length w) else None.
Proof.
  induction w as [|c w IH]; intros s; cbn [lit starts_with length]; [reflexivity|].
  destruct s as [|d s]; [reflexivity|]. destruct (c =? d); cbn [andb]; [|reflexivity].
  rewrite IH. destruct (starts_with w s); reflexivity.
Qed.

(** *** one rule at a time *)
Lemma ws_star_blanks f : forall s, re_ws_star f s = blanks f s.
Proof.
  induction f as [|f IH]; intros s; cbn [re_ws_star blanks]; [reflexivity|]. unfold blank_width.
  destruct (utf8_decode s) as [[cp n]|] eqn:Hd; [|reflexivity].
  change newline with 10. destruct (is_whitespace cp && negb (cp =? 10)); [|reflexivity].
  pose proof (decode_len _ _ _ Hd) as Hn. destruct n as [|n]; [lia|]. rewrite IH. reflexivity.
Qed.

Lemma eq_whitespace s : re_whitespace s = to_opt (extent KWhitespace s).
Proof. unfold re_whitespace. cbn [extent]. rewrite ws_star_blanks. destruct (blanks (length s) s); reflexivity. Qed.

Lemma not_nl_eq c : re_not_nl c = negb (c =? newline).
Proof. reflexivity. Qed.

Lemma eq_hashcomment s : re_hashcomment s = to_opt (extent KHashComment s).
Proof.
  unfold re_hashcomment. cbn [extent]. destruct s as [|c r]; [reflexivity|].
  change (text "#") with [35]. cbn [starts_with]. rewrite (N.eqb_sym 35 c), andb_true_r.
  destruct (c =? 35) eqn:E; [|reflexivity]. apply N.eqb_eq in E. subst c.
  unfold to_eol. cbn [span]. change (negb (35 =? newline)) with true. cbv iota.
  rewrite (star_span re_not_nl (fun c => negb (c =? newline))) by reflexivity. reflexivity.
Qed.

Lemma eq_cppcomment s : re_cppcomment s = to_opt (extent KCppComment s).
Proof.
  unfold re_cppcomment. cbn [extent]. change (text "//") with [47; 47].
  destruct s as [|c [|d r]]; cbn [starts_with]; [reflexivity|destruct (47 =? c); reflexivity|].
  rewrite (N.eqb_sym 47 c), (N.eqb_sym 47 d), andb_true_r.
  destruct (c =? 47) eqn:E; cbn [andb]; [|reflexivity]. destruct (d =? 47) eqn:E2; [|reflexivity].
  apply N.eqb_eq in E, E2. subst c d. unfold to_eol. cbn [span]. change (negb (47 =? newline)) with true. cbv iota.
  rewrite (star_span re_not_nl (fun c => negb (c =? newline))) by reflexivity. reflexivity.
Qed.

Lemma eq_newline s : lit [10] s = to_opt (extent KNewLine s).
Proof. rewrite lit_starts_with. cbn [extent]. change [newline] with [10]. destruct (starts_with [10] s); reflexivity. Qed.

Lemma eq_exactly (w : string) s : bytes_of_string w <> [] -> re_lit w s = to_opt (exactly w s).
Proof.
  intros Hne. unfold re_lit, exactly, text. rewrite lit_starts_with.
  destruct (starts_with (bytes_of_string w) s); [|reflexivity].
  destruct (bytes_of_string w); [congruence|reflexivity].
Qed.

Lemma boundary_w0 r : word_boundary_after_word w0 r = negb (match r with c :: _ => ident_char c | [] => false end).
Proof.
  unfold word_boundary_after_word, is_word_char, w0. destruct r as [|b t]; [reflexivity|].
  destruct (utf8_decode (b :: t)) as [[cp n]|] eqn:Hd.
  - destruct (decode_head _ _ _ _ _ Hd eq_refl) as [H1 H2].
    destruct (b <? 128) eqn:E.
    + destruct H1 as [-> _]; [lia|]. rewrite E, ident_cont_eq. reflexivity.
    + assert (128 <= cp) as Hc by (apply H2; lia). destruct (cp <? 128) eqn:E2; [lia|].
      assert (ident_char b = false) as -> by (clear - E; unfold ident_char, letter, digit; lia). reflexivity.
  - destruct (b <? 128) eqn:E; [rewrite decode_ascii in Hd by lia; discriminate|].
    assert (ident_char b = false) as -> by (clear - E; unfold ident_char, letter, digit; lia). reflexivity.
Qed.

Lemma eq_word (kw : string) s : bytes_of_string kw <> [] -> re_keyword w0 kw s = to_opt (word kw s).
Proof.
  intros Hne. unfold re_keyword, word, text, followed_by. rewrite lit_starts_with.
  destruct (starts_with (bytes_of_string kw) s); cbn [andb]; [|reflexivity].
  rewrite boundary_w0. destruct (negb _); [|reflexivity]. destruct (bytes_of_string kw); [congruence|reflexivity].
Qed.

Lemma word_first (kw : string) c r b t : bytes_of_string kw = b :: t -> word kw (c :: r) <> O -> c = b.
Proof.
  unfold word, text. intros ->. cbn [starts_with]. destruct (b =? c) eqn:E; cbn [andb]; [|congruence].
  intros _. apply N.eqb_eq in E. auto.
Qed.

Lemma eq_boolean s : re_boolean w0 s = to_opt (extent (KTok TBoolLit) s).
Proof.
  unfold re_boolean. cbn [first_some extent]. rewrite !eq_word by discriminate.
  destruct (word "true" s) as [|n] eqn:E1; cbn [to_opt].
  - rewrite Nat.max_0_l. destruct (word "false" s); reflexivity.
  - destruct (word "false" s) as [|n2] eqn:E2; [rewrite Nat.max_0_r; reflexivity|].
    exfalso. destruct s as [|c r]; [discriminate|].
    assert (c = 116) by (eapply (word_first "true"); [reflexivity|rewrite E1; discriminate]).
    assert (c = 102) by (eapply (word_first "false"); [reflexivity|rewrite E2; discriminate]). lia.
Qed.

Lemma eq_identifier s : re_identifier s = to_opt (identifier s).
Proof.
  unfold re_identifier, identifier. destruct s as [|c r]; [reflexivity|]. rewrite ident_start_eq.
  destruct (letter c || (c =? 95)) eqn:E; [|reflexivity]. cbn [span].
  assert (ident_char c = true) as -> by (unfold ident_char; destruct (letter c); cbn [orb] in *; [reflexivity|rewrite E; apply orb_true_r]).
  rewrite (star_span re_ident_cont ident_char) by exact ident_cont_eq. reflexivity.
Qed.

Lemma eq_string s : re_string s = to_opt (string_literal s).
Proof.
  unfold re_string, string_literal, followed_by. destruct s as [|c r]; [reflexivity|]. change quote with 34.
  destruct (c =? 34); [|reflexivity].
  rewrite (star_span re_not_quote (fun c => negb (c =? 34))) by reflexivity.
  destruct (skipn (span (fun c => negb (c =? 34)) r) r) as [|q t]; [reflexivity|]. destruct (q =? 34); reflexivity.
Qed.

Lemma eq_hex s : re_hex s = to_opt (hex_integer s).
Proof.
  unfold re_hex, hex_integer. change (text "0x") with [48; 120].
  destruct s as [|a [|b r]]; cbn [starts_with]; [reflexivity|destruct (48 =? a); reflexivity|].
  rewrite (N.eqb_sym 48 a), (N.eqb_sym 120 b), andb_true_r. destruct ((a =? 48) && (b =? 120)); [|reflexivity].
  cbn [skipn]. rewrite (star_span re_hexdigit hexdigit) by exact hexdigit_eq. destruct (span hexdigit r); reflexivity.
Qed.

Lemma eq_integer s : re_integer s = to_opt (integer s).
Proof.
  unfold re_integer, integer, re_digits1. change (text "-") with [45].
  rewrite !(star_span re_digit digit) by reflexivity.
  destruct s as [|c r]; [reflexivity|]. cbn [starts_with]. rewrite (N.eqb_sym 45 c), andb_true_r.
  destruct (c =? 45) eqn:E.
  - cbn [skipn]. rewrite (star_span re_digit digit) by reflexivity.
    destruct (span digit r) as [|n]; cbn [option_map to_opt]; [|reflexivity].
    apply N.eqb_eq in E. subst c. cbn [span]. change (digit 45) with false. reflexivity.
  - cbn [skipn]. destruct (span digit (c :: r)); reflexivity.
Qed.

(** *** dotted quads: backtracking computes the declarative extent *)
Definition cand_ok (s : bytes) (m : nat) : bool := Nat.eqb (length (firstn m s)) m && is_octet (firstn m s).
Definition memb (m : nat) (l : list nat) : bool := existsb (Nat.eqb m) l.
Definition hd0 (l : list nat) : nat := match l with n :: _ => n | [] => O end.

Ltac crush :=
  unfold hd0, last_octet, memb, octet_cands, octet_alt1, octet_alt2, octet_alt3, digit_optdigit, cand_ok, is_octet, dec_value;
  cbn [find firstn length fold_left forallb Nat.eqb Nat.leb andb app map existsb orb];
  unfold re_digit, in_range, digit;
  repeat match goal with |- context[if ?c then _ else _] => destruct c eqn:? end;
  cbn [find firstn length fold_left forallb Nat.eqb Nat.leb andb app map existsb orb]; try lia; try reflexivity.

Lemma hd_cands s : hd0 (octet_cands s) = last_octet s.
Proof. destruct s as [|a [|b [|c r]]]; [reflexivity|crush..]. Qed.

Lemma cands_char_small s m : (m <= 4)%nat -> memb m (octet_cands s) = cand_ok s m.
Proof.
  intros Hm. destruct m as [|[|[|[|[|m]]]]]; [| | | | |lia]; destruct s as [|a [|b [|c r]]]; try reflexivity; crush.
Qed.

Lemma memb_in m l : memb m l = true <-> In m l.
Proof.
  unfold memb. rewrite existsb_exists. split.
  - intros (x & Hin & E). apply Nat.eqb_eq in E. subst x. exact Hin.
  - intros Hin. exists m. split; [exact Hin|apply Nat.eqb_refl].
Qed.

Lemma cands_char s m : In m (octet_cands s) <-> cand_ok s m = true.
Proof.
  destruct (Nat.leb m 4) eqn:E.
  - apply Nat.leb_le in E. rewrite <- cands_char_small by exact E. symmetry. apply memb_in.
  - apply Nat.leb_gt in E. split.
    + intros H. apply octet_cands_in in H. destruct H as (H & _). lia.
    + unfold cand_ok, is_octet. intros H.
      destruct (Nat.eqb (length (firstn m s)) m) eqn:E2; [|discriminate]. apply Nat.eqb_eq in E2. rewrite E2 in H.
      destruct (Nat.leb m 3) eqn:E3; [apply Nat.leb_le in E3; lia|]. rewrite andb_false_r in H. discriminate.
Qed.

Lemma span_le p s : (span p s <= length s)%nat.
Proof. induction s as [|c r IH]; cbn [span length]; [lia|]. destruct (p c); lia. Qed.

(** all-digit prefixes are no longer than the run of digits *)
Lemma digits_le_span : forall m s, (m <= length s)%nat -> forallb digit (firstn m s) = true -> (m <= span digit s)%nat.
Proof.
  induction m as [|m IH]; intros s Hl H; [lia|]. destruct s as [|c r]; [cbn in Hl; lia|].
  cbn [firstn forallb length span] in *. apply andb_true_iff in H. destruct H as [Hc H]. rewrite Hc.
  specialize (IH r ltac:(lia) H). lia.
Qed.

Lemma span_next p s : match skipn (span p s) s with [] => True | c :: _ => p c = false end.
Proof.
  induction s as [|c r IH]; cbn [span]; [exact I|]. destruct (p c) eqn:E; cbn [skipn]; [exact IH|exact E].
Qed.

Lemma skipn_lt_span p : forall m s, (m < span p s)%nat -> exists c r, skipn m s = c :: r /\ p c = true.
Proof.
  induction m as [|m IH]; intros s H; destruct s as [|c r]; cbn [span] in H; try lia.
  - destruct (p c) eqn:E; [|lia]. exists c, r. split; [reflexivity|exact E].
  - destruct (p c) eqn:E; [|lia]. cbn [skipn]. apply IH. lia.
Qed.

Lemma cand_ok_le_span s m : cand_ok s m = true -> (m <= span digit s)%nat.
Proof.
  unfold cand_ok, is_octet. intros H. apply andb_true_iff in H. destruct H as [H1 H2].
  apply andb_true_iff in H2. destruct H2 as [H2 _]. apply andb_true_iff in H2. destruct H2 as [_ H2].
  apply Nat.eqb_eq in H1. apply digits_le_span; [|exact H2]. rewrite <- H1, firstn_length. lia.
Qed.

Lemma first_some_unique {B} (f : nat -> option B) d : forall l,
  (forall m, In m l -> m <> d -> f m = None) ->
  first_some f l = if memb d l then f d else None.
Proof.
  induction l as [|x l IH]; intros H; cbn [first_some memb existsb]; [reflexivity|].
  fold (memb d l). destruct (Nat.eqb d x) eqn:E.
  - apply Nat.eqb_eq in E. subst x. cbn [orb]. destruct (f d) eqn:Ef; [reflexivity|].
    rewrite IH by (intros m Hm; apply H; right; exact Hm). destruct (memb d l); reflexivity.
  - apply Nat.eqb_neq in E. rewrite (H x) by (try (left; reflexivity); congruence). cbn [orb].
    apply IH. intros m Hm. apply H. right. exact Hm.
Qed.

Lemma option_map_ext {A B} (f g : A -> B) o : (forall a, f a = g a) -> option_map f o = option_map g o.
Proof. intros H. destruct o; cbn; [rewrite H|]; reflexivity. Qed.

Lemma memb_cands s m : memb m (octet_cands s) = cand_ok s m.
Proof.
  apply eq_true_iff_eq. rewrite memb_in. apply cands_char.
Qed.

Lemma skipn_S {A} (d : nat) (s : list A) c r : skipn d s = c :: r -> skipn (S d) s = r.
Proof.
  intros H. replace (S d) with (d + 1)%nat by lia. rewrite <- skipn_skipn, H. reflexivity.
Qed.

(** one leading octet and its dot: the only candidate that can be followed by a dot is the whole
    run of digits *)
Lemma ipv4_step k s :
  re_ipv4_from (S k) s =
  match octet_dot s with
  | O => None
  | n1 => option_map (fun m => (n1 + m)%nat) (re_ipv4_from k (skipn n1 s))
  end.
Proof.
  cbn [re_ipv4_from]. set (d := span digit s).
  rewrite (first_some_unique _ d).
  - rewrite memb_cands. unfold octet_dot, cand_ok, followed_by. fold d.
    pose proof (span_le digit s) as Hd. fold d in Hd.
    rewrite firstn_length. replace (Nat.min d (length s)) with d by lia. rewrite Nat.eqb_refl. cbn [andb].
    destruct (is_octet (firstn d s)); cbn [andb]; [|reflexivity].
    destruct (skipn d s) as [|c r] eqn:Hs; [reflexivity|]. destruct (c =? 46); [|reflexivity].
    rewrite (skipn_S d s c r Hs). apply option_map_ext. intros a. lia.
  - intros m Hin Hne. apply cands_char in Hin. pose proof (cand_ok_le_span _ _ Hin) as Hle. fold d in Hle.
    destruct (skipn_lt_span digit m s ltac:(fold d; lia)) as (c & r & -> & Hc).
    assert (E : (c =? 46) = false) by (unfold digit in Hc; lia). rewrite E. reflexivity.
Qed.

Lemma ipv4_last s : re_ipv4_from 0 s = to_opt (last_octet s).
Proof.
  cbn [re_ipv4_from]. rewrite <- hd_cands. destruct (octet_cands s) as [|n t] eqn:E; [reflexivity|].
  cbn [hd0]. assert (Hin : In n (octet_cands s)) by (rewrite E; left; reflexivity).
  apply octet_cands_in in Hin. destruct Hin as (H & _). destruct n; [lia|reflexivity].
Qed.

Lemma eq_ipv4 s : re_ipv4 s = to_opt (dotted_quad s).
Proof.
  unfold re_ipv4, dotted_quad. rewrite ipv4_step.
  destruct (octet_dot s) as [|n1]; [reflexivity|]. cbv zeta. rewrite ipv4_step.
  destruct (octet_dot (skipn (S n1) s)) as [|n2]; [reflexivity|]. cbv zeta. rewrite ipv4_step.
  rewrite !skipn_skipn.
  destruct (octet_dot (skipn (S n1 + S n2) s)) as [|n3]; [reflexivity|]. cbv zeta. rewrite ipv4_last.
  rewrite !skipn_skipn.
  destruct (last_octet (skipn (S n1 + S n2 + S n3) s)) as [|n4]; [reflexivity|]. cbn [to_opt option_map].
  replace (S n1 + S n2 + S n3 + S n4)%nat with (S (n1 + S n2 + S n3 + S n4)) by lia. cbn [to_opt]. f_equal. lia.
Qed.

(** *** the whole pattern *)
Lemma first_group_find s : forall tbl,
  (forall k re, In (k, re) tbl -> re s = to_opt (extent k s)) ->
  first_group tbl s =
  match find (fun k => negb (Nat.eqb (extent k s) 0)) (map fst tbl) with
  | Some k => Some (k, extent k s)
  | None => None
  end.
Proof.
  induction tbl as [|[k re] t IH]; intros H; cbn [first_group map fst find]; [reflexivity|].
  rewrite (H k re) by (left; reflexivity). destruct (extent k s) as [|n] eqn:E; cbn [to_opt Nat.eqb negb].
  - apply IH. intros k' re' Hin. apply H. right. exact Hin.
  - rewrite E. reflexivity.
Qed.

Lemma lex_re_w0_agrees s k re : In (k, re) (lex_re w0) -> re s = to_opt (extent k s).
Proof.
  unfold lex_re. intros H.
  repeat (destruct H as [H|H]; [injection H as <- <-|]); try destruct H.
  - apply eq_whitespace.
  - apply eq_hashcomment.
  - apply eq_cppcomment.
  - apply eq_newline.
  - apply (eq_exactly "("); discriminate.
  - apply (eq_exactly ")"); discriminate.
  - apply (eq_exactly "."); discriminate.
  - apply (eq_exactly "::"); discriminate.
  - apply (eq_exactly ":"); discriminate.
  - apply (eq_exactly ";"); discriminate.
  - apply (eq_exactly "="); discriminate.
  - apply (eq_exactly ","); discriminate.
  - apply (eq_exactly "/"); discriminate.
  - apply (eq_word "import"); discriminate.
  - apply (eq_word "let"); discriminate.
  - apply eq_boolean.
  - apply eq_identifier.
  - apply eq_ipv4.
  - apply eq_string.
  - apply eq_hex.
  - apply eq_integer.
Qed.

(** with the ASCII-only word boundary the scanner's pattern is the specification's [first_class] *)
Theorem match_rules_w0 s : match_rules w0 s = first_class s.
Proof.
  unfold match_rules, first_class. rewrite first_group_find by (apply lex_re_w0_agrees). reflexivity.
Qed.
