(** Facts about the strict UTF-8 decoder of Base/Utf8.v used by the C10 proofs. *)
From RS Require Import Base.Bytes Base.Outcome Base.Utf8.
From Coq Require Import ZArith Lia ZifyBool ZifyNat ZifyN.
Ltac Zify.zify_post_hook ::= Z.div_mod_to_equations.
Open Scope N_scope.

(** well-formed UTF-8, inductively: a sequence of decodable characters *)
Inductive Valid : bytes -> Prop :=
| Valid_nil : Valid []
| Valid_cons l cp n : utf8_decode l = Some (cp, n) -> Valid (skipn n l) -> Valid l.

Lemma decode_shape l cp n : utf8_decode l = Some (cp, n) ->
  (exists b0 r, l = b0 :: r /\ n = 1%nat /\ b0 < 128 /\ cp = b0) \/
  (exists b0 b1 r, l = b0 :: b1 :: r /\ n = 2%nat /\ 128 <= b0 /\ is_cont b0 = false /\ is_cont b1 = true /\ 128 <= cp) \/
  (exists b0 b1 b2 r, l = b0 :: b1 :: b2 :: r /\ n = 3%nat /\ 128 <= b0 /\ is_cont b0 = false
                      /\ is_cont b1 = true /\ is_cont b2 = true /\ 128 <= cp) \/
  (exists b0 b1 b2 b3 r, l = b0 :: b1 :: b2 :: b3 :: r /\ n = 4%nat /\ 128 <= b0 /\ is_cont b0 = false
                         /\ is_cont b1 = true /\ is_cont b2 = true /\ is_cont b3 = true /\ 128 <= cp).
Proof.
  unfold utf8_decode. destruct l as [|b0 r]; [discriminate|].
  destruct (b0 <? 128) eqn:E0.
  { intros H; injection H as <- <-. left. exists b0, r. repeat split; lia. }
  destruct (b0 <? 194) eqn:E1; [discriminate|].
  destruct (b0 <? 224) eqn:E2.
  { destruct r as [|b1 r]; [discriminate|]. destruct (is_cont b1) eqn:C1; [|discriminate].
    intros H; injection H as <- <-. right; left. exists b0, b1, r.
    unfold is_cont in *. repeat split; lia. }
  destruct (b0 <? 240) eqn:E3.
  { destruct r as [|b1 [|b2 r]]; try discriminate.
    destruct (is_cont b1) eqn:C1; cbn [andb]; [|discriminate].
    destruct (is_cont b2) eqn:C2; [|discriminate].
    match goal with |- context[if ?c then _ else _] => destruct c eqn:EC end; [discriminate|].
    intros H; injection H as <- <-. right; right; left. exists b0, b1, b2, r.
    unfold is_cont in *. repeat split; lia. }
  destruct (b0 <? 245) eqn:E4; [|discriminate].
  destruct r as [|b1 [|b2 [|b3 r]]]; try discriminate.
  destruct (is_cont b1) eqn:C1; cbn [andb]; [|discriminate].
  destruct (is_cont b2) eqn:C2; cbn [andb]; [|discriminate].
  destruct (is_cont b3) eqn:C3; [|discriminate].
  match goal with |- context[if ?c then _ else _] => destruct c eqn:EC end; [discriminate|].
  intros H; injection H as <- <-. right; right; right. exists b0, b1, b2, b3, r.
  unfold is_cont in *. repeat split; lia.
Qed.

Lemma decode_len l cp n : utf8_decode l = Some (cp, n) -> (1 <= n <= length l)%nat.
Proof.
  intros H. apply decode_shape in H.
  destruct H as [(b0 & r & -> & -> & _)|[(b0 & b1 & r & -> & -> & _)|[(b0 & b1 & b2 & r & -> & -> & _)|
                 (b0 & b1 & b2 & b3 & r & -> & -> & _)]]]; cbn [length]; lia.
Qed.

(** an ASCII byte decodes to itself *)
Lemma decode_ascii b r : b < 128 -> utf8_decode (b :: r) = Some (b, 1%nat).
Proof. intros H. unfold utf8_decode. destruct (b <? 128) eqn:E; [reflexivity|lia]. Qed.

(** a character that starts with a non-ASCII byte is a non-ASCII character, and vice versa *)
Lemma decode_head l cp n b r : utf8_decode l = Some (cp, n) -> l = b :: r ->
  (b < 128 -> cp = b /\ n = 1%nat) /\ (128 <= b -> 128 <= cp).
Proof.
  intros H ->. split; intros Hb.
  - rewrite decode_ascii in H by exact Hb. now injection H as <- <-.
  - apply decode_shape in H.
    destruct H as [(b0 & r0 & E & _ & Hlt & _)|[(b0 & b1 & r0 & E & _ & _ & _ & _ & Hc)|
                   [(b0 & b1 & b2 & r0 & E & _ & _ & _ & _ & _ & Hc)|
                    (b0 & b1 & b2 & b3 & r0 & E & _ & _ & _ & _ & _ & _ & Hc)]]]; try exact Hc.
    injection E as -> ->. lia.
Qed.

Definition boundary (s : bytes) : bool := match s with [] => true | b :: _ => negb (is_cont b) end.

(** inside a character there is no boundary *)
Lemma decode_no_boundary l cp n k : utf8_decode l = Some (cp, n) -> (0 < k < n)%nat -> boundary (skipn k l) = false.
Proof.
  intros H Hk. apply decode_shape in H.
  destruct H as [(b0 & r & -> & -> & _)|[(b0 & b1 & r & -> & -> & _ & _ & C1 & _)|
                 [(b0 & b1 & b2 & r & -> & -> & _ & _ & C1 & C2 & _)|
                  (b0 & b1 & b2 & b3 & r & -> & -> & _ & _ & C1 & C2 & C3 & _)]]].
  - lia.
  - assert (k = 1%nat) as -> by lia. cbn. now rewrite C1.
  - assert (k = 1 \/ k = 2)%nat as [-> | ->] by lia; cbn; [now rewrite C1|now rewrite C2].
  - assert (k = 1 \/ k = 2 \/ k = 3)%nat as [-> | [-> | ->]] by lia; cbn;
      [now rewrite C1|now rewrite C2|now rewrite C3].
Qed.

Lemma decode_boundary l cp n : utf8_decode l = Some (cp, n) -> boundary l = true.
Proof.
  intros H. apply decode_shape in H.
  destruct H as [(b0 & r & -> & _ & Hlt & _)|[(b0 & b1 & r & -> & _ & _ & C0 & _)|
                 [(b0 & b1 & b2 & r & -> & _ & _ & C0 & _)|
                  (b0 & b1 & b2 & b3 & r & -> & _ & _ & C0 & _)]]]; cbn; try now rewrite C0.
  unfold is_cont. lia.
Qed.

Lemma valid_boundary s : Valid s -> boundary s = true.
Proof. intros [|l cp n H _]; [reflexivity|]. eapply decode_boundary; eauto. Qed.

Lemma skipn_skipn {A} (a b : nat) (l : list A) : skipn a (skipn b l) = skipn (b + a) l.
Proof.
  revert l. induction b as [|b IH]; intros l; [reflexivity|].
  destruct l as [|x l]; [now rewrite !skipn_nil|]. cbn [skipn Nat.add]. apply IH.
Qed.

(** the part of a valid text that starts at a character boundary is valid *)
Lemma valid_skipn s : Valid s -> forall k, boundary (skipn k s) = true -> Valid (skipn k s).
Proof.
  induction 1 as [|l cp n Hd Hv IH]; intros k Hb.
  - rewrite skipn_nil. constructor.
  - destruct k as [|k]; [cbn [skipn]; econstructor; eauto|].
    destruct (Nat.ltb (S k) n) eqn:E.
    + apply Nat.ltb_lt in E. rewrite (decode_no_boundary l cp n (S k)) in Hb by (auto; lia). discriminate.
    + apply Nat.ltb_ge in E. replace (S k) with (n + (S k - n))%nat in * by lia.
      rewrite <- skipn_skipn in *. apply IH. exact Hb.
Qed.

Lemma valid_tail b r : Valid (b :: r) -> b < 128 -> Valid r.
Proof.
  intros H Hb. inversion H as [|l cp n Hd Hv]; subst.
  rewrite decode_ascii in Hd by exact Hb. injection Hd as <- <-. exact Hv.
Qed.

Lemma valid_ascii_cons b r : b < 128 -> Valid r -> Valid (b :: r).
Proof. intros Hb Hr. econstructor; [apply decode_ascii; exact Hb|exact Hr]. Qed.

(** the boolean test of Base/Utf8.v *)
Lemma valid_fuel_iff f : forall l, (length l <= f)%nat -> (utf8_valid_fuel f l = true <-> Valid l).
Proof.
  induction f as [|f IH]; intros l Hl.
  - destruct l; [|cbn in Hl; lia]. cbn. split; [constructor|reflexivity].
  - destruct l as [|b r]; [cbn; split; [constructor|reflexivity]|].
    cbn [utf8_valid_fuel]. destruct (utf8_decode (b :: r)) as [[cp n]|] eqn:Hd.
    + pose proof (decode_len _ _ _ Hd) as Hn.
      assert (Hlen : (length (skipn n (b :: r)) <= f)%nat) by (rewrite skipn_length; lia).
      split; intros H.
      * econstructor; [exact Hd|]. apply IH; assumption.
      * inversion H as [|l cp' n' Hd' Hv]; subst. rewrite Hd in Hd'. injection Hd' as <- <-.
        apply IH; assumption.
    + split; [discriminate|]. intros H. inversion H as [|l cp' n' Hd' Hv]; subst. congruence.
Qed.

Lemma utf8_valid_iff l : utf8_valid l = true <-> Valid l.
Proof. unfold utf8_valid. apply valid_fuel_iff. lia. Qed.
