(** Purity (the result depends on the pending literal and the text only; the line number only
    labels) and string-literal merging (the token stream, locations aside, depends only on the
    sequence of lexemes: not on line breaks, skipped lexemes or how adjacent literals are split). *)
From RS Require Import Base.Bytes Base.Outcome Base.Utf8 Lex.Tokens Lex.LexClass Lex.Scanner Lex.LexSpec.
From RS Require Import Proofs.BytesLemmas.
From RS.Proofs.C10 Require Import Utf8Facts RuleFacts Loop Theorems.
From Coq Require Import ZArith Lia ZifyBool ZifyNat ZifyN.
Ltac Zify.zify_post_hook ::= Z.div_mod_to_equations.
Open Scope N_scope.

(** ** purity *)
Definition relabel (lno : N) (r : lexer * outcome (list token)) : lexer * outcome (list token) :=
  ({| lx_loc := (lno mod 4294967296, snd (lx_loc (fst r))); lx_pending := lx_pending (fst r) |},
   omap (map (reline lno)) (snd r)).

Section Pure.
  Variable w : N -> bool.

  Theorem lex_pending_only lx1 lx2 lno line :
    lx_pending lx1 = lx_pending lx2 -> lex_line_gen w lx1 lno line = lex_line_gen w lx2 lno line.
  Proof. intros H. unfold lex_line_gen. rewrite H. reflexivity. Qed.

  Definition reline_res (lno : N) (r : N * outcome (list token * list bytes)) :=
    match r with
    | (p, Ok (ret, strs)) => (p, Ok (map (reline lno) ret, strs))
    | other => other
    end.

  Lemma scan_loop_reline l1 l2 : forall f s pos ret strs,
    scan_loop w f l2 s pos (map (reline l2) ret) strs = reline_res l2 (scan_loop w f l1 s pos ret strs).
  Proof.
    induction f as [|f IH]; intros s pos ret strs; destruct s as [|b r]; try reflexivity.
    cbn [scan_loop]. destruct (match_rules w (b :: r)) as [[k n]|]; [|reflexivity].
    destruct (negb (is_char_boundary (skipn n (b :: r)))); [reflexivity|].
    destruct k as [| | | |t]; cbn [skipped]; try apply IH.
    destruct t; try (rewrite <- IH; f_equal; rewrite map_app; destruct strs; [reflexivity|rewrite map_app; reflexivity]).
    destruct (Nat.ltb n 2); [reflexivity|apply IH].
  Qed.

  Theorem lex_lno_labels lx l1 l2 line :
    lex_line_gen w lx l2 line = relabel l2 (lex_line_gen w lx l1 line).
  Proof.
    unfold lex_line_gen, relabel.
    pose proof (scan_loop_reline l1 l2 (S (length line)) line 0 []
                  (match lx_pending lx with Some s => [s] | None => [] end)) as H.
    cbn [map] in H. rewrite H.
    destruct (scan_loop w (S (length line)) l1 line 0 [] _) as [pos [[ret strs]|e|site|]]; reflexivity.
  Qed.
End Pure.

(** ** merging *)
Lemma essence_app a : forall pend b,
  essence pend (a ++ b) =
  (let (ta, pa) := essence pend a in let (tb, pb) := essence pa b in (ta ++ tb, pb)).
Proof.
  intros pend b. unfold essence at 1 2. rewrite assemble_app.
  destruct (assemble 0 0 pend a) as [ta pa].
  rewrite <- (assemble_strip 0 (0 + len (concat (map snd a))) b pa).
  destruct (assemble 0 (0 + len (concat (map snd a))) pa b) as [tb pb]. rewrite map_app. reflexivity.
Qed.

Lemma literal_body_quoted body : literal_body (quote :: body ++ [quote]) = body.
Proof. unfold literal_body. cbn [tl]. apply removelast_last. Qed.

(** a literal written in two adjacent pieces is the same as the literal written in one piece *)
Theorem essence_split pend a u v b :
  essence pend (a ++ string_lexeme u :: string_lexeme v :: b) = essence pend (a ++ string_lexeme (u ++ v) :: b).
Proof.
  rewrite !essence_app. destruct (essence pend a) as [ta pa]. f_equal.
  unfold essence, string_lexeme. cbn [assemble].
  rewrite !literal_body_quoted. cbn [pend_text]. rewrite <- app_assoc.
  rewrite (assemble_strip2 0 0 b (0 + len (quote :: u ++ [quote]) + len (quote :: v ++ [quote]))
             (0 + len (quote :: (u ++ v) ++ [quote]))). reflexivity.
Qed.

(** skipped lexemes (blank space, comments, newlines) do not show *)
Theorem essence_skip pend a k x b : skipped k = true -> essence pend (a ++ (k, x) :: b) = essence pend (a ++ b).
Proof.
  intros Hk. rewrite !essence_app. destruct (essence pend a) as [ta pa]. f_equal.
  unfold essence. destruct k; try discriminate; cbn [assemble];
    rewrite (assemble_strip2 0 0 b (0 + len x) 0); reflexivity.
Qed.

(** line breaks do not show: the tokens of a text lexed line by line are those of the lexemes of
    all its lines put one after the other *)
Definition lexemes_of (m : bytes -> option (lexclass * nat)) (line : bytes) : list lexeme :=
  fst (lexemes m (length line) line).

Section Lines.
  Variable w : N -> bool.
  Variable m : bytes -> option (lexclass * nat).
  Hypothesis m_bounds : forall s k n, m s = Some (k, n) -> (0 < n <= length s)%nat.
  Hypothesis pipe : forall lx lno line, Valid line ->
    lex_line_gen w lx lno line =
    (let '((lc, p), o) := line_tokens m (lx_pending lx) lno line in ({| lx_loc := lc; lx_pending := p |}, o)).

  Theorem lines_essence : forall lines lx lno lx' toks,
    Forall (fun l => utf8_valid l = true) lines ->
    lex_lines_gen w lx lno lines = (lx', Ok toks) ->
    (map strip_loc toks, lx_pending lx') = essence (lx_pending lx) (concat (map (lexemes_of m) lines)).
  Proof.
    induction lines as [|l lines IH]; intros lx lno lx' toks Hv H; cbn [lex_lines_gen] in H.
    - injection H as <- <-. reflexivity.
    - inversion Hv as [|? ? Hl Hv']; subst.
      destruct (lex_line_gen w lx lno l) as [lx1 [t1|e|site|]] eqn:L1; try discriminate.
      destruct (lex_lines_gen w lx1 (lno + 1) lines) as [lx2 [t2|e|site|]] eqn:L2; try discriminate.
      injection H as <- <-. apply IH in L2; [|exact Hv'].
      apply (lex_ok_cuts w m m_bounds pipe lx lno l lx1 t1 Hl) in L1. destruct L1 as (ls & Hc & A & _).
      cbn [map concat]. unfold lexemes_of at 1.
      rewrite (cuts_lexemes m m_bounds ls l [] (length l) (Nat.le_refl _) Hc (or_introl eq_refl)).
      cbn [fst]. rewrite essence_app. rewrite <- (assemble_strip lno 0 ls (lx_pending lx)), A.
      rewrite <- L2. rewrite map_app. reflexivity.
  Qed.
End Lines.
