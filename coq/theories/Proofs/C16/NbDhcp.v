(** C16: NetBIOS first-level encoding decodes back to the space-padded name and suffix (names over 15
    bytes are refused); the DHCP header helper lays every field out at its RFC 2131 offset, magic cookie
    last, over-long chaddr/sname/file truncated to 16/64/128. *)
From RS Require Import Base.Bytes Base.Outcome Interp.Val Lib.LibBase Lib.ProtoLib Lib.StdLib
  Spec.LenPrefix Spec.NbDecode Spec.DhcpParse Proofs.BytesLemmas Proofs.Tactics Proofs.C15.LenLemmas
  Proofs.C15.StdHelpers Proofs.C15.Tls.
From Coq Require Import ZArith Lia ZifyBool ZifyNat ZifyN.
Ltac Zify.zify_post_hook ::= Z.div_mod_to_equations.
Open Scope N_scope.

(* ---------------- NetBIOS ---------------- *)
Lemma decode_pairs_enc p rest : wf_bytes p ->
  decode_pairs (length p) (nb_raw_encode p ++ rest) = Some (p, rest).
Proof.
  induction 1 as [|c r Hc Hr IH]; [reflexivity|].
  unfold nb_raw_encode in *. cbn [length map concat app decode_pairs]. unfold half.
  destruct ((65 <=? c / 16 + 65) && (c / 16 + 65 <=? 80)) eqn:E1; [|lia].
  destruct ((65 <=? c mod 16 + 65) && (c mod 16 + 65 <=? 80)) eqn:E2; [|lia].
  rewrite IH. do 3 f_equal. lia.
Qed.

Definition nb_padded (name : list N) : list N := name ++ repeat 32 (15 - length name).

Lemma wf_repeat c n : c < 256 -> wf_bytes (repeat c n).
Proof. intros H. induction n; constructor; assumption. Qed.

Theorem nb_roundtrip e suffix s parts rest h :
  conv_u8 suffix = Ok s -> len (concat parts) <= 15 -> wf_bytes (concat parts) ->
  exists out, call e "netbios::name::encode" [suffix] (map VStr parts) h = Some (Ok (VStr out, h))
              /\ len out = 32
              /\ nb_decode (out ++ rest) = Some ((nb_padded (concat parts), s), rest).
Proof.
  intros Hs Hl Hw. pose proof (conv_u8_lt _ _ Hs) as Ls. unfold call.
  change (exec e "netbios::name::encode" None [suffix] (map VStr parts) h)
    with (Some (nb_encode_fn [suffix] (map VStr parts) h)).
  unfold nb_encode_fn. rewrite Hs, join_extra_strs. cbn [obind]. set (name := concat parts) in *.
  unfold nb_pad. destruct (16 <? len name + 1) eqn:E; [lia|].
  set (q := nb_padded name).
  assert (Lq : length q = 15%nat).
  { unfold q, nb_padded. rewrite app_length, repeat_length. unfold len in Hl. lia. }
  assert (P : name ++ repeat 32 (15 - length name) ++ [s] = q ++ [s]).
  { unfold q, nb_padded. rewrite <- app_assoc. reflexivity. }
  rewrite P.
  assert (Wq : wf_bytes (q ++ [s])).
  { apply wf_app; [apply wf_app; [exact Hw|apply wf_repeat; lia]|constructor; [exact Ls|constructor]]. }
  eexists. split; [reflexivity|]. split.
  - unfold nb_raw_encode. clear -Lq. unfold len.
    assert (G : forall p : list N, length (concat (map (fun c => [c / 16 + 65; c mod 16 + 65]) p)) = (2 * length p)%nat).
    { induction p as [|c r IH]; [reflexivity|]. cbn [map concat app length]. rewrite IH. lia. }
    rewrite G, app_length, Lq. reflexivity.
  - unfold nb_decode. assert (L16 : length (q ++ [s]) = 16%nat) by (rewrite app_length, Lq; reflexivity).
    rewrite <- L16 at 1.
    rewrite decode_pairs_enc by exact Wq.
    rewrite <- Lq at 1. rewrite firstn_app, Nat.sub_diag, firstn_all. cbn [firstn]. rewrite app_nil_r.
    rewrite <- Lq. rewrite app_nth2 by lia. rewrite Nat.sub_diag. reflexivity.
Qed.

Theorem nb_refused e suffix s parts h :
  conv_u8 suffix = Ok s -> 16 <= len (concat parts) ->
  call e "netbios::name::encode" [suffix] (map VStr parts) h = Some (Err ERuntime).
Proof.
  intros Hs Hl. unfold call.
  change (exec e "netbios::name::encode" None [suffix] (map VStr parts) h)
    with (Some (nb_encode_fn [suffix] (map VStr parts) h)).
  unfold nb_encode_fn. rewrite Hs, join_extra_strs. cbn [obind]. unfold nb_pad.
  destruct (16 <? len (concat parts) + 1) eqn:E; [reflexivity|lia].
Qed.

(* ---------------- DHCP header ---------------- *)
Lemma slice_skip (a b : list N) off n k : length a = k -> slice (k + off) n (a ++ b) = slice off n b.
Proof. intros <-. unfold slice. rewrite skipn_app. rewrite skipn_all2 by lia. cbn [app]. do 2 f_equal. lia. Qed.
Lemma slice_take (a b : list N) n : length a = n -> slice 0 n (a ++ b) = a.
Proof. intros <-. unfold slice. cbn [skipn]. rewrite firstn_app, Nat.sub_diag, firstn_all. cbn [firstn]. apply app_nil_r. Qed.
Lemma skipn_seg (a b : list N) k m : length a = k -> skipn (k + m) (a ++ b) = skipn m b.
Proof. intros <-. rewrite skipn_app, skipn_all2 by lia. cbn [app]. f_equal. lia. Qed.

Lemma length_fixed_field w v : length (fixed_field w v) = w.
Proof.
  destruct v as [b|]; unfold fixed_field, zeros.
  - rewrite app_length, repeat_length. pose proof (firstn_le_length w b). lia.
  - apply repeat_length.
Qed.

Lemma firstn_repeat {A} (x : A) k : forall w, (k <= w)%nat -> firstn k (repeat x w) = repeat x k.
Proof. induction k as [|k IH]; intros w H; [reflexivity|]. destruct w; [lia|]. cbn [repeat firstn]. f_equal. apply IH. lia. Qed.

(** the model's fixed-width field is "the first w bytes of the value followed by zeros" *)
Lemma fixed_field_spec w v : fixed_field w v = fixed_width w (match v with Some b => b | None => [] end).
Proof.
  unfold fixed_field, fixed_width, zeros. destruct v as [b|].
  - rewrite firstn_app. f_equal. rewrite firstn_length. rewrite firstn_repeat by lia. f_equal. lia.
  - cbn [app]. rewrite firstn_repeat by lia. reflexivity.
Qed.

Lemma be_value_be16 v : v < 65536 -> be_value (be16 v) 0 = v.
Proof. intros H. unfold be16. cbn [be_value]. lia. Qed.
Lemma be_value_be32 v : v < 4294967296 -> be_value (be32 v) 0 = v.
Proof. intros H. unfold be32, be16. cbn [app be_value]. lia. Qed.
Lemma be_value_1 v : be_value [v] 0 = v.
Proof. cbn [be_value]. lia. Qed.

Definition optv (o : option bytes) : val := match o with Some b => VStr b | None => VNil end.
Definition optb (o : option bytes) : list N := match o with Some b => b | None => [] end.

Lemma conv_opt_optv o : conv_opt conv_buf (optv o) = Ok o.
Proof. destruct o; reflexivity. Qed.

Ltac seg_len a :=
  lazymatch a with
  | be32 _ => constr:(4%nat)
  | be16 _ => constr:(2%nat)
  | fixed_field ?w _ => constr:(w)
  | cons _ nil => constr:(1%nat)
  end.
Ltac seg_len_proof := first [reflexivity | apply length_fixed_field].
(** move a [slice off n (a ++ b)] past the segment [a], or take [a] when it is the field itself *)
Ltac slice_step :=
  match goal with
  | |- context [slice ?o ?n (?a ++ ?b)] =>
    let k := seg_len a in
    let ge := eval compute in (Nat.leb k o) in
    lazymatch ge with
    | true => let o' := eval compute in (o - k)%nat in
              replace (slice o n (a ++ b)) with (slice o' n b)
                by (symmetry; apply (slice_skip a b o' n k); seg_len_proof)
    | false => replace (slice o n (a ++ b)) with a by (symmetry; apply slice_take; seg_len_proof)
    end
  end.

Theorem dhcp_layout e vop op vht ht vhl hl vhp hp vxid xid ci yi si gi ch sn fl vmg mg rest h :
  conv_u8 vop = Ok op -> conv_u8 vht = Ok ht -> conv_u8 vhl = Ok hl -> conv_u8 vhp = Ok hp ->
  conv_u32 vxid = Ok xid -> conv_u32 vmg = Ok mg ->
  ci < 4294967296 -> yi < 4294967296 -> si < 4294967296 -> gi < 4294967296 ->
  exists out,
    call e "dhcp::hdr" [vop; vht; vhl; vhp; vxid; VIp4 ci; VIp4 yi; VIp4 si; VIp4 gi; optv ch; optv sn; optv fl; vmg] [] h
      = Some (Ok (VStr out, h))
    /\ len out = 240
    /\ parse_dhcp_header (out ++ rest)
       = Some ({| dh_op := op; dh_htype := ht; dh_hlen := hl; dh_hops := hp; dh_xid := xid; dh_secs := 0; dh_flags := 0;
                  dh_ciaddr := ci; dh_yiaddr := yi; dh_siaddr := si; dh_giaddr := gi;
                  dh_chaddr := fixed_width 16 (optb ch); dh_sname := fixed_width 64 (optb sn);
                  dh_file := fixed_width 128 (optb fl); dh_magic := mg |}, rest).
Proof.
  intros Hop Hht Hhl Hhp Hxid Hmg Lci Lyi Lsi Lgi. unfold call.
  change (exec e "dhcp::hdr" None [vop; vht; vhl; vhp; vxid; VIp4 ci; VIp4 yi; VIp4 si; VIp4 gi; optv ch; optv sn; optv fl; vmg] [] h)
    with (Some (dhcp_hdr_fn [vop; vht; vhl; vhp; vxid; VIp4 ci; VIp4 yi; VIp4 si; VIp4 gi; optv ch; optv sn; optv fl; vmg] [] h)).
  unfold dhcp_hdr_fn. rewrite Hop, Hht, Hhl, Hhp, Hxid, Hmg, !conv_opt_optv. cbn [obind conv_ip4].
  eexists. split; [reflexivity|].
  apply conv_u32_lt in Hxid, Hmg.
  assert (L : len (dhcp_hdr_bytes op ht hl hp xid ci yi si gi ch sn fl mg) = 240).
  { unfold dhcp_hdr_bytes, len. rewrite !app_length, !length_fixed_field. reflexivity. }
  split; [exact L|].
  unfold parse_dhcp_header. rewrite len_app, L. destruct (240 <=? 240 + len rest) eqn:E; [|lia].
  apply f_equal. apply (f_equal2 pair).
  - unfold field, dhcp_hdr_bytes. rewrite <- !app_assoc.
    change ([op; ht; hl; hp] ++ ?x) with ([op] ++ [ht] ++ [hl] ++ [hp] ++ x).
    repeat slice_step. rewrite !be_value_1, !be_value_be32 by assumption. rewrite !be_value_be16 by lia.
    rewrite !fixed_field_spec. reflexivity.
  - replace 240%nat with (N.to_nat (len (dhcp_hdr_bytes op ht hl hp xid ci yi si gi ch sn fl mg))) by (rewrite L; reflexivity).
    apply dropN_app_exact.
Qed.
