(** C16: dns::host.  The two DNS messages it builds parse completely with an independent RFC 1035
    decoder: same id, QR clear/set, the question echoes the name, ANCOUNT = number of addresses, each
    answer carries the name, the TTL and its address; they travel in opposite directions on one socket
    pair.  Also dns::question. *)
From RS Require Import Base.Bytes Base.Outcome Pkt.Hdrs Pkt.Packet Ez.Udp Interp.Val Lib.LibBase Lib.ProtoLib Lib.StdLib
  Spec.LenPrefix Spec.DnsParse Proofs.BytesLemmas Proofs.Tactics Proofs.C15.LenLemmas Proofs.C15.StdHelpers
  Proofs.C15.Tls Proofs.C16.Names Proofs.C16.Flags.
From Coq Require Import ZArith Lia ZifyBool ZifyNat ZifyN.
Ltac Zify.zify_post_hook ::= Z.div_mod_to_equations.
Open Scope N_scope.

Definition a_rr (ls : list (list N)) (ttl ip : N) : dns_rr :=
  {| rr_name := mk_name ls None; rr_type := 1; rr_class := 1; rr_ttl := ttl; rr_data := be32 ip |}.
Definition a_question (ls : list (list N)) : dns_question :=
  {| q_name := mk_name ls None; q_type := 1; q_class := 1 |}.

Definition query_header : dns_header :=
  {| dn_id := 4660; dn_flags := mk_flags false 0 false false true false false false false 0;
     dn_qdcount := 1; dn_ancount := 0; dn_nscount := 0; dn_arcount := 0 |}.
Definition response_header (n : N) : dns_header :=
  {| dn_id := 4660; dn_flags := mk_flags true 0 false false false true false false false 0;
     dn_qdcount := 1; dn_ancount := n; dn_nscount := 0; dn_arcount := 0 |}.

Definition host_query_msg (ls : list (list N)) : dns_message :=
  {| m_header := query_header; m_questions := [a_question ls]; m_answers := []; m_authority := []; m_additional := [] |}.
Definition host_response_msg (ls : list (list N)) (ttl : N) (ips : list N) : dns_message :=
  {| m_header := response_header (len ips); m_questions := [a_question ls]; m_answers := map (a_rr ls ttl) ips;
     m_authority := []; m_additional := [] |}.

Lemma parse_question_enc ls t c rest : Forall label_ok ls -> t < 65536 -> c < 65536 ->
  parse_question (dns_labels ls ++ [0] ++ be16 t ++ be16 c ++ rest)
  = Some ({| q_name := mk_name ls None; q_type := t; q_class := c |}, rest).
Proof.
  intros H Ht Hc. unfold parse_question. rewrite name_roundtrip by exact H.
  rewrite !parse_be16_enc by assumption. reflexivity.
Qed.

Lemma parse_rr_enc ls t c ttl data rest : Forall label_ok ls -> t < 65536 -> c < 65536 -> ttl < 4294967296 ->
  len data < 65536 ->
  parse_rr (dns_labels ls ++ [0] ++ be16 t ++ be16 c ++ be32 ttl ++ be16 (wrap16 (len data)) ++ data ++ rest)
  = Some ({| rr_name := mk_name ls None; rr_type := t; rr_class := c; rr_ttl := ttl; rr_data := data |}, rest).
Proof.
  intros H Ht Hc Hl Hd. unfold parse_rr. rewrite name_roundtrip by exact H.
  rewrite !parse_be16_enc by assumption. rewrite parse_be32_enc by assumption.
  rewrite parse_len_be16_enc by assumption. reflexivity.
Qed.

Lemma parse_host_rrs ls ttl ips rest : Forall label_ok ls -> ttl < 4294967296 ->
  parse_n parse_rr (length ips) (concat (map (dns_host_rr (dns_labels ls ++ [0]) ttl) ips) ++ rest)
  = Some (map (a_rr ls ttl) ips, rest).
Proof.
  intros H Ht. induction ips as [|ip r IH]; [reflexivity|].
  cbn [length map concat parse_n]. unfold dns_host_rr at 1. rewrite <- !app_assoc.
  change (be16 4) with (be16 (wrap16 (len (be32 ip)))).
  rewrite parse_rr_enc; try assumption; try lia; [|cbn; lia].
  rewrite IH. reflexivity.
Qed.

(** the two messages, as byte strings *)
Theorem host_messages ls ttl ips rest :
  ls <> [] -> Forall label_ok ls -> Forall dot_free ls -> ttl < 4294967296 -> len ips < 65536 ->
  let name := dns_name_from (join [46] ls) in
  parse_dns_message (dns_host_query name ++ rest) = Some (host_query_msg ls, rest)
  /\ parse_dns_message (dns_host_response name ttl (len ips) ips ++ rest) = Some (host_response_msg ls ttl ips, rest).
Proof.
  intros Hne Hl Hd Ht Hn. cbn zeta. rewrite name_from_dotted by assumption. split.
  - unfold parse_dns_message, dns_host_query, parse_dns_header, dns_hdr_bytes. rewrite <- !app_assoc.
    rewrite !parse_be16_enc by (vm_compute; reflexivity).
    cbn [dn_qdcount dn_ancount dn_nscount dn_arcount]. change (N.to_nat 1) with 1%nat. change (N.to_nat 0) with 0%nat.
    cbn [parse_n]. rewrite parse_question_enc by (try assumption; lia).
    unfold host_query_msg, query_header, a_question. reflexivity.
  - unfold parse_dns_message, dns_host_response, parse_dns_header, dns_hdr_bytes. rewrite <- !app_assoc.
    rewrite (parse_be16_enc 4660) by lia.
    rewrite (parse_be16_enc (dns_flags_word _ _ _ _ _ _ _ _ _ _)) by (vm_compute; reflexivity).
    rewrite !parse_be16_enc by lia.
    cbn [dn_qdcount dn_ancount dn_nscount dn_arcount]. change (N.to_nat 1) with 1%nat. change (N.to_nat 0) with 0%nat.
    cbn [parse_n]. rewrite parse_question_enc by (try assumption; lia).
    unfold len at 1. rewrite Nat2N.id. rewrite parse_host_rrs by assumption.
    unfold host_response_msg, response_header, a_question. reflexivity.
Qed.

(* ---------------- the datagrams carrying them ---------------- *)
Definition dgram_addr (d : udp_dgram) : (N * N) * (N * N) :=
  ((ip_src (ud_ip d), uh_sport (ud_udp d)), (ip_dst (ud_ip d), uh_dport (ud_udp d))).

(** robust against checked/wrapping variants of the arithmetic inside the builders *)
Ltac ok_chain :=
  repeat match goal with
         | |- context [obind (cadd ?a ?b ?c ?d) _] => destruct (cadd a b c d); cbn [obind]; try discriminate
         end.

Lemma udp_push_keeps d b d' : udp_push d b = Ok d' ->
  dgram_addr d' = dgram_addr d /\ ud_raw d' = ud_raw d /\ ud_payload d' = ud_payload d ++ b.
Proof.
  unfold udp_push. ok_chain. intros E. apply Ok_inj in E. subst d'.
  repeat split; reflexivity.
Qed.
Lemma udp_csum_keeps d d' : udp_csum d = Ok d' ->
  dgram_addr d' = dgram_addr d /\ ud_raw d' = ud_raw d /\ ud_payload d' = ud_payload d.
Proof.
  unfold udp_csum. ok_chain. intros E. apply Ok_inj in E. subst d'.
  repeat split; reflexivity.
Qed.

Lemma Some_inj {A} (a b : A) : Some a = Some b -> a = b.
Proof. congruence. Qed.

Lemma omapM_conv_ip4 ips : omapM conv_ip4 (map VIp4 ips) = Ok ips.
Proof. induction ips as [|i r IH]; [reflexivity|]. cbn [map omapM conv_ip4 obind]. rewrite IH. reflexivity. Qed.

Theorem host_decodes e cl ls vttl ttl ns raw ips h v h' :
  ls <> [] -> Forall label_ok ls -> Forall dot_free ls -> conv_u32 vttl = Ok ttl -> len ips < 65536 ->
  call e "dns::host" [VIp4 cl; VStr (join [46] ls); vttl; VIp4 ns; VBool raw] (map VIp4 ips) h = Some (Ok (v, h')) ->
  exists q r, v = VPktGen [udp_packet q; udp_packet r] /\ h' = h
    /\ dgram_addr q = ((cl, 32768), (ns, 53)) /\ dgram_addr r = ((ns, 53), (cl, 32768))
    /\ ud_raw q = raw /\ ud_raw r = raw
    /\ parse_dns_message (ud_payload q) = Some (host_query_msg ls, [])
    /\ parse_dns_message (ud_payload r) = Some (host_response_msg ls ttl ips, []).
Proof.
  intros Hne Hl Hd Httl Hn. pose proof (conv_u32_lt _ _ Httl) as Lt. unfold call.
  change (exec e "dns::host" None [VIp4 cl; VStr (join [46] ls); vttl; VIp4 ns; VBool raw] (map VIp4 ips) h)
    with (Some (dns_host_fn [VIp4 cl; VStr (join [46] ls); vttl; VIp4 ns; VBool raw] (map VIp4 ips) h)).
  unfold dns_host_fn. rewrite Httl. cbn [conv_ip4 conv_buf conv_bool obind].
  set (name := dns_name_from (join [46] ls)).
  set (flow := {| uf_cl := (cl, 32768); uf_sv := (ns, 53); uf_raw := raw |}).
  destruct (uflow_client_dgram flow (dns_host_query name)) as [d1| | |] eqn:E1; cbn [obind]; try discriminate.
  destruct (udp_csum d1) as [d1c| | |] eqn:C1; cbn [obind]; try discriminate.
  rewrite omapM_conv_ip4. cbn [obind].
  destruct (uflow_server_dgram flow _) as [d2| | |] eqn:E2; cbn [obind]; try discriminate.
  destruct (udp_csum d2) as [d2c| | |] eqn:C2; cbn [obind]; try discriminate.
  intros E. apply Some_inj in E. ok_inv E.
  exists d1c, d2c. split; [reflexivity|]. split; [reflexivity|].
  unfold uflow_client_dgram in E1. unfold uflow_server_dgram in E2.
  apply udp_push_keeps in E1, E2. apply udp_csum_keeps in C1, C2.
  destruct E1 as (A1 & R1 & P1), E2 as (A2 & R2 & P2), C1 as (A1c & R1c & P1c), C2 as (A2c & R2c & P2c).
  rewrite A1c, A1, A2c, A2, R1c, R1, R2c, R2, P1c, P1, P2c, P2.
  split; [reflexivity|]. split; [reflexivity|]. split; [reflexivity|]. split; [reflexivity|].
  cbn [app]. replace (wrap16 (len (map VIp4 ips))) with (len ips).
  2:{ rewrite len_map. unfold wrap16. rewrite N.mod_small by lia. reflexivity. }
  destruct (host_messages ls ttl ips [] Hne Hl Hd Lt Hn) as (Q & R). cbn zeta in Q, R. rewrite !app_nil_r in Q, R.
  split; assumption.
Qed.

(** dns::question, given a name built by dns::name *)
Theorem question_roundtrip e ls qtype t qclass c rest h :
  Forall label_ok ls -> conv_u16 qtype = Ok t -> conv_u16 qclass = Ok c ->
  exists out, call e "dns::question" [VStr (dns_labels ls ++ [0]); qtype; qclass] [] h = Some (Ok (VStr out, h))
              /\ parse_question (out ++ rest) = Some ({| q_name := mk_name ls None; q_type := t; q_class := c |}, rest).
Proof.
  intros H Ht Hc. unfold call.
  change (exec e "dns::question" None [VStr (dns_labels ls ++ [0]); qtype; qclass] [] h)
    with (Some (dns_question_fn [VStr (dns_labels ls ++ [0]); qtype; qclass] [] h)).
  unfold dns_question_fn. rewrite Ht, Hc. cbn [conv_buf obind]. eexists. split; [reflexivity|].
  apply conv_u16_lt in Ht, Hc. rewrite <- !app_assoc.
  apply parse_question_enc; assumption.
Qed.
