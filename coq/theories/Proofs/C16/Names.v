(** C16: DNS names.  Labels of 1..63 bytes encode as RFC 1035 label sequences which the independent
    name parser reads back; compression pointers carry their offset; DnsName::from splits at dots. *)
From RS Require Import Base.Bytes Base.Outcome Interp.Val Lib.LibBase Lib.ProtoLib Lib.StdLib
  Spec.LenPrefix Spec.DnsParse Proofs.BytesLemmas Proofs.Tactics Proofs.C15.LenLemmas Proofs.C15.StdHelpers.
From Coq Require Import ZArith Lia ZifyBool ZifyNat ZifyN.
Ltac Zify.zify_post_hook ::= Z.div_mod_to_equations.
Open Scope N_scope.

Definition label_ok (l : list N) : Prop := 1 <= len l /\ len l <= 63.
Definition dot_free (l : list N) : Prop := Forall (fun c => c <> 46) l.

Definition mk_name (ls : list (list N)) (p : option N) : dns_name := {| nm_labels := ls; nm_pointer := p |}.

Lemma parse_name_fuel_labels ls tail : Forall label_ok ls -> forall k,
  parse_name_fuel (length ls + k) (dns_labels ls ++ tail)
  = match parse_name_fuel k tail with
    | Some (n, rest) => Some (mk_name (ls ++ nm_labels n) (nm_pointer n), rest)
    | None => None
    end.
Proof.
  induction 1 as [|l r Hl Hr IH]; intros k.
  - cbn [length Nat.add dns_labels map concat app]. destruct (parse_name_fuel k tail) as [(n, rest)|]; [|reflexivity].
    destruct n; reflexivity.
  - destruct Hl as (H1 & H2). unfold dns_labels in *. cbn [length Nat.add map concat]. unfold dns_label at 1.
    rewrite <- app_assoc. cbn [app parse_name_fuel]. unfold wrap8. rewrite N.mod_small by lia.
    destruct (len l =? 0) eqn:E0; [lia|]. destruct (len l <? 64) eqn:E1; [|lia].
    rewrite take_exact_app, IH.
    destruct (parse_name_fuel k tail) as [(n, rest)|]; reflexivity.
Qed.

Lemma length_dns_labels ls : (length ls <= length (dns_labels ls))%nat.
Proof.
  induction ls as [|l r IH]; [cbn; lia|]. unfold dns_labels in *. cbn [map concat length]. rewrite app_length.
  unfold dns_label at 1. cbn [length]. lia.
Qed.

(** names finished by the zero octet *)
Theorem name_roundtrip ls rest : Forall label_ok ls ->
  parse_name (dns_labels ls ++ [0] ++ rest) = Some (mk_name ls None, rest).
Proof.
  intros H. unfold parse_name. rewrite app_length. cbn [app length].
  pose proof (length_dns_labels ls) as L. unfold bytes in *.
  replace (length (dns_labels ls) + S (length rest))%nat
    with (length ls + S (length (dns_labels ls) - length ls + length rest))%nat by lia.
  rewrite parse_name_fuel_labels by exact H. cbn [parse_name_fuel]. change (0 =? 0) with true. cbn iota.
  cbn [nm_labels nm_pointer]. rewrite app_nil_r. reflexivity.
Qed.

(* ---------------- compression pointers ---------------- *)
Lemma lor_192_table : forallb (fun x => N.lor 192 x =? 192 + x) (map N.of_nat (seq 0 64)) = true.
Proof. vm_compute. reflexivity. Qed.
Lemma lor_192 x : x < 64 -> N.lor 192 x = 192 + x.
Proof.
  intros H. pose proof lor_192_table as T. rewrite forallb_forall in T. apply N.eqb_eq, T.
  apply in_map_iff. exists (N.to_nat x). split; [lia|]. apply in_seq. lia.
Qed.

Lemma parse_pointer_fuel k off rest : off < 16384 ->
  parse_name_fuel (S k) (dns_pointer off ++ rest) = Some (mk_name [] (Some off), rest).
Proof.
  intros H. unfold dns_pointer, wrap8. cbn [app parse_name_fuel]. rewrite (N.mod_small (off / 256)) by lia.
  rewrite lor_192 by lia.
  destruct (192 + off / 256 =? 0) eqn:E0; [lia|]. destruct (192 + off / 256 <? 64) eqn:E1; [lia|].
  destruct ((192 <=? 192 + off / 256) && (192 + off / 256 <? 256)) eqn:E2; [|lia].
  unfold mk_name. do 4 f_equal. lia.
Qed.

(** a pointer carries its 14-bit offset *)
Theorem pointer_offset off rest : off < 16384 ->
  parse_name (dns_pointer off ++ rest) = Some (mk_name [] (Some off), rest).
Proof. intros H. unfold parse_name. unfold dns_pointer at 1. cbn [app length]. apply parse_pointer_fuel, H. Qed.

(** labels followed by a pointer: the usual compressed form *)
Theorem name_then_pointer ls off rest : Forall label_ok ls -> off < 16384 ->
  parse_name (dns_labels ls ++ dns_pointer off ++ rest) = Some (mk_name ls (Some off), rest).
Proof.
  intros H Ho. unfold parse_name. rewrite app_length. unfold dns_pointer at 1. cbn [app length].
  pose proof (length_dns_labels ls) as L. unfold bytes in *.
  replace (length (dns_labels ls) + S (S (length rest)))%nat
    with (length ls + S (length (dns_labels ls) - length ls + S (length rest)))%nat by lia.
  rewrite parse_name_fuel_labels by exact H.
  change (N.lor 192 (wrap8 (off / 256)) :: off mod 256 :: rest) with (dns_pointer off ++ rest).
  rewrite parse_pointer_fuel by exact Ho. cbn [nm_labels nm_pointer mk_name]. rewrite app_nil_r. reflexivity.
Qed.

(* ---------------- DnsName::from: splitting at dots ---------------- *)
Lemma split_dot_aux_free l cur : dot_free l -> split_dot_aux l cur = [rev cur ++ l].
Proof.
  revert cur. induction l as [|c r IH]; intros cur H.
  - cbn. now rewrite app_nil_r.
  - inversion H as [|? ? Hc Hr]; subst. cbn [split_dot_aux]. destruct (c =? 46) eqn:E; [lia|].
    rewrite IH by exact Hr. cbn [rev]. rewrite <- app_assoc. reflexivity.
Qed.

Lemma split_dot_aux_dot l r cur : dot_free l ->
  split_dot_aux (l ++ 46 :: r) cur = (rev cur ++ l) :: split_dot_aux r [].
Proof.
  revert cur. induction l as [|c l' IH]; intros cur H.
  - cbn [app split_dot_aux]. change (46 =? 46) with true. cbn iota. now rewrite app_nil_r.
  - inversion H as [|? ? Hc Hr]; subst. cbn [app split_dot_aux]. destruct (c =? 46) eqn:E; [lia|].
    rewrite IH by exact Hr. cbn [rev]. rewrite <- app_assoc. reflexivity.
Qed.

Lemma split_dot_join ls : ls <> [] -> Forall dot_free ls -> split_dot (join [46] ls) = ls.
Proof.
  intros Hne H. induction H as [|l r Hl Hr IH]; [congruence|].
  destruct r as [|l2 r'].
  - cbn [join]. unfold split_dot. rewrite split_dot_aux_free by exact Hl. reflexivity.
  - cbn [join]. unfold split_dot. cbn [app]. rewrite split_dot_aux_dot by exact Hl. cbn [rev app].
    f_equal. apply IH. discriminate.
Qed.

(** the dotted spelling of a name made of non-empty dot-free labels encodes as its label sequence *)
Theorem name_from_dotted ls : ls <> [] -> Forall dot_free ls ->
  dns_name_from (join [46] ls) = dns_labels ls ++ [0].
Proof. intros H1 H2. unfold dns_name_from. rewrite split_dot_join by assumption. reflexivity. Qed.

(* ---------------- dns::name and dns::pointer as called ---------------- *)
Theorem dns_name_fn_roundtrip e ls rest h : Forall label_ok ls ->
  (* no argument: the root *)
  (exists out, call e "dns::name" [VBool true] [] h = Some (Ok (VStr out, h))
               /\ parse_name (out ++ rest) = Some (mk_name [] None, rest))
  (* one argument: a dotted name *)
  /\ (ls <> [] -> Forall dot_free ls ->
      exists out, call e "dns::name" [VBool true] [VStr (join [46] ls)] h = Some (Ok (VStr out, h))
                  /\ parse_name (out ++ rest) = Some (mk_name ls None, rest))
  (* two or more arguments: one label each *)
  /\ ((2 <= length ls)%nat ->
      exists out, call e "dns::name" [VBool true] (map VStr ls) h = Some (Ok (VStr out, h))
                  /\ parse_name (out ++ rest) = Some (mk_name ls None, rest))
  (* incomplete: labels only, to be followed by a pointer (or by more labels) *)
  /\ (forall off, off < 16384 ->
      exists out ptr, call e "dns::name" [VBool false] (map VStr ls) h = Some (Ok (VStr out, h))
                  /\ call e "dns::pointer" [VU16 off] [] h = Some (Ok (VStr ptr, h))
                  /\ parse_name (out ++ ptr ++ rest) = Some (mk_name ls (Some off), rest)).
Proof.
  intros H. unfold call.
  assert (X : forall a x, exec e "dns::name" None a x h = Some (dns_name_fn a x h)) by reflexivity.
  assert (Y : forall a x, exec e "dns::pointer" None a x h = Some (dns_pointer_fn a x h)) by reflexivity.
  split; [|split; [|split]].
  - rewrite X. eexists. split; [reflexivity|]. apply (name_roundtrip [] rest). constructor.
  - intros Hne Hd. rewrite X. unfold dns_name_fn. cbn [conv_bool obind omapM conv_buf].
    eexists. split; [reflexivity|]. rewrite name_from_dotted by assumption. rewrite <- app_assoc.
    apply name_roundtrip, H.
  - intros H2. rewrite X. unfold dns_name_fn. cbn [conv_bool obind]. rewrite omapM_conv_buf_strs. cbn [obind].
    destruct ls as [|a [|b r]]; cbn [length] in H2; try lia.
    eexists. split; [reflexivity|]. rewrite <- app_assoc. apply name_roundtrip, H.
  - intros off Ho. rewrite X, Y. unfold dns_name_fn, dns_pointer_fn. cbn [conv_bool obind]. rewrite omapM_conv_buf_strs.
    unfold conv_u16, omap, wrap16. cbn [conv_int obind]. rewrite N.mod_small by lia.
    eexists. eexists. split; [reflexivity|]. split; [reflexivity|]. apply name_then_pointer; assumption.
Qed.
