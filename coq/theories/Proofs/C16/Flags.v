(** C16: the flag helpers set exactly the bits and the opcode/rcode fields named.  The domain is finite
    (2^8 flag combinations x 16 opcodes x 16 rcodes): checked exhaustively inside Coq. *)
From RS Require Import Base.Bytes Base.Outcome Interp.Val Lib.LibBase Lib.ProtoLib Lib.StdLib
  Spec.LenPrefix Spec.DnsParse Proofs.BytesLemmas Proofs.Tactics Proofs.C15.LenLemmas Proofs.C15.StdHelpers Proofs.C15.Tls.
From Coq Require Import ZArith Lia ZifyBool ZifyNat ZifyN.
Ltac Zify.zify_post_hook ::= Z.div_mod_to_equations.
Open Scope N_scope.

Definition flags_eqb (a b : dns_flags) : bool :=
  Bool.eqb (fl_qr a) (fl_qr b) && (fl_opcode a =? fl_opcode b) && Bool.eqb (fl_aa a) (fl_aa b)
  && Bool.eqb (fl_tc a) (fl_tc b) && Bool.eqb (fl_rd a) (fl_rd b) && Bool.eqb (fl_ra a) (fl_ra b)
  && Bool.eqb (fl_z a) (fl_z b) && Bool.eqb (fl_ad a) (fl_ad b) && Bool.eqb (fl_cd a) (fl_cd b)
  && (fl_rcode a =? fl_rcode b).

Lemma flags_eqb_eq a b : flags_eqb a b = true -> a = b.
Proof.
  unfold flags_eqb. intros H. repeat (apply andb_prop in H; destruct H as (H & ?)).
  destruct a as [a1 a2 a3 a4 a5 a6 a7 a8 a9 a10], b as [b1 b2 b3 b4 b5 b6 b7 b8 b9 b10]. cbn [fl_qr fl_opcode fl_aa fl_tc fl_rd fl_ra fl_z fl_ad fl_cd fl_rcode] in *.
  repeat match goal with E : Bool.eqb _ _ = true |- _ => apply Bool.eqb_prop in E end.
  repeat match goal with E : (_ =? _) = true |- _ => apply N.eqb_eq in E end.
  subst. reflexivity.
Qed.

Definition mk_flags r oc aa tc rd ra z ad cd rc : dns_flags :=
  {| fl_qr := r; fl_opcode := oc; fl_aa := aa; fl_tc := tc; fl_rd := rd; fl_ra := ra; fl_z := z; fl_ad := ad;
     fl_cd := cd; fl_rcode := rc |}.

Definition bools : list bool := [true; false].
Definition nibbles : list N := map N.of_nat (seq 0 16).

Definition flags_case_ok r oc aa tc rd ra z ad cd rc : bool :=
  let w := dns_flags_word r oc aa tc rd ra z ad cd rc in
  flags_eqb (decode_flags w) (mk_flags r oc aa tc rd ra z ad cd rc) && (w <? 65536).

Lemma flags_table :
  forallb (fun r => forallb (fun aa => forallb (fun tc => forallb (fun rd => forallb (fun ra =>
  forallb (fun z => forallb (fun ad => forallb (fun cd => forallb (fun oc => forallb (fun rc =>
    flags_case_ok r oc aa tc rd ra z ad cd rc) nibbles) nibbles) bools) bools) bools) bools) bools) bools) bools) bools
  = true.
Proof. vm_compute. reflexivity. Qed.

Lemma in_bools b : In b bools. Proof. destruct b; cbn; tauto. Qed.
Lemma in_nibbles x : x < 16 -> In x nibbles.
Proof. intros H. apply in_map_iff. exists (N.to_nat x). split; [lia|]. apply in_seq. lia. Qed.

Lemma flags_small r oc aa tc rd ra z ad cd rc : oc < 16 -> rc < 16 ->
  decode_flags (dns_flags_word r oc aa tc rd ra z ad cd rc) = mk_flags r oc aa tc rd ra z ad cd rc
  /\ dns_flags_word r oc aa tc rd ra z ad cd rc < 65536.
Proof.
  intros Ho Hr. pose proof flags_table as T.
  rewrite forallb_forall in T. specialize (T r (in_bools r)).
  rewrite forallb_forall in T. specialize (T aa (in_bools aa)).
  rewrite forallb_forall in T. specialize (T tc (in_bools tc)).
  rewrite forallb_forall in T. specialize (T rd (in_bools rd)).
  rewrite forallb_forall in T. specialize (T ra (in_bools ra)).
  rewrite forallb_forall in T. specialize (T z (in_bools z)).
  rewrite forallb_forall in T. specialize (T ad (in_bools ad)).
  rewrite forallb_forall in T. specialize (T cd (in_bools cd)).
  rewrite forallb_forall in T. specialize (T oc (in_nibbles oc Ho)).
  rewrite forallb_forall in T. specialize (T rc (in_nibbles rc Hr)).
  unfold flags_case_ok in T. apply andb_prop in T. destruct T as (T1 & T2).
  split; [apply flags_eqb_eq, T1|apply N.ltb_lt, T2].
Qed.

Lemma land_15 x : N.land x 15 = x mod 16.
Proof. change 15 with (N.ones 4). rewrite N.land_ones. reflexivity. Qed.

Lemma flags_word_masks r oc aa tc rd ra z ad cd rc :
  dns_flags_word r oc aa tc rd ra z ad cd rc = dns_flags_word r (oc mod 16) aa tc rd ra z ad cd (rc mod 16).
Proof. unfold dns_flags_word. rewrite !land_15. rewrite !N.mod_mod by lia. reflexivity. Qed.

(** every combination: the ten named fields decode back, opcode and rcode reduced to their 4 bits *)
Theorem flags_bits r oc aa tc rd ra z ad cd rc :
  decode_flags (dns_flags_word r oc aa tc rd ra z ad cd rc)
  = mk_flags r (oc mod 16) aa tc rd ra z ad cd (rc mod 16)
  /\ dns_flags_word r oc aa tc rd ra z ad cd rc < 65536.
Proof. rewrite flags_word_masks. apply flags_small; lia. Qed.

(** dns::flags and netbios::ns::flags as called (argument order: opcode, response, aa, tc, rd, ra, z,
    ad, cd -- called b by NetBIOS --, rcode) *)
Theorem flags_fn_bits e key opcode oc r aa tc rd ra z ad cd rcode rc h :
  key = "dns::flags"%string \/ key = "netbios::ns::flags"%string ->
  conv_u8 opcode = Ok oc -> conv_u8 rcode = Ok rc ->
  exists w, call e key [opcode; VBool r; VBool aa; VBool tc; VBool rd; VBool ra; VBool z; VBool ad; VBool cd; rcode] [] h
            = Some (Ok (VU16 w, h))
            /\ w < 65536
            /\ decode_flags w = mk_flags r (oc mod 16) aa tc rd ra z ad cd (rc mod 16).
Proof.
  intros Hk Ho Hr. unfold call.
  assert (X : exec e key None [opcode; VBool r; VBool aa; VBool tc; VBool rd; VBool ra; VBool z; VBool ad; VBool cd; rcode] [] h
              = Some (dns_flags_fn [opcode; VBool r; VBool aa; VBool tc; VBool rd; VBool ra; VBool z; VBool ad; VBool cd; rcode] [] h)).
  { destruct Hk; subst key; reflexivity. }
  rewrite X. unfold dns_flags_fn. rewrite Ho, Hr. cbn [obind conv_bool].
  eexists. split; [reflexivity|]. destruct (flags_bits r oc aa tc rd ra z ad cd rc) as (A & B). split; assumption.
Qed.

(** the header helper: six big-endian 16-bit fields; the flag word is read back field by field *)
Theorem dns_hdr_roundtrip e vid id vfl w vqd qd van an vns ns var ar rest h :
  conv_u16 vid = Ok id -> conv_u16 vfl = Ok w -> conv_u16 vqd = Ok qd -> conv_u16 van = Ok an ->
  conv_u16 vns = Ok ns -> conv_u16 var = Ok ar ->
  exists out, call e "dns::hdr" [vid; vfl; vqd; van; vns; var] [] h = Some (Ok (VStr out, h))
              /\ parse_dns_header (out ++ rest)
                 = Some ({| dn_id := id; dn_flags := decode_flags w; dn_qdcount := qd; dn_ancount := an;
                            dn_nscount := ns; dn_arcount := ar |}, rest).
Proof.
  intros H1 H2 H3 H4 H5 H6. unfold call.
  change (exec e "dns::hdr" None [vid; vfl; vqd; van; vns; var] [] h)
    with (Some (dns_hdr_fn [vid; vfl; vqd; van; vns; var] [] h)).
  unfold dns_hdr_fn. rewrite H1, H2, H3, H4, H5, H6. cbn [obind]. eexists. split; [reflexivity|].
  apply conv_u16_lt in H1, H2, H3, H4, H5, H6.
  unfold parse_dns_header, dns_hdr_bytes. rewrite <- !app_assoc.
  rewrite !parse_be16_enc by assumption. reflexivity.
Qed.
