(** Evaluation of an expression never touches the clock, the output, the registers or the imports:
    only an expression *statement* writes packets (C01, C12, C14). *)
From RS Require Import Base.Bytes Base.Outcome Bind.Types Bind.Binder Pkt.Packet Pkt.Pcap Interp.Val Interp.Ast
  Interp.Eval Lib.LibBase Proofs.Tactics.
Open Scope N_scope.

Section ExprInd.
  Variable P : expr -> Prop.
  Hypothesis Hnil : P ENil.
  Hypothesis Hlit : forall l v, P (ELit l v).
  Hypothesis Href : forall l ms cs, P (ERef l ms cs).
  Hypothesis Hcall : forall l ms cs args, Forall (fun a => P (snd a)) args -> P (ECall l ms cs args).
  Hypothesis Hslash : forall a b, P a -> P b -> P (ESlash a b).

  Fixpoint expr_ind' (e : expr) : P e :=
    match e with
    | ENil => Hnil
    | ELit l v => Hlit l v
    | ERef l ms cs => Href l ms cs
    | ECall l ms cs args =>
      Hcall l ms cs args
        ((fix go (l : list (option string * expr)) : Forall (fun a => P (snd a)) l :=
            match l with
            | [] => Forall_nil _
            | a :: r => Forall_cons a (expr_ind' (snd a)) (go r)
            end) args)
    | ESlash a b => Hslash a b (expr_ind' a) (expr_ind' b)
    end.
End ExprInd.

(** the part of the state that only statements may change *)
Definition same_io (p p' : prog) : Prop :=
  p_now p' = p_now p /\ p_out p' = p_out p /\ p_regs p' = p_regs p /\ p_imports p' = p_imports p
  /\ p_warnings p' = p_warnings p.

Lemma same_io_refl p : same_io p p. Proof. repeat split. Qed.
Lemma same_io_trans a b c : same_io a b -> same_io b c -> same_io a c.
Proof. unfold same_io. intuition congruence. Qed.
Lemma same_io_set_loc p l : same_io p (set_loc p l). Proof. repeat split. Qed.
Lemma same_io_set_heap p h : same_io p (set_heap p h). Proof. repeat split. Qed.
Lemma same_io_add_trace p k : same_io p (add_trace p k). Proof. repeat split. Qed.

Lemma lift_ok {A} p (x : outcome A) v p' : lift p x = ROk v p' -> p' = p /\ x = Ok v.
Proof. destruct x; cbn; intros E; inversion E; subst; split; reflexivity. Qed.

Section Preserve.
Variable functions : list funcdef.
Variable classes : list (string * list (string * string)).
Variable modules : list (string * list (string * symbol)).
Variable exec : string -> option nat -> list val -> list val -> heap -> option libres.

Notation eval := (eval functions classes modules exec).
Notation call := (call functions exec).

Lemma call_same_io p key this args v p' : call p key this args = ROk v p' -> same_io p p'.
Proof.
  unfold Eval.call. destruct (find_func functions key) as [f|]; [|discriminate].
  destruct (argvec _ _ _ f args) as [[slots extra]| | |]; cbn [lift rbind]; try discriminate.
  destruct (exec key this slots extra (p_heap p)) as [r|]; [|discriminate].
  destruct r as [[v0 h]| | |]; cbn [lift rbind]; try discriminate.
  destruct (vtype_eqb _ _); intros E; inversion E; subst.
  eapply same_io_trans; [apply same_io_add_trace|apply same_io_set_heap].
Qed.

Theorem eval_same_io e : forall p v p', eval p e = ROk v p' -> same_io p p'.
Proof.
  induction e as [|l v0|l ms cs|l ms cs args IH|a b IHa IHb] using expr_ind'; intros p v p' E.
  - cbn in E. inversion E; subst. apply same_io_refl.
  - cbn in E. inversion E; subst. apply same_io_set_loc.
  - cbn in E. apply lift_ok in E as (-> & _). apply same_io_set_loc.
  - cbn [Eval.eval] in E.
    destruct (eval_obj_ref classes modules (set_loc p l) ms cs) as [callee| | |]; cbn [lift rbind] in E; try discriminate.
    (* the argument loop *)
    assert (Hargs : forall (q : prog) vs q',
      (fix eval_args (p0 : prog) (l0 : list (option string * expr)) {struct l0} : res (list (option string * val)) :=
         match l0 with
         | [] => ROk [] p0
         | (n, a) :: r => rbind (eval p0 a) (fun v1 p1 => rbind (eval_args p1 r) (fun vs1 p2 => ROk ((n, v1) :: vs1) p2))
         end) q args = ROk vs q' -> same_io q q').
    { clear E. induction args as [|[n a] r IHr]; intros q vs q' Ea.
      - inversion Ea; subst. apply same_io_refl.
      - inversion IH as [|? ? Ha Hr]; subst. cbn [snd] in Ha.
        destruct (eval q a) as [v1 q1| |] eqn:E1; cbn [rbind] in Ea; try discriminate.
        match type of Ea with rbind ?X _ = _ => destruct X as [vs1 q2| |] eqn:E2 end; cbn [rbind] in Ea; try discriminate.
        inversion Ea; subst.
        eapply same_io_trans; [eapply Ha; exact E1|eapply IHr; [exact Hr|exact E2]]. }
    destruct callee; try discriminate.
    + match type of E with rbind ?X _ = _ => destruct X as [vs q| |] eqn:Ea end; cbn [rbind] in E; try discriminate.
      eapply same_io_trans; [apply same_io_set_loc|]. eapply same_io_trans; [eapply Hargs; exact Ea|eapply call_same_io; exact E].
    + match type of E with rbind ?X _ = _ => destruct X as [vs q| |] eqn:Ea end; cbn [rbind] in E; try discriminate.
      eapply same_io_trans; [apply same_io_set_loc|]. eapply same_io_trans; [eapply Hargs; exact Ea|eapply call_same_io; exact E].
  - cbn [Eval.eval] in E.
    destruct (eval p a) as [va p1| |] eqn:Ea; cbn [rbind] in E; try discriminate.
    destruct (negb (vtype_eqb (val_type va) TIp4)); [discriminate|].
    destruct (eval p1 b) as [vb p2| |] eqn:Eb; cbn [rbind] in E; try discriminate.
    destruct (negb (is_integral (val_type vb))); [discriminate|].
    destruct (conv_ip4 va) as [ip| | |]; cbn [lift rbind] in E; try discriminate.
    destruct (conv_int vb) as [port| | |]; cbn [lift rbind] in E; try discriminate.
    destruct (65535 <? port); inversion E; subst.
    eapply same_io_trans; [eapply IHa; exact Ea|]. eapply same_io_trans; [eapply IHb; exact Eb|apply same_io_set_loc].
Qed.

End Preserve.
