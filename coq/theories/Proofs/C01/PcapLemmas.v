(** The pcap reader inverts the writer. *)
From RS Require Import Base.Bytes Base.Outcome Pkt.Packet Pkt.Pcap Spec.Timeline Spec.PcapRead Proofs.BytesLemmas.
From Coq Require Import ZArith Lia ZifyBool ZifyNat ZifyN.
Ltac Zify.zify_post_hook ::= Z.div_mod_to_equations.
Open Scope N_scope.

Lemma rd_le32_le32 x r : x < 4294967296 -> rd_le32 (le32 x ++ r) = Some (x, r).
Proof.
  intros Hx. rewrite le32_unfold. cbn [app rd_le32]. f_equal. f_equal. lia.
Qed.

Lemma rd_le16_le16 x r : x < 65536 -> rd_le16 (le16 x ++ r) = Some (x, r).
Proof.
  intros Hx. rewrite le16_unfold. cbn [app rd_le16]. f_equal. f_equal. lia.
Qed.

(** abstract record denoted by (time, frame) *)
Definition abs_rec (r : N * bytes) : pcap_rec :=
  {| r_sec := ts_to_secs (fst r); r_nsec := ts_to_nsecs (fst r);
     r_caplen := len (snd r); r_len := len (snd r); r_frame := snd r |}.

Definition rec_ok (r : N * bytes) : Prop := len (snd r) < 4294967296.

Lemma wrap32_lt x : wrap32 x < 4294967296.
Proof. unfold wrap32. lia. Qed.

Lemma wrap32_id x : x < 4294967296 -> wrap32 x = x.
Proof. unfold wrap32. intros. apply N.mod_small. lia. Qed.

Lemma rec_bytes_length r : (16 <= length (rec_bytes r))%nat.
Proof. unfold rec_bytes, pcap_rec_hdr. rewrite !app_length, !length_le32. lia. Qed.

Lemma read_records_app fuel recs :
  Forall rec_ok recs ->
  (length (concat (map rec_bytes recs)) <= fuel)%nat ->
  read_records fuel (concat (map rec_bytes recs)) = Some (map abs_rec recs).
Proof.
  revert fuel. induction recs as [|r recs IH]; intros fuel Hok Hfuel.
  - destruct fuel; reflexivity.
  - inversion Hok as [|? ? Hr Hrest]; subst.
    cbn [map concat] in *.
    pose proof (rec_bytes_length r) as Hlen.
    rewrite app_length in Hfuel.
    destruct fuel as [|fuel]; [lia|].
    unfold rec_bytes at 1. unfold pcap_rec_hdr.
    cbn [read_records].
    destruct (( le32 (ts_to_secs (fst r)) ++ le32 (ts_to_nsecs (fst r)) ++ le32 (wrap32 (len (snd r))) ++ le32 (wrap32 (len (snd r)))) ++ snd r) eqn:E.
    { exfalso. apply (f_equal (@length _)) in E. rewrite !app_length, !length_le32 in E. cbn in E. lia. }
    rewrite <- E. clear E.
    rewrite <- !app_assoc.
    rewrite rd_le32_le32 by apply wrap32_lt.
    rewrite rd_le32_le32 by apply wrap32_lt.
    rewrite rd_le32_le32 by apply wrap32_lt.
    rewrite rd_le32_le32 by apply wrap32_lt.
    unfold rec_ok in Hr. rewrite (wrap32_id _ Hr).
    rewrite len_app.
    replace (len (snd r) + len (concat (map rec_bytes recs)) <? len (snd r)) with false by lia.
    rewrite dropN_app_exact, takeN_app_exact.
    rewrite IH; [reflexivity | assumption | lia].
Qed.

Theorem pcap_read_file recs :
  Forall rec_ok recs -> pcap_read (file_of recs) = Some (map abs_rec recs).
Proof.
  intros Hok. unfold file_of, pcap_ghdr, pcap_read.
  rewrite <- !app_assoc.
  rewrite rd_le32_le32 by lia.
  rewrite rd_le16_le16 by lia.
  rewrite rd_le16_le16 by lia.
  rewrite rd_le32_le32 by lia.
  rewrite rd_le32_le32 by lia.
  rewrite rd_le32_le32 by lia.
  rewrite rd_le32_le32 by lia.
  cbn [N.eqb andb].
  replace ((2712812621 =? 2712812621) && (2 =? 2) && (4 =? 4) && (1 =? 1)) with true by reflexivity.
  apply read_records_app; [assumption | lia].
Qed.
