(** C01, second generation, part 3: let-bound packets at the level of the file.

    [let x = e;] writes nothing; every later statement [x;] -- any number of them, anywhere, whatever
    ran in between -- contributes exactly the value [e] had at the [let], at the position of that
    statement; nothing else of the [let] ever reaches the file.  For any library. *)
From RS Require Import Base.Bytes Base.Outcome Bind.Types Bind.Binder Pkt.Packet Pkt.Pcap
  Interp.Val Interp.Ast Interp.Eval Lib.LibBase Spec.Timeline Spec.PcapRead.
From RS.Proofs.C12 Require Import TimelineProofs ProgramShift.
From RS.Proofs.C14 Require Import Basics Env Emit.
From RS Require Import Proofs.BytesLemmas Proofs.C01.PcapLemmas Proofs.C01.EvalPreserves Proofs.C01.Program
  Proofs.C01.SrcRun.
Open Scope list_scope.
Open Scope N_scope.

(** the expressions of the expression statements of a program, in order *)
Fixpoint exprs_of (ss : list stmt) : list expr :=
  match ss with
  | [] => []
  | SExpr e :: r => e :: exprs_of r
  | _ :: r => exprs_of r
  end.

Lemma exprs_of_app a b : exprs_of (a ++ b) = exprs_of a ++ exprs_of b.
Proof. induction a as [|[| |e] a IH]; cbn [app exprs_of]; rewrite ?IH; reflexivity. Qed.

(** the statement [x;] *)
Definition use (x : string) (l : loc) : stmt := SExpr (ERef l [] [x]).

Lemma exprs_of_uses x ls : exprs_of (map (use x) ls) = map (fun l => ERef l [] [x]) ls.
Proof. induction ls as [|l r IH]; cbn [map exprs_of use]; rewrite ?IH; reflexivity. Qed.

Lemma F2_length {A B} (R : A -> B -> Prop) l l' : Forall2 R l l' -> length l = length l'.
Proof. induction 1; cbn [length]; congruence. Qed.

Section Interp.
Variable functions : list funcdef.
Variable classes : list (string * list (string * string)).
Variable modules : list (string * list (string * symbol)).
Variable exec : string -> option nat -> list val -> list val -> heap -> option libres.

Notation eval := (Eval.eval functions classes modules exec).
Notation add_stmt := (Eval.add_stmt functions classes modules exec).
Notation add_stmts := (Eval.add_stmts functions classes modules exec).
Notation run_vals := (run_vals functions classes modules exec).

(** one value per expression statement, in order; a let or an import has none *)
Theorem run_vals_aligned p ss vs p' : run_vals p ss vs p' ->
  Forall2 (fun e v => exists q q', eval q e = ROk v q') (exprs_of ss) vs.
Proof.
  induction 1 as [p|p l name p1 r vs p' _ _ _ _ IH|p l x e p1 r vs p' _ _ _ _ IH|p e v p1 p2 r vs p' He _ _ _ _ IH];
    cbn [exprs_of]; try assumption; constructor; eauto.
Qed.

Lemma step_keeps_binding p s q x v : add_stmt p s = ROk tt q ->
  NoDup (map fst (p_regs p)) -> assoc x (p_regs p) = Some v ->
  NoDup (map fst (p_regs q)) /\ assoc x (p_regs q) = Some v.
Proof.
  intros Hs ND Hx.
  assert (E : add_stmts p [s] = ROk tt q) by (cbn [Eval.add_stmts]; rewrite Hs; reflexivity).
  pose proof (regs_nodup functions classes modules exec [s] p ND) as A.
  pose proof (binding_permanent functions classes modules exec [s] p x v ND Hx) as B.
  rewrite E in A, B. split; assumption.
Qed.

(** while [x] is bound to [v], every statement [x;] produces [v] *)
Theorem bound_uses p ss vs p' x v : run_vals p ss vs p' ->
  NoDup (map fst (p_regs p)) -> assoc x (p_regs p) = Some v ->
  Forall2 (fun e w => forall l, e = ERef l [] [x] -> w = v) (exprs_of ss) vs.
Proof.
  induction 1 as [p|p l name p1 r vs p' Hs _ _ _ IH|p l y e p1 r vs p' Hs _ _ _ IH|p e w p1 p2 r vs p' He _ _ Hemit _ IH];
    intros ND Hx; cbn [exprs_of].
  - constructor.
  - destruct (step_keeps_binding _ _ _ _ _ Hs ND Hx) as (ND1 & Hx1). apply IH; assumption.
  - destruct (step_keeps_binding _ _ _ _ _ Hs ND Hx) as (ND1 & Hx1). apply IH; assumption.
  - assert (Hs : add_stmt p (SExpr e) = ROk tt p2) by (cbn [Eval.add_stmt]; rewrite He; cbn [rbind]; exact Hemit).
    destruct (step_keeps_binding _ _ _ _ _ Hs ND Hx) as (ND2 & Hx2).
    constructor; [|apply IH; assumption].
    intros l ->. cbn [Eval.eval Eval.eval_obj_ref] in He. unfold eval_local_ref in He.
    cbn [length Nat.ltb Nat.leb set_loc p_regs] in He. rewrite Hx in He. cbn [lift] in He. congruence.
Qed.

(** the program-level theorem: after the statements [pre], [let x = e] computes [v] and writes
    nothing (the values, hence the records, of the whole program are those of [pre] followed by those
    of [rest]: the let has no slot); in [rest] -- arbitrary statements -- every [x;] contributes
    exactly [v] at its own position, however many there are *)
Theorem let_uses_file pre l x e rest p' :
  add_stmts prog_init (pre ++ SAssign l x e :: rest) = ROk tt p' ->
  exists p0 v p1 vs_pre vs_rest,
    run_vals prog_init pre vs_pre p0
    /\ eval (set_loc p0 l) e = ROk v p1
    /\ run_vals (bind_reg p1 x v) rest vs_rest p'
    /\ Forall2 (fun ex w => forall l', ex = ERef l' [] [x] -> w = v) (exprs_of rest) vs_rest
    /\ length vs_pre = length (exprs_of pre)
    /\ pcap_of p' = file_of (timeline 0 (vs_pre ++ vs_rest))
    /\ (len (pcap_of p') < 4294967296 ->
        pcap_read (pcap_of p') = Some (map abs_rec (timeline 0 (vs_pre ++ vs_rest)))).
Proof.
  intros A. destruct (add_stmts_run_vals _ _ _ _ _ _ _ A) as (vs & Hr).
  pose proof (pcap_of_run_vals _ _ _ _ _ _ _ Hr) as Hf.
  destruct (run_vals_split _ _ _ _ _ _ _ _ _ Hr) as (va & vb & pa & -> & Ra & Rb).
  inversion Rb as [| |? ? ? ? q ? ? ? Hs _ _ Rr|]; subst.
  destruct (assign_ok_inv _ _ _ _ _ _ _ _ _ Hs) as (Hfresh & v & p1 & Hv & -> & Hregs).
  exists pa, v, p1, va, vb. split; [exact Ra|]. split; [exact Hv|]. split; [exact Rr|].
  assert (NDa : NoDup (map fst (p_regs pa))).
  { pose proof (reachable_regs_nodup functions classes modules exec pre) as N.
    rewrite (run_vals_sound _ _ _ _ _ _ _ _ Ra) in N. exact N. }
  split.
  { eapply bound_uses; [exact Rr| |].
    - rewrite Hregs. cbn [map fst]. constructor; [apply assoc_none_notin; exact Hfresh|exact NDa].
    - rewrite Hregs. cbn [assoc]. rewrite String.eqb_refl. reflexivity. }
  split; [symmetry; eapply F2_length; eapply run_vals_aligned; exact Ra|].
  split; [exact Hf|]. intros Hs'. rewrite Hf in *. apply pcap_read_small. exact Hs'.
Qed.

(** the shape  pre ; let x = e ; mid ; x ; post  *)
Corollary let_mid_use_file pre l x e mid l' post p' :
  add_stmts prog_init (pre ++ [SAssign l x e] ++ mid ++ [use x l'] ++ post) = ROk tt p' ->
  exists p0 v p1 vs_pre vs_mid vs_post,
    run_vals prog_init pre vs_pre p0
    /\ eval (set_loc p0 l) e = ROk v p1
    /\ length vs_pre = length (exprs_of pre) /\ length vs_mid = length (exprs_of mid)
    /\ length vs_post = length (exprs_of post)
    /\ Forall2 (fun ex w => forall l', ex = ERef l' [] [x] -> w = v) (exprs_of mid) vs_mid
    /\ Forall2 (fun ex w => forall l', ex = ERef l' [] [x] -> w = v) (exprs_of post) vs_post
    /\ pcap_of p' = file_of (timeline 0 (vs_pre ++ vs_mid ++ [v] ++ vs_post)).
Proof.
  cbn [app]. intros A. destruct (let_uses_file _ _ _ _ _ _ A) as (p0 & v & p1 & va & vb & Ra & Hv & Rr & F & La & Hf & _).
  rewrite exprs_of_app in F. cbn [exprs_of use] in F.
  apply Forall2_app_inv_l in F. destruct F as (vm & v2 & Fm & F2 & ->).
  inversion F2 as [|? w ? vp Hw Fp]; subst. rewrite (Hw l' eq_refl) in *.
  exists p0, v, p1, va, vm, vp. split; [exact Ra|]. split; [exact Hv|]. split; [exact La|].
  split; [symmetry; eapply F2_length; exact Fm|]. split; [symmetry; eapply F2_length; exact Fp|].
  split; [exact Fm|]. split; [exact Fp|exact Hf].
Qed.

(** k uses directly after the let: k copies of the value *)
Corollary let_k_uses_file pre l x e ls p' :
  add_stmts prog_init (pre ++ SAssign l x e :: map (use x) ls) = ROk tt p' ->
  exists p0 v p1 vs_pre,
    run_vals prog_init pre vs_pre p0 /\ eval (set_loc p0 l) e = ROk v p1
    /\ pcap_of p' = file_of (timeline 0 (vs_pre ++ repeat v (length ls))).
Proof.
  intros A. destruct (let_uses_file _ _ _ _ _ _ A) as (p0 & v & p1 & va & vb & Ra & Hv & Rr & F & La & Hf & _).
  exists p0, v, p1, va. split; [exact Ra|]. split; [exact Hv|]. rewrite Hf. do 3 f_equal.
  rewrite exprs_of_uses in F. clear - F. revert vb F. induction ls as [|l0 r IH]; intros vb F; inversion F as [|? w ? vr Hw Fr]; subst.
  - reflexivity.
  - cbn [length repeat]. rewrite (Hw l0 eq_refl). f_equal. apply IH. exact Fr.
Qed.

(** a let writes nothing and does not move the clock *)
Theorem let_writes_nothing p l x e p1 : add_stmt p (SAssign l x e) = ROk tt p1 ->
  p_now p1 = p_now p /\ p_out p1 = p_out p.
Proof. apply assign_quiet. Qed.

End Interp.
