(** C01, second generation, part 1: src/cli.rs process_file is "front end, then interpreter".

    [front] is the front end of [process_lines] alone -- line splitting is done by the caller; UTF-8
    check, lexer, parser automaton fed line by line, get_results after each line, EOF at the end --
    returning the statements it hands over, in order, and how it ends.  [process_lines_front]: the
    result of process_lines is that of executing exactly these statements, in that order, each once,
    from the given state, and then reporting the front end's verdict; the first failing statement
    stops the run.  For any library. *)
From RS Require Import Base.Bytes Base.Outcome Base.Utf8 Bind.Types Pkt.Packet Pkt.Pcap
  Lex.Tokens Lex.LexClass Lex.Scanner Lex.LexSpec Parse.Verdict Parse.Automaton Parse.Grammar Parse.RefParser
  Interp.Val Interp.Ast Interp.Eval Interp.Cli Lib.LibBase.
From RS.Proofs.C10 Require Import Meets Final.
From RS.Proofs.C09 Require Import Invariant Commute Split RefComplete SimTop.
From RS.Proofs.C08 Require Import FrontEnd.
From RS.Proofs.C14 Require Import Basics Env.
From RS Require Import Proofs.Tactics.
Open Scope list_scope.
Open Scope N_scope.

(** how the front end stops *)
Inductive fe_end :=
| FeDone                               (* EOF accepted *)
| FeErr (e : error) (at_loc : loc)     (* invalid UTF-8, lex error, parse error *)
| FePanic (site : string).

Fixpoint front (lno : N) (lines : list bytes) (lx : lexer) (ps : parser) : list stmt * fe_end :=
  match lines with
  | [] =>
    match feed ps eof_token with
    | Ok ps' => (fst (get_results ps'), FeDone)
    | Err e => ([], FeErr e (lx_loc lx))
    | Panic s => ([], FePanic s)
    | OutOfFuel => ([], FePanic "parser fuel")
    end
  | line :: rest =>
    if negb (utf8_valid line) then ([], FeErr EIo nil_loc)
    else
      match lex_line lx lno line with
      | (lx', Err e) => ([], FeErr e (lx_loc lx'))
      | (_, Panic s) => ([], FePanic s)
      | (_, OutOfFuel) => ([], FePanic "lexer fuel")
      | (lx', Ok ts) =>
        match feed_line ps ts with
        | inr (e, l) => ([], FeErr e l)
        | inl (Panic s) => ([], FePanic s)
        | inl OutOfFuel => ([], FePanic "parser fuel")
        | inl (Err e) => ([], FeErr e nil_loc)
        | inl (Ok ps') =>
          let r := front (lno + 1) rest lx' (snd (get_results ps')) in
          (fst (get_results ps') ++ fst r, snd r)
        end
      end
  end.

(** what the CLI reports once the statements handed over have been executed *)
Definition finish (r : res unit) (fe : fe_end) : cli_result :=
  match r with
  | ROk _ p' => match fe with FeDone => CliOk p' | FeErr e l => CliErr e l p' | FePanic s => CliPanic s end
  | RErr e p' => CliErr e (p_loc p') p'
  | RPanic s _ => CliPanic s
  end.

Section Cli.
Variable functions : list funcdef.
Variable classes : list (string * list (string * string)).
Variable modules : list (string * list (string * symbol)).
Variable exec : string -> option nat -> list val -> list val -> heap -> option libres.

Notation add_stmts := (Eval.add_stmts functions classes modules exec).
Notation process_lines := (process_lines functions classes modules exec).
Notation process_file := (process_file functions classes modules exec).

Theorem process_lines_front : forall lines lno lx ps p,
  process_lines lno lines lx ps p
  = finish (add_stmts p (fst (front lno lines lx ps))) (snd (front lno lines lx ps)).
Proof.
  induction lines as [|line rest IH]; intros lno lx ps p; cbn [Cli.process_lines front].
  - destruct (feed ps eof_token) as [ps'|e|s|]; cbn [fst snd Eval.add_stmts finish]; try reflexivity.
  - destruct (utf8_valid line); cbn [negb]; [|reflexivity].
    destruct (lex_line lx lno line) as [lx' [ts|e|s|]]; try reflexivity.
    destruct (feed_line ps ts) as [[ps'|e|s|]|[e l]]; try reflexivity.
    destruct (get_results ps') as [ss q]. cbn [fst snd]. unfold run_stmts.
    rewrite add_stmts_app.
    destruct (add_stmts p ss) as [[] p'|e p'|s p']; cbn [rbind finish]; try reflexivity.
    apply IH.
Qed.

End Cli.

(* ------------------------------------------------------------------ the front end against the specifications *)

Lemma feed_all_add : forall ts pre p, feed_all (Commute.add_stmts pre p) ts = lift_p pre (feed_all p ts).
Proof.
  induction ts as [|t r IH]; intros pre p.
  - reflexivity.
  - rewrite !Split.feed_all_cons, feed_add. destruct (feed p t) as [p'|e|s|]; cbn [lift_p obind]; try reflexivity.
    apply IH.
Qed.

Lemma feed_line_feed_all : forall ts ps,
  match feed_line ps ts with
  | inl o => feed_all ps ts = o
  | inr (e, _) => feed_all ps ts = Err e
  end.
Proof.
  induction ts as [|t r IH]; intros ps; cbn [feed_line]; [reflexivity|].
  rewrite Split.feed_all_cons. destruct (feed ps t) as [ps'|e|s|]; cbn [obind]; try reflexivity. apply IH.
Qed.

Lemma feed_all_app_ok : forall a b p p1, feed_all p a = Ok p1 -> feed_all p (a ++ b) = feed_all p1 b.
Proof.
  induction a as [|t a IH]; intros b p p1 H.
  - cbn in H. injection H as ->. reflexivity.
  - cbn [app]. rewrite Split.feed_all_cons in *. destruct (feed p t) as [p'|e|s|]; cbn [obind] in *; try discriminate.
    eapply IH. exact H.
Qed.

Lemma feed_all_stuck_app : forall a b p r q, feed_all p a = r -> is_ok r = false -> feed_all p (a ++ b) = Ok q -> False.
Proof.
  induction a as [|t a IH]; intros b p r q H Hr Hq.
  - cbn in H. subst r. discriminate.
  - cbn [app] in Hq. rewrite Split.feed_all_cons in *. destruct (feed p t) as [p'|e|s|]; cbn [obind] in *.
    + eapply IH; eassumption.
    + discriminate.
    + discriminate.
    + discriminate.
Qed.

(** the tokens of the lines, as the lexer model delivers them, are those of the lexical specification *)
Lemma lex_lines_spec : forall lines lx lno, Forall (fun l => utf8_valid l = true) lines ->
  lex_lines lx lno lines = as_lexer (lines_tokens first_class (lx_loc lx, lx_pending lx) lno lines).
Proof.
  induction lines as [|l r IH]; intros lx lno Hv; cbn [lines_tokens].
  - destruct lx; reflexivity.
  - inversion Hv as [|? ? H1 H2]; subst. unfold lex_lines in *. cbn [lex_lines_gen snd].
    fold lex_line. rewrite (scan_meets_spec lx lno l H1). unfold spec_line.
    destruct (line_tokens first_class (lx_pending lx) lno l) as [[lc pend] [ts|e|s|]]; cbn [as_lexer]; try reflexivity.
    rewrite (IH _ _ H2). cbn [lx_loc lx_pending].
    destruct (lines_tokens first_class (lc, pend) (lno + 1) r) as [[lc2 pend2] [ts'|e|s|]]; reflexivity.
Qed.

Lemma lex_lines_tok_ok : forall lines lx lno lx' toks, Forall (fun l => utf8_valid l = true) lines ->
  lex_lines lx lno lines = (lx', Ok toks) -> Forall (fun t => tok_ok t = true) toks.
Proof.
  induction lines as [|l r IH]; intros lx lno lx' toks Hv H; unfold lex_lines in *; cbn [lex_lines_gen] in H.
  - injection H as _ <-. constructor.
  - inversion Hv as [|? ? H1 H2]; subst. fold lex_line in H.
    destruct (lex_line lx lno l) as [lx1 [ts|e|s|]] eqn:L; try discriminate.
    destruct (lex_lines_gen default_nonascii_word lx1 (lno + 1) r) as [lx2 [ts'|e|s|]] eqn:L2; try discriminate.
    injection H as _ <-. apply Forall_app. split.
    + eapply lexer_tokens_ok; eassumption.
    + eapply IH; eassumption.
Qed.

(** a successful front end: every line is valid UTF-8, the lexer delivers tokens for all of them,
    and feeding them and EOF to the automaton -- without any get_results in between -- succeeds and
    has collected exactly the statements handed over *)
Lemma front_done : forall lines lno lx ps ss, p_stmts ps = [] -> front lno lines lx ps = (ss, FeDone) ->
  Forall (fun l => utf8_valid l = true) lines
  /\ exists lx' toks q, lex_lines lx lno lines = (lx', Ok toks)
       /\ feed_all ps (toks ++ [eof_token]) = Ok q /\ p_stmts q = ss.
Proof.
  induction lines as [|line rest IH]; intros lno lx ps ss H0 H; cbn [front] in H.
  - split; [constructor|]. exists lx, []. cbn [app].
    destruct (feed ps eof_token) as [ps'|e|s|] eqn:F; try discriminate.
    injection H as <-. exists ps'. split; [reflexivity|]. split; [|destruct ps'; reflexivity].
    unfold feed_all. cbn [fold_left obind]. exact F.
  - destruct (utf8_valid line) eqn:V; cbn [negb] in H; [|discriminate].
    destruct (lex_line lx lno line) as [lx1 [ts|e|s|]] eqn:L; try discriminate.
    pose proof (feed_line_feed_all ts ps) as FL.
    destruct (feed_line ps ts) as [[ps'|e|s|]|[e l]]; try discriminate.
    destruct (front (lno + 1) rest lx1 (snd (get_results ps'))) as [ss' fe] eqn:R. cbn [fst snd] in H.
    injection H as <- ->.
    assert (E0 : p_stmts (snd (get_results ps')) = []) by (destruct ps'; reflexivity).
    destruct (IH _ _ _ _ E0 R) as (Hv & lx2 & toks & q & Hl & Hf & Hs).
    split; [constructor; assumption|].
    exists lx2, (ts ++ toks). unfold lex_lines in *. cbn [lex_lines_gen]. fold lex_line. rewrite L, Hl.
    pose proof (add_stmts_get_results ps') as A.
    exists (Commute.add_stmts (fst (get_results ps')) q). split; [reflexivity|]. split.
    + rewrite <- app_assoc. rewrite (feed_all_app_ok _ _ _ _ FL). rewrite <- A at 1.
      rewrite feed_all_add, Hf. reflexivity.
    + unfold Commute.add_stmts. cbn [p_stmts]. rewrite Hs. reflexivity.
Qed.

(** ... and conversely *)
Lemma done_front : forall lines lno lx ps lx' toks q, p_stmts ps = [] ->
  Forall (fun l => utf8_valid l = true) lines -> lex_lines lx lno lines = (lx', Ok toks) ->
  feed_all ps (toks ++ [eof_token]) = Ok q -> front lno lines lx ps = (p_stmts q, FeDone).
Proof.
  induction lines as [|line rest IH]; intros lno lx ps lx' toks q H0 Hv Hl Hf; cbn [front].
  - unfold lex_lines in Hl. cbn [lex_lines_gen] in Hl. injection Hl as _ <-. cbn [app] in Hf.
    unfold feed_all in Hf. cbn [fold_left obind] in Hf. rewrite Hf. destruct q; reflexivity.
  - inversion Hv as [|? ? V Hv']; subst. rewrite V. cbn [negb].
    unfold lex_lines in Hl. cbn [lex_lines_gen] in Hl. fold lex_line in Hl.
    destruct (lex_line lx lno line) as [lx1 [ts|e|s|]] eqn:L; try discriminate.
    destruct (lex_lines_gen default_nonascii_word lx1 (lno + 1) rest) as [lx2 [ts'|e|s|]] eqn:L2; try discriminate.
    injection Hl as _ <-.
    pose proof (feed_line_feed_all ts ps) as FL.
    rewrite <- app_assoc in Hf.
    destruct (feed_line ps ts) as [[ps'|e|s|]|[e l]].
    + rewrite (feed_all_app_ok _ _ _ _ FL) in Hf.
      pose proof (add_stmts_get_results ps') as A. rewrite <- A in Hf. rewrite feed_all_add in Hf.
      destruct (feed_all (snd (get_results ps')) (ts' ++ [eof_token])) as [q0|e|s|] eqn:F0; cbn [lift_p] in Hf; try discriminate.
      injection Hf as <-.
      assert (E0 : p_stmts (snd (get_results ps')) = []) by (destruct ps'; reflexivity).
      rewrite (IH _ _ _ _ _ _ E0 Hv' L2 F0). reflexivity.
    + exact (False_ind _ (feed_all_stuck_app _ _ _ _ _ FL eq_refl Hf)).
    + exact (False_ind _ (feed_all_stuck_app _ _ _ _ _ FL eq_refl Hf)).
    + exact (False_ind _ (feed_all_stuck_app _ _ _ _ _ FL eq_refl Hf)).
    + exact (False_ind _ (feed_all_stuck_app _ _ _ _ _ FL eq_refl Hf)).
Qed.

(* ------------------------------------------------------------------ EOF is only ever accepted *)

Local Ltac brk H :=
  repeat match type of H with
  | context [obind ?x _] => destruct x as [[? ?]| | |] eqn:?; cbn [obind] in H; try discriminate H
  | context [obind ?x _] => destruct x eqn:?; cbn [obind] in H; try discriminate H
  | context [match ?x with _ => _ end] => destruct x eqn:?; cbn [obind] in H; try discriminate H
  end.

(** on the EOF token no state shifts or discards: it reduces (Goto), accepts, or is a parse error *)
Lemma dispatch_eof : forall p t p' a, tk_type t = TEof -> dispatch p t = Ok (p', a) ->
  match a with AGoto _ | AAccept => True | _ => False end.
Proof.
  intros p t p' a Ht H. unfold dispatch in H.
  destruct (p_state p);
  unfold state_initial, state_import, state_import_end, state_reduce_import, state_let, state_assign,
    state_ref_component, state_reduce_object, state_reduce_ref_call, state_reduce_ref_naked, state_reduce_module,
    state_ref_module, state_ref_object, state_ref_obj_end, state_arg_next, state_expr_arg, state_arg_name,
    state_arg_val, state_expr_stmt, state_expr, state_expr_rvalue, state_ipv4, state_ipv4_colon, state_reduce_arg,
    state_reduce_literal_expr, state_reduce_ref_expr, state_reduce_call_expr, state_slash, state_reduce_expr,
    state_reduce_sockaddr, state_reduce_call, state_expr_stmt_end, state_assign_stmt_end, state_reduce_bop,
    state_reduce_assign, state_reduce_expr_stmt, state_reduce_assign_stmt, state_reduce_stmt, parse_error, push_literal in H;
  rewrite ?Ht in H; cbn [obind] in H; try discriminate H;
  try (injection H as _ <-; exact I);
  brk H; try (injection H as _ <-; exact I).
Qed.

Lemma feed_loop_eof : forall n p t q, tk_type t = TEof -> feed_loop n p t = Ok q -> p_state q = StAccept.
Proof.
  induction n as [|n IH]; intros p t q Ht H; cbn [feed_loop] in H; [discriminate|].
  destruct (dispatch p t) as [[p' a]|e|s|] eqn:D; cbn [obind] in H; try discriminate.
  pose proof (dispatch_eof _ _ _ _ Ht D) as K. destruct a; try contradiction.
  - eapply IH; eassumption.
  - injection H as <-. reflexivity.
Qed.

(** so a file whose last statement is unfinished is a parse error, never a silent success *)
Lemma feed_eof_accepts : forall p q, feed p eof_token = Ok q -> p_state q = StAccept.
Proof. intros p q. apply feed_loop_eof. reflexivity. Qed.

Lemma feed_all_eof_accepts : forall ts p q, feed_all p (ts ++ [eof_token]) = Ok q -> p_state q = StAccept.
Proof.
  intros ts p q H. destruct (feed_all p ts) as [p1|e|s|] eqn:F.
  - rewrite (feed_all_app_ok _ _ _ _ F) in H. unfold feed_all in H. cbn [fold_left obind] in H.
    eapply feed_eof_accepts; exact H.
  - exact (False_ind _ (feed_all_stuck_app _ _ _ _ _ F eq_refl H)).
  - exact (False_ind _ (feed_all_stuck_app _ _ _ _ _ F eq_refl H)).
  - exact (False_ind _ (feed_all_stuck_app _ _ _ _ _ F eq_refl H)).
Qed.

(* ------------------------------------------------------------------ the statements of a source text *)

(** [compiles lines ss]: the lines are valid UTF-8, the lexical specification (Lex/LexSpec.v
    [lines_tokens first_class], the subject of Props/C10.v) turns them into the tokens [toks], and the
    reference parser (Parse/RefParser.v, the subject of Props/C09.v) accepts [toks] followed by EOF
    with the statements [ss] -- locations included. *)
Definition compiles (lines : list bytes) (ss : list stmt) : Prop :=
  Forall (fun l => utf8_valid l = true) lines
  /\ exists st toks, lines_tokens first_class (nil_loc, None) 1 lines = (st, Ok toks)
       /\ rd_parse (toks ++ [eof_token]) = VAccept ss.

(** ... which is to say: [toks ++ EOF] is a sentence of the grammar with the tree [ss], locations aside *)
Lemma compiles_sentence lines ss : compiles lines ss ->
  exists st toks, lines_tokens first_class (nil_loc, None) 1 lines = (st, Ok toks)
    /\ sentence (toks ++ [eof_token]) (map erase_stmt ss).
Proof.
  intros (_ & st & toks & H1 & H2). exists st, toks. split; [exact H1|].
  apply rd_accepts_iff. exists ss. split; [exact H2|reflexivity].
Qed.

Lemma compiles_functional lines ss1 ss2 : compiles lines ss1 -> compiles lines ss2 -> ss1 = ss2.
Proof.
  intros (_ & st1 & t1 & A1 & B1) (_ & st2 & t2 & A2 & B2). rewrite A1 in A2. injection A2 as _ <-.
  rewrite B1 in B2. injection B2 as <-. reflexivity.
Qed.

Lemma as_lexer_inv r lx o : as_lexer r = (lx, o) -> r = ((lx_loc lx, lx_pending lx), o).
Proof. destruct r as [[lc p] o']. cbn. intros H. injection H as <- <-. reflexivity. Qed.

Lemma toks_ok_eof toks : toks_ok toks -> toks_ok (toks ++ [eof_token]).
Proof. intros H. apply Forall_app. split; [exact H|]. constructor; [reflexivity|constructor]. Qed.

(** the front end succeeds exactly on the texts that compile, and hands over exactly their statements *)
Theorem front_compiles lines ss :
  front 1 lines lexer_init parser_init = (ss, FeDone) <-> compiles lines ss.
Proof.
  split.
  - intros H. destruct (front_done _ _ _ parser_init _ eq_refl H) as (Hv & lx' & toks & q & Hl & Hf & Hs).
    split; [exact Hv|]. pose proof Hl as Hl'. rewrite (lex_lines_spec _ _ _ Hv) in Hl'. apply as_lexer_inv in Hl'.
    eexists _, toks. split; [exact Hl'|].
    pose proof (lex_lines_tok_ok _ _ _ _ _ Hv Hl) as Hok. apply toks_ok_eof in Hok.
    rewrite <- (automaton_eq_refparser _ Hok). unfold run_tokens.
    pose proof (run_from_is_fold (toks ++ [eof_token]) parser_init 0) as V. rewrite Hf in V.
    pose proof (feed_all_eof_accepts _ _ _ Hf) as Acc.
    destruct (run_from parser_init (toks ++ [eof_token]) 0) as [ss0|i| |i]; cbn [verdict_of_fold] in V.
    + destruct V as (q' & Eq & _ & Es). injection Eq as <-. rewrite <- Es, Hs. reflexivity.
    + discriminate.
    + destruct V as (q' & Eq & Ne). injection Eq as <-. contradiction.
    + destruct V as [V _]. discriminate.
  - intros (Hv & st & toks & Hl & Hp).
    pose proof (lex_lines_spec lines lexer_init 1 Hv) as L. cbn [lexer_init lx_loc lx_pending] in L. rewrite Hl in L.
    destruct st as [lc pend]. cbn [as_lexer] in L.
    pose proof (lex_lines_tok_ok _ _ _ _ _ Hv L) as Hok. apply toks_ok_eof in Hok.
    rewrite <- (automaton_eq_refparser _ Hok) in Hp. unfold run_tokens in Hp.
    pose proof (run_from_is_fold (toks ++ [eof_token]) parser_init 0) as V. rewrite Hp in V.
    destruct V as (q & Hf & _ & Es). rewrite <- Es.
    eapply done_front; [reflexivity|exact Hv|exact L|exact Hf].
Qed.

(** a front end that stops early (or fails at EOF) has fed the tokens of the first k lines, none of
    the rest, and hands over the statements the automaton had finished by then *)
Lemma front_stopped : forall lines lno lx ps ss fe, p_stmts ps = [] -> front lno lines lx ps = (ss, fe) ->
  fe <> FeDone ->
  exists k lx' toks q, (k <= length lines)%nat /\ Forall (fun l => utf8_valid l = true) (firstn k lines)
    /\ lex_lines lx lno (firstn k lines) = (lx', Ok toks) /\ feed_all ps toks = Ok q /\ p_stmts q = ss.
Proof.
  induction lines as [|line rest IH]; intros lno lx ps ss fe H0 H Hfe.
  - exists 0%nat, lx, [], ps. cbn [front] in H.
    assert (ss = []) as ->.
    { destruct (feed ps eof_token); injection H as <- <-; try reflexivity. exfalso. apply Hfe. reflexivity. }
    repeat split; try constructor. exact H0.
  - assert (Stop : ss = [] -> exists k lx' toks q, (k <= length (line :: rest))%nat
       /\ Forall (fun l => utf8_valid l = true) (firstn k (line :: rest))
       /\ lex_lines lx lno (firstn k (line :: rest)) = (lx', Ok toks) /\ feed_all ps toks = Ok q /\ p_stmts q = ss).
    { intros ->. exists 0%nat, lx, [], ps. cbn [firstn]. repeat split; try constructor; [apply le_0_n|exact H0]. }
    cbn [front] in H.
    destruct (utf8_valid line) eqn:V; cbn [negb] in H; [|injection H as <- _; apply Stop; reflexivity].
    destruct (lex_line lx lno line) as [lx1 [ts|e|s|]] eqn:L; try (injection H as <- _; apply Stop; reflexivity).
    pose proof (feed_line_feed_all ts ps) as FL.
    destruct (feed_line ps ts) as [[ps'|e|s|]|[e l]]; try (injection H as <- _; apply Stop; reflexivity).
    clear Stop.
    destruct (front (lno + 1) rest lx1 (snd (get_results ps'))) as [ss' fe'] eqn:R. cbn [fst snd] in H.
    injection H as <- ->.
    assert (E0 : p_stmts (snd (get_results ps')) = []) by (destruct ps'; reflexivity).
    destruct (IH _ _ _ _ _ E0 R Hfe) as (k & lx2 & toks & q & Hk & Hv & Hl & Hf & Hs).
    exists (S k), lx2, (ts ++ toks), (Commute.add_stmts (fst (get_results ps')) q). cbn [firstn length].
    split; [apply le_n_S; exact Hk|]. split; [constructor; assumption|].
    split; [unfold lex_lines in *; cbn [lex_lines_gen]; fold lex_line; rewrite L, Hl; reflexivity|].
    split.
    + rewrite (feed_all_app_ok _ _ _ _ FL). pose proof (add_stmts_get_results ps') as A. rewrite <- A at 1.
      rewrite feed_all_add, Hf. reflexivity.
    + unfold Commute.add_stmts. cbn [p_stmts]. rewrite Hs. reflexivity.
Qed.

(** the statements the automaton has finished after some tokens begin every program these tokens
    can still become *)
Lemma finished_is_prefix toks q rest ss' : feed_all parser_init toks = Ok q ->
  run_tokens (toks ++ rest) = VAccept ss' -> exists more, ss' = p_stmts q ++ more.
Proof.
  intros Hf Hr. unfold run_tokens in Hr.
  pose proof (run_from_is_fold (toks ++ rest) parser_init 0) as V. rewrite Hr in V.
  destruct V as (q' & Hq' & _ & Es). rewrite (feed_all_app_ok _ _ _ _ Hf) in Hq'.
  assert (A : q = Commute.add_stmts (p_stmts q) (snd (get_results q))).
  { destruct q; unfold Commute.add_stmts; cbn. rewrite app_nil_r. reflexivity. }
  rewrite A in Hq'. rewrite feed_all_add in Hq'.
  destruct (feed_all (snd (get_results q)) rest) as [q0|e|s|]; cbn [lift_p] in Hq'; try discriminate.
  injection Hq' as <-. exists (p_stmts q0). rewrite <- Es. reflexivity.
Qed.

(** how the front end can stop: accepted; an I/O error without location (a line that is not UTF-8);
    a lex error; a parse error -- never a panic *)
Lemma front_verdict : forall lines lno lx ps, pinv ps ->
  match snd (front lno lines lx ps) with
  | FeDone => True
  | FeErr e l => (e = EIo /\ l = nil_loc) \/ e = ELex \/ e = EParse
  | FePanic _ => False
  end.
Proof.
  induction lines as [|line rest IH]; intros lno lx ps Hp; cbn [front].
  - assert (Te : tok_ok eof_token = true) by reflexivity.
    pose proof (feed_inv ps eof_token Hp Te) as F.
    destruct (feed ps eof_token) as [ps'|e|s'|]; cbn in F |- *; try contradiction; auto.
  - destruct (utf8_valid line) eqn:Hv; cbn [negb snd]; [|left; split; reflexivity].
    destruct (lex_line lx lno line) as [lx' toks] eqn:L.
    pose proof (lex_total_final lx lno line Hv) as T. rewrite L in T. cbn [snd] in T.
    destruct T as [[ts T]|T]; subst toks; [|cbn [snd]; right; left; reflexivity].
    pose proof (lexer_tokens_ok lx lno line lx' ts Hv L) as Hts.
    pose proof (feed_line_post ts ps Hp Hts) as F.
    destruct (feed_line ps ts) as [[ps'|e|s'|]|[e l]]; try contradiction; cbn [snd].
    + apply IH. apply pinv_get_results. exact F.
    + right. right. exact F.
Qed.
