(** C01: the output file of a successful run is exactly the pcap of the values its expression
    statements produced, in statement order then generation order; let and import write nothing. *)
From RS Require Import Base.Bytes Base.Outcome Bind.Types Pkt.Packet Pkt.Pcap Interp.Val Interp.Ast Interp.Eval
  Lib.LibBase Spec.Timeline Spec.PcapRead Proofs.BytesLemmas Proofs.C01.PcapLemmas Proofs.C01.EvalPreserves
  Proofs.C12.TimelineProofs Proofs.Tactics.
Open Scope N_scope.

Section Program.
Variable functions : list funcdef.
Variable classes : list (string * list (string * string)).
Variable modules : list (string * list (string * symbol)).
Variable exec : string -> option nat -> list val -> list val -> heap -> option libres.

Notation eval := (eval functions classes modules exec).
Notation add_stmt := (add_stmt functions classes modules exec).
Notation add_stmts := (add_stmts functions classes modules exec).

(** [run_vals p ss vs p']: running statements ss from p ends in p', and vs are the values of the
    expression statements, in order *)
Inductive run_vals : prog -> list stmt -> list val -> prog -> Prop :=
| RV_nil p : run_vals p [] [] p
| RV_import p l name p1 r vs p' :
    add_stmt p (SImport l name) = ROk tt p1 -> p_now p1 = p_now p -> p_out p1 = p_out p ->
    run_vals p1 r vs p' -> run_vals p (SImport l name :: r) vs p'
| RV_assign p l x e p1 r vs p' :
    add_stmt p (SAssign l x e) = ROk tt p1 -> p_now p1 = p_now p -> p_out p1 = p_out p ->
    run_vals p1 r vs p' -> run_vals p (SAssign l x e :: r) vs p'
| RV_expr p e v p1 p2 r vs p' :
    eval p e = ROk v p1 -> p_now p1 = p_now p -> p_out p1 = p_out p ->
    emit_val p1 v = ROk tt p2 ->
    run_vals p2 r vs p' -> run_vals p (SExpr e :: r) (v :: vs) p'.

Lemma import_quiet p l name p1 : add_stmt p (SImport l name) = ROk tt p1 -> p_now p1 = p_now p /\ p_out p1 = p_out p.
Proof.
  cbn [Eval.add_stmt]. destruct (assoc name (p_imports (set_loc p l))); [intros E; inversion E; subst; split; reflexivity|].
  destruct (assoc EmptyString modules) as [syms|]; [|discriminate].
  destruct (assoc name syms) as [[path|k|k|d]|]; try discriminate.
  intros E; inversion E; subst; split; reflexivity.
Qed.

Lemma assign_quiet p l x e p1 : add_stmt p (SAssign l x e) = ROk tt p1 -> p_now p1 = p_now p /\ p_out p1 = p_out p.
Proof.
  cbn [Eval.add_stmt]. destruct (assoc x (p_regs (set_loc p l))); [discriminate|].
  destruct (eval (set_loc p l) e) as [v q| |] eqn:Ee; cbn [rbind]; try discriminate.
  intros E; inversion E; subst. cbn [p_now p_out].
  destruct (eval_same_io functions classes modules exec e _ _ _ Ee) as (Hn & Ho & _). cbn in Hn, Ho. split; assumption.
Qed.

Theorem add_stmts_run_vals ss : forall p p', add_stmts p ss = ROk tt p' -> exists vs, run_vals p ss vs p'.
Proof.
  induction ss as [|s r IH]; intros p p' E; cbn [Eval.add_stmts] in E.
  - inversion E; subst. exists []. constructor.
  - destruct (add_stmt p s) as [[] p1| |] eqn:Es; cbn [rbind] in E; try discriminate.
    destruct (IH _ _ E) as (vs & Hr).
    destruct s as [l name|l x e|e].
    + destruct (import_quiet _ _ _ _ Es) as (Hn & Ho). exists vs. eapply RV_import; eassumption.
    + destruct (assign_quiet _ _ _ _ _ Es) as (Hn & Ho). exists vs. eapply RV_assign; eassumption.
    + cbn [Eval.add_stmt] in Es.
      destruct (eval p e) as [v q| |] eqn:Ee; cbn [rbind] in Es; try discriminate.
      destruct (eval_same_io functions classes modules exec e _ _ _ Ee) as (Hn & Ho & _).
      exists (v :: vs). eapply RV_expr; eassumption.
Qed.

Theorem run_vals_output p ss vs p' : run_vals p ss vs p' ->
  p_now p' = final_time (p_now p) vs /\ p_out p' = rev (map rec_bytes (timeline (p_now p) vs)) ++ p_out p.
Proof.
  induction 1 as [p|p l name p1 r vs p' _ Hn Ho _ IH|p l x e p1 r vs p' _ Hn Ho _ IH|p e v p1 p2 r vs p' _ Hn Ho Hemit _ IH].
  - split; reflexivity.
  - rewrite Hn, Ho in IH. exact IH.
  - rewrite Hn, Ho in IH. exact IH.
  - destruct IH as (IHn & IHo).
    destruct (emit_val_refines _ _ _ Hemit) as (En & Eo & _).
    cbn [final_time timeline]. rewrite <- Hn. rewrite <- En. split; [exact IHn|].
    rewrite IHo, Eo, En, Ho. rewrite map_app, rev_app_distr, <- app_assoc. rewrite Hn. reflexivity.
Qed.

(** the file: global header followed by exactly those records, nothing missing or trailing *)
Theorem program_pcap ss p' :
  add_stmts prog_init ss = ROk tt p' ->
  exists vs, run_vals prog_init ss vs p'
    /\ pcap_of p' = file_of (timeline 0 vs)
    /\ (Forall rec_ok (timeline 0 vs) -> pcap_read (pcap_of p') = Some (map abs_rec (timeline 0 vs))).
Proof.
  intros E. destruct (add_stmts_run_vals _ _ _ E) as (vs & Hr). exists vs. split; [exact Hr|].
  destruct (run_vals_output _ _ _ _ Hr) as (_ & Ho). cbn [prog_init p_now p_out] in Ho.
  assert (F : pcap_of p' = file_of (timeline 0 vs)).
  { unfold pcap_of, file_of. rewrite frev_rev, Ho, app_nil_r, rev_involutive. reflexivity. }
  split; [exact F|]. intros Hok. rewrite F. apply pcap_read_file. exact Hok.
Qed.

End Program.

(** one value written k times gives k identical frames (a let-bound packet re-emitted) *)
Theorem reemit_same now v k :
  map snd (timeline now (repeat v k)) = concat (repeat (frames v) k).
Proof.
  revert now. induction k as [|k IH]; intros now; cbn [repeat timeline concat]; [reflexivity|].
  rewrite map_app, map_map. cbn [snd]. rewrite map_id. rewrite IH. reflexivity.
Qed.

(** writing never alters the frame: record = 16-byte header (sec, nsec, len, len) followed by the bytes *)
Theorem write_packet_exact t k b k' :
  write_packet t k = Ok (b, k') ->
  b = pcap_rec_hdr t (len (pk_body k)) ++ pk_body k /\ pk_body k' = pk_body k /\ length (pcap_rec_hdr t (len (pk_body k))) = 16%nat.
Proof.
  intros E. destruct (write_packet_ok _ _ _ _ E) as (Hb & Hk). split; [exact Hb|]. split; [exact Hk|reflexivity].
Qed.

(** frames of the sizes the library can build are representable: captured length = true length *)
Lemma rec_ok_of_len r : len (snd r) < 4294967296 -> rec_ok r.
Proof. intros H. exact H. Qed.
