(** C01, second generation, part 4: the 16 bytes of headroom the record header borrows.

    Props/C08b.v already pins that every packet the real library returns has at least 16 bytes of
    headroom ([lib_post] -> [lib_val_ok] -> [pkt_ok]) and that the interpreter state keeps that for
    every stored packet ([wf_prog]), so [write_packet] never panics in a run.  What is added here is
    the arithmetic of borrowing and returning: writing leaves the headroom as long as it was and the
    frame untouched, so the SAME packet object can be written any number of times -- threading the
    packet as the implementation's shared Rc<Packet> is -- and every record is header ++ the same frame. *)
From RS Require Import Base.Bytes Base.Outcome Pkt.Packet Pkt.Pcap Proofs.C08.LibPost.
From Coq Require Import Arith Lia.
Open Scope list_scope.
Open Scope N_scope.

Theorem write_packet_returns_headroom t k : pkt_ok k ->
  exists k', write_packet t k = Ok (pcap_rec_hdr t (len (pk_body k)) ++ pk_body k, k')
    /\ length (pk_hr k') = length (pk_hr k) /\ pk_body k' = pk_body k /\ pkt_ok k'.
Proof.
  unfold pkt_ok. intros H. unfold write_packet.
  destruct (Nat.ltb (length (pk_hr k)) 16) eqn:E; [apply Nat.ltb_lt in E; lia|].
  eexists. split; [reflexivity|]. cbn [pk_hr pk_body].
  assert (L : length (firstn (length (pk_hr k) - 16) (pk_hr k) ++ pcap_rec_hdr t (pkt_len k)) = length (pk_hr k)).
  { rewrite app_length, firstn_length. change (length (pcap_rec_hdr t (pkt_len k))) with 16%nat. lia. }
  split; [exact L|]. split; [reflexivity|]. rewrite L. exact H.
Qed.

(** write the same packet at each of the times [ts], passing on the packet as it comes back *)
Fixpoint write_many (ts : list N) (k : packet) : outcome (list bytes * packet) :=
  match ts with
  | [] => Ok ([], k)
  | t :: r => do (b, k1) <- write_packet t k; do (bs, k2) <- write_many r k1; Ok (b :: bs, k2)
  end.

Theorem write_many_ok : forall ts k, pkt_ok k ->
  exists k', write_many ts k = Ok (map (fun t => pcap_rec_hdr t (len (pk_body k)) ++ pk_body k) ts, k')
    /\ pk_body k' = pk_body k /\ pkt_ok k'.
Proof.
  induction ts as [|t r IH]; intros k H; cbn [write_many map].
  - exists k. repeat split. exact H.
  - destruct (write_packet_returns_headroom t k H) as (k1 & W & _ & Hb & H1). rewrite W. cbn [obind].
    destruct (IH k1 H1) as (k2 & W2 & Hb2 & H2). rewrite W2. cbn [obind]. rewrite Hb.
    exists k2. split; [reflexivity|]. split; [congruence|exact H2].
Qed.
