(** C01, second generation, part 2: from the bytes of a source file to the bytes of the pcap.

    [process_file_ok]: src/cli.rs process_file succeeds exactly when the text compiles -- valid UTF-8,
    tokens by the lexical specification, statements by the reference parser -- and executing those
    statements, in order, each once, from the initial state succeeds; its final state is that of the
    execution.  Hence (Proofs/C01/Program.v) the output is the global header followed by exactly the
    records of the values of the expression statements.  [process_file_err]: a failing run has
    executed a prefix of the statements the text read so far prescribes, and its output is the
    output of that prefix. *)
From RS Require Import Base.Bytes Base.Outcome Base.Utf8 Bind.Types Pkt.Packet Pkt.Pcap
  Lex.Tokens Lex.LexClass Lex.Scanner Lex.LexSpec Parse.Verdict Parse.Automaton Parse.Grammar Parse.RefParser
  Interp.Val Interp.Ast Interp.Eval Interp.Cli Interp.Run Lib.LibBase Lib.StdLib
  Spec.Timeline Spec.PcapRead.
From RS.Proofs.C09 Require Import Invariant Split SimTop Viable.
From RS.Proofs.C14 Require Import Basics Env.
From RS.Proofs.C19 Require Import TraceRun.
From RS.Proofs.C12 Require Import TimelineProofs ProgramShift.
From RS.Proofs.C13 Require Import EndToEnd.
From RS Require Import Proofs.BytesLemmas Proofs.C01.PcapLemmas Proofs.C01.EvalPreserves Proofs.C01.Program
  Proofs.C01.SrcFront.
From RSGen Require Import Catalogue.
From Coq Require Import ZArith Lia ZifyBool ZifyNat ZifyN.
Ltac Zify.zify_post_hook ::= Z.div_mod_to_equations.
Open Scope list_scope.
Open Scope N_scope.

(* ------------------------------------------------------------------ sizes *)

(** every frame is part of the file: a file shorter than 4 GiB has only representable lengths *)
Lemma recs_small_ok : forall recs B, len (concat (map rec_bytes recs)) <= B -> Forall (fun r => len (snd r) <= B) recs.
Proof.
  induction recs as [|r recs IH]; intros B H; [constructor|].
  cbn [map concat] in H. rewrite len_app in H. unfold rec_bytes at 1 in H. rewrite len_app in H.
  constructor; [cbn beta; unfold bytes in *; lia|]. apply IH. lia.
Qed.

Theorem file_small_rec_ok recs : len (file_of recs) < 4294967296 -> Forall rec_ok recs.
Proof.
  intros H. unfold file_of in H. rewrite len_app in H.
  assert (G : len pcap_ghdr = 24) by reflexivity.
  assert (K : len (concat (map rec_bytes recs)) <= 4294967295) by lia.
  apply recs_small_ok in K. eapply Forall_impl; [|exact K]. intros r Hr. unfold rec_ok. cbn beta in Hr. unfold bytes in *. lia.
Qed.

(** the premise of C01_program_pcap, on the emitted values instead of the records *)
Theorem rec_ok_timeline vs : forall now,
  Forall rec_ok (timeline now vs) <-> Forall (fun v => Forall (fun f => len f < 4294967296) (frames v)) vs.
Proof.
  induction vs as [|v r IH]; intros now; cbn [timeline].
  - split; constructor.
  - rewrite Forall_app, IH, Forall_map. unfold rec_ok. cbn [snd]. split.
    + intros [A B]. constructor; assumption.
    + intros H. inversion H; subst. split; assumption.
Qed.

(** the reader on the file of a timeline, with the premise on the file length only *)
Theorem pcap_read_small recs : len (file_of recs) < 4294967296 ->
  pcap_read (file_of recs) = Some (map abs_rec recs).
Proof. intros H. apply pcap_read_file, file_small_rec_ok, H. Qed.

(* ------------------------------------------------------------------ a failing statement writes nothing *)

Lemma add_stmts_err_split {F C M X} : forall ss p e p',
  Eval.add_stmts F C M X p ss = RErr e p' ->
  exists done s r p0, ss = done ++ s :: r /\ Eval.add_stmts F C M X p done = ROk tt p0
                      /\ add_stmt F C M X p0 s = RErr e p'.
Proof.
  induction ss as [|s r IH]; intros p e p' H; cbn [Eval.add_stmts] in H; [discriminate|].
  destruct (add_stmt F C M X p s) as [[] p1|e1 p1|s1 p1] eqn:Es; cbn [rbind] in H; try discriminate.
  - destruct (IH _ _ _ H) as (done & s' & r' & p0 & -> & Hd & Hs).
    exists (s :: done), s', r', p0. split; [reflexivity|]. split; [|exact Hs].
    cbn [Eval.add_stmts]. rewrite Es. cbn [rbind]. exact Hd.
  - injection H as <- <-. exists [], s, r, p. repeat split. exact Es.
Qed.

Lemma write_all_quiet_err : forall ks p e p', write_all p ks = RErr e p' -> False.
Proof.
  induction ks as [|k r IH]; intros p e p' H; cbn [write_all] in H; [discriminate|].
  destruct (write_packet (p_now p) k) as [[b k']|e1|s|] eqn:W; cbn [lift rbind] in H; try discriminate.
  - eapply IH; exact H.
  - unfold write_packet in W. destruct (Nat.ltb _ _); discriminate.
Qed.

Lemma emit_val_err_quiet p v e p' : emit_val p v = RErr e p' -> p_out p' = p_out p.
Proof.
  destruct v as [|b|n|n|n|n|a|a pt|b|addr|key|addr key|k|ks|ns]; cbn [emit_val]; try discriminate.
  - pose proof (update_time_quiet p (pkt_bit_time k)) as Q. unfold quiet in Q.
    destruct (update_time p (pkt_bit_time k)) as [[] p1|e1 p1|s1 p1]; cbn [rbind res_prog] in *; try discriminate.
    + intros H. exfalso. eapply write_all_quiet_err; exact H.
    + intros H. injection H as _ <-. exact Q.
  - pose proof (advance_all_quiet ks p) as Q. unfold quiet in Q.
    destruct (advance_all p ks) as [[] p1|e1 p1|s1 p1]; cbn [rbind res_prog] in *; try discriminate.
    + intros H. exfalso. eapply write_all_quiet_err; exact H.
    + intros H. injection H as _ <-. exact Q.
  - pose proof (update_time_quiet p ns) as Q. unfold quiet in Q. intros H. rewrite H in Q. exact Q.
Qed.

Lemma add_stmt_err_quiet {F C M X} p s e p' : add_stmt F C M X p s = RErr e p' -> p_out p' = p_out p.
Proof.
  destruct s as [l name|l x rv|ex]; intros H.
  - pose proof (add_stmt_quiet_import F C M X p l name) as Q. unfold quiet in Q. rewrite H in Q. exact Q.
  - pose proof (add_stmt_quiet_assign F C M X p l x rv) as Q. unfold quiet in Q. rewrite H in Q. exact Q.
  - cbn [add_stmt] in H. pose proof (eval_quiet F C M X ex p) as Q. unfold quiet in Q.
    destruct (eval F C M X p ex) as [v p1|e1 p1|s1 p1]; cbn [rbind res_prog] in *; try discriminate.
    + apply emit_val_err_quiet in H. congruence.
    + injection H as _ <-. exact Q.
Qed.

(* ------------------------------------------------------------------ process_file, any library *)

(** [reads_prefix lines ss]: the first k lines (for some k) are valid UTF-8 and lex to the tokens
    [toks], these can be continued to a sentence of the grammar, and [ss] begins every program that
    [toks] can be continued to -- whatever tokens follow, if the reference parser accepts the whole
    with the statements [ss'], then [ss'] starts with [ss] *)
Definition reads_prefix (lines : list bytes) (ss : list stmt) : Prop :=
  exists k st toks, (k <= length lines)%nat
    /\ Forall (fun l => utf8_valid l = true) (firstn k lines)
    /\ lines_tokens first_class (nil_loc, None) 1 (firstn k lines) = (st, Ok toks)
    /\ viable_prefix toks
    /\ forall rest ss', Forall (fun t => tok_ok t = true) rest ->
         rd_parse (toks ++ rest) = VAccept ss' -> exists more, ss' = ss ++ more.

Lemma front_reads_prefix lines ss fe : front 1 lines lexer_init parser_init = (ss, fe) -> fe <> FeDone ->
  reads_prefix lines ss.
Proof.
  intros H Hfe. destruct (front_stopped _ _ _ parser_init _ _ eq_refl H Hfe) as (k & lx' & toks & q & Hk & Hv & Hl & Hf & Hs).
  pose proof Hl as Hl'. rewrite (lex_lines_spec _ _ _ Hv) in Hl'. apply as_lexer_inv in Hl'.
  pose proof (lex_lines_tok_ok _ _ _ _ _ Hv Hl) as Hok.
  exists k, (lx_loc lx', lx_pending lx'), toks. split; [exact Hk|]. split; [exact Hv|]. split; [exact Hl'|].
  split; [eapply reachable_viable; eassumption|].
  intros rest ss' Hrest Hp.
  rewrite <- automaton_eq_refparser in Hp by (apply Forall_app; split; assumption).
  rewrite <- Hs. eapply finished_is_prefix; eassumption.
Qed.

Section AnyLibrary.
Variable functions : list funcdef.
Variable classes : list (string * list (string * string)).
Variable modules : list (string * list (string * symbol)).
Variable exec : string -> option nat -> list val -> list val -> heap -> option libres.

Notation add_stmts := (Eval.add_stmts functions classes modules exec).
Notation add_stmt := (Eval.add_stmt functions classes modules exec).
Notation process_file := (process_file functions classes modules exec).
Notation run_vals := (run_vals functions classes modules exec).

(** success: exactly the texts that compile and whose statements all execute; the final state is
    the state after executing them in order from the initial state *)
Theorem process_file_ok src p' :
  process_file src = CliOk p' <->
  exists ss, compiles (split_lines src) ss /\ add_stmts prog_init ss = ROk tt p'.
Proof.
  unfold Cli.process_file. rewrite process_lines_front. split.
  - destruct (front 1 (split_lines src) lexer_init parser_init) as [ss fe] eqn:Fr. cbn [fst snd].
    destruct (add_stmts prog_init ss) as [[] q|e q|s q] eqn:A; cbn [finish]; try discriminate.
    destruct fe; try discriminate. intros H. injection H as <-.
    exists ss. split; [apply front_compiles; exact Fr|exact A].
  - intros (ss & Hc & A). apply front_compiles in Hc. rewrite Hc. cbn [fst snd]. rewrite A. reflexivity.
Qed.

(** failure: the statements [done] have been executed, in order, each once -- they are the first
    statements of the program the text prescribes (the whole text if it compiles, otherwise every
    program the lines read so far can be continued to) -- and the state is theirs, except that the
    failing statement, if the failure is a statement's, has changed it without writing anything *)
Theorem process_file_err src e l p' :
  process_file src = CliErr e l p' ->
  exists done p0, add_stmts prog_init done = ROk tt p0 /\ p_out p' = p_out p0
    /\ ( (* the front end stopped: bad UTF-8, lex error, parse error *)
         (reads_prefix (split_lines src) done /\ p' = p0
          /\ ((e = EIo /\ l = nil_loc) \/ e = ELex \/ e = EParse))
         \/ (* the next statement failed *)
         (exists s rest, add_stmt p0 s = RErr e p' /\ l = p_loc p'
            /\ (compiles (split_lines src) (done ++ s :: rest) \/ reads_prefix (split_lines src) (done ++ s :: rest)))).
Proof.
  unfold Cli.process_file. rewrite process_lines_front.
  destruct (front 1 (split_lines src) lexer_init parser_init) as [ss fe] eqn:Fr. cbn [fst snd].
  destruct (add_stmts prog_init ss) as [[] q|e1 q|s q] eqn:A; cbn [finish]; try discriminate.
  - destruct fe as [|e1 l1|s1]; try discriminate. intros H. injection H as <- <- <-.
    exists ss, q. split; [exact A|]. split; [reflexivity|]. left.
    split; [eapply front_reads_prefix; [exact Fr|discriminate]|]. split; [reflexivity|].
    pose proof (front_verdict (split_lines src) 1 lexer_init parser_init pinv_init) as K. rewrite Fr in K. exact K.
  - intros H. injection H as <- <- <-.
    destruct (add_stmts_err_split _ _ _ _ A) as (done & s & rest & p0 & -> & Hd & Hs).
    exists done, p0. split; [exact Hd|]. split; [eapply add_stmt_err_quiet; exact Hs|]. right.
    exists s, rest. split; [exact Hs|]. split; [reflexivity|].
    destruct fe as [|e2 l2|s2].
    + left. apply front_compiles. exact Fr.
    + right. eapply front_reads_prefix; [exact Fr|discriminate].
    + right. eapply front_reads_prefix; [exact Fr|discriminate].
Qed.

Lemma pcap_of_run_vals done vs p0 : run_vals prog_init done vs p0 -> pcap_of p0 = file_of (timeline 0 vs).
Proof.
  intros Hr. destruct (run_vals_output _ _ _ _ _ _ _ _ Hr) as (_ & Ho). cbn [prog_init p_now p_out] in Ho.
  unfold pcap_of, file_of. rewrite frev_rev, Ho, app_nil_r, rev_involutive. reflexivity.
Qed.

End AnyLibrary.

(* ------------------------------------------------------------------ the real library: run_src *)

Section Real.
Variable files : list (bytes * bytes).
Notation ex := (exec {| env_files := files |}).
Notation add_stmts := (Eval.add_stmts catalogue class_table module_table ex).
Notation add_stmt := (Eval.add_stmt catalogue class_table module_table ex).
Notation run_vals := (run_vals catalogue class_table module_table ex).

(** compiling a source text is: compile (lexical specification, reference parser), then run *)
Theorem run_src_ok src pcap warnings trace :
  run_src files src = RunOk pcap warnings trace <->
  exists ss, compiles (split_lines src) ss /\ run files ss = RunOk pcap warnings trace.
Proof.
  unfold run_src, run, run_prog. split.
  - destruct (process_file catalogue class_table module_table ex src) as [p|e l p|s] eqn:E; try discriminate.
    apply process_file_ok in E. destruct E as (ss & Hc & A). intros H. exists ss. split; [exact Hc|].
    rewrite A. exact H.
  - intros (ss & Hc & H).
    destruct (add_stmts prog_init ss) as [[] p|e p|s p] eqn:A; try discriminate.
    assert (E : process_file catalogue class_table module_table ex src = CliOk p)
      by (apply process_file_ok; exists ss; split; assumption).
    rewrite E. exact H.
Qed.

(** the output file of a successful compilation *)
Theorem run_src_pcap src pcap warnings trace :
  run_src files src = RunOk pcap warnings trace ->
  exists ss vs p', compiles (split_lines src) ss
    /\ add_stmts prog_init ss = ROk tt p'
    /\ run_vals prog_init ss vs p'
    /\ pcap = pcap_of p' /\ pcap = file_of (timeline 0 vs)
    /\ (Forall rec_ok (timeline 0 vs) -> pcap_read pcap = Some (map abs_rec (timeline 0 vs)))
    /\ (len pcap < 4294967296 -> pcap_read pcap = Some (map abs_rec (timeline 0 vs))).
Proof.
  intros H. unfold run_src in H.
  destruct (process_file catalogue class_table module_table ex src) as [p|e l p|s] eqn:E; try discriminate.
  injection H as <- _ _. apply process_file_ok in E. destruct E as (ss & Hc & A).
  destruct (program_pcap _ _ _ _ _ _ A) as (vs & Hr & Hf & Hrd).
  exists ss, vs, p. split; [exact Hc|]. split; [exact A|]. split; [exact Hr|]. split; [reflexivity|].
  split; [exact Hf|]. split; [exact Hrd|].
  intros Hs. rewrite Hf in *. apply pcap_read_small. exact Hs.
Qed.

(** the partial output of a failed compilation is the complete output of the statements executed
    before the failure: a well-formed pcap again, nothing of the failing statement in it *)
Theorem run_src_err src e l partial :
  run_src files src = RunErr e l partial ->
  exists done vs p0, run_vals prog_init done vs p0
    /\ partial = file_of (timeline 0 vs)
    /\ (len partial < 4294967296 -> pcap_read partial = Some (map abs_rec (timeline 0 vs)))
    /\ ( reads_prefix (split_lines src) done
         \/ exists s rest p', add_stmt p0 s = RErr e p' /\ l = p_loc p'
              /\ (compiles (split_lines src) (done ++ s :: rest) \/ reads_prefix (split_lines src) (done ++ s :: rest))).
Proof.
  intros H. unfold run_src in H.
  destruct (process_file catalogue class_table module_table ex src) as [p|e1 l1 p|s] eqn:E; try discriminate.
  injection H as <- <- <-. apply process_file_err in E. destruct E as (done & p0 & A & Ho & Hc).
  destruct (add_stmts_run_vals _ _ _ _ _ _ _ A) as (vs & Hr).
  pose proof (pcap_of_run_vals _ _ _ _ _ _ _ Hr) as Hf.
  assert (Hp : pcap_of p = file_of (timeline 0 vs)) by (rewrite <- Hf; unfold pcap_of; rewrite Ho; reflexivity).
  exists done, vs, p0. split; [exact Hr|]. split; [exact Hp|]. split.
  - intros Hs. rewrite Hp in *. apply pcap_read_small. exact Hs.
  - destruct Hc as [(Hc & _ & _)|(s & rest & Hs & Hl & Hc)]; [left; exact Hc|right].
    exists s, rest, p. split; [exact Hs|]. split; [exact Hl|exact Hc].
Qed.

End Real.

(* ------------------------------------------------------------------ the last line needs no newline *)

Lemma split_unterminated : forall l cur, ~ In 10 l ->
  split_lines_aux l cur = match rev l ++ cur with [] => [] | x => [rev x] end.
Proof.
  induction l as [|c l IH]; intros cur H.
  - cbn [rev app split_lines_aux]. destruct cur; reflexivity.
  - rewrite split_step by (intros E; apply H; left; exact E).
    rewrite IH by (intros E; apply H; right; exact E). cbn [rev]. rewrite <- app_assoc. reflexivity.
Qed.

(** a last line without line terminator is a line like any other *)
Theorem split_lines_no_final_newline : forall pre lastl,
  Forall (fun l => ~ In 10 l /\ last l 0 <> 13) pre -> ~ In 10 lastl -> lastl <> [] ->
  split_lines (join_lf pre ++ lastl) = pre ++ [lastl].
Proof.
  unfold split_lines, join_lf. induction 1 as [|l r [Hl Hc] _ IH]; intros Hn Hne.
  - cbn [map concat app]. rewrite split_unterminated by exact Hn. rewrite app_nil_r.
    destruct (rev lastl) as [|c q] eqn:E.
    + apply (f_equal (@rev N)) in E. rewrite rev_involutive in E. contradiction.
    + rewrite <- E, rev_involutive. reflexivity.
  - cbn [map concat]. rewrite <- !app_assoc. cbn [app]. rewrite split_line by exact Hl.
    rewrite app_nil_r. cbn [app]. f_equal; [|apply IH; assumption].
    destruct (rev l) as [|c q] eqn:E; [apply (f_equal (@rev N)) in E; rewrite rev_involutive in E; subst; reflexivity|].
    assert (L : last l 0 = c).
    { apply (f_equal (@rev N)) in E. rewrite rev_involutive in E. subst l. cbn [rev]. apply last_last. }
    rewrite strip_cr_other by congruence. rewrite <- E. apply rev_involutive.
Qed.

(** ... so the final newline of a source file is irrelevant: same result, locations included; in
    particular the last statement of a file is executed whether or not a newline follows it *)
Corollary final_newline_irrelevant files pre lastl :
  Forall (fun l => ~ In 10 l /\ last l 0 <> 13) pre -> ~ In 10 lastl -> last lastl 0 <> 13 -> lastl <> [] ->
  run_src files (join_lf pre ++ lastl) = run_src files (join_lf (pre ++ [lastl])).
Proof.
  intros Hp Hn Hc Hne. unfold run_src, process_file.
  rewrite split_lines_no_final_newline by assumption.
  rewrite split_join_lf; [reflexivity|]. apply Forall_app. split; [exact Hp|]. constructor; [split; assumption|constructor].
Qed.
