(** C04: the flow's counters follow the abstract account modulo 2^32, every emitted segment carries
    the counters of the moment, overrides are local. *)
From RS Require Import Base.Bytes Base.Outcome Pkt.Csum Pkt.Hdrs Pkt.Packet Ez.Tcp Spec.Wire Spec.TcpAccount
  Lib.Ipv4Lib Proofs.BytesLemmas Proofs.C02.IpLemmas Proofs.C02.TcpIp Proofs.C03.Transport Proofs.Tactics.
From Coq Require Import ZArith Lia ZifyBool ZifyNat ZifyN.
Ltac Zify.zify_post_hook ::= Z.div_mod_to_equations.
Open Scope N_scope.

Definition flow_abs (f : tcp_flow) (a : account) : Prop := tf_cl_seq f = acc_cl a /\ tf_sv_seq f = acc_sv a.

Lemma abs_cl_update f a n : flow_abs f a -> flow_abs (flow_cl_update f n) (acc_use_cl a n).
Proof. intros (Hc & Hs). unfold flow_abs, flow_cl_update, acc_cl, acc_sv, acc_use_cl, wrap32 in *. cbn. rewrite Hc, Hs. split; lia. Qed.
Lemma abs_sv_update f a n : flow_abs f a -> flow_abs (flow_sv_update f n) (acc_use_sv a n).
Proof. intros (Hc & Hs). unfold flow_abs, flow_sv_update, acc_cl, acc_sv, acc_use_sv, wrap32 in *. cbn. rewrite Hc, Hs. split; lia. Qed.

(** what a segment says about itself, before serialisation *)
Definition sinfo (s : tcp_seg) : N * N * N * bytes :=
  (th_seq (ts_tcp s), th_ack (ts_tcp s), th_flags (ts_tcp s), ts_payload s).

(** reading the fields back from the bytes on the wire *)
Theorem tcp_fields_readback h payload :
  th_wf h ->
  let seg := tcp_ser h ++ payload in
  tcp_seq_of seg = th_seq h /\ tcp_ack_of seg = th_ack h /\ tcp_flags_of seg = th_flags h /\ tcp_payload_of seg = payload.
Proof.
  intros (H1 & H2 & H3 & H4 & H5 & H6 & H7). cbn zeta.
  unfold tcp_seq_of, tcp_ack_of, tcp_flags_of, tcp_payload_of, u32_at, u16_at, tcp_ser, be32, be16.
  cbn [app nth Nat.add skipn].
  repeat split; try reflexivity.
  - rewrite !rd_be16 by lia. lia.
  - rewrite !rd_be16 by lia. lia.
Qed.

(** transmission: the packet is the checksummed segment, the sender's counter advances by what it consumed *)
Lemma flow_cl_tx_inv f s f' p : flow_cl_tx f s = Ok (f', p) ->
  exists s', p = seg_packet s' /\ sinfo s' = sinfo s /\ f' = flow_cl_update f (ts_data_len s + ts_extra s).
Proof.
  unfold flow_cl_tx, seg_seq_consumed, cadd.
  destruct (_ <? two32); cbn [obind]; try discriminate.
  unfold seg_tcp_csum, cadd. destruct (_ <? two32); cbn [obind]; try discriminate.
  destruct (_ <? two32); cbn [obind]; try discriminate.
  intros E. ok_inv E. eexists. split; [reflexivity|]. split; reflexivity.
Qed.
Lemma flow_sv_tx_inv f s f' p : flow_sv_tx f s = Ok (f', p) ->
  exists s', p = seg_packet s' /\ sinfo s' = sinfo s /\ f' = flow_sv_update f (ts_data_len s + ts_extra s).
Proof.
  unfold flow_sv_tx, seg_seq_consumed, cadd.
  destruct (_ <? two32); cbn [obind]; try discriminate.
  unfold seg_tcp_csum, cadd. destruct (_ <? two32); cbn [obind]; try discriminate.
  destruct (_ <? two32); cbn [obind]; try discriminate.
  intros E. ok_inv E. eexists. split; [reflexivity|]. split; reflexivity.
Qed.

(** the handshake: SYN(cl), SYN|ACK(sv, cl+1), ACK(cl+1, sv+1); each side consumed one *)
Theorem flow_open_trace f f' ps :
  flow_open f = Ok (f', ps) ->
  let c := tf_cl_seq f in let s := tf_sv_seq f in
  tf_cl_seq f' = wrap32 (c + 1) /\ tf_sv_seq f' = wrap32 (s + 1)
  /\ exists s1 s2 s3, ps = [seg_packet s1; seg_packet s2; seg_packet s3]
     /\ sinfo s1 = (c, 0, 2, []) /\ sinfo s2 = (s, wrap32 (c + 1), 18, [])
     /\ sinfo s3 = (wrap32 (c + 1), wrap32 (s + 1), 16, []).
Proof.
  unfold flow_open.
  destruct (flow_cl_tx f _) as [[f1 p1]| | |] eqn:E1; cbn [obind]; try discriminate.
  destruct (flow_sv_tx f1 _) as [[f2 p2]| | |] eqn:E2; cbn [obind]; try discriminate.
  destruct (flow_cl_tx f2 _) as [[f3 p3]| | |] eqn:E3; cbn [obind]; try discriminate.
  intros E. ok_inv E.
  apply flow_cl_tx_inv in E1 as (s1 & -> & I1 & ->).
  apply flow_sv_tx_inv in E2 as (s2 & -> & I2 & ->).
  apply flow_cl_tx_inv in E3 as (s3 & -> & I3 & ->).
  cbn zeta. split; [|split].
  - cbn. unfold wrap32. lia.
  - cbn. unfold wrap32. lia.
  - exists s1, s2, s3. split; [reflexivity|]. rewrite I1, I2, I3. unfold sinfo. cbn.
    repeat split; repeat f_equal; unfold wrap32; lia.
Qed.

Theorem flow_client_close_trace f f' ps :
  flow_client_close f = Ok (f', ps) ->
  let c := tf_cl_seq f in let s := tf_sv_seq f in
  tf_cl_seq f' = wrap32 (c + 1) /\ tf_sv_seq f' = wrap32 (s + 1)
  /\ exists s1 s2 s3, ps = [seg_packet s1; seg_packet s2; seg_packet s3]
     /\ sinfo s1 = (c, s, 17, []) /\ sinfo s2 = (s, wrap32 (c + 1), 17, [])
     /\ sinfo s3 = (wrap32 (c + 1), wrap32 (s + 1), 16, []).
Proof.
  unfold flow_client_close.
  destruct (flow_cl_tx f _) as [[f1 p1]| | |] eqn:E1; cbn [obind]; try discriminate.
  destruct (flow_sv_tx f1 _) as [[f2 p2]| | |] eqn:E2; cbn [obind]; try discriminate.
  destruct (flow_cl_tx f2 _) as [[f3 p3]| | |] eqn:E3; cbn [obind]; try discriminate.
  intros E. ok_inv E.
  apply flow_cl_tx_inv in E1 as (s1 & -> & I1 & ->).
  apply flow_sv_tx_inv in E2 as (s2 & -> & I2 & ->).
  apply flow_cl_tx_inv in E3 as (s3 & -> & I3 & ->).
  cbn zeta. split; [|split].
  - cbn. unfold wrap32. lia.
  - cbn. unfold wrap32. lia.
  - exists s1, s2, s3. split; [reflexivity|]. rewrite I1, I2, I3. unfold sinfo. cbn.
    repeat split; repeat f_equal; unfold wrap32; lia.
Qed.

Theorem flow_server_close_trace f f' ps :
  flow_server_close f = Ok (f', ps) ->
  let c := tf_cl_seq f in let s := tf_sv_seq f in
  tf_cl_seq f' = wrap32 (c + 1) /\ tf_sv_seq f' = wrap32 (s + 1)
  /\ exists s1 s2 s3, ps = [seg_packet s1; seg_packet s2; seg_packet s3]
     /\ sinfo s1 = (s, c, 17, []) /\ sinfo s2 = (c, wrap32 (s + 1), 17, [])
     /\ sinfo s3 = (wrap32 (s + 1), wrap32 (c + 1), 16, []).
Proof.
  unfold flow_server_close.
  destruct (flow_sv_tx f _) as [[f1 p1]| | |] eqn:E1; cbn [obind]; try discriminate.
  destruct (flow_cl_tx f1 _) as [[f2 p2]| | |] eqn:E2; cbn [obind]; try discriminate.
  destruct (flow_sv_tx f2 _) as [[f3 p3]| | |] eqn:E3; cbn [obind]; try discriminate.
  intros E. ok_inv E.
  apply flow_sv_tx_inv in E1 as (s1 & -> & I1 & ->).
  apply flow_cl_tx_inv in E2 as (s2 & -> & I2 & ->).
  apply flow_sv_tx_inv in E3 as (s3 & -> & I3 & ->).
  cbn zeta. split; [|split].
  - cbn. unfold wrap32. lia.
  - cbn. unfold wrap32. lia.
  - exists s1, s2, s3. split; [reflexivity|]. rewrite I1, I2, I3. unfold sinfo. cbn.
    repeat split; repeat f_equal; unfold wrap32; lia.
Qed.

(** data: the segment carries the sender's counter, acknowledges the peer's, and advances the sender by
    the payload length; the automatic ACK comes from the peer and acknowledges the advanced counter *)
Lemma seg_data_fields (client : bool) f b off s :
  (if client then flow_cl_seg f b off else flow_sv_seg f b off) = Ok s -> len b < 4294967296 ->
  sinfo s = (if client then tf_cl_seq f else tf_sv_seq f, if client then tf_sv_seq f else tf_cl_seq f, 24, b)
  /\ ts_data_len s + ts_extra s = len b.
Proof.
  unfold flow_cl_seg, flow_sv_seg, seg_push_bytes, seg_append_data, seg_update_tot_len.
  intros E Hb. destruct client;
    (unfold cadd at 1 in E; unfold wrap32 in E; rewrite (N.mod_small (len b)) in E by exact Hb;
     cbn [ts_data_len seg_push seg_ack ts_with_tcp seg_frag_off ts_with_ip flow_cl flow_sv seg_new] in E;
     destruct (0 + len b <? two32); cbn [obind] in E; try discriminate;
     cbn [obind] in E;
     ok_inv E; unfold sinfo; cbn; split; [reflexivity|rewrite N.add_0_l, N.add_0_r; reflexivity]).
Qed.

Theorem flow_client_message_trace f b sa off f' ps :
  flow_client_message f b sa off = Ok (f', ps) -> len b < 4294967296 -> tf_sv_seq f < 4294967296 ->
  let c := tf_cl_seq f in let s := tf_sv_seq f in
  tf_cl_seq f' = wrap32 (c + len b) /\ tf_sv_seq f' = s
  /\ exists s1, sinfo s1 = (c, s, 24, b)
     /\ if sa then exists s2, ps = [seg_packet s1; seg_packet s2] /\ sinfo s2 = (s, wrap32 (c + len b), 16, [])
        else ps = [seg_packet s1].
Proof.
  unfold flow_client_message. intros E Hb Hs32.
  destruct (flow_cl_seg f b off) as [s0| | |] eqn:Es; cbn [obind] in E; try discriminate.
  destruct (seg_data_fields true f b off s0 Es Hb) as (I0 & L0).
  destruct (flow_cl_tx f s0) as [[f1 p1]| | |] eqn:E1; cbn [obind] in E; try discriminate.
  apply flow_cl_tx_inv in E1 as (s1 & -> & I1 & ->). rewrite L0 in *.
  cbn zeta. destruct sa.
  - destruct (flow_sv_tx _ _) as [[f2 p2]| | |] eqn:E2; cbn [obind] in E; try discriminate.
    apply flow_sv_tx_inv in E2 as (s2 & -> & I2 & ->). ok_inv E.
    split; [reflexivity|]. split; [cbn; unfold wrap32; lia|].
    exists s1. split; [rewrite I1; exact I0|]. exists s2. split; [reflexivity|]. rewrite I2. unfold sinfo. cbn. reflexivity.
  - ok_inv E. split; [reflexivity|]. split; [reflexivity|]. exists s1. split; [rewrite I1; exact I0|reflexivity].
Qed.

Theorem flow_server_message_trace f b sa off f' ps :
  flow_server_message f b sa off = Ok (f', ps) -> len b < 4294967296 -> tf_cl_seq f < 4294967296 ->
  let c := tf_cl_seq f in let s := tf_sv_seq f in
  tf_sv_seq f' = wrap32 (s + len b) /\ tf_cl_seq f' = c
  /\ exists s1, sinfo s1 = (s, c, 24, b)
     /\ if sa then exists s2, ps = [seg_packet s1; seg_packet s2] /\ sinfo s2 = (c, wrap32 (s + len b), 16, [])
        else ps = [seg_packet s1].
Proof.
  unfold flow_server_message. intros E Hb Hs32.
  destruct (flow_sv_seg f b off) as [s0| | |] eqn:Es; cbn [obind] in E; try discriminate.
  destruct (seg_data_fields false f b off s0 Es Hb) as (I0 & L0).
  destruct (flow_sv_tx f s0) as [[f1 p1]| | |] eqn:E1; cbn [obind] in E; try discriminate.
  apply flow_sv_tx_inv in E1 as (s1 & -> & I1 & ->). rewrite L0 in *.
  cbn zeta. destruct sa.
  - destruct (flow_cl_tx _ _) as [[f2 p2]| | |] eqn:E2; cbn [obind] in E; try discriminate.
    apply flow_cl_tx_inv in E2 as (s2 & -> & I2 & ->). ok_inv E.
    split; [reflexivity|]. split; [cbn; unfold wrap32; lia|].
    exists s1. split; [rewrite I1; exact I0|]. exists s2. split; [reflexivity|]. rewrite I2. unfold sinfo. cbn. reflexivity.
  - ok_inv E. split; [reflexivity|]. split; [reflexivity|]. exists s1. split; [rewrite I1; exact I0|reflexivity].
Qed.

(** holes only move the counter *)
Theorem flow_hole_trace f n :
  tf_cl_seq (flow_client_hole f n) = wrap32 (tf_cl_seq f + n) /\ tf_sv_seq (flow_client_hole f n) = tf_sv_seq f
  /\ tf_sv_seq (flow_server_hole f n) = wrap32 (tf_sv_seq f + n) /\ tf_cl_seq (flow_server_hole f n) = tf_cl_seq f.
Proof. repeat split. Qed.

(** bare ACKs and resets carry the counters and consume nothing (the flow is not even returned) *)
Theorem flow_ack_reset_trace f :
  (forall s, flow_client_ack f = Ok s -> sinfo s = (tf_cl_seq f, tf_sv_seq f, 16, [])) /\
  (forall s, flow_server_ack f = Ok s -> sinfo s = (tf_sv_seq f, tf_cl_seq f, 16, [])) /\
  (forall p, flow_client_reset f = Ok p -> exists s, p = seg_packet s /\ sinfo s = (tf_cl_seq f, 0, 4, [])) /\
  (forall p, flow_server_reset f = Ok p -> exists s, p = seg_packet s /\ sinfo s = (tf_sv_seq f, 0, 4, [])).
Proof.
  unfold flow_client_ack, flow_server_ack, flow_client_reset, flow_server_reset, seg_tcp_csum, cadd.
  split; [|split; [|split]].
  - intros s. destruct (_ <? two32); cbn [obind]; try discriminate. destruct (_ <? two32); cbn [obind]; try discriminate.
    intros E. ok_inv E. reflexivity.
  - intros s. destruct (_ <? two32); cbn [obind]; try discriminate. destruct (_ <? two32); cbn [obind]; try discriminate.
    intros E. ok_inv E. reflexivity.
  - intros p. destruct (_ <? two32); cbn [obind]; try discriminate. destruct (_ <? two32); cbn [obind]; try discriminate.
    intros E. ok_inv E. eexists. split; reflexivity.
  - intros p. destruct (_ <? two32); cbn [obind]; try discriminate. destruct (_ <? two32); cbn [obind]; try discriminate.
    intros E. ok_inv E. eexists. split; reflexivity.
Qed.

(** the account: counters are (isn + consumed) mod 2^32 before and after any advance *)
Theorem counters_follow_account f a n :
  flow_abs f a ->
  flow_abs (flow_cl_update f n) (acc_use_cl a n) /\ flow_abs (flow_sv_update f n) (acc_use_sv a n).
Proof. intros H. split; [apply abs_cl_update|apply abs_sv_update]; exact H. Qed.

Lemma wrap32_acc isn used n : wrap32 ((isn + used) mod 4294967296 + n) = (isn + (used + n)) mod 4294967296.
Proof. unfold wrap32. lia. Qed.

(** stream placement: a data segment sent when [used] sequence space (one of it the SYN) was consumed
    lands at offset used - 1, whatever the ISN, including ISNs that wrap *)
Theorem data_offsets isn used :
  isn < 4294967296 -> 1 <= used -> used < 4294967296 ->
  stream_offset isn ((isn + used) mod 4294967296) = used - 1.
Proof. intros H1 H2 H3. unfold stream_offset. lia. Qed.

(** overrides (src/stdlib/ipv4/tcp.rs push_state / pop_state around the call): the overridden counter
    resumes its previous value, a counter that is not overridden keeps what the call made of it *)
Theorem override_is_local {A} f (client : bool) seq ack (k : tcp_flow -> outcome (tcp_flow * A)) f' v :
  with_override f client seq ack k = Ok (f', v) ->
  exists f1 f2, k f1 = Ok (f2, v)
    /\ let mine f := if client then tf_cl_seq f else tf_sv_seq f in
       let peer f := if client then tf_sv_seq f else tf_cl_seq f in
       mine f1 = match seq with Some x => x | None => mine f end
    /\ peer f1 = match ack with Some x => x | None => peer f end
    /\ mine f' = match seq with Some _ => mine f | None => mine f2 end
    /\ peer f' = match ack with Some _ => peer f | None => peer f2 end.
Proof.
  unfold with_override. intros E.
  destruct (k _) as [[f2 v2]| | |] eqn:Ek; cbn [obind] in E; try discriminate.
  ok_inv E. eexists. exists f2. split; [exact Ek|].
  destruct client, seq, ack; cbn; repeat split; reflexivity.
Qed.
