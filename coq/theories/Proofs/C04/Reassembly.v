(** C04, reassembly: from the segments of an override-free history, in any order and with any repetitions, a
    reassembler that places payload bytes at (seq - ISN - 1) mod 2^32 recovers exactly the scripted streams. *)
From RS Require Import Base.Bytes Base.Outcome Ez.Tcp Spec.Wire Spec.TcpAccount Spec.TcpHistory
  Proofs.BytesLemmas Proofs.Tactics Proofs.C04.Seq Proofs.C04.Ops Proofs.C04.History.
From Coq Require Import ZArith Lia ZifyBool ZifyNat ZifyN.
Ltac Zify.zify_post_hook ::= Z.div_mod_to_equations.
Open Scope N_scope.

(* ---------------- the layout as a function of the offset ---------------- *)
Lemma nth_map_Some {A} (l : list A) i : nth i (map Some l) None = nth_error l i.
Proof. revert i. induction l as [|x r IH]; intros [|i]; cbn [map nth nth_error]; try reflexivity. apply IH. Qed.

Lemma nth_repeat_None {A} n i : nth i (repeat (@None A) n) None = None.
Proof. revert i. induction n as [|n IH]; intros [|i]; cbn [repeat nth]; try reflexivity. apply IH. Qed.

Lemma len_repeat {A} (x : A) n : len (repeat x n) = N.of_nat n.
Proof. unfold len. rewrite repeat_length. reflexivity. Qed.

Definition lay (l : list (option N)) (j : N) : option N := nth (N.to_nat j) l None.

Lemma lay_cons d o r j :
  lay (layout d (o :: r)) j =
  if j <? len (op_data d o) then nth_error (op_data d o) (N.to_nat j)
  else if j <? len (op_data d o) + op_gap d o then None
  else lay (layout d r) (j - len (op_data d o) - op_gap d o).
Proof.
  unfold lay. cbn [layout].
  assert (L1 : length (map Some (op_data d o)) = length (op_data d o)) by apply map_length.
  assert (L2 : length (repeat (@None N) (N.to_nat (op_gap d o))) = N.to_nat (op_gap d o)) by apply repeat_length.
  unfold len. destruct (j <? N.of_nat (length (op_data d o))) eqn:C1.
  - rewrite app_nth1 by lia. apply nth_map_Some.
  - rewrite app_nth2 by lia. destruct (j <? N.of_nat (length (op_data d o)) + op_gap d o) eqn:C2.
    + rewrite app_nth1 by lia. apply nth_repeat_None.
    + rewrite app_nth2 by lia. f_equal. lia.
Qed.

Lemma total_use_cons d o r : total_use d (o :: r) = len (op_data d o) + op_gap d o + total_use d r.
Proof. unfold total_use. cbn [layout]. rewrite !len_app, len_map, len_repeat. lia. Qed.

(* ---------------- what one operation contributes ---------------- *)
Lemma plain_used a o d :
  used (fst (spec_plain a o)) d = used a d + len (op_data d o) + op_gap d o
  /\ isn (fst (spec_plain a o)) d = isn a d.
Proof.
  destruct o as [|d' b sa fo sq ak|d' raw b sq ak|d' n|d' sq ak|d' n|d'|d'];
    try destruct d'; destruct d;
    cbn [spec_plain fst use used isn op_data op_gap dir_eqb opp];
    unfold acc_use_cl, acc_use_sv; cbn [a_cl_isn a_cl_used a_sv_isn a_sv_used];
    change (len (@nil N)) with 0; split; try reflexivity; lia.
Qed.

(** segments of direction d: the one that carries data carries the operation's data at d's next number *)
Lemma plain_segs_sound a o d x :
  In x (snd (spec_plain a o)) -> si_dir x = d ->
  si_payload x = [] \/ (si_seq x = nxt a d /\ si_payload x = op_data d o).
Proof.
  destruct o as [|d' b sa fo sq ak|d' raw b sq ak|d' n|d' sq ak|d' n|d'|d'];
    cbn [spec_plain snd]; try destruct sa; cbn [In];
    intros H; repeat (destruct H as [H|H]; [subst x|]); try contradiction;
    cbn [si_dir si_payload si_seq]; intros <-; try (left; reflexivity);
    right; destruct d'; cbn [op_data dir_eqb]; split; reflexivity.
Qed.

Lemma plain_segs_complete a o d :
  op_data d o = [] \/
  exists x, In x (snd (spec_plain a o)) /\ si_dir x = d /\ si_seq x = nxt a d /\ si_payload x = op_data d o.
Proof.
  destruct o as [|d' b sa fo sq ak|d' raw b sq ak|d' n|d' sq ak|d' n|d'|d'];
    try (left; reflexivity); destruct d, d'; cbn [op_data dir_eqb]; try (left; reflexivity);
    right; eexists; (split; [cbn [spec_plain snd]; left; reflexivity|]); cbn [si_dir si_seq si_payload]; repeat split.
Qed.

(* ---------------- one segment in the stream ---------------- *)
Lemma seg_byte_nil isn0 d x k : si_payload x = [] -> seg_byte isn0 d x k = None.
Proof.
  intros E. unfold seg_byte. rewrite E. change (len (@nil N)) with 0.
  destruct (dir_eqb _ _); cbn [andb]; [|reflexivity].
  destruct (_ <=? k) eqn:C1; cbn [andb]; [|reflexivity].
  destruct (k <? _) eqn:C2; [lia|reflexivity].
Qed.

Lemma seg_byte_dir isn0 d x k v : seg_byte isn0 d x k = Some v -> si_dir x = d.
Proof.
  unfold seg_byte. destruct (si_dir x), d; cbn [dir_eqb andb]; try discriminate; reflexivity.
Qed.

Lemma dir_eqb_refl d : dir_eqb d d = true. Proof. destruct d; reflexivity. Qed.

(** a segment sent after u units of sequence space sits at offset u - 1 *)
Lemma seg_byte_at isn0 d x k u :
  si_dir x = d -> isn0 < 4294967296 -> 1 <= u -> u < 4294967296 ->
  si_seq x = (isn0 + u) mod 4294967296 ->
  seg_byte isn0 d x k =
  if (u - 1 <=? k) && (k <? u - 1 + len (si_payload x)) then nth_error (si_payload x) (N.to_nat (k - (u - 1))) else None.
Proof.
  intros Ed Hi H1 H2 Es. unfold seg_byte. rewrite Ed, dir_eqb_refl, Es. cbn [andb].
  rewrite (data_offsets isn0 u Hi H1 H2). reflexivity.
Qed.

(* ---------------- all segments of a history, against the layout ---------------- *)
Section Side.
Variable d : dir.
Variable isn0 : N.
Hypothesis isn0_lt : isn0 < 4294967296.

Lemma nxt_used a : isn a d = isn0 -> nxt a d = (isn0 + used a d) mod 4294967296.
Proof. intros <-. destruct d; reflexivity. Qed.

(** every byte a segment of the history supplies is the layout's byte at that offset *)
Lemma history_sound ops : forall a x k v,
  isn a d = isn0 -> 1 <= used a d -> used a d + total_use d ops <= 4294967296 ->
  In x (snd (plain_ops a ops)) -> seg_byte isn0 d x k = Some v ->
  used a d - 1 <= k /\ lay (layout d ops) (k - (used a d - 1)) = Some v.
Proof.
  induction ops as [|o r IH]; intros a x k v Hi H1 Ht Hin Hb; [contradiction|].
  cbn [plain_ops snd] in Hin. rewrite total_use_cons in Ht.
  destruct (plain_used a o d) as (Pu & Pi).
  apply in_app_or in Hin. destruct Hin as [Hin|Hin].
  - pose proof (seg_byte_dir _ _ _ _ _ Hb) as Ed.
    destruct (plain_segs_sound a o d x Hin Ed) as [En|(Es & Ep)].
    + rewrite (seg_byte_nil _ _ _ _ En) in Hb. discriminate.
    + rewrite (nxt_used a Hi) in Es.
      assert (Hne : 1 <= len (op_data d o)).
      { rewrite <- Ep. destruct (si_payload x) eqn:Ex; [|unfold len; cbn [length]; lia].
        rewrite (seg_byte_nil _ _ _ _ Ex) in Hb. discriminate. }
      rewrite (seg_byte_at isn0 d x k (used a d) Ed isn0_lt H1 ltac:(lia) Es) in Hb.
      rewrite Ep in Hb.
      destruct (used a d - 1 <=? k) eqn:C1; cbn [andb] in Hb; [|discriminate].
      destruct (k <? used a d - 1 + len (op_data d o)) eqn:C2; [|discriminate].
      split; [lia|]. rewrite lay_cons.
      destruct (k - (used a d - 1) <? len (op_data d o)) eqn:C3; [exact Hb|lia].
  - destruct (IH (fst (spec_plain a o)) x k v) as (Hk & Hl); try assumption.
    + rewrite Pi. exact Hi.
    + lia.
    + lia.
    + split; [lia|]. rewrite lay_cons.
      destruct (k - (used a d - 1) <? len (op_data d o)) eqn:C3; [lia|].
      destruct (k - (used a d - 1) <? len (op_data d o) + op_gap d o) eqn:C4; [lia|].
      rewrite <- Hl. f_equal. lia.
Qed.

(** every byte of the layout is supplied by some segment of the history *)
Lemma history_complete ops : forall a j v,
  isn a d = isn0 -> 1 <= used a d -> used a d + total_use d ops <= 4294967296 ->
  lay (layout d ops) j = Some v ->
  exists x, In x (snd (plain_ops a ops)) /\ seg_byte isn0 d x (used a d - 1 + j) = Some v.
Proof.
  induction ops as [|o r IH]; intros a j v Hi H1 Ht Hl.
  - unfold lay in Hl. cbn [layout] in Hl. destruct (N.to_nat j); discriminate.
  - rewrite total_use_cons in Ht. destruct (plain_used a o d) as (Pu & Pi).
    rewrite lay_cons in Hl. cbn [plain_ops snd].
    destruct (j <? len (op_data d o)) eqn:C1.
    + destruct (plain_segs_complete a o d) as [En|(x & Hin & Ed & Es & Ep)].
      * rewrite En in C1. change (len (@nil N)) with 0 in C1. lia.
      * exists x. split; [apply in_or_app; left; exact Hin|].
        rewrite (nxt_used a Hi) in Es.
        rewrite (seg_byte_at isn0 d x _ (used a d) Ed isn0_lt H1 ltac:(lia) Es). rewrite Ep.
        destruct (used a d - 1 <=? used a d - 1 + j) eqn:C2; [|lia].
        destruct (used a d - 1 + j <? used a d - 1 + len (op_data d o)) eqn:C3; [|lia].
        cbn [andb]. rewrite <- Hl. f_equal. lia.
    + destruct (j <? len (op_data d o) + op_gap d o) eqn:C2; [discriminate|].
      destruct (IH (fst (spec_plain a o)) (j - len (op_data d o) - op_gap d o) v) as (x & Hin & Hb).
      * rewrite Pi. exact Hi.
      * lia.
      * lia.
      * exact Hl.
      * exists x. split; [apply in_or_app; right; exact Hin|]. rewrite <- Hb. f_equal. lia.
Qed.

(** hence a reassembler fed the segments in any order, any number of times, rebuilds the layout *)
Lemma reasm_layout ops a segs' :
  isn a d = isn0 -> 1 <= used a d -> used a d + total_use d ops <= 4294967296 ->
  (forall x, In x segs' -> In x (snd (plain_ops a ops)) \/ si_payload x = []) ->
  (forall x, In x (snd (plain_ops a ops)) -> In x segs') ->
  forall k, reasm isn0 d segs' k = if used a d - 1 <=? k then lay (layout d ops) (k - (used a d - 1)) else None.
Proof.
  intros Hi H1 Ht Hsub Hsup k.
  assert (S : forall x v, In x segs' -> seg_byte isn0 d x k = Some v ->
              used a d - 1 <= k /\ lay (layout d ops) (k - (used a d - 1)) = Some v).
  { intros x v Hin Hb. destruct (Hsub x Hin) as [Hs|En]; [|rewrite (seg_byte_nil _ _ _ _ En) in Hb; discriminate].
    apply (history_sound ops a x k v Hi H1 Ht); [exact Hs|exact Hb]. }
  assert (C : forall v, used a d - 1 <= k -> lay (layout d ops) (k - (used a d - 1)) = Some v ->
              exists x, In x segs' /\ seg_byte isn0 d x k = Some v).
  { intros v Hk Hl. destruct (history_complete ops a _ v Hi H1 Ht Hl) as (x & Hin & Hb).
    exists x. split; [apply Hsup; exact Hin|]. rewrite <- Hb. f_equal. lia. }
  clear Hsub Hsup.
  destruct (reasm isn0 d segs' k) as [v|] eqn:R.
  - assert (E : exists x, In x segs' /\ seg_byte isn0 d x k = Some v).
    { clear S C. induction segs' as [|y r IH]; [discriminate|]. cbn [reasm] in R.
      destruct (seg_byte isn0 d y k) as [w|] eqn:B.
      - exists y. split; [left; reflexivity|]. rewrite B. exact R.
      - destruct (IH R) as (x & Hin & Hb). exists x. split; [right; exact Hin|exact Hb]. }
    destruct E as (x & Hin & Hb). destruct (S x v Hin Hb) as (Hk & Hl).
    destruct (used a d - 1 <=? k) eqn:C1; [symmetry; exact Hl|lia].
  - destruct (used a d - 1 <=? k) eqn:C1; [|reflexivity].
    destruct (lay (layout d ops) (k - (used a d - 1))) as [v|] eqn:L; [|reflexivity].
    destruct (C v ltac:(lia) eq_refl) as (x & Hin & Hb). exfalso.
    clear S C. induction segs' as [|y r IH]; [contradiction|]. cbn [reasm] in R.
    destruct (seg_byte isn0 d y k) as [w|] eqn:B; [discriminate|].
    destruct Hin as [->|Hin]; [congruence|]. exact (IH R Hin).
Qed.
End Side.


(** the connection is opened, then anything without overrides happens; the stream of side d begins after its SYN *)
Theorem reassembly_any_order d rest c0 s0 f f' segs segs' :
  c0 < 4294967296 -> s0 < 4294967296 -> tf_cl_seq f = c0 -> tf_sv_seq f = s0 ->
  Forall no_override rest -> run_ops f (OOpen :: rest) = Ok (f', segs) ->
  1 + total_use d rest <= 4294967296 ->
  (forall x, In x segs' <-> In x segs) ->
  forall k, reasm (isn_of c0 s0 d) d segs' k = nth (N.to_nat k) (layout d rest) None.
Proof.
  intros Hc Hs Ec Es U E Ht Hsame k.
  assert (U1 : Forall no_override (OOpen :: rest)) by (constructor; [exact I|exact U]).
  destruct (history_refines_plain _ c0 s0 f f' segs Hc Hs Ec Es U1 E) as (S & _).
  cbn [plain_ops snd] in S.
  set (a1 := fst (spec_plain (acc_init c0 s0) OOpen)) in *.
  assert (Hi : isn a1 d = isn_of c0 s0 d) by (destruct d; reflexivity).
  assert (Hu : used a1 d = 1) by (destruct d; reflexivity).
  assert (Hlt : isn_of c0 s0 d < 4294967296) by (destruct d; assumption).
  rewrite (reasm_layout d (isn_of c0 s0 d) Hlt rest a1 segs' Hi).
  - rewrite Hu. change (1 - 1) with 0. destruct (0 <=? k) eqn:C; [|lia]. unfold lay. f_equal. lia.
  - rewrite Hu. lia.
  - rewrite Hu. exact Ht.
  - intros x Hin. apply Hsame in Hin. rewrite S in Hin. apply in_app_or in Hin. destruct Hin as [Hin|Hin]; [|left; exact Hin].
    right. cbn [spec_plain snd In] in Hin.
    repeat (destruct Hin as [Hin|Hin]; [subst x; reflexivity|]). contradiction.
  - intros x Hin. apply Hsame. rewrite S. apply in_or_app. right. exact Hin.
Qed.

(** the same as lists: reading offsets 0 .. n-1 gives the layout itself *)
Lemma map_nth_seq {A} (l : list A) (dflt : A) : map (fun i => nth i l dflt) (seq 0 (length l)) = l.
Proof.
  induction l as [|x r IH]; [reflexivity|].
  cbn [length seq map nth]. f_equal. rewrite <- seq_shift, map_map. exact IH.
Qed.

Theorem reassembled_stream d rest c0 s0 f f' segs segs' :
  c0 < 4294967296 -> s0 < 4294967296 -> tf_cl_seq f = c0 -> tf_sv_seq f = s0 ->
  Forall no_override rest -> run_ops f (OOpen :: rest) = Ok (f', segs) ->
  1 + total_use d rest <= 4294967296 ->
  (forall x, In x segs' <-> In x segs) ->
  reasm_stream (isn_of c0 s0 d) d segs' (length (layout d rest)) = layout d rest.
Proof.
  intros Hc Hs Ec Es U E Ht Hsame. unfold reasm_stream.
  rewrite <- (map_nth_seq (layout d rest) None) at 2.
  apply map_ext. intros i.
  rewrite (reassembly_any_order d rest c0 s0 f f' segs segs' Hc Hs Ec Es U E Ht Hsame).
  rewrite Nat2N.id. reflexivity.
Qed.

(** without holes, header-only segments, closes or further opens on side d, the stream is the concatenation
    of the payloads of d's data operations, in order *)
Lemma layout_no_gaps d ops :
  Forall (fun o => op_gap d o = 0) ops -> layout d ops = map Some (concat (map (op_data d) ops)).
Proof.
  induction ops as [|o r IH]; intros G; [reflexivity|].
  cbn [layout map concat]. rewrite (Forall_inv G). cbn [N.to_nat repeat app].
  rewrite (IH (Forall_inv_tail G)), map_app. reflexivity.
Qed.
