(** C04, history level: every operation of a flow, with or without overrides, emits exactly the segments of the
    abstract account (Spec/TcpHistory.v), and the counters of the flow stay the account's modulo 2^32 -- hence,
    by induction, so does every finite sequence of operations. *)
From RS Require Import Base.Bytes Base.Outcome Pkt.Csum Pkt.Hdrs Pkt.Packet Ez.Tcp Interp.Val Lib.LibBase Lib.Ipv4Lib
  Spec.Wire Spec.TcpAccount Spec.TcpHistory Proofs.BytesLemmas Proofs.C02.IpLemmas Proofs.Tactics
  Proofs.C04.Seq Proofs.C04.Ops.
From Coq Require Import ZArith Lia ZifyBool ZifyNat ZifyN.
Ltac Zify.zify_post_hook ::= Z.div_mod_to_equations.
Open Scope N_scope.

(* ---------------- reading a segment back from the wire ---------------- *)
(** what a segment record says about itself *)
Definition info (d : dir) (s : tcp_seg) : seginfo :=
  (d, th_seq (ts_tcp s), (if N.testbit (th_flags (ts_tcp s)) 4 then Some (th_ack (ts_tcp s)) else None),
   th_flags (ts_tcp s), ts_payload s).

Lemma rd_be32 x : x < 4294967296 ->
  ((x / 65536 / 256) mod 256 * 256 + (x / 65536) mod 256) * 65536
  + ((x mod 65536 / 256) mod 256 * 256 + (x mod 65536) mod 256) = x.
Proof. intros H. lia. Qed.

Lemma wire_seg_ser d h pl :
  th_seq h < 4294967296 -> th_ack h < 4294967296 ->
  wire_seg d (tcp_ser h ++ pl)
  = (d, th_seq h, (if N.testbit (th_flags h) 4 then Some (th_ack h) else None), th_flags h, pl).
Proof.
  intros Hs Ha.
  unfold wire_seg, tcp_seq_of, tcp_ack_of, tcp_flags_of, tcp_payload_of, u32_at, u16_at, tcp_ser, be32, be16.
  cbn [app nth Nat.add skipn].
  rewrite (rd_be32 _ Hs), (rd_be32 _ Ha). reflexivity.
Qed.

Lemma frame_l4_seg raw s :
  ts_raw s = raw -> length (eth_ser (ts_eth s)) = 14%nat ->
  frame_l4 raw (pkt_frame (seg_packet s)) = seg_tcpseg s.
Proof.
  intros H1 H4. unfold frame_l4, pkt_frame, seg_packet, pkt_of_body, seg_bytes, seg_l3_bytes, seg_tcpseg.
  cbn [pk_body]. rewrite H1.
  assert (E : skipn 20 (ip_ser (ts_ip s) ++ tcp_ser (ts_tcp s) ++ ts_payload s) = tcp_ser (ts_tcp s) ++ ts_payload s).
  { pose proof (length_ip_ser (ts_ip s)) as L. rewrite skipn_app, L, Nat.sub_diag. rewrite (skipn_all2 (ip_ser (ts_ip s))) by lia. reflexivity. }
  destruct raw; [exact E|].
  rewrite skipn_app, H4, Nat.sub_diag. rewrite (skipn_all2 (eth_ser (ts_eth s))) by lia. cbn [app skipn]. exact E.
Qed.

Lemma csum_shape s s' : seg_tcp_csum s = Ok s' -> exists v, s' = ts_with_tcp s (th_set_csum (ts_tcp s) v).
Proof.
  unfold seg_tcp_csum, cadd.
  destruct (_ <? two32); cbn [obind]; try discriminate.
  destruct (_ <? two32); cbn [obind]; try discriminate.
  intros E. apply Ok_inj in E. eexists. symmetry. exact E.
Qed.

(** the checksummed segment, as a bare segment and inside its frame, reads back as the record says *)
Lemma csum_obs s s' raw :
  seg_tcp_csum s = Ok s' -> ts_raw s = raw -> length (eth_ser (ts_eth s)) = 14%nat ->
  th_seq (ts_tcp s) < 4294967296 -> th_ack (ts_tcp s) < 4294967296 ->
  (forall d, wire_seg d (seg_tcpseg s') = info d s)
  /\ frame_l4 raw (pkt_frame (seg_packet s')) = seg_tcpseg s'.
Proof.
  intros E Hr He Hs Ha. destruct (csum_shape _ _ E) as (v & ->). split.
  - intros d. unfold seg_tcpseg. cbn [ts_with_tcp ts_tcp ts_payload].
    rewrite wire_seg_ser by (cbn [th_set_csum th_seq th_ack]; assumption). reflexivity.
  - apply frame_l4_seg; [exact Hr|exact He].
Qed.

Lemma consumed_inv s n : seg_seq_consumed s = Ok n -> n = ts_data_len s + ts_extra s.
Proof. unfold seg_seq_consumed, cadd. destruct (_ <? two32); try discriminate. intros E. apply Ok_inj in E. symmetry. exact E. Qed.

(* ---------------- the counters follow the account ---------------- *)
Lemma abs_lt f a : flow_abs f a -> tf_cl_seq f < 4294967296 /\ tf_sv_seq f < 4294967296.
Proof. intros (Hc & Hs). rewrite Hc, Hs. unfold acc_cl, acc_sv. split; apply N.mod_lt; discriminate. Qed.

Lemma abs_upd_cl f a n m : flow_abs f a -> n mod 4294967296 = m mod 4294967296 ->
  flow_abs (flow_cl_update f n) (acc_use_cl a m).
Proof.
  intros (Hc & Hs) E. unfold flow_abs, flow_cl_update, acc_cl, acc_sv, acc_use_cl, wrap32 in *.
  cbn [tf_cl_seq tf_sv_seq tf_with_seqs a_cl_isn a_cl_used a_sv_isn a_sv_used]. rewrite Hc, Hs. split; [lia|reflexivity].
Qed.
Lemma abs_upd_sv f a n m : flow_abs f a -> n mod 4294967296 = m mod 4294967296 ->
  flow_abs (flow_sv_update f n) (acc_use_sv a m).
Proof.
  intros (Hc & Hs) E. unfold flow_abs, flow_sv_update, acc_cl, acc_sv, acc_use_sv, wrap32 in *.
  cbn [tf_cl_seq tf_sv_seq tf_with_seqs a_cl_isn a_cl_used a_sv_isn a_sv_used]. rewrite Hc, Hs. split; [reflexivity|lia].
Qed.
Lemma abs_upd0_cl f a n : flow_abs f a -> n mod 4294967296 = 0 -> flow_abs (flow_cl_update f n) a.
Proof.
  intros (Hc & Hs) E. unfold flow_abs, flow_cl_update, acc_cl, acc_sv, wrap32 in *.
  cbn [tf_cl_seq tf_sv_seq tf_with_seqs]. rewrite Hc, Hs. split; [lia|reflexivity].
Qed.
Lemma abs_upd0_sv f a n : flow_abs f a -> n mod 4294967296 = 0 -> flow_abs (flow_sv_update f n) a.
Proof.
  intros (Hc & Hs) E. unfold flow_abs, flow_sv_update, acc_cl, acc_sv, wrap32 in *.
  cbn [tf_cl_seq tf_sv_seq tf_with_seqs]. rewrite Hc, Hs. split; [reflexivity|lia].
Qed.

(** one transmission: the frame reads back as the segment record, the sender's counter advances *)
Lemma cl_tx_obs f s f' p raw :
  flow_cl_tx f s = Ok (f', p) -> ts_raw s = raw -> length (eth_ser (ts_eth s)) = 14%nat ->
  th_seq (ts_tcp s) < 4294967296 -> th_ack (ts_tcp s) < 4294967296 ->
  (forall d, wire_seg d (frame_l4 raw (pkt_frame p)) = info d s)
  /\ f' = flow_cl_update f (ts_data_len s + ts_extra s).
Proof.
  unfold flow_cl_tx. intros E Hr He Hs Ha.
  destruct (seg_seq_consumed s) as [n| | |] eqn:En; cbn [obind] in E; try discriminate.
  destruct (seg_tcp_csum s) as [s1| | |] eqn:Ec; cbn [obind] in E; try discriminate.
  ok_inv E. apply consumed_inv in En. subst n.
  destruct (csum_obs _ _ _ Ec eq_refl He Hs Ha) as (W & F). split; [|reflexivity].
  intros d. rewrite F. apply W.
Qed.
Lemma sv_tx_obs f s f' p raw :
  flow_sv_tx f s = Ok (f', p) -> ts_raw s = raw -> length (eth_ser (ts_eth s)) = 14%nat ->
  th_seq (ts_tcp s) < 4294967296 -> th_ack (ts_tcp s) < 4294967296 ->
  (forall d, wire_seg d (frame_l4 raw (pkt_frame p)) = info d s)
  /\ f' = flow_sv_update f (ts_data_len s + ts_extra s).
Proof.
  unfold flow_sv_tx. intros E Hr He Hs Ha.
  destruct (seg_seq_consumed s) as [n| | |] eqn:En; cbn [obind] in E; try discriminate.
  destruct (seg_tcp_csum s) as [s1| | |] eqn:Ec; cbn [obind] in E; try discriminate.
  ok_inv E. apply consumed_inv in En. subst n.
  destruct (csum_obs _ _ _ Ec eq_refl He Hs Ha) as (W & F). split; [|reflexivity].
  intros d. rewrite F. apply W.
Qed.

Lemma cl_tx_step f a s f' p raw m :
  flow_abs f a -> tf_raw f = raw -> flow_cl_tx f s = Ok (f', p) ->
  ts_raw s = raw -> length (eth_ser (ts_eth s)) = 14%nat ->
  th_seq (ts_tcp s) < 4294967296 -> th_ack (ts_tcp s) < 4294967296 ->
  (ts_data_len s + ts_extra s) mod 4294967296 = m mod 4294967296 ->
  (forall d, wire_seg d (frame_l4 raw (pkt_frame p)) = info d s) /\ flow_abs f' (acc_use_cl a m) /\ tf_raw f' = raw.
Proof.
  intros Habs R E Hr He Hs Ha Hm. destruct (cl_tx_obs _ _ _ _ _ E Hr He Hs Ha) as (W & ->).
  split; [exact W|]. split; [apply abs_upd_cl; assumption|exact R].
Qed.
Lemma sv_tx_step f a s f' p raw m :
  flow_abs f a -> tf_raw f = raw -> flow_sv_tx f s = Ok (f', p) ->
  ts_raw s = raw -> length (eth_ser (ts_eth s)) = 14%nat ->
  th_seq (ts_tcp s) < 4294967296 -> th_ack (ts_tcp s) < 4294967296 ->
  (ts_data_len s + ts_extra s) mod 4294967296 = m mod 4294967296 ->
  (forall d, wire_seg d (frame_l4 raw (pkt_frame p)) = info d s) /\ flow_abs f' (acc_use_sv a m) /\ tf_raw f' = raw.
Proof.
  intros Habs R E Hr He Hs Ha Hm. destruct (sv_tx_obs _ _ _ _ _ E Hr He Hs Ha) as (W & ->).
  split; [exact W|]. split; [apply abs_upd_sv; assumption|exact R].
Qed.
Lemma cl_tx_step0 f a s f' p raw :
  flow_abs f a -> tf_raw f = raw -> flow_cl_tx f s = Ok (f', p) ->
  ts_raw s = raw -> length (eth_ser (ts_eth s)) = 14%nat ->
  th_seq (ts_tcp s) < 4294967296 -> th_ack (ts_tcp s) < 4294967296 ->
  (ts_data_len s + ts_extra s) mod 4294967296 = 0 ->
  (forall d, wire_seg d (frame_l4 raw (pkt_frame p)) = info d s) /\ flow_abs f' a /\ tf_raw f' = raw.
Proof.
  intros Habs R E Hr He Hs Ha Hm. destruct (cl_tx_obs _ _ _ _ _ E Hr He Hs Ha) as (W & ->).
  split; [exact W|]. split; [apply abs_upd0_cl; assumption|exact R].
Qed.
Lemma sv_tx_step0 f a s f' p raw :
  flow_abs f a -> tf_raw f = raw -> flow_sv_tx f s = Ok (f', p) ->
  ts_raw s = raw -> length (eth_ser (ts_eth s)) = 14%nat ->
  th_seq (ts_tcp s) < 4294967296 -> th_ack (ts_tcp s) < 4294967296 ->
  (ts_data_len s + ts_extra s) mod 4294967296 = 0 ->
  (forall d, wire_seg d (frame_l4 raw (pkt_frame p)) = info d s) /\ flow_abs f' a /\ tf_raw f' = raw.
Proof.
  intros Habs R E Hr He Hs Ha Hm. destruct (sv_tx_obs _ _ _ _ _ E Hr He Hs Ha) as (W & ->).
  split; [exact W|]. split; [apply abs_upd0_sv; assumption|exact R].
Qed.

(** the segments the flow builds from its own state *)
Lemma info_cl_syn e f : info e (seg_syn (flow_cl f)) = (e, tf_cl_seq f, None, 2, []). Proof. reflexivity. Qed.
Lemma info_sv_syn_ack e f : info e (seg_syn_ack (flow_sv f)) = (e, tf_sv_seq f, Some (tf_cl_seq f), 18, []). Proof. reflexivity. Qed.
Lemma info_cl_ack e f : info e (seg_ack (flow_cl f)) = (e, tf_cl_seq f, Some (tf_sv_seq f), 16, []). Proof. reflexivity. Qed.
Lemma info_sv_ack e f : info e (seg_ack (flow_sv f)) = (e, tf_sv_seq f, Some (tf_cl_seq f), 16, []). Proof. reflexivity. Qed.
Lemma info_cl_fin_ack e f : info e (seg_fin_ack (flow_cl f)) = (e, tf_cl_seq f, Some (tf_sv_seq f), 17, []). Proof. reflexivity. Qed.
Lemma info_sv_fin_ack e f : info e (seg_fin_ack (flow_sv f)) = (e, tf_sv_seq f, Some (tf_cl_seq f), 17, []). Proof. reflexivity. Qed.
Lemma info_cl_rst e f : info e (seg_rst (flow_cl f)) = (e, tf_cl_seq f, None, 4, []). Proof. reflexivity. Qed.
Lemma info_sv_rst e f : info e (seg_rst (flow_sv f)) = (e, tf_sv_seq f, None, 4, []). Proof. reflexivity. Qed.
Lemma info_cl_push e f : info e (seg_push (flow_cl f)) = (e, tf_cl_seq f, Some (tf_sv_seq f), 24, []). Proof. reflexivity. Qed.
Lemma info_sv_push e f : info e (seg_push (flow_sv f)) = (e, tf_sv_seq f, Some (tf_cl_seq f), 24, []). Proof. reflexivity. Qed.

Definition wires (raw : bool) (ds : list dir) (ps : list packet) : list seginfo :=
  map (fun ds => wire_seg (fst ds) (snd ds)) (combine ds (map (fun p => frame_l4 raw (pkt_frame p)) ps)).


Ltac tx_cl T A R E m :=
  pose proof (cl_tx_step _ _ _ _ _ _ m A R E) as T.
Ltac tx_sv T A R E m :=
  pose proof (sv_tx_step _ _ _ _ _ _ m A R E) as T.

Lemma open_refines f a f' ps :
  flow_abs f a -> flow_open f = Ok (f', ps) ->
  wires (tf_raw f) [Cl; Sv; Cl] ps = snd (spec_plain a OOpen)
  /\ flow_abs f' (fst (spec_plain a OOpen)) /\ tf_raw f' = tf_raw f.
Proof.
  intros A0. unfold flow_open.
  destruct (flow_cl_tx f _) as [[f1 p1]| | |] eqn:E1; cbn [obind]; try discriminate.
  destruct (flow_sv_tx f1 _) as [[f2 p2]| | |] eqn:E2; cbn [obind]; try discriminate.
  destruct (flow_cl_tx f2 _) as [[f3 p3]| | |] eqn:E3; cbn [obind]; try discriminate.
  intros E. ok_inv E.
  destruct (abs_lt _ _ A0) as (Lc0 & Ls0).
  pose proof (cl_tx_step _ _ _ _ _ (tf_raw f) 1 A0 eq_refl E1) as T1.
  destruct T1 as (W1 & A1 & R1); [reflexivity|reflexivity|exact Lc0|reflexivity|reflexivity|].
  destruct (abs_lt _ _ A1) as (Lc1 & Ls1).
  pose proof (sv_tx_step _ _ _ _ _ (tf_raw f) 1 A1 R1 E2) as T2.
  destruct T2 as (W2 & A2 & R2); [exact R1|reflexivity|exact Ls1|exact Lc1|reflexivity|].
  destruct (abs_lt _ _ A2) as (Lc2 & Ls2).
  pose proof (cl_tx_step0 _ _ _ _ _ (tf_raw f) A2 R2 E3) as T3.
  destruct T3 as (W3 & A3 & R3); [exact R2|reflexivity|exact Lc2|exact Ls2|reflexivity|].
  split; [|split; [exact A3|exact R3]].
  unfold wires. cbn [map combine fst snd]. rewrite W1, W2, W3.
  rewrite info_cl_syn, info_sv_syn_ack, info_cl_ack.
  rewrite (proj1 A0), (proj1 A1), (proj2 A1), (proj1 A2), (proj2 A2).
  cbn [spec_plain snd fst use nxt opp]. reflexivity.
Qed.

Lemma client_close_refines f a f' ps :
  flow_abs f a -> flow_client_close f = Ok (f', ps) ->
  wires (tf_raw f) [Cl; Sv; Cl] ps = snd (spec_plain a (OClose Cl))
  /\ flow_abs f' (fst (spec_plain a (OClose Cl))) /\ tf_raw f' = tf_raw f.
Proof.
  intros A0. unfold flow_client_close.
  destruct (flow_cl_tx f _) as [[f1 p1]| | |] eqn:E1; cbn [obind]; try discriminate.
  destruct (flow_sv_tx f1 _) as [[f2 p2]| | |] eqn:E2; cbn [obind]; try discriminate.
  destruct (flow_cl_tx f2 _) as [[f3 p3]| | |] eqn:E3; cbn [obind]; try discriminate.
  intros E. ok_inv E.
  destruct (abs_lt _ _ A0) as (Lc0 & Ls0).
  pose proof (cl_tx_step _ _ _ _ _ (tf_raw f) 1 A0 eq_refl E1) as T1.
  destruct T1 as (W1 & A1 & R1); [reflexivity|reflexivity|exact Lc0|exact Ls0|reflexivity|].
  destruct (abs_lt _ _ A1) as (Lc1 & Ls1).
  pose proof (sv_tx_step _ _ _ _ _ (tf_raw f) 1 A1 R1 E2) as T2.
  destruct T2 as (W2 & A2 & R2); [exact R1|reflexivity|exact Ls1|exact Lc1|reflexivity|].
  destruct (abs_lt _ _ A2) as (Lc2 & Ls2).
  pose proof (cl_tx_step0 _ _ _ _ _ (tf_raw f) A2 R2 E3) as T3.
  destruct T3 as (W3 & A3 & R3); [exact R2|reflexivity|exact Lc2|exact Ls2|reflexivity|].
  split; [|split; [exact A3|exact R3]].
  unfold wires. cbn [map combine fst snd]. rewrite W1, W2, W3.
  rewrite info_cl_fin_ack, info_sv_fin_ack, info_cl_ack.
  rewrite (proj1 A0), (proj2 A0), (proj1 A1), (proj2 A1), (proj1 A2), (proj2 A2).
  cbn [spec_plain snd fst use nxt opp]. reflexivity.
Qed.

Lemma server_close_refines f a f' ps :
  flow_abs f a -> flow_server_close f = Ok (f', ps) ->
  wires (tf_raw f) [Sv; Cl; Sv] ps = snd (spec_plain a (OClose Sv))
  /\ flow_abs f' (fst (spec_plain a (OClose Sv))) /\ tf_raw f' = tf_raw f.
Proof.
  intros A0. unfold flow_server_close.
  destruct (flow_sv_tx f _) as [[f1 p1]| | |] eqn:E1; cbn [obind]; try discriminate.
  destruct (flow_cl_tx f1 _) as [[f2 p2]| | |] eqn:E2; cbn [obind]; try discriminate.
  destruct (flow_sv_tx f2 _) as [[f3 p3]| | |] eqn:E3; cbn [obind]; try discriminate.
  intros E. ok_inv E.
  destruct (abs_lt _ _ A0) as (Lc0 & Ls0).
  pose proof (sv_tx_step _ _ _ _ _ (tf_raw f) 1 A0 eq_refl E1) as T1.
  destruct T1 as (W1 & A1 & R1); [reflexivity|reflexivity|exact Ls0|exact Lc0|reflexivity|].
  destruct (abs_lt _ _ A1) as (Lc1 & Ls1).
  pose proof (cl_tx_step _ _ _ _ _ (tf_raw f) 1 A1 R1 E2) as T2.
  destruct T2 as (W2 & A2 & R2); [exact R1|reflexivity|exact Lc1|exact Ls1|reflexivity|].
  destruct (abs_lt _ _ A2) as (Lc2 & Ls2).
  pose proof (sv_tx_step0 _ _ _ _ _ (tf_raw f) A2 R2 E3) as T3.
  destruct T3 as (W3 & A3 & R3); [exact R2|reflexivity|exact Ls2|exact Lc2|reflexivity|].
  split; [|split; [exact A3|exact R3]].
  unfold wires. cbn [map combine fst snd]. rewrite W1, W2, W3.
  rewrite info_sv_fin_ack, info_cl_fin_ack, info_sv_ack.
  rewrite (proj1 A0), (proj2 A0), (proj1 A1), (proj2 A1), (proj1 A2), (proj2 A2).
  cbn [spec_plain snd fst use nxt opp]. reflexivity.
Qed.

(** data segments *)
Lemma cl_seg_inv f b off s : flow_cl_seg f b off = Ok s ->
  ts_raw s = tf_raw f /\ length (eth_ser (ts_eth s)) = 14%nat
  /\ th_seq (ts_tcp s) = tf_cl_seq f /\ th_ack (ts_tcp s) = tf_sv_seq f
  /\ (forall e, info e s = (e, tf_cl_seq f, Some (tf_sv_seq f), 24, b))
  /\ (ts_data_len s + ts_extra s) mod 4294967296 = len b mod 4294967296.
Proof.
  unfold flow_cl_seg, seg_push_bytes, seg_append_data, seg_update_tot_len, cadd.
  destruct (_ <? two32); cbn [obind]; try discriminate.
  intros E. ok_inv E.
  split; [reflexivity|]. split; [reflexivity|]. split; [reflexivity|]. split; [reflexivity|].
  split; [intros e; reflexivity|].
  change ((0 + wrap32 (len b) + 0) mod 4294967296 = len b mod 4294967296). unfold wrap32. lia.
Qed.
Lemma sv_seg_inv f b off s : flow_sv_seg f b off = Ok s ->
  ts_raw s = tf_raw f /\ length (eth_ser (ts_eth s)) = 14%nat
  /\ th_seq (ts_tcp s) = tf_sv_seq f /\ th_ack (ts_tcp s) = tf_cl_seq f
  /\ (forall e, info e s = (e, tf_sv_seq f, Some (tf_cl_seq f), 24, b))
  /\ (ts_data_len s + ts_extra s) mod 4294967296 = len b mod 4294967296.
Proof.
  unfold flow_sv_seg, seg_push_bytes, seg_append_data, seg_update_tot_len, cadd.
  destruct (_ <? two32); cbn [obind]; try discriminate.
  intros E. ok_inv E.
  split; [reflexivity|]. split; [reflexivity|]. split; [reflexivity|]. split; [reflexivity|].
  split; [intros e; reflexivity|].
  change ((0 + wrap32 (len b) + 0) mod 4294967296 = len b mod 4294967296). unfold wrap32. lia.
Qed.

Lemma client_message_refines f a b sa off sq ak f' ps :
  flow_abs f a -> flow_client_message f b sa off = Ok (f', ps) ->
  wires (tf_raw f) (Cl :: (if sa then [Sv] else [])) ps = snd (spec_plain a (OMessage Cl b sa off sq ak))
  /\ flow_abs f' (fst (spec_plain a (OMessage Cl b sa off sq ak))) /\ tf_raw f' = tf_raw f.
Proof.
  intros A0. unfold flow_client_message.
  destruct (flow_cl_seg f b off) as [s| | |] eqn:Es; cbn [obind]; try discriminate.
  destruct (flow_cl_tx f s) as [[f1 p1]| | |] eqn:E1; cbn [obind]; try discriminate.
  destruct (cl_seg_inv _ _ _ _ Es) as (Sr & Se & Sq & Sa & Si & Sm).
  destruct (abs_lt _ _ A0) as (Lc0 & Ls0).
  pose proof (cl_tx_step _ _ _ _ _ (tf_raw f) (len b) A0 eq_refl E1) as T1.
  destruct T1 as (W1 & A1 & R1); [exact Sr|exact Se|rewrite Sq; exact Lc0|rewrite Sa; exact Ls0|exact Sm|].
  destruct (abs_lt _ _ A1) as (Lc1 & Ls1).
  destruct sa.
  - destruct (flow_sv_tx f1 _) as [[f2 p2]| | |] eqn:E2; cbn [obind]; try discriminate.
    intros E. ok_inv E.
    pose proof (sv_tx_step0 _ _ _ _ _ (tf_raw f) A1 R1 E2) as T2.
    destruct T2 as (W2 & A2 & R2); [exact R1|reflexivity|exact Ls1|exact Lc1|reflexivity|].
    split; [|split; [exact A2|exact R2]].
    unfold wires. cbn [map combine fst snd]. rewrite W1, W2, Si, info_sv_ack.
    rewrite (proj1 A0), (proj2 A0), (proj1 A1), (proj2 A1).
    cbn [spec_plain snd fst use nxt opp]. reflexivity.
  - intros E. ok_inv E. split; [|split; [exact A1|exact R1]].
    unfold wires. cbn [map combine fst snd]. rewrite W1, Si.
    rewrite (proj1 A0), (proj2 A0).
    cbn [spec_plain snd fst use nxt opp]. reflexivity.
Qed.

Lemma server_message_refines f a b sa off sq ak f' ps :
  flow_abs f a -> flow_server_message f b sa off = Ok (f', ps) ->
  wires (tf_raw f) (Sv :: (if sa then [Cl] else [])) ps = snd (spec_plain a (OMessage Sv b sa off sq ak))
  /\ flow_abs f' (fst (spec_plain a (OMessage Sv b sa off sq ak))) /\ tf_raw f' = tf_raw f.
Proof.
  intros A0. unfold flow_server_message.
  destruct (flow_sv_seg f b off) as [s| | |] eqn:Es; cbn [obind]; try discriminate.
  destruct (flow_sv_tx f s) as [[f1 p1]| | |] eqn:E1; cbn [obind]; try discriminate.
  destruct (sv_seg_inv _ _ _ _ Es) as (Sr & Se & Sq & Sa & Si & Sm).
  destruct (abs_lt _ _ A0) as (Lc0 & Ls0).
  pose proof (sv_tx_step _ _ _ _ _ (tf_raw f) (len b) A0 eq_refl E1) as T1.
  destruct T1 as (W1 & A1 & R1); [exact Sr|exact Se|rewrite Sq; exact Ls0|rewrite Sa; exact Lc0|exact Sm|].
  destruct (abs_lt _ _ A1) as (Lc1 & Ls1).
  destruct sa.
  - destruct (flow_cl_tx f1 _) as [[f2 p2]| | |] eqn:E2; cbn [obind]; try discriminate.
    intros E. ok_inv E.
    pose proof (cl_tx_step0 _ _ _ _ _ (tf_raw f) A1 R1 E2) as T2.
    destruct T2 as (W2 & A2 & R2); [exact R1|reflexivity|exact Lc1|exact Ls1|reflexivity|].
    split; [|split; [exact A2|exact R2]].
    unfold wires. cbn [map combine fst snd]. rewrite W1, W2, Si, info_cl_ack.
    rewrite (proj1 A0), (proj2 A0), (proj1 A1), (proj2 A1).
    cbn [spec_plain snd fst use nxt opp]. reflexivity.
  - intros E. ok_inv E. split; [|split; [exact A1|exact R1]].
    unfold wires. cbn [map combine fst snd]. rewrite W1, Si.
    rewrite (proj1 A0), (proj2 A0).
    cbn [spec_plain snd fst use nxt opp]. reflexivity.
Qed.

(** single data segments (as a frame, or bare for the raw variants) *)
Lemma client_segment_refines f a b f' s' :
  flow_abs f a -> flow_client_data_segment f b = Ok (f', s') ->
  (forall e, wire_seg e (seg_tcpseg s') = (e, acc_cl a, Some (acc_sv a), 24, b))
  /\ frame_l4 (tf_raw f) (pkt_frame (seg_packet s')) = seg_tcpseg s'
  /\ flow_abs f' (acc_use_cl a (len b)) /\ tf_raw f' = tf_raw f.
Proof.
  intros A0. unfold flow_client_data_segment.
  destruct (flow_cl_seg f b 0) as [s| | |] eqn:Es; cbn [obind]; try discriminate.
  destruct (seg_seq_consumed s) as [n| | |] eqn:En; cbn [obind]; try discriminate.
  destruct (seg_tcp_csum s) as [s1| | |] eqn:Ec; cbn [obind]; try discriminate.
  intros E. ok_inv E. apply consumed_inv in En. subst n.
  destruct (cl_seg_inv _ _ _ _ Es) as (Sr & Se & Sq & Sa & Si & Sm).
  destruct (abs_lt _ _ A0) as (Lc0 & Ls0).
  pose proof (csum_obs _ _ (tf_raw f) Ec Sr Se) as T. rewrite Sq, Sa in T.
  destruct (T Lc0 Ls0) as (W & F).
  split; [|split; [exact F|split; [apply abs_upd_cl; assumption|reflexivity]]].
  intros e. rewrite W, Si, (proj1 A0), (proj2 A0). reflexivity.
Qed.
Lemma server_segment_refines f a b f' s' :
  flow_abs f a -> flow_server_data_segment f b = Ok (f', s') ->
  (forall e, wire_seg e (seg_tcpseg s') = (e, acc_sv a, Some (acc_cl a), 24, b))
  /\ frame_l4 (tf_raw f) (pkt_frame (seg_packet s')) = seg_tcpseg s'
  /\ flow_abs f' (acc_use_sv a (len b)) /\ tf_raw f' = tf_raw f.
Proof.
  intros A0. unfold flow_server_data_segment.
  destruct (flow_sv_seg f b 0) as [s| | |] eqn:Es; cbn [obind]; try discriminate.
  destruct (seg_seq_consumed s) as [n| | |] eqn:En; cbn [obind]; try discriminate.
  destruct (seg_tcp_csum s) as [s1| | |] eqn:Ec; cbn [obind]; try discriminate.
  intros E. ok_inv E. apply consumed_inv in En. subst n.
  destruct (sv_seg_inv _ _ _ _ Es) as (Sr & Se & Sq & Sa & Si & Sm).
  destruct (abs_lt _ _ A0) as (Lc0 & Ls0).
  pose proof (csum_obs _ _ (tf_raw f) Ec Sr Se) as T. rewrite Sq, Sa in T.
  destruct (T Ls0 Lc0) as (W & F).
  split; [|split; [exact F|split; [apply abs_upd_sv; assumption|reflexivity]]].
  intros e. rewrite W, Si, (proj1 A0), (proj2 A0). reflexivity.
Qed.

(** header-only: the header bytes of a PSH|ACK segment; the declared length is consumed *)
Lemma client_hdr_refines f a n f' hb :
  flow_abs f a -> flow_client_hdr f n = Ok (f', hb) ->
  (forall e, wire_seg e hb = (e, acc_cl a, Some (acc_sv a), 24, []))
  /\ flow_abs f' (acc_use_cl a n) /\ tf_raw f' = tf_raw f.
Proof.
  intros A0. unfold flow_client_hdr, seg_seq_consumed, cadd.
  destruct (_ <? two32); cbn [obind]; try discriminate.
  destruct (_ <? two32); cbn [obind]; try discriminate.
  intros E. ok_inv E.
  destruct (abs_lt _ _ A0) as (Lc0 & Ls0).
  split; [|split; [apply abs_upd_cl; [exact A0|reflexivity]|reflexivity]].
  intros e. unfold seg_tcp_hdr_bytes. rewrite <- (app_nil_r (tcp_ser _)).
  rewrite wire_seg_ser; [|exact Lc0|exact Ls0].
  change (info e (seg_push (flow_cl f)) = (e, acc_cl a, Some (acc_sv a), 24, [])).
  rewrite info_cl_push, (proj1 A0), (proj2 A0). reflexivity.
Qed.
Lemma server_hdr_refines f a n f' hb :
  flow_abs f a -> flow_server_hdr f n = Ok (f', hb) ->
  (forall e, wire_seg e hb = (e, acc_sv a, Some (acc_cl a), 24, []))
  /\ flow_abs f' (acc_use_sv a n) /\ tf_raw f' = tf_raw f.
Proof.
  intros A0. unfold flow_server_hdr, seg_seq_consumed, cadd.
  destruct (_ <? two32); cbn [obind]; try discriminate.
  destruct (_ <? two32); cbn [obind]; try discriminate.
  intros E. ok_inv E.
  destruct (abs_lt _ _ A0) as (Lc0 & Ls0).
  split; [|split; [apply abs_upd_sv; [exact A0|reflexivity]|reflexivity]].
  intros e. unfold seg_tcp_hdr_bytes. rewrite <- (app_nil_r (tcp_ser _)).
  rewrite wire_seg_ser; [|exact Ls0|exact Lc0].
  change (info e (seg_push (flow_sv f)) = (e, acc_sv a, Some (acc_cl a), 24, [])).
  rewrite info_sv_push, (proj1 A0), (proj2 A0). reflexivity.
Qed.

(** bare ACKs and resets *)
Lemma client_ack_refines f a s' :
  flow_abs f a -> flow_client_ack f = Ok s' ->
  forall e, wire_seg e (frame_l4 (tf_raw f) (pkt_frame (seg_packet s'))) = (e, acc_cl a, Some (acc_sv a), 16, []).
Proof.
  intros A0. unfold flow_client_ack. intros E e. destruct (abs_lt _ _ A0) as (Lc0 & Ls0).
  pose proof (csum_obs _ _ (tf_raw f) E) as T.
  destruct T as (W & F); [reflexivity|reflexivity|exact Lc0|exact Ls0|].
  rewrite F, W, info_cl_ack, (proj1 A0), (proj2 A0). reflexivity.
Qed.
Lemma server_ack_refines f a s' :
  flow_abs f a -> flow_server_ack f = Ok s' ->
  forall e, wire_seg e (frame_l4 (tf_raw f) (pkt_frame (seg_packet s'))) = (e, acc_sv a, Some (acc_cl a), 16, []).
Proof.
  intros A0. unfold flow_server_ack. intros E e. destruct (abs_lt _ _ A0) as (Lc0 & Ls0).
  pose proof (csum_obs _ _ (tf_raw f) E) as T.
  destruct T as (W & F); [reflexivity|reflexivity|exact Ls0|exact Lc0|].
  rewrite F, W, info_sv_ack, (proj1 A0), (proj2 A0). reflexivity.
Qed.
Lemma client_reset_refines f a p :
  flow_abs f a -> flow_client_reset f = Ok p ->
  forall e, wire_seg e (frame_l4 (tf_raw f) (pkt_frame p)) = (e, acc_cl a, None, 4, []).
Proof.
  intros A0. unfold flow_client_reset.
  destruct (seg_tcp_csum _) as [s1| | |] eqn:Ec; cbn [obind]; try discriminate.
  intros E e. apply Ok_inj in E. subst p. destruct (abs_lt _ _ A0) as (Lc0 & Ls0).
  pose proof (csum_obs _ _ (tf_raw f) Ec) as T.
  destruct T as (W & F); [reflexivity|reflexivity|exact Lc0|reflexivity|].
  rewrite F, W, info_cl_rst, (proj1 A0). reflexivity.
Qed.
Lemma server_reset_refines f a p :
  flow_abs f a -> flow_server_reset f = Ok p ->
  forall e, wire_seg e (frame_l4 (tf_raw f) (pkt_frame p)) = (e, acc_sv a, None, 4, []).
Proof.
  intros A0. unfold flow_server_reset.
  destruct (seg_tcp_csum _) as [s1| | |] eqn:Ec; cbn [obind]; try discriminate.
  intros E e. apply Ok_inj in E. subst p. destruct (abs_lt _ _ A0) as (Lc0 & Ls0).
  pose proof (csum_obs _ _ (tf_raw f) Ec) as T.
  destruct T as (W & F); [reflexivity|reflexivity|exact Ls0|reflexivity|].
  rewrite F, W, info_sv_rst, (proj2 A0). reflexivity.
Qed.

(* ---------------- every method body refines the plain specification ---------------- *)
Theorem body_refines o f a f' v :
  flow_abs f a -> lib_body o f = Ok (f', v) ->
  observe (tf_raw f) o v = snd (spec_plain a o) /\ flow_abs f' (fst (spec_plain a o)) /\ tf_raw f' = tf_raw f.
Proof.
  intros A0. destruct o as [|d b sa fo sq ak|d raw b sq ak|d n|d sq ak|d n|d|d]; cbn [lib_body].
  - destruct (flow_open f) as [[f2 ps]| | |] eqn:E; cbn [obind]; try discriminate.
    intros H. ok_inv H. exact (open_refines _ _ _ _ A0 E).
  - destruct d; cbn [is_cl].
    + destruct (flow_client_message f b sa fo) as [[f2 ps]| | |] eqn:E; cbn [obind]; try discriminate.
      intros H. ok_inv H. exact (client_message_refines _ _ _ _ _ sq ak _ _ A0 E).
    + destruct (flow_server_message f b sa fo) as [[f2 ps]| | |] eqn:E; cbn [obind]; try discriminate.
      intros H. ok_inv H. exact (server_message_refines _ _ _ _ _ sq ak _ _ A0 E).
  - destruct d; cbn [is_cl].
    + destruct (flow_client_data_segment f b) as [[f2 s]| | |] eqn:E; cbn [obind]; try discriminate.
      intros H. ok_inv H. destruct (client_segment_refines _ _ _ _ _ A0 E) as (W & F & A1 & R1).
      split; [|split; [exact A1|exact R1]].
      destruct raw; unfold observe; cbn [op_dirs val_l4 combine map fst snd]; [|rewrite F]; rewrite W; reflexivity.
    + destruct (flow_server_data_segment f b) as [[f2 s]| | |] eqn:E; cbn [obind]; try discriminate.
      intros H. ok_inv H. destruct (server_segment_refines _ _ _ _ _ A0 E) as (W & F & A1 & R1).
      split; [|split; [exact A1|exact R1]].
      destruct raw; unfold observe; cbn [op_dirs val_l4 combine map fst snd]; [|rewrite F]; rewrite W; reflexivity.
  - destruct d; cbn [is_cl].
    + destruct (flow_client_hdr f n) as [[f2 hb]| | |] eqn:E; cbn [obind]; try discriminate.
      intros H. ok_inv H. destruct (client_hdr_refines _ _ _ _ _ A0 E) as (W & A1 & R1).
      split; [|split; [exact A1|exact R1]].
      unfold observe; cbn [op_dirs val_l4 combine map fst snd]; rewrite W; reflexivity.
    + destruct (flow_server_hdr f n) as [[f2 hb]| | |] eqn:E; cbn [obind]; try discriminate.
      intros H. ok_inv H. destruct (server_hdr_refines _ _ _ _ _ A0 E) as (W & A1 & R1).
      split; [|split; [exact A1|exact R1]].
      unfold observe; cbn [op_dirs val_l4 combine map fst snd]; rewrite W; reflexivity.
  - destruct d; cbn [is_cl].
    + destruct (flow_client_ack f) as [s| | |] eqn:E; cbn [obind]; try discriminate.
      intros H. ok_inv H. split; [|split; [exact A0|reflexivity]].
      unfold observe; cbn [op_dirs val_l4 combine map fst snd].
      rewrite (client_ack_refines _ _ _ A0 E). reflexivity.
    + destruct (flow_server_ack f) as [s| | |] eqn:E; cbn [obind]; try discriminate.
      intros H. ok_inv H. split; [|split; [exact A0|reflexivity]].
      unfold observe; cbn [op_dirs val_l4 combine map fst snd].
      rewrite (server_ack_refines _ _ _ A0 E). reflexivity.
  - intros H. ok_inv H. destruct d; cbn [is_cl]; (split; [reflexivity|]); (split; [|reflexivity]).
    + apply abs_upd_cl; [exact A0|reflexivity].
    + apply abs_upd_sv; [exact A0|reflexivity].
  - destruct d; cbn [is_cl].
    + destruct (flow_client_close f) as [[f2 ps]| | |] eqn:E; cbn [obind]; try discriminate.
      intros H. ok_inv H. exact (client_close_refines _ _ _ _ A0 E).
    + destruct (flow_server_close f) as [[f2 ps]| | |] eqn:E; cbn [obind]; try discriminate.
      intros H. ok_inv H. exact (server_close_refines _ _ _ _ A0 E).
  - destruct d; cbn [is_cl].
    + destruct (flow_client_reset f) as [p| | |] eqn:E; cbn [obind]; try discriminate.
      intros H. ok_inv H. split; [|split; [exact A0|reflexivity]].
      unfold observe; cbn [op_dirs val_l4 combine map fst snd].
      rewrite (client_reset_refines _ _ _ A0 E). reflexivity.
    + destruct (flow_server_reset f) as [p| | |] eqn:E; cbn [obind]; try discriminate.
      intros H. ok_inv H. split; [|split; [exact A0|reflexivity]].
      unfold observe; cbn [op_dirs val_l4 combine map fst snd].
      rewrite (server_reset_refines _ _ _ A0 E). reflexivity.
Qed.

(* ---------------- overrides: push_state / pop_state around the body ---------------- *)
Definition over_cs (d : dir) (sq ak : option N) : option N * option N := if is_cl d then (sq, ak) else (ak, sq).

Lemma push_abs f a d sq ak :
  flow_abs f a -> (forall x, sq = Some x -> x < 4294967296) -> (forall y, ak = Some y -> y < 4294967296) ->
  let f1 := fst (flow_push_state f (fst (over_cs d sq ak)) (snd (over_cs d sq ak))) in
  flow_abs f1 (over_enter a d sq ak) /\ tf_raw f1 = tf_raw f.
Proof.
  intros (Hc & Hs) Bx By. cbv zeta. split; [|reflexivity].
  destruct d, sq as [x|], ak as [y|];
    try (specialize (Bx _ eq_refl)); try (specialize (By _ eq_refl));
    unfold flow_abs, over_cs, over_enter, set_side, flow_push_state, acc_cl, acc_sv, opp in *;
    cbn [is_cl fst snd tf_cl_seq tf_sv_seq tf_with_seqs a_cl_isn a_cl_used a_sv_isn a_sv_used];
    split; try assumption; lia.
Qed.

Lemma pop_abs f a f2 a3 d sq ak :
  flow_abs f a -> flow_abs f2 a3 ->
  let f' := flow_pop_state f2 (snd (flow_push_state f (fst (over_cs d sq ak)) (snd (over_cs d sq ak)))) in
  flow_abs f' (over_leave a3 a d sq ak) /\ tf_raw f' = tf_raw f2.
Proof.
  intros (Hc & Hs) (Hc2 & Hs2). cbv zeta. split; [|reflexivity].
  destruct d, sq as [x|], ak as [y|];
    unfold flow_abs, over_cs, over_leave, restore_side, flow_push_state, flow_pop_state, acc_cl, acc_sv, opp in *;
    cbn [is_cl fst snd tf_cl_seq tf_sv_seq tf_with_seqs a_cl_isn a_cl_used a_sv_isn a_sv_used];
    split; assumption.
Qed.

(** one method call, with its overrides, refines the specification of the operation *)
Theorem run_op_refines f a o f' segs :
  flow_abs f a -> over_u32 o -> run_op f o = Ok (f', segs) ->
  segs = snd (spec_op a o) /\ flow_abs f' (fst (spec_op a o)) /\ tf_raw f' = tf_raw f.
Proof.
  intros A0. unfold run_op, lib_op, spec_op, over_u32.
  destruct (op_over o) as [[[d sq] ak]|] eqn:Eo.
  - intros (Bx & By). unfold with_override. cbv zeta.
    change (if is_cl d then (sq, ak) else (ak, sq)) with (over_cs d sq ak).
    destruct (lib_body o _) as [[f2 v]| | |] eqn:Eb; cbn [obind]; try discriminate.
    intros E. ok_inv E.
    destruct (push_abs f a d sq ak A0 Bx By) as (A1 & R1).
    destruct (body_refines _ _ _ _ _ A1 Eb) as (O & A2 & R2).
    destruct (pop_abs f a f2 _ d sq ak A0 A2) as (A3 & R3).
    cbn [fst snd]. split; [|split; [exact A3|]].
    + rewrite <- O, R1. reflexivity.
    + rewrite R3, R2, R1. reflexivity.
  - intros _. destruct (lib_body o f) as [[f2 v]| | |] eqn:Eb; cbn [obind]; try discriminate.
    intros E. ok_inv E. exact (body_refines _ _ _ _ _ A0 Eb).
Qed.

(** ... and so does every finite sequence of calls *)
Theorem run_ops_refines ops : forall f a f' segs,
  flow_abs f a -> Forall over_u32 ops -> run_ops f ops = Ok (f', segs) ->
  segs = snd (spec_ops a ops) /\ flow_abs f' (fst (spec_ops a ops)) /\ tf_raw f' = tf_raw f.
Proof.
  induction ops as [|o r IH]; intros f a f' segs A0 U.
  - cbn [run_ops spec_ops fst snd]. intros E. ok_inv E. split; [reflexivity|split; [exact A0|reflexivity]].
  - cbn [run_ops spec_ops].
    destruct (run_op f o) as [[f1 s1]| | |] eqn:E1; cbn [obind]; try discriminate.
    destruct (run_ops f1 r) as [[f2 s2]| | |] eqn:E2; cbn [obind]; try discriminate.
    intros E. ok_inv E.
    destruct (run_op_refines _ _ _ _ _ A0 (Forall_inv U) E1) as (S1 & A1 & R1).
    destruct (IH _ _ _ _ A1 (Forall_inv_tail U) E2) as (S2 & A2 & R2).
    cbn [fst snd]. split; [rewrite S1, S2; reflexivity|]. split; [exact A2|]. rewrite R2, R1. reflexivity.
Qed.

(** the plain specification suffices for histories without overrides *)

Lemma no_override_spec a o : no_override o -> spec_op a o = spec_plain a o.
Proof.
  unfold no_override, spec_op. destruct (op_over o) as [[[d [x|]] [y|]]|]; try contradiction; try reflexivity.
  intros _. cbn [over_enter over_leave]. destruct (spec_plain a o); reflexivity.
Qed.
Lemma no_override_u32 o : no_override o -> over_u32 o.
Proof.
  unfold no_override, over_u32. destruct (op_over o) as [[[d [x|]] [y|]]|]; try contradiction; try exact (fun _ => I).
  intros _. split; intros ? ?; discriminate.
Qed.
Lemma no_override_ops a ops : Forall no_override ops -> spec_ops a ops = plain_ops a ops.
Proof.
  revert a. induction ops as [|o r IH]; intros a U; [reflexivity|].
  cbn [spec_ops plain_ops]. rewrite (no_override_spec a o (Forall_inv U)). rewrite (IH _ (Forall_inv_tail U)). reflexivity.
Qed.

Theorem history_refines_plain ops c0 s0 f f' segs :
  c0 < 4294967296 -> s0 < 4294967296 -> tf_cl_seq f = c0 -> tf_sv_seq f = s0 ->
  Forall no_override ops -> run_ops f ops = Ok (f', segs) ->
  segs = snd (plain_ops (acc_init c0 s0) ops) /\ flow_abs f' (fst (plain_ops (acc_init c0 s0) ops)).
Proof.
  intros Hc Hs Ec Es U E.
  assert (A0 : flow_abs f (acc_init c0 s0)).
  { unfold flow_abs, acc_init, acc_cl, acc_sv. cbn [a_cl_isn a_cl_used a_sv_isn a_sv_used]. rewrite Ec, Es. split; lia. }
  assert (U' : Forall over_u32 ops) by (eapply Forall_impl; [|exact U]; exact no_override_u32).
  destruct (run_ops_refines ops _ _ _ _ A0 U' E) as (S & A & _).
  rewrite (no_override_ops _ _ U) in S, A. split; assumption.
Qed.

(* ---------------- what the specification says about overridden calls ---------------- *)
(** the segments of an overridden call carry the overriding values *)
Theorem override_segments a o d sq ak :
  op_over o = Some (d, sq, ak) -> over_u32 o ->
  let me := match sq with Some x => x | None => nxt a d end in
  let peer := match ak with Some y => y | None => nxt a (opp d) end in
  snd (spec_op a o) =
  match o with
  | OMessage _ b sa _ _ _ =>
      (d, me, Some peer, 24, b)
      :: (if sa then [(opp d, peer, Some ((me + len b) mod 4294967296), 16, [])] else [])
  | OSegment _ _ b _ _ => [(d, me, Some peer, 24, b)]
  | OAck _ _ _ => [(d, me, Some peer, 16, [])]
  | _ => []
  end.
Proof.
  intros Eo U. unfold over_u32 in U. rewrite Eo in U. destruct U as (Bx & By).
  unfold spec_op. rewrite Eo. cbn [snd]. cbv zeta.
  destruct o as [|d' b sa fo sq' ak'|d' raw b sq' ak'|d' n|d' sq' ak'|d' n|d'|d']; try discriminate Eo;
    cbn [op_over] in Eo; apply Some_inj' in Eo;
    apply pair_equal_spec in Eo; destruct Eo as (Eo & ->); apply pair_equal_spec in Eo; destruct Eo as (-> & ->);
    destruct d, sq as [x|], ak as [y|];
    try (specialize (Bx _ eq_refl)); try (specialize (By _ eq_refl));
    cbn [spec_plain snd over_enter set_side opp nxt use];
    unfold acc_cl, acc_sv, acc_use_cl, acc_use_sv;
    cbn [a_cl_isn a_cl_used a_sv_isn a_sv_used];
    try destruct sa;
    repeat (f_equal; try lia).
Qed.

(** ... and afterwards the overridden counter is where it was, the others where the call leaves them *)
Theorem override_account a o d sq ak :
  op_over o = Some (d, sq, ak) ->
  let a' := fst (spec_op a o) in
  isn a' d = isn a d /\ isn a' (opp d) = isn a (opp d)
  /\ used a' d = match sq with Some _ => used a d | None => used a d + len (op_data d o) end
  /\ used a' (opp d) = used a (opp d).
Proof.
  intros Eo. unfold spec_op. rewrite Eo. cbn [fst]. cbv zeta.
  destruct o as [|d' b sa fo sq' ak'|d' raw b sq' ak'|d' n|d' sq' ak'|d' n|d'|d']; try discriminate Eo;
    cbn [op_over] in Eo; apply Some_inj' in Eo;
    apply pair_equal_spec in Eo; destruct Eo as (Eo & ->); apply pair_equal_spec in Eo; destruct Eo as (-> & ->);
    destruct d, sq as [x|], ak as [y|];
    cbn [spec_plain fst over_enter over_leave set_side restore_side opp isn used use op_data dir_eqb];
    unfold acc_use_cl, acc_use_sv;
    cbn [a_cl_isn a_cl_used a_sv_isn a_sv_used len length];
    repeat split; try reflexivity; try lia; change (len (@nil N)) with 0; lia.
Qed.

(** a call whose own counter is overridden, a bare ACK, a reset: the account is as before the call *)
Theorem no_trace_account a o : leaves_no_trace o -> fst (spec_op a o) = a.
Proof.
  destruct o as [|d b sa fo [x|] ak|d raw b [x|] ak|d n|d sq ak|d n|d|d]; try contradiction; intros _;
    unfold spec_op; cbn [op_over fst];
    repeat match goal with d : dir |- _ => destruct d | q : option N |- _ => destruct q end; destruct a; reflexivity.
Qed.

Lemma spec_ops_app a p q :
  spec_ops a (p ++ q) = (fst (spec_ops (fst (spec_ops a p)) q), snd (spec_ops a p) ++ snd (spec_ops (fst (spec_ops a p)) q)).
Proof.
  revert a. induction p as [|o r IH]; intros a.
  - cbn [app spec_ops fst snd]. destruct (spec_ops a q); reflexivity.
  - cbn [app spec_ops fst snd]. rewrite IH. cbn [fst snd]. rewrite app_assoc. reflexivity.
Qed.

Theorem no_trace_spec a pre o post :
  leaves_no_trace o ->
  let ap := fst (spec_ops a pre) in
  spec_ops a (pre ++ o :: post)
  = (fst (spec_ops ap post), snd (spec_ops a pre) ++ snd (spec_op ap o) ++ snd (spec_ops ap post))
  /\ spec_ops a (pre ++ post) = (fst (spec_ops ap post), snd (spec_ops a pre) ++ snd (spec_ops ap post)).
Proof.
  intros N. cbv zeta. split; [|apply spec_ops_app].
  rewrite spec_ops_app. cbn [spec_ops fst snd]. rewrite (no_trace_account _ _ N). reflexivity.
Qed.

(** on the runs themselves: deleting such a call from a history removes its own segments and changes nothing else *)
Theorem deleting_untraced_call f a pre o post f1 segs1 f2 segs2 :
  flow_abs f a -> Forall over_u32 (pre ++ o :: post) -> leaves_no_trace o ->
  run_ops f (pre ++ o :: post) = Ok (f1, segs1) -> run_ops f (pre ++ post) = Ok (f2, segs2) ->
  let ap := fst (spec_ops a pre) in
  segs1 = snd (spec_ops a pre) ++ snd (spec_op ap o) ++ snd (spec_ops ap post)
  /\ segs2 = snd (spec_ops a pre) ++ snd (spec_ops ap post)
  /\ tf_cl_seq f1 = tf_cl_seq f2 /\ tf_sv_seq f1 = tf_sv_seq f2.
Proof.
  intros A0 U N E1 E2. cbv zeta.
  assert (U2 : Forall over_u32 (pre ++ post)).
  { apply Forall_app in U. destruct U as (Up & Uo). apply Forall_app. split; [exact Up|exact (Forall_inv_tail Uo)]. }
  destruct (run_ops_refines _ _ _ _ _ A0 U E1) as (S1 & (C1 & V1) & _).
  destruct (run_ops_refines _ _ _ _ _ A0 U2 E2) as (S2 & (C2 & V2) & _).
  destruct (no_trace_spec a pre o post N) as (P1 & P2). cbv zeta in P1, P2.
  rewrite P1 in S1, C1, V1. rewrite P2 in S2, C2, V2. cbn [fst snd] in *.
  split; [exact S1|]. split; [exact S2|]. split; congruence.
Qed.
