(** C04, history level: the direction [run_op] gives a segment is the direction its bytes give -- a segment
    counted as the client's carries the client's port (and, in a frame, address) as source and the server's as
    destination, and conversely; the number of segments of a call is the number the operation announces. *)
From RS Require Import Base.Bytes Base.Outcome Pkt.Csum Pkt.Hdrs Pkt.Packet Ez.Tcp Interp.Val Lib.LibBase Lib.Ipv4Lib
  Spec.Wire Spec.TcpAccount Spec.TcpHistory Proofs.BytesLemmas Proofs.C02.IpLemmas Proofs.C02.TcpIp Proofs.Tactics
  Proofs.C04.Seq Proofs.C04.Ops Proofs.C04.History.
From Coq Require Import ZArith Lia ZifyBool ZifyNat ZifyN.
Ltac Zify.zify_post_hook ::= Z.div_mod_to_equations.
Open Scope N_scope.

(** what a segment record says about its ends *)
Definition ends (s : tcp_seg) : (N * N) * (N * N) :=
  ((ip_src (ts_ip s), ip_dst (ts_ip s)), (th_sport (ts_tcp s), th_dport (ts_tcp s))).
(** what a frame says *)
Definition pkt_ends (raw : bool) (p : packet) : (N * N) * (N * N) :=
  (frame_addrs raw (pkt_frame p), wire_ports (frame_l4 raw (pkt_frame p))).

Lemma wire_ports_ser h pl : th_sport h < 65536 -> th_dport h < 65536 ->
  wire_ports (tcp_ser h ++ pl) = (th_sport h, th_dport h).
Proof.
  intros H1 H2. unfold wire_ports, u16_at, tcp_ser, be16. cbn [app nth].
  rewrite (rd_be16 _ H1), (rd_be16 _ H2). reflexivity.
Qed.

Lemma ip_addrs_ser h rest : ip_src h < 4294967296 -> ip_dst h < 4294967296 ->
  ip_src_of (ip_ser h ++ rest) = ip_src h /\ ip_dst_of (ip_ser h ++ rest) = ip_dst h.
Proof.
  intros H1 H2. unfold ip_src_of, ip_dst_of, u32_at, u16_at, ip_ser, be32, be16. cbn [app nth Nat.add].
  rewrite (rd_be32 _ H1), (rd_be32 _ H2). split; reflexivity.
Qed.

Lemma frame_l3_seg raw s :
  ts_raw s = raw -> length (eth_ser (ts_eth s)) = 14%nat ->
  frame_l3 raw (pkt_frame (seg_packet s)) = seg_l3_bytes s.
Proof.
  intros H1 H4. unfold frame_l3, pkt_frame, seg_packet, pkt_of_body, seg_bytes. cbn [pk_body]. rewrite H1.
  destruct raw; [reflexivity|].
  rewrite skipn_app, H4, Nat.sub_diag. rewrite (skipn_all2 (eth_ser (ts_eth s))) by lia. reflexivity.
Qed.

Definition ends_ok (s : tcp_seg) : Prop :=
  ip_src (ts_ip s) < 4294967296 /\ ip_dst (ts_ip s) < 4294967296
  /\ th_sport (ts_tcp s) < 65536 /\ th_dport (ts_tcp s) < 65536.

Lemma pkt_ends_seg raw s v :
  ts_raw s = raw -> length (eth_ser (ts_eth s)) = 14%nat -> ends_ok s ->
  pkt_ends raw (seg_packet (ts_with_tcp s (th_set_csum (ts_tcp s) v))) = ends s.
Proof.
  intros Hr He (B1 & B2 & B3 & B4). unfold pkt_ends, frame_addrs.
  rewrite frame_l4_seg by assumption. rewrite frame_l3_seg by assumption.
  unfold seg_l3_bytes, seg_tcpseg. cbn [ts_with_tcp ts_ip ts_tcp ts_payload].
  destruct (ip_addrs_ser (ts_ip s) (tcp_ser (th_set_csum (ts_tcp s) v) ++ ts_payload s) B1 B2) as (-> & ->).
  rewrite wire_ports_ser by assumption. reflexivity.
Qed.

Lemma seg_ends_seg s v :
  ends_ok s -> wire_ports (seg_tcpseg (ts_with_tcp s (th_set_csum (ts_tcp s) v))) = snd (ends s).
Proof.
  intros (B1 & B2 & B3 & B4). unfold seg_tcpseg. cbn [ts_with_tcp ts_tcp ts_payload].
  rewrite wire_ports_ser by assumption. reflexivity.
Qed.

(** the ends of side d in flow f *)
Definition sock_of (f : tcp_flow) (d : dir) : sock := match d with Cl => tf_cl f | Sv => tf_sv f end.
Definition flow_ends (f : tcp_flow) (d : dir) : (N * N) * (N * N) :=
  ((fst (sock_of f d), fst (sock_of f (opp d))), (snd (sock_of f d), snd (sock_of f (opp d)))).
Definition same_socks (f f' : tcp_flow) : Prop := tf_cl f' = tf_cl f /\ tf_sv f' = tf_sv f /\ tf_raw f' = tf_raw f.

Lemma cl_ends_ok f : flow_wf f -> ends_ok (flow_cl f).
Proof. intros ((A & B) & (C & D)). split; [exact A|split; [exact C|split; [exact B|exact D]]]. Qed.
Lemma sv_ends_ok f : flow_wf f -> ends_ok (flow_sv f).
Proof. intros ((A & B) & (C & D)). split; [exact C|split; [exact A|split; [exact D|exact B]]]. Qed.

(** one transmission *)
Lemma cl_tx_ends f s f' p raw :
  flow_cl_tx f s = Ok (f', p) -> ts_raw s = raw -> length (eth_ser (ts_eth s)) = 14%nat -> ends_ok s ->
  pkt_ends raw p = ends s /\ same_socks f f'.
Proof.
  unfold flow_cl_tx. intros E Hr He Ho. revert E.
  destruct (seg_seq_consumed s) as [n| | |]; cbn [obind]; try discriminate.
  destruct (seg_tcp_csum s) as [s1| | |] eqn:Ec; cbn [obind]; try discriminate.
  intros E. ok_inv E. destruct (csum_shape _ _ Ec) as (v & ->).
  split; [apply pkt_ends_seg; first [reflexivity|assumption]|]. repeat split.
Qed.
Lemma sv_tx_ends f s f' p raw :
  flow_sv_tx f s = Ok (f', p) -> ts_raw s = raw -> length (eth_ser (ts_eth s)) = 14%nat -> ends_ok s ->
  pkt_ends raw p = ends s /\ same_socks f f'.
Proof.
  unfold flow_sv_tx. intros E Hr He Ho. revert E.
  destruct (seg_seq_consumed s) as [n| | |]; cbn [obind]; try discriminate.
  destruct (seg_tcp_csum s) as [s1| | |] eqn:Ec; cbn [obind]; try discriminate.
  intros E. ok_inv E. destruct (csum_shape _ _ Ec) as (v & ->).
  split; [apply pkt_ends_seg; first [reflexivity|assumption]|]. repeat split.
Qed.

Lemma same_socks_wf f f' : same_socks f f' -> flow_wf f -> flow_wf f'.
Proof. intros (A & B & _) W. unfold flow_wf. rewrite A, B. exact W. Qed.
Lemma same_socks_trans f g h : same_socks f g -> same_socks g h -> same_socks f h.
Proof. intros (A & B & C) (A' & B' & C'). unfold same_socks. rewrite A', B', C'. auto. Qed.
Lemma same_socks_ends f f' d : same_socks f f' -> flow_ends f' d = flow_ends f d.
Proof. intros (A & B & _). unfold flow_ends, sock_of. destruct d; cbn [opp]; rewrite A, B; reflexivity. Qed.

(** flag operations keep the frame, the addresses and the ports *)
Definition keeps (g : tcp_seg -> tcp_seg) : Prop :=
  forall s, ts_raw (g s) = ts_raw s /\ ts_eth (g s) = ts_eth s /\ ends (g s) = ends s.
Lemma keeps_syn : keeps seg_syn. Proof. intros s. repeat split. Qed.
Lemma keeps_syn_ack : keeps seg_syn_ack. Proof. intros s. repeat split. Qed.
Lemma keeps_ack : keeps seg_ack. Proof. intros s. repeat split. Qed.
Lemma keeps_fin_ack : keeps seg_fin_ack. Proof. intros s. repeat split. Qed.
Lemma keeps_rst : keeps seg_rst. Proof. intros s. repeat split. Qed.
Lemma keeps_push : keeps seg_push. Proof. intros s. repeat split. Qed.

Lemma ends_ok_eq s s' : ends s' = ends s -> ends_ok s -> ends_ok s'.
Proof.
  unfold ends, ends_ok. intros E. apply pair_equal_spec in E. destruct E as (E1 & E2).
  apply pair_equal_spec in E1. apply pair_equal_spec in E2. destruct E1 as (-> & ->). destruct E2 as (-> & ->). exact (fun H => H).
Qed.

Definition is_step (d : dir) (tx : tcp_flow -> tcp_seg -> outcome (tcp_flow * packet)) (m : tcp_flow -> tcp_seg) : Prop :=
  forall f f' p, flow_wf f -> tx f (m f) = Ok (f', p) -> pkt_ends (tf_raw f) p = flow_ends f d /\ same_socks f f'.

Lemma step_cl g : keeps g -> is_step Cl flow_cl_tx (fun f => g (flow_cl f)).
Proof.
  intros K f f' p W E. cbv beta in E. destruct (K (flow_cl f)) as (Kr & Ke & Kn).
  assert (Hr : ts_raw (g (flow_cl f)) = tf_raw f) by (rewrite Kr; reflexivity).
  assert (He : length (eth_ser (ts_eth (g (flow_cl f)))) = 14%nat) by (rewrite Ke; reflexivity).
  assert (Ho : ends_ok (g (flow_cl f))) by (apply (ends_ok_eq _ _ Kn), cl_ends_ok, W).
  change (flow_ends f Cl) with (ends (flow_cl f)). rewrite <- Kn.
  exact (cl_tx_ends _ _ _ _ _ E Hr He Ho).
Qed.
Lemma step_sv g : keeps g -> is_step Sv flow_sv_tx (fun f => g (flow_sv f)).
Proof.
  intros K f f' p W E. cbv beta in E. destruct (K (flow_sv f)) as (Kr & Ke & Kn).
  assert (Hr : ts_raw (g (flow_sv f)) = tf_raw f) by (rewrite Kr; reflexivity).
  assert (He : length (eth_ser (ts_eth (g (flow_sv f)))) = 14%nat) by (rewrite Ke; reflexivity).
  assert (Ho : ends_ok (g (flow_sv f))) by (apply (ends_ok_eq _ _ Kn), sv_ends_ok, W).
  change (flow_ends f Sv) with (ends (flow_sv f)). rewrite <- Kn.
  exact (sv_tx_ends _ _ _ _ _ E Hr He Ho).
Qed.

(** three-segment exchanges *)
Lemma three_ends d1 tx1 m1 d2 tx2 m2 d3 tx3 m3 f f' ps :
  is_step d1 tx1 m1 -> is_step d2 tx2 m2 -> is_step d3 tx3 m3 -> flow_wf f ->
  (do (f1, p1) <- tx1 f (m1 f);
   do (f2, p2) <- tx2 f1 (m2 f1);
   do (f3, p3) <- tx3 f2 (m3 f2);
   Ok (f3, [p1; p2; p3])) = Ok (f', ps) ->
  map (pkt_ends (tf_raw f)) ps = map (flow_ends f) [d1; d2; d3] /\ same_socks f f'.
Proof.
  intros K1 K2 K3 W.
  destruct (tx1 f (m1 f)) as [[f1 p1]| | |] eqn:E1; cbn [obind]; try discriminate.
  destruct (tx2 f1 (m2 f1)) as [[f2 p2]| | |] eqn:E2; cbn [obind]; try discriminate.
  destruct (tx3 f2 (m3 f2)) as [[f3 p3]| | |] eqn:E3; cbn [obind]; try discriminate.
  intros E. ok_inv E.
  destruct (K1 _ _ _ W E1) as (P1 & S1). pose proof (same_socks_wf _ _ S1 W) as W1.
  destruct (K2 _ _ _ W1 E2) as (P2 & S2). pose proof (same_socks_wf _ _ S2 W1) as W2.
  destruct (K3 _ _ _ W2 E3) as (P3 & S3).
  pose proof (same_socks_trans _ _ _ S1 S2) as S12. pose proof (same_socks_trans _ _ _ S12 S3) as S13.
  split; [|exact S13]. cbn [map].
  rewrite (proj2 (proj2 S1)), (same_socks_ends _ _ d2 S1) in P2.
  rewrite (proj2 (proj2 S12)), (same_socks_ends _ _ d3 S12) in P3.
  rewrite P1, P2, P3. reflexivity.
Qed.
Lemma open_ends f f' ps : flow_wf f -> flow_open f = Ok (f', ps) ->
  map (pkt_ends (tf_raw f)) ps = map (flow_ends f) [Cl; Sv; Cl] /\ same_socks f f'.
Proof.
  intros W. unfold flow_open.
  exact (three_ends Cl flow_cl_tx (fun f => seg_syn (flow_cl f)) Sv flow_sv_tx (fun f => seg_syn_ack (flow_sv f))
           Cl flow_cl_tx (fun f => seg_ack (flow_cl f)) f f' ps
           (step_cl _ keeps_syn) (step_sv _ keeps_syn_ack) (step_cl _ keeps_ack) W).
Qed.
Lemma client_close_ends f f' ps : flow_wf f -> flow_client_close f = Ok (f', ps) ->
  map (pkt_ends (tf_raw f)) ps = map (flow_ends f) [Cl; Sv; Cl] /\ same_socks f f'.
Proof.
  intros W. unfold flow_client_close.
  exact (three_ends Cl flow_cl_tx (fun f => seg_fin_ack (flow_cl f)) Sv flow_sv_tx (fun f => seg_fin_ack (flow_sv f))
           Cl flow_cl_tx (fun f => seg_ack (flow_cl f)) f f' ps
           (step_cl _ keeps_fin_ack) (step_sv _ keeps_fin_ack) (step_cl _ keeps_ack) W).
Qed.
Lemma server_close_ends f f' ps : flow_wf f -> flow_server_close f = Ok (f', ps) ->
  map (pkt_ends (tf_raw f)) ps = map (flow_ends f) [Sv; Cl; Sv] /\ same_socks f f'.
Proof.
  intros W. unfold flow_server_close.
  exact (three_ends Sv flow_sv_tx (fun f => seg_fin_ack (flow_sv f)) Cl flow_cl_tx (fun f => seg_fin_ack (flow_cl f))
           Sv flow_sv_tx (fun f => seg_ack (flow_sv f)) f f' ps
           (step_sv _ keeps_fin_ack) (step_cl _ keeps_fin_ack) (step_sv _ keeps_ack) W).
Qed.

(** data segments *)
Lemma cl_seg_ends f b off s : flow_cl_seg f b off = Ok s ->
  ts_raw s = tf_raw f /\ length (eth_ser (ts_eth s)) = 14%nat /\ ends s = flow_ends f Cl.
Proof.
  unfold flow_cl_seg, seg_push_bytes, seg_append_data, seg_update_tot_len, cadd.
  destruct (_ <? two32); cbn [obind]; try discriminate.
  intros E. ok_inv E. split; [reflexivity|]. split; reflexivity.
Qed.
Lemma sv_seg_ends f b off s : flow_sv_seg f b off = Ok s ->
  ts_raw s = tf_raw f /\ length (eth_ser (ts_eth s)) = 14%nat /\ ends s = flow_ends f Sv.
Proof.
  unfold flow_sv_seg, seg_push_bytes, seg_append_data, seg_update_tot_len, cadd.
  destruct (_ <? two32); cbn [obind]; try discriminate.
  intros E. ok_inv E. split; [reflexivity|]. split; reflexivity.
Qed.

Lemma same_socks_refl f : same_socks f f. Proof. repeat split. Qed.

Lemma client_message_ends f b sa off f' ps : flow_wf f -> flow_client_message f b sa off = Ok (f', ps) ->
  map (pkt_ends (tf_raw f)) ps = map (flow_ends f) (Cl :: (if sa then [Sv] else [])) /\ same_socks f f'.
Proof.
  intros W. unfold flow_client_message.
  destruct (flow_cl_seg f b off) as [s| | |] eqn:Es; cbn [obind]; try discriminate.
  destruct (flow_cl_tx f s) as [[f1 p1]| | |] eqn:E1; cbn [obind]; try discriminate.
  destruct (cl_seg_ends _ _ _ _ Es) as (Sr & Se & Sn).
  assert (Ho : ends_ok s) by (apply (ends_ok_eq (flow_cl f)); [exact Sn|apply cl_ends_ok, W]).
  destruct (cl_tx_ends _ _ _ _ _ E1 Sr Se Ho) as (P1 & S1). rewrite Sn in P1.
  pose proof (same_socks_wf _ _ S1 W) as W1.
  destruct sa.
  - destruct (flow_sv_tx f1 _) as [[f2 p2]| | |] eqn:E2; cbn [obind]; try discriminate.
    intros E. ok_inv E.
    destruct (step_sv _ keeps_ack _ _ _ W1 E2) as (P2 & S2).
    rewrite (proj2 (proj2 S1)), (same_socks_ends _ _ Sv S1) in P2.
    split; [|exact (same_socks_trans _ _ _ S1 S2)]. cbn [map]. rewrite P1, P2. reflexivity.
  - intros E. ok_inv E. split; [|exact S1]. cbn [map]. rewrite P1. reflexivity.
Qed.
Lemma server_message_ends f b sa off f' ps : flow_wf f -> flow_server_message f b sa off = Ok (f', ps) ->
  map (pkt_ends (tf_raw f)) ps = map (flow_ends f) (Sv :: (if sa then [Cl] else [])) /\ same_socks f f'.
Proof.
  intros W. unfold flow_server_message.
  destruct (flow_sv_seg f b off) as [s| | |] eqn:Es; cbn [obind]; try discriminate.
  destruct (flow_sv_tx f s) as [[f1 p1]| | |] eqn:E1; cbn [obind]; try discriminate.
  destruct (sv_seg_ends _ _ _ _ Es) as (Sr & Se & Sn).
  assert (Ho : ends_ok s) by (apply (ends_ok_eq (flow_sv f)); [exact Sn|apply sv_ends_ok, W]).
  destruct (sv_tx_ends _ _ _ _ _ E1 Sr Se Ho) as (P1 & S1). rewrite Sn in P1.
  pose proof (same_socks_wf _ _ S1 W) as W1.
  destruct sa.
  - destruct (flow_cl_tx f1 _) as [[f2 p2]| | |] eqn:E2; cbn [obind]; try discriminate.
    intros E. ok_inv E.
    destruct (step_cl _ keeps_ack _ _ _ W1 E2) as (P2 & S2).
    rewrite (proj2 (proj2 S1)), (same_socks_ends _ _ Cl S1) in P2.
    split; [|exact (same_socks_trans _ _ _ S1 S2)]. cbn [map]. rewrite P1, P2. reflexivity.
  - intros E. ok_inv E. split; [|exact S1]. cbn [map]. rewrite P1. reflexivity.
Qed.

Lemma client_segment_ends f b f' s' : flow_wf f -> flow_client_data_segment f b = Ok (f', s') ->
  pkt_ends (tf_raw f) (seg_packet s') = flow_ends f Cl /\ wire_ports (seg_tcpseg s') = snd (flow_ends f Cl)
  /\ same_socks f f'.
Proof.
  intros W. unfold flow_client_data_segment.
  destruct (flow_cl_seg f b 0) as [s| | |] eqn:Es; cbn [obind]; try discriminate.
  destruct (seg_seq_consumed s) as [n| | |] eqn:En; cbn [obind]; try discriminate.
  destruct (seg_tcp_csum s) as [s1| | |] eqn:Ec; cbn [obind]; try discriminate.
  intros E. ok_inv E. destruct (csum_shape _ _ Ec) as (v & ->).
  destruct (cl_seg_ends _ _ _ _ Es) as (Sr & Se & Sn).
  assert (Ho : ends_ok s) by (apply (ends_ok_eq (flow_cl f)); [exact Sn|apply cl_ends_ok, W]).
  rewrite (pkt_ends_seg _ _ v Sr Se Ho), (seg_ends_seg _ v Ho), Sn. repeat split.
Qed.
Lemma server_segment_ends f b f' s' : flow_wf f -> flow_server_data_segment f b = Ok (f', s') ->
  pkt_ends (tf_raw f) (seg_packet s') = flow_ends f Sv /\ wire_ports (seg_tcpseg s') = snd (flow_ends f Sv)
  /\ same_socks f f'.
Proof.
  intros W. unfold flow_server_data_segment.
  destruct (flow_sv_seg f b 0) as [s| | |] eqn:Es; cbn [obind]; try discriminate.
  destruct (seg_seq_consumed s) as [n| | |] eqn:En; cbn [obind]; try discriminate.
  destruct (seg_tcp_csum s) as [s1| | |] eqn:Ec; cbn [obind]; try discriminate.
  intros E. ok_inv E. destruct (csum_shape _ _ Ec) as (v & ->).
  destruct (sv_seg_ends _ _ _ _ Es) as (Sr & Se & Sn).
  assert (Ho : ends_ok s) by (apply (ends_ok_eq (flow_sv f)); [exact Sn|apply sv_ends_ok, W]).
  rewrite (pkt_ends_seg _ _ v Sr Se Ho), (seg_ends_seg _ v Ho), Sn. repeat split.
Qed.

Lemma client_hdr_ends f n f' hb : flow_wf f -> flow_client_hdr f n = Ok (f', hb) ->
  wire_ports hb = snd (flow_ends f Cl) /\ same_socks f f'.
Proof.
  intros W. unfold flow_client_hdr, seg_seq_consumed, cadd.
  destruct (_ <? two32); cbn [obind]; try discriminate.
  destruct (_ <? two32); cbn [obind]; try discriminate.
  intros E. ok_inv E. split; [|repeat split].
  unfold seg_tcp_hdr_bytes. rewrite <- (app_nil_r (tcp_ser _)).
  destruct (cl_ends_ok f W) as (_ & _ & B3 & B4).
  rewrite wire_ports_ser; [reflexivity|exact B3|exact B4].
Qed.
Lemma server_hdr_ends f n f' hb : flow_wf f -> flow_server_hdr f n = Ok (f', hb) ->
  wire_ports hb = snd (flow_ends f Sv) /\ same_socks f f'.
Proof.
  intros W. unfold flow_server_hdr, seg_seq_consumed, cadd.
  destruct (_ <? two32); cbn [obind]; try discriminate.
  destruct (_ <? two32); cbn [obind]; try discriminate.
  intros E. ok_inv E. split; [|repeat split].
  unfold seg_tcp_hdr_bytes. rewrite <- (app_nil_r (tcp_ser _)).
  destruct (sv_ends_ok f W) as (_ & _ & B3 & B4).
  rewrite wire_ports_ser; [reflexivity|exact B3|exact B4].
Qed.

(** a lone checksummed flag segment (bare ACK, reset) *)
Lemma lone_cl_ends g f s' : keeps g -> flow_wf f -> seg_tcp_csum (g (flow_cl f)) = Ok s' ->
  pkt_ends (tf_raw f) (seg_packet s') = flow_ends f Cl.
Proof.
  intros K W Ec. destruct (csum_shape _ _ Ec) as (v & ->). destruct (K (flow_cl f)) as (Kr & Ke & Kn).
  rewrite pkt_ends_seg.
  - rewrite Kn. reflexivity.
  - rewrite Kr. reflexivity.
  - rewrite Ke. reflexivity.
  - apply (ends_ok_eq _ _ Kn), cl_ends_ok, W.
Qed.
Lemma lone_sv_ends g f s' : keeps g -> flow_wf f -> seg_tcp_csum (g (flow_sv f)) = Ok s' ->
  pkt_ends (tf_raw f) (seg_packet s') = flow_ends f Sv.
Proof.
  intros K W Ec. destruct (csum_shape _ _ Ec) as (v & ->). destruct (K (flow_sv f)) as (Kr & Ke & Kn).
  rewrite pkt_ends_seg.
  - rewrite Kn. reflexivity.
  - rewrite Kr. reflexivity.
  - rewrite Ke. reflexivity.
  - apply (ends_ok_eq _ _ Kn), sv_ends_ok, W.
Qed.

(* ---------------- every method ---------------- *)
(** the ends of the segments in a returned value: addresses (frames only) and ports *)
Definition lift_ends (e : (N * N) * (N * N)) : option (N * N) * (N * N) := (Some (fst e), snd e).
Definition val_ends (raw : bool) (v : val) : list (option (N * N) * (N * N)) :=
  match v with
  | VPkt p => [lift_ends (pkt_ends raw p)]
  | VPktGen ps => map (fun p => lift_ends (pkt_ends raw p)) ps
  | VStr b => [(None, wire_ports b)]
  | _ => []
  end.
(** operations returning bare segments or headers rather than frames *)
Definition bare (o : op) : bool := match o with OSegment _ true _ _ _ | OHdr _ _ => true | _ => false end.
Definition want_ends (f : tcp_flow) (o : op) (d : dir) : option (N * N) * (N * N) :=
  if bare o then (None, snd (flow_ends f d)) else lift_ends (flow_ends f d).

Lemma gen_ends raw ps f ds :
  map (pkt_ends raw) ps = map (flow_ends f) ds ->
  val_ends raw (VPktGen ps) = map (fun d => lift_ends (flow_ends f d)) ds.
Proof.
  intros E. cbn [val_ends]. rewrite <- (map_map (pkt_ends raw) lift_ends), E, map_map. reflexivity.
Qed.

Theorem body_ends o f f' v :
  flow_wf f -> lib_body o f = Ok (f', v) ->
  val_ends (tf_raw f) v = map (want_ends f o) (op_dirs o) /\ same_socks f f'.
Proof.
  intros W. destruct o as [|d b sa fo sq ak|d raw b sq ak|d n|d sq ak|d n|d|d]; cbn [lib_body].
  - destruct (flow_open f) as [[f2 ps]| | |] eqn:E; cbn [obind]; try discriminate.
    intros H. ok_inv H. destruct (open_ends _ _ _ W E) as (P & S). split; [|exact S]. exact (gen_ends _ _ _ _ P).
  - destruct d; cbn [is_cl].
    + destruct (flow_client_message f b sa fo) as [[f2 ps]| | |] eqn:E; cbn [obind]; try discriminate.
      intros H. ok_inv H. destruct (client_message_ends _ _ _ _ _ _ W E) as (P & S). split; [|exact S].
      exact (gen_ends _ _ _ _ P).
    + destruct (flow_server_message f b sa fo) as [[f2 ps]| | |] eqn:E; cbn [obind]; try discriminate.
      intros H. ok_inv H. destruct (server_message_ends _ _ _ _ _ _ W E) as (P & S). split; [|exact S].
      exact (gen_ends _ _ _ _ P).
  - destruct d; cbn [is_cl].
    + destruct (flow_client_data_segment f b) as [[f2 s]| | |] eqn:E; cbn [obind]; try discriminate.
      intros H. ok_inv H. destruct (client_segment_ends _ _ _ _ W E) as (P & Q & S). split; [|exact S].
      destruct raw; cbn [val_ends op_dirs map want_ends bare]; [rewrite Q|rewrite P]; reflexivity.
    + destruct (flow_server_data_segment f b) as [[f2 s]| | |] eqn:E; cbn [obind]; try discriminate.
      intros H. ok_inv H. destruct (server_segment_ends _ _ _ _ W E) as (P & Q & S). split; [|exact S].
      destruct raw; cbn [val_ends op_dirs map want_ends bare]; [rewrite Q|rewrite P]; reflexivity.
  - destruct d; cbn [is_cl].
    + destruct (flow_client_hdr f n) as [[f2 hb]| | |] eqn:E; cbn [obind]; try discriminate.
      intros H. ok_inv H. destruct (client_hdr_ends _ _ _ _ W E) as (Q & S). split; [|exact S].
      cbn [val_ends op_dirs map want_ends bare]. rewrite Q. reflexivity.
    + destruct (flow_server_hdr f n) as [[f2 hb]| | |] eqn:E; cbn [obind]; try discriminate.
      intros H. ok_inv H. destruct (server_hdr_ends _ _ _ _ W E) as (Q & S). split; [|exact S].
      cbn [val_ends op_dirs map want_ends bare]. rewrite Q. reflexivity.
  - destruct d; cbn [is_cl].
    + unfold flow_client_ack. destruct (seg_tcp_csum _) as [s| | |] eqn:E; cbn [obind]; try discriminate.
      intros H. ok_inv H. split; [|apply same_socks_refl].
      cbn [val_ends op_dirs map want_ends bare]. rewrite (lone_cl_ends _ _ _ keeps_ack W E). reflexivity.
    + unfold flow_server_ack. destruct (seg_tcp_csum _) as [s| | |] eqn:E; cbn [obind]; try discriminate.
      intros H. ok_inv H. split; [|apply same_socks_refl].
      cbn [val_ends op_dirs map want_ends bare]. rewrite (lone_sv_ends _ _ _ keeps_ack W E). reflexivity.
  - intros H. ok_inv H. split; [reflexivity|]. destruct d; repeat split.
  - destruct d; cbn [is_cl].
    + destruct (flow_client_close f) as [[f2 ps]| | |] eqn:E; cbn [obind]; try discriminate.
      intros H. ok_inv H. destruct (client_close_ends _ _ _ W E) as (P & S). split; [|exact S]. exact (gen_ends _ _ _ _ P).
    + destruct (flow_server_close f) as [[f2 ps]| | |] eqn:E; cbn [obind]; try discriminate.
      intros H. ok_inv H. destruct (server_close_ends _ _ _ W E) as (P & S). split; [|exact S]. exact (gen_ends _ _ _ _ P).
  - destruct d; cbn [is_cl].
    + unfold flow_client_reset. destruct (seg_tcp_csum _) as [s| | |] eqn:E; cbn [obind]; try discriminate.
      intros H. ok_inv H. split; [|apply same_socks_refl].
      cbn [val_ends op_dirs map want_ends bare]. rewrite (lone_cl_ends _ _ _ keeps_rst W E). reflexivity.
    + unfold flow_server_reset. destruct (seg_tcp_csum _) as [s| | |] eqn:E; cbn [obind]; try discriminate.
      intros H. ok_inv H. split; [|apply same_socks_refl].
      cbn [val_ends op_dirs map want_ends bare]. rewrite (lone_sv_ends _ _ _ keeps_rst W E). reflexivity.
Qed.

Lemma want_ends_same f f1 o d : same_socks f f1 -> want_ends f1 o d = want_ends f o d.
Proof. intros S. unfold want_ends. rewrite (same_socks_ends _ _ d S). reflexivity. Qed.

(** with the overrides around it: push_state and pop_state touch only the counters *)
Theorem lib_op_ends o f f' v :
  flow_wf f -> lib_op f o = Ok (f', v) ->
  val_ends (tf_raw f) v = map (want_ends f o) (op_dirs o) /\ same_socks f f'.
Proof.
  intros W. unfold lib_op. destruct (op_over o) as [[[d sq] ak]|].
  - unfold with_override. cbv zeta.
    set (f1 := fst (flow_push_state f _ _)).
    assert (S0 : same_socks f f1) by (repeat split).
    destruct (lib_body o f1) as [[f2 v2]| | |] eqn:Eb; cbn [obind]; try discriminate.
    intros E. ok_inv E.
    destruct (body_ends _ _ _ _ (same_socks_wf _ _ S0 W) Eb) as (P & S).
    rewrite (proj2 (proj2 S0)) in P. split.
    + rewrite P. apply map_ext. intros e. apply want_ends_same, S0.
    + destruct (same_socks_trans _ _ _ S0 S) as (A & B & C). repeat split; assumption.
  - apply body_ends, W.
Qed.

(** ... and the two ends of a flow are the same at every call of a history *)
Theorem run_ops_socks ops : forall f f' segs, run_ops f ops = Ok (f', segs) -> flow_wf f -> same_socks f f'.
Proof.
  induction ops as [|o r IH]; intros f f' segs; cbn [run_ops].
  - intros E _. ok_inv E. apply same_socks_refl.
  - unfold run_op. destruct (lib_op f o) as [[f1 v]| | |] eqn:E1; cbn [obind]; try discriminate.
    destruct (run_ops f1 r) as [[f2 s2]| | |] eqn:E2; cbn [obind]; try discriminate.
    intros E W. ok_inv E. destruct (lib_op_ends _ _ _ _ W E1) as (_ & S1).
    exact (same_socks_trans _ _ _ S1 (IH _ _ _ E2 (same_socks_wf _ _ S1 W))).
Qed.
