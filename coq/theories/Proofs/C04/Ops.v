(** C04, history level: the operation language of Spec/TcpHistory.v executed by the functions the library
    glue (Lib/Ipv4Lib.v [tcp_method]) executes, and the proof that every TcpFlow method call of the interpreter
    is such an execution. *)
From RS Require Import Base.Bytes Base.Outcome Pkt.Hdrs Pkt.Packet Ez.Tcp Interp.Val Lib.LibBase Lib.Ipv4Lib
  Spec.Wire Spec.TcpAccount Spec.TcpHistory Proofs.Tactics.
Open Scope N_scope.

Definition is_cl (d : dir) : bool := match d with Cl => true | Sv => false end.

(** the body of a method, between push_state and pop_state: the closures of [tcp_method], verbatim *)
Definition lib_body (o : op) (f1 : tcp_flow) : outcome (tcp_flow * val) :=
  match o with
  | OOpen => do (f2, ps) <- flow_open f1; Ok (f2, VPktGen ps)
  | OMessage d b sa fo _ _ =>
      do (f2, ps) <- (if is_cl d then flow_client_message else flow_server_message) f1 b sa fo;
      Ok (f2, VPktGen ps)
  | OSegment d raw b _ _ =>
      do (f2, s) <- (if is_cl d then flow_client_data_segment else flow_server_data_segment) f1 b;
      Ok (f2, if raw then VStr (seg_tcpseg s) else VPkt (seg_packet s))
  | OHdr d n =>
      do (f2, b) <- (if is_cl d then flow_client_hdr else flow_server_hdr) f1 n;
      Ok (f2, VStr b)
  | OAck d _ _ =>
      do s <- (if is_cl d then flow_client_ack else flow_server_ack) f1;
      Ok (f1, VPkt (seg_packet s))
  | OHole d n => Ok ((if is_cl d then flow_client_hole else flow_server_hole) f1 n, VNil)
  | OClose d => do (f2, ps) <- (if is_cl d then flow_client_close else flow_server_close) f1; Ok (f2, VPktGen ps)
  | OReset d => do p <- (if is_cl d then flow_client_reset else flow_server_reset) f1; Ok (f1, VPkt p)
  end.

(** the whole method: methods taking seq:/ack: wrap the body in [with_override] *)
Definition lib_op (f : tcp_flow) (o : op) : outcome (tcp_flow * val) :=
  match op_over o with
  | Some (d, sq, ak) => with_override f (is_cl d) sq ak (fun f1 => lib_body o f1)
  | None => lib_body o f
  end.

(** how a method name and its evaluated arguments denote an operation: the argument conversions of
    [tcp_method], in its order; [None] = no such method *)
Definition op_of_call (name : string) (a x : list val) : option (outcome op) :=
  let message (d : dir) := match a with
      | [send_ack; seq; ack; frag_off] =>
        do sa <- conv_bool send_ack; do sq <- conv_opt conv_u32 seq; do ak <- conv_opt conv_u32 ack;
        do fo <- conv_u16 frag_off; do b <- join_extra [] x;
        Ok (OMessage d b sa fo sq ak)
      | _ => bad_args end in
  let segment (d : dir) (raw : bool) := match a with
      | [seq; ack] =>
        do sq <- conv_opt conv_u32 seq; do ak <- conv_opt conv_u32 ack; do b <- join_extra [] x;
        Ok (OSegment d raw b sq ak)
      | _ => bad_args end in
  let hdr (d : dir) := match a with [n] => do v <- conv_u32 n; Ok (OHdr d v) | _ => bad_args end in
  let ack (d : dir) := match a with
      | [seq; ack] => do sq <- conv_opt conv_u32 seq; do ak <- conv_opt conv_u32 ack; Ok (OAck d sq ak)
      | _ => bad_args end in
  let hole (d : dir) := match a with [n] => do v <- conv_u32 n; Ok (OHole d v) | _ => bad_args end in
  if String.eqb name "open" then Some (Ok OOpen)
  else if String.eqb name "client_message" then Some (message Cl)
  else if String.eqb name "server_message" then Some (message Sv)
  else if String.eqb name "client_segment" then Some (segment Cl false)
  else if String.eqb name "server_segment" then Some (segment Sv false)
  else if String.eqb name "client_raw_segment" then Some (segment Cl true)
  else if String.eqb name "server_raw_segment" then Some (segment Sv true)
  else if String.eqb name "client_hdr" then Some (hdr Cl)
  else if String.eqb name "server_hdr" then Some (hdr Sv)
  else if String.eqb name "client_ack" then Some (ack Cl)
  else if String.eqb name "server_ack" then Some (ack Sv)
  else if String.eqb name "client_hole" then Some (hole Cl)
  else if String.eqb name "server_hole" then Some (hole Sv)
  else if String.eqb name "client_close" then Some (Ok (OClose Cl))
  else if String.eqb name "server_close" then Some (Ok (OClose Sv))
  else if String.eqb name "client_reset" then Some (Ok (OReset Cl))
  else if String.eqb name "server_reset" then Some (Ok (OReset Sv))
  else None.

(** a method call on the heap: fetch the receiver, run the operation on its flow, store the flow back *)
Definition call_on_heap (this : option nat) (h : heap) (oo : outcome op) : libres :=
  do (addr, ob) <- take_this this h;
  match ob with
  | OTcp f => do (f', v) <- (do o <- oo; lib_op f o); Ok (v, set_nth h addr (OTcp f'))
  | _ => bad_downcast
  end.

(** ---- observation: the segments in the value a method returns ---- *)
(** which side sends the segments of an operation, in order *)
Definition op_dirs (o : op) : list dir :=
  match o with
  | OOpen => [Cl; Sv; Cl]
  | OMessage d _ sa _ _ _ => d :: (if sa then [opp d] else [])
  | OSegment d _ _ _ _ | OHdr d _ | OAck d _ _ | OReset d => [d]
  | OHole _ _ => []
  | OClose d => [d; opp d; d]
  end.
(** the TCP segments (header + payload) in a returned value: packets are frames, strings are bare segments
    (raw segments) or bare headers (header-only) *)
Definition val_l4 (raw : bool) (v : val) : list bytes :=
  match v with
  | VPkt p => [frame_l4 raw (pkt_frame p)]
  | VPktGen ps => map (fun p => frame_l4 raw (pkt_frame p)) ps
  | VStr b => [b]
  | _ => []
  end.
Definition observe (raw : bool) (o : op) (v : val) : list seginfo :=
  map (fun ds => wire_seg (fst ds) (snd ds)) (combine (op_dirs o) (val_l4 raw v)).

Definition run_op (f : tcp_flow) (o : op) : outcome (tcp_flow * list seginfo) :=
  do (f', v) <- lib_op f o; Ok (f', observe (tf_raw f) o v).

Fixpoint run_ops (f : tcp_flow) (ops : list op) : outcome (tcp_flow * list seginfo) :=
  match ops with
  | [] => Ok (f, [])
  | o :: r => do (f1, s1) <- run_op f o; do (f2, s2) <- run_ops f1 r; Ok (f2, s1 ++ s2)
  end.

(** ---- every TcpFlow method of the library is [lib_op] of the operation its arguments denote ---- *)
Lemma obind_assoc {A B C} (x : outcome A) (g : A -> outcome B) (k : B -> outcome C) :
  obind (obind x g) k = obind x (fun a => obind (g a) k).
Proof. destruct x; reflexivity. Qed.

Ltac has_conv := lazymatch goal with
  | |- context [obind (conv_bool _) _] => idtac
  | |- context [obind (conv_opt _ _) _] => idtac
  | |- context [obind (conv_u32 _) _] => idtac
  | |- context [obind (conv_u16 _) _] => idtac
  | |- context [obind (join_extra _ _) _] => idtac
  end.
Ltac case_args a :=
  destruct a as [|?a1 [|?a2 [|?a3 [|?a4 [|?a5 ?a6]]]]]; first [has_conv | reflexivity].
Ltac case_conv := match goal with
  | |- context [obind ?c _] =>
      match c with
      | conv_bool _ => destruct c
      | conv_opt _ _ => destruct c
      | conv_u16 _ => destruct c
      | conv_u32 _ => destruct c
      | join_extra _ _ => destruct c
      end; cbn [obind lib_op op_over lib_body is_cl]; first [has_conv | reflexivity]
  end.

Theorem tcp_method_is_lib_op name this a x h :
  tcp_method name this a x h = option_map (call_on_heap this h) (op_of_call name a x).
Proof.
  unfold tcp_method, op_of_call.
  repeat (match goal with |- (if String.eqb name ?s then _ else _) = option_map _ (if String.eqb name ?s then _ else _) =>
      destruct (String.eqb name s) end;
    [ cbn [option_map]; apply f_equal; unfold call_on_heap;
      destruct (take_this this h) as [[addr ob]| | |]; cbn [obind]; [|reflexivity..];
      destruct ob; [|reflexivity..];
      cbn [obind lib_op op_over lib_body is_cl];
      try (match goal with |- context [match a with _ => _ end] => idtac end;
           case_args a; cbn [obind lib_op op_over lib_body is_cl]; repeat case_conv);
      reflexivity
    | ]).
  reflexivity.
Qed.

(** the operations the interpreter can form carry 32-bit overrides *)
Lemma conv_opt_u32_lt v o x : conv_opt conv_u32 v = Ok o -> o = Some x -> x < 4294967296.
Proof.
  unfold conv_opt, conv_u32, omap. intros E ->.
  destruct v; try discriminate; cbn in E;
    try (apply Ok_inj in E; injection E as <-; unfold wrap32; apply N.mod_lt; discriminate).
Qed.

Lemma Some_inj' {A} (a b : A) : Some a = Some b -> a = b.
Proof. congruence. Qed.

Ltac conv_eqn E := match type of E with
  | obind ?c _ = Ok _ =>
      let H := fresh "Hc" in destruct c eqn:H; cbn [obind] in E; try discriminate E
  end.

Theorem op_of_call_u32 name a x o : op_of_call name a x = Some (Ok o) -> over_u32 o.
Proof.
  unfold op_of_call.
  repeat (match goal with |- (if String.eqb name ?s then _ else _) = _ -> _ => destruct (String.eqb name s) end;
    [ intros E; apply Some_inj' in E;
      first [ apply Ok_inj in E; subst o; exact I
            | destruct a as [|?a1 [|?a2 [|?a3 [|?a4 [|?a5 ?a6]]]]]; try discriminate E;
              repeat conv_eqn E; apply Ok_inj in E; subst o; unfold over_u32; cbn [op_over];
              first [ exact I | split; intros ? ?; subst; (eapply conv_opt_u32_lt; [|reflexivity]; eassumption) ] ]
    | ]).
  intros E; discriminate E.
Qed.
