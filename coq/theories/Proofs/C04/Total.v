(** C04, history level: no operation of a flow can fail -- the checked additions of the flow model never
    overflow (payload lengths and checksum partial sums are reduced before they are added), except the
    header-only operation when it is asked to announce 2^32 bytes or more, which the library never does
    (its argument is a u32).  Hence every history runs to completion. *)
From RS Require Import Base.Bytes Base.Outcome Pkt.Csum Pkt.Hdrs Pkt.Packet Ez.Tcp Interp.Val Lib.LibBase Lib.Ipv4Lib
  Spec.Wire Spec.TcpAccount Spec.TcpHistory Proofs.BytesLemmas Proofs.C02.CsumLemmas Proofs.Tactics
  Proofs.C04.Seq Proofs.C04.Ops Proofs.C04.History.
From Coq Require Import ZArith Lia ZifyBool ZifyNat ZifyN.
Ltac Zify.zify_post_hook ::= Z.div_mod_to_equations.
Open Scope N_scope.

Lemma cadd_ok site a b : a + b < 4294967296 -> cadd two32 site a b = Ok (a + b).
Proof. intros H. unfold cadd, two32. apply N.ltb_lt in H. rewrite H. reflexivity. Qed.

Lemma csum_ok s : exists s', seg_tcp_csum s = Ok s'.
Proof.
  unfold seg_tcp_csum. cbv zeta.
  set (ph := csum_partial (pseudo_ser _ _ _ _)). set (th := csum_partial (tcp_ser _)). set (pl := csum_partial (takeN _ _)).
  pose proof (csum_partial_lt (pseudo_ser (ip_src (ts_ip s)) (ip_dst (ts_ip s)) (ip_proto (ts_ip s)) (seg_csum_len s))) as H1.
  pose proof (csum_partial_lt (tcp_ser (ts_tcp s))) as H2.
  pose proof (csum_partial_lt (takeN (ts_data_len s) (ts_payload s))) as H3.
  fold ph in H1. fold th in H2. fold pl in H3.
  rewrite (cadd_ok _ ph th) by lia. cbn [obind]. rewrite (cadd_ok _ (ph + th) pl) by lia. cbn [obind].
  eexists. reflexivity.
Qed.

Lemma cl_tx_ok f s : ts_data_len s + ts_extra s < 4294967296 -> exists f' p, flow_cl_tx f s = Ok (f', p).
Proof.
  intros H. destruct (csum_ok s) as (s' & E). unfold flow_cl_tx, seg_seq_consumed.
  rewrite (cadd_ok _ _ _ H). cbn [obind]. rewrite E. cbn [obind]. eexists. eexists. reflexivity.
Qed.
Lemma sv_tx_ok f s : ts_data_len s + ts_extra s < 4294967296 -> exists f' p, flow_sv_tx f s = Ok (f', p).
Proof.
  intros H. destruct (csum_ok s) as (s' & E). unfold flow_sv_tx, seg_seq_consumed.
  rewrite (cadd_ok _ _ _ H). cbn [obind]. rewrite E. cbn [obind]. eexists. eexists. reflexivity.
Qed.

Lemma open_ok f : exists f' ps, flow_open f = Ok (f', ps).
Proof.
  unfold flow_open.
  destruct (cl_tx_ok f (seg_syn (flow_cl f))) as (f1 & p1 & ->); [reflexivity|]. cbn [obind].
  destruct (sv_tx_ok f1 (seg_syn_ack (flow_sv f1))) as (f2 & p2 & ->); [reflexivity|]. cbn [obind].
  destruct (cl_tx_ok f2 (seg_ack (flow_cl f2))) as (f3 & p3 & ->); [reflexivity|]. cbn [obind].
  eexists. eexists. reflexivity.
Qed.
Lemma client_close_ok f : exists f' ps, flow_client_close f = Ok (f', ps).
Proof.
  unfold flow_client_close.
  destruct (cl_tx_ok f (seg_fin_ack (flow_cl f))) as (f1 & p1 & ->); [reflexivity|]. cbn [obind].
  destruct (sv_tx_ok f1 (seg_fin_ack (flow_sv f1))) as (f2 & p2 & ->); [reflexivity|]. cbn [obind].
  destruct (cl_tx_ok f2 (seg_ack (flow_cl f2))) as (f3 & p3 & ->); [reflexivity|]. cbn [obind].
  eexists. eexists. reflexivity.
Qed.
Lemma server_close_ok f : exists f' ps, flow_server_close f = Ok (f', ps).
Proof.
  unfold flow_server_close.
  destruct (sv_tx_ok f (seg_fin_ack (flow_sv f))) as (f1 & p1 & ->); [reflexivity|]. cbn [obind].
  destruct (cl_tx_ok f1 (seg_fin_ack (flow_cl f1))) as (f2 & p2 & ->); [reflexivity|]. cbn [obind].
  destruct (sv_tx_ok f2 (seg_ack (flow_sv f2))) as (f3 & p3 & ->); [reflexivity|]. cbn [obind].
  eexists. eexists. reflexivity.
Qed.

Lemma cl_seg_ok f b off : exists s, flow_cl_seg f b off = Ok s /\ ts_data_len s + ts_extra s < 4294967296.
Proof.
  unfold flow_cl_seg, seg_push_bytes, seg_append_data, seg_update_tot_len.
  assert (H : ts_data_len (seg_push (seg_frag_off (flow_cl f) off)) + wrap32 (len b) < 4294967296).
  { change (0 + wrap32 (len b) < 4294967296). unfold wrap32. lia. }
  rewrite (cadd_ok _ _ _ H). cbn [obind]. eexists. split; [reflexivity|].
  cbn [ts_data_len ts_extra ts_with_ip]. change (0 + wrap32 (len b) + 0 < 4294967296). unfold wrap32. lia.
Qed.
Lemma sv_seg_ok f b off : exists s, flow_sv_seg f b off = Ok s /\ ts_data_len s + ts_extra s < 4294967296.
Proof.
  unfold flow_sv_seg, seg_push_bytes, seg_append_data, seg_update_tot_len.
  assert (H : ts_data_len (seg_push (seg_frag_off (flow_sv f) off)) + wrap32 (len b) < 4294967296).
  { change (0 + wrap32 (len b) < 4294967296). unfold wrap32. lia. }
  rewrite (cadd_ok _ _ _ H). cbn [obind]. eexists. split; [reflexivity|].
  cbn [ts_data_len ts_extra ts_with_ip]. change (0 + wrap32 (len b) + 0 < 4294967296). unfold wrap32. lia.
Qed.

Lemma client_message_ok f b sa off : exists f' ps, flow_client_message f b sa off = Ok (f', ps).
Proof.
  unfold flow_client_message. destruct (cl_seg_ok f b off) as (s & -> & H). cbn [obind].
  destruct (cl_tx_ok f s H) as (f1 & p1 & ->). cbn [obind]. destruct sa.
  - destruct (sv_tx_ok f1 (seg_ack (flow_sv f1))) as (f2 & p2 & ->); [reflexivity|]. cbn [obind]. eexists. eexists. reflexivity.
  - eexists. eexists. reflexivity.
Qed.
Lemma server_message_ok f b sa off : exists f' ps, flow_server_message f b sa off = Ok (f', ps).
Proof.
  unfold flow_server_message. destruct (sv_seg_ok f b off) as (s & -> & H). cbn [obind].
  destruct (sv_tx_ok f s H) as (f1 & p1 & ->). cbn [obind]. destruct sa.
  - destruct (cl_tx_ok f1 (seg_ack (flow_cl f1))) as (f2 & p2 & ->); [reflexivity|]. cbn [obind]. eexists. eexists. reflexivity.
  - eexists. eexists. reflexivity.
Qed.
Lemma client_segment_ok f b : exists f' s, flow_client_data_segment f b = Ok (f', s).
Proof.
  unfold flow_client_data_segment. destruct (cl_seg_ok f b 0) as (s & -> & H). cbn [obind].
  unfold seg_seq_consumed. rewrite (cadd_ok _ _ _ H). cbn [obind].
  destruct (csum_ok s) as (s' & ->). cbn [obind]. eexists. eexists. reflexivity.
Qed.
Lemma server_segment_ok f b : exists f' s, flow_server_data_segment f b = Ok (f', s).
Proof.
  unfold flow_server_data_segment. destruct (sv_seg_ok f b 0) as (s & -> & H). cbn [obind].
  unfold seg_seq_consumed. rewrite (cadd_ok _ _ _ H). cbn [obind].
  destruct (csum_ok s) as (s' & ->). cbn [obind]. eexists. eexists. reflexivity.
Qed.
Lemma client_hdr_ok f n : n < 4294967296 -> exists f' hb, flow_client_hdr f n = Ok (f', hb).
Proof.
  intros H. unfold flow_client_hdr, seg_seq_consumed. cbv zeta.
  rewrite cadd_ok by reflexivity. cbn [obind].
  rewrite cadd_ok by (change (0 + 0 + n < 4294967296); lia). cbn [obind]. eexists. eexists. reflexivity.
Qed.
Lemma server_hdr_ok f n : n < 4294967296 -> exists f' hb, flow_server_hdr f n = Ok (f', hb).
Proof.
  intros H. unfold flow_server_hdr, seg_seq_consumed. cbv zeta.
  rewrite cadd_ok by reflexivity. cbn [obind].
  rewrite cadd_ok by (change (0 + 0 + n < 4294967296); lia). cbn [obind]. eexists. eexists. reflexivity.
Qed.


Theorem lib_body_ok o f : hdr_u32 o -> exists f' v, lib_body o f = Ok (f', v).
Proof.
  destruct o as [|d b sa fo sq ak|d raw b sq ak|d n|d sq ak|d n|d|d]; cbn [lib_body hdr_u32]; intros H.
  - destruct (open_ok f) as (f' & ps & ->). cbn [obind]. eexists. eexists. reflexivity.
  - destruct d; cbn [is_cl].
    + destruct (client_message_ok f b sa fo) as (f' & ps & ->). cbn [obind]. eexists. eexists. reflexivity.
    + destruct (server_message_ok f b sa fo) as (f' & ps & ->). cbn [obind]. eexists. eexists. reflexivity.
  - destruct d; cbn [is_cl].
    + destruct (client_segment_ok f b) as (f' & s & ->). cbn [obind]. eexists. eexists. reflexivity.
    + destruct (server_segment_ok f b) as (f' & s & ->). cbn [obind]. eexists. eexists. reflexivity.
  - destruct d; cbn [is_cl].
    + destruct (client_hdr_ok f n H) as (f' & hb & ->). cbn [obind]. eexists. eexists. reflexivity.
    + destruct (server_hdr_ok f n H) as (f' & hb & ->). cbn [obind]. eexists. eexists. reflexivity.
  - destruct d; cbn [is_cl].
    + unfold flow_client_ack. destruct (csum_ok (seg_ack (flow_cl f))) as (s & ->). cbn [obind]. eexists. eexists. reflexivity.
    + unfold flow_server_ack. destruct (csum_ok (seg_ack (flow_sv f))) as (s & ->). cbn [obind]. eexists. eexists. reflexivity.
  - eexists. eexists. reflexivity.
  - destruct d; cbn [is_cl].
    + destruct (client_close_ok f) as (f' & ps & ->). cbn [obind]. eexists. eexists. reflexivity.
    + destruct (server_close_ok f) as (f' & ps & ->). cbn [obind]. eexists. eexists. reflexivity.
  - destruct d; cbn [is_cl].
    + unfold flow_client_reset. destruct (csum_ok (seg_rst (flow_cl f))) as (s & ->). cbn [obind]. eexists. eexists. reflexivity.
    + unfold flow_server_reset. destruct (csum_ok (seg_rst (flow_sv f))) as (s & ->). cbn [obind]. eexists. eexists. reflexivity.
Qed.

Theorem run_op_ok o f : hdr_u32 o -> exists f' segs, run_op f o = Ok (f', segs).
Proof.
  intros H. unfold run_op, lib_op. destruct (op_over o) as [[[d sq] ak]|].
  - unfold with_override. cbv zeta.
    destruct (lib_body_ok o (fst (flow_push_state f (fst (if is_cl d then (sq, ak) else (ak, sq)))
                                   (snd (if is_cl d then (sq, ak) else (ak, sq))))) H) as (f2 & v & ->).
    cbn [obind]. eexists. eexists. reflexivity.
  - destruct (lib_body_ok o f H) as (f2 & v & ->). cbn [obind]. eexists. eexists. reflexivity.
Qed.

Theorem run_ops_ok ops : forall f, Forall hdr_u32 ops -> exists f' segs, run_ops f ops = Ok (f', segs).
Proof.
  induction ops as [|o r IH]; intros f H.
  - eexists. eexists. reflexivity.
  - cbn [run_ops]. destruct (run_op_ok o f (Forall_inv H)) as (f1 & s1 & ->). cbn [obind].
    destruct (IH f1 (Forall_inv_tail H)) as (f2 & s2 & ->). cbn [obind]. eexists. eexists. reflexivity.
Qed.

(** the operations the interpreter can form announce a u32 *)
Theorem op_of_call_hdr_u32 name a x o : op_of_call name a x = Some (Ok o) -> hdr_u32 o.
Proof.
  unfold op_of_call.
  repeat (match goal with |- (if String.eqb name ?s then _ else _) = _ -> _ => destruct (String.eqb name s) end;
    [ intros E; apply Some_inj' in E;
      first [ apply Ok_inj in E; subst o; exact I
            | destruct a as [|?a1 [|?a2 [|?a3 [|?a4 [|?a5 ?a6]]]]]; try discriminate E;
              repeat conv_eqn E; apply Ok_inj in E; subst o; cbn [hdr_u32];
              first [ exact I
                    | match goal with Hc : conv_u32 ?v = Ok ?n |- ?n < _ =>
                        unfold conv_u32, omap in Hc; destruct (conv_int v); try discriminate Hc;
                        cbn [obind] in Hc; apply Ok_inj in Hc; subst n; unfold wrap32; apply N.mod_lt; discriminate end ] ]
    | ]).
  intros E; discriminate E.
Qed.

(** every history runs, emits the specification's segments, and ends with the specification's counters *)
Theorem history_total ops f a :
  flow_abs f a -> Forall over_u32 ops -> Forall hdr_u32 ops ->
  exists f', run_ops f ops = Ok (f', snd (spec_ops a ops)) /\ flow_abs f' (fst (spec_ops a ops)).
Proof.
  intros A0 U H. destruct (run_ops_ok ops f H) as (f' & segs & E).
  destruct (run_ops_refines ops f a f' segs A0 U E) as (S & A & _).
  exists f'. rewrite <- S. split; assumption.
Qed.
