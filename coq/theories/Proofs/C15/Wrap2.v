(** C15, second generation, 8-bit counts inside other structures: the DHCP option TLV parses back to the supplied
    code and data exactly when the data fits the one-octet length. *)
From RS Require Import Base.Bytes Base.Outcome Interp.Val Lib.LibBase Lib.MiscLib Lib.ProtoLib Lib.StdLib
  Spec.LenPrefix Spec.DhcpParse Proofs.BytesLemmas Proofs.C15.LenLemmas Proofs.C15.StdHelpers Proofs.C15.DhcpDns
  Proofs.C15.Wrap.
From Coq Require Import ZArith Lia ZifyBool ZifyNat ZifyN.
Ltac Zify.zify_post_hook ::= Z.div_mod_to_equations.
Open Scope N_scope.

Lemma parse_len_u8_wrap_iff (b rest : bytes) :
  parse_len_u8 ([wrap8 (len b)] ++ b ++ rest) = Some (b, rest) <-> len b < 256.
Proof.
  split.
  - intros P. destruct (N.ltb_spec (len b) 256) as [L|L]; [exact L|exfalso].
    unfold parse_len_u8, parse_len_prefixed, wrap8 in P. cbn [app] in P.
    fold (parse_u8 (len b mod 256 :: b ++ rest)) in P. rewrite parse_u8_cons in P.
    revert P. apply take_exact_short. lia.
  - apply parse_len_u8_enc.
Qed.

Theorem dhcp_option_iff e opt o parts rest h out :
  conv_u8 opt = Ok o ->
  call e "dhcp::option" [opt] (map VStr parts) h = Some (Ok (VStr out, h)) ->
  (parse_dhcp_tlv (out ++ rest) = Some ((o, concat parts), rest) <-> len (concat parts) < 256).
Proof.
  intros Ho. unfold call. change (exec e "dhcp::option" None [opt] (map VStr parts) h)
    with (Some (dhcp_option_fn [opt] (map VStr parts) h)).
  unfold dhcp_option_fn. rewrite Ho, join_extra_strs. cbn [obind]. intros E. injection E as E. subst out.
  assert (X : forall v, v = parse_dhcp_tlv (opt_bytes (o, concat parts) ++ rest) ->
              (v = Some ((o, concat parts), rest) <-> len (concat parts) < 256)).
  { intros v ->. unfold parse_dhcp_tlv, opt_bytes. cbn [fst snd app]. rewrite parse_u8_cons.
    change (wrap8 (len (concat parts)) :: concat parts ++ rest)
      with ([wrap8 (len (concat parts))] ++ concat parts ++ rest).
    rewrite <- (parse_len_u8_wrap_iff (concat parts) rest).
    destruct (parse_len_u8 ([wrap8 (len (concat parts))] ++ concat parts ++ rest)) as [[f r]|].
    - split; intros P; injection P as P1 P2; subst; reflexivity.
    - split; discriminate. }
  apply X. reflexivity.
Qed.

(** the 32-bit helper, for completeness of the family (the boundary is 4 GiB of content) *)
Theorem len_be32_exact e parts h :
  call e "std::len_be32" [] (map VStr parts) h
  = Some (Ok (VStr (be32 (len (concat parts) mod 4294967296) ++ concat parts), h)).
Proof.
  unfold call. change (exec e "std::len_be32" None [] (map VStr parts) h)
    with (Some (std_len_fn (fun n => be32 (wrap32 n)) [] (map VStr parts) h)). rewrite std_len_fn_strs. reflexivity.
Qed.

Theorem len_be32_iff e parts rest h out :
  call e "std::len_be32" [] (map VStr parts) h = Some (Ok (VStr out, h)) ->
  (parse_len_be32 (out ++ rest) = Some (concat parts, rest) <-> len (concat parts) < 4294967296).
Proof.
  rewrite len_be32_exact. intros E. injection E as E. subst out. split.
  - intros P. destruct (N.ltb_spec (len (concat parts)) 4294967296) as [L|L]; [exact L|exfalso].
    assert (P' : parse_len_be32 (be32 (len (concat parts) mod 4294967296) ++ concat parts ++ rest)
                 = Some (concat parts, rest)) by exact P.
    unfold parse_len_be32, parse_len_prefixed in P'.
    fold (parse_be32 (be32 (len (concat parts) mod 4294967296) ++ concat parts ++ rest)) in P'.
    rewrite parse_be32_enc in P' by lia. revert P'. apply take_exact_short. lia.
  - intros L. exact (parse_len_be32_enc (concat parts) rest L).
Qed.
