(** C15 for the TLS framing helpers: record, extension, cipher list, hello messages (24-bit handshake
    length, optional 16-bit extension block), server-name extension, certificate chain. *)
From RS Require Import Base.Bytes Base.Outcome Interp.Val Lib.LibBase Lib.MiscLib Lib.ProtoLib Lib.StdLib
  Spec.LenPrefix Spec.TlsParse Proofs.BytesLemmas Proofs.C15.LenLemmas Proofs.C15.StdHelpers Proofs.Tactics.
From Coq Require Import ZArith Lia ZifyBool ZifyNat ZifyN.
Ltac Zify.zify_post_hook ::= Z.div_mod_to_equations.
Open Scope N_scope.

Lemma conv_u16_lt x v : conv_u16 x = Ok v -> v < 65536.
Proof. unfold conv_u16, omap, wrap16. destruct (conv_int x); cbn [obind]; try discriminate. intros E. apply Ok_inj in E. lia. Qed.
Lemma conv_u8_lt x v : conv_u8 x = Ok v -> v < 256.
Proof. unfold conv_u8, omap, wrap8. destruct (conv_int x); cbn [obind]; try discriminate. intros E. apply Ok_inj in E. lia. Qed.
Lemma conv_u32_lt x v : conv_u32 x = Ok v -> v < 4294967296.
Proof. unfold conv_u32, omap, wrap32. destruct (conv_int x); cbn [obind]; try discriminate. intros E. apply Ok_inj in E. lia. Qed.

Lemma call_str_inj a b (h h' : heap) : Some (Ok (VStr a, h)) = Some (Ok (VStr b, h')) -> a = b.
Proof. congruence. Qed.

(* ---------------- record ---------------- *)
Theorem tls_record_roundtrip e version content v c parts rest h :
  conv_u16 version = Ok v -> conv_u8 content = Ok c -> len (concat parts) < 65536 ->
  exists out, call e "tls::message" [version; content] (map VStr parts) h = Some (Ok (VStr out, h))
              /\ parse_tls_record (out ++ rest) = Some ((c, v, concat parts), rest).
Proof.
  intros Hv Hc Hl. pose proof (conv_u16_lt _ _ Hv). pose proof (conv_u8_lt _ _ Hc).
  unfold call. change (exec e "tls::message" None [version; content] (map VStr parts) h)
    with (Some (tls_message_fn [version; content] (map VStr parts) h)).
  unfold tls_message_fn. rewrite Hv, Hc, join_extra_strs. cbn [obind]. eexists. split; [reflexivity|].
  unfold parse_tls_record. rewrite <- !app_assoc. cbn [app].
  rewrite parse_u8_cons, parse_be16_enc, parse_len_be16_enc by assumption. reflexivity.
Qed.

(* ---------------- extension ---------------- *)
Definition ext_bytes (x : N * bytes) : bytes := be16 (fst x) ++ be16 (wrap16 (len (snd x))) ++ snd x.

Lemma parse_extension_enc x rest : fst x < 65536 -> len (snd x) < 65536 ->
  parse_extension (ext_bytes x ++ rest) = Some (x, rest).
Proof.
  intros H1 H2. unfold parse_extension, ext_bytes. rewrite <- !app_assoc.
  rewrite parse_be16_enc, parse_len_be16_enc by assumption. destruct x; reflexivity.
Qed.

Theorem tls_extension_roundtrip e ext t parts rest h :
  conv_u16 ext = Ok t -> len (concat parts) < 65536 ->
  exists out, call e "tls::extension" [ext] (map VStr parts) h = Some (Ok (VStr out, h))
              /\ parse_extension (out ++ rest) = Some ((t, concat parts), rest).
Proof.
  intros Ht Hl. pose proof (conv_u16_lt _ _ Ht).
  unfold call. change (exec e "tls::extension" None [ext] (map VStr parts) h)
    with (Some (tls_extension_fn [ext] (map VStr parts) h)).
  unfold tls_extension_fn. rewrite Ht, join_extra_strs. cbn [obind]. eexists. split; [reflexivity|].
  apply (parse_extension_enc (t, concat parts)); assumption.
Qed.

(** a block made of extensions back to back parses into those extensions, in order *)
Theorem tls_extensions_sequence exts :
  Forall (fun x => fst x < 65536 /\ len (snd x) < 65536) exts ->
  parse_extensions (concat (map ext_bytes exts)) = Some exts.
Proof.
  intros H. unfold parse_extensions. apply (parse_all_concat_P _ _ (fun x => fst x < 65536 /\ len (snd x) < 65536)).
  - intros x rest (H1 & H2). apply parse_extension_enc; assumption.
  - intros x. unfold ext_bytes, be16. cbn [app]. discriminate.
  - exact H.
Qed.

(* ---------------- cipher-suite list ---------------- *)
Lemma omapM_conv_u16 ids : Forall (fun i => i < 65536) ids -> omapM conv_u16 (map VU16 ids) = Ok ids.
Proof.
  induction 1 as [|i r Hi Hr IH]; [reflexivity|]. cbn [map omapM]. rewrite IH.
  unfold conv_u16, omap, wrap16. cbn [conv_int obind]. rewrite N.mod_small by assumption. reflexivity.
Qed.

Lemma len_concat_be16 ids : len (concat (map be16 ids)) = len ids * 2.
Proof. induction ids as [|i r IH]; [reflexivity|]. cbn [map concat]. rewrite len_app, IH, len_cons. cbn. lia. Qed.

Lemma pairs_be16_enc ids : Forall (fun i => i < 65536) ids -> pairs_be16 (concat (map be16 ids)) = Some ids.
Proof.
  induction 1 as [|i r Hi Hr IH]; [reflexivity|]. cbn [map concat]. unfold be16 at 1. cbn [app pairs_be16].
  rewrite IH. unfold rd16. do 2 f_equal. lia.
Qed.

Definition cipher_list_bytes (ids : list N) : bytes := be16 (wrap16 (len ids * 2)) ++ concat (map be16 ids).

Lemma parse_cipher_list_enc ids rest : Forall (fun i => i < 65536) ids -> len ids * 2 < 65536 ->
  parse_cipher_list (cipher_list_bytes ids ++ rest) = Some (ids, rest).
Proof.
  intros Hi Hl. unfold parse_cipher_list, cipher_list_bytes. rewrite <- app_assoc, <- len_concat_be16.
  rewrite parse_len_be16_enc by (rewrite len_concat_be16; exact Hl). rewrite pairs_be16_enc by exact Hi. reflexivity.
Qed.

Lemma tls_ciphers_call e ids h : Forall (fun i => i < 65536) ids ->
  call e "tls::ciphers" [] (map VU16 ids) h = Some (Ok (VStr (cipher_list_bytes ids), h)).
Proof.
  intros Hi. unfold call. change (exec e "tls::ciphers" None [] (map VU16 ids) h)
    with (Some (tls_ciphers_fn [] (map VU16 ids) h)).
  unfold tls_ciphers_fn. rewrite omapM_conv_u16 by exact Hi. reflexivity.
Qed.

Theorem tls_ciphers_roundtrip e ids rest h : Forall (fun i => i < 65536) ids -> len ids * 2 < 65536 ->
  exists out, call e "tls::ciphers" [] (map VU16 ids) h = Some (Ok (VStr out, h))
              /\ parse_cipher_list (out ++ rest) = Some (ids, rest).
Proof.
  intros Hi Hl. eexists. split; [apply tls_ciphers_call, Hi|]. apply parse_cipher_list_enc; assumption.
Qed.

(* ---------------- hello messages ---------------- *)
Lemma len24_parse n b rest : len b = n -> n < 16777216 -> parse_len_be24 (len24 n ++ b ++ rest) = Some (b, rest).
Proof. intros <- H. unfold len24. apply parse_len_be24_enc, H. Qed.

Lemma len_ext_block x : len (ext_block x) = (if 0 <? len x then 2 else 0) + len x.
Proof. destruct x as [|a r]; [reflexivity|]. unfold ext_block. rewrite len_app. rewrite len_cons. cbn. 
  destruct (0 <? 1 + len r) eqn:E; lia. Qed.

Lemma len_client_random : len client_random = 32. Proof. reflexivity. Qed.
Lemma len_server_random : len server_random = 32. Proof. reflexivity. Qed.

(** the handshake header of a client hello declares exactly its body, whatever bytes the parts are *)
Theorem client_hello_framing e version v sid ci co exts rest h :
  conv_u16 version = Ok v ->
  34 + len sid + len ci + len co + (if 0 <? len (concat exts) then 2 else 0) + len (concat exts) < 16777216 ->
  exists out, call e "tls::client_hello" [version; VStr sid; VStr ci; VStr co] (map VStr exts) h = Some (Ok (VStr out, h))
              /\ parse_handshake (out ++ rest)
                 = Some ((1, be16 v ++ client_random ++ sid ++ ci ++ co ++ ext_block (concat exts)), rest).
Proof.
  intros Hv Hl.
  unfold call. change (exec e "tls::client_hello" None [version; VStr sid; VStr ci; VStr co] (map VStr exts) h)
    with (Some (tls_client_hello_fn [version; VStr sid; VStr ci; VStr co] (map VStr exts) h)).
  unfold tls_client_hello_fn. rewrite Hv, join_extra_strs. cbn [obind conv_buf]. eexists. split; [reflexivity|].
  unfold parse_handshake. cbn [app]. rewrite parse_u8_cons.
  set (body := be16 v ++ client_random ++ sid ++ ci ++ co ++ ext_block (concat exts)).
  rewrite <- app_assoc.
  rewrite (len24_parse _ body rest); [reflexivity| |exact Hl].
  unfold body. rewrite !len_app, len_ext_block, len_client_random. cbn. lia.
Qed.

Theorem server_hello_framing e version v sid cipher ci compression co exts rest h :
  conv_u16 version = Ok v -> conv_u16 cipher = Ok ci -> conv_u8 compression = Ok co ->
  34 + len sid + 2 + 1 + (if 0 <? len (concat exts) then 2 else 0) + len (concat exts) < 16777216 ->
  exists out, call e "tls::server_hello" [version; VStr sid; cipher; compression] (map VStr exts) h = Some (Ok (VStr out, h))
              /\ parse_handshake (out ++ rest)
                 = Some ((2, be16 v ++ server_random ++ sid ++ be16 ci ++ [co] ++ ext_block (concat exts)), rest).
Proof.
  intros Hv Hci Hco Hl.
  unfold call. change (exec e "tls::server_hello" None [version; VStr sid; cipher; compression] (map VStr exts) h)
    with (Some (tls_server_hello_fn [version; VStr sid; cipher; compression] (map VStr exts) h)).
  unfold tls_server_hello_fn. rewrite Hv, Hci, Hco, join_extra_strs. cbn [obind conv_buf]. eexists. split; [reflexivity|].
  unfold parse_handshake. cbn [app]. rewrite parse_u8_cons.
  set (body := be16 v ++ server_random ++ sid ++ be16 ci ++ co :: ext_block (concat exts)).
  rewrite <- app_assoc.
  rewrite (len24_parse _ body rest); [reflexivity| |exact Hl].
  unfold body. rewrite !len_app, len_cons, len_ext_block, len_server_random. cbn. lia.
Qed.

(** the optional extension block: absent when there are no extension bytes, otherwise a 16-bit count *)
Lemma parse_opt_ext_block_enc x : len x < 65536 ->
  parse_opt_ext_block (ext_block x) = Some (match x with [] => None | _ => Some x end).
Proof.
  intros H. destruct x as [|a r]; [reflexivity|]. unfold ext_block, parse_opt_ext_block.
  set (x := a :: r) in *. destruct (be16 (wrap16 (len x)) ++ x) eqn:E; [unfold be16 in E; discriminate|]. rewrite <- E.
  rewrite <- (app_nil_r x) at 2. rewrite parse_len_be16_enc by exact H. reflexivity.
Qed.

(** with the session id, cipher list and compression methods framed by the helpers meant for them,
    a TLS ClientHello parser recovers every part *)
Theorem client_hello_roundtrip e version v sid sidf ids cif comp cof exts rest h :
  conv_u16 version = Ok v ->
  call e "std::len_u8" [] [VStr sid] h = Some (Ok (VStr sidf, h)) -> len sid < 256 ->
  call e "tls::ciphers" [] (map VU16 ids) h = Some (Ok (VStr cif, h)) ->
  Forall (fun i => i < 65536) ids -> len ids * 2 < 65536 ->
  call e "std::len_u8" [] [VStr comp] h = Some (Ok (VStr cof, h)) -> len comp < 256 ->
  len (concat exts) < 65536 ->
  exists out body,
    call e "tls::client_hello" [version; VStr sidf; VStr cif; VStr cof] (map VStr exts) h = Some (Ok (VStr out, h))
    /\ parse_handshake (out ++ rest) = Some ((1, body), rest)
    /\ parse_client_hello body
       = Some {| ch_version := v; ch_random := client_random; ch_session := sid; ch_ciphers := ids;
                 ch_compression := comp;
                 ch_extensions := match concat exts with [] => None | _ => Some (concat exts) end |}.
Proof.
  intros Hv Hsid Lsid Hci Fids Lids Hco Lco Le. pose proof (conv_u16_lt _ _ Hv) as Lv.
  rewrite tls_ciphers_call in Hci by exact Fids. apply call_str_inj in Hci. subst cif.
  unfold call in Hsid, Hco.
  change (exec e "std::len_u8" None [] [VStr sid] h) with (Some (std_len_fn (fun n => [wrap8 n]) [] (map VStr [sid]) h)) in Hsid.
  change (exec e "std::len_u8" None [] [VStr comp] h) with (Some (std_len_fn (fun n => [wrap8 n]) [] (map VStr [comp]) h)) in Hco.
  rewrite std_len_fn_strs in Hsid, Hco. cbn [concat] in Hsid, Hco. rewrite app_nil_r in Hsid, Hco.
  apply call_str_inj in Hsid, Hco. subst sidf cof.
  destruct (client_hello_framing e version v ([wrap8 (len sid)] ++ sid) (cipher_list_bytes ids) ([wrap8 (len comp)] ++ comp)
              exts rest h Hv) as (out & Hcall & Hp).
  { unfold cipher_list_bytes. rewrite !len_app, len_concat_be16. cbn. destruct (0 <? len (concat exts)); lia. }
  exists out. eexists. split; [exact Hcall|]. split; [exact Hp|].
  unfold parse_client_hello. rewrite parse_be16_enc by exact Lv.
  unfold take_random. change 32 with (len client_random). rewrite take_exact_app.
  rewrite <- !app_assoc. rewrite parse_len_u8_enc by exact Lsid. rewrite parse_cipher_list_enc by assumption.
  rewrite parse_len_u8_enc by exact Lco. rewrite parse_opt_ext_block_enc by exact Le. reflexivity.
Qed.

Theorem server_hello_roundtrip e version v sid sidf cipher ci compression co exts rest h :
  conv_u16 version = Ok v -> conv_u16 cipher = Ok ci -> conv_u8 compression = Ok co ->
  call e "std::len_u8" [] [VStr sid] h = Some (Ok (VStr sidf, h)) -> len sid < 256 ->
  len (concat exts) < 65536 ->
  exists out body,
    call e "tls::server_hello" [version; VStr sidf; cipher; compression] (map VStr exts) h = Some (Ok (VStr out, h))
    /\ parse_handshake (out ++ rest) = Some ((2, body), rest)
    /\ parse_server_hello body
       = Some {| sh_version := v; sh_random := server_random; sh_session := sid; sh_cipher := ci;
                 sh_compression := co;
                 sh_extensions := match concat exts with [] => None | _ => Some (concat exts) end |}.
Proof.
  intros Hv Hci Hco Hsid Lsid Le.
  pose proof (conv_u16_lt _ _ Hv) as Lv. pose proof (conv_u16_lt _ _ Hci) as Lci. pose proof (conv_u8_lt _ _ Hco) as Lco.
  unfold call in Hsid.
  change (exec e "std::len_u8" None [] [VStr sid] h) with (Some (std_len_fn (fun n => [wrap8 n]) [] (map VStr [sid]) h)) in Hsid.
  rewrite std_len_fn_strs in Hsid. cbn [concat] in Hsid. rewrite app_nil_r in Hsid.
  apply call_str_inj in Hsid. subst sidf.
  destruct (server_hello_framing e version v ([wrap8 (len sid)] ++ sid) cipher ci compression co exts rest h Hv Hci Hco)
    as (out & Hcall & Hp).
  { rewrite !len_app. cbn. destruct (0 <? len (concat exts)); lia. }
  exists out. eexists. split; [exact Hcall|]. split; [exact Hp|].
  unfold parse_server_hello. rewrite parse_be16_enc by exact Lv.
  unfold take_random. change 32 with (len server_random). rewrite take_exact_app.
  rewrite <- !app_assoc. rewrite parse_len_u8_enc by exact Lsid. rewrite parse_be16_enc by exact Lci.
  cbn [app]. rewrite parse_u8_cons. rewrite parse_opt_ext_block_enc by exact Le. reflexivity.
Qed.

(* ---------------- server-name extension ---------------- *)
Lemma sum_lens_concat l : sum_lens l = len (concat l).
Proof. induction l as [|x r IH]; [reflexivity|]. cbn [sum_lens fold_right concat]. fold (sum_lens r). rewrite len_app, IH. reflexivity. Qed.

Definition sni_entry (n : list N) : list N := [0] ++ be16 (wrap16 (len n)) ++ n.
Lemma len_sni_entries names : len (concat (map sni_entry names)) = 3 * len names + len (concat names).
Proof.
  induction names as [|n r IH]; [reflexivity|]. cbn [map concat]. rewrite !len_app, IH, !len_cons. unfold sni_entry.
  rewrite !len_app. cbn. lia.
Qed.

Lemma parse_server_name_enc (x : N * bytes) rest : fst x = 0 -> len (snd x) < 65536 ->
  parse_server_name (sni_entry (snd x) ++ rest) = Some (x, rest).
Proof.
  destruct x as (t, n). cbn [fst snd]. intros -> H. unfold parse_server_name, sni_entry. rewrite <- !app_assoc. cbn [app].
  rewrite parse_u8_cons, parse_len_be16_enc by exact H. reflexivity.
Qed.

Lemma Forall_len_concat (names : list bytes) k : len (concat names) < k -> Forall (fun n => len n < k) names.
Proof.
  induction names as [|n r IH]; intros H; [constructor|]. cbn [concat] in H. rewrite len_app in H.
  constructor; [lia|]. apply IH. lia.
Qed.

Theorem sni_roundtrip e names rest h :
  2 + 3 * len names + len (concat names) < 65536 ->
  exists out, call e "tls::sni" [] (map VStr names) h = Some (Ok (VStr out, h))
              /\ parse_sni (out ++ rest) = Some (map (fun n => (0, n)) names, rest).
Proof.
  intros Hl. unfold call. change (exec e "tls::sni" None [] (map VStr names) h)
    with (Some (tls_sni_fn [] (map VStr names) h)).
  unfold tls_sni_fn. rewrite omapM_conv_buf_strs. cbn [obind]. eexists. split; [reflexivity|].
  rewrite sum_lens_concat. fold sni_entry.
  change (fun n : list N => [0] ++ be16 (wrap16 (len n)) ++ n) with sni_entry.
  set (entries := concat (map sni_entry names)).
  assert (Le : len entries = 3 * len names + len (concat names)) by apply len_sni_entries.
  unfold parse_sni.
  match goal with |- context [(be16 0 ++ be16 (wrap16 (2 + ?n)) ++ ?d) ++ rest] => set (data := d); set (nn := n) in * end.
  assert (Ln : nn = 3 * len names + len (concat names)) by reflexivity.
  assert (Ld : len data = 2 + nn).
  { unfold data. rewrite len_app, Le. cbn. lia. }
  replace ((be16 0 ++ be16 (wrap16 (2 + nn)) ++ data) ++ rest) with (ext_bytes (0, data) ++ rest).
  2:{ unfold ext_bytes. cbn [fst snd]. rewrite Ld. reflexivity. }
  rewrite parse_extension_enc by (cbn [fst snd]; lia). cbn [N.eqb].
  change (0 =? 0) with true. cbn iota.
  unfold parse_server_name_list, data. rewrite Ln, <- Le. rewrite <- (app_nil_r entries) at 2.
  rewrite parse_len_be16_enc by lia.
  unfold entries.
  assert (G : parse_all parse_server_name (concat (map sni_entry names)) = Some (map (fun n => (0, n)) names)).
  { replace (map sni_entry names) with (map (fun x : N * bytes => sni_entry (snd x)) (map (fun n => (0, n)) names)).
    2:{ rewrite map_map. reflexivity. }
    apply (parse_all_concat_P _ _ (fun x : N * bytes => fst x = 0 /\ len (snd x) < 65536)).
    - intros x r (H1 & H2). apply parse_server_name_enc; assumption.
    - intros x. unfold sni_entry. cbn [app]. discriminate.
    - apply Forall_map. cbn [fst snd]. eapply Forall_impl; [|apply (Forall_len_concat names 65536); lia].
      intros a Ha. split; [reflexivity|exact Ha]. }
  rewrite G. reflexivity.
Qed.

(* ---------------- certificate chain ---------------- *)
Definition cert_entry (c : list N) : list N := len24 (len c) ++ c.
Lemma len_len24 n : len (len24 n) = 3. Proof. reflexivity. Qed.
Lemma len_cert_entries certs : len (concat (map cert_entry certs)) = 3 * len certs + len (concat certs).
Proof.
  induction certs as [|c r IH]; [reflexivity|]. cbn [map concat]. rewrite !len_app, IH, !len_cons. unfold cert_entry.
  rewrite !len_app, len_len24. lia.
Qed.

Lemma parse_cert_entry c rest : len c < 16777216 -> parse_len_be24 (cert_entry c ++ rest) = Some (c, rest).
Proof. intros H. unfold cert_entry. rewrite <- app_assoc. apply len24_parse; [reflexivity|exact H]. Qed.

Theorem certificates_roundtrip e certs rest h :
  3 + 3 * len certs + len (concat certs) < 16777216 ->
  exists out, call e "tls::certificates" [] (map VStr certs) h = Some (Ok (VStr out, h))
              /\ parse_certificates (out ++ rest) = Some (certs, rest).
Proof.
  intros Hl. unfold call. change (exec e "tls::certificates" None [] (map VStr certs) h)
    with (Some (tls_certificates_fn [] (map VStr certs) h)).
  unfold tls_certificates_fn. rewrite omapM_conv_buf_strs. cbn [obind]. eexists. split; [reflexivity|].
  rewrite sum_lens_concat. change (fun c : list N => len24 (len c) ++ c) with cert_entry. unfold bytes in *.
  set (entries := concat (map cert_entry certs)).
  assert (Le : len entries = 3 * len certs + len (concat certs)) by apply len_cert_entries.
  unfold parse_certificates, parse_handshake. cbn [app]. rewrite parse_u8_cons.
  set (body := len24 (3 * len certs + len (concat certs)) ++ entries).
  assert (Lb : len body = 3 + (3 * len certs + len (concat certs))).
  { unfold body. rewrite len_app, len_len24, Le. lia. }
  rewrite <- app_assoc. rewrite (len24_parse _ body rest) by (rewrite ?Lb; lia).
  change (11 =? 11) with true. cbn iota.
  unfold parse_certificate_list, body. rewrite <- (app_nil_r entries).
  rewrite (len24_parse _ entries []) by (rewrite ?Le; lia).
  unfold entries. rewrite (parse_all_concat_P _ cert_entry (fun c => len c < 16777216)).
  - reflexivity.
  - intros c r Hc. apply parse_cert_entry, Hc.
  - intros c. unfold cert_entry, len24, be24. cbn [app]. discriminate.
  - apply Forall_len_concat. lia.
Qed.
