(** C15, second generation for the generic length helpers: what they emit for EVERY content size (the count
    taken modulo the width of the field, as the `as u8` / `as u16` casts of src/stdlib/std.rs do), hence that the
    declared count equals the number of bytes that follow exactly when that number fits the field -- the
    "whenever it fits" of the property is not only sufficient but necessary -- and an explicit nesting of
    one helper inside another. *)
From RS Require Import Base.Bytes Base.Outcome Interp.Val Lib.LibBase Lib.MiscLib Lib.ProtoLib Lib.StdLib
  Spec.LenPrefix Spec.TlsParse Proofs.BytesLemmas Proofs.C15.LenLemmas Proofs.C15.StdHelpers Proofs.C15.Tls.
From Coq Require Import ZArith Lia ZifyBool ZifyNat ZifyN.
Ltac Zify.zify_post_hook ::= Z.div_mod_to_equations.
Open Scope N_scope.

Lemma wrap_len_takeN {A} n (l : list A) : n <= len l -> len (takeN n l) = n.
Proof. intros H. unfold takeN, len in *. rewrite firstn_length. lia. Qed.

Theorem len_u8_exact e parts h :
  call e "std::len_u8" [] (map VStr parts) h
  = Some (Ok (VStr ([len (concat parts) mod 256] ++ concat parts), h)).
Proof.
  unfold call. change (exec e "std::len_u8" None [] (map VStr parts) h)
    with (Some (std_len_fn (fun n => [wrap8 n]) [] (map VStr parts) h)). rewrite std_len_fn_strs. reflexivity.
Qed.

Theorem len_be16_exact e parts h :
  call e "std::len_be16" [] (map VStr parts) h
  = Some (Ok (VStr (be16 (len (concat parts) mod 65536) ++ concat parts), h)).
Proof.
  unfold call. change (exec e "std::len_be16" None [] (map VStr parts) h)
    with (Some (std_len_fn (fun n => be16 (wrap16 n)) [] (map VStr parts) h)). rewrite std_len_fn_strs. reflexivity.
Qed.

(** a count [m] smaller than the content cannot make the parser return the content *)
Lemma take_exact_short (m : N) (b rest : bytes) : m < len b -> take_exact m (b ++ rest) <> Some (b, rest).
Proof.
  intros H E. unfold take_exact in E. destruct (m <=? len (b ++ rest)) eqn:L; [|discriminate].
  injection E as E1 _. apply (f_equal len) in E1. rewrite wrap_len_takeN in E1 by lia. lia.
Qed.

Theorem len_u8_iff e parts rest h out :
  call e "std::len_u8" [] (map VStr parts) h = Some (Ok (VStr out, h)) ->
  (parse_len_u8 (out ++ rest) = Some (concat parts, rest) <-> len (concat parts) < 256).
Proof.
  rewrite len_u8_exact. intros E. injection E as E. subst out. split.
  - intros P. destruct (N.ltb_spec (len (concat parts)) 256) as [L|L]; [exact L|exfalso].
    unfold parse_len_u8, parse_len_prefixed in P. cbn [app] in P.
    fold (parse_u8 (len (concat parts) mod 256 :: concat parts ++ rest)) in P. rewrite parse_u8_cons in P.
    revert P. apply take_exact_short. lia.
  - intros L. exact (parse_len_u8_enc (concat parts) rest L).
Qed.

Theorem len_be16_iff e parts rest h out :
  call e "std::len_be16" [] (map VStr parts) h = Some (Ok (VStr out, h)) ->
  (parse_len_be16 (out ++ rest) = Some (concat parts, rest) <-> len (concat parts) < 65536).
Proof.
  rewrite len_be16_exact. intros E. injection E as E. subst out. split.
  - intros P. destruct (N.ltb_spec (len (concat parts)) 65536) as [L|L]; [exact L|exfalso].
    assert (P' : parse_len_be16 (be16 (len (concat parts) mod 65536) ++ concat parts ++ rest)
                 = Some (concat parts, rest)) by exact P.
    unfold parse_len_be16, parse_len_prefixed in P'.
    fold (parse_be16 (be16 (len (concat parts) mod 65536) ++ concat parts ++ rest)) in P'.
    rewrite parse_be16_enc in P' by lia. revert P'. apply take_exact_short. lia.
  - intros L. exact (parse_len_be16_enc (concat parts) rest L).
Qed.

(** one helper inside another: a u8-prefixed blob framed by a 16-bit prefix parses layer by layer *)
Theorem len_nested e parts rest h : len (concat parts) < 256 ->
  exists inner out,
    call e "std::len_u8" [] (map VStr parts) h = Some (Ok (VStr inner, h))
    /\ call e "std::len_be16" [] [VStr inner] h = Some (Ok (VStr out, h))
    /\ parse_len_be16 (out ++ rest) = Some (inner, rest)
    /\ parse_len_u8 inner = Some (concat parts, []).
Proof.
  intros L. eexists. eexists. split; [apply len_u8_exact|].
  set (inner := [len (concat parts) mod 256] ++ concat parts).
  assert (LI : len inner < 65536). { unfold inner. rewrite len_app. change (len [len (concat parts) mod 256]) with 1. lia. }
  split; [|split].
  - pose proof (len_be16_exact e [inner] h) as X. cbn [map concat] in X. rewrite app_nil_r in X. exact X.
  - pose proof (parse_len_be16_enc inner rest LI) as X. unfold wrap16 in X. exact X.
  - unfold inner. pose proof (parse_len_u8_enc (concat parts) [] L) as X. rewrite app_nil_r in X. exact X.
Qed.

(** the fixed-width integer encoders for EVERY script integer: the value modulo the width of the field *)
Theorem int_exact e v h :
  call e "std::u8" [VU64 v] [] h = Some (Ok (VStr [v mod 256], h))
  /\ call e "std::be16" [VU64 v] [] h = Some (Ok (VStr (be16 (v mod 65536)), h))
  /\ call e "std::be32" [VU64 v] [] h = Some (Ok (VStr (be32 (v mod 4294967296)), h))
  /\ call e "std::le16" [VU64 v] [] h = Some (Ok (VStr (le16 (v mod 65536)), h))
  /\ call e "std::le32" [VU64 v] [] h = Some (Ok (VStr (le32 (v mod 4294967296)), h)).
Proof. repeat split; unfold call; reflexivity. Qed.

(** so the decoder returns the script's integer exactly when it fits the field *)
Theorem int_iff e v rest h :
  (forall out, call e "std::u8" [VU64 v] [] h = Some (Ok (VStr out, h)) ->
               (parse_u8 (out ++ rest) = Some (v, rest) <-> v < 256))
  /\ (forall out, call e "std::be16" [VU64 v] [] h = Some (Ok (VStr out, h)) ->
                  (parse_be16 (out ++ rest) = Some (v, rest) <-> v < 65536))
  /\ (forall out, call e "std::be32" [VU64 v] [] h = Some (Ok (VStr out, h)) ->
                  (parse_be32 (out ++ rest) = Some (v, rest) <-> v < 4294967296)).
Proof.
  destruct (int_exact e v h) as (E8 & E16 & E32 & _).
  split; [|split]; intros out C.
  - rewrite E8 in C. injection C as C. subst out. cbn [app]. rewrite parse_u8_cons. split.
    + intros P. injection P as P. lia.
    + intros L. rewrite N.mod_small by lia. reflexivity.
  - rewrite E16 in C. injection C as C. subst out. rewrite parse_be16_enc by lia. split.
    + intros P. injection P as P. lia.
    + intros L. rewrite N.mod_small by lia. reflexivity.
  - rewrite E32 in C. injection C as C. subst out. rewrite parse_be32_enc by lia. split.
    + intros P. injection P as P. lia.
    + intros L. rewrite N.mod_small by lia. reflexivity.
Qed.

(** the same for a 16-bit count wherever it stands: TLS records *)
Lemma parse_len_be16_wrap_iff (b rest : bytes) :
  parse_len_be16 (be16 (wrap16 (len b)) ++ b ++ rest) = Some (b, rest) <-> len b < 65536.
Proof.
  split.
  - intros P. destruct (N.ltb_spec (len b) 65536) as [L|L]; [exact L|exfalso].
    unfold parse_len_be16, parse_len_prefixed, wrap16 in P.
    fold (parse_be16 (be16 (len b mod 65536) ++ b ++ rest)) in P.
    rewrite parse_be16_enc in P by lia. revert P. apply take_exact_short. lia.
  - apply parse_len_be16_enc.
Qed.

Theorem tls_record_iff e version content v c parts rest h out :
  conv_u16 version = Ok v -> conv_u8 content = Ok c ->
  call e "tls::message" [version; content] (map VStr parts) h = Some (Ok (VStr out, h)) ->
  (parse_tls_record (out ++ rest) = Some ((c, v, concat parts), rest) <-> len (concat parts) < 65536).
Proof.
  intros Hv Hc. pose proof (conv_u16_lt _ _ Hv). pose proof (conv_u8_lt _ _ Hc).
  unfold call. change (exec e "tls::message" None [version; content] (map VStr parts) h)
    with (Some (tls_message_fn [version; content] (map VStr parts) h)).
  unfold tls_message_fn. rewrite Hv, Hc, join_extra_strs. cbn [obind]. intros E. injection E as E. subst out.
  unfold parse_tls_record. rewrite <- ?app_assoc. cbn [app]. rewrite parse_u8_cons.
  change ((v / 256) mod 256 :: v mod 256 :: (wrap16 (len (concat parts)) / 256) mod 256
          :: wrap16 (len (concat parts)) mod 256 :: concat parts ++ rest)
    with (be16 v ++ be16 (wrap16 (len (concat parts))) ++ concat parts ++ rest).
  rewrite parse_be16_enc by assumption.
  rewrite <- (parse_len_be16_wrap_iff (concat parts) rest).
  destruct (parse_len_be16 (be16 (wrap16 (len (concat parts))) ++ concat parts ++ rest)) as [[f r]|].
  - split; intros P; injection P as P1 P2; subst; reflexivity.
  - split; discriminate.
Qed.

(** ... and TLS extensions *)
Theorem tls_extension_iff e ext t parts rest h out :
  conv_u16 ext = Ok t ->
  call e "tls::extension" [ext] (map VStr parts) h = Some (Ok (VStr out, h)) ->
  (parse_extension (out ++ rest) = Some ((t, concat parts), rest) <-> len (concat parts) < 65536).
Proof.
  intros Ht. pose proof (conv_u16_lt _ _ Ht).
  unfold call. change (exec e "tls::extension" None [ext] (map VStr parts) h)
    with (Some (tls_extension_fn [ext] (map VStr parts) h)).
  unfold tls_extension_fn. rewrite Ht, join_extra_strs. cbn [obind]. intros E. injection E as E. subst out.
  assert (X : forall o, o = parse_extension (ext_bytes (t, concat parts) ++ rest) ->
              (o = Some ((t, concat parts), rest) <-> len (concat parts) < 65536)).
  { intros o ->. unfold parse_extension, ext_bytes. cbn [fst snd]. rewrite <- !app_assoc.
    rewrite parse_be16_enc by assumption.
    rewrite <- (parse_len_be16_wrap_iff (concat parts) rest).
    destruct (parse_len_be16 (be16 (wrap16 (len (concat parts))) ++ concat parts ++ rest)) as [[f r]|].
    - split; intros P; injection P as P1 P2; subst; reflexivity.
    - split; discriminate. }
  apply X. reflexivity.
Qed.
