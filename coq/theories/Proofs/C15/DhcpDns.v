(** C15 for the DHCP option TLV and for the data length of DNS resource records. *)
From RS Require Import Base.Bytes Base.Outcome Interp.Val Lib.LibBase Lib.ProtoLib Lib.StdLib
  Spec.LenPrefix Spec.DhcpParse Spec.DnsParse Proofs.BytesLemmas Proofs.Tactics Proofs.C15.LenLemmas
  Proofs.C15.StdHelpers Proofs.C15.Tls Proofs.C16.Names Proofs.C16.Host.
From Coq Require Import ZArith Lia ZifyBool ZifyNat ZifyN.
Ltac Zify.zify_post_hook ::= Z.div_mod_to_equations.
Open Scope N_scope.

Definition opt_bytes (x : N * list N) : list N := [fst x; wrap8 (len (snd x))] ++ snd x.

Lemma parse_dhcp_tlv_enc x rest : len (snd x) < 256 -> parse_dhcp_tlv (opt_bytes x ++ rest) = Some (x, rest).
Proof.
  intros H. unfold parse_dhcp_tlv, opt_bytes. cbn [app]. rewrite parse_u8_cons.
  change (wrap8 (len (snd x)) :: snd x ++ rest) with ([wrap8 (len (snd x))] ++ snd x ++ rest).
  rewrite parse_len_u8_enc by exact H. destruct x; reflexivity.
Qed.

Theorem dhcp_option_roundtrip e opt o parts rest h :
  conv_u8 opt = Ok o -> len (concat parts) < 256 ->
  exists out, call e "dhcp::option" [opt] (map VStr parts) h = Some (Ok (VStr out, h))
              /\ parse_dhcp_tlv (out ++ rest) = Some ((o, concat parts), rest).
Proof.
  intros Ho Hl. unfold call. change (exec e "dhcp::option" None [opt] (map VStr parts) h)
    with (Some (dhcp_option_fn [opt] (map VStr parts) h)).
  unfold dhcp_option_fn. rewrite Ho, join_extra_strs. cbn [obind]. eexists. split; [reflexivity|].
  apply (parse_dhcp_tlv_enc (o, concat parts)). exact Hl.
Qed.

Definition opt_ok (x : N * list N) : Prop := 1 <= fst x /\ fst x <= 254 /\ len (snd x) < 256.

Lemma parse_dhcp_options_fuel_enc opts rest : Forall opt_ok opts -> forall k,
  parse_dhcp_options_fuel (length opts + S k) (concat (map opt_bytes opts) ++ [255] ++ rest) = Some (opts, rest).
Proof.
  induction 1 as [|x r Hx Hr IH]; intros k.
  - cbn [length Nat.add map concat app parse_dhcp_options_fuel]. change (255 =? 0) with false. change (255 =? 255) with true.
    reflexivity.
  - destruct Hx as (H1 & H2 & H3). cbn [length Nat.add map concat]. rewrite <- app_assoc.
    cbn [parse_dhcp_options_fuel]. unfold opt_bytes at 1. cbn [app].
    destruct (fst x =? 0) eqn:E0; [lia|]. destruct (fst x =? 255) eqn:E1; [lia|].
    change (fst x :: wrap8 (len (snd x)) :: snd x ++ ?t) with (opt_bytes x ++ t).
    rewrite parse_dhcp_tlv_enc by exact H3. rewrite IH. reflexivity.
Qed.

(** options back to back, finished by the end marker, read by an RFC 2132 options parser *)
Theorem dhcp_options_sequence opts rest : Forall opt_ok opts ->
  parse_dhcp_options (concat (map opt_bytes opts) ++ [255] ++ rest) = Some (opts, rest).
Proof.
  intros H. unfold parse_dhcp_options.
  assert (L : (length opts <= length (concat (map opt_bytes opts)))%nat).
  { clear. induction opts as [|x r IH]; [cbn; lia|]. cbn [map concat length]. rewrite app_length. unfold opt_bytes at 1.
    cbn [app length]. lia. }
  rewrite app_length. cbn [app length].
  replace (length (concat (map opt_bytes opts)) + S (length rest))%nat
    with (length opts + S (length (concat (map opt_bytes opts)) - length opts + length rest))%nat by lia.
  apply parse_dhcp_options_fuel_enc, H.
Qed.

(** dns::answer: the RDLENGTH field counts exactly the data that follows *)
Theorem dns_rr_roundtrip e ls atype t aclass c vttl ttl parts rest h :
  Forall label_ok ls -> conv_u16 atype = Ok t -> conv_u16 aclass = Ok c -> conv_u32 vttl = Ok ttl ->
  len (concat parts) < 65536 ->
  exists out, call e "dns::answer" [VStr (dns_labels ls ++ [0]); atype; aclass; vttl] (map VStr parts) h
                = Some (Ok (VStr out, h))
              /\ parse_rr (out ++ rest)
                 = Some ({| rr_name := mk_name ls None; rr_type := t; rr_class := c; rr_ttl := ttl;
                            rr_data := concat parts |}, rest).
Proof.
  intros H Ht Hc Hl Hd. unfold call.
  change (exec e "dns::answer" None [VStr (dns_labels ls ++ [0]); atype; aclass; vttl] (map VStr parts) h)
    with (Some (dns_answer_fn [VStr (dns_labels ls ++ [0]); atype; aclass; vttl] (map VStr parts) h)).
  unfold dns_answer_fn. rewrite Ht, Hc, Hl, join_extra_strs. cbn [conv_buf obind]. eexists. split; [reflexivity|].
  apply conv_u16_lt in Ht, Hc. apply conv_u32_lt in Hl. rewrite <- !app_assoc.
  apply parse_rr_enc; assumption.
Qed.
