(** C15: the integer and length-prefix parsers of Spec/LenPrefix.v invert the encoders of Base/Bytes.v. *)
From RS Require Import Base.Bytes Base.Outcome Spec.LenPrefix Proofs.BytesLemmas.
From Coq Require Import ZArith Lia ZifyBool ZifyNat ZifyN.
Ltac Zify.zify_post_hook ::= Z.div_mod_to_equations.
Open Scope N_scope.

Ltac some_pair := apply f_equal; apply (f_equal2 pair); [try lia|try reflexivity].

Lemma parse_u8_cons b rest : parse_u8 (b :: rest) = Some (b, rest).
Proof. unfold parse_u8, rd_be. cbn [rd_be_acc]. some_pair. Qed.

Lemma parse_be16_enc v rest : v < 65536 -> parse_be16 (be16 v ++ rest) = Some (v, rest).
Proof. intros H. unfold parse_be16, rd_be, be16. cbn [app rd_be_acc]. some_pair. Qed.

Lemma parse_be24_enc v rest : v < 16777216 -> parse_be24 (be24 v ++ rest) = Some (v, rest).
Proof. intros H. unfold parse_be24, rd_be, be24. cbn [app rd_be_acc]. some_pair. Qed.

Lemma parse_be32_enc v rest : v < 4294967296 -> parse_be32 (be32 v ++ rest) = Some (v, rest).
Proof. intros H. unfold parse_be32, rd_be, be32, be16. cbn [app rd_be_acc]. some_pair. Qed.

Lemma rd_be_acc_add j k : forall acc l,
  rd_be_acc (j + k) acc l = match rd_be_acc j acc l with Some (a, r) => rd_be_acc k a r | None => None end.
Proof. induction j as [|j IH]; intros acc l; cbn [Nat.add rd_be_acc]; [reflexivity|]. destruct l; [reflexivity|apply IH]. Qed.

Lemma rd_be_acc4 acc v rest : v < 4294967296 -> rd_be_acc 4 acc (be32 v ++ rest) = Some (acc * 4294967296 + v, rest).
Proof. intros H. unfold be32, be16. cbn [app rd_be_acc]. some_pair. Qed.

Lemma parse_be64_enc v rest : v < 18446744073709551616 -> parse_be64 (be64 v ++ rest) = Some (v, rest).
Proof.
  intros H. unfold parse_be64, rd_be, be64. change 8%nat with (4 + 4)%nat. rewrite rd_be_acc_add, <- app_assoc.
  rewrite rd_be_acc4 by lia. rewrite rd_be_acc4 by lia. some_pair.
Qed.

Lemma parse_le16_enc v rest : v < 65536 -> parse_le16 (le16 v ++ rest) = Some (v, rest).
Proof. intros H. unfold parse_le16, le16, be16. cbn [rev app rd_le]. some_pair. Qed.

Lemma parse_le32_enc v rest : v < 4294967296 -> parse_le32 (le32 v ++ rest) = Some (v, rest).
Proof. intros H. unfold parse_le32, le32, be32, be16. cbn [rev app rd_le]. some_pair. Qed.

Lemma rd_le_add j k : forall l,
  rd_le (j + k) l = match rd_le j l with
                    | Some (lo, r) => match rd_le k r with
                                      | Some (hi, r') => Some (lo + 256 ^ N.of_nat j * hi, r')
                                      | None => None
                                      end
                    | None => None
                    end.
Proof.
  induction j as [|j IH]; intros l.
  - cbn [Nat.add rd_le]. destruct (rd_le k l) as [(hi, r')|]; [|reflexivity]. some_pair; try (cbn; lia).
  - cbn [Nat.add rd_le]. destruct l as [|b l]; [reflexivity|]. rewrite IH.
    destruct (rd_le j l) as [(lo, r)|]; [|reflexivity]. destruct (rd_le k r) as [(hi, r')|]; [|reflexivity].
    some_pair; try (rewrite Nat2N.inj_succ, N.pow_succ_r'; lia).
Qed.

Lemma le64_split v : le64 v = le32 (v mod 4294967296) ++ le32 (v / 4294967296).
Proof. unfold le64, le32, be64. apply rev_app_distr. Qed.

Lemma parse_le64_enc v rest : v < 18446744073709551616 -> parse_le64 (le64 v ++ rest) = Some (v, rest).
Proof.
  intros H. unfold parse_le64. change 8%nat with (4 + 4)%nat. rewrite rd_le_add, le64_split, <- app_assoc.
  pose proof (parse_le32_enc (v mod 4294967296) (le32 (v / 4294967296) ++ rest)) as A. unfold parse_le32 in A.
  rewrite A by lia. pose proof (parse_le32_enc (v / 4294967296) rest) as B. unfold parse_le32 in B.
  rewrite B by lia. some_pair; try (change (256 ^ N.of_nat 4) with 4294967296; lia).
Qed.

(* ---------------- length prefixes ---------------- *)
Lemma take_exact_app (b rest : bytes) : take_exact (len b) (b ++ rest) = Some (b, rest).
Proof.
  unfold take_exact. rewrite len_app. destruct (len b <=? len b + len rest) eqn:E; [|lia].
  rewrite takeN_app_exact, dropN_app_exact. reflexivity.
Qed.

Lemma take_exact_all (b : bytes) : take_exact (len b) b = Some (b, []).
Proof. rewrite <- (app_nil_r b) at 2. rewrite take_exact_app. reflexivity. Qed.

Lemma parse_len_u8_enc b rest : len b < 256 -> parse_len_u8 ([wrap8 (len b)] ++ b ++ rest) = Some (b, rest).
Proof.
  intros H. unfold parse_len_u8, parse_len_prefixed. cbn [app]. fold (parse_u8 (wrap8 (len b) :: b ++ rest)).
  rewrite parse_u8_cons. unfold wrap8. rewrite N.mod_small by lia. apply take_exact_app.
Qed.

Lemma parse_len_be16_enc b rest : len b < 65536 ->
  parse_len_be16 (be16 (wrap16 (len b)) ++ b ++ rest) = Some (b, rest).
Proof.
  intros H. unfold parse_len_be16, parse_len_prefixed. fold (parse_be16 (be16 (wrap16 (len b)) ++ b ++ rest)).
  unfold wrap16. rewrite N.mod_small by lia. rewrite parse_be16_enc by lia. apply take_exact_app.
Qed.

Lemma parse_len_be24_enc b rest : len b < 16777216 ->
  parse_len_be24 (be24 (wrap32 (len b)) ++ b ++ rest) = Some (b, rest).
Proof.
  intros H. unfold parse_len_be24, parse_len_prefixed. fold (parse_be24 (be24 (wrap32 (len b)) ++ b ++ rest)).
  unfold wrap32. rewrite N.mod_small by lia. rewrite parse_be24_enc by lia. apply take_exact_app.
Qed.

Lemma parse_len_be32_enc b rest : len b < 4294967296 ->
  parse_len_be32 (be32 (wrap32 (len b)) ++ b ++ rest) = Some (b, rest).
Proof.
  intros H. unfold parse_len_be32, parse_len_prefixed. fold (parse_be32 (be32 (wrap32 (len b)) ++ b ++ rest)).
  unfold wrap32. rewrite N.mod_small by lia. rewrite parse_be32_enc by lia. apply take_exact_app.
Qed.

Lemma parse_len_be64_enc b rest : len b < 18446744073709551616 ->
  parse_len_be64 (be64 (wrap64 (len b)) ++ b ++ rest) = Some (b, rest).
Proof.
  intros H. unfold parse_len_be64, parse_len_prefixed. fold (parse_be64 (be64 (wrap64 (len b)) ++ b ++ rest)).
  unfold wrap64. rewrite N.mod_small by lia. rewrite parse_be64_enc by lia. apply take_exact_app.
Qed.

(* ---------------- sequences of items ---------------- *)
Lemma parse_all_fuel_concat {A} (item : bytes -> option (A * bytes)) (enc : A -> bytes) :
  (forall x rest, item (enc x ++ rest) = Some (x, rest)) -> (forall x, enc x <> []) ->
  forall xs fuel, (length xs <= fuel)%nat -> parse_all_fuel item fuel (concat (map enc xs)) = Some xs.
Proof.
  intros Hi Hne. induction xs as [|x xs IH]; intros fuel Hf.
  - destruct fuel; reflexivity.
  - cbn [map concat length] in *. destruct fuel as [|f]; [lia|].
    cbn [parse_all_fuel]. destruct (enc x ++ concat (map enc xs)) eqn:E.
    + apply app_eq_nil in E. destruct E as (E & _). elim (Hne x E).
    + rewrite <- E, Hi, IH by lia. reflexivity.
Qed.

Lemma parse_all_concat {A} (item : bytes -> option (A * bytes)) (enc : A -> bytes) :
  (forall x rest, item (enc x ++ rest) = Some (x, rest)) -> (forall x, enc x <> []) ->
  forall xs, parse_all item (concat (map enc xs)) = Some xs.
Proof.
  intros Hi Hne xs. unfold parse_all. apply parse_all_fuel_concat; try assumption.
  induction xs as [|x xs IH]; cbn [map concat length]; [lia|]. rewrite app_length.
  specialize (Hne x). destruct (enc x); [congruence|]. cbn [length]. lia.
Qed.

(** the restricted form, when the items satisfy a side condition *)
Lemma parse_all_concat_P {A} (item : bytes -> option (A * bytes)) (enc : A -> bytes) (P : A -> Prop) :
  (forall x rest, P x -> item (enc x ++ rest) = Some (x, rest)) -> (forall x, enc x <> []) ->
  forall xs, Forall P xs -> parse_all item (concat (map enc xs)) = Some xs.
Proof.
  intros Hi Hne xs HP. unfold parse_all.
  assert (G : forall fuel, (length xs <= fuel)%nat -> parse_all_fuel item fuel (concat (map enc xs)) = Some xs).
  { induction HP as [|x xs Px HP IH]; intros fuel Hf.
    - destruct fuel; reflexivity.
    - cbn [map concat length] in *. destruct fuel as [|f]; [lia|].
      cbn [parse_all_fuel]. destruct (enc x ++ concat (map enc xs)) eqn:E.
      + apply app_eq_nil in E. destruct E as (E & _). elim (Hne x E).
      + rewrite <- E, (Hi x _ Px), IH by lia. reflexivity. }
  apply G. clear -Hne. induction xs as [|x xs IH]; cbn [map concat length]; [lia|]. rewrite app_length.
  specialize (Hne x). destruct (enc x); [congruence|]. cbn [length]. lia.
Qed.
