(** C15 for the generic helpers of std: len_u8/len_be16/len_be32/len_be64 and the fixed-width integer
    encoders, as the library dispatches them by name. *)
From RS Require Import Base.Bytes Base.Outcome Interp.Val Lib.LibBase Lib.MiscLib Lib.StdLib
  Spec.LenPrefix Proofs.BytesLemmas Proofs.C15.LenLemmas.
From Coq Require Import ZArith Lia ZifyBool ZifyNat ZifyN.
Ltac Zify.zify_post_hook ::= Z.div_mod_to_equations.
Open Scope N_scope.

(** a library call that is not a method call *)
Definition call (e : env) (key : string) (a x : list val) (h : heap) : option libres := exec e key None a x h.

Lemma join_nil_concat (l : list bytes) : join [] l = concat l.
Proof.
  induction l as [|x r IH]; [reflexivity|]. cbn [join concat]. destruct r as [|y r'].
  - cbn [concat]. now rewrite app_nil_r.
  - rewrite IH. reflexivity.
Qed.

Lemma omapM_conv_buf_strs parts : omapM conv_buf (map VStr parts) = Ok parts.
Proof. induction parts as [|p r IH]; [reflexivity|]. cbn [map omapM conv_buf obind]. rewrite IH. reflexivity. Qed.

Lemma join_extra_strs parts : join_extra [] (map VStr parts) = Ok (concat parts).
Proof. unfold join_extra. rewrite omapM_conv_buf_strs. cbn [obind]. now rewrite join_nil_concat. Qed.

Lemma std_len_fn_strs enc parts h :
  std_len_fn enc [] (map VStr parts) h = Ok (VStr (enc (len (concat parts)) ++ concat parts), h).
Proof. unfold std_len_fn. rewrite join_extra_strs. reflexivity. Qed.

Theorem len_u8_roundtrip e parts rest h : len (concat parts) < 256 ->
  exists out, call e "std::len_u8" [] (map VStr parts) h = Some (Ok (VStr out, h))
              /\ parse_len_u8 (out ++ rest) = Some (concat parts, rest).
Proof.
  intros H. eexists. split.
  - unfold call. change (exec e "std::len_u8" None [] (map VStr parts) h)
      with (Some (std_len_fn (fun n => [wrap8 n]) [] (map VStr parts) h)). rewrite std_len_fn_strs. reflexivity.
  - rewrite <- app_assoc. apply parse_len_u8_enc, H.
Qed.

Theorem len_be16_roundtrip e parts rest h : len (concat parts) < 65536 ->
  exists out, call e "std::len_be16" [] (map VStr parts) h = Some (Ok (VStr out, h))
              /\ parse_len_be16 (out ++ rest) = Some (concat parts, rest).
Proof.
  intros H. eexists. split.
  - unfold call. change (exec e "std::len_be16" None [] (map VStr parts) h)
      with (Some (std_len_fn (fun n => be16 (wrap16 n)) [] (map VStr parts) h)). rewrite std_len_fn_strs. reflexivity.
  - rewrite <- app_assoc. apply parse_len_be16_enc, H.
Qed.

Theorem len_be32_roundtrip e parts rest h : len (concat parts) < 4294967296 ->
  exists out, call e "std::len_be32" [] (map VStr parts) h = Some (Ok (VStr out, h))
              /\ parse_len_be32 (out ++ rest) = Some (concat parts, rest).
Proof.
  intros H. eexists. split.
  - unfold call. change (exec e "std::len_be32" None [] (map VStr parts) h)
      with (Some (std_len_fn (fun n => be32 (wrap32 n)) [] (map VStr parts) h)). rewrite std_len_fn_strs. reflexivity.
  - rewrite <- app_assoc. apply parse_len_be32_enc, H.
Qed.

Theorem len_be64_roundtrip e parts rest h : len (concat parts) < 18446744073709551616 ->
  exists out, call e "std::len_be64" [] (map VStr parts) h = Some (Ok (VStr out, h))
              /\ parse_len_be64 (out ++ rest) = Some (concat parts, rest).
Proof.
  intros H. eexists. split.
  - unfold call. change (exec e "std::len_be64" None [] (map VStr parts) h)
      with (Some (std_len_fn (fun n => be64 (wrap64 n)) [] (map VStr parts) h)). rewrite std_len_fn_strs. reflexivity.
  - rewrite <- app_assoc. apply parse_len_be64_enc, H.
Qed.

(** fixed-width integers: the value is given as the script's integer literal (a u64) *)
Theorem int_helpers_roundtrip e v rest h :
  (v < 256 -> exists out, call e "std::u8" [VU64 v] [] h = Some (Ok (VStr out, h)) /\ parse_u8 (out ++ rest) = Some (v, rest))
  /\ (v < 65536 -> exists out, call e "std::be16" [VU64 v] [] h = Some (Ok (VStr out, h)) /\ parse_be16 (out ++ rest) = Some (v, rest))
  /\ (v < 4294967296 -> exists out, call e "std::be32" [VU64 v] [] h = Some (Ok (VStr out, h)) /\ parse_be32 (out ++ rest) = Some (v, rest))
  /\ (v < 18446744073709551616 -> exists out, call e "std::be64" [VU64 v] [] h = Some (Ok (VStr out, h)) /\ parse_be64 (out ++ rest) = Some (v, rest))
  /\ (v < 65536 -> exists out, call e "std::le16" [VU64 v] [] h = Some (Ok (VStr out, h)) /\ parse_le16 (out ++ rest) = Some (v, rest))
  /\ (v < 4294967296 -> exists out, call e "std::le32" [VU64 v] [] h = Some (Ok (VStr out, h)) /\ parse_le32 (out ++ rest) = Some (v, rest))
  /\ (v < 18446744073709551616 -> exists out, call e "std::le64" [VU64 v] [] h = Some (Ok (VStr out, h)) /\ parse_le64 (out ++ rest) = Some (v, rest)).
Proof.
  repeat split; intros H; eexists; (split; [unfold call; reflexivity|]).
  all: unfold wrap8, wrap16, wrap32; try rewrite N.mod_small by lia.
  - apply parse_u8_cons.
  - apply parse_be16_enc, H.
  - apply parse_be32_enc, H.
  - apply parse_be64_enc, H.
  - apply parse_le16_enc, H.
  - apply parse_le32_enc, H.
  - apply parse_le64_enc, H.
Qed.
