(** C08, execution half: the well-formedness invariant of the interpreter state, and the shape of
    the syntax trees the parser produces. *)
From RS Require Import Base.Bytes Base.Outcome Bind.Types Pkt.Packet Interp.Val Interp.Ast Interp.Eval
  Lib.LibBase.
From RS Require Import Proofs.C08.Safe Proofs.C08.LibPost Proofs.C08.LibSound.
From Coq Require Import Arith Lia.
Open Scope N_scope.

(* ------------------------------------------------------------------ syntax trees *)

(** a literal the parser can produce (Val::from_token and the socket-address reduction) *)
Definition plain_val (v : val) : Prop :=
  match v with VNil | VBool _ | VU64 _ | VIp4 _ | VSock4 _ _ | VStr _ => True | _ => False end.

(** literals are plain, object references have at least one component *)
Fixpoint expr_ok (e : expr) : Prop :=
  match e with
  | ENil => True
  | ELit _ v => plain_val v
  | ERef _ _ comps => comps <> []
  | ECall _ _ comps args =>
    comps <> [] /\
    (fix all (l : list (option string * expr)) : Prop :=
       match l with [] => True | a :: r => expr_ok (snd a) /\ all r end) args
  | ESlash a b => expr_ok a /\ expr_ok b
  end.

Definition args_ok_expr (args : list (option string * expr)) : Prop := Forall (fun a => expr_ok (snd a)) args.

Lemma expr_ok_call l ms comps args :
  expr_ok (ECall l ms comps args) <-> comps <> [] /\ args_ok_expr args.
Proof.
  cbn [expr_ok]. unfold args_ok_expr. split; intros [H1 H2]; (split; [exact H1|]).
  - induction args as [|a r IH]; [constructor|]. destruct H2 as [Ha Hr]. constructor; [exact Ha|apply IH, Hr].
  - induction H2 as [|a r Ha Hr IH]; [exact I|]. split; assumption.
Qed.

Definition stmt_ok (s : stmt) : Prop :=
  match s with
  | SImport _ _ => True
  | SAssign _ _ rv => expr_ok rv
  | SExpr e => expr_ok e
  end.

(** induction on expressions with the argument list of a call *)
Lemma expr_ind' (P : expr -> Prop) :
  P ENil -> (forall l v, P (ELit l v)) -> (forall l ms cs, P (ERef l ms cs)) ->
  (forall l ms cs args, Forall (fun a => P (snd a)) args -> P (ECall l ms cs args)) ->
  (forall a b, P a -> P b -> P (ESlash a b)) ->
  forall e, P e.
Proof.
  intros Hn Hl Hr Hc Hs. fix IH 1. intros [|l v|l ms cs|l ms cs args|a b].
  - exact Hn.
  - apply Hl.
  - apply Hr.
  - apply Hc. induction args as [|x r IHr]; [constructor|]. constructor; [apply IH|exact IHr].
  - apply Hs; apply IH.
Qed.

(* ------------------------------------------------------------------ run-time values and state *)

Section Wf.
Variable classes : list (string * list (string * string)).
Variable modules : list (string * list (string * symbol)).

Definition mod_ok (path : string) : Prop := exists syms, assoc path modules = Some syms.

Definition wf_val (h : heap) (v : val) : Prop :=
  match v with
  | VObj a => exists o, nth_error h a = Some o
  | VMethod a k => exists o, nth_error h a = Some o /\ mkey classes (obj_class o) k
  | VFunc k => fkey modules k
  | VPkt p => pkt_ok p
  | VPktGen ps => Forall pkt_ok ps
  | _ => True
  end.

Lemma wf_val_ext h h' v : heap_ext h h' -> wf_val h v -> wf_val h' v.
Proof.
  intros E. destruct v; cbn [wf_val]; auto.
  - intros [o H]. destruct (E _ _ H) as (o' & H' & _). eauto.
  - intros (o & H & M). destruct (E _ _ H) as (o' & H' & C). exists o'. split; [exact H'|]. rewrite C. exact M.
Qed.

Lemma lib_val_wf h v : lib_val_ok h v -> wf_val h v.
Proof.
  destruct v; cbn [lib_val_ok wf_val]; auto; try contradiction.
  intros H. destruct (nth_error h addr) as [o|] eqn:E; [eauto|]. apply nth_error_None in E. lia.
Qed.

Lemma plain_val_wf h v : plain_val v -> wf_val h v.
Proof. destruct v; cbn; auto; contradiction. Qed.

Lemma valdef_wf h d : wf_val h (val_of_valdef d).
Proof. destruct d; exact I. Qed.

Definition wf_prog (p : prog) : Prop :=
  Forall (fun kv => wf_val (p_heap p) (snd kv)) (p_regs p)
  /\ Forall (fun kv => mod_ok (snd kv)) (p_imports p).

Lemma wf_prog_init : wf_prog prog_init.
Proof. split; constructor. Qed.

(** [wf_prog] only looks at the registers, the imports and the heap *)
Lemma wf_prog_same p q :
  p_regs q = p_regs p -> p_imports q = p_imports p -> p_heap q = p_heap p -> wf_prog p -> wf_prog q.
Proof. unfold wf_prog. intros -> -> ->. exact (fun H => H). Qed.

Lemma wf_prog_heap p h' :
  heap_ext (p_heap p) h' -> wf_prog p -> wf_prog (set_heap p h').
Proof.
  intros E [Hr Hi]. split; [|exact Hi]. cbn [set_heap p_regs p_heap].
  eapply Forall_impl; [|exact Hr]. intros kv. apply wf_val_ext, E.
Qed.

Lemma assoc_Forall {A} (P : string * A -> Prop) l k v :
  Forall P l -> assoc k l = Some v -> P (k, v).
Proof. intros H E. rewrite Forall_forall in H. apply H. apply assoc_In, E. Qed.

End Wf.
