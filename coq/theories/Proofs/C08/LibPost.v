(** C08, execution half: what a library call guarantees about its result and the heap. *)
From RS Require Import Base.Bytes Base.Outcome Bind.Types Pkt.Packet Interp.Val Lib.LibBase.
From RS Require Import Proofs.C08.Safe.
From Coq Require Import Arith Lia.
Open Scope N_scope.

(** Pcap.write_packet needs 16 bytes of headroom *)
Definition pkt_ok (p : packet) : Prop := (16 <= length (pk_hr p))%nat.

Lemma pkt_of_body_ok b : pkt_ok (pkt_of_body b).
Proof. unfold pkt_ok, pkt_of_body, DEFAULT_HEADROOM, zeros. cbn [pk_hr]. rewrite repeat_length. lia. Qed.

(** a value a library function may return *)
Definition lib_val_ok (h : heap) (v : val) : Prop :=
  match v with
  | VObj a => (a < length h)%nat
  | VPkt p => pkt_ok p
  | VPktGen ps => Forall pkt_ok ps
  | VFunc _ | VMethod _ _ => False
  | _ => True
  end.

(** the heap only grows and an object keeps its class *)
Definition heap_ext (h h' : heap) : Prop :=
  forall a o, nth_error h a = Some o -> exists o', nth_error h' a = Some o' /\ obj_class o' = obj_class o.

Lemma heap_ext_refl h : heap_ext h h.
Proof. intros a o H. exists o. split; [exact H|reflexivity]. Qed.

Lemma heap_ext_trans h1 h2 h3 : heap_ext h1 h2 -> heap_ext h2 h3 -> heap_ext h1 h3.
Proof.
  intros H12 H23 a o H. destruct (H12 a o H) as (o2 & E2 & C2). destruct (H23 a o2 E2) as (o3 & E3 & C3).
  exists o3. split; [exact E3|congruence].
Qed.

Lemma heap_ext_app h o : heap_ext h (h ++ [o]).
Proof.
  intros a o0 H. exists o0. split; [|reflexivity]. rewrite nth_error_app1; [exact H|].
  apply nth_error_Some. congruence.
Qed.

Lemma nth_error_set_nth {A} : forall (l : list A) n x m,
  nth_error (set_nth l n x) m =
  if Nat.eqb n m then match nth_error l m with Some _ => Some x | None => None end else nth_error l m.
Proof.
  induction l as [|y r IH]; intros n x m; cbn [set_nth].
  - destruct m; cbn; destruct (Nat.eqb n _); reflexivity.
  - destruct n as [|n]; destruct m as [|m]; cbn [nth_error Nat.eqb]; try reflexivity. apply IH.
Qed.

Lemma heap_ext_set_nth h a o o' :
  nth_error h a = Some o -> obj_class o' = obj_class o -> heap_ext h (set_nth h a o').
Proof.
  intros Ha Hc b ob Hb. rewrite nth_error_set_nth. destruct (Nat.eqb_spec a b) as [->|Hne].
  - rewrite Hb. exists o'. split; [reflexivity|]. congruence.
  - exists ob. split; [exact Hb|reflexivity].
Qed.

Lemma heap_ext_length h h' : heap_ext h h' -> (length h <= length h')%nat.
Proof.
  intros H. destruct (Nat.le_gt_cases (length h) (length h')) as [L|L]; [exact L|exfalso].
  destruct (nth_error h (length h')) as [o|] eqn:E.
  - destruct (H _ _ E) as (o' & E' & _).
    assert (N : nth_error h' (length h') = None) by (apply nth_error_None; lia). congruence.
  - apply nth_error_None in E. lia.
Qed.

Definition lib_post (h : heap) (ret : vtype) (r : val * heap) : Prop :=
  val_type (fst r) = ret /\ lib_val_ok (snd r) (fst r) /\ heap_ext h (snd r).

Lemma lib_post_same h ret v : val_type v = ret -> lib_val_ok h v -> lib_post h ret (v, h).
Proof. intros H1 H2. repeat split; [exact H1|exact H2|apply heap_ext_refl]. Qed.

Lemma lib_post_alloc h ret o : ret = TObj -> lib_post h ret (alloc h o).
Proof.
  intros ->. unfold alloc, lib_post. cbn [fst snd val_type lib_val_ok]. repeat split.
  - rewrite app_length. cbn. lia.
  - apply heap_ext_app.
Qed.

Lemma lib_post_set h ret v a o o' :
  val_type v = ret -> (forall h', lib_val_ok h' v) ->
  nth_error h a = Some o -> obj_class o' = obj_class o -> lib_post h ret (v, set_nth h a o').
Proof.
  intros H1 H2 H3 H4. repeat split; [exact H1|apply H2|]. eapply heap_ext_set_nth; eassumption.
Qed.

Lemma take_this_some h a o : nth_error h a = Some o -> take_this (Some a) h = Ok (a, o).
Proof. intros H. unfold take_this. rewrite H. reflexivity. Qed.
