(** C08, execution half: every entry point the symbol tables can reach is sound.

    The tables are regenerated from the running code; the two theorems below are proved by walking
    them ([Forall] over the computed key lists), resolving each key with its lemma from
    LibMisc / LibProto / LibIpv4.  A new library function makes this file fail until its lemma is
    added to the hint list. *)
From RS Require Import Base.Bytes Base.Outcome Bind.Types Bind.BindSpec Pkt.Packet Interp.Val Interp.Eval
  Lib.LibBase Lib.StdLib.
From RS Require Import Proofs.C08.LibTac Proofs.C08.LibMisc Proofs.C08.LibProto Proofs.C08.LibIpv4.
From RS Require Import Proofs.C11.CatalogueWf.
From RSGen Require Import Catalogue.
Open Scope string_scope.

Lemma assoc_In {A} : forall (l : list (string * A)) k v, assoc k l = Some v -> In (k, v) l.
Proof.
  induction l as [|[k' v'] r IH]; intros k v H; cbn [assoc] in H; [discriminate|].
  destruct (String.eqb_spec k k') as [->|Hne].
  - inversion H; subst. left; reflexivity.
  - right. apply IH, H.
Qed.

(** the function keys of the module table, the (class, method key) pairs of the class table *)
Definition func_keys_of (ms : list (string * list (string * symbol))) : list string :=
  flat_map (fun m => flat_map (fun s => match snd s with SFunc k => [k] | _ => [] end) (snd m)) ms.
Definition method_keys_of (cs : list (string * list (string * string))) : list (string * string) :=
  flat_map (fun c => map (fun m => (fst c, snd m)) (snd c)) cs.

Definition fkey (modules : list (string * list (string * symbol))) (k : string) : Prop :=
  exists path syms n, assoc path modules = Some syms /\ assoc n syms = Some (SFunc k).
Definition mkey (classes : list (string * list (string * string))) (cls k : string) : Prop :=
  exists ms n, assoc cls classes = Some ms /\ assoc n ms = Some k.

Lemma fkey_in modules k : fkey modules k -> In k (func_keys_of modules).
Proof.
  intros (path & syms & n & H1 & H2). apply assoc_In in H1, H2. unfold func_keys_of.
  apply in_flat_map. exists (path, syms). split; [exact H1|]. cbn [snd].
  apply in_flat_map. exists (n, SFunc k). split; [exact H2|]. left; reflexivity.
Qed.
Lemma mkey_in classes cls k : mkey classes cls k -> In (cls, k) (method_keys_of classes).
Proof.
  intros (ms & n & H1 & H2). apply assoc_In in H1, H2. unfold method_keys_of.
  apply in_flat_map. exists (cls, ms). split; [exact H1|]. cbn [fst snd].
  apply in_map_iff. exists (n, k). split; [reflexivity|exact H2].
Qed.

Section LibSound.
Variable allowed : string -> Prop.
Variable e : env.

Local Hint Resolve s_std_be16 s_std_be32 s_std_be64 s_std_le16 s_std_le32 s_std_le64 s_std_u8 s_std_len_be64 s_std_len_be32 s_std_len_be16 s_std_len_u8 s_text_concat s_text_crlflines s_text_len s_io_file s_io_bufio s_bufio_read s_bufio_read_all s_time_jump_seconds s_time_jump_millis s_time_jump_micros s_time_jump_nanos s_eth_frame s_eth_from_ip s_vxlan_session s_gre_session s_erspan1_session s_erspan2_session s_vxlan_encap s_vxlan_dgram s_gre_encap s_erspan1_encap s_erspan2_encap s_dns_flags s_dns_hdr s_dns_name s_dns_pointer s_dns_question s_dns_answer s_dns_host s_nb_flags s_nb_encode s_dhcp_hdr s_dhcp_option s_tls_message s_tls_extension s_tls_client_hello s_tls_server_hello s_tls_ciphers s_tls_certificates s_tls_sni s_tcp_flow s_udp_flow s_udp_hdr s_icmp_flow s_ipv4_datagram s_ipv4_frag s_udp_broadcast s_udp_unicast s_udp_client_dgram s_udp_server_dgram s_udp_client_raw_dgram s_udp_server_raw_dgram s_icmp_echo s_icmp_echo_reply s_frag_fragment s_frag_tail s_frag_datagram s_tcp_open s_tcp_client_close s_tcp_server_close s_tcp_client_reset s_tcp_server_reset s_tcp_client_hole s_tcp_server_hole s_tcp_client_hdr s_tcp_server_hdr s_tcp_client_message s_tcp_server_message s_tcp_client_segment s_tcp_server_segment s_tcp_client_raw_segment s_tcp_server_raw_segment s_tcp_client_ack s_tcp_server_ack : libdb.

Lemma all_functions_sound : Forall (fsound allowed e) (func_keys_of module_table).
Proof.
  let l := eval vm_compute in (func_keys_of module_table) in change (func_keys_of module_table) with l.
  repeat (apply Forall_cons; [solve [auto with libdb]|]). apply Forall_nil.
Qed.

Lemma all_methods_sound :
  Forall (fun ck => msound allowed e (fst ck) (snd ck)) (method_keys_of class_table).
Proof.
  let l := eval vm_compute in (method_keys_of class_table) in change (method_keys_of class_table) with l.
  repeat (apply Forall_cons; [cbn [fst snd]; solve [auto with libdb]|]). apply Forall_nil.
Qed.

(** in the form the interpreter proof consumes (with the signature's well-formedness, C11) *)
Lemma find_func_wf key f : find_func catalogue key = Some f -> wf_sig f = true.
Proof.
  intros H. apply find_some in H. destruct H as [H _].
  pose proof catalogue_wf as W. rewrite forallb_forall in W. apply W, H.
Qed.

Theorem function_sound k : fkey module_table k ->
  exists f, find_func catalogue k = Some f /\ wf_sig f = true /\
  forall slots extra h, args_ok f slots extra ->
  exists r, exec e k None slots extra h = Some r /\ safe allowed r (lib_post h (fd_ret f)).
Proof.
  intros H. apply fkey_in in H. pose proof all_functions_sound as A. rewrite Forall_forall in A.
  destruct (A k H) as (f & Hf & Hs). exists f. split; [exact Hf|]. split; [eapply find_func_wf, Hf|exact Hs].
Qed.

Theorem method_sound cls k : mkey class_table cls k ->
  exists f, find_func catalogue k = Some f /\ wf_sig f = true /\
  forall slots extra h a o, args_ok f slots extra -> nth_error h a = Some o -> obj_class o = cls ->
  exists r, exec e k (Some a) slots extra h = Some r /\ safe allowed r (lib_post h (fd_ret f)).
Proof.
  intros H. apply mkey_in in H. pose proof all_methods_sound as A. rewrite Forall_forall in A.
  destruct (A (cls, k) H) as (f & Hf & Hs). exists f. split; [exact Hf|]. split; [eapply find_func_wf, Hf|exact Hs].
Qed.

End LibSound.
