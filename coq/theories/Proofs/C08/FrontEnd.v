(** C08, front end: whatever the bytes of the source file, neither the lexer nor the parser nor the
    glue of process_file can panic or run out of fuel; a panic of the whole pipeline can only come
    out of the execution of a statement (Interp.Eval.add_stmts). *)
From RS Require Import Base.Bytes Base.Outcome Base.Utf8 Bind.Types Pkt.Packet Pkt.Pcap
  Lex.Tokens Lex.LexClass Lex.LexSpec Lex.Scanner Parse.Automaton Interp.Val Interp.Ast Interp.Eval Interp.Cli Lib.LibBase.
From RS Require Import Proofs.C10.Meets Proofs.C10.Final Proofs.C09.Invariant.
From Coq Require Import Lia.
Open Scope N_scope.

(** a hexadecimal lexeme starts with "0x" *)
Definition lexeme_ok (l : lexeme) : Prop :=
  match fst l with KTok THexLit => starts_with (text "0x") (snd l) = true | _ => True end.

Lemma starts_with_firstn w s n : starts_with w s = true -> (length w <= n)%nat -> starts_with w (firstn n s) = true.
Proof.
  revert s n. induction w as [|c w IH]; intros s n H Hn; [reflexivity|].
  destruct s as [|d s]; [discriminate|]. cbn [starts_with] in H. apply andb_prop in H. destruct H as [H1 H2].
  destruct n as [|n]; [cbn in Hn; lia|]. cbn [firstn starts_with]. rewrite H1. cbn [andb]. apply IH; [exact H2|cbn in Hn; lia].
Qed.

Lemma first_class_hex s n : first_class s = Some (KTok THexLit, n) -> starts_with (text "0x") (firstn n s) = true.
Proof.
  unfold first_class. destruct (find _ classes) as [k|] eqn:F; [|discriminate].
  intros E. inversion E; subst k. clear E.
  apply find_some in F. destruct F as [_ F]. cbn [extent] in *. unfold hex_integer in *.
  destruct (starts_with (text "0x") s) eqn:S0; [|discriminate].
  apply starts_with_firstn; [exact S0|].
  destruct (span hexdigit (skipn 2 s)); [discriminate|]. cbn. lia.
Qed.

Lemma lexemes_ok : forall fuel s ls rest, lexemes first_class fuel s = (ls, rest) -> Forall lexeme_ok ls.
Proof.
  induction fuel as [|f IH]; intros s ls rest H; destruct s as [|c s]; cbn [lexemes] in H.
  - inversion H; constructor.
  - inversion H; constructor.
  - inversion H; constructor.
  - destruct (first_class (c :: s)) as [[k n]|] eqn:Fc; [|inversion H; constructor].
    destruct (lexemes first_class f (skipn n (c :: s))) as [ls' rest'] eqn:L. inversion H; subst.
    constructor; [|eapply IH; exact L].
    unfold lexeme_ok. cbn [fst snd]. destruct k as [| | | |t]; try exact I. destruct t; try exact I.
    apply first_class_hex. exact Fc.
Qed.

Lemma assemble_tok_ok : forall ls lno off pend ts p,
  Forall lexeme_ok ls -> assemble lno off pend ls = (ts, p) -> Forall (fun t => tok_ok t = true) ts.
Proof.
  induction ls as [|[k w] r IH]; intros lno off pend ts p Hl H; cbn [assemble] in H.
  - inversion H; constructor.
  - inversion Hl as [|? ? Hk Hr]; subst.
    destruct k as [| | | |t]; try (eapply IH; [exact Hr|exact H]).
    destruct t; try (eapply IH; [exact Hr|exact H]);
    (destruct (assemble lno (off + len w) None r) as [ts' p'] eqn:A; inversion H; subst;
     apply Forall_app; split;
     [destruct pend; cbn [flush]; repeat constructor
     |constructor; [|eapply IH; [exact Hr|exact A]]]); try reflexivity.
    (* the hex literal *)
    unfold lexeme_ok in Hk. cbn [fst snd] in Hk. unfold tok_ok. cbn [tk_type tk_val token_text].
    change (text "0x") with [48; 120] in Hk.
    destruct w as [|a w]; [discriminate Hk|]. destruct w as [|b w].
    + cbn [starts_with] in Hk. rewrite Bool.andb_false_r in Hk. discriminate Hk.
    + cbn [starts_with] in Hk. rewrite Bool.andb_true_r in Hk.
      destruct (N.eqb_spec 48 a) as [<-|]; [|discriminate Hk].
      destruct (N.eqb_spec 120 b) as [<-|]; [|discriminate Hk]. reflexivity.
Qed.

(** every token the lexer produces satisfies what the parser assumes of a token *)
Theorem lexer_tokens_ok lx lno line lx' toks : utf8_valid line = true ->
  lex_line lx lno line = (lx', Ok toks) -> Forall (fun t => tok_ok t = true) toks.
Proof.
  intros Hv H. rewrite (scan_meets_spec lx lno line Hv) in H.
  unfold spec_line, line_tokens in H.
  destruct (lexemes first_class (length line) line) as [ls rest] eqn:L.
  pose proof (lexemes_ok _ _ _ _ L) as Hl.
  destruct rest.
  - destruct (assemble lno 0 (lx_pending lx) ls) as [ts p] eqn:A. cbn [as_lexer] in H.
    inversion H; subst. eapply assemble_tok_ok; eassumption.
  - cbn [as_lexer] in H. inversion H.
Qed.

Section FrontEnd.
Variable functions : list funcdef.
Variable classes : list (string * list (string * string)).
Variable modules : list (string * list (string * symbol)).
Variable exec : string -> option nat -> list val -> list val -> heap -> option libres.

(** the only source of a panic: the execution of statements *)
Definition from_execution (s : string) : Prop :=
  exists p ss p', add_stmts functions classes modules exec p ss = RPanic s p'.

Lemma run_stmts_panic p ss k s :
  run_stmts functions classes modules exec p ss k = CliPanic s ->
  from_execution s \/ exists p', k p' = CliPanic s.
Proof.
  unfold run_stmts. destruct (add_stmts functions classes modules exec p ss) as [u p'|e p'|s' p'] eqn:E.
  - intros H. right. exists p'. exact H.
  - discriminate.
  - intros H. inversion H; subst. left. exists p, ss, p'. exact E.
Qed.

Lemma feed_line_post : forall ts ps, pinv ps -> Forall (fun t => tok_ok t = true) ts ->
  match feed_line ps ts with
  | inl (Ok ps') => pinv ps'
  | inr (e, _) => e = EParse
  | inl _ => False
  end.
Proof.
  induction ts as [|t r IH]; intros ps Hp Ht; cbn [feed_line]; [exact Hp|].
  inversion Ht as [|? ? H1 H2]; subst.
  pose proof (feed_inv ps t Hp H1) as F. destruct (feed ps t) as [ps'|e|s|]; cbn in F; try contradiction.
  - apply IH; assumption.
  - exact F.
Qed.

Lemma process_lines_panic : forall lines lno lx ps p s, pinv ps ->
  process_lines functions classes modules exec lno lines lx ps p = CliPanic s -> from_execution s.
Proof.
  induction lines as [|line rest IH]; intros lno lx ps p s Hp H; cbn [process_lines] in H.
  - assert (Te : tok_ok eof_token = true) by reflexivity.
    pose proof (feed_inv ps eof_token Hp Te) as F.
    destruct (feed ps eof_token) as [ps'|e|s'|]; cbn in F; try contradiction; try discriminate.
    destruct (get_results ps') as [ss ps''].
    apply run_stmts_panic in H. destruct H as [H|[p' H]]; [exact H|discriminate].
  - destruct (utf8_valid line) eqn:Hv; cbn [negb] in H; [|discriminate].
    destruct (lex_line lx lno line) as [lx' toks] eqn:L.
    pose proof (lex_total_final lx lno line Hv) as T. rewrite L in T. cbn [snd] in T.
    destruct T as [[ts T]|T]; subst toks; [|discriminate].
    pose proof (lexer_tokens_ok lx lno line lx' ts Hv L) as Hts.
    pose proof (feed_line_post ts ps Hp Hts) as F.
    destruct (feed_line ps ts) as [[ps'|e|s'|]|[e l]]; try contradiction; try discriminate.
    destruct (get_results ps') as [ss ps''] eqn:G.
    assert (Hp'' : pinv ps'') by (pose proof (pinv_get_results ps' F) as Q; rewrite G in Q; exact Q).
    apply run_stmts_panic in H. destruct H as [H|[p' H]]; [exact H|].
    eapply IH; eassumption.
Qed.

(** C08, front end *)
Theorem front_end_never_panics : forall src s,
  process_file functions classes modules exec src = CliPanic s -> from_execution s.
Proof. intros src s H. unfold process_file in H. eapply process_lines_panic; [exact pinv_init|exact H]. Qed.

End FrontEnd.
