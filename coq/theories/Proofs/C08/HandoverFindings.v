(** C08 [handover_safe]: what the decision procedure finds on the CURRENT tree (regression
    witnesses for defects D13 and D15).  THIS FILE IS EXPECTED TO STOP COMPILING when those
    defects are repaired in /repo (the regenerated tables change); it is then to be deleted (or
    moved to Mutants/) and [handover_known_unsafe] in HandoverInstance.v emptied.  Nothing
    depends on it. *)
From RS Require Import Base.Bytes Base.Outcome Bind.Types Bind.BindSpec Bind.Handover.
From RS Require Import Proofs.C08.HandoverInstance.
From RSGen Require Import Catalogue ExecScripts.
Open Scope string_scope.

(** exactly these six scripts are unsafe *)
Lemma handover_unsafe_now : unsafe_keys exec_scripts catalogue = handover_known_unsafe.
Proof. vm_compute. reflexivity. Qed.

Lemma handover_all_safe_refuted : ~ handover_all_safe.
Proof. unfold handover_all_safe. vm_compute. discriminate. Qed.

(** D15: io::file declares a variable tail of bytes and never consumes it:
    [io::file("a", "b")] trips "Function didn't consume extra args" *)
Lemma D15_io_file_witness :
  exists f m s, In f catalogue /\ fd_key f = "io::file" /\ assoc "io::file" exec_scripts = Some (m, s)
    /\ run_script s [] (initial_state f m [TStr] [TStr]) = Panic "args.rs drop: Function didn't consume extra args".
Proof.
  destruct (find (fun g => String.eqb (fd_key g) "io::file") catalogue) as [f |] eqn:E; [| vm_compute in E; discriminate E].
  exists f. destruct (find_some _ _ E) as [Hin Hk]. apply String.eqb_eq in Hk.
  vm_compute in E. inversion E; subst f. eexists. eexists.
  split; [exact Hin |]. split; [reflexivity |]. split; vm_compute; reflexivity.
Qed.

(** D13: dhcp::hdr converts a nullable bytes option with [Option<Buf>], which accepts only [Str],
    although the binder admits integers, addresses and packets for it: [dhcp::hdr(sname: 5)] *)
Lemma D13_dhcp_hdr_witness :
  exists f m s, In f catalogue /\ fd_key f = "dhcp::hdr" /\ assoc "dhcp::hdr" exec_scripts = Some (m, s)
    /\ script_safe f m s = false
    /\ param_accepts (Optional (DType TStr)) TU64 = true /\ conv_defined COptBuf TU64 = false.
Proof.
  destruct (find (fun g => String.eqb (fd_key g) "dhcp::hdr") catalogue) as [f |] eqn:E; [| vm_compute in E; discriminate E].
  exists f. destruct (find_some _ _ E) as [Hin Hk]. apply String.eqb_eq in Hk.
  vm_compute in E. inversion E; subst f. eexists. eexists.
  split; [exact Hin |]. split; [reflexivity |]. split; [vm_compute; reflexivity |].
  repeat split; vm_compute; reflexivity.
Qed.
