(** C08, execution half: the contract of one library entry point, and the tactics that prove it.

    [fsound key]: called as a function (no receiver) with arguments the binder accepted for its
    catalogue signature, [exec] is implemented for [key] and yields a value of the declared return
    type (well-formed in the possibly extended heap), or a language-level error -- never a panic.
    [msound cls key]: the same for a method called on a live object of class [cls].
    Adding or changing a library function costs one lemma: [Proof. fsound_auto. Qed.] in most cases. *)
From RS Require Import Base.Bytes Base.Outcome Bind.Types Bind.Binder Bind.BindSpec Pkt.Packet
  Ez.Tcp Ez.Udp Ez.Icmp Ez.Ip4 Ez.Gre Interp.Val Interp.Eval
  Lib.LibBase Lib.StdLib Lib.MiscLib Lib.Ipv4Lib Lib.ProtoLib.
From RS Require Export Proofs.C08.Safe Proofs.C08.LibPost Proofs.C08.EzSafe.
From RSGen Require Import Catalogue.
From Coq Require Import Lia.
Open Scope N_scope.

Definition fsound (allowed : string -> Prop) (e : env) (key : string) : Prop :=
  exists f, find_func catalogue key = Some f /\
  forall slots extra h, args_ok f slots extra ->
  exists r, exec e key None slots extra h = Some r /\ safe allowed r (lib_post h (fd_ret f)).

Definition msound (allowed : string -> Prop) (e : env) (cls key : string) : Prop :=
  exists f, find_func catalogue key = Some f /\
  forall slots extra h a o, args_ok f slots extra -> nth_error h a = Some o -> obj_class o = cls ->
  exists r, exec e key (Some a) slots extra h = Some r /\ safe allowed r (lib_post h (fd_ret f)).

(** a value that is well-formed in any heap (everything but object references) *)
Definition val_post (ret : vtype) (v : val) : Prop := val_type v = ret /\ forall h, lib_val_ok h v.

Lemma val_post_intro ret v : val_type v = ret -> (forall h, lib_val_ok h v) -> val_post ret v.
Proof. split; assumption. Qed.

Section Helpers.
Variable allowed : string -> Prop.
Notation safe := (safe allowed).

Lemma with_override_safe {A} f client sq ak (k : tcp_flow -> outcome (tcp_flow * A)) (Q : A -> Prop) :
  (forall f1, safe (k f1) (fun r => Q (snd r))) ->
  safe (with_override f client sq ak k) (fun r => Q (snd r)).
Proof.
  intros H. unfold with_override. eapply safe_bind; [apply H|]. intros [f2 v] Hv. exact Hv.
Qed.

Lemma forall_kind_buf l : Forall (val_kind KBuf) l -> Forall buf_like l. Proof. exact (fun H => H). Qed.

End Helpers.

(* ------------------------------------------------------------------ tactics *)

(** destruct [slots] to the declared arity, leaving one kind fact per argument *)
Ltac split_slots :=
  repeat match goal with
  | H : slots_ok [] ?s |- _ => destruct s; [clear H | contradiction H]
  | H : slots_ok (_ :: _) ?s |- _ =>
    destruct s; [contradiction H|];
    let K := fresh "K" in destruct H as [K H];
    cbn [decl_kind kind_of_type valdef_type val_kind] in K
  end.

Ltac exec_unfold :=
  lazy [exec assoc functions String.eqb Ascii.eqb Bool.eqb find_method method_tables strip_prefix
        tcp_method udp_method icmp_method frag_method vxlan_method gre_method erspan1_method
        erspan2_method bufio_method nb_flags_fn].

Create HintDb safedb discriminated.
#[export] Hint Constants Opaque : safedb.
#[export] Hint Variables Opaque : safedb.
#[export] Hint Resolve conv_int_safe conv_u64_safe conv_u32_safe conv_u16_safe conv_u8_safe conv_bool_safe
  conv_buf_safe conv_ip4_safe conv_sock_safe conv_pkt_safe conv_pktgen_safe
  join_extra_safe omapM_conv_buf_safe omapM_conv_ip4_safe omapM_conv_u16_safe : safedb.
#[export] Hint Extern 1 (safe _ (conv_opt _ _) _) =>
  (eapply conv_opt_safe; [eassumption | intro; eauto with safedb]) : safedb.
#[export] Hint Resolve udp_push_safe uflow_client_dgram_safe uflow_server_dgram_safe udp_csum_safe vxlan_encap_safe gre_flow_encap_safe gre_encap_all_safe
  erspan1_encap_safe erspan2_encap_safe erspan2_encap_all_safe icmp_echo_safe icmp_echo_reply_safe
  frag_fragment_safe frag_tail_safe frag_datagram_safe
  flow_open_safe flow_client_close_safe flow_server_close_safe flow_client_reset_safe flow_server_reset_safe
  flow_client_message_safe flow_server_message_safe flow_client_data_segment_safe flow_server_data_segment_safe
  flow_client_ack_safe flow_server_ack_safe flow_client_hdr_safe flow_server_hdr_safe : safedb.

Ltac clean_hyps :=
  cbv beta in *; unfold val_post in *;
  repeat match goal with
  | H : True |- _ => clear H
  | H : _ /\ _ |- _ => destruct H
  end;
  cbn [fst snd] in *.

(** the final value: same heap / allocation / in-place update of the receiver *)
Ltac val_ok :=
  cbn [lib_val_ok val_type fst snd];
  first [ exact I | reflexivity | assumption | apply pkt_of_body_ok
        | match goal with H : forall h, lib_val_ok h ?v |- lib_val_ok _ ?v => apply H end
        | solve [repeat constructor; first [assumption | apply pkt_of_body_ok]]
        | idtac ].

Ltac post :=
  cbv beta; cbn [fst snd];
  lazymatch goal with
  | |- lib_post _ _ (alloc _ _) => apply lib_post_alloc; reflexivity
  | |- lib_post ?h _ (_, ?h) => apply lib_post_same; val_ok
  | |- lib_post _ _ (_, set_nth _ _ _) =>
    eapply lib_post_set; [val_ok | intro; val_ok | eassumption | reflexivity]
  | |- val_type _ = _ /\ (forall _, lib_val_ok _ _) => split; [val_ok | intro; val_ok]
  | |- True => exact I
  | |- _ => val_ok
  end.

Ltac step :=
  lazymatch goal with
  | |- safe _ (obind (with_override _ _ _ _ _) _) (lib_post _ ?ret) =>
    eapply safe_bind;
    [ apply with_override_safe with (Q := val_post ret); intro
    | let r := fresh "r" in let Hr := fresh "Hr" in intros r Hr; destruct r as [? ?]; clean_hyps ]
  | |- safe _ (obind (Ok _) _) _ => cbn [obind]
  | |- safe _ (obind (obind _ _) _) _ => apply safe_assoc; cbv beta
  | |- safe _ (obind (match ?p with (_, _) => _ end) _) _ => destruct p
  | |- safe _ (obind (if ?c then _ else _) _) _ => destruct c
  | |- safe _ (obind _ _) _ =>
    eapply safe_bind; [solve [eauto with safedb] | let r := fresh "r" in let Hr := fresh "Hr" in
                                                    intros r Hr; repeat (match goal with x : (_ * _)%type |- _ => destruct x as [? ?] end); clean_hyps; cbv beta]
  | |- safe _ (if ?c then _ else _) _ => destruct c
  | |- safe _ (match ?o with Some _ => _ | None => _ end) _ => destruct o
  | |- safe _ (Ok _) _ => apply safe_ok; post
  | |- safe _ (Err _) _ => exact I
  | |- safe _ (let _ := _ in _) _ => cbv zeta
  end.

Ltac steps := repeat step.

Ltac start_common :=
  eexists; split; [vm_compute; reflexivity|];
  cbn [fd_ret].

(** a function key *)
Ltac fsound_start :=
  start_common;
  let slots := fresh "slots" in let extra := fresh "extra" in let h := fresh "h" in
  let Hs := fresh "Hs" in let He := fresh "He" in
  intros slots extra h [Hs He]; cbn [fd_args fd_collect kind_of_type] in Hs, He;
  split_slots;
  eexists; split; [exec_unfold; reflexivity|].

(** a method key: the receiver is live and of the right class *)
Ltac msound_start :=
  start_common;
  let slots := fresh "slots" in let extra := fresh "extra" in let h := fresh "h" in
  let a := fresh "a" in let o := fresh "o" in
  let Hs := fresh "Hs" in let He := fresh "He" in let Hn := fresh "Hn" in let Hc := fresh "Hc" in
  intros slots extra h a o [Hs He] Hn Hc; cbn [fd_args fd_collect kind_of_type] in Hs, He;
  split_slots;
  eexists; split; [exec_unfold; reflexivity|];
  try rewrite (take_this_some _ _ _ Hn); cbn [obind];
  destruct o; try discriminate Hc; clear Hc.
