(** C08: a second invariant of the parser automaton, next to the stack-shape invariant [pinv]
    (Proofs/C09/Invariant.v): every literal on the stack is one the lexer can produce, every object
    reference has a component -- hence every statement handed to the interpreter is [stmt_ok]. *)
From RS Require Import Base.Bytes Base.Outcome Lex.Tokens Lex.Literals Interp.Val Interp.Ast.
From RS Require Import Parse.Verdict Parse.Automaton Proofs.C09.Invariant.
From RS Require Import Proofs.C08.Wf.
From Coq Require Import Lia.
Open Scope N_scope.

Definition node_ok (n : node) : Prop :=
  match n with
  | NLiteral v => plain_val v
  | NArgList l => args_ok_expr l
  | NObject o => or_components o <> []
  | NExpr e => expr_ok e
  | NAssign a => expr_ok (as_rvalue a)
  | NCall c => or_components (c_obj c) <> [] /\ args_ok_expr (c_args c)
  | NStmt s => stmt_ok s
  | _ => True
  end.

Definition pplain (p : parser) : Prop := Forall node_ok (p_stack p) /\ Forall stmt_ok (p_stmts p).

Lemma pplain_init : pplain parser_init.
Proof. split; constructor. Qed.

Lemma app_one_nonempty {A} (l : list A) x : l ++ [x] <> [].
Proof. destruct l; discriminate. Qed.

Lemma val_of_kind_plain k v : val_of_kind k v -> plain_val v.
Proof. destruct k; cbn; try contradiction; intros [x ->]; exact I. Qed.

Definition dispatch_plain_post (r : res) : Prop :=
  match r with
  | Ok (p', a) => pplain p' /\ match a with AShift _ n => node_ok n | _ => True end
  | _ => True
  end.

Local Ltac tok_solve t Htok :=
  first
    [ match goal with
      | |- context [token_string t] =>
        let s := fresh "s" in let Hs := fresh "Hs" in
        destruct (token_string_ok t Htok ltac:(assumption)) as [s Hs]; rewrite Hs
      end
    | match goal with
      | |- context [val_of_token t] =>
        let v := fresh "v" in let Hv := fresh "Hv" in let Hk := fresh "Hk" in
        destruct (val_of_token_cases t Htok) as [[v [Hv Hk]]|Hv];
        [ match goal with E : tk_type t = _ |- _ => rewrite E; reflexivity end
        | rewrite Hv;
          match goal with E : tk_type t = _ |- _ => rewrite E in Hk; cbn [val_of_kind] in Hk; destruct Hk as [? ->] end
        | rewrite Hv ]
      end ].

Local Ltac split_plain :=
  repeat match goal with
  | H : Forall node_ok (_ :: _) |- _ => inversion H; subst; clear H
  end;
  cbn [node_ok] in *;
  repeat match goal with H : _ /\ _ |- _ => destruct H end.

Local Ltac plain_solve :=
  cbn [dispatch_plain_post]; unfold pplain, push_goto, push; cbn [p_stack p_stmts];
  repeat first
  [ match goal with
    | |- _ /\ _ => split
    | |- Forall _ (_ :: _) => constructor
    | |- Forall _ (_ ++ _) => apply Forall_app; split
    | |- Forall _ [] => constructor
    | |- expr_ok (ECall _ _ _ _) => apply expr_ok_call; split
    end
  | progress cbn [node_ok stmt_ok or_components c_obj c_args as_rvalue snd expr_of_object expr_of_call stmt_of_assign pb_object]
  | progress unfold args_ok_expr, expr_of_call, expr_of_object, stmt_of_assign ];
  cbn [expr_ok plain_val];
  try solve [ exact I | assumption | apply app_one_nonempty | split; assumption ].

Lemma dispatch_plain : forall p t,
  pinv p -> tok_ok t = true -> pplain p -> dispatch_plain_post (dispatch p t).
Proof.
  intros [s stk ss] t Hinv Htok [Hst Hss]. unfold pinv in Hinv. cbn [p_state p_stack p_stmts] in *.
  inversion Hinv; subst; unfold dispatch; cbn [p_state];
    match goal with
    | |- dispatch_plain_post (?f _ _) => unfold f
    | |- dispatch_plain_post parse_error => exact I
    end;
    try (destruct (tk_type t) eqn:Ek);
    cbn -[val_of_token token_string N.leb];
    unfold push_literal; try rewrite Ek;
    cbn -[val_of_token token_string N.leb];
    try tok_solve t Htok;
    cbn -[val_of_token token_string N.leb];
    try exact I; split_plain;
    try solve [plain_solve].
  all: try match goal with |- context [N.leb ?a ?b] => destruct (N.leb a b) end; try exact I; try solve [plain_solve].
  all: try (match goal with |- context [match ?n with Some _ => _ | None => _ end] => is_var n; destruct n end;
            try exact I; solve [plain_solve]).
  all: solve [match goal with |- context [pop _] => idtac end;
              match goal with H : ctx_ok _ |- _ => inversion H; subst; clear H end; cbn; split_plain; plain_solve].
Qed.

Lemma pplain_set_state p s : pplain p -> pplain (set_state p s).
Proof. exact (fun H => H). Qed.

Lemma pplain_push p n : pplain p -> node_ok n -> pplain (push n p).
Proof. intros [H1 H2] Hn. split; [constructor; assumption|exact H2]. Qed.

Lemma feed_loop_plain : forall n p t,
  pinv p -> pplain p -> tok_ok t = true ->
  match feed_loop n p t with Ok p' => pplain p' | _ => True end.
Proof.
  induction n as [|n IH]; intros p t Hp Hpl Ht; [exact I|].
  cbn [feed_loop]. pose proof (dispatch_inv p t Hp Ht) as D. pose proof (dispatch_plain p t Hp Ht Hpl) as Q.
  destruct (dispatch p t) as [[p' a]|e|s|]; cbn [obind]; try exact I.
  cbn in D, Q. destruct Q as [Q1 Q2]. destruct a as [s|s nd|s|].
  - apply pplain_set_state, Q1.
  - apply pplain_set_state, pplain_push; assumption.
  - destruct D as [D1 _]. apply IH; [exact D1|apply pplain_set_state, Q1|exact Ht].
  - apply pplain_set_state, Q1.
Qed.

Lemma feed_plain p t : pinv p -> pplain p -> tok_ok t = true ->
  match feed p t with Ok p' => pplain p' | _ => True end.
Proof. intros. unfold feed. apply feed_loop_plain; assumption. Qed.

(** what get_results hands over is [stmt_ok], what it leaves behind keeps the invariant *)
Lemma get_results_plain p : pplain p ->
  Forall stmt_ok (fst (get_results p)) /\ pplain (snd (get_results p)).
Proof. intros [H1 H2]. split; [exact H2|]. split; [exact H1|constructor]. Qed.

