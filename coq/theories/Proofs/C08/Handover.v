(** C08 [handover_safe]: soundness of the decision procedure [script_safe] (Bind/Handover.v), and
    its instance on the regenerated tables. *)
From RS Require Import Base.Bytes Base.Outcome Bind.Types Bind.Binder Bind.BindSpec Bind.Handover.
From RS Require Import Proofs.C11.Main Proofs.C11.Corollaries.
From Coq Require Import Arith Lia.

Lemma in_all_vtypes : forall t, In t all_vtypes.
Proof. destruct t; cbn; tauto. Qed.

Lemma admits_all_sound : forall accepts c t,
  admits_all accepts c = true -> accepts t = true -> conv_defined c t = true.
Proof.
  intros accepts c t H Ha. unfold admits_all in H. rewrite forallb_forall in H.
  specialize (H t (in_all_vtypes t)). rewrite Ha in H. exact H.
Qed.

Lemma convert_ok : forall accepts c t,
  admits_all accepts c = true -> accepts t = true -> convert c t = Ok tt.
Proof. intros accepts c t H Ha. unfold convert. rewrite (admits_all_sound _ _ _ H Ha). reflexivity. Qed.

Lemma convert_all_ok : forall accepts c l,
  admits_all accepts c = true -> Forall (fun t => accepts t = true) l ->
  exists us, omapM (convert c) l = Ok us.
Proof.
  intros accepts c l H. induction l as [| t r IH]; intros Hl; [exists []; reflexivity |].
  inversion Hl as [| t' r' Ht Hr]; subst. destruct (IH Hr) as [us Hus]. exists (tt :: us).
  cbn [omapM]. rewrite (convert_ok _ _ _ H Ht). cbn [obind]. rewrite Hus. reflexivity.
Qed.

Definition slot_ok (dt : argdecl * vtype) : Prop := param_accepts (fst dt) (snd dt) = true.

Theorem check_script_sound : forall collect s this decls pending st early,
  check_script collect s this decls pending = true ->
  h_this st = this ->
  map fst (h_it st) = decls ->
  Forall slot_ok (h_it st) ->
  (pending = false -> h_extra st = []) ->
  Forall (fun t => compat_spec collect t = true) (h_extra st) ->
  run_script s early st = Ok tt.
Proof.
  intros collect s. induction s as [| h r IH]; intros this decls pending st early Hc Hthis Hdecls Hslots Hpend Hextra; subst this.
  - cbn [check_script] in Hc. unfold all_consumed in Hc. repeat rewrite Bool.andb_true_iff in Hc.
    destruct Hc as [[H1 H2] H3]. apply Bool.negb_true_iff in H1. apply Bool.negb_true_iff in H3.
    cbn [run_script]. unfold drop_args. rewrite H1.
    destruct decls; [| discriminate H2]. destruct (h_it st); [| discriminate Hdecls].
    rewrite (Hpend H3). reflexivity.
  - destruct h; cbn [check_script] in Hc; cbn [run_script].
    + (* Next *)
      destruct decls as [| d ds]; [discriminate Hc |]. apply Bool.andb_true_iff in Hc. destruct Hc as [Ha Hr].
      destruct (h_it st) as [| [d' t] it] eqn:Eit; [discriminate Hdecls |].
      cbn [map fst] in Hdecls. inversion Hdecls; subst d' ds.
      inversion Hslots as [| x l Hs Hsl]; subst. unfold slot_ok in Hs. cbn [fst snd] in Hs.
      rewrite (convert_ok _ _ _ Ha Hs). cbn [obind].
      apply (IH (h_this st) (map fst it) pending); cbn [h_this h_it h_extra]; auto.
    + (* NextRaw *)
      destruct decls as [| d ds]; [discriminate Hc |].
      destruct (h_it st) as [| [d' t] it] eqn:Eit; [discriminate Hdecls |].
      cbn [map fst] in Hdecls. inversion Hdecls; subst d' ds.
      destruct (canon d) as [c |]; [| discriminate Hc].
      apply Bool.andb_true_iff in Hc. destruct Hc as [Ha Hr].
      inversion Hslots as [| x l Hs Hsl]; subst. unfold slot_ok in Hs. cbn [fst snd] in Hs.
      rewrite (convert_ok _ _ _ Ha Hs). cbn [obind].
      apply (IH (h_this st) (map fst it) pending); cbn [h_this h_it h_extra]; auto.
    + (* NextAsRef *)
      destruct decls as [| d ds]; [discriminate Hc |]. apply Bool.andb_true_iff in Hc. destruct Hc as [Ha Hr].
      destruct (h_it st) as [| [d' t] it] eqn:Eit; [discriminate Hdecls |].
      cbn [map fst] in Hdecls. inversion Hdecls; subst d' ds.
      inversion Hslots as [| x l Hs Hsl]; subst. unfold slot_ok in Hs. cbn [fst snd] in Hs.
      rewrite (convert_ok _ _ _ Ha Hs). cbn [obind].
      apply (IH (h_this st) (map fst it) pending); cbn [h_this h_it h_extra]; auto.
    + (* JoinExtra *)
      apply Bool.andb_true_iff in Hc. destruct Hc as [Ha Hr].
      assert (Hconv : exists us, omapM (convert CBuf) (h_extra st) = Ok us).
      { apply Bool.orb_true_iff in Ha. destruct Ha as [Ha | Ha].
        - apply Bool.negb_true_iff in Ha. rewrite (Hpend Ha). exists []. reflexivity.
        - exact (convert_all_ok _ _ _ Ha Hextra). }
      destruct Hconv as [us Hus]. rewrite Hus. cbn [obind].
      apply (IH (h_this st) decls false); cbn [h_this h_it h_extra]; auto.
    + (* CollectExtra *)
      apply Bool.andb_true_iff in Hc. destruct Hc as [Ha Hr].
      assert (Hconv : exists us, omapM (convert c) (h_extra st) = Ok us).
      { apply Bool.orb_true_iff in Ha. destruct Ha as [Ha | Ha].
        - apply Bool.negb_true_iff in Ha. rewrite (Hpend Ha). exists []. reflexivity.
        - exact (convert_all_ok _ _ _ Ha Hextra). }
      destruct Hconv as [us Hus]. rewrite Hus. cbn [obind].
      apply (IH (h_this st) decls false); cbn [h_this h_it h_extra]; auto.
    + (* ExtraLen *)
      apply (IH (h_this st) decls pending); auto.
    + (* TakeThis *)
      apply Bool.andb_true_iff in Hc. destruct Hc as [Ht Hr]. rewrite Ht.
      apply (IH false decls pending); cbn [h_this h_it h_extra]; auto.
    + (* VoidAll *)
      apply (IH (h_this st) [] false); cbn [h_this h_it h_extra]; auto.
    + (* Try *)
      apply Bool.andb_true_iff in Hc. destruct Hc as [Hall Hr].
      destruct early as [| [|] e].
      * apply (IH (h_this st) decls pending); auto.
      * unfold all_consumed in Hall. repeat rewrite Bool.andb_true_iff in Hall.
        destruct Hall as [[H1 H2] H3]. apply Bool.negb_true_iff in H1. apply Bool.negb_true_iff in H3.
        unfold drop_args. rewrite H1.
        destruct decls; [| discriminate H2]. destruct (h_it st); [| discriminate Hdecls].
        rewrite (Hpend H3). reflexivity.
      * apply (IH (h_this st) decls pending); auto.
    + discriminate Hc.
Qed.

Lemma combine_fst {A B} : forall (a : list A) (b : list B), length a = length b -> map fst (combine a b) = a.
Proof.
  induction a as [| x r IH]; intros [| y s] H; cbn in *; try reflexivity; try discriminate H.
  f_equal. apply IH. lia.
Qed.

Lemma all_accept_slots : forall (V : Type) (type_of : V -> vtype) ps (vs : list V),
  all_accept V type_of ps vs = true ->
  Forall slot_ok (combine (map snd ps) (map type_of vs)).
Proof.
  intros V type_of. induction ps as [| p pr IH]; intros vs H; [constructor |].
  destruct vs as [| v vr]; [constructor |]. cbn [all_accept] in H. apply Bool.andb_true_iff in H.
  destruct H as [H1 H2]. cbn [map combine]. constructor; [exact H1 | apply IH; exact H2].
Qed.

(** no accepted call can make a function with a safe script panic while taking its arguments:
    no [next]/[take_this] unwrap on [None], no [unreachable!()] in a conversion, none of the three
    [Drop for Args] assertions, on any path including early `?` returns *)
Theorem handover_safe :
  forall (V : Type) (type_of : V -> vtype) (of_valdef : valdef -> V) (f : funcdef) (is_method : bool) (s : list hop),
  wf_sig f = true -> script_safe f is_method s = true ->
  forall call slots extra early,
  argvec V type_of of_valdef f call = Ok (slots, extra) ->
  run_script s early (initial_state f is_method (map type_of slots) (map type_of extra)) = Ok tt.
Proof.
  intros V type_of of_valdef f m s Hwf Hs call slots extra early H.
  destruct (accepted_values_compatible V type_of of_valdef f Hwf _ _ _ H) as [Hlen [Hacc Hext]].
  destruct (tail_collected_in_order V type_of of_valdef f Hwf _ _ _ H) as [Hx [_ Hcol]].
  unfold script_safe in Hs. unfold initial_state.
  apply (check_script_sound (fd_collect f) s m (map snd (fd_args f)) (collects f)); cbn [h_this h_it h_extra].
  - exact Hs.
  - reflexivity.
  - apply combine_fst. rewrite !map_length. symmetry. exact Hlen.
  - apply all_accept_slots. exact Hacc.
  - intros Hc. subst extra. destruct (tail_part V f call) as [| a r]; [reflexivity |].
    rewrite Hcol in Hc; [discriminate Hc | discriminate].
  - rewrite forallb_forall in Hext. apply Forall_forall. intros t Ht.
    apply in_map_iff in Ht. destruct Ht as [v [Hv Hin]]. subst t. exact (Hext v Hin).
Qed.
