(** C08, execution half: the interpreter preserves the state invariant and never panics, for any
    library that satisfies the per-key contract and any symbol tables that are closed.  Generic in the
    Section variables of Interp/Eval.v; instantiated with the catalogue in Proofs/C08/ExecFinal.v. *)
From RS Require Import Base.Bytes Base.Outcome Bind.Types Bind.Binder Bind.BindSpec Pkt.Packet Pkt.Pcap
  Interp.Val Interp.Ast Interp.Eval Lib.LibBase.
From RS Require Import Proofs.C11.Corollaries.
From RS Require Import Proofs.C08.Safe Proofs.C08.LibPost Proofs.C08.LibSound Proofs.C08.Wf.
From Coq Require Import Arith Lia.
Open Scope N_scope.

Lemma vtype_eqb_refl t : vtype_eqb t t = true.
Proof. destruct t; reflexivity. Qed.

Section Interp.
Variable allowed : string -> Prop.
Variable functions : list funcdef.
Variable classes : list (string * list (string * string)).
Variable modules : list (string * list (string * symbol)).
Variable exec : string -> option nat -> list val -> list val -> heap -> option libres.

Notation wf_val := (wf_val classes modules).
Notation wf_prog := (wf_prog classes modules).
Notation mod_ok := (mod_ok modules).
Notation fkey := (fkey modules).
Notation mkey := (mkey classes).
Notation safe := (safe allowed).
Notation eval := (eval functions classes modules exec).
Notation call := (call functions exec).

(** the symbol tables are closed *)
Hypothesis H_child : forall path syms c child,
  assoc path modules = Some syms -> assoc c syms = Some (SModule child) -> mod_ok child.
Hypothesis H_root : exists syms, assoc EmptyString modules = Some syms /\
  forall n s, assoc n syms = Some s -> exists path, s = SModule path.
Hypothesis H_class : forall o, exists ms, assoc (obj_class o) classes = Some ms.
(** the library honours its contract *)
Hypothesis H_fun : forall k, fkey k ->
  exists f, find_func functions k = Some f /\ wf_sig f = true /\
  forall slots extra h, args_ok f slots extra ->
  exists r, exec k None slots extra h = Some r /\ safe r (lib_post h (fd_ret f)).
Hypothesis H_meth : forall cls k, mkey cls k ->
  exists f, find_func functions k = Some f /\ wf_sig f = true /\
  forall slots extra h a o, args_ok f slots extra -> nth_error h a = Some o -> obj_class o = cls ->
  exists r, exec k (Some a) slots extra h = Some r /\ safe r (lib_post h (fd_ret f)).

Definition rsafe {A} (x : res A) (Q : A -> prog -> Prop) : Prop :=
  match x with ROk a p => Q a p | RErr _ _ => True | RPanic s _ => allowed s end.

Lemma rsafe_bind {A B} (x : res A) (f : A -> prog -> res B) (P : A -> prog -> Prop) (Q : B -> prog -> Prop) :
  rsafe x P -> (forall a p, P a p -> rsafe (f a p) Q) -> rsafe (rbind x f) Q.
Proof. destruct x as [a p|e p|s p]; cbn; intros H K; auto. Qed.

Lemma rsafe_mono {A} (x : res A) (P Q : A -> prog -> Prop) :
  rsafe x P -> (forall a p, P a p -> Q a p) -> rsafe x Q.
Proof. destruct x as [a p|e p|s p]; cbn; intros H K; auto. Qed.

Lemma rsafe_lift {A} p (x : outcome A) (P : A -> Prop) :
  safe x P -> rsafe (lift p x) (fun a p' => p' = p /\ P a).
Proof. destruct x as [a|e|s|]; cbn; intros H; [split; [reflexivity|exact H]|exact I|exact H|contradiction]. Qed.

(** what an evaluation from [p0] leaves: a well-formed state, a well-formed value, a larger heap *)
Definition rpost (p0 : prog) (v : val) (p : prog) : Prop :=
  wf_prog p /\ wf_val (p_heap p) v /\ heap_ext (p_heap p0) (p_heap p).

(* ---------------------------------------------------------------- references *)

Lemma walk_modules_safe : forall ms path, mod_ok path -> safe (walk_modules modules path ms) mod_ok.
Proof.
  induction ms as [|c r IH]; intros path Hp; cbn [walk_modules]; [exact Hp|].
  destruct Hp as [syms E]. rewrite E. destruct (assoc c syms) as [[child|k|k|d]|] eqn:Ec; try exact I.
  apply IH. eapply H_child; eassumption.
Qed.

Lemma eval_extern_ref_safe p ms comps : wf_prog p -> ms <> [] -> comps <> [] ->
  safe (eval_extern_ref modules p ms comps) (wf_val (p_heap p)).
Proof.
  intros [Hr Hi] Hms Hc. unfold eval_extern_ref. destruct ms as [|top rest]; [congruence|].
  destruct (assoc top (p_imports p)) as [path0|] eqn:E0; [|exact I].
  pose proof (assoc_Forall _ _ _ _ Hi E0) as M0. cbn [snd] in M0.
  eapply safe_bind; [apply walk_modules_safe, M0|]. intros path [syms E].
  destruct comps as [|topvar more]; [congruence|]. rewrite E.
  eapply safe_bind with (P := wf_val (p_heap p)).
  - destruct (assoc topvar syms) as [[child|k|k|d]|] eqn:Ev; try exact I.
    + cbn [Safe.safe wf_val]. exists path, syms, topvar. split; assumption.
    + apply valdef_wf.
  - intros v Hv. destruct more; [exact Hv|exact I].
Qed.

Lemma method_lookup_safe p v name : wf_val (p_heap p) v ->
  safe (method_lookup classes p v name) (wf_val (p_heap p)).
Proof.
  intros Hv. unfold method_lookup. destruct v; try exact I. cbn [Wf.wf_val] in Hv. destruct Hv as [o Ho].
  rewrite Ho. destruct (H_class o) as [ms Hms]. rewrite Hms.
  destruct (assoc name ms) as [key|] eqn:Ek; [|exact I].
  cbn [Safe.safe Wf.wf_val]. exists o. split; [exact Ho|]. exists ms, name. split; assumption.
Qed.

Lemma eval_local_ref_safe p comps : wf_prog p -> comps <> [] ->
  safe (eval_local_ref classes p comps) (wf_val (p_heap p)).
Proof.
  intros [Hr Hi] Hc. unfold eval_local_ref. destruct (Nat.ltb 2 (length comps)); [exact I|].
  destruct comps as [|var more]; [congruence|].
  destruct (assoc var (p_regs p)) as [v|] eqn:Ev; [|exact I].
  pose proof (assoc_Forall _ _ _ _ Hr Ev) as Hv. cbn [snd] in Hv.
  destruct more; [exact Hv|]. apply method_lookup_safe, Hv.
Qed.

Lemma eval_obj_ref_safe p ms comps : wf_prog p -> comps <> [] ->
  safe (eval_obj_ref classes modules p ms comps) (wf_val (p_heap p)).
Proof.
  intros Hp Hc. unfold eval_obj_ref. destruct ms as [|m r].
  - destruct comps; [congruence|]. apply eval_local_ref_safe; assumption.
  - apply eval_extern_ref_safe; [assumption|discriminate|assumption].
Qed.

(* ---------------------------------------------------------------- calls *)

Lemma wf_prog_trace p k : wf_prog p -> wf_prog (add_trace p k).
Proof. apply wf_prog_same; reflexivity. Qed.
Lemma wf_prog_loc p l : wf_prog p -> wf_prog (set_loc p l).
Proof. apply wf_prog_same; reflexivity. Qed.

Lemma call_finish p key f r :
  wf_prog p -> safe r (lib_post (p_heap p) (fd_ret f)) ->
  rsafe (rbind (lift (add_trace p key) r) (fun '(v, h) p =>
           if vtype_eqb (val_type v) (fd_ret f) then ROk v (set_heap p h)
           else RPanic "program.rs debug_assert!(ret.val_type() == func.return_type)" (set_heap p h)))
        (rpost p).
Proof.
  intros Hp Hr. destruct r as [[v h']|e|s|]; cbn in Hr |- *; try exact I; try exact Hr; try contradiction.
  destruct Hr as (Ht & Hv & He). cbn [fst snd] in *. rewrite Ht, vtype_eqb_refl.
  cbn [rsafe]. unfold rpost. cbn [set_heap p_heap]. split; [|split].
  - apply (wf_prog_heap classes modules (add_trace p key) h' He). apply wf_prog_trace, Hp.
  - apply lib_val_wf, Hv.
  - exact He.
Qed.

Lemma call_fun_safe p key vs : wf_prog p -> fkey key -> rsafe (call p key None vs) (rpost p).
Proof.
  intros Hp Hk. destruct (H_fun key Hk) as (f & Hf & Hwf & Hs). unfold Eval.call. rewrite Hf.
  destruct (never_panics val val_type val_of_valdef f Hwf vs) as [E|(slots & extra & E)]; rewrite E; [exact I|].
  cbn [lift rbind]. destruct (Hs slots extra (p_heap p) (argvec_args_ok f vs slots extra Hwf E)) as (r & Er & Sr).
  rewrite Er. apply call_finish; assumption.
Qed.

Lemma call_meth_safe p key a o vs :
  wf_prog p -> nth_error (p_heap p) a = Some o -> mkey (obj_class o) key ->
  rsafe (call p key (Some a) vs) (rpost p).
Proof.
  intros Hp Ho Hk. destruct (H_meth _ key Hk) as (f & Hf & Hwf & Hs). unfold Eval.call. rewrite Hf.
  destruct (never_panics val val_type val_of_valdef f Hwf vs) as [E|(slots & extra & E)]; rewrite E; [exact I|].
  cbn [lift rbind].
  destruct (Hs slots extra (p_heap p) a o (argvec_args_ok f vs slots extra Hwf E) Ho eq_refl) as (r & Er & Sr).
  rewrite Er. apply call_finish; assumption.
Qed.

(* ---------------------------------------------------------------- expressions *)

Definition eval_args_of :=
  fix eval_args (p : prog) (l : list (option string * expr)) : res (list (option string * val)) :=
    match l with
    | [] => ROk [] p
    | (n, a) :: r => rbind (eval p a) (fun v p => rbind (eval_args p r) (fun vs p => ROk ((n, v) :: vs) p))
    end.

Lemma eval_call_unfold p l ms comps args :
  eval p (ECall l ms comps args) =
  (let p := set_loc p l in
   rbind (lift p (eval_obj_ref classes modules p ms comps)) (fun callee p =>
   match callee with
   | VFunc key => rbind (eval_args_of p args) (fun vs p => call p key None vs)
   | VMethod addr key => rbind (eval_args_of p args) (fun vs p => call p key (Some addr) vs)
   | _ => RErr EType p
   end)).
Proof. reflexivity. Qed.

Lemma rpost_trans p0 p1 v1 p2 v2 : rpost p0 v1 p1 -> rpost p1 v2 p2 -> rpost p0 v2 p2.
Proof.
  intros (_ & _ & E1) (W & V & E2). split; [exact W|]. split; [exact V|]. eapply heap_ext_trans; eassumption.
Qed.

Lemma eval_args_safe args :
  Forall (fun a => forall p, wf_prog p -> rsafe (eval p (snd a)) (rpost p)) args ->
  forall p, wf_prog p ->
  rsafe (eval_args_of p args) (fun _ p' => wf_prog p' /\ heap_ext (p_heap p) (p_heap p')).
Proof.
  induction 1 as [|[n a] r Ha Hr IH]; intros p Hp; cbn [eval_args_of].
  - split; [exact Hp|apply heap_ext_refl].
  - eapply rsafe_bind; [apply Ha, Hp|]. intros v p1 (W1 & _ & E1).
    eapply rsafe_bind; [apply IH, W1|]. intros vs p2 (W2 & E2). cbn [rsafe].
    split; [exact W2|]. eapply heap_ext_trans; eassumption.
Qed.

Theorem eval_safe : forall e, expr_ok e -> forall p, wf_prog p -> rsafe (eval p e) (rpost p).
Proof.
  induction e as [|l v|l ms cs|l ms cs args IH|a b IHa IHb] using expr_ind'; intros Hok p Hp.
  - cbn. split; [exact Hp|]. split; [exact I|apply heap_ext_refl].
  - cbn [Eval.eval rsafe]. split; [apply wf_prog_loc, Hp|]. split; [apply plain_val_wf, Hok|apply heap_ext_refl].
  - cbn [Eval.eval]. cbn [expr_ok] in Hok.
    eapply rsafe_mono; [apply rsafe_lift, eval_obj_ref_safe; [apply wf_prog_loc, Hp|exact Hok]|].
    intros v p' [-> Hv]. split; [apply wf_prog_loc, Hp|]. split; [exact Hv|apply heap_ext_refl].
  - rewrite eval_call_unfold. cbv zeta. apply expr_ok_call in Hok. destruct Hok as [Hcs Hargs].
    assert (IH' : Forall (fun a => forall p, wf_prog p -> rsafe (eval p (snd a)) (rpost p)) args).
    { unfold args_ok_expr in Hargs. rewrite Forall_forall in IH, Hargs |- *. intros a Ha q Hq.
      apply IH; [exact Ha|apply Hargs, Ha|exact Hq]. }
    eapply rsafe_bind; [apply rsafe_lift, eval_obj_ref_safe; [apply wf_prog_loc, Hp|exact Hcs]|].
    intros callee p1 [-> Hc]. pose proof (wf_prog_loc p l Hp) as Hp1.
    destruct callee; try exact I.
    + (* a function *)
      eapply rsafe_bind; [apply eval_args_safe; [exact IH'|exact Hp1]|]. intros vs p2 (W2 & E2).
      eapply rsafe_mono; [apply call_fun_safe; [exact W2|exact Hc]|].
      intros v p3 (W3 & V3 & E3). split; [exact W3|]. split; [exact V3|].
      eapply heap_ext_trans; [|exact E3]. exact E2.
    + (* a method: the receiver is still live after the arguments were evaluated *)
      eapply rsafe_bind; [apply eval_args_safe; [exact IH'|exact Hp1]|]. intros vs p2 (W2 & E2).
      cbn [Wf.wf_val] in Hc. destruct Hc as (o & Ho & Hm).
      destruct (E2 _ _ Ho) as (o' & Ho' & Hcl). rewrite <- Hcl in Hm.
      eapply rsafe_mono; [eapply call_meth_safe; [exact W2|exact Ho'|exact Hm]|].
      intros v p3 (W3 & V3 & E3). split; [exact W3|]. split; [exact V3|].
      eapply heap_ext_trans; [|exact E3]. exact E2.
  - cbn [Eval.eval]. cbn [expr_ok] in Hok. destruct Hok as [Ha Hb].
    eapply rsafe_bind; [apply IHa; assumption|]. intros va p1 (W1 & V1 & E1).
    destruct (vtype_eqb (val_type va) TIp4) eqn:Ta; cbn [negb]; [|exact I].
    eapply rsafe_bind; [apply IHb; assumption|]. intros vb p2 (W2 & V2 & E2).
    destruct (is_integral (val_type vb)) eqn:Tb; cbn [negb]; [|exact I].
    destruct va; try discriminate Ta. cbn [conv_ip4 lift rbind].
    destruct vb; try discriminate Tb; cbn [conv_int lift rbind];
      match goal with |- context [N.ltb ?x ?y] => destruct (N.ltb x y) end; try exact I;
      (cbn [rsafe]; split; [apply wf_prog_loc, W2|]; split; [exact I|]; cbn [set_loc p_heap];
       eapply heap_ext_trans; eassumption).
Qed.

(* ---------------------------------------------------------------- statements *)

Definition spost (_ : unit) (p : prog) : Prop := wf_prog p.

Lemma update_time_safe p ns : wf_prog p -> rsafe (update_time p ns) spost.
Proof.
  intros Hp. unfold update_time. destruct (N.ltb _ _); [|exact I]. cbn [rsafe]. unfold spost.
  revert Hp. apply wf_prog_same; reflexivity.
Qed.

Lemma advance_all_safe : forall ps p, wf_prog p -> rsafe (advance_all p ps) spost.
Proof.
  induction ps as [|k r IH]; intros p Hp; cbn [advance_all]; [exact Hp|].
  eapply rsafe_bind; [apply update_time_safe, Hp|]. intros u1 p1 H1. apply IH, H1.
Qed.

Lemma write_packet_safe t k : pkt_ok k -> safe (write_packet t k) (fun _ => True).
Proof.
  intros H. unfold write_packet. destruct (Nat.ltb (length (pk_hr k)) 16) eqn:E; [|exact I].
  apply Nat.ltb_lt in E. unfold pkt_ok in H. lia.
Qed.

Lemma write_all_safe : forall ps p, Forall pkt_ok ps -> wf_prog p -> rsafe (write_all p ps) spost.
Proof.
  induction ps as [|k r IH]; intros p Hk Hp; cbn [write_all]; [exact Hp|].
  inversion Hk as [|? ? H1 H2]; subst.
  eapply rsafe_bind; [apply rsafe_lift, write_packet_safe, H1|]. intros [b k'] p1 [-> _].
  apply IH; [exact H2|]. revert Hp. apply wf_prog_same; reflexivity.
Qed.

Lemma emit_val_safe p v : wf_prog p -> wf_val (p_heap p) v -> rsafe (emit_val p v) spost.
Proof.
  intros Hp Hv. unfold emit_val. destruct v; try exact Hp;
    try (cbn [rsafe]; unfold spost; revert Hp; apply wf_prog_same; reflexivity).
  - cbn [Wf.wf_val] in Hv. eapply rsafe_bind; [apply update_time_safe, Hp|]. intros u1 p1 H1.
    apply write_all_safe; [repeat constructor; exact Hv|exact H1].
  - cbn [Wf.wf_val] in Hv. eapply rsafe_bind; [apply advance_all_safe, Hp|]. intros u1 p1 H1.
    apply write_all_safe; assumption.
  - apply update_time_safe, Hp.
Qed.

Theorem add_stmt_safe p s : stmt_ok s -> wf_prog p -> rsafe (add_stmt functions classes modules exec p s) spost.
Proof.
  intros Hs Hp. destruct s as [l name|l target rv|e]; cbn [add_stmt].
  - pose proof (wf_prog_loc p l Hp) as Hp1. set (p1 := set_loc p l) in *.
    destruct (assoc name (p_imports p1)); [exact Hp1|].
    destruct H_root as (syms & Er & Hroot). rewrite Er.
    destruct (assoc name syms) as [s|] eqn:En; [|exact I].
    destruct (Hroot _ _ En) as [path ->]. cbn [rsafe]. unfold spost.
    destruct Hp1 as [Hr Hi]. split; [exact Hr|]. cbn [p_imports]. constructor; [|exact Hi].
    cbn [snd]. eapply H_child; eassumption.
  - pose proof (wf_prog_loc p l Hp) as Hp1. set (p1 := set_loc p l) in *.
    destruct (assoc target (p_regs p1)); [exact I|].
    eapply rsafe_bind; [apply eval_safe; [exact Hs|exact Hp1]|]. intros v p2 ([Hr Hi] & V2 & _).
    cbn [rsafe]. split; [|exact Hi]. cbn [p_regs p_heap]. constructor; [exact V2|exact Hr].
  - eapply rsafe_bind; [apply eval_safe; [exact Hs|exact Hp]|]. intros v p2 (W2 & V2 & _).
    apply emit_val_safe; assumption.
Qed.

Theorem add_stmts_safe : forall ss p, Forall stmt_ok ss -> wf_prog p ->
  rsafe (add_stmts functions classes modules exec p ss) spost.
Proof.
  induction ss as [|s r IH]; intros p Hs Hp; cbn [add_stmts]; [exact Hp|].
  inversion Hs as [|? ? H1 H2]; subst.
  eapply rsafe_bind; [apply add_stmt_safe; assumption|]. intros u1 p1 Hp1. apply IH; assumption.
Qed.

End Interp.
