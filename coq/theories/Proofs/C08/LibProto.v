(** C08, execution half: dns, netbios, dhcp, tls (Lib/ProtoLib.v). *)
From RS Require Import Base.Bytes Base.Outcome Bind.Types Pkt.Packet Ez.Udp Interp.Val Interp.Eval
  Lib.LibBase Lib.StdLib Lib.ProtoLib.
From RS Require Import Proofs.C08.LibTac.
From RSGen Require Import Catalogue.
Open Scope N_scope.
Open Scope string_scope.

Section LibProto.
Variable allowed : string -> Prop.
Variable e : env.
Notation fsound := (fsound allowed e).

Lemma s_dns_flags : fsound "dns::flags". Proof. fsound_start; unfold dns_flags_fn; steps. Qed.
Lemma s_dns_hdr : fsound "dns::hdr". Proof. fsound_start; unfold dns_hdr_fn; steps. Qed.
Lemma s_dns_name : fsound "dns::name". Proof. fsound_start; unfold dns_name_fn; steps. Qed.
Lemma s_dns_pointer : fsound "dns::pointer". Proof. fsound_start; unfold dns_pointer_fn; steps. Qed.
Lemma s_dns_question : fsound "dns::question". Proof. fsound_start; unfold dns_question_fn; steps. Qed.
Lemma s_dns_answer : fsound "dns::answer". Proof. fsound_start; unfold dns_answer_fn; steps. Qed.
Lemma s_dns_host : fsound "dns::host". Proof. fsound_start; unfold dns_host_fn; steps. Qed.

Lemma s_nb_flags : fsound "netbios::ns::flags". Proof. fsound_start; unfold dns_flags_fn; steps. Qed.
Lemma s_nb_encode : fsound "netbios::name::encode". Proof. fsound_start; unfold nb_encode_fn; steps. Qed.

Lemma s_dhcp_hdr : fsound "dhcp::hdr". Proof. fsound_start; unfold dhcp_hdr_fn; steps. Qed.
Lemma s_dhcp_option : fsound "dhcp::option". Proof. fsound_start; unfold dhcp_option_fn; steps. Qed.

Lemma s_tls_message : fsound "tls::message". Proof. fsound_start; unfold tls_message_fn; steps. Qed.
Lemma s_tls_extension : fsound "tls::extension". Proof. fsound_start; unfold tls_extension_fn; steps. Qed.
Lemma s_tls_client_hello : fsound "tls::client_hello". Proof. fsound_start; unfold tls_client_hello_fn; steps. Qed.
Lemma s_tls_server_hello : fsound "tls::server_hello". Proof. fsound_start; unfold tls_server_hello_fn; steps. Qed.
Lemma s_tls_ciphers : fsound "tls::ciphers". Proof. fsound_start; unfold tls_ciphers_fn; steps. Qed.
Lemma s_tls_certificates : fsound "tls::certificates". Proof. fsound_start; unfold tls_certificates_fn; steps. Qed.
Lemma s_tls_sni : fsound "tls::sni". Proof. fsound_start; unfold tls_sni_fn; steps. Qed.

End LibProto.
