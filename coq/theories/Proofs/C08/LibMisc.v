(** C08, execution half: std, text, io, time, eth and the tunnel sessions (Lib/MiscLib.v). *)
From RS Require Import Base.Bytes Base.Outcome Bind.Types Pkt.Packet Interp.Val Interp.Eval
  Lib.LibBase Lib.StdLib Lib.MiscLib.
From RS Require Import Proofs.C08.LibTac.
From RSGen Require Import Catalogue.
Open Scope N_scope.
Open Scope string_scope.

Section LibMisc.
Variable allowed : string -> Prop.
Variable e : env.
Notation fsound := (fsound allowed e).
Notation msound := (msound allowed e).

Local Ltac f_int := fsound_start; unfold std_int_fn; steps.
Local Ltac f_len := fsound_start; unfold std_len_fn; steps.

Lemma s_std_be16 : fsound "std::be16". Proof. f_int. Qed.
Lemma s_std_be32 : fsound "std::be32". Proof. f_int. Qed.
Lemma s_std_be64 : fsound "std::be64". Proof. f_int. Qed.
Lemma s_std_le16 : fsound "std::le16". Proof. f_int. Qed.
Lemma s_std_le32 : fsound "std::le32". Proof. f_int. Qed.
Lemma s_std_le64 : fsound "std::le64". Proof. f_int. Qed.
Lemma s_std_u8 : fsound "std::u8". Proof. f_int. Qed.
Lemma s_std_len_be64 : fsound "std::len_be64". Proof. f_len. Qed.
Lemma s_std_len_be32 : fsound "std::len_be32". Proof. f_len. Qed.
Lemma s_std_len_be16 : fsound "std::len_be16". Proof. f_len. Qed.
Lemma s_std_len_u8 : fsound "std::len_u8". Proof. f_len. Qed.

Lemma s_text_concat : fsound "text::concat". Proof. fsound_start; unfold text_join_fn; steps. Qed.
Lemma s_text_crlflines : fsound "text::crlflines". Proof. fsound_start; unfold text_join_fn; steps. Qed.
Lemma s_text_len : fsound "text::len". Proof. fsound_start; unfold text_len_fn; steps. Qed.

Lemma s_io_file : fsound "io::file". Proof. fsound_start; unfold io_file_fn; steps. Qed.
Lemma s_io_bufio : fsound "io::bufio". Proof. fsound_start; unfold io_bufio_fn; steps. Qed.
Lemma s_bufio_read : msound "io::BufIO" "io::BufIO.read". Proof. msound_start; steps. Qed.
Lemma s_bufio_read_all : msound "io::BufIO" "io::BufIO.read_all". Proof. msound_start; steps. Qed.

Lemma s_time_jump_seconds : fsound "time::jump_seconds". Proof. fsound_start; unfold time_jump_fn; steps. Qed.
Lemma s_time_jump_millis : fsound "time::jump_millis". Proof. fsound_start; unfold time_jump_fn; steps. Qed.
Lemma s_time_jump_micros : fsound "time::jump_micros". Proof. fsound_start; unfold time_jump_fn; steps. Qed.
Lemma s_time_jump_nanos : fsound "time::jump_nanos". Proof. fsound_start; unfold time_jump_fn; steps. Qed.

Lemma s_eth_frame : fsound "eth::frame". Proof. fsound_start; unfold eth_frame_fn; steps. Qed.
Lemma s_eth_from_ip : fsound "eth::from_ip". Proof. fsound_start; unfold eth_from_ip_fn; steps. Qed.

Lemma s_vxlan_session : fsound "vxlan::session". Proof. fsound_start; unfold vxlan_session_fn; steps. Qed.
Lemma s_gre_session : fsound "gre::session". Proof. fsound_start; unfold gre_session_fn; steps. Qed.
Lemma s_erspan1_session : fsound "erspan1::session". Proof. fsound_start; unfold erspan1_session_fn; steps. Qed.
Lemma s_erspan2_session : fsound "erspan2::session". Proof. fsound_start; unfold erspan2_session_fn; steps. Qed.

Lemma omapM_pkt_safe (f : packet -> outcome packet) ps :
  (forall p, safe allowed (f p) pkt_ok) -> safe allowed (omapM f ps) (Forall pkt_ok).
Proof.
  intros H. eapply safe_omapM with (P := fun _ => True); [|intros p _; apply H].
  apply Forall_forall. intros; exact I.
Qed.

Lemma s_vxlan_encap : msound "vxlan::Vxlan" "vxlan::Vxlan.encap".
Proof.
  msound_start. step.
  eapply safe_bind; [apply omapM_pkt_safe; intro; apply vxlan_encap_safe|]. intros out Hout. steps.
Qed.
Lemma s_vxlan_dgram : msound "vxlan::Vxlan" "vxlan::Vxlan.dgram". Proof. msound_start; steps. Qed.
Lemma s_gre_encap : msound "gre::Gre" "gre::Gre.encap". Proof. msound_start; steps. Qed.
Lemma s_erspan1_encap : msound "erspan1::Erspan1" "erspan1::Erspan1.encap".
Proof.
  msound_start. step.
  eapply safe_bind; [apply omapM_pkt_safe; intro; apply erspan1_encap_safe|]. intros out Hout. steps.
Qed.
Lemma s_erspan2_encap : msound "erspan2::Erspan2" "erspan2::Erspan2.encap". Proof. msound_start; steps. Qed.

End LibMisc.
