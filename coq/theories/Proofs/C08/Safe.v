(** C08, execution half: the weakest-precondition calculus used for the library.

    [safe allowed x Q]: the outcome [x] is a value satisfying [Q], or a language-level error, or a
    panic at a site the caller explicitly allows ([allowed := fun _ => False] is "never panics").
    Every lemma is generic in [allowed]; the only lemmas that need an allowed site are the two
    checksum accumulators (Proofs/C08/EzSafe.v). *)
From RS Require Import Base.Bytes Base.Outcome Bind.Types Bind.Binder Bind.BindSpec Pkt.Packet Interp.Val
  Lib.LibBase.
From RS Require Import Proofs.C11.Compat Proofs.C11.Corollaries.
From Coq Require Import Lia.
Open Scope N_scope.

Section Safe.
Variable allowed : string -> Prop.

Definition safe {A} (x : outcome A) (Q : A -> Prop) : Prop :=
  match x with Ok a => Q a | Err _ => True | Panic s => allowed s | OutOfFuel => False end.

Lemma safe_bind {A B} (x : outcome A) (f : A -> outcome B) (P : A -> Prop) (Q : B -> Prop) :
  safe x P -> (forall a, P a -> safe (f a) Q) -> safe (obind x f) Q.
Proof. destruct x as [a|e|s|]; cbn; intros H K; auto. Qed.

Lemma safe_mono {A} (x : outcome A) (P Q : A -> Prop) :
  safe x P -> (forall a, P a -> Q a) -> safe x Q.
Proof. destruct x as [a|e|s|]; cbn; intros H K; auto. Qed.

Lemma safe_assoc {A B C} (x : outcome A) (f : A -> outcome B) (g : B -> outcome C) (Q : C -> Prop) :
  safe (obind x (fun a => obind (f a) g)) Q -> safe (obind (obind x f) g) Q.
Proof. destruct x; exact (fun H => H). Qed.

Lemma safe_ok {A} (a : A) (Q : A -> Prop) : Q a -> safe (Ok a) Q.
Proof. exact (fun H => H). Qed.

Lemma safe_err {A} e (Q : A -> Prop) : safe (Err e) Q.
Proof. exact I. Qed.

Lemma safe_omap {A B} (g : A -> B) (x : outcome A) (P : A -> Prop) (Q : B -> Prop) :
  safe x P -> (forall a, P a -> Q (g a)) -> safe (omap g x) Q.
Proof. intros H K. unfold omap. eapply safe_bind; [exact H|]. intros a Ha. apply K, Ha. Qed.

Lemma safe_omapM {A B} (f : A -> outcome B) (P : A -> Prop) (Q : B -> Prop) (l : list A) :
  Forall P l -> (forall a, P a -> safe (f a) Q) -> safe (omapM f l) (Forall Q).
Proof.
  intros H K. induction H as [|a r Ha Hr IH]; cbn [omapM]; [constructor|].
  eapply safe_bind; [apply K, Ha|]. intros b Hb.
  eapply safe_bind; [exact IH|]. intros bs Hbs. constructor; assumption.
Qed.

End Safe.

Arguments safe allowed {A} x Q.

(* ------------------------------------------------------------------ value kinds *)

Inductive kind := KInt | KBuf | KIp | KSock | KPkt | KGen | KNone | KOther | KOpt (k : kind).

Definition kind_of_type (t : vtype) : kind :=
  match t with
  | TBool | TU8 | TU16 | TU32 | TU64 => KInt
  | TStr => KBuf | TIp4 => KIp | TSock4 => KSock | TPkt => KPkt | TPktGen => KGen
  | TVoid => KNone
  | _ => KOther
  end.

Definition decl_kind (d : argdecl) : kind :=
  match d with
  | Positional t => kind_of_type t
  | Optional (DType t) => KOpt (kind_of_type t)
  | Optional dfl => kind_of_type (valdef_type dfl)
  end.

Definition int_like (v : val) : Prop :=
  match v with VBool _ | VU8 _ | VU16 _ | VU32 _ | VU64 _ => True | _ => False end.
Definition buf_like (v : val) : Prop :=
  match v with VPkt _ | VStr _ | VU8 _ | VU16 _ | VU32 _ | VU64 _ | VIp4 _ => True | _ => False end.
Definition ip_like (v : val) : Prop := match v with VIp4 _ => True | _ => False end.
Definition sock_like (v : val) : Prop := match v with VSock4 _ _ => True | _ => False end.
Definition pkt_like (v : val) : Prop := match v with VPkt _ => True | _ => False end.
Definition gen_like (v : val) : Prop := match v with VPkt _ | VPktGen _ => True | _ => False end.

Fixpoint val_kind (k : kind) (v : val) : Prop :=
  match k with
  | KInt => int_like v | KBuf => buf_like v | KIp => ip_like v | KSock => sock_like v
  | KPkt => pkt_like v | KGen => gen_like v
  | KNone => v = VNil
  | KOther => True
  | KOpt k' => v = VNil \/ val_kind k' v
  end.

Lemma compat_kind t v : compat_spec t (val_type v) = true -> val_kind (kind_of_type t) v.
Proof. destruct t, v; cbn; intros H; try discriminate H; auto. Qed.

Lemma param_kind d v : param_accepts d (val_type v) = true -> val_kind (decl_kind d) v.
Proof.
  destruct d as [t|dfl]; cbn [param_accepts decl_kind]; [apply compat_kind|].
  destruct dfl; cbn [valdef_type]; try apply compat_kind.
  cbn [val_kind]. intros H. apply Bool.orb_true_iff in H. destruct H as [H|H].
  - left. destruct v; try discriminate H. reflexivity.
  - right. apply compat_kind, H.
Qed.

(** what a library body may assume about its arguments (the binder's type check) *)
Fixpoint slots_ok (decls : list (string * argdecl)) (slots : list val) : Prop :=
  match decls, slots with
  | [], [] => True
  | (_, d) :: dr, v :: vr => val_kind (decl_kind d) v /\ slots_ok dr vr
  | _, _ => False
  end.

Definition args_ok (f : funcdef) (slots extra : list val) : Prop :=
  slots_ok (fd_args f) slots /\ Forall (val_kind (kind_of_type (fd_collect f))) extra.

Lemma all_accept_slots_ok : forall decls slots,
  length slots = length decls -> all_accept val val_type decls slots = true -> slots_ok decls slots.
Proof.
  induction decls as [|[x d] dr IH]; intros [|v vr] Hl H; cbn [length] in Hl; try discriminate Hl.
  - exact I.
  - cbn [all_accept snd] in H. apply andb_prop in H. destruct H as [H1 H2].
    cbn [slots_ok]. split; [apply param_kind, H1|]. apply IH; [congruence|exact H2].
Qed.

(** the binder establishes [args_ok] (C11: accepted values are compatible, one slot per parameter) *)
Lemma argvec_args_ok f call slots extra :
  wf_sig f = true ->
  argvec val val_type val_of_valdef f call = Ok (slots, extra) -> args_ok f slots extra.
Proof.
  intros Hwf H.
  destruct (accepted_values_compatible val val_type val_of_valdef f Hwf call slots extra H) as (Hl & Ha & He).
  split; [apply all_accept_slots_ok; assumption|].
  rewrite forallb_forall in He. apply Forall_forall. intros v Hv. apply compat_kind, He, Hv.
Qed.

(* ------------------------------------------------------------------ conversions *)
Section Conv.
Variable allowed : string -> Prop.
Notation safe := (safe allowed).

Lemma conv_int_safe v : int_like v -> safe (conv_int v) (fun _ => True).
Proof. destruct v; cbn; intros H; try contradiction; exact I. Qed.
Lemma conv_u64_safe v : int_like v -> safe (conv_u64 v) (fun _ => True).
Proof. apply conv_int_safe. Qed.
Lemma conv_u32_safe v : int_like v -> safe (conv_u32 v) (fun n => n < 4294967296).
Proof.
  intros H. unfold conv_u32. eapply safe_omap; [apply conv_int_safe, H|]. intros n _. unfold wrap32.
  apply N.mod_lt. discriminate.
Qed.
Lemma conv_u16_safe v : int_like v -> safe (conv_u16 v) (fun n => n < 65536).
Proof.
  intros H. unfold conv_u16. eapply safe_omap; [apply conv_int_safe, H|]. intros n _. unfold wrap16.
  apply N.mod_lt. discriminate.
Qed.
Lemma conv_u8_safe v : int_like v -> safe (conv_u8 v) (fun n => n < 256).
Proof.
  intros H. unfold conv_u8. eapply safe_omap; [apply conv_int_safe, H|]. intros n _. unfold wrap8.
  apply N.mod_lt. discriminate.
Qed.
Lemma conv_bool_safe v : int_like v -> safe (conv_bool v) (fun _ => True).
Proof. destruct v; cbn; intros H; try contradiction; exact I. Qed.
Lemma conv_buf_safe v : buf_like v -> safe (conv_buf v) (fun _ => True).
Proof. destruct v; cbn; intros H; try contradiction; exact I. Qed.
Lemma conv_ip4_safe v : ip_like v -> safe (conv_ip4 v) (fun _ => True).
Proof. destruct v; cbn; intros H; try contradiction; exact I. Qed.
Lemma conv_sock_safe v : sock_like v -> safe (conv_sock v) (fun _ => True).
Proof. destruct v; cbn; intros H; try contradiction; exact I. Qed.
Lemma conv_pkt_safe v : pkt_like v -> safe (conv_pkt v) (fun _ => True).
Proof. destruct v; cbn; intros H; try contradiction; exact I. Qed.
Lemma conv_pktgen_safe v : gen_like v -> safe (conv_pktgen v) (fun _ => True).
Proof. destruct v; cbn; intros H; try contradiction; exact I. Qed.

Lemma conv_opt_safe {A} (c : val -> outcome A) (K : val -> Prop) (Q : A -> Prop) v :
  (v = VNil \/ K v) -> (K v -> safe (c v) Q) ->
  safe (conv_opt c v) (fun o => match o with Some a => Q a | None => True end).
Proof.
  intros H Hc. unfold conv_opt. destruct H as [->|H]; [exact I|].
  destruct v; try exact I; (eapply safe_omap; [apply Hc, H|]; intros r0 Hr0; exact Hr0).
Qed.

Lemma omapM_conv_buf_safe l : Forall buf_like l -> safe (omapM conv_buf l) (fun _ => True).
Proof.
  intros H. eapply safe_mono; [eapply safe_omapM; [exact H|]; intros a Ha; apply conv_buf_safe, Ha|].
  intros; exact I.
Qed.
Lemma join_extra_safe sep l : Forall buf_like l -> safe (join_extra sep l) (fun _ => True).
Proof.
  intros H. unfold join_extra. eapply safe_bind; [apply omapM_conv_buf_safe, H|]. intros; exact I.
Qed.
Lemma omapM_conv_ip4_safe l : Forall ip_like l -> safe (omapM conv_ip4 l) (fun _ => True).
Proof.
  intros H. eapply safe_mono; [eapply safe_omapM; [exact H|]; intros a Ha; apply conv_ip4_safe, Ha|].
  intros; exact I.
Qed.
Lemma omapM_conv_u16_safe l : Forall int_like l -> safe (omapM conv_u16 l) (fun _ => True).
Proof.
  intros H. eapply safe_mono; [eapply safe_omapM; [exact H|]; intros a Ha; apply conv_u16_safe, Ha|].
  intros; exact I.
Qed.

End Conv.
