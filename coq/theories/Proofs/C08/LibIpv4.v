(** C08, execution half: ipv4 -- tcp, udp, icmp, datagram, frag (Lib/Ipv4Lib.v). *)
From RS Require Import Base.Bytes Base.Outcome Bind.Types Pkt.Packet Ez.Tcp Ez.Udp Ez.Icmp Ez.Ip4
  Interp.Val Interp.Eval Lib.LibBase Lib.StdLib Lib.Ipv4Lib.
From RS Require Import Proofs.C08.LibTac.
From RSGen Require Import Catalogue.
Open Scope N_scope.
Open Scope string_scope.

Section LibIpv4.
Variable allowed : string -> Prop.
Variable e : env.
Notation fsound := (fsound allowed e).
Notation msound := (msound allowed e).
Notation safe := (safe allowed).

Lemma s_tcp_flow : fsound "ipv4::tcp::flow". Proof. fsound_start; unfold tcp_flow_new; steps. Qed.
Lemma s_udp_flow : fsound "ipv4::udp::flow". Proof. fsound_start; unfold udp_flow_new; steps. Qed.
Lemma s_udp_hdr : fsound "ipv4::udp::hdr". Proof. fsound_start; unfold udp_hdr_fn; steps. Qed.
Lemma s_icmp_flow : fsound "ipv4::icmp::flow". Proof. fsound_start; unfold icmp_flow_fn; steps. Qed.
Lemma s_ipv4_datagram : fsound "ipv4::datagram". Proof. fsound_start; unfold ipv4_datagram_fn; steps. Qed.
Lemma s_ipv4_frag : fsound "ipv4::frag". Proof. fsound_start; unfold ipv4_frag_fn; steps. Qed.

Lemma s_udp_broadcast : fsound "ipv4::udp::broadcast". Proof. fsound_start; unfold udp_broadcast_fn; steps. Qed.
Lemma s_udp_unicast : fsound "ipv4::udp::unicast". Proof. fsound_start; unfold udp_unicast_fn; steps. Qed.

(* ---- UdpFlow ---- *)
Lemma s_udp_client_dgram : msound "ipv4::udp::UdpFlow" "ipv4::udp::UdpFlow.client_dgram". Proof. msound_start; steps. Qed.
Lemma s_udp_server_dgram : msound "ipv4::udp::UdpFlow" "ipv4::udp::UdpFlow.server_dgram". Proof. msound_start; steps. Qed.
Lemma s_udp_client_raw_dgram : msound "ipv4::udp::UdpFlow" "ipv4::udp::UdpFlow.client_raw_dgram". Proof. msound_start; steps. Qed.
Lemma s_udp_server_raw_dgram : msound "ipv4::udp::UdpFlow" "ipv4::udp::UdpFlow.server_raw_dgram". Proof. msound_start; steps. Qed.

(* ---- Icmp, IpFrag ---- *)
Lemma s_icmp_echo : msound "ipv4::icmp::Icmp" "ipv4::icmp::Icmp.echo". Proof. msound_start; steps. Qed.
Lemma s_icmp_echo_reply : msound "ipv4::icmp::Icmp" "ipv4::icmp::Icmp.echo_reply". Proof. msound_start; steps. Qed.
Lemma s_frag_fragment : msound "ipv4::IpFrag" "ipv4::IpFrag.fragment". Proof. msound_start; steps. Qed.
Lemma s_frag_tail : msound "ipv4::IpFrag" "ipv4::IpFrag.tail". Proof. msound_start; steps. Qed.
Lemma s_frag_datagram : msound "ipv4::IpFrag" "ipv4::IpFrag.datagram". Proof. msound_start; steps. Qed.

(* ---- TcpFlow ---- *)
Local Ltac tcp_m := msound_start; steps.
Lemma s_tcp_open : msound "ipv4::tcp::TcpFlow" "ipv4::tcp::TcpFlow.open". Proof. tcp_m. Qed.
Lemma s_tcp_client_close : msound "ipv4::tcp::TcpFlow" "ipv4::tcp::TcpFlow.client_close". Proof. tcp_m. Qed.
Lemma s_tcp_server_close : msound "ipv4::tcp::TcpFlow" "ipv4::tcp::TcpFlow.server_close". Proof. tcp_m. Qed.
Lemma s_tcp_client_reset : msound "ipv4::tcp::TcpFlow" "ipv4::tcp::TcpFlow.client_reset". Proof. tcp_m. Qed.
Lemma s_tcp_server_reset : msound "ipv4::tcp::TcpFlow" "ipv4::tcp::TcpFlow.server_reset". Proof. tcp_m. Qed.
Lemma s_tcp_client_hole : msound "ipv4::tcp::TcpFlow" "ipv4::tcp::TcpFlow.client_hole". Proof. tcp_m. Qed.
Lemma s_tcp_server_hole : msound "ipv4::tcp::TcpFlow" "ipv4::tcp::TcpFlow.server_hole". Proof. tcp_m. Qed.
Lemma s_tcp_client_hdr : msound "ipv4::tcp::TcpFlow" "ipv4::tcp::TcpFlow.client_hdr". Proof. tcp_m. Qed.
Lemma s_tcp_server_hdr : msound "ipv4::tcp::TcpFlow" "ipv4::tcp::TcpFlow.server_hdr". Proof. tcp_m. Qed.
Lemma s_tcp_client_message : msound "ipv4::tcp::TcpFlow" "ipv4::tcp::TcpFlow.client_message". Proof. tcp_m. Qed.
Lemma s_tcp_server_message : msound "ipv4::tcp::TcpFlow" "ipv4::tcp::TcpFlow.server_message". Proof. tcp_m. Qed.
Lemma s_tcp_client_segment : msound "ipv4::tcp::TcpFlow" "ipv4::tcp::TcpFlow.client_segment". Proof. tcp_m. Qed.
Lemma s_tcp_server_segment : msound "ipv4::tcp::TcpFlow" "ipv4::tcp::TcpFlow.server_segment". Proof. tcp_m. Qed.
Lemma s_tcp_client_raw_segment : msound "ipv4::tcp::TcpFlow" "ipv4::tcp::TcpFlow.client_raw_segment". Proof. tcp_m. Qed.
Lemma s_tcp_server_raw_segment : msound "ipv4::tcp::TcpFlow" "ipv4::tcp::TcpFlow.server_raw_segment". Proof. tcp_m. Qed.
Lemma s_tcp_client_ack : msound "ipv4::tcp::TcpFlow" "ipv4::tcp::TcpFlow.client_ack". Proof. tcp_m. Qed.
Lemma s_tcp_server_ack : msound "ipv4::tcp::TcpFlow" "ipv4::tcp::TcpFlow.server_ack". Proof. tcp_m. Qed.

End LibIpv4.
