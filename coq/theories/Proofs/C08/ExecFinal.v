(** C08, execution half: the interpreter instantiated with the regenerated catalogue.  The symbol
    tables are checked closed by reflection (re-checked whenever gen/Catalogue.v is regenerated). *)
From RS Require Import Base.Bytes Base.Outcome Bind.Types Pkt.Packet Interp.Val Interp.Ast Interp.Eval Interp.Run
  Lib.LibBase Lib.StdLib.
From RS Require Import Proofs.C08.Safe Proofs.C08.LibPost Proofs.C08.LibSound Proofs.C08.Wf Proofs.C08.InterpSound.
From RSGen Require Import Catalogue.
Open Scope string_scope.

Definition is_some {A} (o : option A) : bool := match o with Some _ => true | None => false end.

(** every sub-module named in the module table is itself in the table *)
Definition modules_closed (ms : list (string * list (string * symbol))) : bool :=
  forallb (fun m => forallb (fun s => match snd s with SModule child => is_some (assoc child ms) | _ => true end) (snd m)) ms.
(** the root exists and holds only modules *)
Definition root_ok (ms : list (string * list (string * symbol))) : bool :=
  match assoc EmptyString ms with
  | Some syms => forallb (fun s => match snd s with SModule _ => true | _ => false end) syms
  | None => false
  end.

Lemma table_modules_closed : modules_closed module_table = true. Proof. vm_compute. reflexivity. Qed.
Lemma table_root_ok : root_ok module_table = true. Proof. vm_compute. reflexivity. Qed.

Lemma H_child_table : forall path syms c child,
  assoc path module_table = Some syms -> assoc c syms = Some (SModule child) -> mod_ok module_table child.
Proof.
  intros path syms c child H1 H2. apply assoc_In in H1, H2.
  pose proof table_modules_closed as T. unfold modules_closed in T. rewrite forallb_forall in T.
  specialize (T _ H1). cbn [snd] in T. rewrite forallb_forall in T. specialize (T _ H2). cbn [snd] in T.
  unfold mod_ok. destruct (assoc child module_table) as [s|]; [eauto|discriminate T].
Qed.

Lemma H_root_table : exists syms, assoc EmptyString module_table = Some syms /\
  forall n s, assoc n syms = Some s -> exists path, s = SModule path.
Proof.
  pose proof table_root_ok as T. unfold root_ok in T.
  destruct (assoc EmptyString module_table) as [syms|]; [|discriminate T].
  exists syms. split; [reflexivity|]. intros n s H. apply assoc_In in H.
  rewrite forallb_forall in T. specialize (T _ H). cbn [snd] in T. destruct s; try discriminate T. eauto.
Qed.

Lemma H_class_table : forall o, exists ms, assoc (obj_class o) class_table = Some ms.
Proof. intros o. destruct o; cbn [obj_class]; eexists; vm_compute; reflexivity. Qed.

Notation never := (fun _ : string => False).

(** the state invariant holds initially and is kept by every statement; no statement panics *)
Theorem add_stmts_never_panics files ss p :
  Forall stmt_ok ss -> wf_prog class_table module_table p ->
  match add_stmts catalogue class_table module_table (exec {| env_files := files |}) p ss with
  | ROk _ p' => wf_prog class_table module_table p'
  | RErr _ _ => True
  | RPanic _ _ => False
  end.
Proof.
  intros Hs Hp.
  exact (add_stmts_safe never catalogue class_table module_table (exec {| env_files := files |})
           H_child_table H_root_table H_class_table
           (function_sound never {| env_files := files |}) (method_sound never {| env_files := files |})
           ss p Hs Hp).
Qed.

Theorem exec_never_panics : forall files ss, Forall stmt_ok ss ->
  match run_prog {| env_files := files |} ss with RPanic _ _ => False | _ => True end.
Proof.
  intros files ss Hs. unfold run_prog.
  pose proof (add_stmts_never_panics files ss prog_init Hs (wf_prog_init _ _)) as H.
  destruct (add_stmts _ _ _ _ _ _); auto.
Qed.
