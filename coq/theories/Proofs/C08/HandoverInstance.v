(** C08 [handover_safe], the instance: the scripts read off the current source
    (gen/ExecScripts.v, regenerated on every run) checked against the current signatures
    (gen/Catalogue.v).  Re-evaluated by [vm_compute] whenever either table changes.

    [handover_known_unsafe] lists the functions whose scripts are NOT safe on the current tree
    (defects D13 and D15, see Proofs/C08/HandoverFindings.v); once they are repaired the list is to
    be emptied, which turns [handover_instance] into [handover_all_safe]. *)
From RS Require Import Base.Bytes Base.Outcome Bind.Types Bind.Binder Bind.BindSpec Bind.Handover.
From RS Require Import Proofs.C11.CatalogueWf Proofs.C08.Handover.
From RSGen Require Import Catalogue ExecScripts.
Open Scope string_scope.

(** functions whose scripts are NOT safe on the current tree: none (D13 and D15 were repaired by
    fix: commits; their reverse patches are self-test mutants and make [handover_all_safe] fail) *)
Definition handover_known_unsafe : list string := [].

(** every exec body, read off the current source, takes its arguments safely *)
Definition handover_all_safe : Prop := forallb (entry_safe exec_scripts) catalogue = true.

Lemma handover_all_safe_holds : handover_all_safe.
Proof. vm_compute. reflexivity. Qed.

Lemma handover_instance :
  forallb (fun f => entry_safe exec_scripts f || mem_string (fd_key f) handover_known_unsafe) catalogue = true.
Proof. vm_compute. reflexivity. Qed.

(** every catalogue function outside the known list takes its arguments without panicking, on
    every call the binder accepts and on every path through its body *)
Theorem handover_safe_catalogue :
  forall f m s,
  In f catalogue -> assoc (fd_key f) exec_scripts = Some (m, s) ->
  mem_string (fd_key f) handover_known_unsafe = false ->
  forall (V : Type) (type_of : V -> vtype) (of_valdef : valdef -> V) call slots extra early,
  argvec V type_of of_valdef f call = Ok (slots, extra) ->
  run_script s early (initial_state f m (map type_of slots) (map type_of extra)) = Ok tt.
Proof.
  intros f m s Hin Hs Hk V type_of of_valdef call slots extra early H.
  pose proof handover_instance as Hi. rewrite forallb_forall in Hi. specialize (Hi f Hin).
  rewrite Hk, Bool.orb_false_r in Hi. unfold entry_safe in Hi. rewrite Hs in Hi.
  pose proof catalogue_wf as Hw. rewrite forallb_forall in Hw.
  exact (handover_safe V type_of of_valdef f m s (Hw f Hin) Hi call slots extra early H).
Qed.
