(** C08, execution half: the packet builders (Ez/*.v) never panic.  The checked additions ([cadd]) are
    discharged from [csum_partial_lt] (a partial checksum fits 16 bits whatever the buffer) and from
    the fact that a fresh segment carries at most 2^32-1 payload bytes and one SYN/FIN. *)
From RS Require Import Base.Bytes Base.Outcome Pkt.Csum Pkt.Hdrs Pkt.Packet
  Ez.Tcp Ez.Udp Ez.Icmp Ez.Ip4 Ez.Gre Interp.Val Lib.LibBase Lib.MiscLib.
From RS Require Import Proofs.C02.CsumLemmas Proofs.C08.Safe Proofs.C08.LibPost.
From Coq Require Import Lia.
Open Scope N_scope.

Section Ez.
Variable allowed : string -> Prop.
Notation safe := (safe allowed).

Lemma cadd_safe bound site a b (Q : N -> Prop) :
  (allowed site \/ a + b < bound) -> (a + b < bound -> Q (a + b)) -> safe (cadd bound site a b) Q.
Proof.
  intros H K. unfold cadd. destruct (a + b <? bound) eqn:E.
  - apply K. apply N.ltb_lt, E.
  - cbn. destruct H as [H|H]; [exact H|]. apply N.ltb_lt in H. congruence.
Qed.

(* ---------------- UDP / VXLAN ---------------- *)
Lemma udp_push_ok d b : exists d', udp_push d b = Ok d'.
Proof. unfold udp_push. eexists. reflexivity. Qed.

Lemma udp_push_safe d b : safe (udp_push d b) (fun _ => True).
Proof. exact I. Qed.
Lemma uflow_client_dgram_safe f b : safe (uflow_client_dgram f b) (fun _ => True).
Proof. exact I. Qed.
Lemma uflow_server_dgram_safe f b : safe (uflow_server_dgram f b) (fun _ => True).
Proof. exact I. Qed.

Lemma udp_csum_safe d : safe (udp_csum d) (fun _ => True).
Proof.
  unfold udp_csum.
  set (ph := csum_partial (pseudo_ser _ _ _ _)). set (uh := csum_partial (udp_ser _)). set (pl := csum_partial (ud_payload d)).
  assert (Hph : ph < 65536) by apply csum_partial_lt. assert (Huh : uh < 65536) by apply csum_partial_lt.
  assert (Hpl : pl < 65536) by apply csum_partial_lt.
  eapply safe_bind; [apply cadd_safe with (Q := fun a => a < 131072); [right; unfold two32; lia|intros _; cbv beta; lia]|]. intros a Ha. cbv beta in Ha.
  eapply safe_bind; [apply cadd_safe with (Q := fun _ => True); [right; unfold two32; lia|trivial]|]. intros b _.
  exact I.
Qed.

Lemma vxlan_encap_safe f b : safe (vxlan_encap f b) pkt_ok.
Proof. unfold vxlan_encap, udp_push. cbn [obind safe]. apply pkt_of_body_ok. Qed.

Lemma uflow_client_dgram_ok f b : exists d, uflow_client_dgram f b = Ok d.
Proof. apply udp_push_ok. Qed.
Lemma uflow_server_dgram_ok f b : exists d, uflow_server_dgram f b = Ok d.
Proof. apply udp_push_ok. Qed.

(* ---------------- GRE / ERSPAN ---------------- *)
Lemma gre_new_ok s d fl pr raw : exists g, gre_new s d fl pr raw = Ok g.
Proof. unfold gre_new. destruct (negb _); eexists; reflexivity. Qed.

Lemma gre_flow_encap_safe f b : safe (gre_flow_encap f b) (fun r => pkt_ok (snd r)).
Proof.
  unfold gre_flow_encap. destruct (gre_new_ok (gl_cl f) (gl_sv f) (gl_flags f) (gl_ethertype f) (gl_raw f)) as [g ->].
  cbn [obind gre_push safe snd]. apply pkt_of_body_ok.
Qed.
Lemma gre_encap_all_safe : forall ps f, safe (gre_encap_all f ps) (fun r => Forall pkt_ok (snd r)).
Proof.
  induction ps as [|p r IH]; intros f; cbn [gre_encap_all]; [constructor|].
  eapply safe_bind; [apply gre_flow_encap_safe|]. intros [f1 q] Hq.
  eapply safe_bind; [apply IH|]. intros [f2 qs] Hqs. cbn [safe snd] in *. constructor; assumption.
Qed.

Lemma erspan1_encap_safe f b : safe (erspan1_encap f b) pkt_ok.
Proof.
  unfold erspan1_encap. destruct (gre_new_ok (e1_cl f) (e1_sv f) gre_flags_default ETH_ERSPAN_1_2 (e1_raw f)) as [g ->].
  cbn [obind gre_push safe]. apply pkt_of_body_ok.
Qed.

Lemma erspan2_encap_safe f b ix : safe (erspan2_encap f b ix) (fun r => pkt_ok (snd r)).
Proof.
  unfold erspan2_encap.
  destruct (gre_new_ok (e2_cl f) (e2_sv f) (gre_flags_seq gre_flags_default true) ETH_ERSPAN_1_2 (e2_raw f)) as [g ->].
  cbn [obind gre_push safe snd]. apply pkt_of_body_ok.
Qed.
Lemma erspan2_encap_all_safe ix : forall ps f, safe (erspan2_encap_all f ix ps) (fun r => Forall pkt_ok (snd r)).
Proof.
  induction ps as [|p r IH]; intros f; cbn [erspan2_encap_all]; [constructor|].
  eapply safe_bind; [apply erspan2_encap_safe|]. intros [f1 q] Hq.
  eapply safe_bind; [apply IH|]. intros [f2 qs] Hqs. cbn [safe snd] in *. constructor; assumption.
Qed.

(* ---------------- ICMP / IP fragments ---------------- *)
Lemma icmp_echo_safe f b : safe (icmp_echo f b) (fun r => pkt_ok (snd r)).
Proof. unfold icmp_echo, icmp_dgram. cbn [obind safe snd]. apply pkt_of_body_ok. Qed.
Lemma icmp_echo_reply_safe f b : safe (icmp_echo_reply f b) (fun r => pkt_ok (snd r)).
Proof. unfold icmp_echo_reply, icmp_dgram. cbn [obind safe snd]. apply pkt_of_body_ok. Qed.

Lemma ipdgram_safe h p raw off mf : safe (ipdgram h p raw off mf) pkt_ok.
Proof. unfold ipdgram. cbn [safe]. apply pkt_of_body_ok. Qed.
Lemma frag_fragment_safe f o l r : safe (frag_fragment f o l r) pkt_ok.
Proof. unfold frag_fragment. apply ipdgram_safe. Qed.
Lemma frag_tail_safe f o r : safe (frag_tail f o r) pkt_ok.
Proof. unfold frag_tail. apply frag_fragment_safe. Qed.
Lemma frag_datagram_safe f r : safe (frag_datagram f r) pkt_ok.
Proof. unfold frag_datagram. apply ipdgram_safe. Qed.

(* ---------------- TCP ---------------- *)
Definition seg_small (s : tcp_seg) : Prop := ts_data_len s + ts_extra s < two32.

Lemma seg_seq_consumed_safe s : seg_small s -> safe (seg_seq_consumed s) (fun n => n < two32).
Proof. intros H. unfold seg_seq_consumed. apply cadd_safe; [right; exact H|auto]. Qed.

Lemma seg_tcp_csum_safe s : safe (seg_tcp_csum s) (fun _ => True).
Proof.
  unfold seg_tcp_csum.
  set (ph := csum_partial (pseudo_ser _ _ _ _)). set (th := csum_partial (tcp_ser _)). set (pl := csum_partial (takeN _ _)).
  assert (Hph : ph < 65536) by apply csum_partial_lt. assert (Hth : th < 65536) by apply csum_partial_lt.
  assert (Hpl : pl < 65536) by apply csum_partial_lt.
  eapply safe_bind; [apply cadd_safe with (Q := fun a => a < 131072); [right; unfold two32; lia|intros _; cbv beta; lia]|]. intros a Ha. cbv beta in Ha.
  eapply safe_bind; [apply cadd_safe with (Q := fun _ => True); [right; unfold two32; lia|trivial]|]. intros b _.
  exact I.
Qed.

Lemma flow_cl_tx_safe f s : seg_small s -> safe (flow_cl_tx f s) (fun r => pkt_ok (snd r)).
Proof.
  intros H. unfold flow_cl_tx. eapply safe_bind; [apply seg_seq_consumed_safe, H|]. intros n _.
  eapply safe_bind; [apply seg_tcp_csum_safe|]. intros s' _. apply pkt_of_body_ok.
Qed.
Lemma flow_sv_tx_safe f s : seg_small s -> safe (flow_sv_tx f s) (fun r => pkt_ok (snd r)).
Proof.
  intros H. unfold flow_sv_tx. eapply safe_bind; [apply seg_seq_consumed_safe, H|]. intros n _.
  eapply safe_bind; [apply seg_tcp_csum_safe|]. intros s' _. apply pkt_of_body_ok.
Qed.

Local Ltac small := unfold seg_small, two32; cbn; lia.

Lemma small_syn_cl f : seg_small (seg_syn (flow_cl f)). Proof. small. Qed.
Lemma small_syn_ack_sv f : seg_small (seg_syn_ack (flow_sv f)). Proof. small. Qed.
Lemma small_ack_cl f : seg_small (seg_ack (flow_cl f)). Proof. small. Qed.
Lemma small_ack_sv f : seg_small (seg_ack (flow_sv f)). Proof. small. Qed.
Lemma small_fin_ack_cl f : seg_small (seg_fin_ack (flow_cl f)). Proof. small. Qed.
Lemma small_fin_ack_sv f : seg_small (seg_fin_ack (flow_sv f)). Proof. small. Qed.
Lemma small_push_cl f : seg_small (seg_push (flow_cl f)). Proof. small. Qed.
Lemma small_push_sv f : seg_small (seg_push (flow_sv f)). Proof. small. Qed.

Lemma seg_append_data_fresh s b :
  ts_data_len s = 0 -> ts_extra s = 0 -> safe (seg_append_data s b) seg_small.
Proof.
  intros Hd He. unfold seg_append_data. rewrite Hd.
  eapply safe_bind.
  - apply cadd_safe with (Q := fun n => n < two32); [right|auto].
    unfold wrap32, two32. pose proof (N.mod_lt (len b) 4294967296). lia.
  - intros dl Hdl. unfold seg_update_tot_len, seg_small. cbn [safe ts_with_ip ts_data_len ts_extra].
    rewrite He. unfold two32 in *. lia.
Qed.

Lemma flow_cl_seg_safe f b off : safe (flow_cl_seg f b off) seg_small.
Proof. unfold flow_cl_seg, seg_push_bytes. apply seg_append_data_fresh; reflexivity. Qed.
Lemma flow_sv_seg_safe f b off : safe (flow_sv_seg f b off) seg_small.
Proof. unfold flow_sv_seg, seg_push_bytes. apply seg_append_data_fresh; reflexivity. Qed.

Local Ltac three tx1 s1 tx2 s2 tx3 s3 :=
  eapply safe_bind; [apply tx1, s1|]; intros [f1 p1] H1;
  eapply safe_bind; [apply tx2, s2|]; intros [f2 p2] H2;
  eapply safe_bind; [apply tx3, s3|]; intros [f3 p3] H3;
  cbn [safe snd] in *; repeat constructor; assumption.

Lemma flow_open_safe f : safe (flow_open f) (fun r => Forall pkt_ok (snd r)).
Proof. unfold flow_open. three flow_cl_tx_safe small_syn_cl flow_sv_tx_safe small_syn_ack_sv flow_cl_tx_safe small_ack_cl. Qed.
Lemma flow_client_close_safe f : safe (flow_client_close f) (fun r => Forall pkt_ok (snd r)).
Proof. unfold flow_client_close. three flow_cl_tx_safe small_fin_ack_cl flow_sv_tx_safe small_fin_ack_sv flow_cl_tx_safe small_ack_cl. Qed.
Lemma flow_server_close_safe f : safe (flow_server_close f) (fun r => Forall pkt_ok (snd r)).
Proof. unfold flow_server_close. three flow_sv_tx_safe small_fin_ack_sv flow_cl_tx_safe small_fin_ack_cl flow_sv_tx_safe small_ack_sv. Qed.

Lemma flow_client_reset_safe f : safe (flow_client_reset f) pkt_ok.
Proof. unfold flow_client_reset. eapply safe_bind; [apply seg_tcp_csum_safe|]. intros s _. apply pkt_of_body_ok. Qed.
Lemma flow_server_reset_safe f : safe (flow_server_reset f) pkt_ok.
Proof. unfold flow_server_reset. eapply safe_bind; [apply seg_tcp_csum_safe|]. intros s _. apply pkt_of_body_ok. Qed.

Lemma flow_client_message_safe f b sa off : safe (flow_client_message f b sa off) (fun r => Forall pkt_ok (snd r)).
Proof.
  unfold flow_client_message. eapply safe_bind; [apply flow_cl_seg_safe|]. intros s Hs.
  eapply safe_bind; [apply flow_cl_tx_safe, Hs|]. intros [f1 p1] H1. destruct sa.
  - eapply safe_bind; [apply flow_sv_tx_safe, small_ack_sv|]. intros [f2 p2] H2.
    cbn [safe snd] in *. repeat constructor; assumption.
  - cbn [safe snd] in *. repeat constructor; assumption.
Qed.
Lemma flow_server_message_safe f b sa off : safe (flow_server_message f b sa off) (fun r => Forall pkt_ok (snd r)).
Proof.
  unfold flow_server_message. eapply safe_bind; [apply flow_sv_seg_safe|]. intros s Hs.
  eapply safe_bind; [apply flow_sv_tx_safe, Hs|]. intros [f1 p1] H1. destruct sa.
  - eapply safe_bind; [apply flow_cl_tx_safe, small_ack_cl|]. intros [f2 p2] H2.
    cbn [safe snd] in *. repeat constructor; assumption.
  - cbn [safe snd] in *. repeat constructor; assumption.
Qed.

Lemma flow_client_data_segment_safe f b : safe (flow_client_data_segment f b) (fun _ => True).
Proof.
  unfold flow_client_data_segment. eapply safe_bind; [apply flow_cl_seg_safe|]. intros s Hs.
  eapply safe_bind; [apply seg_seq_consumed_safe, Hs|]. intros n _.
  eapply safe_bind; [apply seg_tcp_csum_safe|]. intros s' _. exact I.
Qed.
Lemma flow_server_data_segment_safe f b : safe (flow_server_data_segment f b) (fun _ => True).
Proof.
  unfold flow_server_data_segment. eapply safe_bind; [apply flow_sv_seg_safe|]. intros s Hs.
  eapply safe_bind; [apply seg_seq_consumed_safe, Hs|]. intros n _.
  eapply safe_bind; [apply seg_tcp_csum_safe|]. intros s' _. exact I.
Qed.

Lemma flow_client_ack_safe f : safe (flow_client_ack f) (fun _ => True).
Proof. apply seg_tcp_csum_safe. Qed.
Lemma flow_server_ack_safe f : safe (flow_server_ack f) (fun _ => True).
Proof. apply seg_tcp_csum_safe. Qed.

Lemma flow_client_hdr_safe f d : d < two32 -> safe (flow_client_hdr f d) (fun _ => True).
Proof.
  intros Hd. unfold flow_client_hdr, seg_seq_consumed.
  change (ts_data_len (seg_push (flow_cl f))) with 0. change (ts_extra (seg_push (flow_cl f))) with 0.
  change (cadd two32 "tcp4.rs seq_consumed overflow" 0 0) with (@Ok N 0). cbn [obind].
  eapply safe_bind; [apply cadd_safe with (Q := fun _ => True); [right; lia|trivial]|]. intros; exact I.
Qed.
Lemma flow_server_hdr_safe f d : d < two32 -> safe (flow_server_hdr f d) (fun _ => True).
Proof.
  intros Hd. unfold flow_server_hdr, seg_seq_consumed.
  change (ts_data_len (seg_push (flow_sv f))) with 0. change (ts_extra (seg_push (flow_sv f))) with 0.
  change (cadd two32 "tcp4.rs seq_consumed overflow" 0 0) with (@Ok N 0). cbn [obind].
  eapply safe_bind; [apply cadd_safe with (Q := fun _ => True); [right; lia|trivial]|]. intros; exact I.
Qed.

End Ez.
