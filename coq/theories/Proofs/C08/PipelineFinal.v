(** C08: the whole pipeline never panics.  The front end (lexer, parser, glue) cannot, and it only
    hands the interpreter statements that are [stmt_ok], in a state that is [wf_prog]. *)
From RS Require Import Base.Bytes Base.Outcome Base.Utf8 Bind.Types Pkt.Packet Pkt.Pcap
  Lex.Tokens Lex.Scanner Parse.Automaton Interp.Val Interp.Ast Interp.Eval Interp.Cli Interp.Run
  Lib.LibBase Lib.StdLib.
From RS Require Import Proofs.C10.Final Proofs.C09.Invariant Proofs.C08.FrontEnd.
From RS Require Import Proofs.C08.Wf Proofs.C08.ParserPlain Proofs.C08.ExecFinal.
From RSGen Require Import Catalogue.
Open Scope N_scope.

Section Pipeline.
Variable files : list (bytes * bytes).
Notation ex := (exec {| env_files := files |}).
Notation wf_prog := (wf_prog class_table module_table).

Lemma run_stmts_never_panics p ss k s :
  Forall stmt_ok ss -> wf_prog p ->
  run_stmts catalogue class_table module_table ex p ss k = CliPanic s ->
  exists p', wf_prog p' /\ k p' = CliPanic s.
Proof.
  intros Hs Hp. unfold run_stmts. pose proof (add_stmts_never_panics files ss p Hs Hp) as A.
  destruct (add_stmts catalogue class_table module_table ex p ss) as [u p'|e p'|s' p'].
  - intros H. exists p'. split; assumption.
  - discriminate.
  - contradiction.
Qed.

Lemma feed_line_plain : forall ts ps, pinv ps -> pplain ps -> Forall (fun t => tok_ok t = true) ts ->
  match feed_line ps ts with inl (Ok ps') => pplain ps' | _ => True end.
Proof.
  induction ts as [|t r IH]; intros ps Hp Hpl Ht; cbn [feed_line]; [exact Hpl|].
  inversion Ht as [|? ? H1 H2]; subst.
  pose proof (feed_inv ps t Hp H1) as F. pose proof (feed_plain ps t Hp Hpl H1) as G.
  destruct (feed ps t) as [ps'|e|s|]; cbn in F; try exact I.
  apply IH; assumption.
Qed.

Lemma process_lines_never_panics : forall lines lno lx ps p s, pinv ps -> pplain ps -> wf_prog p ->
  process_lines catalogue class_table module_table ex lno lines lx ps p <> CliPanic s.
Proof.
  induction lines as [|line rest IH]; intros lno lx ps p s Hp Hpl Hw H; cbn [process_lines] in H.
  - assert (Te : tok_ok eof_token = true) by reflexivity.
    pose proof (feed_inv ps eof_token Hp Te) as F. pose proof (feed_plain ps eof_token Hp Hpl Te) as G.
    destruct (feed ps eof_token) as [ps'|e|s'|]; cbn in F; try contradiction; try discriminate.
    destruct (get_results_plain ps' G) as [Gs _].
    destruct (get_results ps') as [ss ps'']. cbn [fst] in Gs.
    apply run_stmts_never_panics in H; [|exact Gs|exact Hw]. destruct H as (p' & _ & H). discriminate.
  - destruct (utf8_valid line) eqn:Hv; cbn [negb] in H; [|discriminate].
    destruct (lex_line lx lno line) as [lx' toks] eqn:L.
    pose proof (lex_total_final lx lno line Hv) as T. rewrite L in T. cbn [snd] in T.
    destruct T as [[ts T]|T]; subst toks; [|discriminate].
    pose proof (lexer_tokens_ok lx lno line lx' ts Hv L) as Hts.
    pose proof (feed_line_post ts ps Hp Hts) as F. pose proof (feed_line_plain ts ps Hp Hpl Hts) as G.
    destruct (feed_line ps ts) as [[ps'|e|s'|]|[e l]]; try contradiction; try discriminate.
    destruct (get_results_plain ps' G) as [Gs Gp].
    pose proof (pinv_get_results ps' F) as Q.
    destruct (get_results ps') as [ss ps''] eqn:Gr. cbn [fst snd] in *.
    apply run_stmts_never_panics in H; [|exact Gs|exact Hw]. destruct H as (p' & Hw' & H).
    exact (IH _ _ _ _ _ Q Gp Hw' H).
Qed.

Theorem pipeline_never_panics_aux : forall src s, run_src files src <> RunPanic s.
Proof.
  intros src s H. unfold run_src in H.
  destruct (process_file catalogue class_table module_table ex src) as [p|e l p|s'] eqn:E; try discriminate.
  unfold process_file in E.
  exact (process_lines_never_panics _ _ _ _ _ s' pinv_init pplain_init (wf_prog_init _ _) E).
Qed.

End Pipeline.

Theorem pipeline_never_panics : forall files src s, run_src files src <> RunPanic s.
Proof. exact pipeline_never_panics_aux. Qed.
