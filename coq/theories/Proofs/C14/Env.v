(** C14 (a)(b) -- the environment discipline: single assignment, use only after definition, imports. *)
From RS Require Import Base.Bytes Base.Outcome Bind.Types Bind.Binder Pkt.Packet Pkt.Pcap
  Interp.Val Interp.Ast Interp.Eval Lib.LibBase Proofs.C14.Basics.
Open Scope N_scope.

Lemma assoc_none_notin {A} x (l : list (string * A)) : assoc x l = None <-> ~ In x (map fst l).
Proof.
  induction l as [|[k v] r IH]; cbn [assoc map fst In].
  - split; [intros _ H; exact H|reflexivity].
  - destruct (String.eqb x k) eqn:E.
    + apply String.eqb_eq in E. subst k. split; [discriminate|]. intros H. exfalso. apply H. left. reflexivity.
    + apply String.eqb_neq in E. rewrite IH. split.
      * intros H [H1|H1]; [apply E; symmetry; exact H1|exact (H H1)].
      * intros H H1. apply H. right. exact H1.
Qed.

Lemma assoc_some_in {A} x (l : list (string * A)) v : assoc x l = Some v -> In x (map fst l).
Proof.
  intros H. destruct (in_dec string_dec x (map fst l)) as [I|N]; [exact I|].
  apply assoc_none_notin in N. congruence.
Qed.

Lemma assoc_cons_other {A} x y (w : A) l : assoc y l = None -> forall v, assoc x l = Some v -> assoc x ((y, w) :: l) = Some v.
Proof.
  intros Hy v Hx. cbn [assoc]. destruct (String.eqb x y) eqn:E; [|exact Hx].
  apply String.eqb_eq in E. subst y. congruence.
Qed.

Lemma assoc_app_keep {A} x (d l : list (string * A)) v :
  NoDup (map fst (d ++ l)) -> assoc x l = Some v -> assoc x (d ++ l) = Some v.
Proof.
  induction d as [|[k w] d IH]; cbn [app map fst]; intros ND H; [exact H|].
  inversion ND as [|? ? Hk ND']; subst. cbn [assoc].
  destruct (String.eqb x k) eqn:E; [|apply IH; assumption].
  apply String.eqb_eq in E. subst k. exfalso. apply Hk. rewrite map_app. apply in_or_app. right.
  eapply assoc_some_in. exact H.
Qed.

Section Interp.
Variable functions : list funcdef.
Variable classes : list (string * list (string * string)).
Variable modules : list (string * list (string * symbol)).
Variable exec : string -> option nat -> list val -> list val -> heap -> option libres.

Notation eval := (eval functions classes modules exec).
Notation call := (call functions exec).
Notation add_stmt := (add_stmt functions classes modules exec).
Notation add_stmts := (add_stmts functions classes modules exec).
Notation eval_args_spec := (eval_args_spec functions classes modules exec).

(** a program state with one more register *)
Definition bind_reg (p : prog) (x : string) (v : val) : prog :=
  {| p_now := p_now p; p_regs := (x, v) :: p_regs p; p_imports := p_imports p; p_heap := p_heap p;
     p_out := p_out p; p_loc := p_loc p; p_warnings := p_warnings p; p_trace := p_trace p |}.
Definition bind_import (p : prog) (m path : string) : prog :=
  {| p_now := p_now p; p_regs := p_regs p; p_imports := (m, path) :: p_imports p; p_heap := p_heap p;
     p_out := p_out p; p_loc := p_loc p; p_warnings := p_warnings p; p_trace := p_trace p |}.

(** ** (a) single assignment *)

(** a second [let] of a bound name is rejected; the state is the old one (only the location moves to the
    statement): no register, heap, output, clock, warning or trace changes, so the right-hand side was
    not evaluated *)
Theorem rebind_rejected p l x rv v :
  assoc x (p_regs p) = Some v ->
  add_stmt p (SAssign l x rv) = RErr (EMultipleAssign x) (set_loc p l).
Proof. intros H. cbn [Eval.add_stmt set_loc p_regs]. rewrite H. reflexivity. Qed.

(** a [let] of a fresh name is: evaluate the right-hand side, then add exactly that binding *)
Theorem assign_fresh p l x rv :
  assoc x (p_regs p) = None ->
  add_stmt p (SAssign l x rv) = rbind (eval (set_loc p l) rv) (fun v p1 => ROk tt (bind_reg p1 x v)).
Proof. intros H. cbn [Eval.add_stmt set_loc p_regs]. rewrite H. reflexivity. Qed.

(** a successful [let]: the name was fresh, the registers gain exactly this one binding at the front,
    everything else in the register file is as before *)
Theorem assign_ok_inv p l x rv p' :
  add_stmt p (SAssign l x rv) = ROk tt p' ->
  assoc x (p_regs p) = None
  /\ exists v p1, eval (set_loc p l) rv = ROk v p1 /\ p' = bind_reg p1 x v /\ p_regs p' = (x, v) :: p_regs p.
Proof.
  intros H. destruct (assoc x (p_regs p)) as [w|] eqn:E.
  - rewrite (rebind_rejected p l x rv w E) in H. discriminate.
  - split; [reflexivity|]. rewrite (assign_fresh p l x rv E) in H.
    apply rbind_ok in H. destruct H as (v & p1 & Hv & Hp). injection Hp as Hp. subst p'.
    exists v, p1. repeat split; try assumption. cbn [bind_reg p_regs].
    pose proof (eval_ok_frame _ _ _ _ _ _ _ _ Hv) as F. destruct F as (_ & F & _).
    rewrite F. reflexivity.
Qed.

(** a [let] whose right-hand side fails binds nothing *)
Theorem assign_fail_binds_nothing p l x rv :
  res_is_ok (add_stmt p (SAssign l x rv)) = false ->
  p_regs (res_prog (add_stmt p (SAssign l x rv))) = p_regs p.
Proof.
  destruct (assoc x (p_regs p)) as [w|] eqn:E.
  - rewrite (rebind_rejected p l x rv w E). reflexivity.
  - rewrite (assign_fresh p l x rv E). pose proof (eval_regs functions classes modules exec (set_loc p l) rv) as R.
    destruct (eval (set_loc p l) rv) as [v p1|e p1|s p1]; cbn [rbind res_is_ok res_prog] in *; [discriminate|..];
      intros _; exact R.
Qed.

(** *** what one statement can do to registers and imports *)
Lemma update_time_keeps p ns : let q := res_prog (update_time p ns) in
  p_regs q = p_regs p /\ p_imports q = p_imports p /\ p_heap q = p_heap p /\ p_trace q = p_trace p /\ p_loc q = p_loc p
  /\ p_warnings q = p_warnings p /\ p_out q = p_out p.
Proof. unfold update_time. destruct (p_now p + ns <? two64); cbn; repeat split. Qed.

Definition keeps (p q : prog) : Prop :=
  p_regs q = p_regs p /\ p_imports q = p_imports p /\ p_heap q = p_heap p /\ p_trace q = p_trace p /\ p_loc q = p_loc p.

Lemma keeps_refl p : keeps p p. Proof. repeat split. Qed.
Lemma keeps_trans p q r : keeps p q -> keeps q r -> keeps p r.
Proof. unfold keeps. intros (A1&A2&A3&A4&A5) (B1&B2&B3&B4&B5). repeat split; congruence. Qed.

Lemma keeps_rbind {A B} p (x : res A) (f : A -> prog -> res B) :
  keeps p (res_prog x) -> (forall a p1, x = ROk a p1 -> keeps p1 (res_prog (f a p1))) ->
  keeps p (res_prog (rbind x f)).
Proof.
  intros H1 H2. destruct x as [a p1|e p1|s p1]; cbn [rbind res_prog] in *; try exact H1.
  eapply keeps_trans; [exact H1|]. apply H2. reflexivity.
Qed.

Lemma update_time_keeps' p ns : keeps p (res_prog (update_time p ns)).
Proof. unfold update_time. destruct (p_now p + ns <? two64); cbn; repeat split. Qed.

Lemma advance_all_keeps ks : forall p, keeps p (res_prog (advance_all p ks)).
Proof.
  induction ks as [|k r IH]; intros p; cbn [advance_all]; [apply keeps_refl|].
  apply keeps_rbind; [apply update_time_keeps'|]. intros _ p1 _. apply IH.
Qed.

Lemma write_all_keeps ks : forall p, keeps p (res_prog (write_all p ks)).
Proof.
  induction ks as [|k r IH]; intros p; cbn [write_all]; [apply keeps_refl|].
  apply keeps_rbind; [rewrite res_prog_lift; apply keeps_refl|]. intros [b x] p1 _.
  eapply keeps_trans; [|apply IH]. repeat split.
Qed.

(** emitting a value touches neither registers, imports, heap nor the library-call trace *)
Theorem emit_val_keeps p v : keeps p (res_prog (emit_val p v)).
Proof.
  destruct v; cbn [emit_val res_prog]; try apply keeps_refl; try (repeat split; fail).
  - apply keeps_rbind; [apply update_time_keeps'|]. intros _ p1 _. apply write_all_keeps.
  - apply keeps_rbind; [apply advance_all_keeps|]. intros _ p1 _. apply write_all_keeps.
  - apply update_time_keeps'.
Qed.

Lemma stmt_regs p s :
  p_regs (res_prog (add_stmt p s)) = p_regs p
  \/ exists l x rv v, s = SAssign l x rv /\ assoc x (p_regs p) = None
       /\ res_is_ok (add_stmt p s) = true /\ p_regs (res_prog (add_stmt p s)) = (x, v) :: p_regs p.
Proof.
  destruct s as [l m|l x rv|e].
  - left. cbn [Eval.add_stmt]. cbn [set_loc p_imports].
    destruct (assoc m (p_imports p)); [reflexivity|].
    destruct (assoc EmptyString modules) as [syms|]; [|reflexivity].
    destruct (assoc m syms) as [[]|]; reflexivity.
  - destruct (add_stmt p (SAssign l x rv)) as [[] p'|e p'|s p'] eqn:E.
    + right. apply assign_ok_inv in E. destruct E as (Hx & v & p1 & Hv & Hp & Hr).
      exists l, x, rv, v. repeat split; assumption.
    + left. pose proof (assign_fail_binds_nothing p l x rv) as F. rewrite E in F. apply F. reflexivity.
    + left. pose proof (assign_fail_binds_nothing p l x rv) as F. rewrite E in F. apply F. reflexivity.
  - left. cbn [Eval.add_stmt].
    pose proof (eval_regs functions classes modules exec p e) as R.
    destruct (eval p e) as [v p1|er p1|s p1]; cbn [rbind res_prog] in *; try exact R.
    rewrite <- R. apply (emit_val_keeps p1 v).
Qed.

Lemma add_stmts_app p a : forall b,
  add_stmts p (a ++ b) = rbind (add_stmts p a) (fun _ p' => add_stmts p' b).
Proof.
  revert p. induction a as [|s a IH]; intros p b; cbn [app Eval.add_stmts rbind]; [reflexivity|].
  destruct (add_stmt p s) as [[] p1|e p1|s1 p1]; cbn [rbind]; [apply IH|reflexivity|reflexivity].
Qed.

(** *** over histories *)

(** later statements only ever add bindings in front of the existing ones, and never a name twice *)
Theorem regs_grow ss : forall p,
  NoDup (map fst (p_regs p)) ->
  exists d, p_regs (res_prog (add_stmts p ss)) = d ++ p_regs p
            /\ NoDup (map fst (d ++ p_regs p)).
Proof.
  induction ss as [|s ss IH]; intros p ND; cbn [Eval.add_stmts].
  - exists []. split; [reflexivity|exact ND].
  - destruct (stmt_regs p s) as [R|(l & x & rv & v & Hs & Hx & Hok & R)].
    + destruct (add_stmt p s) as [[] p1|e p1|s1 p1]; cbn [rbind res_prog] in *.
      * rewrite <- R in ND. destruct (IH p1 ND) as (d & Hd & ND'). exists d. rewrite <- R. split; assumption.
      * exists []. split; [exact R|exact ND].
      * exists []. split; [exact R|exact ND].
    + destruct (add_stmt p s) as [[] p1|e p1|s1 p1]; cbn [rbind res_prog res_is_ok] in *; try discriminate.
      assert (ND1 : NoDup (map fst (p_regs p1))).
      { rewrite R. cbn [map fst]. constructor; [|exact ND]. apply assoc_none_notin. exact Hx. }
      destruct (IH p1 ND1) as (d & Hd & ND'). exists (d ++ [(x, v)]).
      rewrite <- app_assoc. cbn [app]. rewrite <- R. split; assumption.
Qed.

(** single assignment over whole histories: no name is ever bound twice *)
Corollary regs_nodup ss p :
  NoDup (map fst (p_regs p)) -> NoDup (map fst (p_regs (res_prog (add_stmts p ss)))).
Proof. intros ND. destruct (regs_grow ss p ND) as (d & Hd & ND'). rewrite Hd. exact ND'. Qed.

(** the environment is monotone: a binding, once made, is never changed or removed *)
Corollary binding_permanent ss p x v :
  NoDup (map fst (p_regs p)) ->
  assoc x (p_regs p) = Some v -> assoc x (p_regs (res_prog (add_stmts p ss))) = Some v.
Proof.
  intros ND H. destruct (regs_grow ss p ND) as (d & Hd & ND'). rewrite Hd. apply assoc_app_keep; assumption.
Qed.

Corollary reachable_regs_nodup ss : NoDup (map fst (p_regs (res_prog (add_stmts prog_init ss)))).
Proof. apply regs_nodup. cbn. constructor. Qed.


(** ** (b) use only after definition *)

(** a reference to, a member of, or a call through a name that is not bound is a name error, raised
    before anything else happens (no argument is evaluated) *)
Theorem unbound_ref_is_name_error p l x more :
  assoc x (p_regs p) = None -> eval p (ERef l [] (x :: more)) = RErr EName (set_loc p l).
Proof.
  intros H. cbn [Eval.eval Eval.eval_obj_ref]. unfold eval_local_ref. cbn [set_loc p_regs]. rewrite H.
  destruct (Nat.ltb 2 (length (x :: more))); reflexivity.
Qed.

Theorem unbound_call_is_name_error p l x more args :
  assoc x (p_regs p) = None -> eval p (ECall l [] (x :: more) args) = RErr EName (set_loc p l).
Proof.
  intros H. rewrite eval_ECall. unfold eval_call_spec. cbn [Eval.eval_obj_ref]. unfold eval_local_ref.
  cbn [set_loc p_regs]. rewrite H. destruct (Nat.ltb 2 (length (x :: more))); reflexivity.
Qed.

(** the same for a module that has not been imported *)
Theorem unimported_ref_is_name_error p l m ms cs :
  assoc m (p_imports p) = None -> eval p (ERef l (m :: ms) cs) = RErr EName (set_loc p l).
Proof.
  intros H. cbn [Eval.eval Eval.eval_obj_ref]. unfold eval_extern_ref. cbn [set_loc p_imports]. rewrite H. reflexivity.
Qed.

Theorem unimported_call_is_name_error p l m ms cs args :
  assoc m (p_imports p) = None -> eval p (ECall l (m :: ms) cs args) = RErr EName (set_loc p l).
Proof.
  intros H. rewrite eval_ECall. unfold eval_call_spec. cbn [Eval.eval_obj_ref]. unfold eval_extern_ref.
  cbn [set_loc p_imports]. rewrite H. reflexivity.
Qed.

(** importing: unknown module, first import, repeated import *)
Theorem import_unknown p l m syms :
  assoc m (p_imports p) = None -> assoc EmptyString modules = Some syms -> assoc m syms = None ->
  add_stmt p (SImport l m) = RErr (EImport m) (set_loc p l).
Proof. intros H1 H2 H3. cbn [Eval.add_stmt set_loc p_imports]. rewrite H1, H2, H3. reflexivity. Qed.

Theorem import_first p l m syms path :
  assoc m (p_imports p) = None -> assoc EmptyString modules = Some syms -> assoc m syms = Some (SModule path) ->
  add_stmt p (SImport l m) = ROk tt (bind_import (set_loc p l) m path).
Proof. intros H1 H2 H3. cbn [Eval.add_stmt set_loc p_imports]. rewrite H1, H2, H3. reflexivity. Qed.

(** re-importing changes nothing but the current location *)
Theorem import_again p l m path :
  assoc m (p_imports p) = Some path -> add_stmt p (SImport l m) = ROk tt (set_loc p l).
Proof. intros H. cbn [Eval.add_stmt set_loc p_imports]. rewrite H. reflexivity. Qed.

Lemma stmt_imports p s :
  p_imports (res_prog (add_stmt p s)) = p_imports p
  \/ exists l m path, s = SImport l m /\ assoc m (p_imports p) = None
       /\ p_imports (res_prog (add_stmt p s)) = (m, path) :: p_imports p.
Proof.
  destruct s as [l m|l x rv|e].
  - cbn [Eval.add_stmt]. cbn [set_loc p_imports].
    destruct (assoc m (p_imports p)) eqn:E; [left; reflexivity|].
    destruct (assoc EmptyString modules) as [syms|]; [|left; reflexivity].
    destruct (assoc m syms) as [[]|]; try (left; reflexivity).
    right. exists l, m, path. repeat split; try reflexivity; exact E.
  - left. cbn [Eval.add_stmt]. cbn [set_loc p_regs]. destruct (assoc x (p_regs p)); [reflexivity|].
    pose proof (eval_frame functions classes modules exec rv (set_loc p l)) as F.
    destruct (eval (set_loc p l) rv) as [v p1|er p1|s p1]; cbn [rbind res_prog] in *; apply F.
  - left. cbn [Eval.add_stmt].
    pose proof (eval_frame functions classes modules exec e p) as F.
    destruct (eval p e) as [v p1|er p1|s p1]; cbn [rbind res_prog] in *; try apply F.
    destruct F as (_ & _ & F & _). rewrite <- F. apply (emit_val_keeps p1 v).
Qed.

(** a name is bound after a run only if it was bound before or some [let] of it was executed;
    a module is visible only if it was before or some [import] of it was executed *)
Theorem bound_only_by_let ss : forall p x,
  In x (map fst (p_regs (res_prog (add_stmts p ss)))) ->
  In x (map fst (p_regs p)) \/ exists l rv, In (SAssign l x rv) ss.
Proof.
  induction ss as [|s ss IH]; intros p x H; cbn [Eval.add_stmts] in H; [left; exact H|].
  destruct (stmt_regs p s) as [R|(l & y & rv & v & Hs & Hy & Hok & R)].
  - destruct (add_stmt p s) as [[] p1|e p1|s1 p1]; cbn [rbind res_prog] in *.
    + destruct (IH p1 x H) as [I|(l & rv & I)]; [left; rewrite <- R; exact I|].
      right. exists l, rv. right. exact I.
    + left. rewrite <- R. exact H.
    + left. rewrite <- R. exact H.
  - destruct (add_stmt p s) as [[] p1|e p1|s1 p1]; cbn [rbind res_prog res_is_ok] in *; try discriminate.
    destruct (IH p1 x H) as [I|(l' & rv' & I)].
    + rewrite R in I. cbn [map fst In] in I. destruct I as [I|I]; [|left; exact I].
      subst y. right. exists l, rv. left. exact Hs.
    + right. exists l', rv'. right. exact I.
Qed.

Theorem visible_only_by_import ss : forall p m,
  In m (map fst (p_imports (res_prog (add_stmts p ss)))) ->
  In m (map fst (p_imports p)) \/ exists l, In (SImport l m) ss.
Proof.
  induction ss as [|s ss IH]; intros p m H; cbn [Eval.add_stmts] in H; [left; exact H|].
  destruct (stmt_imports p s) as [R|(l & y & path & Hs & Hy & R)].
  - destruct (add_stmt p s) as [[] p1|e p1|s1 p1]; cbn [rbind res_prog] in *.
    + destruct (IH p1 m H) as [I|(l & I)]; [left; rewrite <- R; exact I|].
      right. exists l. right. exact I.
    + left. rewrite <- R. exact H.
    + left. rewrite <- R. exact H.
  - destruct (add_stmt p s) as [[] p1|e p1|s1 p1]; cbn [rbind res_prog] in *.
    + destruct (IH p1 m H) as [I|(l' & I)].
      * rewrite R in I. cbn [map fst In] in I. destruct I as [I|I]; [|left; exact I].
        subst y. right. exists l. left. exact Hs.
      * right. exists l'. right. exact I.
    + rewrite R in H. cbn [map fst In] in H. destruct H as [H|H]; [|left; exact H].
      subst y. right. exists l. left. exact Hs.
    + rewrite R in H. cbn [map fst In] in H. destruct H as [H|H]; [|left; exact H].
      subst y. right. exists l. left. exact Hs.
Qed.

(** whole programs: a use of [x] (reference, member or call) placed before any [let x] fails with a
    name error at that statement, whatever follows *)
Theorem use_before_let pre post l x more p1 :
  (forall l' rv, ~ In (SAssign l' x rv) pre) ->
  add_stmts prog_init pre = ROk tt p1 ->
  add_stmts prog_init (pre ++ SExpr (ERef l [] (x :: more)) :: post) = RErr EName (set_loc p1 l)
  /\ forall args, add_stmts prog_init (pre ++ SExpr (ECall l [] (x :: more) args) :: post) = RErr EName (set_loc p1 l).
Proof.
  intros Hpre Hrun.
  assert (Hx : assoc x (p_regs p1) = None).
  { apply assoc_none_notin. intros I.
    pose proof (bound_only_by_let pre prog_init x) as B. rewrite Hrun in B. cbn [res_prog] in B.
    destruct (B I) as [[]|(l' & rv & I')]. exact (Hpre l' rv I'). }
  split; [|intros args]; rewrite add_stmts_app, Hrun; cbn [rbind Eval.add_stmts Eval.add_stmt].
  - rewrite (unbound_ref_is_name_error p1 l x more Hx). reflexivity.
  - rewrite (unbound_call_is_name_error p1 l x more args Hx). reflexivity.
Qed.

Theorem use_before_import pre post l m ms cs p1 :
  (forall l', ~ In (SImport l' m) pre) ->
  add_stmts prog_init pre = ROk tt p1 ->
  add_stmts prog_init (pre ++ SExpr (ERef l (m :: ms) cs) :: post) = RErr EName (set_loc p1 l)
  /\ forall args, add_stmts prog_init (pre ++ SExpr (ECall l (m :: ms) cs args) :: post) = RErr EName (set_loc p1 l).
Proof.
  intros Hpre Hrun.
  assert (Hx : assoc m (p_imports p1) = None).
  { apply assoc_none_notin. intros I.
    pose proof (visible_only_by_import pre prog_init m) as B. rewrite Hrun in B. cbn [res_prog] in B.
    destruct (B I) as [[]|(l' & I')]. exact (Hpre l' I'). }
  split; [|intros args]; rewrite add_stmts_app, Hrun; cbn [rbind Eval.add_stmts Eval.add_stmt].
  - rewrite (unimported_ref_is_name_error p1 l m ms cs Hx). reflexivity.
  - rewrite (unimported_call_is_name_error p1 l m ms cs args Hx). reflexivity.
Qed.

End Interp.
