(** C14 (b) -- importing a module again, anywhere, is harmless. *)
From RS Require Import Base.Bytes Base.Outcome Bind.Types Bind.Binder Pkt.Packet Pkt.Pcap
  Interp.Val Interp.Ast Interp.Eval Lib.LibBase Proofs.C14.Basics Proofs.C14.Env Proofs.C14.Sim
  Proofs.C14.Unused.
Open Scope N_scope.

(** equal in every field except the current location *)
Definition eq_but_loc (p q : prog) : Prop := same_but_regs_loc p q /\ p_regs p = p_regs q.

Lemma eq_but_loc_refl p : eq_but_loc p p.
Proof. split; [apply same_but_regs_loc_refl|reflexivity]. Qed.


Lemma eq_but_loc_iff p q : eq_but_loc p q <-> set_loc p (0, 0) = set_loc q (0, 0).
Proof.
  split.
  - intros ((H1 & H2 & H3 & H4 & H5 & H6) & H7). unfold set_loc. rewrite H1, H2, H3, H4, H5, H6, H7. reflexivity.
  - intros H. unfold set_loc in H. injection H as H1 H2 H3 H4 H5 H6 H7.
    split; [unfold same_but_regs_loc; repeat split; assumption|assumption].
Qed.

Section Interp.
Variable functions : list funcdef.
Variable classes : list (string * list (string * string)).
Variable modules : list (string * list (string * symbol)).
Variable exec : string -> option nat -> list val -> list val -> heap -> option libres.

Notation eval := (eval functions classes modules exec).
Notation add_stmt := (add_stmt functions classes modules exec).
Notation add_stmts := (add_stmts functions classes modules exec).

Lemma all_names_ok ss : forallb (stmt_names_ok (fun _ => true)) ss = true.
Proof.
  apply forallb_forall. intros s _. destruct s as [l m|l x rv|e]; cbn [stmt_names_ok]; try reflexivity;
    rewrite ?names_ok_all; reflexivity.
Qed.

(** the current location does not influence a run, except through itself *)
Theorem loc_irrelevant ss p q : eq_but_loc p q -> rsim eq_but_loc (add_stmts p ss) (add_stmts q ss).
Proof.
  intros (HS & HR).
  pose proof (stmts_sim functions classes modules exec (fun _ => true) (p_regs p) (p_regs p) (fun _ _ => eq_refl) ss p q
                (all_names_ok ss)) as S.
  assert (S0 : Rb (p_regs p) (p_regs p) p q).
  { split; [exact HS|]. exists []. split; [reflexivity|symmetry; exact HR]. }
  eapply rsim_weaken; [|exact (S S0)].
  intros p' q' (HS' & d & Hp & Hq). split; [exact HS'|congruence].
Qed.

(** a repeated import followed by any statements behaves as those statements alone *)
Theorem reimport_harmless p l m path rest :
  assoc m (p_imports p) = Some path ->
  rsim eq_but_loc (add_stmts p (SImport l m :: rest)) (add_stmts p rest).
Proof.
  intros H. cbn [Eval.add_stmts]. rewrite (import_again functions classes modules exec p l m path H). cbn [rbind].
  apply loc_irrelevant. split; [unfold same_but_regs_loc; cbn; repeat split|reflexivity].
Qed.

Lemma stmt_keeps_import m path s p p' :
  assoc m (p_imports p) = Some path -> add_stmt p s = ROk tt p' -> assoc m (p_imports p') = Some path.
Proof.
  intros Hm H. destruct (stmt_imports functions classes modules exec p s) as [R|(l & y & pth & Hs & Hy & R)];
    rewrite H in R; cbn [res_prog] in R; rewrite R; [exact Hm|].
  apply assoc_cons_other; assumption.
Qed.

Lemma stmts_keep_import m path ss : forall p p',
  assoc m (p_imports p) = Some path -> add_stmts p ss = ROk tt p' -> assoc m (p_imports p') = Some path.
Proof.
  induction ss as [|s ss IH]; intros p p' Hm H; cbn [Eval.add_stmts] in H.
  - injection H as <-. exact Hm.
  - destruct (add_stmt p s) as [[] p1|e p1|s1 p1] eqn:E; cbn [rbind] in H; try discriminate.
    eapply IH; [|exact H]. eapply stmt_keeps_import; eassumption.
Qed.

Lemma import_ok_visible p l m p' : add_stmt p (SImport l m) = ROk tt p' -> exists path, assoc m (p_imports p') = Some path.
Proof.
  cbn [Eval.add_stmt]. cbn [set_loc p_imports]. destruct (assoc m (p_imports p)) as [path|] eqn:E.
  - intros H. injection H as <-. exists path. exact E.
  - destruct (assoc EmptyString modules) as [syms|]; [|discriminate].
    destruct (assoc m syms) as [[]|]; try discriminate. intros H. injection H as <-.
    exists path. cbn [p_imports assoc]. rewrite String.eqb_refl. reflexivity.
Qed.

(** whole programs: a second import of [m] anywhere after the first can be deleted -- same outcome and
    same final state up to the current location *)
Theorem double_import_harmless a b c l l' m p :
  rsim eq_but_loc (add_stmts p (a ++ SImport l m :: b ++ SImport l' m :: c))
                  (add_stmts p (a ++ SImport l m :: b ++ c)).
Proof.
  rewrite !add_stmts_app. destruct (add_stmts p a) as [[] p1|e p1|s p1]; cbn [rbind];
    try (cbn; split; [reflexivity|apply eq_but_loc_refl]).
  cbn [Eval.add_stmts].
  destruct (add_stmt p1 (SImport l m)) as [[] p2|e p2|s p2] eqn:E; cbn [rbind];
    try (cbn; split; [reflexivity|apply eq_but_loc_refl]).
  apply import_ok_visible in E. destruct E as (path & Hm).
  rewrite !add_stmts_app. destruct (add_stmts p2 b) as [[] p3|e p3|s p3] eqn:Eb; cbn [rbind];
    try (cbn; split; [reflexivity|apply eq_but_loc_refl]).
  apply (reimport_harmless p3 l' m path c). exact (stmts_keep_import m path b p2 p3 Hm Eb).
Qed.

End Interp.
