(** C14 at the level of whole runs against the real library tables: what the file on disk and the
    diagnostic are. *)
From RS Require Import Base.Bytes Base.Outcome Bind.Types Pkt.Packet Pkt.Pcap Interp.Val Interp.Ast
  Interp.Eval Lib.LibBase Lib.StdLib Interp.Run
  Proofs.C14.Basics Proofs.C14.Env Proofs.C14.Sim Proofs.C14.Unused Proofs.C14.Inline Proofs.C14.Reimport.
From RSGen Require Import Catalogue.
Open Scope N_scope.

(** two runs that cannot be told apart by their result: same pcap bytes, same warnings, same library
    calls; or the same error with the same partial pcap (the reported location may differ); or the same panic *)
Definition same_run (r1 r2 : run_result) : Prop :=
  match r1, r2 with
  | RunOk b w t, RunOk b' w' t' => b = b' /\ w = w' /\ t = t'
  | RunErr e _ b, RunErr e' _ b' => e = e' /\ b = b'
  | RunPanic s, RunPanic s' => s = s'
  | _, _ => False
  end.

Lemma rsim_same_run files a b :
  rsim same_but_regs_loc (run_prog {| env_files := files |} a) (run_prog {| env_files := files |} b) ->
  same_run (run files a) (run files b).
Proof.
  unfold run. destruct (run_prog _ a) as [[] p|e p|s p], (run_prog _ b) as [[] q|e' q|s' q]; cbn [rsim same_run];
    try contradiction; intros (E & (H1 & H2 & H3 & H4 & H5 & H6)); unfold pcap_of; try rewrite H4, H5, H6; try rewrite H4; auto.
Qed.

Theorem run_rebind files pre l x rv post p1 :
  run_prog {| env_files := files |} pre = ROk tt p1 -> In x (map fst (p_regs p1)) ->
  run files (pre ++ SAssign l x rv :: post) = RunErr (EMultipleAssign x) l (pcap_of p1).
Proof.
  intros H I. unfold run, run_prog in *. rewrite add_stmts_app, H. cbn [rbind Eval.add_stmts].
  destruct (assoc x (p_regs p1)) as [v|] eqn:E; [|apply assoc_none_notin in E; contradiction].
  rewrite (rebind_rejected _ _ _ _ p1 l x rv v E). reflexivity.
Qed.

Theorem run_inline files pre post l0 x l1 v :
  run files (pre ++ SAssign l0 x (ELit l1 v) :: map (subst_stmt x v) post)
  = run files (pre ++ SAssign l0 x (ELit l1 v) :: post).
Proof. unfold run, run_prog. rewrite inline_plain_let. reflexivity. Qed.

Theorem run_inline_drop files pre post l0 x l1 v :
  (forall l rv, ~ In (SAssign l x rv) pre) -> not_mentioned x (map (subst_stmt x v) post) = true ->
  same_run (run files (pre ++ SAssign l0 x (ELit l1 v) :: post)) (run files (pre ++ map (subst_stmt x v) post)).
Proof.
  intros H1 H2. apply rsim_same_run. apply inline_and_drop_plain_let; [reflexivity|assumption|assumption].
Qed.

Theorem run_unused_let files pre post l y l' v :
  (forall l0 rv, ~ In (SAssign l0 y rv) pre) -> not_mentioned y post = true ->
  same_run (run files (pre ++ SAssign l y (ELit l' v) :: post)) (run files (pre ++ post)).
Proof.
  intros H1 H2. apply rsim_same_run. apply unused_plain_let_irrelevant; [reflexivity|assumption|assumption].
Qed.

Theorem run_double_import files a b c l l' m :
  same_run (run files (a ++ SImport l m :: b ++ SImport l' m :: c)) (run files (a ++ SImport l m :: b ++ c)).
Proof.
  apply rsim_same_run. eapply rsim_weaken; [|apply double_import_harmless]. intros p q (H & _). exact H.
Qed.
