(** C14 (d) -- a value bound by [let] is computed at its [let]; a later statement [x;] only emits what is
    stored, any number of times and in any order, without evaluating anything again. *)
From RS Require Import Base.Bytes Base.Outcome Bind.Types Bind.Binder Pkt.Packet Pkt.Pcap
  Interp.Val Interp.Ast Interp.Eval Lib.LibBase Spec.Timeline Proofs.C12.TimelineProofs
  Proofs.C14.Basics Proofs.C14.Env.
Open Scope N_scope.

(** the statement [x;] written at location [l] *)
Definition ref_stmt (lx : loc * string) : stmt := SExpr (ERef (fst lx) [] [snd lx]).

Section Interp.
Variable functions : list funcdef.
Variable classes : list (string * list (string * string)).
Variable modules : list (string * list (string * symbol)).
Variable exec : string -> option nat -> list val -> list val -> heap -> option libres.

Notation eval := (eval functions classes modules exec).
Notation add_stmt := (add_stmt functions classes modules exec).
Notation add_stmts := (add_stmts functions classes modules exec).

(** [x;] is exactly: emit the stored value *)
Theorem stored_ref_emits p l x v :
  assoc x (p_regs p) = Some v ->
  add_stmt p (SExpr (ERef l [] [x])) = emit_val (set_loc p l) v.
Proof.
  intros H. cbn [Eval.add_stmt Eval.eval Eval.eval_obj_ref]. unfold eval_local_ref.
  cbn [length Nat.ltb Nat.leb set_loc p_regs]. rewrite H. reflexivity.
Qed.

(** ... which makes no library call and leaves heap, registers and imports alone *)
Corollary stored_ref_no_recompute p l x v :
  assoc x (p_regs p) = Some v ->
  let q := res_prog (add_stmt p (SExpr (ERef l [] [x]))) in
  p_trace q = p_trace p /\ p_heap q = p_heap p /\ p_regs q = p_regs p /\ p_imports q = p_imports p.
Proof.
  intros H q. subst q. rewrite (stored_ref_emits p l x v H).
  destruct (emit_val_keeps (set_loc p l) v) as (A & B & C & D & _). cbn [set_loc p_regs p_imports p_heap p_trace] in *.
  repeat split; assumption.
Qed.

(** any list of such statements -- any order, any multiplicity *)
Theorem stored_refs_no_recompute lxs : forall p,
  Forall (fun lx => assoc (snd lx) (p_regs p) <> None) lxs ->
  let q := res_prog (add_stmts p (map ref_stmt lxs)) in
  p_trace q = p_trace p /\ p_heap q = p_heap p /\ p_regs q = p_regs p /\ p_imports q = p_imports p.
Proof.
  induction lxs as [|[l x] r IH]; intros p HF; cbn [map Eval.add_stmts]; [repeat split|].
  inversion HF as [|? ? Hx Hr]; subst. cbn [snd] in Hx.
  destruct (assoc x (p_regs p)) as [v|] eqn:E; [|exfalso; apply Hx; reflexivity].
  pose proof (stored_ref_no_recompute p l x v E) as K. cbn zeta in K.
  change (ref_stmt (l, x)) with (SExpr (ERef l [] [x])).
  destruct (add_stmt p (SExpr (ERef l [] [x]))) as [[] p1|e p1|s p1]; cbn [rbind res_prog] in *; try exact K.
  destruct K as (K1 & K2 & K3 & K4).
  assert (HF' : Forall (fun lx => assoc (snd lx) (p_regs p1) <> None) r) by (rewrite K3; exact Hr).
  pose proof (IH p1 HF') as J. cbn zeta in J. destruct J as (J1 & J2 & J3 & J4).
  rewrite J1, J2, J3, J4. repeat split; assumption.
Qed.

(** the output of such a run is the timeline of the stored values: the records of each value in turn,
    timestamps advancing by each value's own gap (Spec.Timeline) *)
Theorem stored_refs_output lxs : forall vs p p',
  Forall2 (fun lx v => assoc (snd lx) (p_regs p) = Some v) lxs vs ->
  add_stmts p (map ref_stmt lxs) = ROk tt p' ->
  p_now p' = final_time (p_now p) vs
  /\ p_out p' = rev (map rec_bytes (timeline (p_now p) vs)) ++ p_out p.
Proof.
  induction lxs as [|[l x] r IH]; intros vs p p' HF H; inversion HF as [|? v ? vr Hx Hr]; subst;
    cbn [map Eval.add_stmts timeline final_time] in *.
  - injection H as <-. split; reflexivity.
  - cbn [snd] in Hx. change (ref_stmt (l, x)) with (SExpr (ERef l [] [x])) in H.
    pose proof (stored_ref_no_recompute p l x v Hx) as K. cbn zeta in K.
    rewrite (stored_ref_emits p l x v Hx) in H, K.
    destruct (emit_val (set_loc p l) v) as [[] p1|e p1|s p1] eqn:E; cbn [rbind res_prog] in *; try discriminate.
    apply emit_val_refines in E. destruct E as (En & Eo & _). cbn [set_loc p_now p_out] in En, Eo.
    destruct K as (_ & _ & K3 & _).
    assert (Hr' : Forall2 (fun lx v => assoc (snd lx) (p_regs p1) = Some v) r vr) by (rewrite K3; exact Hr).
    destruct (IH vr p1 p' Hr' H) as (Hn & Ho). rewrite En in Hn, Ho. split; [exact Hn|].
    rewrite Ho, Eo, map_app, rev_app_distr, <- app_assoc. reflexivity.
Qed.

(** computed at the [let]: after [let x = e] succeeded with value [v], and whatever ran in between,
    [x;] emits that same [v] *)
Theorem let_then_emit p l x e p1 mid p2 :
  NoDup (map fst (p_regs p)) ->
  add_stmt p (SAssign l x e) = ROk tt p1 -> add_stmts p1 mid = ROk tt p2 ->
  exists v p0, eval (set_loc p l) e = ROk v p0
    /\ forall l', add_stmt p2 (SExpr (ERef l' [] [x])) = emit_val (set_loc p2 l') v.
Proof.
  intros ND H1 H2. apply assign_ok_inv in H1. destruct H1 as (Hx & v & p0 & Hv & Hp & Hr).
  exists v, p0. split; [exact Hv|]. intros l'. apply stored_ref_emits.
  pose proof (binding_permanent functions classes modules exec mid p1 x v) as B. rewrite H2 in B. cbn [res_prog] in B.
  apply B.
  - rewrite Hr. cbn [map fst]. constructor; [apply assoc_none_notin; exact Hx|exact ND].
  - rewrite Hr. cbn [assoc]. rewrite String.eqb_refl. reflexivity.
Qed.

End Interp.
