(** C14 -- environment weakening as a simulation: two program states that differ only in their current
    location and in registers the program does not look at evolve in lock step. *)
From RS Require Import Base.Bytes Base.Outcome Bind.Types Bind.Binder Pkt.Packet Pkt.Pcap
  Interp.Val Interp.Ast Interp.Eval Lib.LibBase Proofs.C14.Basics Proofs.C14.Env.
Open Scope N_scope.

(** ** the names an expression looks up in the register file *)
Definition head_ok (K : string -> bool) (ms cs : list string) : bool :=
  match ms, cs with
  | [], x :: _ => K x
  | _, _ => true
  end.

Fixpoint names_ok (K : string -> bool) (e : expr) : bool :=
  match e with
  | ENil | ELit _ _ => true
  | ERef _ ms cs => head_ok K ms cs
  | ECall _ ms cs args =>
    head_ok K ms cs &&
    (fix go (args : list (option string * expr)) : bool :=
       match args with [] => true | a :: r => names_ok K (snd a) && go r end) args
  | ESlash a b => names_ok K a && names_ok K b
  end.

Definition stmt_names_ok (K : string -> bool) (s : stmt) : bool :=
  match s with
  | SImport _ _ => true
  | SAssign _ x rv => K x && names_ok K rv
  | SExpr e => names_ok K e
  end.

Lemma names_ok_call K l ms cs args :
  names_ok K (ECall l ms cs args) = head_ok K ms cs && forallb (fun a => names_ok K (snd a)) args.
Proof. reflexivity. Qed.

Lemma names_ok_all e : names_ok (fun _ => true) e = true.
Proof.
  induction e as [|l v|l ms cs|l ms cs args IH|a b IHa IHb] using expr_ind'; try reflexivity.
  - cbn. destruct ms, cs; reflexivity.
  - rewrite names_ok_call. apply andb_true_intro. split; [destruct ms, cs; reflexivity|].
    apply forallb_forall. intros a Ha. rewrite Forall_forall in IH. apply IH. exact Ha.
  - cbn [names_ok]. rewrite IHa, IHb. reflexivity.
Qed.

(** ** the location after a successful evaluation is determined by the expression *)
Fixpoint loc_after (e : expr) (l0 : loc) : loc :=
  match e with
  | ENil => l0
  | ELit l _ => l
  | ERef l _ _ => l
  | ECall l _ _ args =>
    (fix go (args : list (option string * expr)) (acc : loc) : loc :=
       match args with [] => acc | a :: r => go r (loc_after (snd a) acc) end) args l
  | ESlash a _ => loc_after a l0
  end.

Fixpoint sets_loc (e : expr) : bool :=
  match e with ENil => false | ESlash a _ => sets_loc a | _ => true end.

Lemma loc_after_indep e : sets_loc e = true -> forall l0 l1, loc_after e l0 = loc_after e l1.
Proof. induction e; cbn [sets_loc loc_after]; intros H l0 l1; try reflexivity; try discriminate. apply IHe1. exact H. Qed.

(** relations between results: same outcome, same payload, related states *)
Definition rsim {A} (S : prog -> prog -> Prop) (r1 r2 : res A) : Prop :=
  match r1, r2 with
  | ROk a p, ROk b q => a = b /\ S p q
  | RErr e p, RErr e' q => e = e' /\ S p q
  | RPanic s p, RPanic s' q => s = s' /\ S p q
  | _, _ => False
  end.

Lemma rsim_rbind {A B} (S : prog -> prog -> Prop) (x y : res A) (f g : A -> prog -> res B) :
  rsim S x y -> (forall a p q, x = ROk a p -> y = ROk a q -> S p q -> rsim S (f a p) (g a q)) ->
  rsim S (rbind x f) (rbind y g).
Proof.
  destruct x as [a p|e p|s p], y as [b q|e' q|s' q]; cbn [rsim rbind]; intros H1 H2; try contradiction; try exact H1.
  destruct H1 as (<- & H1). apply H2; [reflexivity|reflexivity|exact H1].
Qed.

Lemma rsim_lift {A} (S : prog -> prog -> Prop) p q (x : outcome A) : S p q -> rsim S (lift p x) (lift q x).
Proof. intros H. destruct x; cbn [lift rsim]; split; try reflexivity; exact H. Qed.

Lemma rsim_weaken {A} (S T : prog -> prog -> Prop) (r1 r2 : res A) :
  (forall p q, S p q -> T p q) -> rsim S r1 r2 -> rsim T r1 r2.
Proof.
  intros W. destruct r1, r2; cbn [rsim]; try tauto; intros (E & H); (split; [exact E|apply W; exact H]).
Qed.

(** everything observable: clock, imports, heap, output, warnings, library-call trace *)
Definition same_but_regs_loc (p q : prog) : Prop :=
  p_now p = p_now q /\ p_imports p = p_imports q /\ p_heap p = p_heap q /\ p_out p = p_out q
  /\ p_warnings p = p_warnings q /\ p_trace p = p_trace q.

(** the two register files are the same list of later bindings [d] on top of two bases [rp], [rq] *)
Definition Rb (rp rq : list (string * val)) (p q : prog) : Prop :=
  same_but_regs_loc p q /\ exists d, p_regs p = d ++ rp /\ p_regs q = d ++ rq.

Definition Rbl rp rq (p q : prog) : Prop := Rb rp rq p q /\ p_loc p = p_loc q.

Lemma assoc_app_agree {A} z (d rp rq : list (string * A)) :
  assoc z rp = assoc z rq -> assoc z (d ++ rp) = assoc z (d ++ rq).
Proof. intros H. induction d as [|[k v] d IH]; cbn [app assoc]; [exact H|]. destruct (String.eqb z k); [reflexivity|exact IH]. Qed.

Section Interp.
Variable functions : list funcdef.
Variable classes : list (string * list (string * string)).
Variable modules : list (string * list (string * symbol)).
Variable exec : string -> option nat -> list val -> list val -> heap -> option libres.

Notation eval := (eval functions classes modules exec).
Notation call := (call functions exec).
Notation add_stmt := (add_stmt functions classes modules exec).
Notation add_stmts := (add_stmts functions classes modules exec).
Notation eval_obj_ref := (eval_obj_ref classes modules).
Notation eval_args_spec := (eval_args_spec functions classes modules exec).

Section Sim.
Variable K : string -> bool.
Variables rp rq : list (string * val).
Hypothesis Hbase : forall z, K z = true -> assoc z rp = assoc z rq.

Notation R := (Rb rp rq).

Lemma R_set_loc p q l l' : R p q -> R (set_loc p l) (set_loc q l').
Proof. intros H. exact H. Qed.

Lemma R_assoc p q z : R p q -> K z = true -> assoc z (p_regs p) = assoc z (p_regs q).
Proof. intros (_ & d & -> & ->) Hz. apply assoc_app_agree. apply Hbase. exact Hz. Qed.

Lemma obj_ref_agree p q ms cs : R p q -> head_ok K ms cs = true -> eval_obj_ref p ms cs = eval_obj_ref q ms cs.
Proof.
  intros HR Hh. pose proof HR as ((_ & Hi & Hh' & _) & _).
  destruct ms as [|m ms]; cbn [Eval.eval_obj_ref].
  - destruct cs as [|x more]; [reflexivity|]. cbn [head_ok] in Hh. unfold eval_local_ref.
    rewrite (R_assoc p q x HR Hh). destruct (Nat.ltb 2 (length (x :: more))); [reflexivity|].
    destruct (assoc x (p_regs q)) as [v|]; [|reflexivity]. destruct more; [reflexivity|].
    unfold method_lookup. rewrite Hh'. reflexivity.
  - unfold eval_extern_ref. rewrite Hi. reflexivity.
Qed.

Lemma call_sim p q key this vs : R p q -> rsim R (call p key this vs) (call q key this vs).
Proof.
  intros HR. pose proof HR as ((Hn & Hi & Hh & Ho & Hw & Ht) & d & Hp & Hq).
  unfold Eval.call. destruct (find_func functions key) as [f|]; [|cbn; split; [reflexivity|exact HR]].
  destruct (argvec val val_type val_of_valdef f vs) as [[slots extra]|e|s|]; cbn [lift rbind];
    try (cbn; split; [reflexivity|exact HR]).
  rewrite Hh. destruct (exec key this slots extra (p_heap q)) as [r|]; [|cbn; split; [reflexivity|exact HR]].
  assert (HT : R (add_trace p key) (add_trace q key)).
  { split; [|exists d; split; assumption]. unfold same_but_regs_loc. cbn. repeat split; congruence. }
  destruct r as [[v h]|e|s|]; cbn [lift rbind]; try (cbn; split; [reflexivity|exact HT]).
  assert (HS : R (set_heap (add_trace p key) h) (set_heap (add_trace q key) h)).
  { split; [|exists d; split; assumption]. unfold same_but_regs_loc. cbn. repeat split; congruence. }
  destruct (vtype_eqb (val_type v) (fd_ret f)); cbn; split; try reflexivity; exact HS.
Qed.

Lemma eval_args_sim args :
  Forall (fun a => names_ok K (snd a) = true -> forall p q, R p q -> rsim R (eval p (snd a)) (eval q (snd a))) args ->
  forallb (fun a => names_ok K (snd a)) args = true ->
  forall p q, R p q -> rsim R (eval_args_spec p args) (eval_args_spec q args).
Proof.
  induction 1 as [|[n a] r Ha Hr IH]; intros Hok p q HR; cbn [Basics.eval_args_spec].
  - cbn. split; [reflexivity|exact HR].
  - cbn [forallb snd] in Hok. apply andb_prop in Hok. destruct Hok as (Hoka & Hokr).
    apply rsim_rbind; [apply Ha; assumption|]. intros v p1 q1 _ _ HR1.
    apply rsim_rbind; [apply IH; assumption|]. intros vs p2 q2 _ _ HR2. cbn. split; [reflexivity|exact HR2].
Qed.

Theorem eval_sim e : names_ok K e = true -> forall p q, R p q -> rsim R (eval p e) (eval q e).
Proof.
  induction e as [|l v|l ms cs|l ms cs args IH|a b IHa IHb] using expr_ind'; intros Hok p q HR.
  - cbn. split; [reflexivity|exact HR].
  - cbn. split; [reflexivity|exact HR].
  - cbn [Eval.eval]. cbn [names_ok] in Hok.
    rewrite (obj_ref_agree (set_loc p l) (set_loc q l) ms cs (R_set_loc p q l l HR) Hok).
    apply rsim_lift. exact HR.
  - rewrite !eval_ECall. unfold eval_call_spec. rewrite names_ok_call in Hok. apply andb_prop in Hok.
    destruct Hok as (Hh & Ha).
    rewrite (obj_ref_agree (set_loc p l) (set_loc q l) ms cs (R_set_loc p q l l HR) Hh).
    apply rsim_rbind; [apply rsim_lift; exact HR|]. intros callee p1 q1 _ _ HR1.
    pose proof (eval_args_sim args IH Ha) as HA.
    destruct callee; try (cbn; split; [reflexivity|exact HR1]);
      (apply rsim_rbind; [apply HA; exact HR1|]; intros vs p2 q2 _ _ HR2; apply call_sim; exact HR2).
  - cbn [Eval.eval]. cbn [names_ok] in Hok. apply andb_prop in Hok. destruct Hok as (Hoa & Hob).
    apply rsim_rbind; [apply IHa; assumption|]. intros va p1 q1 _ _ HR1.
    destruct (negb (vtype_eqb (val_type va) TIp4)); [cbn; split; [reflexivity|exact HR1]|].
    apply rsim_rbind; [apply IHb; assumption|]. intros vb p2 q2 _ _ HR2.
    destruct (negb (is_integral (val_type vb))); [cbn; split; [reflexivity|exact HR2]|].
    apply rsim_rbind; [apply rsim_lift; exact HR2|]. intros ip p3 q3 _ _ HR3.
    apply rsim_rbind; [apply rsim_lift; exact HR3|]. intros port p4 q4 _ _ HR4.
    destruct (65535 <? port); cbn; split; try reflexivity; exact HR4.
Qed.


(** *** statements *)
Lemma R_fields p q p' q' :
  R p q -> p_now p' = p_now q' -> p_heap p' = p_heap q' -> p_out p' = p_out q' -> p_warnings p' = p_warnings q' ->
  p_trace p' = p_trace q' -> p_imports p' = p_imports q' -> p_regs p' = p_regs p -> p_regs q' = p_regs q -> R p' q'.
Proof.
  intros (_ & d & Hp & Hq) H1 H2 H3 H4 H5 H6 H7 H8. split; [unfold same_but_regs_loc; repeat split; assumption|].
  exists d. split; congruence.
Qed.

Lemma update_time_sim p q ns : R p q -> rsim R (update_time p ns) (update_time q ns).
Proof.
  intros HR. pose proof HR as ((Hn & Hi & Hh & Ho & Hw & Ht) & _). unfold update_time. rewrite Hn.
  destruct (p_now q + ns <? two64); cbn [rsim]; (split; [reflexivity|]); [|exact HR].
  eapply R_fields; [exact HR|..]; cbn; congruence.
Qed.

Lemma advance_all_sim ks : forall p q, R p q -> rsim R (advance_all p ks) (advance_all q ks).
Proof.
  induction ks as [|k r IH]; intros p q HR; cbn [advance_all]; [cbn; split; [reflexivity|exact HR]|].
  apply rsim_rbind; [apply update_time_sim; exact HR|]. intros _ p1 q1 _ _ HR1. apply IH. exact HR1.
Qed.

Lemma write_all_sim ks : forall p q, R p q -> rsim R (write_all p ks) (write_all q ks).
Proof.
  induction ks as [|k r IH]; intros p q HR; cbn [write_all]; [cbn; split; [reflexivity|exact HR]|].
  pose proof HR as ((Hn & Hi & Hh & Ho & Hw & Ht) & _). rewrite Hn.
  apply rsim_rbind; [apply rsim_lift; exact HR|]. intros [b k'] p1 q1 _ _ HR1. apply IH.
  pose proof HR1 as ((Hn1 & Hi1 & Hh1 & Ho1 & Hw1 & Ht1) & _).
  eapply R_fields; [exact HR1|..]; cbn; congruence.
Qed.

Lemma emit_val_sim p q v : R p q -> p_loc p = p_loc q \/ v = VNil -> rsim R (emit_val p v) (emit_val q v).
Proof.
  intros HR HL.
  assert (W : v <> VNil -> R (add_warning p) (add_warning q)).
  { intros Hv. destruct HL as [HL|HL]; [|contradiction].
    pose proof HR as ((Hn & Hi & Hh & Ho & Hw & Ht) & _).
    eapply R_fields; [exact HR|..]; cbn; congruence. }
  destruct v; cbn [emit_val]; try (cbn; split; [reflexivity|]; first [exact HR|apply W; discriminate]).
  - apply rsim_rbind; [apply update_time_sim; exact HR|]. intros _ p1 q1 _ _ HR1. apply write_all_sim. exact HR1.
  - apply rsim_rbind; [apply advance_all_sim; exact HR|]. intros _ p1 q1 _ _ HR1. apply write_all_sim. exact HR1.
  - apply update_time_sim. exact HR.
Qed.

End Sim.

(** *** locations *)
Lemma call_loc p key this vs : p_loc (res_prog (call p key this vs)) = p_loc p.
Proof.
  unfold Eval.call. destruct (find_func functions key) as [f|]; [|reflexivity].
  destruct (argvec val val_type val_of_valdef f vs) as [[slots extra]|e|s|]; cbn [lift rbind res_prog]; try reflexivity.
  destruct (exec key this slots extra (p_heap p)) as [r|]; [|reflexivity].
  destruct r as [[v h]|e|s|]; cbn [lift rbind res_prog]; try reflexivity.
  destruct (vtype_eqb (val_type v) (fd_ret f)); reflexivity.
Qed.

Lemma lift_ok {A} p (x : outcome A) a p' : lift p x = ROk a p' -> x = Ok a /\ p' = p.
Proof. destruct x; cbn [lift]; intros H; try discriminate. injection H as <- <-. split; reflexivity. Qed.

Theorem eval_ok_loc e : forall p v p', eval p e = ROk v p' -> p_loc p' = loc_after e (p_loc p).
Proof.
  induction e as [|l v0|l ms cs|l ms cs args IH|a b IHa IHb] using expr_ind'; intros p v p' H.
  - cbn in H. injection H as <- <-. reflexivity.
  - cbn in H. injection H as <- <-. reflexivity.
  - cbn [Eval.eval] in H. apply lift_ok in H. destruct H as (_ & ->). reflexivity.
  - rewrite eval_ECall in H. unfold eval_call_spec in H. apply rbind_ok in H. destruct H as (callee & p1 & H0 & H).
    apply lift_ok in H0. destruct H0 as (_ & ->). cbn [loc_after].
    assert (HA : forall args, Forall (fun a => forall p v p', eval p (snd a) = ROk v p' -> p_loc p' = loc_after (snd a) (p_loc p)) args ->
      forall p vs p', eval_args_spec p args = ROk vs p' ->
      p_loc p' = (fix go (args : list (option string * expr)) (acc : loc) : loc :=
                    match args with [] => acc | a :: r => go r (loc_after (snd a) acc) end) args (p_loc p)).
    { clear. induction 1 as [|[n a] r Ha Hr IHr]; intros p vs p' H; cbn [Basics.eval_args_spec] in H.
      - injection H as <- <-. reflexivity.
      - apply rbind_ok in H. destruct H as (v & p1 & Hv & H). apply rbind_ok in H. destruct H as (vs' & p2 & Hvs & H).
        injection H as <- <-. rewrite (IHr _ _ _ Hvs). cbn [snd]. rewrite (Ha _ _ _ Hv). reflexivity. }
    assert (HC : forall key this, rbind (eval_args_spec (set_loc p l) args) (fun vs p => call p key this vs) = ROk v p' ->
      p_loc p' = (fix go (args : list (option string * expr)) (acc : loc) : loc :=
                    match args with [] => acc | a :: r => go r (loc_after (snd a) acc) end) args l).
    { intros key this HH. apply rbind_ok in HH. destruct HH as (vs & p2 & Hvs & Hc).
      pose proof (call_loc p2 key this vs) as CL. rewrite Hc in CL. cbn [res_prog] in CL. rewrite CL.
      rewrite (HA args IH _ _ _ Hvs). reflexivity. }
    destruct callee; try discriminate; eapply HC; exact H.
  - cbn [Eval.eval] in H. apply rbind_ok in H. destruct H as (va & p1 & Ha & H).
    destruct (negb (vtype_eqb (val_type va) TIp4)); [discriminate|].
    apply rbind_ok in H. destruct H as (vb & p2 & Hb & H).
    destruct (negb (is_integral (val_type vb))); [discriminate|].
    apply rbind_ok in H. destruct H as (ip & p3 & H3 & H). apply lift_ok in H3. destruct H3 as (_ & ->).
    apply rbind_ok in H. destruct H as (port & p4 & H4 & H). apply lift_ok in H4. destruct H4 as (_ & ->).
    destruct (65535 <? port); [discriminate|]. injection H as <- <-. cbn [set_loc p_loc loc_after].
    apply (IHa _ _ _ Ha).
Qed.

Theorem eval_ok_nil e : forall p v p', eval p e = ROk v p' -> sets_loc e = false -> v = VNil.
Proof.
  induction e as [|l v0|l ms cs|l ms cs args IH|a b IHa IHb] using expr_ind'; intros p v p' H S;
    cbn [sets_loc] in S; try discriminate.
  - cbn in H. injection H as <- <-. reflexivity.
  - cbn [Eval.eval] in H. apply rbind_ok in H. destruct H as (va & p1 & Ha & H).
    rewrite (IHa _ _ _ Ha S) in H. cbn in H. discriminate.
Qed.

Section Sim2.
Variable K : string -> bool.
Variables rp rq : list (string * val).
Hypothesis Hbase : forall z, K z = true -> assoc z rp = assoc z rq.

Notation R := (Rb rp rq).

Theorem stmt_sim s p q : stmt_names_ok K s = true -> R p q -> rsim R (add_stmt p s) (add_stmt q s).
Proof.
  intros Hok HR. destruct s as [l m|l x rv|e]; cbn [stmt_names_ok] in Hok.
  - pose proof HR as ((Hn & Hi & Hh & Ho & Hw & Ht) & d & Hp & Hq).
    cbn [Eval.add_stmt]. cbn [set_loc p_imports]. rewrite Hi.
    destruct (assoc m (p_imports q)); [cbn; split; [reflexivity|exact HR]|].
    destruct (assoc EmptyString modules) as [syms|]; [|cbn; split; [reflexivity|exact HR]].
    destruct (assoc m syms) as [[]|]; cbn [rsim]; (split; [reflexivity|]); try exact HR.
    split; [unfold same_but_regs_loc; cbn; repeat split; congruence|]. exists d. cbn. split; assumption.
  - apply andb_prop in Hok. destruct Hok as (Hx & Hrv).
    cbn [Eval.add_stmt]. cbn [set_loc p_regs]. rewrite (R_assoc K rp rq Hbase p q x HR Hx).
    destruct (assoc x (p_regs q)); [cbn; split; [reflexivity|exact HR]|].
    apply rsim_rbind; [apply (eval_sim K rp rq Hbase rv Hrv); exact HR|]. intros v p1 q1 _ _ HR1.
    cbn [rsim]. split; [reflexivity|]. destruct HR1 as ((Hn & Hi & Hh & Ho & Hw & Ht) & d & Hp & Hq).
    split; [unfold same_but_regs_loc; cbn; repeat split; congruence|]. exists ((x, v) :: d). cbn. rewrite Hp, Hq. split; reflexivity.
  - cbn [Eval.add_stmt]. pose proof (eval_sim K rp rq Hbase e Hok p q HR) as HS.
    apply rsim_rbind; [exact HS|]. intros v p1 q1 H1 H2 HR1. apply emit_val_sim; [exact HR1|].
    destruct (sets_loc e) eqn:SL.
    + left. rewrite (eval_ok_loc e _ _ _ H1), (eval_ok_loc e _ _ _ H2). apply loc_after_indep. exact SL.
    + right. apply (eval_ok_nil e _ _ _ H1 SL).
Qed.

Theorem stmts_sim ss : forall p q,
  forallb (stmt_names_ok K) ss = true -> R p q -> rsim R (add_stmts p ss) (add_stmts q ss).
Proof.
  induction ss as [|s ss IH]; intros p q Hok HR; cbn [Eval.add_stmts]; [cbn; split; [reflexivity|exact HR]|].
  cbn [forallb] in Hok. apply andb_prop in Hok. destruct Hok as (Hs & Hss).
  apply rsim_rbind; [apply stmt_sim; assumption|]. intros _ p1 q1 _ _ HR1. apply IH; assumption.
Qed.

End Sim2.
End Interp.
