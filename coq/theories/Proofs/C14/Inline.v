(** C14 (e) -- replacing uses of a let-bound literal by the literal never changes anything. *)
From RS Require Import Base.Bytes Base.Outcome Bind.Types Bind.Binder Pkt.Packet Pkt.Pcap
  Interp.Val Interp.Ast Interp.Eval Lib.LibBase Proofs.C14.Basics Proofs.C14.Env Proofs.C14.Sim
  Proofs.C14.Unused.
Open Scope N_scope.

(** the values a literal can denote *)
Definition plain (v : val) : bool :=
  match v with
  | VBool _ | VU8 _ | VU16 _ | VU32 _ | VU64 _ | VIp4 _ | VSock4 _ _ | VStr _ => true
  | _ => false
  end.

(** every plain use [x] becomes the literal, written at the place of the use *)
Fixpoint subst_expr (x : string) (v : val) (e : expr) : expr :=
  match e with
  | ERef l [] [z] => if String.eqb z x then ELit l v else e
  | ECall l ms cs args =>
    ECall l ms cs
      ((fix go (args : list (option string * expr)) : list (option string * expr) :=
          match args with [] => [] | a :: r => (fst a, subst_expr x v (snd a)) :: go r end) args)
  | ESlash a b => ESlash (subst_expr x v a) (subst_expr x v b)
  | _ => e
  end.

Definition subst_stmt (x : string) (v : val) (s : stmt) : stmt :=
  match s with
  | SImport _ _ => s
  | SAssign l y rv => SAssign l y (subst_expr x v rv)
  | SExpr e => SExpr (subst_expr x v e)
  end.

Lemma subst_call x v l ms cs args :
  subst_expr x v (ECall l ms cs args) = ECall l ms cs (map (fun a => (fst a, subst_expr x v (snd a))) args).
Proof. reflexivity. Qed.

Section Interp.
Variable functions : list funcdef.
Variable classes : list (string * list (string * string)).
Variable modules : list (string * list (string * symbol)).
Variable exec : string -> option nat -> list val -> list val -> heap -> option libres.

Notation eval := (eval functions classes modules exec).
Notation add_stmt := (add_stmt functions classes modules exec).
Notation add_stmts := (add_stmts functions classes modules exec).
Notation eval_args_spec := (eval_args_spec functions classes modules exec).

(** in a state where [x] holds [v], the inlined expression evaluates to the very same result: same
    value or error, same state, location included *)
Theorem subst_expr_same x v e : forall p, assoc x (p_regs p) = Some v -> eval p (subst_expr x v e) = eval p e.
Proof.
  induction e as [|l v0|l ms cs|l ms cs args IH|a b IHa IHb] using expr_ind'; intros p Hx; try reflexivity.
  - destruct ms as [|m ms]; [|reflexivity]. destruct cs as [|z [|z' cs]]; try reflexivity.
    cbn [subst_expr]. destruct (String.eqb z x) eqn:E; [|reflexivity].
    apply String.eqb_eq in E. subst z. cbn [Eval.eval Eval.eval_obj_ref]. unfold eval_local_ref.
    cbn [length Nat.ltb Nat.leb set_loc p_regs]. rewrite Hx. reflexivity.
  - rewrite subst_call, !eval_ECall. unfold eval_call_spec.
    assert (HA : forall p, assoc x (p_regs p) = Some v ->
              eval_args_spec p (map (fun a => (fst a, subst_expr x v (snd a))) args) = eval_args_spec p args).
    { clear - IH. induction IH as [|[n a] r Ha Hr IHr]; intros p Hx; [reflexivity|].
      cbn [snd] in Ha. cbn [map fst snd Basics.eval_args_spec]. rewrite (Ha p Hx).
      destruct (eval p a) as [va p1|e1 p1|s1 p1] eqn:E; cbn [rbind]; try reflexivity.
      rewrite IHr; [reflexivity|]. destruct (eval_ok_frame _ _ _ _ _ _ _ _ E) as (_ & F & _). rewrite F. exact Hx. }
    destruct (lift (set_loc p l) (Eval.eval_obj_ref classes modules (set_loc p l) ms cs)) as [callee p1|e1 p1|s1 p1] eqn:E;
      cbn [rbind]; try reflexivity.
    assert (Hx1 : assoc x (p_regs p1) = Some v).
    { destruct (Eval.eval_obj_ref classes modules (set_loc p l) ms cs); cbn [lift] in E; try discriminate.
      injection E as _ <-. exact Hx. }
    destruct callee; try reflexivity; rewrite (HA p1 Hx1); reflexivity.
  - cbn [subst_expr Eval.eval]. rewrite (IHa p Hx).
    destruct (eval p a) as [va p1|e1 p1|s1 p1] eqn:E; cbn [rbind]; try reflexivity.
    destruct (negb (vtype_eqb (val_type va) TIp4)); [reflexivity|].
    rewrite IHb; [reflexivity|]. destruct (eval_ok_frame _ _ _ _ _ _ _ _ E) as (_ & F & _). rewrite F. exact Hx.
Qed.

Lemma subst_stmt_same x v s p : assoc x (p_regs p) = Some v -> add_stmt p (subst_stmt x v s) = add_stmt p s.
Proof.
  intros Hx. destruct s as [l m|l y rv|e]; [reflexivity|..]; cbn [subst_stmt Eval.add_stmt].
  - cbn [set_loc p_regs]. destruct (assoc y (p_regs p)); [reflexivity|]. rewrite subst_expr_same; [reflexivity|exact Hx].
  - rewrite subst_expr_same; [reflexivity|exact Hx].
Qed.

Lemma stmt_keeps_binding x v s p p' : assoc x (p_regs p) = Some v -> add_stmt p s = ROk tt p' -> assoc x (p_regs p') = Some v.
Proof.
  intros Hx H. destruct (stmt_regs functions classes modules exec p s) as [R|(l & y & rv & w & Hs & Hy & Hok & R)];
    rewrite H in R; cbn [res_prog] in R; rewrite R; [exact Hx|].
  apply assoc_cons_other; assumption.
Qed.

Theorem subst_stmts_same x v ss : forall p,
  assoc x (p_regs p) = Some v -> add_stmts p (map (subst_stmt x v) ss) = add_stmts p ss.
Proof.
  induction ss as [|s ss IH]; intros p Hx; [reflexivity|]. cbn [map Eval.add_stmts].
  rewrite (subst_stmt_same x v s p Hx).
  destruct (add_stmt p s) as [[] p1|e p1|s1 p1] eqn:E; cbn [rbind]; try reflexivity.
  apply IH. exact (stmt_keeps_binding x v s p p1 Hx E).
Qed.

(** whole programs: inlining every later use of [let x = <literal>] gives the same run -- the same
    result and the same final state in every field *)
Theorem inline_plain_let pre post l0 x l1 v p :
  add_stmts p (pre ++ SAssign l0 x (ELit l1 v) :: map (subst_stmt x v) post)
  = add_stmts p (pre ++ SAssign l0 x (ELit l1 v) :: post).
Proof.
  rewrite !add_stmts_app. destruct (add_stmts p pre) as [[] p1|e p1|s p1]; cbn [rbind]; try reflexivity.
  cbn [Eval.add_stmts].
  destruct (add_stmt p1 (SAssign l0 x (ELit l1 v))) as [[] p2|e p2|s p2] eqn:E; cbn [rbind]; try reflexivity.
  apply subst_stmts_same. apply assign_ok_inv in E. destruct E as (_ & w & p0 & Hw & _ & Hr).
  cbn in Hw. injection Hw as <- _. rewrite Hr. cbn [assoc]. rewrite String.eqb_refl. reflexivity.
Qed.

(** ... and when no other kind of use is left the [let] itself can go: same outcome, output, clock,
    heap, imports, warnings and library calls *)
Theorem inline_and_drop_plain_let pre post l0 x l1 v p :
  assoc x (p_regs p) = None -> (forall l rv, ~ In (SAssign l x rv) pre) ->
  not_mentioned x (map (subst_stmt x v) post) = true ->
  rsim same_but_regs_loc
    (add_stmts p (pre ++ SAssign l0 x (ELit l1 v) :: post))
    (add_stmts p (pre ++ map (subst_stmt x v) post)).
Proof.
  intros Hx Hpre Hpost. rewrite <- inline_plain_let. apply unused_plain_let_irrelevant; assumption.
Qed.

End Interp.
