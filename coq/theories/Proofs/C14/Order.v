(** C14 (c) -- order: statements top to bottom, call arguments left to right, each exactly once. *)
From RS Require Import Base.Bytes Base.Outcome Bind.Types Bind.Binder Pkt.Packet Pkt.Pcap
  Interp.Val Interp.Ast Interp.Eval Lib.LibBase Proofs.C14.Basics Proofs.C14.Env.
Open Scope N_scope.

(** library calls made between two states, oldest first ([p_trace] is kept most recent first) *)
Definition calls_made (p q : prog) (cs : list string) : Prop := rev (p_trace q) = rev (p_trace p) ++ cs.

Lemma calls_made_refl p : calls_made p p [].
Proof. unfold calls_made. rewrite app_nil_r. reflexivity. Qed.

Lemma calls_made_trans p q r a b : calls_made p q a -> calls_made q r b -> calls_made p r (a ++ b).
Proof. unfold calls_made. intros H1 H2. rewrite H2, H1, app_assoc. reflexivity. Qed.

Lemma calls_made_of_trace p q t : p_trace q = t ++ p_trace p -> calls_made p q (rev t).
Proof. unfold calls_made. intros H. rewrite H, rev_app_distr. reflexivity. Qed.

Lemma calls_made_fun p q a b : calls_made p q a -> calls_made p q b -> a = b.
Proof. unfold calls_made. intros H1 H2. rewrite H1 in H2. apply app_inv_head in H2. exact H2. Qed.

Section Interp.
Variable functions : list funcdef.
Variable classes : list (string * list (string * string)).
Variable modules : list (string * list (string * symbol)).
Variable exec : string -> option nat -> list val -> list val -> heap -> option libres.

Notation eval := (eval functions classes modules exec).
Notation call := (call functions exec).
Notation add_stmt := (add_stmt functions classes modules exec).
Notation add_stmts := (add_stmts functions classes modules exec).
Notation eval_obj_ref := (eval_obj_ref classes modules).
Notation eval_args_spec := (eval_args_spec functions classes modules exec).

(** ** statements: strictly top to bottom, a failure stops everything after it *)
Theorem stmts_in_order p a b :
  add_stmts p (a ++ b) = rbind (add_stmts p a) (fun _ p' => add_stmts p' b).
Proof. apply add_stmts_app. Qed.

Corollary stmts_failure_stops p a b e p' : add_stmts p a = RErr e p' -> add_stmts p (a ++ b) = RErr e p'.
Proof. intros H. rewrite add_stmts_app, H. reflexivity. Qed.

(** ** calls: resolve the callee, evaluate the arguments with [eval_args_spec], call once *)
Definition resolve (p : prog) (ms cs : list string) : outcome (string * option nat) :=
  do c <- eval_obj_ref p ms cs;
  match c with
  | VFunc key => Ok (key, None)
  | VMethod addr key => Ok (key, Some addr)
  | _ => Err EType
  end.

Theorem eval_call_in_order p l ms cs args :
  eval p (ECall l ms cs args)
  = rbind (lift (set_loc p l) (resolve (set_loc p l) ms cs)) (fun kt p1 =>
    rbind (eval_args_spec p1 args) (fun vs p2 => call p2 (fst kt) (snd kt) vs)).
Proof.
  rewrite eval_ECall. unfold eval_call_spec, resolve.
  destruct (eval_obj_ref (set_loc p l) ms cs) as [c|e|s|]; cbn [lift rbind obind]; try reflexivity.
  destruct c; reflexivity.
Qed.

(** the run of an argument list: the state is handed from each argument to the next; [ts] lists, per
    argument, the library calls its evaluation made *)
Inductive args_run : prog -> list (option string * expr) -> list (option string * val) -> list (list string) -> prog -> Prop :=
| ar_nil p : args_run p [] [] [] p
| ar_cons p n a v p1 t r vs ts p2 :
    eval p a = ROk v p1 -> calls_made p p1 t -> args_run p1 r vs ts p2 ->
    args_run p ((n, a) :: r) ((n, v) :: vs) (t :: ts) p2.

Theorem eval_args_spec_run args : forall p vs p',
  eval_args_spec p args = ROk vs p' <-> exists ts, args_run p args vs ts p'.
Proof.
  induction args as [|[n a] r IH]; intros p vs p'; cbn [Basics.eval_args_spec].
  - split.
    + intros H. injection H as <- <-. exists []. constructor.
    + intros (ts & H). inversion H; subst. reflexivity.
  - split.
    + intros H. apply rbind_ok in H. destruct H as (v & p1 & Hv & H).
      apply rbind_ok in H. destruct H as (vs' & p2 & Hr & H). injection H as <- <-.
      apply IH in Hr. destruct Hr as (ts & Hr).
      destruct (eval_ok_frame _ _ _ _ _ _ _ _ Hv) as (_ & _ & _ & _ & _ & t & Ht).
      exists (rev t :: ts). econstructor; [exact Hv|apply calls_made_of_trace; exact Ht|exact Hr].
    + intros (ts & H). inversion H as [|? ? ? v p1 t ? vs' ts' ? Hv Ht Hr]; subst.
      rewrite Hv. cbn [rbind]. assert (E : eval_args_spec p1 r = ROk vs' p') by (apply IH; eauto).
      rewrite E. reflexivity.
Qed.

Lemma args_run_calls p args vs ts p' : args_run p args vs ts p' -> calls_made p p' (concat ts).
Proof.
  induction 1 as [p|p n a v p1 t r vs ts p2 Hv Ht Hr IH]; cbn [concat]; [apply calls_made_refl|].
  eapply calls_made_trans; eassumption.
Qed.

(** the library function is entered at most once per call, and exactly once when the call succeeds *)
Lemma call_trace p key this vs :
  p_trace (res_prog (call p key this vs)) = p_trace p
  \/ p_trace (res_prog (call p key this vs)) = key :: p_trace p.
Proof.
  unfold Eval.call. destruct (find_func functions key) as [f|]; [|left; reflexivity].
  destruct (argvec val val_type val_of_valdef f vs) as [[slots extra]|e|s|]; cbn [lift rbind res_prog];
    try (left; reflexivity).
  destruct (exec key this slots extra (p_heap p)) as [r|]; [|left; reflexivity].
  destruct r as [[v h]|e|s|]; cbn [lift rbind res_prog]; try (right; reflexivity).
  destruct (vtype_eqb (val_type v) (fd_ret f)); right; reflexivity.
Qed.

Lemma call_ok_trace p key this vs v p' : call p key this vs = ROk v p' -> p_trace p' = key :: p_trace p.
Proof.
  unfold Eval.call. destruct (find_func functions key) as [f|]; [|discriminate].
  destruct (argvec val val_type val_of_valdef f vs) as [[slots extra]|e|s|]; cbn [lift rbind]; try discriminate.
  destruct (exec key this slots extra (p_heap p)) as [r|]; [|discriminate].
  destruct r as [[v' h]|e|s|]; cbn [lift rbind]; try discriminate.
  destruct (vtype_eqb (val_type v') (fd_ret f)); [|discriminate]. intros H. injection H as <- <-. reflexivity.
Qed.

(** a successful call: every argument was evaluated once, in list order, each from the state its left
    neighbour left behind; then the function ran once.  The library calls made by the whole call are
    those of the arguments in order followed by the function itself *)
Theorem call_ok_inv p l ms cs args v p' :
  eval p (ECall l ms cs args) = ROk v p' ->
  exists key this vs ts p1,
    resolve (set_loc p l) ms cs = Ok (key, this)
    /\ args_run (set_loc p l) args vs ts p1
    /\ call p1 key this vs = ROk v p'
    /\ calls_made p p' (concat ts ++ [key]).
Proof.
  rewrite eval_call_in_order. intros H. apply rbind_ok in H. destruct H as ([key this] & p0 & H0 & H).
  destruct (resolve (set_loc p l) ms cs) as [kt| | |] eqn:ER; cbn [lift] in H0; try discriminate.
  injection H0 as -> <-. cbn [fst snd] in H.
  apply rbind_ok in H. destruct H as (vs & p1 & Ha & Hc).
  apply eval_args_spec_run in Ha. destruct Ha as (ts & Ha).
  exists key, this, vs, ts, p1. repeat split; try assumption.
  pose proof (args_run_calls _ _ _ _ _ Ha) as C1.
  apply call_ok_trace in Hc.
  assert (C2 : calls_made p1 p' [key]) by (apply (calls_made_of_trace p1 p' [key]); exact Hc).
  pose proof (calls_made_trans _ _ _ _ _ C1 C2) as C. unfold calls_made in *. cbn [set_loc p_trace] in C. exact C.
Qed.

(** an argument that fails: the arguments to its right are not evaluated and the function is not
    called -- the state is exactly the one the failing argument left *)
Theorem arg_failure_stops_args p pre n a post vs p1 e p2 :
  eval_args_spec p pre = ROk vs p1 -> eval p1 a = RErr e p2 ->
  eval_args_spec p (pre ++ (n, a) :: post) = RErr e p2.
Proof.
  revert p vs. induction pre as [|[m b] pre IH]; intros p vs H Ha; cbn [app Basics.eval_args_spec] in *.
  - injection H as <- <-. rewrite Ha. reflexivity.
  - destruct (eval p b) as [vb pb|eb pb|sb pb]; cbn [rbind] in *; try discriminate.
    destruct (eval_args_spec pb pre) as [vs' pc|ec pc|sc pc] eqn:E; cbn [rbind] in H; try discriminate.
    injection H as <- <-. rewrite (IH pb vs' E Ha). reflexivity.
Qed.

Theorem arg_failure_stops_call p l ms cs key this pre n a post vs ts p1 e p2 ta :
  resolve (set_loc p l) ms cs = Ok (key, this) ->
  args_run (set_loc p l) pre vs ts p1 -> eval p1 a = RErr e p2 -> calls_made p1 p2 ta ->
  eval p (ECall l ms cs (pre ++ (n, a) :: post)) = RErr e p2
  /\ calls_made p p2 (concat ts ++ ta).
Proof.
  intros HR Hpre Ha Hta. split.
  - rewrite eval_call_in_order, HR. cbn [lift rbind fst snd].
    assert (E : eval_args_spec (set_loc p l) pre = ROk vs p1) by (apply eval_args_spec_run; eauto).
    rewrite (arg_failure_stops_args _ _ n _ post _ _ _ _ E Ha). reflexivity.
  - pose proof (args_run_calls _ _ _ _ _ Hpre) as C1.
    pose proof (calls_made_trans _ _ _ _ _ C1 Hta) as C. exact C.
Qed.

End Interp.
