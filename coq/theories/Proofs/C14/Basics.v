(** C14 -- basic facts about the interpreter model: an induction principle for expressions, the
    standalone argument evaluator, what evaluation can and cannot change in the program state. *)
From RS Require Import Base.Bytes Base.Outcome Bind.Types Bind.Binder Pkt.Packet Pkt.Pcap
  Interp.Val Interp.Ast Interp.Eval Lib.LibBase.
Open Scope N_scope.

(** ** induction over expressions, through argument lists *)
Section ExprInd.
Variable P : expr -> Prop.
Hypothesis HNil : P ENil.
Hypothesis HLit : forall l v, P (ELit l v).
Hypothesis HRef : forall l ms cs, P (ERef l ms cs).
Hypothesis HCall : forall l ms cs args, Forall (fun a => P (snd a)) args -> P (ECall l ms cs args).
Hypothesis HSlash : forall a b, P a -> P b -> P (ESlash a b).

Fixpoint expr_ind' (e : expr) : P e :=
  match e with
  | ENil => HNil
  | ELit l v => HLit l v
  | ERef l ms cs => HRef l ms cs
  | ECall l ms cs args =>
    HCall l ms cs args
      ((fix go (args : list (option string * expr)) : Forall (fun a => P (snd a)) args :=
          match args with
          | [] => Forall_nil _
          | a :: r => Forall_cons a (expr_ind' (snd a)) (go r)
          end) args)
  | ESlash a b => HSlash a b (expr_ind' a) (expr_ind' b)
  end.
End ExprInd.

(** the program state a result carries, whatever the outcome *)
Definition res_prog {A} (r : res A) : prog :=
  match r with ROk _ p => p | RErr _ p => p | RPanic _ p => p end.

Definition res_is_ok {A} (r : res A) : bool := match r with ROk _ _ => true | _ => false end.

Lemma rbind_ok {A B} (x : res A) (f : A -> prog -> res B) b p' :
  rbind x f = ROk b p' -> exists a p1, x = ROk a p1 /\ f a p1 = ROk b p'.
Proof. destruct x as [a p1|e p1|s p1]; cbn; intros H; try discriminate. eauto. Qed.

Section Interp.
Variable functions : list funcdef.
Variable classes : list (string * list (string * string)).
Variable modules : list (string * list (string * symbol)).
Variable exec : string -> option nat -> list val -> list val -> heap -> option libres.

Notation eval := (eval functions classes modules exec).
Notation call := (call functions exec).
Notation add_stmt := (add_stmt functions classes modules exec).
Notation add_stmts := (add_stmts functions classes modules exec).
Notation eval_obj_ref := (eval_obj_ref classes modules).

(** ** the argument evaluator as a function of its own: the state is threaded through the
    arguments in list order, each argument is evaluated once, the first failure stops *)
Fixpoint eval_args_spec (p : prog) (l : list (option string * expr)) : res (list (option string * val)) :=
  match l with
  | [] => ROk [] p
  | (n, a) :: r =>
    rbind (eval p a) (fun v p => rbind (eval_args_spec p r) (fun vs p => ROk ((n, v) :: vs) p))
  end.

(** what [eval] does on a call, with the local fixpoint replaced by [eval_args_spec] *)
Definition eval_call_spec (p : prog) (l : loc) (ms cs : list string) (args : list (option string * expr)) : res val :=
  let p := set_loc p l in
  rbind (lift p (eval_obj_ref p ms cs)) (fun callee p =>
    match callee with
    | VFunc key => rbind (eval_args_spec p args) (fun vs p => call p key None vs)
    | VMethod addr key => rbind (eval_args_spec p args) (fun vs p => call p key (Some addr) vs)
    | _ => RErr EType p
    end).

Lemma eval_ECall p l ms cs args :
  eval p (ECall l ms cs args) = eval_call_spec p l ms cs args.
Proof. reflexivity. Qed.


(** ** what evaluation leaves alone: clock, registers, imports, output, warnings; the trace only grows *)
Definition frame (p q : prog) : Prop :=
  p_now q = p_now p /\ p_regs q = p_regs p /\ p_imports q = p_imports p /\ p_out q = p_out p
  /\ p_warnings q = p_warnings p /\ exists t, p_trace q = t ++ p_trace p.

Lemma frame_refl p : frame p p.
Proof. unfold frame; repeat split; exists []; reflexivity. Qed.

Lemma frame_trans p q r : frame p q -> frame q r -> frame p r.
Proof.
  unfold frame. intros (A1 & A2 & A3 & A4 & A5 & t1 & A6) (B1 & B2 & B3 & B4 & B5 & t2 & B6).
  repeat split; try congruence. exists (t2 ++ t1). rewrite B6, A6, app_assoc. reflexivity.
Qed.

Lemma frame_set_loc p l : frame p (set_loc p l).
Proof. unfold frame; cbn; repeat split; exists []; reflexivity. Qed.

Lemma frame_set_heap p h : frame p (set_heap p h).
Proof. unfold frame; cbn; repeat split; exists []; reflexivity. Qed.

Lemma frame_add_trace p k : frame p (add_trace p k).
Proof. unfold frame; cbn; repeat split; exists [k]; reflexivity. Qed.

Lemma res_prog_lift {A} p (x : outcome A) : res_prog (lift p x) = p.
Proof. destruct x; reflexivity. Qed.

Lemma call_frame p key this vs : frame p (res_prog (call p key this vs)).
Proof.
  unfold Eval.call. destruct (find_func functions key) as [f|]; [|apply frame_refl].
  destruct (argvec val val_type val_of_valdef f vs) as [[slots extra]|e|s|]; cbn [lift rbind res_prog];
    try apply frame_refl.
  destruct (exec key this slots extra (p_heap p)) as [r|]; [|apply frame_refl].
  destruct r as [[v h]|e|s|]; cbn [lift rbind res_prog]; try apply frame_add_trace.
  destruct (vtype_eqb (val_type v) (fd_ret f)); cbn [res_prog];
    (eapply frame_trans; [apply frame_add_trace|apply frame_set_heap]).
Qed.

Lemma frame_rbind {A B} p (x : res A) (f : A -> prog -> res B) :
  frame p (res_prog x) -> (forall a p1, x = ROk a p1 -> frame p1 (res_prog (f a p1))) ->
  frame p (res_prog (rbind x f)).
Proof.
  intros H1 H2. destruct x as [a p1|e p1|s p1]; cbn [rbind res_prog] in *; try exact H1.
  eapply frame_trans; [exact H1|]. apply H2. reflexivity.
Qed.

Lemma eval_args_frame args :
  Forall (fun a => forall p, frame p (res_prog (eval p (snd a)))) args ->
  forall p, frame p (res_prog (eval_args_spec p args)).
Proof.
  induction 1 as [|[n a] r Ha Hr IH]; intros p; cbn [eval_args_spec]; [apply frame_refl|].
  apply frame_rbind; [apply Ha|]. intros v p1 _. apply frame_rbind; [apply IH|].
  intros vs p2 _. apply frame_refl.
Qed.

Theorem eval_frame e : forall p, frame p (res_prog (eval p e)).
Proof.
  induction e as [|l v|l ms cs|l ms cs args IH|a b IHa IHb] using expr_ind'; intros p.
  - apply frame_refl.
  - apply frame_set_loc.
  - cbn [Eval.eval]. rewrite res_prog_lift. apply frame_set_loc.
  - rewrite eval_ECall. unfold eval_call_spec.
    eapply frame_trans; [apply (frame_set_loc p l)|].
    apply frame_rbind; [rewrite res_prog_lift; apply frame_refl|].
    intros callee p1 _. pose proof (eval_args_frame args IH) as HA.
    destruct callee; try apply frame_refl;
      (apply frame_rbind; [apply HA|]; intros vs p2 _; apply call_frame).
  - cbn [Eval.eval]. apply frame_rbind; [apply IHa|]. intros va p1 _.
    destruct (negb (vtype_eqb (val_type va) TIp4)); [apply frame_refl|].
    apply frame_rbind; [apply IHb|]. intros vb p2 _.
    destruct (negb (is_integral (val_type vb))); [apply frame_refl|].
    eapply frame_trans; [apply (frame_set_loc p2 (p_loc p1))|].
    apply frame_rbind; [rewrite res_prog_lift; apply frame_refl|]. intros ip p3 _.
    apply frame_rbind; [rewrite res_prog_lift; apply frame_refl|]. intros port p4 _.
    destruct (65535 <? port); apply frame_refl.
Qed.

Corollary eval_regs p e : p_regs (res_prog (eval p e)) = p_regs p.
Proof. apply (eval_frame e p). Qed.

Corollary eval_ok_frame p e v p' : eval p e = ROk v p' -> frame p p'.
Proof. intros H. pose proof (eval_frame e p) as F. rewrite H in F. exact F. Qed.

Corollary eval_args_ok_frame p args vs p' : eval_args_spec p args = ROk vs p' -> frame p p'.
Proof.
  intros H. pose proof (eval_args_frame args) as F.
  assert (G : frame p (res_prog (eval_args_spec p args))).
  { apply F. apply Forall_forall. intros a _ q. apply eval_frame. }
  rewrite H in G. exact G.
Qed.

End Interp.
