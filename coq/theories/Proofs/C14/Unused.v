(** C14 (f) / C13 -- environment weakening: a [let] of a literal to a name nobody looks at is invisible. *)
From RS Require Import Base.Bytes Base.Outcome Bind.Types Bind.Binder Pkt.Packet Pkt.Pcap
  Interp.Val Interp.Ast Interp.Eval Lib.LibBase Proofs.C14.Basics Proofs.C14.Env Proofs.C14.Sim.
Open Scope N_scope.

(** [y] is neither looked up (as a variable, as the object of a member access, as a callee) nor bound *)
Definition other_than (y : string) : string -> bool := fun z => negb (String.eqb z y).
Definition expr_free_of (y : string) (e : expr) : bool := names_ok (other_than y) e.
Definition stmt_free_of (y : string) (s : stmt) : bool := stmt_names_ok (other_than y) s.
Definition not_mentioned (y : string) (ss : list stmt) : bool := forallb (stmt_free_of y) ss.

(** two states that differ only in the location and in one extra binding [y := v] somewhere in the
    register file *)
Definition differ_by_binding (y : string) (v : val) (p q : prog) : Prop :=
  same_but_regs_loc p q /\ exists d r0, p_regs p = d ++ (y, v) :: r0 /\ p_regs q = d ++ r0.

Lemma rsim_refl {A} (S : prog -> prog -> Prop) (r : res A) : (forall p, S p p) -> rsim S r r.
Proof. intros H. destruct r; cbn; split; try reflexivity; apply H. Qed.

Lemma same_but_regs_loc_refl p : same_but_regs_loc p p.
Proof. unfold same_but_regs_loc. repeat split. Qed.

Section Interp.
Variable functions : list funcdef.
Variable classes : list (string * list (string * string)).
Variable modules : list (string * list (string * symbol)).
Variable exec : string -> option nat -> list val -> list val -> heap -> option libres.

Notation eval := (eval functions classes modules exec).
Notation add_stmt := (add_stmt functions classes modules exec).
Notation add_stmts := (add_stmts functions classes modules exec).

Lemma fresh_after pre p y p1 :
  assoc y (p_regs p) = None -> (forall l rv, ~ In (SAssign l y rv) pre) ->
  add_stmts p pre = ROk tt p1 -> assoc y (p_regs p1) = None.
Proof.
  intros Hy Hpre Hrun. apply assoc_none_notin. intros I.
  pose proof (bound_only_by_let functions classes modules exec pre p y) as B. rewrite Hrun in B. cbn [res_prog] in B.
  destruct (B I) as [I'|(l' & rv & I')]; [|exact (Hpre l' rv I')].
  apply assoc_none_notin in Hy. exact (Hy I').
Qed.

(** from the state right after the [let]: the rest of the program runs in lock step with and without it *)
Theorem unused_binding_sim y v post p :
  not_mentioned y post = true ->
  forall l, rsim (differ_by_binding y v) (add_stmts (bind_reg (set_loc p l) y v) post) (add_stmts p post).
Proof.
  intros Hpost l.
  assert (Hbase : forall z, other_than y z = true -> assoc z ((y, v) :: p_regs p) = assoc z (p_regs p)).
  { intros z Hz. unfold other_than in Hz. cbn [assoc]. destruct (String.eqb z y); [discriminate|reflexivity]. }
  pose proof (stmts_sim functions classes modules exec (other_than y) ((y, v) :: p_regs p) (p_regs p) Hbase post
                (bind_reg (set_loc p l) y v) p Hpost) as S.
  assert (S0 : Rb ((y, v) :: p_regs p) (p_regs p) (bind_reg (set_loc p l) y v) p).
  { split; [unfold same_but_regs_loc; cbn; repeat split|]. exists []. split; reflexivity. }
  eapply rsim_weaken; [|exact (S S0)].
  intros p' q' (HS & d & Hp & Hq). split; [exact HS|]. exists d, (p_regs p). split; assumption.
Qed.

(** inserting [let y = <literal>] anywhere, [y] fresh and not mentioned afterwards, changes neither
    the outcome (success, or which error, or which panic) nor output, clock, heap, imports, warnings
    or the library-call trace of the program *)
Theorem unused_plain_let_irrelevant pre post l y l' v p :
  assoc y (p_regs p) = None -> (forall l0 rv, ~ In (SAssign l0 y rv) pre) ->
  not_mentioned y post = true ->
  rsim same_but_regs_loc (add_stmts p (pre ++ SAssign l y (ELit l' v) :: post)) (add_stmts p (pre ++ post)).
Proof.
  intros Hy Hpre Hpost. rewrite !add_stmts_app.
  destruct (add_stmts p pre) as [[] p1|e p1|s p1] eqn:E; cbn [rbind];
    try (cbn; split; [reflexivity|apply same_but_regs_loc_refl]).
  pose proof (fresh_after pre p y p1 Hy Hpre E) as Hy1.
  cbn [Eval.add_stmts]. rewrite (assign_fresh functions classes modules exec p1 l y (ELit l' v) Hy1).
  cbn [Eval.eval rbind].
  eapply rsim_weaken; [|exact (unused_binding_sim y v post p1 Hpost l')].
  intros p' q' (HS & _). exact HS.
Qed.

(** the same with the register files described: they differ by exactly the binding of [y] *)
Theorem unused_plain_let_irrelevant_regs pre post l y l' v p :
  assoc y (p_regs p) = None -> (forall l0 rv, ~ In (SAssign l0 y rv) pre) ->
  not_mentioned y post = true ->
  add_stmts p (pre ++ SAssign l y (ELit l' v) :: post) = add_stmts p (pre ++ post)
  \/ rsim (differ_by_binding y v) (add_stmts p (pre ++ SAssign l y (ELit l' v) :: post)) (add_stmts p (pre ++ post)).
Proof.
  intros Hy Hpre Hpost. rewrite !add_stmts_app.
  destruct (add_stmts p pre) as [[] p1|e p1|s p1] eqn:E; cbn [rbind]; try (left; reflexivity).
  right. pose proof (fresh_after pre p y p1 Hy Hpre E) as Hy1.
  cbn [Eval.add_stmts]. rewrite (assign_fresh functions classes modules exec p1 l y (ELit l' v) Hy1).
  cbn [Eval.eval rbind]. exact (unused_binding_sim y v post p1 Hpost l').
Qed.

End Interp.
