(** C06 at the library level: the [encap] / [dgram] methods of the four tunnel classes as modelled in
    Lib/MiscLib.v -- one outer packet per inner packet, in order, the i-th built from the i-th inner
    frame with the session state the i-th call sees; the heap changes in the session's counter only. *)
From RS Require Import Base.Bytes Base.Outcome Pkt.Csum Pkt.Hdrs Pkt.Packet Ez.Tcp Ez.Udp Ez.Gre Interp.Val
  Lib.LibBase Lib.MiscLib Lib.StdLib Proofs.BytesLemmas Proofs.C06.Tunnels Proofs.C06.Nesting Proofs.Tactics.
From Coq Require Import ZArith Lia ZifyBool ZifyNat ZifyN.
Ltac Zify.zify_post_hook ::= Z.div_mod_to_equations.
Open Scope N_scope.

(** the session after k more packets: only the counter differs *)
Definition gre_at (f : gre_flow) (k : N) : gre_flow :=
  {| gl_cl := gl_cl f; gl_sv := gl_sv f; gl_flags := gl_flags f; gl_ethertype := gl_ethertype f;
     gl_raw := gl_raw f; gl_seq := (gl_seq f + k) mod 4294967296 |}.
Definition erspan2_at (f : erspan2_flow) (k : N) : erspan2_flow :=
  {| e2_cl := e2_cl f; e2_sv := e2_sv f; e2_raw := e2_raw f; e2_seq := (e2_seq f + k) mod 4294967296; e2_sess := e2_sess f |}.

Lemma gre_at_0 f : gl_seq f < 4294967296 -> gre_at f 0 = f.
Proof. intros H. destruct f as [a b c d e s]. unfold gre_at. cbn [gl_cl gl_sv gl_flags gl_ethertype gl_raw gl_seq] in *. f_equal. lia. Qed.
Lemma erspan2_at_0 f : e2_seq f < 4294967296 -> erspan2_at f 0 = f.
Proof. intros H. destruct f as [a b c s e]. unfold erspan2_at. cbn [e2_cl e2_sv e2_raw e2_seq e2_sess] in *. f_equal. lia. Qed.
Lemma gre_at_next f k : gre_at (gre_next f) k = gre_at f (1 + k).
Proof. unfold gre_at, gre_next, wrap32. cbn [gl_cl gl_sv gl_flags gl_ethertype gl_raw gl_seq]. f_equal. lia. Qed.
Lemma erspan2_at_next f k : erspan2_at (erspan2_next f) k = erspan2_at f (1 + k).
Proof. unfold erspan2_at, erspan2_next, wrap32. cbn [e2_cl e2_sv e2_raw e2_seq e2_sess]. f_equal. lia. Qed.
Lemma gre_next_at f k : gre_next (gre_at f k) = gre_at f (k + 1).
Proof. unfold gre_at, gre_next, wrap32. cbn [gl_cl gl_sv gl_flags gl_ethertype gl_raw gl_seq]. f_equal. lia. Qed.
Lemma erspan2_next_at f k : erspan2_next (erspan2_at f k) = erspan2_at f (k + 1).
Proof. unfold erspan2_at, erspan2_next, wrap32. cbn [e2_cl e2_sv e2_raw e2_seq e2_sess]. f_equal. lia. Qed.

(* ---------------- heap cells ---------------- *)
Lemma set_nth_length {A} (l : list A) n x : length (set_nth l n x) = length l.
Proof. revert n. induction l as [|y r IH]; intros [|n]; cbn [set_nth length]; try reflexivity. rewrite IH. reflexivity. Qed.
Lemma set_nth_same {A} (l : list A) n x y : nth_error l n = Some y -> nth_error (set_nth l n x) n = Some x.
Proof. revert n. induction l as [|z r IH]; intros [|n]; cbn [set_nth nth_error]; try discriminate; [reflexivity|apply IH]. Qed.
Lemma set_nth_other {A} (l : list A) n m x : m <> n -> nth_error (set_nth l n x) m = nth_error l m.
Proof.
  revert n m. induction l as [|z r IH]; intros [|n] [|m] H; cbn [set_nth nth_error]; try reflexivity; try congruence.
  apply IH. congruence.
Qed.

(** what "the heap changed in cell [a] only, which now holds [o]" means *)
Definition heap_upd (h h' : heap) (a : nat) (o : obj) : Prop :=
  nth_error h' a = Some o /\ length h' = length h /\ forall b, b <> a -> nth_error h' b = nth_error h b.
Lemma set_nth_upd h a o o0 : nth_error h a = Some o0 -> heap_upd h (set_nth h a o) a o.
Proof.
  intros H. split; [eapply set_nth_same; exact H|]. split; [apply set_nth_length|]. intros b Hb. apply set_nth_other. exact Hb.
Qed.

(* ---------------- the stateless loops ---------------- *)
Lemma omapM_total {A B} (g : A -> outcome B) l : (forall x, exists y, g x = Ok y) -> exists qs, omapM g l = Ok qs.
Proof.
  intros T. induction l as [|x r (qs & IH)]; cbn [omapM]; [eexists; reflexivity|].
  destruct (T x) as (y & E). rewrite E, IH. cbn [obind]. eexists. reflexivity.
Qed.

Lemma vxlan_encap_total f b : exists q, vxlan_encap f b = Ok q.
Proof. destruct (vxlan_encap_shape f b) as (iph & uh & E & _). eexists. exact E. Qed.
Lemma erspan1_encap_total f b : exists q, erspan1_encap f b = Ok q.
Proof. destruct (erspan1_encap_shape f b) as (iph & E & _). eexists. exact E. Qed.

(** one outer packet per inner packet, i-th from i-th *)
Definition each_from {A B} (g : A -> outcome B) (ps : list A) (qs : list B) : Prop :=
  length qs = length ps /\ forall i p, nth_error ps i = Some p -> exists q, nth_error qs i = Some q /\ g p = Ok q.
Lemma omapM_each {A B} (g : A -> outcome B) ps qs : omapM g ps = Ok qs -> each_from g ps qs.
Proof. intros E. split; [eapply omapM_length; exact E|]. intros i p Hi. eapply omapM_nth; eassumption. Qed.

(* ---------------- the stateful loops ---------------- *)
(** i-th outer packet from the i-th inner frame by the session as it is after i packets *)
Definition each_from_st {S A B} (g : S -> A -> outcome (S * B)) (at_ : N -> S) (ps : list A) (qs : list B) : Prop :=
  length qs = length ps /\
  forall i p, nth_error ps i = Some p -> exists q, nth_error qs i = Some q /\ g (at_ (N.of_nat i)) p = Ok (at_ (N.of_nat i + 1), q).

Lemma gre_encap_all_spec ps : forall f, gl_seq f < 4294967296 ->
  exists qs, gre_encap_all f ps = Ok (gre_at f (len ps), qs)
    /\ each_from_st (fun s p => gre_flow_encap s (pkt_frame p)) (gre_at f) ps qs.
Proof.
  induction ps as [|p r IH]; intros f Hf; cbn [gre_encap_all].
  - exists []. change (len (@nil packet)) with 0. rewrite (gre_at_0 f Hf). split; [reflexivity|].
    split; [reflexivity|]. intros [|i] p Hp; discriminate.
  - destruct (gre_flow_encap_shape f (pkt_frame p)) as (iph & E & _). rewrite E. cbn [obind].
    assert (Hn : gl_seq (gre_next f) < 4294967296) by (unfold gre_next, wrap32; cbn [gl_seq]; lia).
    destruct (IH (gre_next f) Hn) as (qs & E2 & Hl & Hi). rewrite E2. cbn [obind].
    eexists. split; [|split].
    + rewrite gre_at_next, len_cons. reflexivity.
    + cbn [length]. rewrite Hl. reflexivity.
    + intros [|i] p' Hp; cbn [nth_error] in *.
      * inversion Hp; subst p'. eexists. split; [reflexivity|].
        change (N.of_nat 0) with 0. rewrite <- (gre_next_at f 0), (gre_at_0 f Hf). exact E.
      * destruct (Hi i p' Hp) as (q & Hq & Eq). exists q. split; [exact Hq|].
        rewrite !gre_at_next in Eq. rewrite Nat2N.inj_succ.
        replace (N.succ (N.of_nat i)) with (1 + N.of_nat i) by lia.
        replace (1 + N.of_nat i + 1) with (1 + (N.of_nat i + 1)) by lia. exact Eq.
Qed.

Lemma erspan2_encap_all_spec ix ps : forall f, e2_seq f < 4294967296 ->
  exists qs, erspan2_encap_all f ix ps = Ok (erspan2_at f (len ps), qs)
    /\ each_from_st (fun s p => erspan2_encap s (pkt_frame p) ix) (erspan2_at f) ps qs.
Proof.
  induction ps as [|p r IH]; intros f Hf; cbn [erspan2_encap_all].
  - exists []. change (len (@nil packet)) with 0. rewrite (erspan2_at_0 f Hf). split; [reflexivity|].
    split; [reflexivity|]. intros [|i] p Hp; discriminate.
  - destruct (erspan2_encap_shape f (pkt_frame p) ix) as (iph & E & _). rewrite E. cbn [obind].
    assert (Hn : e2_seq (erspan2_next f) < 4294967296) by (unfold erspan2_next, wrap32; cbn [e2_seq]; lia).
    destruct (IH (erspan2_next f) Hn) as (qs & E2 & Hl & Hi). rewrite E2. cbn [obind].
    eexists. split; [|split].
    + rewrite erspan2_at_next, len_cons. reflexivity.
    + cbn [length]. rewrite Hl. reflexivity.
    + intros [|i] p' Hp; cbn [nth_error] in *.
      * inversion Hp; subst p'. eexists. split; [reflexivity|].
        change (N.of_nat 0) with 0. rewrite <- (erspan2_next_at f 0), (erspan2_at_0 f Hf). exact E.
      * destruct (Hi i p' Hp) as (q & Hq & Eq). exists q. split; [exact Hq|].
        rewrite !erspan2_at_next in Eq. rewrite Nat2N.inj_succ.
        replace (N.succ (N.of_nat i)) with (1 + N.of_nat i) by lia.
        replace (1 + N.of_nat i + 1) with (1 + (N.of_nat i + 1)) by lia. exact Eq.
Qed.

(* ---------------- the methods ---------------- *)
Theorem vxlan_encap_lib h a f gen ps x :
  nth_error h a = Some (OVxlan f) -> conv_pktgen gen = Ok ps ->
  exists qs, vxlan_method "encap" (Some a) [gen] x h = Some (Ok (VPktGen qs, h))
    /\ each_from (fun p => vxlan_encap f (pkt_frame p)) ps qs.
Proof.
  intros Ha Hg. unfold vxlan_method. rewrite String.eqb_refl. unfold take_this. rewrite Ha. cbn [obind]. rewrite Hg. cbn [obind].
  destruct (omapM_total (fun p => vxlan_encap f (pkt_frame p)) ps) as (qs & E); [intros p; apply vxlan_encap_total|].
  rewrite E. cbn [obind]. exists qs. split; [reflexivity|apply omapM_each; exact E].
Qed.

Theorem vxlan_dgram_lib h a f p x :
  nth_error h a = Some (OVxlan f) ->
  exists q, vxlan_method "dgram" (Some a) [VPkt p] x h = Some (Ok (VPkt q, h)) /\ vxlan_encap f (pkt_frame p) = Ok q.
Proof.
  intros Ha. unfold vxlan_method. change (String.eqb "dgram" "encap") with false. rewrite String.eqb_refl.
  unfold take_this. rewrite Ha. cbn [obind conv_pkt].
  destruct (vxlan_encap_total f (pkt_frame p)) as (q & E). rewrite E. cbn [obind]. exists q. split; reflexivity.
Qed.

Theorem erspan1_encap_lib h a f gen ps x :
  nth_error h a = Some (OErspan1 f) -> conv_pktgen gen = Ok ps ->
  exists qs, erspan1_method "encap" (Some a) [gen] x h = Some (Ok (VPktGen qs, h))
    /\ each_from (fun p => erspan1_encap f (pkt_frame p)) ps qs.
Proof.
  intros Ha Hg. unfold erspan1_method. rewrite String.eqb_refl. unfold take_this. rewrite Ha. cbn [obind]. rewrite Hg. cbn [obind].
  destruct (omapM_total (fun p => erspan1_encap f (pkt_frame p)) ps) as (qs & E); [intros p; apply erspan1_encap_total|].
  rewrite E. cbn [obind]. exists qs. split; [reflexivity|apply omapM_each; exact E].
Qed.

Theorem gre_encap_lib h a f gen ps x :
  nth_error h a = Some (OGre f) -> gl_seq f < 4294967296 -> conv_pktgen gen = Ok ps ->
  exists qs h', gre_method "encap" (Some a) [gen] x h = Some (Ok (VPktGen qs, h'))
    /\ each_from_st (fun s p => gre_flow_encap s (pkt_frame p)) (gre_at f) ps qs
    /\ heap_upd h h' a (OGre (gre_at f (len ps))).
Proof.
  intros Ha Hf Hg. unfold gre_method. rewrite String.eqb_refl. unfold take_this. rewrite Ha. cbn [obind]. rewrite Hg. cbn [obind].
  destruct (gre_encap_all_spec ps f Hf) as (qs & E & Hq). rewrite E. cbn [obind].
  exists qs. eexists. split; [reflexivity|]. split; [exact Hq|]. eapply set_nth_upd. exact Ha.
Qed.

Theorem erspan2_encap_lib h a f gen ixv ps ix x :
  nth_error h a = Some (OErspan2 f) -> e2_seq f < 4294967296 -> conv_pktgen gen = Ok ps -> conv_u32 ixv = Ok ix ->
  exists qs h', erspan2_method "encap" (Some a) [gen; ixv] x h = Some (Ok (VPktGen qs, h'))
    /\ each_from_st (fun s p => erspan2_encap s (pkt_frame p) ix) (erspan2_at f) ps qs
    /\ heap_upd h h' a (OErspan2 (erspan2_at f (len ps))).
Proof.
  intros Ha Hf Hg Hi. unfold erspan2_method. rewrite String.eqb_refl. unfold take_this. rewrite Ha. cbn [obind]. rewrite Hg. cbn [obind].
  rewrite Hi. cbn [obind].
  destruct (erspan2_encap_all_spec ix ps f Hf) as (qs & E & Hq). rewrite E. cbn [obind].
  exists qs. eexists. split; [reflexivity|]. split; [exact Hq|]. eapply set_nth_upd. exact Ha.
Qed.

(** the interpreter's dispatcher reaches exactly these functions *)
Lemma exec_tunnel_methods e this a x h :
  exec e "vxlan::Vxlan.encap" this a x h = vxlan_method "encap" this a x h
  /\ exec e "vxlan::Vxlan.dgram" this a x h = vxlan_method "dgram" this a x h
  /\ exec e "gre::Gre.encap" this a x h = gre_method "encap" this a x h
  /\ exec e "erspan1::Erspan1.encap" this a x h = erspan1_method "encap" this a x h
  /\ exec e "erspan2::Erspan2.encap" this a x h = erspan2_method "encap" this a x h.
Proof. split; [reflexivity|]. split; [reflexivity|]. split; [reflexivity|]. split; reflexivity. Qed.
