(** C06: tunnels are transparent. *)
From RS Require Import Base.Bytes Base.Outcome Pkt.Csum Pkt.Hdrs Pkt.Packet Ez.Tcp Ez.Udp Ez.Gre Interp.Val
  Lib.LibBase Lib.MiscLib Spec.Wire Spec.Tunnel
  Proofs.BytesLemmas Proofs.C02.IpLemmas Proofs.C02.TcpIp Proofs.C02.OtherIp Proofs.C18.Framing Proofs.Tactics.
From Coq Require Import ZArith Lia ZifyBool ZifyNat ZifyN.
Ltac Zify.zify_post_hook ::= Z.div_mod_to_equations.
Open Scope N_scope.

(* ---------------- VXLAN ---------------- *)
Lemma vxlan_decode_ser vni inner : vni < 16777216 -> vxlan_decode (vxlan_ser vni ++ inner) = Some (vni, inner).
Proof.
  intros H. unfold vxlan_ser, be32, be16. cbn [app vxlan_decode].
  change (N.land 8 8 =? 0) with false. cbn [negb]. f_equal. f_equal.
  rewrite (N.mod_small (vni * 256)) by lia. lia.
Qed.

Lemma udp_push_ports d b d' : udp_push d b = Ok d' ->
  uh_sport (ud_udp d') = uh_sport (ud_udp d) /\ uh_dport (ud_udp d') = uh_dport (ud_udp d).
Proof.
  unfold udp_push. intros E. ok_inv E. split; reflexivity.
Qed.

Theorem vxlan_transparent f inner p :
  vxlan_encap f inner = Ok p ->
  exists iph uh,
    pk_body p = framed (vx_raw f) (eth_for (fst (vx_cl f)) (fst (vx_sv f)))
                       (ip_ser iph ++ udp_ser uh ++ vxlan_ser (vx_vni f) ++ inner)
    /\ uh_sport uh = snd (vx_cl f) /\ uh_dport uh = snd (vx_sv f).
Proof.
  unfold vxlan_encap.
  destruct (udp_push _ (vxlan_ser (vx_vni f))) as [d1| | |] eqn:E1; cbn [obind]; try discriminate.
  destruct (udp_push d1 inner) as [d2| | |] eqn:E2; cbn [obind]; try discriminate.
  intros E. apply Ok_inj in E. subst p.
  destruct (udp_push_fields _ _ _ E1) as (R1 & P1). destruct (udp_push_fields _ _ _ E2) as (R2 & P2).
  destruct (udp_push_ports _ _ _ E1) as (S1 & D1). destruct (udp_push_ports _ _ _ E2) as (S2 & D2).
  destruct (udp_addressed_eth _ _ _ _ _ E1) as (B1 & _).
  assert (Eeth : ud_eth d2 = ud_eth d1).
  { unfold udp_push in E2. ok_inv E2. reflexivity. }
  assert (Eeth1 : eth_ser (ud_eth d1) = eth_for (fst (vx_cl f)) (fst (vx_sv f))).
  { unfold udp_push in E1. ok_inv E1. reflexivity. }
  exists (ud_ip d2), (ud_udp d2). split; [|split].
  - unfold udp_packet, pkt_of_body. cbn [pk_body]. rewrite udp_bytes_framed.
    rewrite R2, R1. cbn [ud_raw udp_dst udp_src udp_new ud_with_udp ud_with_ip ud_with_eth].
    rewrite Eeth, Eeth1. unfold udp_l3_bytes, udp_l4_bytes. rewrite P2, P1. cbn [ud_payload udp_dst udp_src udp_new ud_with_udp ud_with_ip ud_with_eth app].
    reflexivity.
  - rewrite S2, S1. reflexivity.
  - rewrite D2, D1. reflexivity.
Qed.

(* ---------------- GRE family ---------------- *)
Lemma gre_decode_plain proto rest : proto < 65536 ->
  gre_decode (gre_ser 0 proto ++ rest) = Some {| g_flags := 0; g_proto := proto; g_seq := None; g_payload := rest |}.
Proof.
  intros H. unfold gre_ser, be16. cbn [app gre_decode].
  change (0 / 256 mod 256 * 256 + 0 mod 256) with 0.
  change (N.land 0 57344 =? 0) with true. change (N.land 0 4096 =? 0) with true. cbn [negb].
  f_equal. f_equal. lia.
Qed.

Lemma gre_decode_seq proto n rest : proto < 65536 -> n < 4294967296 ->
  gre_decode (gre_ser 4096 proto ++ be32 n ++ rest)
  = Some {| g_flags := 4096; g_proto := proto; g_seq := Some n; g_payload := rest |}.
Proof.
  intros H Hn. unfold gre_ser, be32, be16. cbn [app gre_decode].
  change (4096 / 256 mod 256 * 256 + 4096 mod 256) with 4096.
  change (N.land 4096 57344 =? 0) with true. change (N.land 4096 4096 =? 0) with false. cbn [negb].
  f_equal. f_equal; [lia|]. f_equal. lia.
Qed.

Lemma flags_default_word : gre_flags_word gre_flags_default = 0 /\ gre_flags_word (gre_flags_seq gre_flags_default true) = 4096.
Proof. split; reflexivity. Qed.

(** structure of a GRE frame after construction, sequence assignment and pushes *)
Lemma gre_new_fields src dst flags proto raw g :
  gre_new src dst flags proto raw = Ok g ->
  gr_hdr g = gre_ser (gre_flags_word flags) proto /\ gr_rest g = []
  /\ gr_seq g = (if negb (N.land (gre_flags_word flags) 4096 =? 0) then Some 0 else None).
Proof.
  unfold gre_new. destruct (negb _).
  - intros E. ok_inv E. repeat split.
  - intros E. ok_inv E. repeat split.
Qed.
Lemma gre_push_fields g b g' : gre_push g b = Ok g' ->
  gr_hdr g' = gr_hdr g /\ gr_seq g' = gr_seq g /\ gr_rest g' = gr_rest g ++ b.
Proof. unfold gre_push. intros E. ok_inv E. repeat split. Qed.

Theorem gre_flow_transparent f b f' p :
  gl_flags f = gre_flags_default -> gl_ethertype f < 65536 ->
  gre_flow_encap f b = Ok (f', p) ->
  exists iph, pk_body p = framed (gl_raw f) (eth_for (gl_cl f) (gl_sv f)) (ip_ser iph ++ gre_ser 0 (gl_ethertype f) ++ b)
    /\ gre_decode (gre_ser 0 (gl_ethertype f) ++ b) = Some {| g_flags := 0; g_proto := gl_ethertype f; g_seq := None; g_payload := b |}
    /\ gl_seq f' = wrap32 (gl_seq f + 1) /\ gl_flags f' = gl_flags f /\ gl_ethertype f' = gl_ethertype f.
Proof.
  intros Hfl Het. unfold gre_flow_encap. rewrite Hfl.
  destruct (gre_new _ _ _ _ _) as [g| | |] eqn:E0; cbn [obind]; try discriminate.
  destruct (gre_push _ b) as [g'| | |] eqn:E1; cbn [obind]; try discriminate.
  intros E. ok_inv E.
  destruct (gre_new_fields _ _ _ _ _ _ E0) as (H1 & H2 & H3).
  destruct (gre_new_eth _ _ _ _ _ _ E0) as (He & Hr).
  destruct (gre_push_fields _ _ _ E1) as (P1 & P2 & P3). destruct (gre_push_keep _ _ _ E1) as (K1 & K2).
  cbn [gr_hdr gr_seq gr_rest gre_set_seq gr_eth gr_raw] in *.
  exists (gr_ip g'). split; [|split; [apply gre_decode_plain; exact Het|cbn; repeat split; try reflexivity; try (symmetry; exact Hfl)]].
  unfold gre_packet, pkt_of_body. cbn [pk_body]. rewrite gre_bytes_framed.
  rewrite K2, K1, Hr, He, P1, P2, P3, H1, H2, H3. cbn. reflexivity.
Qed.

Theorem erspan1_transparent f b p :
  erspan1_encap f b = Ok p ->
  exists iph, pk_body p = framed (e1_raw f) (eth_for (e1_cl f) (e1_sv f)) (ip_ser iph ++ gre_ser 0 ETH_ERSPAN_1_2 ++ b)
    /\ gre_decode (gre_ser 0 ETH_ERSPAN_1_2 ++ b) = Some {| g_flags := 0; g_proto := 35006; g_seq := None; g_payload := b |}.
Proof.
  unfold erspan1_encap.
  destruct (gre_new _ _ _ _ _) as [g| | |] eqn:E0; cbn [obind]; try discriminate.
  destruct (gre_push g b) as [g'| | |] eqn:E1; cbn [obind]; try discriminate.
  intros E. ok_inv E.
  destruct (gre_new_fields _ _ _ _ _ _ E0) as (H1 & H2 & H3).
  destruct (gre_new_eth _ _ _ _ _ _ E0) as (He & Hr).
  destruct (gre_push_fields _ _ _ E1) as (P1 & P2 & P3). destruct (gre_push_keep _ _ _ E1) as (K1 & K2).
  exists (gr_ip g'). split; [|apply gre_decode_plain; unfold ETH_ERSPAN_1_2; lia].
  unfold gre_packet, pkt_of_body. cbn [pk_body]. rewrite gre_bytes_framed.
  rewrite K2, K1, Hr, He, P1, P2, P3, H1, H2, H3. cbn. reflexivity.
Qed.

Lemma erspan2_decode_ser ix b : erspan2_decode (erspan2_ser 0 ix ++ b) = Some (1, ix mod 1048576, b).
Proof.
  unfold erspan2_ser, erspan2_index_word.
  change (erspan2_flags_word 0) with 268441600.
  assert (L : N.land ix 1048575 = ix mod 1048576).
  { change 1048575 with (N.ones 20). rewrite N.land_ones. reflexivity. }
  rewrite L. set (x := ix mod 1048576). assert (x < 1048576) by (unfold x; lia).
  unfold be32, be16. cbn [app erspan2_decode].
  assert (E1 : 268441600 / 65536 / 256 mod 256 / 16 = 1) by reflexivity.
  rewrite E1. f_equal. f_equal. f_equal. lia.
Qed.

Theorem erspan2_transparent f b ix f' p :
  e2_sess f = 0 -> e2_seq f < 4294967296 ->
  erspan2_encap f b ix = Ok (f', p) ->
  exists iph, pk_body p = framed (e2_raw f) (eth_for (e2_cl f) (e2_sv f))
                                 (ip_ser iph ++ gre_ser 4096 ETH_ERSPAN_1_2 ++ be32 (e2_seq f) ++ erspan2_ser 0 ix ++ b)
    /\ gre_decode (gre_ser 4096 ETH_ERSPAN_1_2 ++ be32 (e2_seq f) ++ erspan2_ser 0 ix ++ b)
       = Some {| g_flags := 4096; g_proto := 35006; g_seq := Some (e2_seq f); g_payload := erspan2_ser 0 ix ++ b |}
    /\ erspan2_decode (erspan2_ser 0 ix ++ b) = Some (1, ix mod 1048576, b)
    /\ e2_seq f' = wrap32 (e2_seq f + 1) /\ e2_sess f' = e2_sess f.
Proof.
  intros Hs Hq. unfold erspan2_encap. rewrite Hs.
  destruct (gre_new _ _ _ _ _) as [g| | |] eqn:E0; cbn [obind]; try discriminate.
  destruct (gre_push _ (erspan2_ser 0 ix)) as [g1| | |] eqn:E1; cbn [obind]; try discriminate.
  destruct (gre_push g1 b) as [g2| | |] eqn:E2; cbn [obind]; try discriminate.
  intros E. ok_inv E.
  destruct (gre_new_fields _ _ _ _ _ _ E0) as (H1 & H2 & H3).
  destruct (gre_new_eth _ _ _ _ _ _ E0) as (He & Hr).
  destruct (gre_push_fields _ _ _ E1) as (P1 & P2 & P3). destruct (gre_push_keep _ _ _ E1) as (K1 & K2).
  destruct (gre_push_fields _ _ _ E2) as (Q1 & Q2 & Q3). destruct (gre_push_keep _ _ _ E2) as (L1 & L2).
  cbn [gr_hdr gr_seq gr_rest gre_set_seq gr_eth gr_raw] in *.
  exists (gr_ip g2).
  split; [|split; [apply gre_decode_seq; [unfold ETH_ERSPAN_1_2; lia|exact Hq]|split; [apply erspan2_decode_ser|cbn; split; reflexivity]]].
  unfold gre_packet, pkt_of_body. cbn [pk_body]. rewrite gre_bytes_framed.
  rewrite L2, L1, K2, K1, Hr, He, Q1, Q2, Q3, P1, P2, P3, H1, H2, H3.
  change (gre_flags_word (gre_flags_seq gre_flags_default true)) with 4096.
  change (negb (N.land 4096 4096 =? 0)) with true. cbn [app]. rewrite <- ?app_assoc. reflexivity.
Qed.

(** sequences: one outer packet per inner packet, in order; ERSPAN II numbers them consecutively *)
Lemma erspan2_encap_state f b ix f1 q : erspan2_encap f b ix = Ok (f1, q) ->
  e2_seq f1 = wrap32 (e2_seq f + 1) /\ e2_sess f1 = e2_sess f /\ e2_cl f1 = e2_cl f /\ e2_sv f1 = e2_sv f /\ e2_raw f1 = e2_raw f.
Proof.
  unfold erspan2_encap.
  destruct (gre_new _ _ _ _ _); cbn [obind]; try discriminate.
  destruct (gre_push _ _); cbn [obind]; try discriminate.
  destruct (gre_push _ _); cbn [obind]; try discriminate. intros E. ok_inv E. repeat split.
Qed.

Theorem erspan2_encap_all_counts ix ps : forall f f' qs,
  erspan2_encap_all f ix ps = Ok (f', qs) ->
  e2_seq f < 4294967296 ->
  length qs = length ps /\ e2_seq f' = (e2_seq f + len ps) mod 4294967296 /\ e2_sess f' = e2_sess f
  /\ e2_cl f' = e2_cl f /\ e2_sv f' = e2_sv f /\ e2_raw f' = e2_raw f.
Proof.
  induction ps as [|k r IH]; intros f f' qs; cbn [erspan2_encap_all].
  - intros E Hb. ok_inv E. change (len (@nil packet)) with 0. rewrite N.add_0_r, N.mod_small by lia. repeat split.
  - destruct (erspan2_encap f (pkt_frame k) ix) as [[f1 q]| | |] eqn:E1; cbn [obind]; try discriminate.
    destruct (erspan2_encap_all f1 ix r) as [[f2 qs2]| | |] eqn:E2; cbn [obind]; try discriminate.
    intros E Hb. ok_inv E.
    destruct (erspan2_encap_state _ _ _ _ _ E1) as (A1 & A2 & A3 & A4 & A5).
    assert (Hb1 : e2_seq f1 < 4294967296) by (rewrite A1; unfold wrap32; lia).
    destruct (IH _ _ _ E2 Hb1) as (Hl & Hs & Hss & Hc & Hv & Hr).
    clear E1 E2 IH.
    cbn [length]. rewrite len_cons.
    split; [lia|]. split; [rewrite Hs, A1; unfold wrap32; lia|]. split; [congruence|]. split; [congruence|]. split; congruence.
Qed.

Theorem omapM_length {A B} (g : A -> outcome B) l qs : omapM g l = Ok qs -> length qs = length l.
Proof.
  revert qs. induction l as [|x r IH]; intros qs; cbn [omapM]; [intros E; ok_inv E; reflexivity|].
  destruct (g x); cbn [obind]; try discriminate. destruct (omapM g r); cbn [obind]; try discriminate.
  intros E. ok_inv E. cbn. f_equal. apply IH. reflexivity.
Qed.

Theorem omapM_nth {A B} (g : A -> outcome B) l qs n x :
  omapM g l = Ok qs -> nth_error l n = Some x -> exists q, nth_error qs n = Some q /\ g x = Ok q.
Proof.
  revert qs n. induction l as [|y r IH]; intros qs n; cbn [omapM]; [intros _ Hn; destruct n; discriminate|].
  destruct (g y) as [q0| | |] eqn:Ey; cbn [obind]; try discriminate.
  destruct (omapM g r) as [qr| | |] eqn:Er; cbn [obind]; try discriminate.
  intros E Hn. ok_inv E. destruct n as [|n]; cbn in *.
  - inversion Hn; subst. exists q0. split; [reflexivity|exact Ey].
  - apply (IH qr n eq_refl Hn).
Qed.
