(** C06, nesting to any depth: [wrap] composes the ezpkt encapsulation functions, [peel] is made only of
    the independent readers of Spec/Wire.v and the decoders of Spec/Tunnel.v. *)
From RS Require Import Base.Bytes Base.Outcome Pkt.Csum Pkt.Hdrs Pkt.Packet Ez.Tcp Ez.Udp Ez.Gre
  Spec.Wire Spec.Tunnel Spec.TunnelPeel Proofs.BytesLemmas Proofs.C18.Framing Proofs.C06.Tunnels Proofs.Tactics.
From Coq Require Import ZArith Lia ZifyBool ZifyNat ZifyN.
Ltac Zify.zify_post_hook ::= Z.div_mod_to_equations.
Open Scope N_scope.

(* ---------------- implementation side: one layer = one session in the state it has for this packet ---------------- *)
(** the flow records carry kind, addresses/ports, VNI / ethertype, raw flag and the running sequence counter
    ([gl_seq] / [e2_seq] = the number this packet gets); ERSPAN II also takes the call's port index *)
Inductive layer :=
| LVxlan (f : vxlan_flow)
| LGre (f : gre_flow)
| LErspan1 (f : erspan1_flow)
| LErspan2 (f : erspan2_flow) (ix : N).

Definition wrap1 (l : layer) (b : bytes) : outcome bytes :=
  match l with
  | LVxlan f => do p <- vxlan_encap f b; Ok (pkt_frame p)
  | LGre f => do (_, p) <- gre_flow_encap f b; Ok (pkt_frame p)
  | LErspan1 f => do p <- erspan1_encap f b; Ok (pkt_frame p)
  | LErspan2 f ix => do (_, p) <- erspan2_encap f b ix; Ok (pkt_frame p)
  end.

(** innermost layer first *)
Fixpoint wrap (ls : list layer) (b : bytes) : outcome bytes :=
  match ls with
  | [] => Ok b
  | l :: r => do x <- wrap1 l b; wrap r x
  end.

(** the specification of a layer: its session's parameters *)
Definition spec_of (l : layer) : lspec :=
  match l with
  | LVxlan f => {| t_kind := KVxlan; t_raw := vx_raw f; t_src := fst (vx_cl f); t_dst := fst (vx_sv f);
                   t_sport := snd (vx_cl f); t_dport := snd (vx_sv f); t_vni := vx_vni f; t_et := 0; t_ix := 0; t_seq := None |}
  | LGre f => {| t_kind := KGre; t_raw := gl_raw f; t_src := gl_cl f; t_dst := gl_sv f; t_sport := 0; t_dport := 0;
                 t_vni := 0; t_et := gl_ethertype f; t_ix := 0;
                 t_seq := if gf_s (gl_flags f) then Some (gl_seq f) else None |}
  | LErspan1 f => {| t_kind := KErspan1; t_raw := e1_raw f; t_src := e1_cl f; t_dst := e1_sv f; t_sport := 0; t_dport := 0;
                     t_vni := 0; t_et := 0; t_ix := 0; t_seq := None |}
  | LErspan2 f ix => {| t_kind := KErspan2; t_raw := e2_raw f; t_src := e2_cl f; t_dst := e2_sv f; t_sport := 0; t_dport := 0;
                        t_vni := 0; t_et := 0; t_ix := ix; t_seq := Some (e2_seq f) |}
  end.

(** field widths: the values fit the header fields they are written to *)
Definition wf_layer (l : layer) : Prop :=
  match l with
  | LVxlan f => fst (vx_cl f) < 4294967296 /\ fst (vx_sv f) < 4294967296
                /\ snd (vx_cl f) < 65536 /\ snd (vx_sv f) < 65536 /\ vx_vni f < 16777216
  | LGre f => gl_cl f < 4294967296 /\ gl_sv f < 4294967296 /\ gl_ethertype f < 65536 /\ gl_seq f < 4294967296
              /\ exists s, gl_flags f = gre_flags_seq gre_flags_default s
  | LErspan1 f => e1_cl f < 4294967296 /\ e1_sv f < 4294967296
  | LErspan2 f ix => e2_cl f < 4294967296 /\ e2_sv f < 4294967296 /\ e2_seq f < 4294967296 /\ e2_sess f = 0
  end.

(* ---------------- what the builders produce (they never fail) ---------------- *)
Lemma vxlan_encap_shape f inner : exists iph uh,
  vxlan_encap f inner = Ok (pkt_of_body (framed (vx_raw f) (eth_for (fst (vx_cl f)) (fst (vx_sv f)))
                       (ip_ser iph ++ udp_ser uh ++ vxlan_ser (vx_vni f) ++ inner)))
  /\ ip_proto iph = 17 /\ ip_src iph = fst (vx_cl f) /\ ip_dst iph = fst (vx_sv f)
  /\ uh_sport uh = snd (vx_cl f) /\ uh_dport uh = snd (vx_sv f).
Proof.
  unfold vxlan_encap, udp_push. cbn [obind].
  eexists. eexists. split; [reflexivity|]. repeat split.
Qed.

Definition gre_next (f : gre_flow) : gre_flow :=
  {| gl_cl := gl_cl f; gl_sv := gl_sv f; gl_flags := gl_flags f; gl_ethertype := gl_ethertype f;
     gl_raw := gl_raw f; gl_seq := wrap32 (gl_seq f + 1) |}.
Definition erspan2_next (f : erspan2_flow) : erspan2_flow :=
  {| e2_cl := e2_cl f; e2_sv := e2_sv f; e2_raw := e2_raw f; e2_seq := wrap32 (e2_seq f + 1); e2_sess := e2_sess f |}.

Lemma gre_flow_encap_shape f b : exists iph,
  gre_flow_encap f b = Ok (gre_next f,
     pkt_of_body (framed (gl_raw f) (eth_for (gl_cl f) (gl_sv f))
        (ip_ser iph ++ gre_ser (gre_flags_word (gl_flags f)) (gl_ethertype f)
          ++ (if negb (N.land (gre_flags_word (gl_flags f)) 4096 =? 0) then be32 (gl_seq f) else []) ++ b)))
  /\ ip_proto iph = 47 /\ ip_src iph = gl_cl f /\ ip_dst iph = gl_sv f.
Proof.
  unfold gre_flow_encap, gre_new, gre_next.
  destruct (negb (N.land (gre_flags_word (gl_flags f)) 4096 =? 0)); cbn [obind]; unfold gre_push; cbn [obind];
  (eexists; split; [reflexivity|repeat split]).
Qed.

Lemma erspan1_encap_shape f b : exists iph,
  erspan1_encap f b = Ok (pkt_of_body (framed (e1_raw f) (eth_for (e1_cl f) (e1_sv f))
        (ip_ser iph ++ gre_ser 0 ETH_ERSPAN_1_2 ++ b)))
  /\ ip_proto iph = 47 /\ ip_src iph = e1_cl f /\ ip_dst iph = e1_sv f.
Proof.
  unfold erspan1_encap, gre_new. change (negb (N.land (gre_flags_word gre_flags_default) 4096 =? 0)) with false.
  cbn [obind]. unfold gre_push. cbn [obind]. eexists. split; [reflexivity|repeat split].
Qed.

Lemma erspan2_encap_shape f b ix : exists iph,
  erspan2_encap f b ix = Ok (erspan2_next f,
     pkt_of_body (framed (e2_raw f) (eth_for (e2_cl f) (e2_sv f))
        (ip_ser iph ++ gre_ser 4096 ETH_ERSPAN_1_2 ++ be32 (e2_seq f) ++ erspan2_ser (e2_sess f) ix ++ b)))
  /\ ip_proto iph = 47 /\ ip_src iph = e2_cl f /\ ip_dst iph = e2_sv f.
Proof.
  unfold erspan2_encap, gre_new, erspan2_next.
  change (gre_flags_word (gre_flags_seq gre_flags_default true)) with 4096.
  change (negb (N.land 4096 4096 =? 0)) with true.
  cbn [obind]. unfold gre_push. cbn [obind]. eexists. split; [reflexivity|repeat split].
Qed.

(* ---------------- the IPv4/Ethernet part of a built frame ---------------- *)
Lemma ip_ser_bytes iph : exists b2 b3 b4 b5 b6 b7 b10 b11,
  ip_ser iph = [69; 0; b2; b3; b4; b5; b6; b7; ip_ttl iph; ip_proto iph; b10; b11] ++ be32 (ip_src iph) ++ be32 (ip_dst iph).
Proof. repeat eexists. Qed.

Lemma be32_read v : v < 4294967296 ->
  ((v / 65536 / 256 mod 256) * 256 + v / 65536 mod 256) * 65536 + ((v mod 65536 / 256 mod 256) * 256 + v mod 65536 mod 256) = v.
Proof. intros H. lia. Qed.

Lemma strip_outer_framed s a b iph x :
  ip_src iph = t_src s -> ip_dst iph = t_dst s -> t_src s < 4294967296 -> t_dst s < 4294967296 ->
  strip_outer s (framed (t_raw s) (eth_for a b) (ip_ser iph ++ x)) = Some (ip_proto iph, x).
Proof.
  intros Es Ed Hs Hd.
  destruct (ip_ser_bytes iph) as (b2 & b3 & b4 & b5 & b6 & b7 & b10 & b11 & E). rewrite E, Es, Ed. clear E.
  unfold strip_outer, framed, eth_for, mac_of_ip, be32, be16.
  destruct (t_raw s); cbn [negb andb app skipn u16_at nth].
  - cbn [length Nat.ltb Nat.leb]. change (69 =? 69) with true. cbn [negb].
    unfold ip_src_of, ip_dst_of, ip_proto_of, u32_at, u16_at. cbn [Nat.add nth].
    rewrite (be32_read _ Hs), (be32_read _ Hd), !N.eqb_refl. reflexivity.
  - change (8 * 256 + 0 =? 2048) with true. cbn [negb length Nat.ltb Nat.leb]. change (69 =? 69) with true. cbn [negb].
    unfold ip_src_of, ip_dst_of, ip_proto_of, u32_at, u16_at. cbn [Nat.add nth].
    rewrite (be32_read _ Hs), (be32_read _ Hd), !N.eqb_refl. reflexivity.
Qed.

(* ---------------- tunnel headers ---------------- *)
Lemma be16_read v : v < 65536 -> (v / 256 mod 256) * 256 + v mod 256 = v.
Proof. intros H. lia. Qed.

Lemma peel_tunnel_vxlan s uh inner :
  t_kind s = KVxlan -> uh_sport uh = t_sport s -> uh_dport uh = t_dport s ->
  t_sport s < 65536 -> t_dport s < 65536 -> t_vni s < 16777216 ->
  peel_tunnel s 17 (udp_ser uh ++ vxlan_ser (t_vni s) ++ inner) = Some inner.
Proof.
  intros K Es Ed Hs Hd Hv. unfold peel_tunnel. rewrite K. change (17 =? 17) with true. cbn [negb].
  unfold udp_ser, be16. rewrite Es, Ed. cbn [app skipn]. unfold u16_at. cbn [nth].
  rewrite (be16_read _ Hs), (be16_read _ Hd), !N.eqb_refl. cbn [negb orb].
  rewrite (vxlan_decode_ser _ inner Hv), N.eqb_refl. reflexivity.
Qed.

Lemma peel_tunnel_gre_plain s proto b :
  (t_kind s = KGre /\ t_et s = proto \/ t_kind s = KErspan1 /\ proto = 35006) -> proto < 65536 -> t_seq s = None ->
  peel_tunnel s 47 (gre_ser 0 proto ++ b) = Some b.
Proof.
  intros K Hp Hq. unfold peel_tunnel. rewrite (gre_decode_plain proto b Hp). cbn [g_proto g_seq g_payload]. rewrite Hq.
  destruct K as [(K & E)|(K & E)]; rewrite K; change (47 =? 47) with true; cbn [negb opt_N_eqb].
  - rewrite E, N.eqb_refl. reflexivity.
  - rewrite E. reflexivity.
Qed.

Lemma peel_tunnel_gre_seq s n b :
  t_kind s = KGre -> t_et s < 65536 -> n < 4294967296 -> t_seq s = Some n ->
  peel_tunnel s 47 (gre_ser 4096 (t_et s) ++ be32 n ++ b) = Some b.
Proof.
  intros K Hp Hn Hq. unfold peel_tunnel. rewrite (gre_decode_seq _ n b Hp Hn). cbn [g_proto g_seq g_payload]. rewrite Hq, K.
  change (47 =? 47) with true; cbn [negb opt_N_eqb]. rewrite !N.eqb_refl. reflexivity.
Qed.

Lemma peel_tunnel_erspan2 s n b :
  t_kind s = KErspan2 -> n < 4294967296 -> t_seq s = Some n ->
  peel_tunnel s 47 (gre_ser 4096 ETH_ERSPAN_1_2 ++ be32 n ++ erspan2_ser 0 (t_ix s) ++ b) = Some b.
Proof.
  intros K Hn Hq. unfold peel_tunnel.
  rewrite (gre_decode_seq ETH_ERSPAN_1_2 n (erspan2_ser 0 (t_ix s) ++ b)) by (unfold ETH_ERSPAN_1_2; lia || exact Hn).
  cbn [g_proto g_seq g_payload]. rewrite Hq, K, erspan2_decode_ser.
  change (47 =? 47) with true. change (ETH_ERSPAN_1_2 =? 35006) with true. change (1 =? 1) with true.
  cbn [negb opt_N_eqb]. rewrite !N.eqb_refl. reflexivity.
Qed.

Theorem peel1_wrap1 l b o : wf_layer l -> wrap1 l b = Ok o -> peel1 (spec_of l) o = Some b.
Proof.
  destruct l as [f|f|f|f ix]; cbn [wf_layer wrap1].
  - intros (H1 & H2 & H3 & H4 & H5). destruct (vxlan_encap_shape f b) as (iph & uh & E & P & S & D & Sp & Dp).
    rewrite E. cbn [obind]. intros X. apply Ok_inj in X. subst o. unfold pkt_frame, pkt_of_body. cbn [pk_body].
    unfold peel1.
    rewrite (strip_outer_framed (spec_of (LVxlan f)) _ _ iph) by (cbn [spec_of t_src t_dst]; assumption).
    rewrite P. apply (peel_tunnel_vxlan (spec_of (LVxlan f))); cbn [spec_of t_kind t_sport t_dport t_vni]; try assumption; reflexivity.
  - intros (H1 & H2 & H3 & H4 & (s & H5)). destruct (gre_flow_encap_shape f b) as (iph & E & P & S & D).
    rewrite E. cbn [obind]. intros X. apply Ok_inj in X. subst o. unfold pkt_frame, pkt_of_body. cbn [pk_body].
    unfold peel1.
    rewrite (strip_outer_framed (spec_of (LGre f)) _ _ iph) by (cbn [spec_of t_src t_dst]; assumption).
    rewrite P, H5. destruct s.
    + change (gre_flags_word (gre_flags_seq gre_flags_default true)) with 4096.
      change (negb (N.land 4096 4096 =? 0)) with true. cbn iota.
      apply (peel_tunnel_gre_seq (spec_of (LGre f))); cbn [spec_of t_kind t_et t_seq]; try assumption; try reflexivity.
      rewrite H5. reflexivity.
    + change (gre_flags_word (gre_flags_seq gre_flags_default false)) with 0.
      change (negb (N.land 0 4096 =? 0)) with false. cbn iota. cbn [app].
      apply (peel_tunnel_gre_plain (spec_of (LGre f))); cbn [spec_of t_kind t_et t_seq]; try assumption.
      * left. split; reflexivity.
      * rewrite H5. reflexivity.
  - intros (H1 & H2). destruct (erspan1_encap_shape f b) as (iph & E & P & S & D).
    rewrite E. cbn [obind]. intros X. apply Ok_inj in X. subst o. unfold pkt_frame, pkt_of_body. cbn [pk_body].
    unfold peel1.
    rewrite (strip_outer_framed (spec_of (LErspan1 f)) _ _ iph) by (cbn [spec_of t_src t_dst]; assumption).
    rewrite P. apply (peel_tunnel_gre_plain (spec_of (LErspan1 f))); cbn [spec_of t_kind t_et t_seq]; try reflexivity.
    + right. split; reflexivity.
  - intros (H1 & H2 & H3 & H4). destruct (erspan2_encap_shape f b ix) as (iph & E & P & S & D).
    rewrite E. cbn [obind]. intros X. apply Ok_inj in X. subst o. unfold pkt_frame, pkt_of_body. cbn [pk_body].
    unfold peel1.
    rewrite (strip_outer_framed (spec_of (LErspan2 f ix)) _ _ iph) by (cbn [spec_of t_src t_dst]; assumption).
    rewrite P, H4. apply (peel_tunnel_erspan2 (spec_of (LErspan2 f ix))); cbn [spec_of t_kind t_seq]; try assumption; reflexivity.
Qed.

(* ---------------- any depth ---------------- *)
Lemma peel_app a b fr : peel (a ++ b) fr = match peel a fr with Some x => peel b x | None => None end.
Proof.
  revert fr. induction a as [|s r IH]; intros fr; cbn [app peel]; [reflexivity|].
  destruct (peel1 s fr); [apply IH|reflexivity].
Qed.

Theorem wrap_peel ls : forall inner outer,
  Forall wf_layer ls -> wrap ls inner = Ok outer -> peel (map spec_of (rev ls)) outer = Some inner.
Proof.
  induction ls as [|l r IH]; intros inner outer W; cbn [wrap rev map peel].
  - intros E. apply Ok_inj in E. subst outer. reflexivity.
  - destruct (wrap1 l inner) as [x| | |] eqn:E1; cbn [obind]; try discriminate.
    intros E2. inversion W as [|l' r' Wl Wr]; subst l' r'.
    rewrite map_app, peel_app, (IH x outer Wr E2). cbn [map peel].
    rewrite (peel1_wrap1 l inner x Wl E1). reflexivity.
Qed.

(** the builders never fail, so every nesting of every frame exists *)
Lemma wrap1_total l b : exists o, wrap1 l b = Ok o.
Proof.
  destruct l as [f|f|f|f ix]; cbn [wrap1].
  - destruct (vxlan_encap_shape f b) as (iph & uh & E & _). rewrite E. cbn [obind]. eexists. reflexivity.
  - destruct (gre_flow_encap_shape f b) as (iph & E & _). rewrite E. cbn [obind]. eexists. reflexivity.
  - destruct (erspan1_encap_shape f b) as (iph & E & _). rewrite E. cbn [obind]. eexists. reflexivity.
  - destruct (erspan2_encap_shape f b ix) as (iph & E & _). rewrite E. cbn [obind]. eexists. reflexivity.
Qed.

Theorem wrap_total ls : forall b, exists o, wrap ls b = Ok o.
Proof.
  induction ls as [|l r IH]; intros b; cbn [wrap]; [eexists; reflexivity|].
  destruct (wrap1_total l b) as (x & E). rewrite E. cbn [obind]. apply IH.
Qed.

(** nesting is injective in the inner frame: different inner frames give different outer frames *)
Corollary wrap_injective ls a b o :
  Forall wf_layer ls -> wrap ls a = Ok o -> wrap ls b = Ok o -> a = b.
Proof.
  intros W Ea Eb. pose proof (wrap_peel ls a o W Ea) as Pa. pose proof (wrap_peel ls b o W Eb) as Pb.
  rewrite Pa in Pb. inversion Pb. reflexivity.
Qed.
