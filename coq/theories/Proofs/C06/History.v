(** C06, sequence numbers over histories: over any sequence of [encap] calls on one session object,
    interleaved with anything that leaves that heap cell alone, the k-th packet the session ever produced
    carries sequence number (start + k) mod 2^32. *)
From RS Require Import Base.Bytes Base.Outcome Pkt.Csum Pkt.Hdrs Pkt.Packet Ez.Tcp Ez.Udp Ez.Gre Interp.Val
  Lib.LibBase Lib.MiscLib Spec.Wire Spec.Tunnel Proofs.BytesLemmas Proofs.C18.Framing Spec.TunnelPeel Proofs.C06.Tunnels
  Proofs.C06.Nesting Proofs.C06.LibLevel Proofs.Tactics.
From Coq Require Import ZArith Lia ZifyBool ZifyNat ZifyN.
Ltac Zify.zify_post_hook ::= Z.div_mod_to_equations.
Open Scope N_scope.

Lemma skip_outer (raw : bool) a b iph x :
  skipn 20 (if raw then framed raw (eth_for a b) (ip_ser iph ++ x) else skipn 14 (framed raw (eth_for a b) (ip_ser iph ++ x))) = x.
Proof. destruct raw; reflexivity. Qed.

Lemma erspan2_encap_seq f b ix f' q :
  erspan2_encap f b ix = Ok (f', q) -> e2_seq f < 4294967296 -> outer_seq (e2_raw f) (pk_body q) = Some (e2_seq f).
Proof.
  intros E H. destruct (erspan2_encap_shape f b ix) as (iph & E' & _). rewrite E' in E. ok_inv E.
  unfold outer_seq, pkt_of_body. cbn [pk_body]. rewrite skip_outer.
  rewrite gre_decode_seq; [reflexivity|unfold ETH_ERSPAN_1_2; lia|exact H].
Qed.

Lemma gre_flow_encap_seq f b s f' q :
  gre_flow_encap f b = Ok (f', q) -> gl_flags f = gre_flags_seq gre_flags_default s ->
  gl_ethertype f < 65536 -> gl_seq f < 4294967296 ->
  outer_seq (gl_raw f) (pk_body q) = if s then Some (gl_seq f) else None.
Proof.
  intros E Hfl He H. destruct (gre_flow_encap_shape f b) as (iph & E' & _). rewrite E' in E. ok_inv E.
  unfold outer_seq, pkt_of_body. cbn [pk_body]. rewrite skip_outer, Hfl. destruct s.
  - change (gre_flags_word (gre_flags_seq gre_flags_default true)) with 4096.
    change (negb (N.land 4096 4096 =? 0)) with true. cbn iota.
    rewrite gre_decode_seq; [reflexivity|exact He|exact H].
  - change (gre_flags_word (gre_flags_seq gre_flags_default false)) with 0.
    change (negb (N.land 0 4096 =? 0)) with false. cbn iota. cbn [app].
    rewrite gre_decode_plain; [reflexivity|exact He].
Qed.

(* ---------------- histories ---------------- *)
(** [run m a h out h']: from heap [h], a finite sequence of steps ends in [h']; a step is either a successful
    call of method [m] on the object at [a] (any arguments; its result batch is appended to [out]) or any
    other change of the heap that leaves cell [a] as it is (calls on other sessions, allocations, ...). *)
Inductive run (m : option nat -> list val -> list val -> heap -> option libres) (a : nat)
  : heap -> list (list packet) -> heap -> Prop :=
| run_done h : run m a h [] h
| run_call h args x qs h1 out h2 :
    m (Some a) args x h = Some (Ok (VPktGen qs, h1)) -> run m a h1 out h2 -> run m a h (qs :: out) h2
| run_other h h1 out h2 :
    nth_error h1 a = nth_error h a -> run m a h1 out h2 -> run m a h out h2.

Lemma erspan2_at_at f i j : erspan2_at (erspan2_at f i) j = erspan2_at f (i + j).
Proof. unfold erspan2_at. cbn [e2_cl e2_sv e2_raw e2_seq e2_sess]. f_equal. lia. Qed.
Lemma gre_at_at f i j : gre_at (gre_at f i) j = gre_at f (i + j).
Proof. unfold gre_at. cbn [gl_cl gl_sv gl_flags gl_ethertype gl_raw gl_seq]. f_equal. lia. Qed.

Lemma erspan2_method_inv a args x h f qs h1 :
  nth_error h a = Some (OErspan2 f) -> e2_seq f < 4294967296 ->
  erspan2_method "encap" (Some a) args x h = Some (Ok (VPktGen qs, h1)) ->
  exists ps ix, each_from_st (fun s p => erspan2_encap s (pkt_frame p) ix) (erspan2_at f) ps qs
    /\ heap_upd h h1 a (OErspan2 (erspan2_at f (len ps))).
Proof.
  intros Ha Hf. destruct args as [|gen [|ixv [|y r]]]; try (unfold erspan2_method; rewrite String.eqb_refl; unfold take_this; rewrite Ha; cbn [obind]; discriminate).
  destruct (conv_pktgen gen) as [ps| | |] eqn:Eg;
    try (unfold erspan2_method; rewrite String.eqb_refl; unfold take_this; rewrite Ha; cbn [obind]; rewrite Eg; cbn [obind]; discriminate).
  destruct (conv_u32 ixv) as [ix| | |] eqn:Ei;
    try (unfold erspan2_method; rewrite String.eqb_refl; unfold take_this; rewrite Ha; cbn [obind]; rewrite Eg; cbn [obind]; rewrite Ei; cbn [obind]; discriminate).
  destruct (erspan2_encap_lib h a f gen ixv ps ix x Ha Hf Eg Ei) as (qs' & h' & E & Hq & Hh).
  rewrite E. intros X. inversion X; subst qs' h'. exists ps, ix. split; assumption.
Qed.

Lemma gre_method_inv a args x h f qs h1 :
  nth_error h a = Some (OGre f) -> gl_seq f < 4294967296 ->
  gre_method "encap" (Some a) args x h = Some (Ok (VPktGen qs, h1)) ->
  exists ps, each_from_st (fun s p => gre_flow_encap s (pkt_frame p)) (gre_at f) ps qs
    /\ heap_upd h h1 a (OGre (gre_at f (len ps))).
Proof.
  intros Ha Hf. destruct args as [|gen [|y r]]; try (unfold gre_method; rewrite String.eqb_refl; unfold take_this; rewrite Ha; cbn [obind]; discriminate).
  destruct (conv_pktgen gen) as [ps| | |] eqn:Eg;
    try (unfold gre_method; rewrite String.eqb_refl; unfold take_this; rewrite Ha; cbn [obind]; rewrite Eg; cbn [obind]; discriminate).
  destruct (gre_encap_lib h a f gen ps x Ha Hf Eg) as (qs' & h' & E & Hq & Hh).
  rewrite E. intros X. inversion X; subst qs' h'. exists ps. split; assumption.
Qed.

Lemma nth_error_app_cases {A} (l r : list A) k q : nth_error (l ++ r) k = Some q ->
  (k < length l)%nat /\ nth_error l k = Some q \/ (length l <= k)%nat /\ nth_error r (k - length l) = Some q.
Proof.
  intros H. destruct (Nat.lt_ge_cases k (length l)) as [L|G].
  - left. split; [exact L|]. rewrite nth_error_app1 in H by exact L. exact H.
  - right. split; [exact G|]. rewrite nth_error_app2 in H by exact G. exact H.
Qed.

Lemma nth_error_some_lt {A} (l : list A) k q : nth_error l k = Some q -> (k < length l)%nat.
Proof. intros H. apply nth_error_Some. congruence. Qed.
Lemma nth_error_lt_some {A} (l : list A) k : (k < length l)%nat -> exists p, nth_error l k = Some p.
Proof. intros H. destruct (nth_error l k) eqn:E; [eexists; reflexivity|]. apply nth_error_None in E. lia. Qed.

Theorem erspan2_history a h out h2 :
  run (erspan2_method "encap") a h out h2 -> forall f,
  nth_error h a = Some (OErspan2 f) -> e2_seq f < 4294967296 ->
  (forall k q, nth_error (concat out) k = Some q ->
     outer_seq (e2_raw f) (pk_body q) = Some ((e2_seq f + N.of_nat k) mod 4294967296))
  /\ nth_error h2 a = Some (OErspan2 (erspan2_at f (len (concat out)))).
Proof.
  induction 1 as [h|h args x qs h1 out h2 Hc _ IH|h h1 out h2 Hs _ IH]; intros f Ha Hf.
  - cbn [concat]. split; [intros [|k] q Hk; discriminate|]. change (len (@nil packet)) with 0. rewrite erspan2_at_0 by exact Hf. exact Ha.
  - destruct (erspan2_method_inv _ _ _ _ _ _ _ Ha Hf Hc) as (ps & ix & (Hl & Hi) & (Hh & _)).
    assert (Hf1 : e2_seq (erspan2_at f (len ps)) < 4294967296) by (unfold erspan2_at; cbn [e2_seq]; lia).
    destruct (IH _ Hh Hf1) as (IHk & IHh). clear IH. cbn [concat]. split.
    + intros k q Hk. destruct (nth_error_app_cases _ _ _ _ Hk) as [(L & Hq)|(G & Hq)].
      * rewrite Hl in L. destruct (nth_error_lt_some ps k L) as (p & Hp).
        destruct (Hi k p Hp) as (q' & Hq' & E). rewrite Hq in Hq'. inversion Hq'; subst q'.
        apply erspan2_encap_seq in E; [|unfold erspan2_at; cbn [e2_seq]; lia].
        unfold erspan2_at in E. cbn [e2_raw e2_seq] in E. exact E.
      * specialize (IHk _ _ Hq). unfold erspan2_at in IHk. cbn [e2_raw e2_seq] in IHk. rewrite IHk. f_equal.
        unfold len. rewrite <- Hl. lia.
    + rewrite IHh, erspan2_at_at. unfold len. rewrite app_length, <- Hl. apply f_equal, f_equal, f_equal. lia.
  - rewrite <- Hs in Ha. apply (IH f Ha Hf).
Qed.

Theorem gre_history a h out h2 :
  run (gre_method "encap") a h out h2 -> forall f s,
  nth_error h a = Some (OGre f) -> gl_flags f = gre_flags_seq gre_flags_default s ->
  gl_ethertype f < 65536 -> gl_seq f < 4294967296 ->
  (forall k q, nth_error (concat out) k = Some q ->
     outer_seq (gl_raw f) (pk_body q) = if s then Some ((gl_seq f + N.of_nat k) mod 4294967296) else None)
  /\ nth_error h2 a = Some (OGre (gre_at f (len (concat out)))).
Proof.
  induction 1 as [h|h args x qs h1 out h2 Hc _ IH|h h1 out h2 Hs _ IH]; intros f s Ha Hfl He Hf.
  - cbn [concat]. split; [intros [|k] q Hk; discriminate|]. change (len (@nil packet)) with 0. rewrite gre_at_0 by exact Hf. exact Ha.
  - destruct (gre_method_inv _ _ _ _ _ _ _ Ha Hf Hc) as (ps & (Hl & Hi) & (Hh & _)).
    assert (Hf1 : gl_seq (gre_at f (len ps)) < 4294967296) by (unfold gre_at; cbn [gl_seq]; lia).
    destruct (IH _ s Hh Hfl He Hf1) as (IHk & IHh). clear IH. cbn [concat]. split.
    + intros k q Hk. destruct (nth_error_app_cases _ _ _ _ Hk) as [(L & Hq)|(G & Hq)].
      * rewrite Hl in L. destruct (nth_error_lt_some ps k L) as (p & Hp).
        destruct (Hi k p Hp) as (q' & Hq' & E). rewrite Hq in Hq'. inversion Hq'; subst q'.
        apply (gre_flow_encap_seq _ _ s) in E; [|exact Hfl|exact He|unfold gre_at; cbn [gl_seq]; lia].
        unfold gre_at in E. cbn [gl_raw gl_seq] in E. exact E.
      * specialize (IHk _ _ Hq). unfold gre_at in IHk. cbn [gl_raw gl_seq] in IHk. rewrite IHk. destruct s; [|reflexivity]. f_equal.
        unfold len. rewrite <- Hl. lia.
    + rewrite IHh, gre_at_at. unfold len. rewrite app_length, <- Hl. apply f_equal, f_equal, f_equal. lia.
  - rewrite <- Hs in Ha. apply (IH f s Ha Hfl He Hf).
Qed.

(** a session created by [erspan2::session] starts at zero: its k-th packet ever carries k mod 2^32 *)
Theorem erspan2_history_fresh c s rawv r x h0 v h out h2 :
  conv_bool rawv = Ok r -> erspan2_session_fn [VIp4 c; VIp4 s; rawv] x h0 = Ok (v, h) ->
  v = VObj (length h0) /\
  (run (erspan2_method "encap") (length h0) h out h2 ->
   forall k q, nth_error (concat out) k = Some q -> outer_seq r (pk_body q) = Some (N.of_nat k mod 4294967296)).
Proof.
  intros Hr. unfold erspan2_session_fn. rewrite Hr. cbn [obind conv_ip4]. unfold alloc. intros E. ok_inv E.
  split; [reflexivity|]. intros R k q Hk.
  assert (Ha : nth_error (h0 ++ [OErspan2 {| e2_cl := c; e2_sv := s; e2_raw := r; e2_seq := 0; e2_sess := 0 |}]) (length h0)
               = Some (OErspan2 {| e2_cl := c; e2_sv := s; e2_raw := r; e2_seq := 0; e2_sess := 0 |})).
  { rewrite nth_error_app2 by lia. rewrite Nat.sub_diag. reflexivity. }
  destruct (erspan2_history _ _ _ _ R _ Ha) as (H & _); [cbn [e2_seq]; lia|].
  apply (H k q Hk).
Qed.

(* ---------------- what the "other" steps of a history may be ---------------- *)
(** any successful tunnel method call on an object at another address, and any allocation, leaves cell [a] as it is *)
Theorem tunnel_call_frame name b args x h v h1 :
  (vxlan_method name (Some b) args x h = Some (Ok (v, h1)) \/ gre_method name (Some b) args x h = Some (Ok (v, h1))
   \/ erspan1_method name (Some b) args x h = Some (Ok (v, h1)) \/ erspan2_method name (Some b) args x h = Some (Ok (v, h1))) ->
  forall a, a <> b -> nth_error h1 a = nth_error h a.
Proof.
  unfold vxlan_method, gre_method, erspan1_method, erspan2_method, take_this, bad_args, bad_downcast.
  intros [E|[E|[E|E]]] a Hab.
  - destruct (String.eqb name "encap"); [|destruct (String.eqb name "dgram"); [|discriminate]];
    (destruct (nth_error h b) as [o|]; cbn [obind] in E; [|discriminate]; destruct o; try discriminate;
     destruct args as [|g [|y r]]; try discriminate).
    + destruct (conv_pktgen g); cbn [obind] in E; try discriminate.
      destruct (omapM _ _); cbn [obind] in E; try discriminate. inversion E; subst. reflexivity.
    + destruct (conv_pkt g); cbn [obind] in E; try discriminate.
      destruct (vxlan_encap _ _); cbn [obind] in E; try discriminate. inversion E; subst. reflexivity.
  - destruct (String.eqb name "encap"); [|discriminate].
    destruct (nth_error h b) as [o|]; cbn [obind] in E; [|discriminate]; destruct o; try discriminate.
    destruct args as [|g [|y r]]; try discriminate.
    destruct (conv_pktgen g); cbn [obind] in E; try discriminate.
    destruct (gre_encap_all _ _) as [[f' out]| | |]; cbn [obind] in E; try discriminate. inversion E; subst.
    apply set_nth_other. exact Hab.
  - destruct (String.eqb name "encap"); [|discriminate].
    destruct (nth_error h b) as [o|]; cbn [obind] in E; [|discriminate]; destruct o; try discriminate.
    destruct args as [|g [|y r]]; try discriminate.
    destruct (conv_pktgen g); cbn [obind] in E; try discriminate.
    destruct (omapM _ _); cbn [obind] in E; try discriminate. inversion E; subst. reflexivity.
  - destruct (String.eqb name "encap"); [|discriminate].
    destruct (nth_error h b) as [o|]; cbn [obind] in E; [|discriminate]; destruct o; try discriminate.
    destruct args as [|g [|i [|y r]]]; try discriminate.
    destruct (conv_pktgen g); cbn [obind] in E; try discriminate.
    destruct (conv_u32 i); cbn [obind] in E; try discriminate.
    destruct (erspan2_encap_all _ _ _) as [[f' out]| | |]; cbn [obind] in E; try discriminate. inversion E; subst.
    apply set_nth_other. exact Hab.
Qed.

Lemma alloc_frame h o a : (a < length h)%nat -> nth_error (snd (alloc h o)) a = nth_error h a.
Proof. intros H. unfold alloc. cbn [snd]. apply nth_error_app1. exact H. Qed.
