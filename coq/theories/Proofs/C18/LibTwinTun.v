(** C18 at the level the interpreter executes, part 4: the tunnel sessions (Vxlan.dgram/encap, Gre.encap,
    Erspan1.encap, Erspan2.encap).  Twin sessions (equal but for the raw flag) given the same inner packets
    return outer packets that are pairwise [framed r1 eth l3] / [framed r2 eth l3] where [eth] is the uniform
    header of the SESSION's endpoints -- whatever frame is carried inside. *)
From RS Require Import Base.Bytes Base.Outcome Bind.Types Pkt.Csum Pkt.Hdrs Pkt.Packet Ez.Tcp Ez.Udp Ez.Gre
  Interp.Val Interp.Eval Lib.LibBase Lib.StdLib Lib.Ipv4Lib Lib.MiscLib
  Proofs.Tactics Proofs.C18.Framing Proofs.C18.LibTwinBase Proofs.C18.LibTwinFns
  Proofs.C08.LibTac Proofs.C03.LibCalls Proofs.C02.LibIp Proofs.C02.LibIpFns Proofs.C02.LibIpTun.
From RSGen Require Import Catalogue.
From Coq Require Import Lia.
Open Scope N_scope.

(** one outer packet per inner packet, all with the same header *)
Definition same_eth (eth : bytes) (ps : list packet) : list bytes := map (fun _ => eth) ps.

Lemma omapM_twin (g1 g2 : packet -> outcome packet) r1 r2 eth :
  (forall p, orel (pktT r1 r2 eth) (g1 p) (g2 p)) ->
  forall ps, orel (Forall3 (pktT r1 r2) (same_eth eth ps)) (omapM g1 ps) (omapM g2 ps).
Proof.
  intros K. induction ps as [|p r IH]; cbn [omapM same_eth map].
  - constructor. constructor.
  - eapply orel_bind; [apply K|]. intros q1 q2 Hq.
    eapply orel_bind; [exact IH|]. intros l1 l2 Hl. constructor. constructor; assumption.
Qed.

(* ------------------------------------------------------------------ VXLAN *)
Definition vxlan_raw (r : bool) (f : vxlan_flow) : vxlan_flow :=
  {| vx_cl := vx_cl f; vx_sv := vx_sv f; vx_vni := vx_vni f; vx_raw := r |}.

Lemma vxlan_encap_twin r1 r2 f inner :
  orel (pktT r1 r2 (eth_of_want (vxlan_want f))) (vxlan_encap (vxlan_raw r1 f) inner) (vxlan_encap (vxlan_raw r2 f) inner).
Proof.
  unfold vxlan_encap. cbn [vx_cl vx_sv vx_vni vx_raw vxlan_raw].
  eapply orel_bind; [apply udp_push_twin, udp_addr_twin|]. intros d1 d2 Hd.
  eapply orel_bind; [apply udp_push_twin, Hd|]. intros d1' d2' Hd'. constructor.
  apply (udp_packet_twin _ _ _ _ _ Hd').
Qed.

Definition tun_eth_plan (w : ip_want) (slots : list val) : option (list bytes) :=
  Some (match conv_pktgen (nth 0 slots VNil) with Ok ps => same_eth (eth_of_want w) ps | _ => [] end).

Lemma run_same_twin r1 r2 (h1 h2 : heap) pl (k1 k2 : outcome val) :
  orel (valT r1 r2 pl) k1 k2 ->
  orel (fun x y => snd x = h1 /\ snd y = h2 /\ valT r1 r2 pl (fst x) (fst y))
    (do v <- k1; Ok (v, h1)) (do v <- k2; Ok (v, h2)).
Proof.
  intros H. eapply orel_bind; [exact H|]. intros v1 v2 Hv. constructor. cbn [fst snd]. repeat split. exact Hv.
Qed.

Theorem vxlan_method_twin e ms name key slots extra h1 h2 a f r1 r2 :
  assoc "vxlan::Vxlan"%string class_table = Some ms -> In (name, key) ms ->
  nth_error h1 a = Some (OVxlan (vxlan_raw r1 f)) -> nth_error h2 a = Some (OVxlan (vxlan_raw r2 f)) ->
  oorel (fun x y => snd x = h1 /\ snd y = h2 /\ valT r1 r2 (tun_eth_plan (vxlan_want f) slots) (fst x) (fst y))
    (exec e key (Some a) slots extra h1) (exec e key (Some a) slots extra h2).
Proof.
  intros Hms Hin Hn1 Hn2. vm_compute in Hms. apply Some_inj in Hms. subst ms.
  cbn [In] in Hin.
  repeat (destruct Hin as [Hin|Hin]; [apply pair_equal_spec in Hin; destruct Hin as [<- <-]|]); [..|contradiction Hin].
  - (* dgram *) enter_twin Hn1 Hn2. slots_cases. osame.
    eapply orel_bind; [apply vxlan_encap_twin|]. intros q1 q2 Hq. constructor. cbn [fst snd].
    split; [reflexivity|]. split; [reflexivity|].
    unfold tun_eth_plan. cbn [nth]. destruct v; try discriminate E. cbn [conv_pktgen same_eth map].
    apply valT_pkt, Hq.
  - (* encap *) enter_twin Hn1 Hn2. slots_cases. osame.
    eapply orel_bind; [apply (omapM_twin _ _ r1 r2 (eth_of_want (vxlan_want f))); intros p; apply vxlan_encap_twin|].
    intros o1 o2 Ho. constructor. cbn [fst snd]. split; [reflexivity|]. split; [reflexivity|].
    unfold tun_eth_plan. cbn [nth]. rewrite E. apply valT_gen, Ho.
Qed.

(* ------------------------------------------------------------------ GRE frames *)
Definition gre_raw (r : bool) (g : gre_frame) : gre_frame :=
  {| gr_raw := r; gr_eth := gr_eth g; gr_ip := gr_ip g; gr_hdr := gr_hdr g; gr_seq := gr_seq g; gr_rest := gr_rest g |}.
Definition grT (r1 r2 : bool) (eth : bytes) (g1 g2 : gre_frame) : Prop :=
  exists g, eth_ser (gr_eth g) = eth /\ g1 = gre_raw r1 g /\ g2 = gre_raw r2 g.

Lemma gre_new_twin r1 r2 src dst flags proto :
  orel (grT r1 r2 (eth_for src dst)) (gre_new src dst flags proto r1) (gre_new src dst flags proto r2).
Proof.
  unfold gre_new. cbv zeta. destruct (negb _); constructor.
  - eexists {| gr_raw := false; gr_eth := _; gr_ip := _; gr_hdr := _; gr_seq := _; gr_rest := _ |}.
    split; [|split; reflexivity]. reflexivity.
  - eexists {| gr_raw := false; gr_eth := _; gr_ip := _; gr_hdr := _; gr_seq := _; gr_rest := _ |}.
    split; [|split; reflexivity]. reflexivity.
Qed.

Lemma gre_push_twin r1 r2 eth g1 g2 b : grT r1 r2 eth g1 g2 -> orel (grT r1 r2 eth) (gre_push g1 b) (gre_push g2 b).
Proof.
  intros (g & E & -> & ->). unfold gre_push. constructor.
  exists {| gr_raw := gr_raw g; gr_eth := gr_eth g;
            gr_ip := ip_calc_csum (ip_set_tot_len (gr_ip g) (wrap16 (ip_tot_len (gr_ip g) + wrap16 (len b))));
            gr_hdr := gr_hdr g; gr_seq := gr_seq g; gr_rest := (gr_rest g ++ b)%list |}.
  split; [exact E|split; reflexivity].
Qed.

Lemma gre_set_seq_twin r1 r2 eth g1 g2 n : grT r1 r2 eth g1 g2 -> grT r1 r2 eth (gre_set_seq g1 n) (gre_set_seq g2 n).
Proof. intros (g & E & -> & ->). exists (gre_set_seq g n). split; [exact E|split; reflexivity]. Qed.

Lemma gre_packet_twin r1 r2 eth g1 g2 : grT r1 r2 eth g1 g2 -> pktT r1 r2 eth (gre_packet g1) (gre_packet g2).
Proof.
  intros (g & E & -> & ->). unfold gre_packet, gre_bytes, framed. cbv zeta. cbn [gr_raw gr_eth gr_ip gr_hdr gr_seq gr_rest gre_raw].
  rewrite E. eexists. split; reflexivity.
Qed.

(* ------------------------------------------------------------------ GRE sessions *)
Definition gflow_raw (r : bool) (f : gre_flow) : gre_flow :=
  {| gl_cl := gl_cl f; gl_sv := gl_sv f; gl_flags := gl_flags f; gl_ethertype := gl_ethertype f; gl_raw := r; gl_seq := gl_seq f |}.
(** twin sessions between [cl] and [sv] *)
Definition gflowT (r1 r2 : bool) (cl sv : N) (f1 f2 : gre_flow) : Prop :=
  exists f, gl_cl f = cl /\ gl_sv f = sv /\ f1 = gflow_raw r1 f /\ f2 = gflow_raw r2 f.

Lemma gre_flow_encap_twin r1 r2 cl sv f1 f2 b : gflowT r1 r2 cl sv f1 f2 ->
  orel (fun x y => gflowT r1 r2 cl sv (fst x) (fst y) /\ pktT r1 r2 (eth_for cl sv) (snd x) (snd y))
    (gre_flow_encap f1 b) (gre_flow_encap f2 b).
Proof.
  intros (f & Ec & Es & -> & ->). unfold gre_flow_encap. cbn [gl_cl gl_sv gl_flags gl_ethertype gl_raw gl_seq gflow_raw].
  rewrite Ec, Es.
  eapply orel_bind; [apply gre_new_twin|]. intros g1 g2 Hg.
  eapply orel_bind; [apply gre_push_twin, gre_set_seq_twin, Hg|]. intros g1' g2' Hg'. constructor. cbn [fst snd].
  split; [|apply gre_packet_twin, Hg'].
  exists {| gl_cl := cl; gl_sv := sv; gl_flags := gl_flags f; gl_ethertype := gl_ethertype f; gl_raw := false;
            gl_seq := wrap32 (gl_seq f + 1) |}. repeat split.
Qed.

Lemma gre_encap_all_twin r1 r2 cl sv : forall ps f1 f2, gflowT r1 r2 cl sv f1 f2 ->
  orel (fun x y => gflowT r1 r2 cl sv (fst x) (fst y) /\ Forall3 (pktT r1 r2) (same_eth (eth_for cl sv) ps) (snd x) (snd y))
    (gre_encap_all f1 ps) (gre_encap_all f2 ps).
Proof.
  induction ps as [|p r IH]; intros f1 f2 Hf; cbn [gre_encap_all same_eth map].
  - constructor. split; [exact Hf|constructor].
  - eapply orel_bind; [apply gre_flow_encap_twin, Hf|]. intros [g1 q1] [g2 q2] [Hg Hq]. cbn [fst snd] in Hg, Hq.
    eapply orel_bind; [apply IH, Hg|]. intros [k1 l1] [k2 l2] [Hk Hl]. cbn [fst snd] in Hk, Hl. constructor.
    cbn [fst snd]. split; [exact Hk|constructor; assumption].
Qed.

Definition greT (r1 r2 : bool) (cl sv : N) (o1 o2 : obj) : Prop :=
  exists f1 f2, o1 = OGre f1 /\ o2 = OGre f2 /\ gflowT r1 r2 cl sv f1 f2.

Theorem gre_method_twin e ms name key slots extra h1 h2 a f1 f2 r1 r2 cl sv :
  assoc "gre::Gre"%string class_table = Some ms -> In (name, key) ms ->
  nth_error h1 a = Some (OGre f1) -> nth_error h2 a = Some (OGre f2) -> gflowT r1 r2 cl sv f1 f2 ->
  oorel (resT (greT r1 r2 cl sv) r1 r2 a h1 h2 (tun_eth_plan (want_default cl sv 47) slots))
    (exec e key (Some a) slots extra h1) (exec e key (Some a) slots extra h2).
Proof.
  intros Hms Hin Hn1 Hn2 Hf. vm_compute in Hms. apply Some_inj in Hms. subst ms.
  cbn [In] in Hin.
  repeat (destruct Hin as [Hin|Hin]; [apply pair_equal_spec in Hin; destruct Hin as [<- <-]|]); [..|contradiction Hin].
  enter_twin Hn1 Hn2. slots_cases. osame.
  eapply orel_bind; [apply gre_encap_all_twin, Hf|]. intros [g1 l1] [g2 l2] [Hg Hl]. cbn [fst snd] in Hg, Hl. constructor.
  exists (OGre g1), (OGre g2). cbn [fst snd]. split; [reflexivity|]. split; [reflexivity|].
  split; [exists g1, g2; repeat split; exact Hg|].
  unfold tun_eth_plan. cbn [nth]. rewrite E. apply valT_gen, Hl.
Qed.

(* ------------------------------------------------------------------ ERSPAN type I *)
Definition e1_with_raw (r : bool) (f : erspan1_flow) : erspan1_flow := {| e1_cl := e1_cl f; e1_sv := e1_sv f; e1_raw := r |}.

Lemma erspan1_encap_twin r1 r2 f b :
  orel (pktT r1 r2 (eth_for (e1_cl f) (e1_sv f))) (erspan1_encap (e1_with_raw r1 f) b) (erspan1_encap (e1_with_raw r2 f) b).
Proof.
  unfold erspan1_encap. cbn [e1_cl e1_sv e1_raw e1_with_raw].
  eapply orel_bind; [apply gre_new_twin|]. intros g1 g2 Hg.
  eapply orel_bind; [apply gre_push_twin, Hg|]. intros g1' g2' Hg'. constructor. apply gre_packet_twin, Hg'.
Qed.

Theorem erspan1_method_twin e ms name key slots extra h1 h2 a f r1 r2 :
  assoc "erspan1::Erspan1"%string class_table = Some ms -> In (name, key) ms ->
  nth_error h1 a = Some (OErspan1 (e1_with_raw r1 f)) -> nth_error h2 a = Some (OErspan1 (e1_with_raw r2 f)) ->
  oorel (fun x y => snd x = h1 /\ snd y = h2 /\ valT r1 r2 (tun_eth_plan (erspan1_want f) slots) (fst x) (fst y))
    (exec e key (Some a) slots extra h1) (exec e key (Some a) slots extra h2).
Proof.
  intros Hms Hin Hn1 Hn2. vm_compute in Hms. apply Some_inj in Hms. subst ms.
  cbn [In] in Hin.
  repeat (destruct Hin as [Hin|Hin]; [apply pair_equal_spec in Hin; destruct Hin as [<- <-]|]); [..|contradiction Hin].
  enter_twin Hn1 Hn2. slots_cases. osame.
  eapply orel_bind; [apply (omapM_twin _ _ r1 r2 (eth_of_want (erspan1_want f))); intros p; apply erspan1_encap_twin|].
  intros o1 o2 Ho. constructor. cbn [fst snd]. split; [reflexivity|]. split; [reflexivity|].
  unfold tun_eth_plan. cbn [nth]. rewrite E. apply valT_gen, Ho.
Qed.

(* ------------------------------------------------------------------ ERSPAN type II *)
Definition e2_with_raw (r : bool) (f : erspan2_flow) : erspan2_flow :=
  {| e2_cl := e2_cl f; e2_sv := e2_sv f; e2_raw := r; e2_seq := e2_seq f; e2_sess := e2_sess f |}.
Definition e2flowT (r1 r2 : bool) (cl sv : N) (f1 f2 : erspan2_flow) : Prop :=
  exists f, e2_cl f = cl /\ e2_sv f = sv /\ f1 = e2_with_raw r1 f /\ f2 = e2_with_raw r2 f.

Lemma erspan2_encap_twin r1 r2 cl sv f1 f2 b ix : e2flowT r1 r2 cl sv f1 f2 ->
  orel (fun x y => e2flowT r1 r2 cl sv (fst x) (fst y) /\ pktT r1 r2 (eth_for cl sv) (snd x) (snd y))
    (erspan2_encap f1 b ix) (erspan2_encap f2 b ix).
Proof.
  intros (f & Ec & Es & -> & ->). unfold erspan2_encap. cbv zeta. cbn [e2_cl e2_sv e2_raw e2_seq e2_sess e2_with_raw].
  rewrite Ec, Es.
  eapply orel_bind; [apply gre_new_twin|]. intros g1 g2 Hg.
  eapply orel_bind; [apply gre_push_twin, gre_set_seq_twin, Hg|]. intros g1' g2' Hg'.
  eapply orel_bind; [apply gre_push_twin, Hg'|]. intros g1'' g2'' Hg''. constructor. cbn [fst snd].
  split; [|apply gre_packet_twin, Hg''].
  exists {| e2_cl := cl; e2_sv := sv; e2_raw := false; e2_seq := wrap32 (e2_seq f + 1); e2_sess := e2_sess f |}. repeat split.
Qed.

Lemma erspan2_encap_all_twin r1 r2 cl sv ix : forall ps f1 f2, e2flowT r1 r2 cl sv f1 f2 ->
  orel (fun x y => e2flowT r1 r2 cl sv (fst x) (fst y) /\ Forall3 (pktT r1 r2) (same_eth (eth_for cl sv) ps) (snd x) (snd y))
    (erspan2_encap_all f1 ix ps) (erspan2_encap_all f2 ix ps).
Proof.
  induction ps as [|p r IH]; intros f1 f2 Hf; cbn [erspan2_encap_all same_eth map].
  - constructor. split; [exact Hf|constructor].
  - eapply orel_bind; [apply erspan2_encap_twin, Hf|]. intros [g1 q1] [g2 q2] [Hg Hq]. cbn [fst snd] in Hg, Hq.
    eapply orel_bind; [apply IH, Hg|]. intros [k1 l1] [k2 l2] [Hk Hl]. cbn [fst snd] in Hk, Hl. constructor.
    cbn [fst snd]. split; [exact Hk|constructor; assumption].
Qed.

Definition erspan2T (r1 r2 : bool) (cl sv : N) (o1 o2 : obj) : Prop :=
  exists f1 f2, o1 = OErspan2 f1 /\ o2 = OErspan2 f2 /\ e2flowT r1 r2 cl sv f1 f2.

Theorem erspan2_method_twin e ms name key slots extra h1 h2 a f1 f2 r1 r2 cl sv :
  assoc "erspan2::Erspan2"%string class_table = Some ms -> In (name, key) ms ->
  nth_error h1 a = Some (OErspan2 f1) -> nth_error h2 a = Some (OErspan2 f2) -> e2flowT r1 r2 cl sv f1 f2 ->
  oorel (resT (erspan2T r1 r2 cl sv) r1 r2 a h1 h2 (tun_eth_plan (want_default cl sv 47) slots))
    (exec e key (Some a) slots extra h1) (exec e key (Some a) slots extra h2).
Proof.
  intros Hms Hin Hn1 Hn2 Hf. vm_compute in Hms. apply Some_inj in Hms. subst ms.
  cbn [In] in Hin.
  repeat (destruct Hin as [Hin|Hin]; [apply pair_equal_spec in Hin; destruct Hin as [<- <-]|]); [..|contradiction Hin].
  enter_twin Hn1 Hn2. slots_cases. do 2 osame.
  eapply orel_bind; [apply erspan2_encap_all_twin, Hf|]. intros [g1 l1] [g2 l2] [Hg Hl]. cbn [fst snd] in Hg, Hl. constructor.
  exists (OErspan2 g1), (OErspan2 g2). cbn [fst snd]. split; [reflexivity|]. split; [reflexivity|].
  split; [exists g1, g2; repeat split; exact Hg|].
  unfold tun_eth_plan. cbn [nth]. rewrite E. apply valT_gen, Hl.
Qed.
