(** C18 at the level the interpreter executes, part 3: UDP flows, ipv4::udp::unicast / broadcast, ICMP flows,
    ipv4::datagram, IpFrag methods, dns::host.  Same shape as part 2: two runs that differ only in raw mode
    (the object's flag, or the call's [raw:] argument -- always the last slot) end the same way, and their
    packets are pairwise [framed r1 eth l3] / [framed r2 eth l3] for the uniform header of the addresses that
    C02b's plan designates for the IPv4 header. *)
From RS Require Import Base.Bytes Base.Outcome Bind.Types Pkt.Csum Pkt.Hdrs Pkt.Packet Ez.Tcp Ez.Udp Ez.Icmp Ez.Ip4
  Interp.Val Interp.Eval Lib.LibBase Lib.StdLib Lib.Ipv4Lib Lib.ProtoLib
  Proofs.Tactics Proofs.C18.Framing Proofs.C18.LibTwinBase
  Proofs.C08.LibTac Proofs.C03.LibCalls Proofs.C03.LibUdp Proofs.C03.LibIcmp Proofs.C02.LibIp Proofs.C02.LibIpFns
  Proofs.C07.Compose Proofs.C07.LibFrag.
From RSGen Require Import Catalogue.
From Coq Require Import Lia.
Open Scope N_scope.

(* ------------------------------------------------------------------ UDP datagrams *)
Definition udp_raw (r : bool) (d : udp_dgram) : udp_dgram :=
  {| ud_raw := r; ud_eth := ud_eth d; ud_ip := ud_ip d; ud_udp := ud_udp d; ud_payload := ud_payload d |}.

Definition dgT (r1 r2 : bool) (eth : bytes) (d1 d2 : udp_dgram) : Prop :=
  exists d, eth_ser (ud_eth d) = eth /\ d1 = udp_raw r1 d /\ d2 = udp_raw r2 d.

Section Udp.
Variables (r1 r2 : bool).
Notation dgT := (dgT r1 r2).

Lemma udp_addr_twin s t :
  dgT (eth_for (fst s) (fst t)) (udp_dst (udp_src (udp_new r1) s) t) (udp_dst (udp_src (udp_new r2) s) t).
Proof. exists (udp_dst (udp_src (udp_new false) s) t). repeat split. Qed.

Lemma udp_bcast_twin s t :
  dgT (eth_bcast_for (fst s)) (udp_broadcast (udp_dst (udp_src (udp_new r1) s) t)) (udp_broadcast (udp_dst (udp_src (udp_new r2) s) t)).
Proof. exists (udp_broadcast (udp_dst (udp_src (udp_new false) s) t)). repeat split. Qed.

Lemma udp_push_twin eth d1 d2 b : dgT eth d1 d2 -> orel (dgT eth) (udp_push d1 b) (udp_push d2 b).
Proof.
  intros (d & E & -> & ->). unfold udp_push. constructor.
  exists {| ud_raw := ud_raw d; ud_eth := ud_eth d;
            ud_ip := ip_calc_csum (ip_set_tot_len (ud_ip d) (wrap16 (ip_tot_len (ud_ip d) + wrap16 (len b))));
            ud_udp := {| uh_sport := uh_sport (ud_udp d); uh_dport := uh_dport (ud_udp d);
                         uh_len := wrap16 (uh_len (ud_udp d) + wrap16 (len b)); uh_csum := uh_csum (ud_udp d) |};
            ud_payload := (ud_payload d ++ b)%list |}.
  split; [exact E|split; reflexivity].
Qed.

Lemma udp_csum_raw r d : udp_csum (udp_raw r d) = omap (udp_raw r) (udp_csum d).
Proof.
  unfold udp_csum, omap. cbn [ud_ip ud_udp ud_payload udp_raw].
  destruct (cadd _ _ _ _); cbn [obind]; try reflexivity.
  destruct (cadd _ _ _ _); reflexivity.
Qed.

Lemma udp_csum_twin eth d1 d2 : dgT eth d1 d2 -> orel (dgT eth) (udp_csum d1) (udp_csum d2).
Proof.
  intros (d & E & -> & ->). rewrite !udp_csum_raw. unfold omap.
  destruct (udp_csum d) as [d'| | |] eqn:Ec; cbn [obind]; constructor.
  exists d'. split; [|split; reflexivity].
  destruct (udp_options_keep_eth d) as (_ & _ & K). destruct (K d' Ec) as (Ee & _). rewrite Ee. exact E.
Qed.

Lemma udp_csum_opt_twin eth (cs : bool) d1 d2 : dgT eth d1 d2 ->
  orel (dgT eth) (if cs then udp_csum d1 else Ok d1) (if cs then udp_csum d2 else Ok d2).
Proof. intros H. destruct cs; [apply udp_csum_twin, H|constructor; exact H]. Qed.

Lemma udp_frag_off_twin eth d1 d2 off : dgT eth d1 d2 -> dgT eth (udp_frag_off d1 off) (udp_frag_off d2 off).
Proof. intros (d & E & -> & ->). exists (udp_frag_off d off). split; [exact E|split; reflexivity]. Qed.
Lemma udp_srcip_twin eth d1 d2 ip : dgT eth d1 d2 -> dgT eth (udp_srcip d1 ip) (udp_srcip d2 ip).
Proof. intros (d & E & -> & ->). exists (udp_srcip d ip). split; [exact E|split; reflexivity]. Qed.

Lemma udp_packet_twin eth d1 d2 : dgT eth d1 d2 -> pktT r1 r2 eth (udp_packet d1) (udp_packet d2).
Proof.
  intros (d & E & -> & ->). exists (udp_l3_bytes d). unfold udp_packet, udp_bytes, framed. cbn [ud_raw ud_eth udp_raw].
  rewrite E. split; reflexivity.
Qed.
Lemma udp_l4_twin eth d1 d2 : dgT eth d1 d2 -> udp_l4_bytes d1 = udp_l4_bytes d2.
Proof. intros (d & E & -> & ->). reflexivity. Qed.
End Udp.

(* ------------------------------------------------------------------ UDP flows *)
Definition uflow_raw (r : bool) (f : udp_flow) : udp_flow := {| uf_cl := uf_cl f; uf_sv := uf_sv f; uf_raw := r |}.

Lemma uflow_dgram_twin (c : bool) r1 r2 f b :
  orel (dgT r1 r2 (eth_for (fst (fst (uflow_side c f))) (fst (snd (uflow_side c f)))))
    ((if c then uflow_client_dgram else uflow_server_dgram) (uflow_raw r1 f) b)
    ((if c then uflow_client_dgram else uflow_server_dgram) (uflow_raw r2 f) b).
Proof.
  destruct c; unfold uflow_client_dgram, uflow_server_dgram; cbn [uf_raw uf_cl uf_sv uflow_raw uflow_side fst snd];
    apply udp_push_twin, udp_addr_twin.
Qed.

Ltac slots_cases :=
  repeat match goal with
  | |- orel _ (match ?l with [] => _ | _ :: _ => _ end) _ => destruct l; try (constructor; fail)
  end.

Ltac enter_twin Hn1 Hn2 :=
  exec_unfold; cbn [oorel];
  rewrite (take_this_some _ _ _ Hn1), (take_this_some _ _ _ Hn2); cbn [obind]; cbv beta iota.

Definition udp_eth_plan (f : udp_flow) (name : string) (slots : list val) : option (list bytes) :=
  if existsb (String.eqb name) udp_pkt_names then plan_total (option_map (map eth_of_want) (udp_plan f name slots)) else None.

Lemma udp_run_twin r1 r2 (h1 h2 : heap) pl (k1 k2 : outcome val) :
  orel (valT r1 r2 pl) k1 k2 ->
  orel (fun x y => snd x = h1 /\ snd y = h2 /\ valT r1 r2 pl (fst x) (fst y)) (do v <- k1; Ok (v, h1)) (do v <- k2; Ok (v, h2)).
Proof.
  intros H. eapply orel_bind; [exact H|]. intros v1 v2 Hv. constructor. cbn [fst snd]. repeat split. exact Hv.
Qed.

Theorem udp_method_twin e ms name key slots extra h1 h2 a f r1 r2 :
  assoc udp_class class_table = Some ms -> In (name, key) ms ->
  nth_error h1 a = Some (OUdp (uflow_raw r1 f)) -> nth_error h2 a = Some (OUdp (uflow_raw r2 f)) ->
  oorel (fun x y => snd x = h1 /\ snd y = h2 /\ valT r1 r2 (udp_eth_plan f name slots) (fst x) (fst y))
    (exec e key (Some a) slots extra h1) (exec e key (Some a) slots extra h2).
Proof.
  intros Hms Hin Hn1 Hn2. vm_compute in Hms. apply Some_inj in Hms. subst ms.
  cbn [In] in Hin.
  repeat (destruct Hin as [Hin|Hin]; [apply pair_equal_spec in Hin; destruct Hin as [<- <-]|]); [..|contradiction Hin].
  - (* client_dgram *) enter_twin Hn1 Hn2. apply udp_run_twin. slots_cases. do 3 osame.
    eapply orel_bind; [apply (uflow_dgram_twin true)|]. intros d1 d2 Hd.
    eapply orel_bind; [apply udp_csum_opt_twin, udp_frag_off_twin, Hd|]. intros d1' d2' Hd'. constructor.
    unfold udp_eth_plan, udp_plan, udp_dgram_plan. cbn [existsb udp_pkt_names orb String.eqb Ascii.eqb Bool.eqb]. rewrite E. cbn [option_map map plan_total].
    apply valT_pkt. apply (udp_packet_twin _ _ _ _ _ Hd').
  - (* server_dgram *) enter_twin Hn1 Hn2. apply udp_run_twin. slots_cases. do 3 osame.
    eapply orel_bind; [apply (uflow_dgram_twin false)|]. intros d1 d2 Hd.
    eapply orel_bind; [apply udp_csum_opt_twin, udp_frag_off_twin, Hd|]. intros d1' d2' Hd'. constructor.
    unfold udp_eth_plan, udp_plan, udp_dgram_plan. cbn [existsb udp_pkt_names orb String.eqb Ascii.eqb Bool.eqb]. rewrite E. cbn [option_map map plan_total].
    apply valT_pkt. apply (udp_packet_twin _ _ _ _ _ Hd').
  - (* client_raw_dgram *) enter_twin Hn1 Hn2. apply udp_run_twin. slots_cases. do 2 osame.
    eapply orel_bind; [apply (uflow_dgram_twin true)|]. intros d1 d2 Hd.
    eapply orel_bind; [apply udp_csum_opt_twin, Hd|]. intros d1' d2' Hd'. constructor.
    rewrite (udp_l4_twin _ _ _ _ _ Hd'). apply valT_same.
  - (* server_raw_dgram *) enter_twin Hn1 Hn2. apply udp_run_twin. slots_cases. do 2 osame.
    eapply orel_bind; [apply (uflow_dgram_twin false)|]. intros d1 d2 Hd.
    eapply orel_bind; [apply udp_csum_opt_twin, Hd|]. intros d1' d2' Hd'. constructor.
    rewrite (udp_l4_twin _ _ _ _ _ Hd'). apply valT_same.
Qed.

(* ------------------------------------------------------------------ raw: as the last argument *)
(** two argument lists that differ only in the last slot, the [raw:] argument, which converts to [r1] / [r2] *)
Definition raw_slots (r1 r2 : bool) (slots1 slots2 : list val) : Prop :=
  exists pre v1 v2, slots1 = (pre ++ [v1])%list /\ slots2 = (pre ++ [v2])%list
    /\ orel (fun a b => a = r1 /\ b = r2) (conv_bool v1) (conv_bool v2).

Lemma raw_slots_intro r1 r2 pre v1 v2 : conv_bool v1 = Ok r1 -> conv_bool v2 = Ok r2 ->
  raw_slots r1 r2 (pre ++ [v1]) (pre ++ [v2]).
Proof. intros E1 E2. exists pre, v1, v2. rewrite E1, E2. repeat split. constructor. split; reflexivity. Qed.

(** the same call twice: any argument list with a last slot *)
Lemma raw_slots_diag pre v : raw_slots (match conv_bool v with Ok r => r | _ => false end) (match conv_bool v with Ok r => r | _ => false end)
  (pre ++ [v]) (pre ++ [v]).
Proof. exists pre, v, v. repeat split. destruct (conv_bool v); constructor. split; reflexivity. Qed.

(** destruct twin argument lists: every wrong arity panics the same way on both sides *)
Ltac raw_cases Hr :=
  let pre := fresh "pre" in let v1 := fresh "rv1" in let v2 := fresh "rv2" in
  let Hrr := fresh "Hrr" in
  destruct Hr as (pre & v1 & v2 & -> & -> & Hrr);
  do 7 (try (destruct pre as [|? pre])); cbn [app]; cbv beta iota; try (constructor; fail).

Definition fn_resT (r1 r2 : bool) (h1 h2 : heap) (pl : option (list bytes)) (x y : val * heap) : Prop :=
  snd x = h1 /\ snd y = h2 /\ valT r1 r2 pl (fst x) (fst y).

(** the [raw:] conversions of the two calls *)
Ltac raw_conv Hrr :=
  let Hr1 := fresh "Hr1" in let Hr2 := fresh "Hr2" in let x := fresh "x" in let y := fresh "y" in
  eapply orel_bind_eqn; [exact Hrr|]; intros x y Hr1 Hr2 [-> ->].

(* ------------------------------------------------------------------ unicast / broadcast *)
Definition unicast_eth (slots : list val) : option (list bytes) :=
  plan_total (match unicast_plan slots with Ok (_, ws) => Some (map eth_of_want ws) | _ => None end).
(** the frame's source address is made from the SOURCE SOCKET even when srcip: overrides the IPv4 source *)
Definition broadcast_eth (slots : list val) : option (list bytes) :=
  plan_total (match slots with
              | [src; dst; _; _] => match conv_sock src with Ok s => Some [eth_bcast_for (fst s)] | _ => None end
              | _ => None
              end).

Ltac fn_enter := exec_unfold; cbn [oorel].

Theorem unicast_twin e slots1 slots2 extra h1 h2 r1 r2 :
  raw_slots r1 r2 slots1 slots2 ->
  oorel (fn_resT r1 r2 h1 h2 (unicast_eth slots1))
    (exec e "ipv4::udp::unicast" None slots1 extra h1) (exec e "ipv4::udp::unicast" None slots2 extra h2).
Proof.
  intros Hr. fn_enter. unfold udp_unicast_fn. raw_cases Hr.
  raw_conv Hrr. do 3 osame.
  eapply orel_bind; [apply udp_push_twin, udp_addr_twin|]. intros d1 d2 Hd. constructor.
  split; [reflexivity|]. split; [reflexivity|]. cbn [fst].
  unfold unicast_eth, unicast_plan. rewrite Hr1, E0, E1. cbn [obind map].
  apply valT_pkt. apply (udp_packet_twin _ _ _ _ _ Hd).
Qed.

Theorem broadcast_twin e slots1 slots2 extra h1 h2 r1 r2 :
  raw_slots r1 r2 slots1 slots2 ->
  oorel (fn_resT r1 r2 h1 h2 (broadcast_eth slots1))
    (exec e "ipv4::udp::broadcast" None slots1 extra h1) (exec e "ipv4::udp::broadcast" None slots2 extra h2).
Proof.
  intros Hr. fn_enter. unfold udp_broadcast_fn. raw_cases Hr.
  osame. raw_conv Hrr. do 3 osame.
  eapply orel_bind; [apply udp_push_twin, udp_bcast_twin|]. intros d1 d2 Hd. constructor.
  split; [reflexivity|]. split; [reflexivity|]. cbn [fst].
  unfold broadcast_eth. rewrite E1.
  apply valT_pkt. destruct a; [apply udp_packet_twin, udp_srcip_twin, Hd|apply udp_packet_twin, Hd].
Qed.

(* ------------------------------------------------------------------ ICMP *)
Definition icmp_raw (r : bool) (f : icmp_flow) : icmp_flow :=
  {| if_cl := if_cl f; if_sv := if_sv f; if_raw := r; if_id := if_id f; if_ping := if_ping f; if_pong := if_pong f |}.

Lemma icmp_dgram_twin r1 r2 src dst typ id seq b :
  orel (pktT r1 r2 (eth_for src dst)) (icmp_dgram src dst r1 typ id seq b) (icmp_dgram src dst r2 typ id seq b).
Proof. unfold icmp_dgram. cbv zeta. constructor. eexists. split; reflexivity. Qed.

Definition icmpT (r1 r2 : bool) (cl sv : N) (o1 o2 : obj) : Prop :=
  exists f, if_cl f = cl /\ if_sv f = sv /\ o1 = OIcmp (icmp_raw r1 f) /\ o2 = OIcmp (icmp_raw r2 f).

Definition icmp_eth_plan (f : icmp_flow) (name : string) : option (list bytes) :=
  option_map (map eth_of_want) (icmp_plan f name).

Theorem icmp_method_twin e ms name key slots extra h1 h2 a f r1 r2 :
  assoc icmp_class class_table = Some ms -> In (name, key) ms ->
  nth_error h1 a = Some (OIcmp (icmp_raw r1 f)) -> nth_error h2 a = Some (OIcmp (icmp_raw r2 f)) ->
  oorel (resT (icmpT r1 r2 (if_cl f) (if_sv f)) r1 r2 a h1 h2 (icmp_eth_plan f name))
    (exec e key (Some a) slots extra h1) (exec e key (Some a) slots extra h2).
Proof.
  intros Hms Hin Hn1 Hn2. vm_compute in Hms. apply Some_inj in Hms. subst ms.
  cbn [In] in Hin.
  repeat (destruct Hin as [Hin|Hin]; [apply pair_equal_spec in Hin; destruct Hin as [<- <-]|]); [..|contradiction Hin].
  - enter_twin Hn1 Hn2. slots_cases. osame. unfold icmp_echo. cbn [if_cl if_sv if_raw if_id if_ping if_pong icmp_raw].
    eapply orel_bind; [eapply orel_bind; [apply icmp_dgram_twin|]; intros p1 p2 Hp; constructor;
                       instantiate (1 := fun x y => pktT r1 r2 (eth_for (if_cl f) (if_sv f)) (snd x) (snd y) /\
                          exists g, if_cl g = if_cl f /\ if_sv g = if_sv f /\ fst x = icmp_raw r1 g /\ fst y = icmp_raw r2 g);
                       cbn [fst snd]; split; [exact Hp|];
                       exists {| if_cl := if_cl f; if_sv := if_sv f; if_raw := false; if_id := if_id f;
                                 if_ping := wrap16 (if_ping f + 1); if_pong := if_pong f |}; repeat split|].
    intros [g1 p1] [g2 p2] [Hp (g & Ec & Es & Eg1 & Eg2)]. cbn [fst snd] in Hp, Eg1, Eg2. subst g1 g2. constructor.
    eexists; eexists. cbn [fst snd]. split; [reflexivity|]. split; [reflexivity|].
    split; [exists g; repeat split; assumption|]. apply valT_pkt, Hp.
  - enter_twin Hn1 Hn2. slots_cases. osame. unfold icmp_echo_reply. cbn [if_cl if_sv if_raw if_id if_ping if_pong icmp_raw].
    eapply orel_bind; [eapply orel_bind; [apply icmp_dgram_twin|]; intros p1 p2 Hp; constructor;
                       instantiate (1 := fun x y => pktT r1 r2 (eth_for (if_sv f) (if_cl f)) (snd x) (snd y) /\
                          exists g, if_cl g = if_cl f /\ if_sv g = if_sv f /\ fst x = icmp_raw r1 g /\ fst y = icmp_raw r2 g);
                       cbn [fst snd]; split; [exact Hp|];
                       exists {| if_cl := if_cl f; if_sv := if_sv f; if_raw := false; if_id := if_id f;
                                 if_ping := if_ping f; if_pong := wrap16 (if_pong f + 1) |}; repeat split|].
    intros [g1 p1] [g2 p2] [Hp (g & Ec & Es & Eg1 & Eg2)]. cbn [fst snd] in Hp, Eg1, Eg2. subst g1 g2. constructor.
    eexists; eexists. cbn [fst snd]. split; [reflexivity|]. split; [reflexivity|].
    split; [exists g; repeat split; assumption|]. apply valT_pkt, Hp.
Qed.

(* ------------------------------------------------------------------ IpFrag methods: raw: is the last argument *)
Lemma ipdgram_twin r1 r2 iph payload off mf :
  orel (pktT r1 r2 (eth_for (ip_src iph) (ip_dst iph))) (ipdgram iph payload r1 off mf) (ipdgram iph payload r2 off mf).
Proof. unfold ipdgram. cbv zeta. constructor. eexists. split; reflexivity. Qed.

Lemma req_run_twin r1 r2 f q :
  orel (pktT r1 r2 (eth_for (ip_src (fr_hdr f)) (ip_dst (fr_hdr f)))) (req_run f q r1) (req_run f q r2).
Proof. destruct q; cbn [req_run]; unfold frag_tail, frag_fragment, frag_datagram; cbv zeta; apply ipdgram_twin. Qed.

Definition frag_eth_plan (f : ip_frag) (name : string) (slots : list val) : option (list bytes) :=
  plan_total (option_map (fun q => [eth_of_want (req_want f (fst q))]) (frag_call_req name slots)).

Lemma frag_run_twin r1 r2 (h1 h2 : heap) pl (k1 k2 : outcome packet) :
  orel (fun p1 p2 => exists eth, pl = Some [eth] /\ pktT r1 r2 eth p1 p2) k1 k2 ->
  orel (fn_resT r1 r2 h1 h2 pl) (do p <- k1; Ok (VPkt p, h1)) (do p <- k2; Ok (VPkt p, h2)).
Proof.
  intros H. eapply orel_bind; [exact H|]. intros p1 p2 (eth & -> & Hp). constructor. split; [reflexivity|]. split; [reflexivity|].
  apply valT_pkt, Hp.
Qed.

Theorem frag_method_twin e ms name key slots1 slots2 extra h1 h2 a f r1 r2 :
  assoc frag_class class_table = Some ms -> In (name, key) ms ->
  nth_error h1 a = Some (OFrag f) -> nth_error h2 a = Some (OFrag f) -> raw_slots r1 r2 slots1 slots2 ->
  oorel (fn_resT r1 r2 h1 h2 (frag_eth_plan f name slots1))
    (exec e key (Some a) slots1 extra h1) (exec e key (Some a) slots2 extra h2).
Proof.
  intros Hms Hin Hn Hn' Hr. vm_compute in Hms. apply Some_inj in Hms. subst ms.
  cbn [In] in Hin.
  repeat (destruct Hin as [Hin|Hin]; [apply pair_equal_spec in Hin; destruct Hin as [<- <-]|]); [..|contradiction Hin].
  - exec_unfold; cbn [oorel]. rewrite (take_this_some _ _ _ Hn), (take_this_some _ _ _ Hn'). cbn [obind]. cbv beta iota.
    raw_cases Hr; try (cbn [obind]; constructor; fail).
    destruct (conv_u16 v) as [o| | |] eqn:Eo; cbn [obind]; try (constructor; fail).
    destruct (conv_u16 v0) as [l| | |] eqn:El; cbn [obind]; try (constructor; fail).
    eapply frag_run_twin. eapply orel_bind_eqn; [exact Hrr|]. intros x y Hr1 Hr2 [-> ->].
    eapply orel_mono; [|apply (req_run_twin r1 r2 f (RFrag o l))]. intros p1 p2 Hp. eexists. split; [|exact Hp].
    unfold frag_eth_plan, frag_call_req. cbn [String.eqb Ascii.eqb Bool.eqb]. rewrite Eo, El, Hr1. reflexivity.
  - exec_unfold; cbn [oorel]. rewrite (take_this_some _ _ _ Hn), (take_this_some _ _ _ Hn'). cbn [obind]. cbv beta iota.
    raw_cases Hr; try (cbn [obind]; constructor; fail).
    destruct (conv_u16 v) as [o| | |] eqn:Eo; cbn [obind]; try (constructor; fail).
    eapply frag_run_twin. eapply orel_bind_eqn; [exact Hrr|]. intros x y Hr1 Hr2 [-> ->].
    eapply orel_mono; [|apply (req_run_twin r1 r2 f (RTail o))]. intros p1 p2 Hp. eexists. split; [|exact Hp].
    unfold frag_eth_plan, frag_call_req. cbn [String.eqb Ascii.eqb Bool.eqb]. rewrite Eo, Hr1. reflexivity.
  - exec_unfold; cbn [oorel]. rewrite (take_this_some _ _ _ Hn), (take_this_some _ _ _ Hn'). cbn [obind]. cbv beta iota.
    raw_cases Hr; try (cbn [obind]; constructor; fail).
    eapply frag_run_twin. eapply orel_bind_eqn; [exact Hrr|]. intros x y Hr1 Hr2 [-> ->].
    eapply orel_mono; [|apply (req_run_twin r1 r2 f RDgram)]. intros p1 p2 Hp. eexists. split; [|exact Hp].
    unfold frag_eth_plan, frag_call_req. cbn [String.eqb Ascii.eqb Bool.eqb]. rewrite Hr1. reflexivity.
Qed.

(* ------------------------------------------------------------------ ipv4::datagram: always framed *)
Definition datagram_eth (slots : list val) : option (list bytes) :=
  plan_total (match datagram_want slots with Ok w => Some [eth_of_want w] | _ => None end).

Theorem datagram_framed e slots extra h :
  oorel (fn_resT false false h h (datagram_eth slots))
    (exec e "ipv4::datagram" None slots extra h) (exec e "ipv4::datagram" None slots extra h).
Proof.
  fn_enter. unfold ipv4_datagram_fn. slots_cases. do 10 osame. constructor.
  split; [reflexivity|]. split; [reflexivity|]. cbn [fst].
  unfold datagram_eth, datagram_want. rewrite E, E0, E1, E2, E3, E4, E5, E6, E7. cbn [obind].
  apply valT_pkt. eexists. unfold framed, eth_of_want. cbn [w_src w_dst]. split; reflexivity.
Qed.

(* ------------------------------------------------------------------ dns::host *)
Definition dns_host_eth (slots : list val) : option (list bytes) :=
  plan_total (match dns_host_plan slots with Ok (_, ws) => Some (map eth_of_want ws) | _ => None end).

Theorem dns_host_twin e slots1 slots2 extra h1 h2 r1 r2 :
  raw_slots r1 r2 slots1 slots2 ->
  oorel (fn_resT r1 r2 h1 h2 (dns_host_eth slots1))
    (exec e "dns::host" None slots1 extra h1) (exec e "dns::host" None slots2 extra h2).
Proof.
  intros Hr. fn_enter. unfold dns_host_fn. raw_cases Hr.
  do 4 osame. raw_conv Hrr. cbv zeta.
  eapply orel_bind; [apply (uflow_dgram_twin true r1 r2 {| uf_cl := (a, 32768); uf_sv := (a2, 53); uf_raw := false |})|].
  intros d1 d2 Hd. cbn [uflow_side fst snd uf_cl uf_sv] in Hd.
  eapply orel_bind; [apply udp_csum_twin, Hd|]. intros d1c d2c Hdc.
  osame.
  eapply orel_bind; [apply (uflow_dgram_twin false r1 r2 {| uf_cl := (a, 32768); uf_sv := (a2, 53); uf_raw := false |})|].
  intros d3 d4 Hd'. cbn [uflow_side fst snd uf_cl uf_sv] in Hd'.
  eapply orel_bind; [apply udp_csum_twin, Hd'|]. intros d3c d4c Hdc'.
  constructor. split; [reflexivity|]. split; [reflexivity|]. cbn [fst].
  unfold dns_host_eth, dns_host_plan. rewrite E, E2, Hr1. cbn [obind map].
  apply valT_gen. constructor; [apply (udp_packet_twin _ _ _ _ _ Hdc)|]. constructor; [apply (udp_packet_twin _ _ _ _ _ Hdc')|constructor].
Qed.
