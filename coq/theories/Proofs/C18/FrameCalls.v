(** C18 at the level the interpreter executes, part 7: the explicit frame builder eth::frame and the address
    helper eth::from_ip as dispatched by [exec], and the argument forms the binder ([argvec]) accepts for them. *)
From RS Require Import Base.Bytes Base.Outcome Bind.Types Bind.Binder Pkt.Hdrs Pkt.Packet Interp.Val Interp.Eval
  Lib.LibBase Lib.MiscLib Lib.StdLib Proofs.Tactics Proofs.C18.Framing Proofs.C18.LibTwinBase
  Proofs.C08.LibTac Proofs.C03.LibCalls.
From RSGen Require Import Catalogue.
From Coq Require Import Lia.
Open Scope list_scope.
Open Scope N_scope.

Lemma exec_frame e a x h : exec e "eth::frame" None a x h = Some (eth_frame_fn a x h).
Proof. unfold exec. lazy [assoc functions String.eqb Ascii.eqb Bool.eqb]. reflexivity. Qed.
Lemma exec_from_ip e a x h : exec e "eth::from_ip" None a x h = Some (eth_from_ip_fn a x h).
Proof. unfold exec. lazy [assoc functions String.eqb Ascii.eqb Bool.eqb]. reflexivity. Qed.

(** any argument values: source, destination (whatever converts to six bytes each), ethertype, payload pieces --
    the frame is destination, source, type in wire order, then the payload *)
Theorem frame_exec e sv dv ev extra h s d et data :
  conv_buf sv = Ok s -> conv_buf dv = Ok d -> conv_u16 ev = Ok et -> join_extra [] extra = Ok data ->
  len s = 6 -> len d = 6 ->
  exec e "eth::frame" None [sv; dv; ev] extra h = Some (Ok (VPkt (pkt_of_body (d ++ s ++ be16 et ++ data)), h)).
Proof.
  intros Es Ed Ee Ej Hs Hd. rewrite exec_frame. unfold eth_frame_fn. rewrite Es, Ed, Ee, Ej. cbn [obind].
  rewrite Hs, Hd. change (6 =? 6) with true. cbn [negb].
  unfold eth_ser, eth_new. cbn [eth_dst eth_src eth_proto]. rewrite <- ?app_assoc. reflexivity.
Qed.

Theorem frame_exec_rejects e sv dv ev extra h s d et data :
  conv_buf sv = Ok s -> conv_buf dv = Ok d -> conv_u16 ev = Ok et -> join_extra [] extra = Ok data ->
  len s <> 6 \/ len d <> 6 ->
  exec e "eth::frame" None [sv; dv; ev] extra h = Some (Err ERuntime).
Proof.
  intros Es Ed Ee Ej Hb. rewrite exec_frame. unfold eth_frame_fn. rewrite Es, Ed, Ee, Ej. cbn [obind].
  destruct (len s =? 6) eqn:E1; cbn [negb]; [|reflexivity].
  destruct (len d =? 6) eqn:E2; cbn [negb]; [|reflexivity].
  apply N.eqb_eq in E1, E2. tauto.
Qed.

Theorem from_ip_exec e a h : exec e "eth::from_ip" None [VIp4 a] [] h = Some (Ok (VStr ([0; 2] ++ be32 a), h)).
Proof. rewrite exec_from_ip. reflexivity. Qed.

(** the explicit builder fed with the helper's addresses and type 0x0800 makes the uniform header of the
    IP-level builders *)
Theorem frame_of_from_ip e src dst data h ms md :
  exec e "eth::from_ip" None [VIp4 src] [] h = Some (Ok (VStr ms, h)) ->
  exec e "eth::from_ip" None [VIp4 dst] [] h = Some (Ok (VStr md, h)) ->
  exec e "eth::frame" None [VStr ms; VStr md; VU16 2048] [VStr data] h
  = Some (Ok (VPkt (pkt_of_body (framed false (eth_for src dst) data)), h)).
Proof.
  rewrite !from_ip_exec. intros H1 H2. injection H1 as <-. injection H2 as <-.
  rewrite (frame_exec e _ _ _ _ h ([0; 2] ++ be32 src) ([0; 2] ++ be32 dst) 2048 data); try reflexivity.
Qed.

(** the binder: addresses positional or named in any order, ethertype by name or defaulted to 0x0800 -- one
    and the same slot vector *)
Definition frame_fd : option funcdef := find_func catalogue "eth::frame".
Definition from_ip_fd : option funcdef := find_func catalogue "eth::from_ip".

Theorem frame_binder s d et data :
  exists f, find_func catalogue "eth::frame" = Some f /\ fd_ret f = TPkt
  /\ argvec val val_type val_of_valdef f [(None, VStr s); (None, VStr d); (Some "ethertype", VU16 et); (None, VStr data)]%string
     = Ok ([VStr s; VStr d; VU16 et], [VStr data])
  /\ argvec val val_type val_of_valdef f [(Some "dst", VStr d); (Some "src", VStr s); (Some "ethertype", VU16 et); (None, VStr data)]%string
     = Ok ([VStr s; VStr d; VU16 et], [VStr data])
  /\ argvec val val_type val_of_valdef f [(None, VStr s); (Some "ethertype", VU16 et); (Some "dst", VStr d)]%string
     = Ok ([VStr s; VStr d; VU16 et], [])
  /\ argvec val val_type val_of_valdef f [(None, VStr s); (None, VStr d); (None, VStr data)]
     = Ok ([VStr s; VStr d; VU16 2048], [VStr data])
  (* a third positional argument is payload, not the ethertype (optional parameters are given by name) *)
  /\ argvec val val_type val_of_valdef f [(None, VStr s); (None, VStr d); (None, VU16 et); (None, VStr data)]
     = Ok ([VStr s; VStr d; VU16 2048], [VU16 et; VStr data]).
Proof.
  eexists. split; [lazy [find_func find catalogue fd_key String.eqb Ascii.eqb Bool.eqb]; reflexivity|].
  split; [reflexivity|]. repeat split; vm_compute; reflexivity.
Qed.

Theorem from_ip_binder a :
  exists f, find_func catalogue "eth::from_ip" = Some f /\ fd_ret f = TStr
  /\ argvec val val_type val_of_valdef f [(None, VIp4 a)] = Ok ([VIp4 a], [])
  /\ argvec val val_type val_of_valdef f [(Some "ip"%string, VIp4 a)] = Ok ([VIp4 a], []).
Proof.
  eexists. split; [lazy [find_func find catalogue fd_key String.eqb Ascii.eqb Bool.eqb]; reflexivity|].
  split; [reflexivity|]. split; vm_compute; reflexivity.
Qed.

(** through [call] (what [eval] does for a call expression after evaluating callee and arguments): binder, exec,
    return-type check *)
Theorem frame_call e p s d et data :
  len s = 6 -> len d = 6 -> et < 65536 ->
  let r := ROk (VPkt (pkt_of_body (d ++ s ++ be16 et ++ data))) (set_heap (add_trace p "eth::frame") (p_heap p)) in
  Eval.call catalogue (exec e) p "eth::frame" None [(None, VStr s); (None, VStr d); (Some "ethertype"%string, VU16 et); (None, VStr data)] = r
  /\ Eval.call catalogue (exec e) p "eth::frame" None [(Some "dst"%string, VStr d); (Some "src"%string, VStr s); (Some "ethertype"%string, VU16 et); (None, VStr data)] = r.
Proof.
  intros Hs Hd He. cbv zeta.
  destruct (frame_binder s d et data) as (f & Hf & Hret & A1 & A2 & _).
  assert (Ex : exec e "eth::frame" None [VStr s; VStr d; VU16 et] [VStr data] (p_heap p)
               = Some (Ok (VPkt (pkt_of_body (d ++ s ++ be16 et ++ data)), p_heap p))).
  { assert (Cu : conv_u16 (VU16 et) = Ok et).
    { unfold conv_u16, conv_int, omap. cbn [obind]. unfold wrap16. rewrite N.mod_small by exact He. reflexivity. }
    assert (Cj : join_extra [] [VStr data] = Ok data).
    { unfold join_extra. cbn [omapM conv_buf obind]. cbn. try rewrite app_nil_r. reflexivity. }
    exact (frame_exec e (VStr s) (VStr d) (VU16 et) [VStr data] (p_heap p) s d et data eq_refl eq_refl Cu Cj Hs Hd). }
  split; unfold Eval.call; rewrite Hf; [rewrite A1|rewrite A2]; cbn [lift rbind]; rewrite Ex; cbn [lift rbind val_type p_heap add_trace];
    rewrite Hret; reflexivity.
Qed.
