(** C18 at the level the interpreter executes, part 6: tunnels at any nesting depth.  [wrap ls inner]
    (Proofs/C06/Nesting.v) wraps frame [inner] in the layers [ls], innermost first.  At every depth k the frame
    found by peeling k layers with the specification-side [peel] (Spec/TunnelPeel.v) is the uniform Ethernet
    header of that layer's SESSION endpoints (absent when the session is raw) followed by a datagram --
    whatever is carried inside.  Toggling a layer's raw flag removes exactly that header. *)
From RS Require Import Base.Bytes Base.Outcome Pkt.Csum Pkt.Hdrs Pkt.Packet Ez.Tcp Ez.Udp Ez.Gre
  Spec.Tunnel Spec.TunnelPeel
  Proofs.Tactics Proofs.C18.Framing Proofs.C18.LibTwinBase Proofs.C18.LibTwinFns Proofs.C18.LibTwinTun
  Proofs.C02.LibIp Proofs.C02.LibIpFns Proofs.C02.LibIpTun Proofs.C06.Tunnels Proofs.C06.Nesting Proofs.C03.LibCalls.
From Coq Require Import Arith Lia.
Open Scope N_scope.

Definition layer_eth (l : layer) : bytes := eth_of_want (layer_want l).

Definition layer_with_raw (r : bool) (l : layer) : layer :=
  match l with
  | LVxlan f => LVxlan (vxlan_raw r f) | LGre f => LGre (gflow_raw r f)
  | LErspan1 f => LErspan1 (e1_with_raw r f) | LErspan2 f ix => LErspan2 (e2_with_raw r f) ix
  end.

Lemma layer_with_raw_id l : layer_with_raw (layer_raw l) l = l.
Proof. destruct l as [f|f|f|f ix]; destruct f; reflexivity. Qed.
Lemma layer_raw_with_raw r l : layer_raw (layer_with_raw r l) = r.
Proof. destruct l; reflexivity. Qed.
Lemma layer_eth_with_raw r l : layer_eth (layer_with_raw r l) = layer_eth l.
Proof. destruct l; reflexivity. Qed.

(** one layer, two raw modes: the same datagram, with and without the session's header *)
Theorem wrap1_twin r1 r2 l b :
  orel (fun x y => exists l3, x = framed r1 (layer_eth l) l3 /\ y = framed r2 (layer_eth l) l3)
    (wrap1 (layer_with_raw r1 l) b) (wrap1 (layer_with_raw r2 l) b).
Proof.
  destruct l as [f|f|f|f ix]; cbn [wrap1 layer_with_raw].
  - eapply orel_bind; [apply vxlan_encap_twin|]. intros p1 p2 (l3 & -> & ->). constructor. exists l3. split; reflexivity.
  - eapply orel_bind; [apply (gre_flow_encap_twin r1 r2 (gl_cl f) (gl_sv f)); exists f; repeat split|].
    intros [g1 p1] [g2 p2] [_ (l3 & E1 & E2)]. cbn [fst snd] in E1, E2. subst p1 p2. constructor. exists l3. split; reflexivity.
  - eapply orel_bind; [apply erspan1_encap_twin|]. intros p1 p2 (l3 & -> & ->). constructor. exists l3. split; reflexivity.
  - eapply orel_bind; [apply (erspan2_encap_twin r1 r2 (e2_cl f) (e2_sv f)); exists f; repeat split|].
    intros [g1 p1] [g2 p2] [_ (l3 & E1 & E2)]. cbn [fst snd] in E1, E2. subst p1 p2. constructor. exists l3. split; reflexivity.
Qed.

(** one layer: the outer frame is the session's uniform header (unless raw) and a datagram *)
Theorem wrap1_eth l b x : wrap1 l b = Ok x -> exists l3, x = framed (layer_raw l) (layer_eth l) l3.
Proof.
  intros H. pose proof (wrap1_twin (layer_raw l) (layer_raw l) l b) as T. rewrite layer_with_raw_id, H in T.
  apply orel_ok_both in T. destruct T as (l3 & E & _). exists l3. exact E.
Qed.

(** raw twin of the outermost layer: byte-identical except that exactly the 14-byte header is absent *)
Theorem wrap1_raw_relation l b xf xr :
  wrap1 (layer_with_raw false l) b = Ok xf -> wrap1 (layer_with_raw true l) b = Ok xr ->
  xr = skipn 14 xf /\ firstn 14 xf = layer_eth l.
Proof.
  intros Hf Hr. pose proof (wrap1_twin false true l b) as T. rewrite Hf, Hr in T. apply orel_ok_both in T.
  destruct T as (l3 & -> & ->). split; [apply framed_raw_skip14|apply framed_first14]; reflexivity.
Qed.

Lemma firstn_app_le' {A} (a b : list A) k : (k <= length a)%nat -> firstn k (a ++ b) = firstn k a.
Proof. intros H. rewrite firstn_app. replace (k - length a)%nat with 0%nat by lia. cbn [firstn]. apply app_nil_r. Qed.

(** any nesting depth *)
Theorem nest_eth : forall ls inner outer,
  Forall wf_layer ls -> wrap ls inner = Ok outer ->
  (forall k l, nth_error (rev ls) k = Some l ->
     exists x l3, peel (map spec_of (firstn k (rev ls))) outer = Some x
               /\ x = framed (layer_raw l) (layer_eth l) l3)
  /\ peel (map spec_of (rev ls)) outer = Some inner.
Proof.
  induction ls as [|l r IH]; intros inner outer W H.
  - split; [intros [|k] l Hk; discriminate Hk|]. cbn [wrap] in H. apply Ok_inj in H. subst outer. reflexivity.
  - split; [|exact (wrap_peel (l :: r) inner outer W H)].
    cbn [wrap] in H. destruct (wrap1 l inner) as [x1| | |] eqn:E1; cbn [obind] in H; try discriminate H.
    apply Forall_cons_iff in W. destruct W as (Wl & Wr).
    destruct (IH x1 outer Wr H) as (IHk & IHall).
    intros k l' Hk. cbn [rev] in Hk |- *.
    destruct (Nat.lt_ge_cases k (length (rev r))) as [Lt|Ge].
    + rewrite nth_error_app1 in Hk by exact Lt. rewrite firstn_app_le' by lia. exact (IHk k l' Hk).
    + rewrite nth_error_app2 in Hk by exact Ge.
      destruct (k - length (rev r))%nat as [|m] eqn:Ek; [|destruct m; discriminate Hk].
      cbn [nth_error] in Hk. apply Some_inj in Hk. subst l'.
      assert (k = length (rev r)) by lia. subst k.
      rewrite firstn_app_le' by lia. rewrite firstn_all.
      destruct (wrap1_eth l inner x1 E1) as (l3 & E). exists x1, l3. split; [exact IHall|exact E].
Qed.

Lemma layer_eth_defs l :
  layer_eth l = match l with
                | LVxlan f => eth_for (fst (vx_cl f)) (fst (vx_sv f))
                | LGre f => eth_for (gl_cl f) (gl_sv f)
                | LErspan1 f => eth_for (e1_cl f) (e1_sv f)
                | LErspan2 f _ => eth_for (e2_cl f) (e2_sv f)
                end.
Proof. destruct l; reflexivity. Qed.
