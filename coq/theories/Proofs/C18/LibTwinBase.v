(** C18 at the level the interpreter executes, part 1: vocabulary for relating two runs of the same library
    call that differ only in raw mode.
    [orel R x1 x2]: two outcomes end the same way -- the same error, the same panic, or two values related
    by [R].  [pktT r1 r2 eth p1 p2]: there is ONE IPv4 datagram [l3] such that packet [p1] is
    [framed r1 eth l3] and [p2] is [framed r2 eth l3] (Proofs/C18/Framing.v: [framed raw eth l3] is [l3] when
    raw, else [eth ++ l3]).  With [r1 = r2] and [p1 = p2] it says: the packet is this Ethernet header followed
    by a datagram (or the bare datagram in raw mode). *)
From RS Require Import Base.Bytes Base.Outcome Pkt.Hdrs Pkt.Packet Interp.Val Lib.LibBase
  Proofs.Tactics Proofs.C02.LibIp Proofs.C18.Framing.
From Coq Require Import Lia.
Open Scope N_scope.

Inductive orel {A B} (R : A -> B -> Prop) : outcome A -> outcome B -> Prop :=
| orel_ok a b : R a b -> orel R (Ok a) (Ok b)
| orel_err e : orel R (Err e) (Err e)
| orel_panic s : orel R (Panic s) (Panic s)
| orel_fuel : orel R OutOfFuel OutOfFuel.

Lemma orel_bind {A B A' B'} (R : A -> B -> Prop) (R' : A' -> B' -> Prop) x1 x2 k1 k2 :
  orel R x1 x2 -> (forall a b, R a b -> orel R' (k1 a) (k2 b)) -> orel R' (obind x1 k1) (obind x2 k2).
Proof. intros H K. destruct H; cbn [obind]; [apply K; assumption|constructor..]. Qed.

Lemma orel_bind_same {A A' B'} (R' : A' -> B' -> Prop) (x : outcome A) k1 k2 :
  (forall a, x = Ok a -> orel R' (k1 a) (k2 a)) -> orel R' (obind x k1) (obind x k2).
Proof. intros K. destruct x; cbn [obind]; [apply K; reflexivity|constructor..]. Qed.

Lemma orel_bind_eqn {A B A' B'} (R : A -> B -> Prop) (R' : A' -> B' -> Prop) x1 x2 k1 k2 :
  orel R x1 x2 -> (forall a b, x1 = Ok a -> x2 = Ok b -> R a b -> orel R' (k1 a) (k2 b)) -> orel R' (obind x1 k1) (obind x2 k2).
Proof. intros H K. destruct H; cbn [obind]; [apply K; [reflexivity|reflexivity|assumption]|constructor..]. Qed.

Lemma orel_mono {A B} (R R' : A -> B -> Prop) x1 x2 :
  (forall a b, R a b -> R' a b) -> orel R x1 x2 -> orel R' x1 x2.
Proof. intros K H. destruct H; constructor. apply K; assumption. Qed.

Lemma orel_ok_l {A B} (R : A -> B -> Prop) a y : orel R (Ok a) y -> exists b, y = Ok b /\ R a b.
Proof. intros H. inversion H; subst. eexists. split; [reflexivity|assumption]. Qed.
Lemma orel_ok_r {A B} (R : A -> B -> Prop) x b : orel R x (Ok b) -> exists a, x = Ok a /\ R a b.
Proof. intros H. inversion H; subst. eexists. split; [reflexivity|assumption]. Qed.
Lemma orel_ok_both {A B} (R : A -> B -> Prop) a b : orel R (Ok a) (Ok b) -> R a b.
Proof. intros H. inversion H; subst. assumption. Qed.

Lemma orel_eq_refl {A} (x : outcome A) : orel eq x x.
Proof. destruct x; constructor. reflexivity. Qed.

(** the results of [exec]: None for an unknown key *)
Definition oorel {A B} (R : A -> B -> Prop) (o1 : option (outcome A)) (o2 : option (outcome B)) : Prop :=
  match o1, o2 with
  | Some x1, Some x2 => orel R x1 x2
  | None, None => True
  | _, _ => False
  end.

Lemma oorel_mono {A B} (R R' : A -> B -> Prop) x1 x2 :
  (forall a b, R a b -> R' a b) -> oorel R x1 x2 -> oorel R' x1 x2.
Proof. intros K H. destruct x1, x2; cbn [oorel] in *; try exact H. eapply orel_mono; eassumption. Qed.

Inductive Forall3 {A B C} (R : A -> B -> C -> Prop) : list A -> list B -> list C -> Prop :=
| Forall3_nil : Forall3 R [] [] []
| Forall3_cons a b c la lb lc : R a b c -> Forall3 R la lb lc -> Forall3 R (a :: la) (b :: lb) (c :: lc).

Lemma Forall3_app {A B C} (R : A -> B -> C -> Prop) la lb lc la' lb' lc' :
  Forall3 R la lb lc -> Forall3 R la' lb' lc' -> Forall3 R (la ++ la') (lb ++ lb') (lc ++ lc').
Proof. intros H H'. induction H; cbn [app]; [exact H'|constructor; assumption]. Qed.

Lemma Forall3_diag {A B} (R : A -> B -> B -> Prop) la lb :
  Forall3 R la lb lb -> Forall2 (fun a b => R a b b) la lb.
Proof.
  intros H. remember lb as lc eqn:E in H at 2. revert E.
  induction H as [|a b c la' lb' lc' Hr Hf IH]; intros E; [constructor|].
  injection E as <- <-. constructor; [exact Hr|apply IH; reflexivity].
Qed.

Lemma Forall3_lengths {A B C} (R : A -> B -> C -> Prop) la lb lc :
  Forall3 R la lb lc -> length la = length lb /\ length lb = length lc.
Proof. intros H. induction H; cbn [length]; [split; reflexivity|destruct IHForall3; split; congruence]. Qed.

Lemma Forall3_mono {A B C} (R R' : A -> B -> C -> Prop) la lb lc :
  (forall a b c, R a b c -> R' a b c) -> Forall3 R la lb lc -> Forall3 R' la lb lc.
Proof. intros K H. induction H; constructor; auto. Qed.

(* ------------------------------------------------------------------ packets *)
Definition pktT (r1 r2 : bool) (eth : bytes) (p1 p2 : packet) : Prop :=
  exists l3, p1 = pkt_of_body (framed r1 eth l3) /\ p2 = pkt_of_body (framed r2 eth l3).

(** the value two twin calls return: one packet each or equally long packet sequences, pairwise [pktT] for the
    headers [es] in order -- or, for a call that returns no packets ([None]), the very same value *)
Inductive valT (r1 r2 : bool) : option (list bytes) -> val -> val -> Prop :=
| valT_pkt eth p1 p2 : pktT r1 r2 eth p1 p2 -> valT r1 r2 (Some [eth]) (VPkt p1) (VPkt p2)
| valT_gen es ps1 ps2 : Forall3 (pktT r1 r2) es ps1 ps2 -> valT r1 r2 (Some es) (VPktGen ps1) (VPktGen ps2)
| valT_same v : valT r1 r2 None v v.

Lemma pktT_intro r1 r2 eth l3 : pktT r1 r2 eth (pkt_of_body (framed r1 eth l3)) (pkt_of_body (framed r2 eth l3)).
Proof. exists l3. split; reflexivity. Qed.

Lemma valT_conv r1 r2 es v1 v2 : valT r1 r2 (Some es) v1 v2 ->
  exists ps1 ps2, conv_pktgen v1 = Ok ps1 /\ conv_pktgen v2 = Ok ps2 /\ Forall3 (pktT r1 r2) es ps1 ps2.
Proof.
  intros H. inversion H; subst.
  - exists [p1], [p2]. split; [reflexivity|]. split; [reflexivity|]. constructor; [assumption|constructor].
  - exists ps1, ps2. split; [reflexivity|]. split; [reflexivity|assumption].
Qed.

(** one run related to itself: every packet is the designated header followed by a datagram *)
Definition pkt_framed (raw : bool) (eth : bytes) (p : packet) : Prop := exists l3, pk_body p = framed raw eth l3.

Lemma pktT_diag r eth p : pktT r r eth p p -> pkt_framed r eth p.
Proof. intros (l3 & -> & _). exists l3. reflexivity. Qed.

Lemma valT_diag r es v : valT r r (Some es) v v ->
  exists ps, conv_pktgen v = Ok ps /\ Forall2 (pkt_framed r) es ps.
Proof.
  intros H. destruct (valT_conv _ _ _ _ _ H) as (ps1 & ps2 & E1 & E2 & F).
  rewrite E1 in E2. apply Ok_inj in E2. subst ps2. exists ps1. split; [exact E1|].
  apply Forall3_diag in F. clear -F. induction F as [|a b la lb Hr Hf IH]; [constructor|constructor; [apply pktT_diag; exact Hr|exact IH]].
Qed.

(** the property's relation between a framed packet and its raw twin *)
Lemma pktT_raw_relation eth pf pr : length eth = 14%nat -> pktT false true eth pf pr ->
  pk_body pr = skipn 14 (pk_body pf) /\ firstn 14 (pk_body pf) = eth /\ pk_hr pr = pk_hr pf.
Proof.
  intros L (l3 & -> & ->). cbn [pk_body pkt_of_body pk_hr].
  split; [apply framed_raw_skip14, L|]. split; [apply framed_first14, L|reflexivity].
Qed.

Lemma pktT_sym r1 r2 eth p1 p2 : pktT r1 r2 eth p1 p2 -> pktT r2 r1 eth p2 p1.
Proof. intros (l3 & A & B). exists l3. split; assumption. Qed.

Lemma length_eth_bcast_for s : length (eth_bcast_for s) = 14%nat. Proof. reflexivity. Qed.

(** the uniform header for the addresses of an IPv4 header designated by C02b's plans *)
Definition eth_of_want (w : ip_want) : bytes := eth_for (w_src w) (w_dst w).
Definition eth_bcast_of_want (w : ip_want) : bytes := eth_bcast_for (w_src w).

(** a plan that is always there: a call whose arguments do not convert returns no value, so nothing is claimed *)
Definition plan_total (o : option (list bytes)) : option (list bytes) :=
  Some (match o with Some es => es | None => [] end).

(* ------------------------------------------------------------------ heaps *)
(** result of a method call on twin heaps: the receivers at [a] are replaced by objects related by [OT], the
    values by [valT] *)
Definition resT (OT : obj -> obj -> Prop) (r1 r2 : bool) (a : nat) (h1 h2 : heap) (pl : option (list bytes))
  (x y : val * heap) : Prop :=
  exists o1' o2', snd x = set_nth h1 a o1' /\ snd y = set_nth h2 a o2' /\ OT o1' o2' /\ valT r1 r2 pl (fst x) (fst y).

Lemma set_nth_same_id {A} (l : list A) n x : nth_error l n = Some x -> set_nth l n x = l.
Proof.
  revert n. induction l as [|y r IH]; intros [|n]; cbn [nth_error set_nth]; intros H; try discriminate H.
  - injection H as ->. reflexivity.
  - f_equal. apply IH, H.
Qed.

(* ------------------------------------------------------------------ tactics *)
(** peel identical leading computations off both sides *)
Ltac osame :=
  lazymatch goal with
  | |- orel _ (obind ?x _) (obind ?x _) =>
    let E := fresh "E" in apply orel_bind_same; intros ? E
  end.

Ltac odone := first [constructor; fail | apply orel_eq_refl].
