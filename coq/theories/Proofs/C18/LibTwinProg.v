(** C18 at the level the interpreter executes, part 8: two whole call sequences ("the same program with raw mode
    r1 and with raw mode r2").  The call lists agree call by call except that every constructor with a raw:
    argument gets a value converting to r1 in one and to r2 in the other; method calls (on ANY object of a class
    with a raw flag, any interleaving of objects) are identical.  If the first sequence runs, so does the second;
    the heaps stay pointwise twins; every pair of returned values is [valT r1 r2]-related: the very same value,
    or packets that are pairwise [framed r1 eth l3] / [framed r2 eth l3] for 14-byte headers [eth]. *)
From RS Require Import Base.Bytes Base.Outcome Bind.Types Pkt.Packet Ez.Ip4 Interp.Val Interp.Eval Lib.LibBase Lib.StdLib Lib.Ipv4Lib
  Proofs.C08.LibTac Proofs.C07.LibFrag Proofs.Tactics Proofs.C18.Framing Proofs.C18.LibTwinBase Proofs.C18.LibTwinFns Proofs.C18.LibTwinAll
  Proofs.C02.LibIpAll Proofs.C03.LibCalls.
From RSGen Require Import Catalogue.
From Coq Require Import Arith Lia.
Open Scope N_scope.

(** pointwise twins; every object with a flag has flag r1 in the first heap and r2 in the second *)
Definition cellT (r1 r2 : bool) (o1 o2 : obj) : Prop :=
  obj_twin o1 o2 /\ (In (obj_class o1) raw_classes -> obj_raw o1 = r1 /\ obj_raw o2 = r2).
Definition heapT (r1 r2 : bool) (h1 h2 : heap) : Prop := Forall2 (cellT r1 r2) h1 h2.

Lemma Forall2_nth {A B} (R : A -> B -> Prop) l1 l2 n a : Forall2 R l1 l2 -> nth_error l1 n = Some a ->
  exists b, nth_error l2 n = Some b /\ R a b.
Proof.
  intros H. revert n. induction H as [|x y l1 l2 Hr _ IH]; intros [|n] E; try discriminate E.
  - injection E as <-. exists y. split; [reflexivity|exact Hr].
  - apply IH, E.
Qed.
Lemma Forall2_set_nth {A B} (R : A -> B -> Prop) l1 l2 n a b : Forall2 R l1 l2 -> R a b ->
  Forall2 R (set_nth l1 n a) (set_nth l2 n b).
Proof.
  intros H Hab. revert n. induction H as [|x y l1 l2 Hr H IH]; intros [|n]; cbn [set_nth]; constructor; auto.
Qed.
Lemma Forall2_length' {A B} (R : A -> B -> Prop) l1 l2 : Forall2 R l1 l2 -> length l1 = length l2.
Proof. induction 1; cbn [length]; congruence. Qed.

(** the functions that take raw: and return packets *)
Definition raw_fn_keys : list string := ["ipv4::udp::unicast"; "ipv4::udp::broadcast"; "dns::host"]%string.

(** a pair of corresponding calls: (1) the same method call on an object of a class with a raw flag; (2) a
    constructor with raw: r1 / r2; (3) unicast / broadcast / dns::host with raw: r1 / r2; (4) an IpFrag method
    with raw: r1 / r2; (5) the same ipv4::frag constructor call *)
Definition pairT (r1 r2 : bool) (c1 c2 : call) : Prop :=
  c_key c1 = c_key c2 /\ c_this c1 = c_this c2 /\ c_extra c1 = c_extra c2 /\
  ( (c_slots c1 = c_slots c2 /\ exists cls name, In cls raw_classes /\ class_method cls name (c_key c1))
    \/ (c_this c1 = None /\ In (c_key c1) raw_ctor_keys /\ raw_slots r1 r2 (c_slots c1) (c_slots c2))
    \/ (c_this c1 = None /\ In (c_key c1) raw_fn_keys /\ raw_slots r1 r2 (c_slots c1) (c_slots c2))
    \/ ((exists name, class_method frag_class name (c_key c1)) /\ raw_slots r1 r2 (c_slots c1) (c_slots c2))
    \/ (c_this c1 = None /\ c_key c1 = "ipv4::frag"%string /\ c_slots c1 = c_slots c2) ).

Lemma frag_ctor_same e slots extra h1 h2 :
  oorel (fun x y => exists f, fst x = VObj (length h1) /\ fst y = VObj (length h2)
                      /\ snd x = (h1 ++ [OFrag f])%list /\ snd y = (h2 ++ [OFrag f])%list)
    (exec e "ipv4::frag" None slots extra h1) (exec e "ipv4::frag" None slots extra h2).
Proof.
  fn_enter. unfold ipv4_frag_fn. slots_cases. do 8 osame. constructor. unfold alloc. cbn [fst snd].
  eexists. repeat split.
Qed.

(** the values of a pair of calls *)
Definition pair_valT (r1 r2 : bool) (v1 v2 : val) : Prop :=
  exists pl, (forall es, pl = Some es -> eth_len_ok es) /\ valT r1 r2 pl v1 v2.

Lemma step_twin e r1 r2 c1 c2 h1 h2 v1 k1 :
  pairT r1 r2 c1 c2 -> heapT r1 r2 h1 h2 -> do_call e c1 h1 = Some (Ok (v1, k1)) ->
  exists v2 k2, do_call e c2 h2 = Some (Ok (v2, k2)) /\ heapT r1 r2 k1 k2 /\ pair_valT r1 r2 v1 v2.
Proof.
  intros (Ek & Et & Ex & [(Es & cls & name & Hc & Hcm)|[(Hn & Hk & Hr)|[(Hn & Hk & Hr)|[((name & Hcm) & Hr)|(Hn & Hk & Es)]]]]) Hh Ec;
    unfold do_call in *; rewrite <- Ek, <- Et, <- Ex.
  - rewrite <- Es.
    destruct (method_recv e cls name _ _ _ _ _ _ _ (raw_in_ip _ Hc) Hcm Ec) as (a & o1 & Eth & Hn1 & Ho). subst cls.
    destruct (Forall2_nth _ _ _ _ _ Hh Hn1) as (o2 & Hn2 & (Htw & Hraw)). destruct (Hraw Hc) as (R1 & R2).
    rewrite Eth in Ec |- *.
    pose proof (lib_method_twin e name (c_key c1) (c_slots c1) (c_extra c1) h1 h2 a o1 o2 Hc Hcm Hn1 Hn2 Htw) as T.
    rewrite Ec in T. destruct (exec e (c_key c1) (Some a) (c_slots c1) (c_extra c1) h2) as [x2|]; [|contradiction T].
    cbn [oorel] in T. apply orel_ok_l in T. destruct T as ([v2 k2] & -> & (p1 & p2 & E1 & E2 & (B1 & B2 & B3 & B4 & B5) & Hv)).
    cbn [fst snd] in E1, E2, Hv. subst k1 k2. exists v2, (set_nth h2 a p2). split; [reflexivity|]. split.
    + apply Forall2_set_nth; [exact Hh|]. split; [exact B1|]. intros _. split; congruence.
    + rewrite R1, R2 in Hv. eexists. split; [|exact Hv]. intros es E. eapply method_eth_len, E.
  - rewrite Hn in Ec |- *.
    pose proof (ctor_twin e (c_key c1) (c_slots c1) (c_slots c2) (c_extra c1) h1 h2 r1 r2 Hk Hr) as T.
    rewrite Ec in T. destruct (exec e (c_key c1) None (c_slots c2) (c_extra c1) h2) as [x2|]; [|contradiction T].
    cbn [oorel] in T. apply orel_ok_l in T. destruct T as ([v2 k2] & -> & (o & Hoc & E1 & E2 & E3 & E4)).
    cbn [fst snd] in E1, E2, E3, E4. subst v1 v2 k1 k2. eexists; eexists. split; [reflexivity|]. split.
    + apply Forall2_app; [exact Hh|]. constructor; [|constructor]. split; [apply obj_twin_with_raw|].
      intros _. split; apply obj_raw_with_raw; exact Hoc.
    + exists None. split; [discriminate|]. rewrite (Forall2_length' _ _ _ Hh). constructor.
  - rewrite Hn in Ec |- *. cbn [In raw_fn_keys] in Hk.
    assert (T : exists pl, (forall es, pl = Some es -> eth_len_ok es) /\
                  oorel (fn_resT r1 r2 h1 h2 pl) (exec e (c_key c1) None (c_slots c1) (c_extra c1) h1)
                    (exec e (c_key c1) None (c_slots c2) (c_extra c1) h2)).
    { destruct Hk as [<-|[<-|[<-|[]]]].
      - exists (unicast_eth (c_slots c1)). split; [apply fn_eth_len|]. exact (unicast_twin e _ _ _ h1 h2 r1 r2 Hr).
      - exists (broadcast_eth (c_slots c1)). split; [apply fn_eth_len|]. exact (broadcast_twin e _ _ _ h1 h2 r1 r2 Hr).
      - exists (dns_host_eth (c_slots c1)). split; [apply fn_eth_len|]. exact (dns_host_twin e _ _ _ h1 h2 r1 r2 Hr). }
    destruct T as (pl & Hl & T). rewrite Ec in T.
    destruct (exec e (c_key c1) None (c_slots c2) (c_extra c1) h2) as [x2|]; [|contradiction T].
    cbn [oorel] in T. apply orel_ok_l in T. destruct T as ([v2 k2] & -> & (E1 & E2 & Hv)). cbn [fst snd] in E1, E2, Hv. subst k1 k2.
    exists v2, h2. split; [reflexivity|]. split; [exact Hh|]. exists pl. split; assumption.
  - destruct (method_recv e frag_class name _ _ _ _ _ _ _ ltac:(cbn; tauto) Hcm Ec) as (a & o1 & Eth & Hn1 & Ho).
    destruct o1 as [f|f|f|f|f|f|f|f|b t]; try discriminate Ho.
    destruct (Forall2_nth _ _ _ _ _ Hh Hn1) as (o2 & Hn2 & (Htw & _)).
    assert (o2 = OFrag f) by (unfold obj_twin in Htw; destruct o2; cbn [obj_with_raw] in Htw; try discriminate Htw; congruence). subst o2.
    rewrite Eth in Ec |- *. destruct Hcm as (ms & Hms & Hin).
    pose proof (frag_method_twin e ms name (c_key c1) (c_slots c1) (c_slots c2) (c_extra c1) h1 h2 a f r1 r2 Hms Hin Hn1 Hn2 Hr) as T.
    rewrite Ec in T. destruct (exec e (c_key c1) (Some a) (c_slots c2) (c_extra c1) h2) as [x2|]; [|contradiction T].
    cbn [oorel] in T. apply orel_ok_l in T. destruct T as ([v2 k2] & -> & (E1 & E2 & Hv)). cbn [fst snd] in E1, E2, Hv. subst k1 k2.
    exists v2, h2. split; [reflexivity|]. split; [exact Hh|]. eexists. split; [|exact Hv].
    intros es E. exact (method_eth_len (OFrag f) name (c_slots c1) es E).
  - rewrite Hn in Ec |- *. rewrite <- Es. rewrite Hk in Ec |- *.
    pose proof (frag_ctor_same e (c_slots c1) (c_extra c1) h1 h2) as T.
    rewrite Ec in T. destruct (exec e "ipv4::frag" None (c_slots c1) (c_extra c1) h2) as [x2|]; [|contradiction T].
    cbn [oorel] in T. apply orel_ok_l in T. destruct T as ([v2 k2] & -> & (f & E1 & E2 & E3 & E4)).
    cbn [fst snd] in E1, E2, E3, E4. subst v1 v2 k1 k2. eexists; eexists. split; [reflexivity|]. split.
    + apply Forall2_app; [exact Hh|]. constructor; [|constructor]. split; [reflexivity|].
      cbn [obj_class raw_classes In]. intros Hc. exfalso. repeat (destruct Hc as [Hc|Hc]; [discriminate Hc|]). exact Hc.
    + exists None. split; [discriminate|]. rewrite (Forall2_length' _ _ _ Hh). constructor.
Qed.

Theorem program_twin e r1 r2 : forall cs1 cs2 h1 h2 vs1 h1',
  Forall2 (pairT r1 r2) cs1 cs2 -> heapT r1 r2 h1 h2 -> run_hist e cs1 h1 = Some (vs1, h1') ->
  exists vs2 h2', run_hist e cs2 h2 = Some (vs2, h2') /\ heapT r1 r2 h1' h2' /\ Forall2 (pair_valT r1 r2) vs1 vs2.
Proof.
  induction cs1 as [|c1 t1 IH]; intros cs2 h1 h2 vs1 h1' Hp Hh H; inversion Hp as [|? c2 ? t2 Hc Ht]; subst; cbn [run_hist] in H |- *.
  - apply Some_inj in H. apply pair_equal_spec in H. destruct H as [<- <-]. exists [], h2. repeat split; [exact Hh|constructor].
  - destruct (do_call e c1 h1) as [[[v1 k1]| | |]|] eqn:Ec; try discriminate H.
    destruct (run_hist e t1 k1) as [[vr1 kr1]|] eqn:Er; try discriminate H.
    apply Some_inj in H. apply pair_equal_spec in H. destruct H as [<- <-].
    destruct (step_twin e r1 r2 c1 c2 h1 h2 v1 k1 Hc Hh Ec) as (v2 & k2 & E2 & Hk & Hv). rewrite E2.
    destruct (IH t2 k1 k2 vr1 kr1 Ht Hk Er) as (vs2 & h2' & Er2 & Hh' & F). rewrite Er2.
    exists (v2 :: vs2), h2'. split; [reflexivity|]. split; [exact Hh'|constructor; assumption].
Qed.

Lemma heapT_nil r1 r2 : heapT r1 r2 [] []. Proof. constructor. Qed.
