(** C18 at the level the interpreter executes, part 5: all classes at once, every packet-returning key of the
    catalogue, the constructors, and histories.
    [obj_with_raw r o]: object [o] with its raw flag set to [r] (IpFrag and BufIO objects have none);
    [obj_twin o1 o2]: equal but for the raw flag.  [method_eth_plan o name slots]: the Ethernet headers the
    packets of method [name] of object [o] must start with, in order -- [eth_of_want] of exactly the IPv4
    headers C02b's [method_plan] designates. *)
From RS Require Import Base.Bytes Base.Outcome Bind.Types Pkt.Csum Pkt.Hdrs Pkt.Packet Ez.Tcp Ez.Udp Ez.Icmp Ez.Ip4 Ez.Gre
  Interp.Val Interp.Eval Lib.LibBase Lib.StdLib Lib.Ipv4Lib Lib.MiscLib Lib.ProtoLib
  Proofs.Tactics Proofs.C18.Framing Proofs.C18.LibTwinBase Proofs.C18.LibTwinTcp Proofs.C18.LibTwinFns Proofs.C18.LibTwinTun
  Proofs.C02.TcpIp Proofs.C02.OtherIp
  Proofs.C02.LibIp Proofs.C02.LibIpTcp Proofs.C02.LibIpFns Proofs.C02.LibIpTun Proofs.C02.LibIpAll
  Proofs.C08.LibTac Proofs.C03.LibCalls Proofs.C03.LibTcpOps Proofs.C03.LibTcp Proofs.C03.LibUdp Proofs.C03.LibIcmp
  Proofs.C07.Compose Proofs.C07.LibFrag.
From RSGen Require Import Catalogue.
From Coq Require Import Lia.
Open Scope N_scope.

(* ------------------------------------------------------------------ objects *)
Definition obj_with_raw (r : bool) (o : obj) : obj :=
  match o with
  | OTcp f => OTcp (flow_raw r f) | OUdp f => OUdp (uflow_raw r f) | OIcmp f => OIcmp (icmp_raw r f)
  | OVxlan f => OVxlan (vxlan_raw r f) | OGre f => OGre (gflow_raw r f)
  | OErspan1 f => OErspan1 (e1_with_raw r f) | OErspan2 f => OErspan2 (e2_with_raw r f)
  | OFrag f => OFrag f | OBufIo b t => OBufIo b t
  end.
Definition obj_raw (o : obj) : bool :=
  match o with
  | OTcp f => tf_raw f | OUdp f => uf_raw f | OIcmp f => if_raw f | OVxlan f => vx_raw f | OGre f => gl_raw f
  | OErspan1 f => e1_raw f | OErspan2 f => e2_raw f | OFrag _ | OBufIo _ _ => false
  end.
Definition obj_twin (o1 o2 : obj) : Prop := obj_with_raw false o1 = obj_with_raw false o2.

Lemma obj_with_raw_id o : obj_with_raw (obj_raw o) o = o.
Proof. destruct o as [f|f|f|f|f|f|f|f|b t]; try destruct f; reflexivity. Qed.
Lemma obj_with_raw_twice r r' o : obj_with_raw r (obj_with_raw r' o) = obj_with_raw r o.
Proof. destruct o; reflexivity. Qed.
Lemma obj_twin_refl o : obj_twin o o. Proof. reflexivity. Qed.
Lemma obj_twin_with_raw r1 r2 o : obj_twin (obj_with_raw r1 o) (obj_with_raw r2 o).
Proof. unfold obj_twin. rewrite !obj_with_raw_twice. reflexivity. Qed.
Lemma obj_twin_repr o1 o2 : obj_twin o1 o2 -> o2 = obj_with_raw (obj_raw o2) o1.
Proof.
  unfold obj_twin. intros H. rewrite <- (obj_with_raw_twice (obj_raw o2) false o1), H, obj_with_raw_twice.
  symmetry. apply obj_with_raw_id.
Qed.
Lemma obj_twin_class o1 o2 : obj_twin o1 o2 -> obj_class o2 = obj_class o1.
Proof. unfold obj_twin. destruct o1, o2; cbn [obj_with_raw]; intros H; try discriminate H; reflexivity. Qed.

(** the classes whose objects carry a raw flag *)
Definition raw_classes : list string :=
  [tcp_class; udp_class; icmp_class; "vxlan::Vxlan"; "gre::Gre"; "erspan1::Erspan1"; "erspan2::Erspan2"]%string.

(* ------------------------------------------------------------------ the headers a method designates *)
Definition method_eth_plan (o : obj) (name : string) (slots : list val) : option (list bytes) :=
  match o with
  | OTcp f => tcp_eth_plan (tf_cl f) (tf_sv f) name slots
  | OUdp f => udp_eth_plan f name slots
  | OIcmp f => icmp_eth_plan f name
  | OFrag f => frag_eth_plan f name slots
  | OVxlan f => tun_eth_plan (vxlan_want f) slots
  | OGre f => tun_eth_plan (gre_want f) slots
  | OErspan1 f => tun_eth_plan (erspan1_want f) slots
  | OErspan2 f => tun_eth_plan (erspan2_want f) slots
  | OBufIo _ _ => None
  end.

(** ... are the uniform headers for exactly the IPv4 headers C02b designates *)
Lemma tcp_plan_names name slots pl : tcp_plan name slots = Some pl -> existsb (String.eqb name) tcp_pkt_names = true.
Proof.
  unfold tcp_plan. cbn [existsb tcp_pkt_names].
  repeat (destruct (String.eqb name _); [intros _; cbn [orb]; reflexivity|]). discriminate.
Qed.
Lemma udp_plan_names f name slots ws : udp_plan f name slots = Some ws -> existsb (String.eqb name) udp_pkt_names = true.
Proof.
  unfold udp_plan. cbn [existsb udp_pkt_names].
  repeat (destruct (String.eqb name _); [intros _; cbn [orb]; reflexivity|]). discriminate.
Qed.

Lemma eth_of_tcp_want f c fo : eth_of_want (tcp_want f c fo) = side_eth (tf_cl f) (tf_sv f) c.
Proof. destruct c; reflexivity. Qed.

Lemma same_eth_want w ps : same_eth (eth_of_want w) ps = map eth_of_want (same_want w ps).
Proof. unfold same_eth, same_want. rewrite map_map. reflexivity. Qed.

Theorem method_eth_plan_ip o name slots raw ws :
  method_plan o name slots = Some (raw, ws) ->
  method_eth_plan o name slots = Some (map eth_of_want ws)
  /\ (match o with OFrag _ => True | _ => raw = obj_raw o end).
Proof.
  destruct o as [f|f|f|f|f|f|f|f|b t]; cbn [method_plan method_eth_plan obj_raw]; intros H.
  - destruct (tcp_plan name slots) as [pl|] eqn:E; [|discriminate H]. cbn [option_map] in H. injection H as <- <-.
    unfold tcp_eth_plan. rewrite (tcp_plan_names _ _ _ E), E. cbn [option_map plan_total]. split; [|reflexivity].
    rewrite map_map. unfold plan_total. f_equal. apply map_ext. intros [c fo]. cbn [fst snd]. symmetry. apply eth_of_tcp_want.
  - destruct (udp_plan f name slots) as [pl|] eqn:E; [|discriminate H]. cbn [option_map] in H. injection H as <- <-.
    unfold udp_eth_plan. rewrite (udp_plan_names _ _ _ _ E), E. split; reflexivity.
  - destruct (icmp_plan f name) as [pl|] eqn:E; [|discriminate H]. cbn [option_map] in H. injection H as <- <-.
    unfold icmp_eth_plan. rewrite E. split; reflexivity.
  - destruct (frag_call_req name slots) as [q|] eqn:E; [|discriminate H]. cbn [option_map] in H. injection H as <- <-.
    unfold frag_eth_plan. rewrite E. split; [reflexivity|exact I].
  - unfold tun_eth_plan. destruct (conv_pktgen (nth 0 slots VNil)) as [ps| | |]; try discriminate H.
    cbn [opt_of option_map] in H. injection H as <- <-. rewrite same_eth_want. split; reflexivity.
  - unfold tun_eth_plan. destruct (conv_pktgen (nth 0 slots VNil)) as [ps| | |]; try discriminate H.
    cbn [opt_of option_map] in H. injection H as <- <-. rewrite same_eth_want. split; reflexivity.
  - unfold tun_eth_plan. destruct (conv_pktgen (nth 0 slots VNil)) as [ps| | |]; try discriminate H.
    cbn [opt_of option_map] in H. injection H as <- <-. rewrite same_eth_want. split; reflexivity.
  - unfold tun_eth_plan. destruct (conv_pktgen (nth 0 slots VNil)) as [ps| | |]; try discriminate H.
    cbn [opt_of option_map] in H. injection H as <- <-. rewrite same_eth_want. split; reflexivity.
  - discriminate H.
Qed.

(** what a method call leaves behind: the receivers are twins again, keep their raw flags, their class, and
    designate the same headers for every later call *)
Definition plan_same (o' o : obj) : Prop := forall n s, method_eth_plan o' n s = method_eth_plan o n s.
Definition objR (o1 o2 o1' o2' : obj) : Prop :=
  obj_twin o1' o2' /\ obj_raw o1' = obj_raw o1 /\ obj_raw o2' = obj_raw o2 /\ plan_same o1' o1
  /\ obj_class o1' = obj_class o1.

Lemma objR_refl o1 o2 : obj_twin o1 o2 -> objR o1 o2 o1 o2.
Proof. intros H. split; [exact H|]. repeat split. Qed.
Lemma objR_trans o1 o2 p1 p2 q1 q2 : objR o1 o2 p1 p2 -> objR p1 p2 q1 q2 -> objR o1 o2 q1 q2.
Proof.
  intros (A1 & A2 & A3 & A4 & A5) (B1 & B2 & B3 & B4 & B5). split; [exact B1|].
  split; [congruence|]. split; [congruence|]. split; [|congruence].
  intros n s. rewrite B4. apply A4.
Qed.

Lemma flow_raw_eq_inv f g : flow_raw false f = flow_raw false g ->
  flowT (tf_raw f) (tf_raw g) (tf_cl f) (tf_sv f) f g.
Proof.
  destruct f, g. unfold flow_raw. cbn. intros H. injection H as -> -> -> ->.
  eexists {| tf_cl := _; tf_sv := _; tf_cl_seq := _; tf_sv_seq := _; tf_raw := false |}. repeat split.
Qed.

Ltac twin_inj Ht :=
  unfold obj_twin in Ht; cbn [obj_with_raw] in Ht; try discriminate Ht.

(** EVERY method of every class with a raw flag, on twin receivers, same arguments *)
Theorem lib_method_twin e name key slots extra h1 h2 a o1 o2 :
  In (obj_class o1) raw_classes -> class_method (obj_class o1) name key ->
  nth_error h1 a = Some o1 -> nth_error h2 a = Some o2 -> obj_twin o1 o2 ->
  oorel (resT (objR o1 o2) (obj_raw o1) (obj_raw o2) a h1 h2 (method_eth_plan o1 name slots))
    (exec e key (Some a) slots extra h1) (exec e key (Some a) slots extra h2).
Proof.
  intros Hc (ms & Hms & Hin) Hn1 Hn2 Ht.
  assert (Er : exists r2, o2 = obj_with_raw r2 o1) by (eexists; apply obj_twin_repr, Ht). destruct Er as (r2 & Er).
  destruct o1 as [f|f|f|f|f|f|f|f|b t]; cbn [obj_class raw_classes In] in Hc;
    try (exfalso; repeat (destruct Hc as [Hc|Hc]; [discriminate Hc|]); exact Hc); clear Hc;
    cbn [obj_with_raw] in Er; subst o2; cbn [obj_raw method_eth_plan] in *.
  - (* TCP *)
    eapply oorel_mono; [|eapply (tcp_method_twin e ms name key slots extra h1 h2 a f _ (tf_raw f) r2 (tf_cl f) (tf_sv f) Hms Hin Hn1 Hn2)].
    + intros [v1 k1] [v2 k2] (g1 & g2 & E1 & E2 & Hg & Hv). cbn [fst snd] in *.
      exists (OTcp g1), (OTcp g2). cbn [fst snd]. split; [exact E1|]. split; [exact E2|]. split; [|exact Hv].
      destruct Hg as (g & Ecl & Esv & -> & ->). repeat split. intros n s. cbn [method_eth_plan tf_cl tf_sv flow_raw]. rewrite Ecl, Esv. reflexivity.
    + exists f. split; [reflexivity|]. split; [reflexivity|]. split; [symmetry; apply flow_raw_id|reflexivity].
  - (* UDP *)
    assert (Ef : OUdp f = OUdp (uflow_raw (uf_raw f) f)) by (destruct f; reflexivity).
    rewrite Ef in Hn1.
    eapply oorel_mono; [|eapply (udp_method_twin e ms name key slots extra h1 h2 a f (uf_raw f) r2 Hms Hin Hn1 Hn2)].
    intros [v1 k1] [v2 k2] (E1 & E2 & Hv). cbn [fst snd] in *. subst k1 k2.
    exists (OUdp f), (OUdp (uflow_raw r2 f)). cbn [fst snd].
    split; [symmetry; apply set_nth_same_id; rewrite Hn1, <- Ef; reflexivity|].
    split; [symmetry; apply set_nth_same_id; exact Hn2|]. split; [|exact Hv].
    repeat split.
  - (* ICMP *)
    assert (Ef : OIcmp f = OIcmp (icmp_raw (if_raw f) f)) by (destruct f; reflexivity).
    rewrite Ef in Hn1.
    eapply oorel_mono; [|eapply (icmp_method_twin e ms name key slots extra h1 h2 a f (if_raw f) r2 Hms Hin Hn1 Hn2)].
    intros [v1 k1] [v2 k2] (p1 & p2 & E1 & E2 & (g & Ec & Es & -> & ->) & Hv). cbn [fst snd] in *.
    eexists; eexists. split; [exact E1|]. split; [exact E2|]. split; [|exact Hv].
    repeat split. intros n s. cbn [method_eth_plan]. unfold icmp_eth_plan, icmp_plan. cbn [if_cl if_sv icmp_raw]. rewrite Ec, Es. reflexivity.
  - (* VXLAN *)
    assert (Ef : OVxlan f = OVxlan (vxlan_raw (vx_raw f) f)) by (destruct f; reflexivity).
    rewrite Ef in Hn1.
    eapply oorel_mono; [|eapply (vxlan_method_twin e ms name key slots extra h1 h2 a f (vx_raw f) r2 Hms Hin Hn1 Hn2)].
    intros [v1 k1] [v2 k2] (E1 & E2 & Hv). cbn [fst snd] in *. subst k1 k2.
    exists (OVxlan f), (OVxlan (vxlan_raw r2 f)). cbn [fst snd].
    split; [symmetry; apply set_nth_same_id; rewrite Hn1, <- Ef; reflexivity|].
    split; [symmetry; apply set_nth_same_id; exact Hn2|]. split; [|exact Hv].
    repeat split.
  - (* GRE *)
    eapply oorel_mono; [|eapply (gre_method_twin e ms name key slots extra h1 h2 a f _ (gl_raw f) r2 (gl_cl f) (gl_sv f) Hms Hin Hn1 Hn2)].
    + intros [v1 k1] [v2 k2] (p1 & p2 & E1 & E2 & (g1 & g2 & -> & -> & (g & Ec & Es & -> & ->)) & Hv). cbn [fst snd] in *.
      eexists; eexists. split; [exact E1|]. split; [exact E2|]. split; [|exact Hv].
      repeat split. intros n s. cbn [method_eth_plan]. unfold gre_want. cbn [gl_cl gl_sv gflow_raw]. rewrite Ec, Es. reflexivity.
    + exists f. split; [reflexivity|]. split; [reflexivity|]. split; [destruct f; reflexivity|reflexivity].
  - (* ERSPAN I *)
    assert (Ef : OErspan1 f = OErspan1 (e1_with_raw (e1_raw f) f)) by (destruct f; reflexivity).
    rewrite Ef in Hn1.
    eapply oorel_mono; [|eapply (erspan1_method_twin e ms name key slots extra h1 h2 a f (e1_raw f) r2 Hms Hin Hn1 Hn2)].
    intros [v1 k1] [v2 k2] (E1 & E2 & Hv). cbn [fst snd] in *. subst k1 k2.
    exists (OErspan1 f), (OErspan1 (e1_with_raw r2 f)). cbn [fst snd].
    split; [symmetry; apply set_nth_same_id; rewrite Hn1, <- Ef; reflexivity|].
    split; [symmetry; apply set_nth_same_id; exact Hn2|]. split; [|exact Hv].
    repeat split.
  - (* ERSPAN II *)
    eapply oorel_mono; [|eapply (erspan2_method_twin e ms name key slots extra h1 h2 a f _ (e2_raw f) r2 (e2_cl f) (e2_sv f) Hms Hin Hn1 Hn2)].
    + intros [v1 k1] [v2 k2] (p1 & p2 & E1 & E2 & (g1 & g2 & -> & -> & (g & Ec & Es & -> & ->)) & Hv). cbn [fst snd] in *.
      eexists; eexists. split; [exact E1|]. split; [exact E2|]. split; [|exact Hv].
      repeat split. intros n s. cbn [method_eth_plan]. unfold erspan2_want. cbn [e2_cl e2_sv e2_with_raw]. rewrite Ec, Es. reflexivity.
    + exists f. split; [reflexivity|]. split; [reflexivity|]. split; [destruct f; reflexivity|reflexivity].
Qed.

(* ------------------------------------------------------------------ one run: every packet-returning key *)
(** framing and Ethernet headers of a call: the uniform header [eth_of_want w] for every IPv4 header [w] that
    C02b's [ip_plan] designates; for ipv4::udp::broadcast the all-ones destination, and the source made from the
    source SOCKET (which is the IPv4 source unless srcip: overrides it) *)
Definition eth_plan (key : string) (this : option nat) (slots : list val) (h : heap) : bool * list bytes :=
  if String.eqb key "ipv4::udp::broadcast" then
    match broadcast_plan slots, slots with
    | Ok (r, _), src :: _ => (r, match conv_sock src with Ok s => [eth_bcast_for (fst s)] | _ => [] end)
    | _, _ => (false, [])
    end
  else match ip_plan key this slots h with Some (raw, ws) => (raw, map eth_of_want ws) | None => (false, []) end.

Definition eth_result (key : string) (this : option nat) (slots : list val) (h : heap) (v : val) : Prop :=
  exists ps, conv_pktgen v = Ok ps
    /\ Forall2 (pkt_framed (fst (eth_plan key this slots h))) (snd (eth_plan key this slots h)) ps.

Lemma method_eth_plan_none o name slots es :
  method_plan o name slots = None -> method_eth_plan o name slots = Some es -> es = [].
Proof.
  destruct o as [f|f|f|f|f|f|f|f|b t]; cbn [method_plan method_eth_plan]; intros H E.
  - destruct (tcp_plan name slots) eqn:Ep; [discriminate H|]. unfold tcp_eth_plan in E. rewrite Ep in E.
    destruct (existsb _ _); [|discriminate E]. injection E as <-. reflexivity.
  - destruct (udp_plan f name slots) eqn:Ep; [discriminate H|]. unfold udp_eth_plan in E. rewrite Ep in E.
    destruct (existsb _ _); [|discriminate E]. injection E as <-. reflexivity.
  - destruct (icmp_plan f name) eqn:Ep; [discriminate H|]. unfold icmp_eth_plan in E. rewrite Ep in E. discriminate E.
  - destruct (frag_call_req name slots) eqn:Ep; [discriminate H|]. unfold frag_eth_plan in E. rewrite Ep in E.
    injection E as <-. reflexivity.
  - unfold tun_eth_plan in E. destruct (conv_pktgen (nth 0 slots VNil)); try discriminate H; injection E as <-; reflexivity.
  - unfold tun_eth_plan in E. destruct (conv_pktgen (nth 0 slots VNil)); try discriminate H; injection E as <-; reflexivity.
  - unfold tun_eth_plan in E. destruct (conv_pktgen (nth 0 slots VNil)); try discriminate H; injection E as <-; reflexivity.
  - unfold tun_eth_plan in E. destruct (conv_pktgen (nth 0 slots VNil)); try discriminate H; injection E as <-; reflexivity.
  - discriminate E.
Qed.

Lemma raw_in_ip cls : In cls raw_classes -> In cls ip_classes.
Proof. cbn [In raw_classes ip_classes]. intuition. Qed.

Lemma Forall2_nil_l {A B} (P Q : A -> B -> Prop) l : Forall2 P [] l -> Forall2 Q [] l.
Proof. intros H. inversion H. constructor. Qed.

(** a packet-returning method of a class with a raw flag *)
Lemma method_case e cls name key this slots extra h v h' :
  In cls raw_classes -> class_method cls name key -> strip_prefix (cls ++ ".") key = Some name ->
  String.eqb key "ipv4::udp::broadcast" = false ->
  (forall o, obj_class o = cls -> exists es, method_eth_plan o name slots = Some es) ->
  exec e key this slots extra h = Some (Ok (v, h')) -> eth_result key this slots h v.
Proof.
  intros Hc Hcm Hsp Hk Hpk H.
  destruct (method_recv e cls name key this slots extra h v h' (raw_in_ip _ Hc) Hcm H) as (a & o & -> & Hn & Ho).
  subst cls. pose proof (lib_method_twin e name key slots extra h h a o o Hc Hcm Hn Hn (obj_twin_refl o)) as T.
  rewrite H in T. cbn [oorel] in T. apply orel_ok_both in T. destruct T as (o1' & o2' & _ & _ & _ & Hv). cbn [fst] in Hv.
  destruct (Hpk o eq_refl) as (es & Ees). rewrite Ees in Hv.
  destruct (valT_diag _ _ _ Hv) as (ps & Eps & F). exists ps. split; [exact Eps|].
  unfold eth_plan. rewrite Hk. rewrite (ip_plan_method a o key name slots h Hn Hsp).
  destruct (method_plan o name slots) as [[raw ws]|] eqn:Ep.
  - destruct (method_eth_plan_ip o name slots raw ws Ep) as (E1 & E2). rewrite Ees in E1. injection E1 as ->.
    cbn [fst snd]. destruct o; try (subst raw; exact F).
    exfalso. cbn [obj_class raw_classes In] in Hc. repeat (destruct Hc as [Hc|Hc]; [discriminate Hc|]). exact Hc.
  - pose proof (method_eth_plan_none o name slots es Ep Ees) as ->. cbn [fst snd]. revert F. apply Forall2_nil_l.
Qed.

(** IpFrag methods: the receiver has no flag; raw: is the call's last argument *)
Lemma frag_case e name key this slots extra h v h' :
  class_method frag_class name key -> strip_prefix "ipv4::IpFrag." key = Some name ->
  String.eqb key "ipv4::udp::broadcast" = false ->
  exec e key this slots extra h = Some (Ok (v, h')) -> eth_result key this slots h v.
Proof.
  intros Hcm Hsp Hk H.
  destruct (method_recv e frag_class name key this slots extra h v h' ltac:(cbn; tauto) Hcm H) as (a & o & -> & Hn & Ho).
  destruct o as [f|f|f|f|f|f|f|f|b t]; try discriminate Ho.
  destruct Hcm as (ms & Hms & Hin).
  destruct (frag_method_sound e ms name key slots extra h a f v h' Hms Hin Hn H) as (-> & q & p & Eq & -> & Er).
  exists [p]. split; [reflexivity|].
  unfold eth_plan. rewrite Hk. rewrite (ip_plan_method a (OFrag f) key name slots h Hn Hsp). cbn [method_plan]. rewrite Eq.
  cbn [option_map fst snd map]. constructor; [|constructor].
  pose proof (req_run_twin (snd q) (snd q) f (fst q)) as T. rewrite Er in T. apply orel_ok_both in T.
  apply pktT_diag in T. destruct (fst q); exact T.
Qed.

(** the three functions with a raw: argument, one run *)
Lemma unicast_diag e slots extra h :
  oorel (fun x y => exists r ws, unicast_plan slots = Ok (r, ws) /\ valT r r (Some (map eth_of_want ws)) (fst x) (fst y))
    (exec e "ipv4::udp::unicast" None slots extra h) (exec e "ipv4::udp::unicast" None slots extra h).
Proof.
  fn_enter. unfold udp_unicast_fn. slots_cases. do 4 osame.
  eapply orel_bind; [apply (udp_push_twin a a), udp_addr_twin|]. intros d1 d2 Hd. constructor.
  exists a, [udp_want a1 a2]. split; [unfold unicast_plan; rewrite E, E1, E2; reflexivity|].
  cbn [fst map]. apply valT_pkt. apply (udp_packet_twin _ _ _ _ _ Hd).
Qed.

Lemma broadcast_diag e slots extra h :
  oorel (fun x y => exists r ws src s, broadcast_plan slots = Ok (r, ws) /\ nth_error slots 0 = Some src /\ conv_sock src = Ok s
                    /\ valT r r (Some [eth_bcast_for (fst s)]) (fst x) (fst y))
    (exec e "ipv4::udp::broadcast" None slots extra h) (exec e "ipv4::udp::broadcast" None slots extra h).
Proof.
  fn_enter. unfold udp_broadcast_fn. slots_cases. do 5 osame.
  eapply orel_bind; [apply (udp_push_twin a0 a0), udp_bcast_twin|]. intros d1 d2 Hd. constructor.
  eexists a0, _, v, a2. split; [unfold broadcast_plan; rewrite E, E0, E2, E3; reflexivity|].
  split; [reflexivity|]. split; [exact E2|].
  cbn [fst]. apply valT_pkt. destruct a; [apply udp_packet_twin, udp_srcip_twin, Hd|apply udp_packet_twin, Hd].
Qed.

Lemma dns_host_diag e slots extra h :
  oorel (fun x y => exists r ws, dns_host_plan slots = Ok (r, ws) /\ valT r r (Some (map eth_of_want ws)) (fst x) (fst y))
    (exec e "dns::host" None slots extra h) (exec e "dns::host" None slots extra h).
Proof.
  fn_enter. unfold dns_host_fn. slots_cases. do 5 osame. cbv zeta.
  eapply orel_bind; [apply (uflow_dgram_twin true a3 a3 {| uf_cl := (a, 32768); uf_sv := (a2, 53); uf_raw := false |})|].
  intros d1 d2 Hd. cbn [uflow_side fst snd uf_cl uf_sv] in Hd.
  eapply orel_bind; [apply udp_csum_twin, Hd|]. intros d1c d2c Hdc.
  osame.
  eapply orel_bind; [apply (uflow_dgram_twin false a3 a3 {| uf_cl := (a, 32768); uf_sv := (a2, 53); uf_raw := false |})|].
  intros d3 d4 Hd'. cbn [uflow_side fst snd uf_cl uf_sv] in Hd'.
  eapply orel_bind; [apply udp_csum_twin, Hd'|]. intros d3c d4c Hdc'.
  constructor. eexists a3, _. split; [unfold dns_host_plan; rewrite E, E2, E3; reflexivity|]. cbn [fst map].
  apply valT_gen. constructor; [apply (udp_packet_twin _ _ _ _ _ Hdc)|]. constructor; [apply (udp_packet_twin _ _ _ _ _ Hdc')|constructor].
Qed.

Ltac fn_this H :=
  match type of H with exec ?e ?key ?this _ _ _ = _ =>
    let Hn := fresh "Hn" in
    assert (Hn : this = None) by (eapply function_no_this; [|exact H]; lazy [assoc functions String.eqb Ascii.eqb Bool.eqb]; reflexivity);
    subst this
  end.

Ltac cm := eexists; split; [vm_compute; reflexivity|cbn [In]; tauto].
Ltac pk := intros o Ho; destruct o; try discriminate Ho; eexists; reflexivity.
Ltac rc := cbn [In raw_classes]; tauto.

(** EVERY packet-returning key of the catalogue but eth::frame ([pkt_keys], Proofs/C02/LibIpAll.v, computed from the
    catalogue): on ANY arguments and heap, whenever the call returns, every packet is
    [framed raw eth l3] for the header(s) [eth_plan] designates *)
Theorem lib_eth_all e key this slots extra h v h' :
  In key pkt_keys -> exec e key this slots extra h = Some (Ok (v, h')) -> eth_result key this slots h v.
Proof.
  intros Hin H.
  let l := eval vm_compute in pkt_keys in change pkt_keys with l in Hin.
  cbn [In] in Hin.
  repeat (destruct Hin as [<-|Hin]); [..|contradiction Hin].
  - eapply (frag_case e "fragment"); try eassumption; [cm|reflexivity|reflexivity].
  - eapply (frag_case e "tail"); try eassumption; [cm|reflexivity|reflexivity].
  - eapply (frag_case e "datagram"); try eassumption; [cm|reflexivity|reflexivity].
  - eapply (method_case e tcp_class "open"); try eassumption; [rc|cm|reflexivity|reflexivity|pk].
  - eapply (method_case e tcp_class "client_message"); try eassumption; [rc|cm|reflexivity|reflexivity|pk].
  - eapply (method_case e tcp_class "server_message"); try eassumption; [rc|cm|reflexivity|reflexivity|pk].
  - eapply (method_case e tcp_class "client_segment"); try eassumption; [rc|cm|reflexivity|reflexivity|pk].
  - eapply (method_case e tcp_class "server_segment"); try eassumption; [rc|cm|reflexivity|reflexivity|pk].
  - eapply (method_case e tcp_class "client_ack"); try eassumption; [rc|cm|reflexivity|reflexivity|pk].
  - eapply (method_case e tcp_class "server_ack"); try eassumption; [rc|cm|reflexivity|reflexivity|pk].
  - eapply (method_case e tcp_class "client_close"); try eassumption; [rc|cm|reflexivity|reflexivity|pk].
  - eapply (method_case e tcp_class "server_close"); try eassumption; [rc|cm|reflexivity|reflexivity|pk].
  - eapply (method_case e tcp_class "client_reset"); try eassumption; [rc|cm|reflexivity|reflexivity|pk].
  - eapply (method_case e tcp_class "server_reset"); try eassumption; [rc|cm|reflexivity|reflexivity|pk].
  - eapply (method_case e udp_class "client_dgram"); try eassumption; [rc|cm|reflexivity|reflexivity|pk].
  - eapply (method_case e udp_class "server_dgram"); try eassumption; [rc|cm|reflexivity|reflexivity|pk].
  - (* broadcast *) fn_this H. pose proof (broadcast_diag e slots extra h) as T. rewrite H in T. cbn [oorel] in T.
    apply orel_ok_both in T. destruct T as (r & ws & src & s & Ep & Es & Ec & Hv). cbn [fst] in Hv.
    destruct (valT_diag _ _ _ Hv) as (ps & Eps & F). exists ps. split; [exact Eps|].
    unfold eth_plan. cbn [String.eqb Ascii.eqb Bool.eqb]. rewrite Ep.
    destruct slots as [|s0 sl]; [discriminate Es|]. cbn [nth_error] in Es. injection Es as ->. rewrite Ec. exact F.
  - (* unicast *) fn_this H. pose proof (unicast_diag e slots extra h) as T. rewrite H in T. cbn [oorel] in T.
    apply orel_ok_both in T. destruct T as (r & ws & Ep & Hv). cbn [fst] in Hv.
    destruct (valT_diag _ _ _ Hv) as (ps & Eps & F). exists ps. split; [exact Eps|].
    unfold eth_plan, ip_plan. cbn [String.eqb Ascii.eqb Bool.eqb]. rewrite Ep. exact F.
  - eapply (method_case e icmp_class "echo"); try eassumption; [rc|cm|reflexivity|reflexivity|pk].
  - eapply (method_case e icmp_class "echo_reply"); try eassumption; [rc|cm|reflexivity|reflexivity|pk].
  - (* datagram *) fn_this H. pose proof (datagram_framed e slots extra h) as T. rewrite H in T. cbn [oorel] in T.
    apply orel_ok_both in T. destruct T as (_ & _ & Hv). cbn [fst] in Hv.
    destruct (valT_diag _ _ _ Hv) as (ps & Eps & F). exists ps. split; [exact Eps|].
    unfold eth_plan, ip_plan. cbn [String.eqb Ascii.eqb Bool.eqb].
    destruct (datagram_want slots) as [w| | |]; exact F.
  - (* dns::host *) fn_this H. pose proof (dns_host_diag e slots extra h) as T. rewrite H in T. cbn [oorel] in T.
    apply orel_ok_both in T. destruct T as (r & ws & Ep & Hv). cbn [fst] in Hv.
    destruct (valT_diag _ _ _ Hv) as (ps & Eps & F). exists ps. split; [exact Eps|].
    unfold eth_plan, ip_plan. cbn [String.eqb Ascii.eqb Bool.eqb]. rewrite Ep. exact F.
  - eapply (method_case e "vxlan::Vxlan"%string "dgram"); try eassumption; [rc|cm|reflexivity|reflexivity|pk].
  - eapply (method_case e "vxlan::Vxlan"%string "encap"); try eassumption; [rc|cm|reflexivity|reflexivity|pk].
  - eapply (method_case e "gre::Gre"%string "encap"); try eassumption; [rc|cm|reflexivity|reflexivity|pk].
  - eapply (method_case e "erspan1::Erspan1"%string "encap"); try eassumption; [rc|cm|reflexivity|reflexivity|pk].
  - eapply (method_case e "erspan2::Erspan2"%string "encap"); try eassumption; [rc|cm|reflexivity|reflexivity|pk].
Qed.

(* ------------------------------------------------------------------ tie to C02b: header and datagram together *)
Lemma Forall2_join {A B C} (P : A -> C -> Prop) (Q : B -> C -> Prop) : forall la lb lc,
  Forall2 P la lc -> Forall2 Q lb lc -> Forall3 (fun a b c => P a c /\ Q b c) la lb lc.
Proof.
  induction la as [|a la IH]; intros lb lc H1 H2; inversion H1; subst; inversion H2; subst; constructor.
  - split; assumption.
  - apply IH; assumption.
Qed.

Definition eth_len_ok (es : list bytes) : Prop := Forall (fun eth => length eth = 14%nat) es.

Lemma eth_plan_len key this slots h : eth_len_ok (snd (eth_plan key this slots h)).
Proof.
  unfold eth_plan, eth_len_ok. destruct (String.eqb key _).
  - destruct (broadcast_plan slots) as [[r ws]| | |]; try (constructor; fail).
    destruct slots as [|src sl]; [constructor|]. cbn [snd]. destruct (conv_sock src); repeat constructor.
  - destruct (ip_plan key this slots h) as [[raw ws]|]; [|constructor]. cbn [snd].
    induction ws; cbn [map]; constructor; [reflexivity|assumption].
Qed.

(** under C02b's premises: the packets of every key are, one by one, the designated Ethernet header (absent when
    raw) followed by a datagram [l3] that satisfies C02b's clause for the designated IPv4 header -- and for every
    key but broadcast the Ethernet header is [eth_of_want] of that very IPv4 header: its MACs are 00:02 followed
    by the source / destination address the IPv4 header carries *)
Theorem lib_eth_ip e key this slots extra h v h' :
  In key pkt_keys -> Forall addr_val_ok slots -> recv_wf this h -> ip_fits key this slots extra h ->
  exec e key this slots extra h = Some (Ok (v, h')) ->
  exists raw ws es ps, ip_plan key this slots h = Some (raw, ws) /\ eth_plan key this slots h = (raw, es)
    /\ conv_pktgen v = Ok ps
    /\ Forall3 (fun w eth p => exists l3, pk_body p = framed raw eth l3 /\ ip_clause w l3) ws es ps
    /\ (String.eqb key "ipv4::udp::broadcast" = false -> es = map eth_of_want ws).
Proof.
  intros Hin Ha Hr Hfit H.
  destruct (lib_ip_all e key this slots extra h v h' Hin Ha Hr Hfit H) as (raw & ws & ps & Ep & Eps & Hc).
  destruct (lib_eth_all e key this slots extra h v h' Hin H) as (ps' & Eps' & F).
  rewrite Eps in Eps'. apply Ok_inj in Eps'. subst ps'.
  pose proof (eth_plan_len key this slots h) as L.
  assert (Er : fst (eth_plan key this slots h) = raw
               /\ (String.eqb key "ipv4::udp::broadcast" = false -> snd (eth_plan key this slots h) = map eth_of_want ws)).
  { unfold eth_plan. destruct (String.eqb key "ipv4::udp::broadcast") eqn:Ek.
    - apply String.eqb_eq in Ek. subst key. split; [|discriminate].
      assert (this = None) as -> by (eapply function_no_this; [|exact H]; lazy [assoc functions String.eqb Ascii.eqb Bool.eqb]; reflexivity).
      unfold ip_plan in Ep. cbn [String.eqb Ascii.eqb Bool.eqb] in Ep.
      destruct (broadcast_plan slots) as [[r w]| | |] eqn:Eb; try discriminate Ep. cbn [opt_of] in Ep. injection Ep as <- <-.
      destruct slots; [discriminate Eb|]. reflexivity.
    - rewrite Ep. split; [reflexivity|intros _; reflexivity]. }
  destruct Er as (Er & Ees). exists raw, ws, (snd (eth_plan key this slots h)), ps.
  split; [exact Ep|]. split; [rewrite <- Er; destruct (eth_plan key this slots h); reflexivity|]. split; [exact Eps|].
  split; [|exact Ees]. rewrite Er in F.
  pose proof (Forall2_join _ _ _ _ _ Hc F) as J. clear -J L. unfold eth_len_ok in L.
  induction J as [|w eth p lw le lp (Hw & (l3 & Hl)) J IH]; [constructor|].
  apply Forall_cons_iff in L. destruct L as (L1 & L2). constructor; [|apply IH, L2].
  exists l3. split; [exact Hl|]. unfold ip_pkt in Hw. rewrite Hl in Hw. unfold framed in Hw. rewrite l3_of_framed in Hw by exact L1. exact Hw.
Qed.

(* ------------------------------------------------------------------ the constructors: twin objects *)
Definition raw_ctor_keys : list string :=
  ["ipv4::tcp::flow"; "ipv4::udp::flow"; "ipv4::icmp::flow"; "vxlan::session"; "gre::session";
   "erspan1::session"; "erspan2::session"]%string.

Definition ctorR (r1 r2 : bool) (h1 h2 : heap) (x y : val * heap) : Prop :=
  exists o, In (obj_class o) raw_classes /\ fst x = VObj (length h1) /\ fst y = VObj (length h2)
    /\ snd x = (h1 ++ [obj_with_raw r1 o])%list /\ snd y = (h2 ++ [obj_with_raw r2 o])%list.

(** the same constructor call but for raw: makes twin objects with raw flags r1 / r2 *)
Theorem ctor_twin e key slots1 slots2 extra h1 h2 r1 r2 :
  In key raw_ctor_keys -> raw_slots r1 r2 slots1 slots2 ->
  oorel (ctorR r1 r2 h1 h2) (exec e key None slots1 extra h1) (exec e key None slots2 extra h2).
Proof.
  intros Hk Hr. cbn [In raw_ctor_keys] in Hk.
  destruct Hk as [<-|[<-|[<-|[<-|[<-|[<-|[<-|[]]]]]]]].
  - fn_enter. unfold tcp_flow_new. raw_cases Hr. do 2 osame. raw_conv Hrr. do 2 osame. constructor.
    exists (OTcp {| tf_cl := a1; tf_sv := a2; tf_cl_seq := a; tf_sv_seq := a0; tf_raw := false |}). unfold alloc. cbn [fst snd]. repeat split. rc.
  - fn_enter. unfold udp_flow_new. raw_cases Hr. do 2 osame. raw_conv Hrr. constructor.
    exists (OUdp {| uf_cl := a; uf_sv := a0; uf_raw := false |}). unfold alloc. cbn [fst snd]. repeat split. rc.
  - fn_enter. unfold icmp_flow_fn. raw_cases Hr. do 2 osame. raw_conv Hrr. constructor.
    exists (OIcmp (icmp_flow_new a a0 false)). unfold alloc. cbn [fst snd]. repeat split. rc.
  - fn_enter. unfold vxlan_session_fn. raw_cases Hr. osame. raw_conv Hrr. do 2 osame. constructor.
    exists (OVxlan {| vx_cl := a0; vx_sv := a1; vx_vni := a; vx_raw := false |}). unfold alloc. cbn [fst snd]. repeat split. rc.
  - fn_enter. unfold gre_session_fn. raw_cases Hr. osame. raw_conv Hrr. do 2 osame. constructor.
    exists (OGre {| gl_cl := a0; gl_sv := a1; gl_flags := gre_flags_default; gl_ethertype := a; gl_raw := false; gl_seq := 0 |}).
    unfold alloc. cbn [fst snd]. repeat split. rc.
  - fn_enter. unfold erspan1_session_fn. raw_cases Hr. raw_conv Hrr. do 2 osame. constructor.
    exists (OErspan1 {| e1_cl := a; e1_sv := a0; e1_raw := false |}). unfold alloc. cbn [fst snd]. repeat split. rc.
  - fn_enter. unfold erspan2_session_fn. raw_cases Hr. raw_conv Hrr. do 2 osame. constructor.
    exists (OErspan2 {| e2_cl := a; e2_sv := a0; e2_raw := false; e2_seq := 0; e2_sess := 0 |}). unfold alloc. cbn [fst snd]. repeat split. rc.
Qed.

Lemma obj_raw_with_raw r o : In (obj_class o) raw_classes -> obj_raw (obj_with_raw r o) = r.
Proof.
  destruct o; try reflexivity; cbn [obj_class raw_classes In]; intros Hc; exfalso;
    repeat (destruct Hc as [Hc|Hc]; [discriminate Hc|]); exact Hc.
Qed.

(* ------------------------------------------------------------------ histories on twin objects *)
Definition own_call (a : nat) (cls : string) (c : call) : Prop :=
  c_this c = Some a /\ exists name, class_method cls name (c_key c).

(** what the two runs of call [c] return: for every method name the key stands for, related values *)
Definition call_valT (o1 o2 : obj) (c : call) (v1 v2 : val) : Prop :=
  forall name, class_method (obj_class o1) name (c_key c) ->
  valT (obj_raw o1) (obj_raw o2) (method_eth_plan o1 name (c_slots c)) v1 v2.

Lemma call_valT_move o1 o2 p1 p2 c v1 v2 : objR o1 o2 p1 p2 -> call_valT p1 p2 c v1 v2 -> call_valT o1 o2 c v1 v2.
Proof.
  intros (A1 & A2 & A3 & A4 & A5) H name Hcm. rewrite <- A5 in Hcm. specialize (H name Hcm).
  rewrite A2, A3, A4 in H. exact H.
Qed.

(** ANY history of method calls on the object at [a]: if it runs on heap h1, it runs on the twin heap h2 -- the
    objects at [a] stay twins with their raw flags, and every call returns related values *)
Theorem twin_history e a : forall cs h1 h2 o1 o2 vs1 h1',
  In (obj_class o1) raw_classes -> nth_error h1 a = Some o1 -> nth_error h2 a = Some o2 -> obj_twin o1 o2 ->
  Forall (own_call a (obj_class o1)) cs -> run_hist e cs h1 = Some (vs1, h1') ->
  exists vs2 h2' o1' o2', run_hist e cs h2 = Some (vs2, h2')
    /\ nth_error h1' a = Some o1' /\ nth_error h2' a = Some o2' /\ objR o1 o2 o1' o2'
    /\ Forall3 (call_valT o1 o2) cs vs1 vs2.
Proof.
  induction cs as [|c r IH]; intros h1 h2 o1 o2 vs1 h1' Hc Hn1 Hn2 Ht Hall H; cbn [run_hist] in H |- *.
  - apply Some_inj in H. apply pair_equal_spec in H. destruct H as [<- <-].
    exists [], h2, o1, o2. split; [reflexivity|]. split; [exact Hn1|]. split; [exact Hn2|].
    split; [apply objR_refl, Ht|constructor].
  - destruct (do_call e c h1) as [[[v1 k1]| | |]|] eqn:Ec; try discriminate H.
    destruct (run_hist e r k1) as [[vr1 kr1]|] eqn:Er; try discriminate H.
    apply Some_inj in H. apply pair_equal_spec in H. destruct H as [<- <-].
    apply Forall_cons_iff in Hall. destruct Hall as ((Hthis & n0 & Hcm0) & Hall).
    unfold do_call in Ec |- *. rewrite Hthis in Ec |- *.
    pose proof (lib_method_twin e n0 (c_key c) (c_slots c) (c_extra c) h1 h2 a o1 o2 Hc Hcm0 Hn1 Hn2 Ht) as T.
    rewrite Ec in T. destruct (exec e (c_key c) (Some a) (c_slots c) (c_extra c) h2) as [x2|] eqn:E2; [|contradiction T].
    cbn [oorel] in T. apply orel_ok_l in T. destruct T as ([v2 k2] & -> & (p1 & p2 & Ek1 & Ek2 & HR & _)).
    cbn [fst snd] in Ek1, Ek2. subst k1 k2.
    pose proof HR as (B1 & B2 & B3 & B4 & B5).
    assert (Hc' : In (obj_class p1) raw_classes) by (rewrite B5; exact Hc).
    assert (Hall' : Forall (own_call a (obj_class p1)) r) by (rewrite B5; exact Hall).
    destruct (IH _ (set_nth h2 a p2) p1 p2 vr1 kr1 Hc' (nth_error_set_same _ _ _ _ Hn1) (nth_error_set_same _ _ _ _ Hn2) B1 Hall' Er)
      as (vs2 & h2' & q1 & q2 & Er2 & Hq1 & Hq2 & HR2 & F).
    rewrite Er2. exists (v2 :: vs2), h2', q1, q2. split; [reflexivity|]. split; [exact Hq1|]. split; [exact Hq2|].
    split; [exact (objR_trans _ _ _ _ _ _ HR HR2)|]. constructor.
    + intros name Hcm.
      pose proof (lib_method_twin e name (c_key c) (c_slots c) (c_extra c) h1 h2 a o1 o2 Hc Hcm Hn1 Hn2 Ht) as T.
      rewrite Ec, E2 in T. cbn [oorel] in T. apply orel_ok_both in T. destruct T as (? & ? & _ & _ & _ & Hv). exact Hv.
    + revert F. apply Forall3_mono. intros c' w1 w2. apply call_valT_move, HR.
Qed.

(* ------------------------------------------------------------------ the property's wording of the raw relation *)
Lemma eth_len_map {A} (f : A -> bytes) l : (forall x, length (f x) = 14%nat) -> eth_len_ok (map f l).
Proof. intros K. unfold eth_len_ok. induction l; cbn [map]; constructor; [apply K|assumption]. Qed.

Lemma plan_total_len o : (forall es, o = Some es -> eth_len_ok es) -> forall es, plan_total o = Some es -> eth_len_ok es.
Proof. intros K es E. unfold plan_total in E. injection E as <-. destruct o as [l|]; [apply K; reflexivity|constructor]. Qed.

Lemma method_eth_len o name slots es : method_eth_plan o name slots = Some es -> eth_len_ok es.
Proof.
  destruct o as [f|f|f|f|f|f|f|f|b t]; cbn [method_eth_plan].
  - unfold tcp_eth_plan. destruct (existsb _ _); [|discriminate]. apply plan_total_len. intros l E.
    destruct (tcp_plan name slots); [|discriminate E]. injection E as <-. apply eth_len_map. intros [[|] fo]; reflexivity.
  - unfold udp_eth_plan. destruct (existsb _ _); [|discriminate]. apply plan_total_len. intros l E.
    destruct (udp_plan f name slots); [|discriminate E]. injection E as <-. apply eth_len_map. reflexivity.
  - unfold icmp_eth_plan. destruct (icmp_plan f name); [|discriminate]. intros E. injection E as <-. apply eth_len_map. reflexivity.
  - unfold frag_eth_plan. apply plan_total_len. intros l E. destruct (frag_call_req name slots); [|discriminate E].
    injection E as <-. repeat constructor.
  - unfold tun_eth_plan. intros E. injection E as <-. destruct (conv_pktgen _); try constructor. apply eth_len_map. reflexivity.
  - unfold tun_eth_plan. intros E. injection E as <-. destruct (conv_pktgen _); try constructor. apply eth_len_map. reflexivity.
  - unfold tun_eth_plan. intros E. injection E as <-. destruct (conv_pktgen _); try constructor. apply eth_len_map. reflexivity.
  - unfold tun_eth_plan. intros E. injection E as <-. destruct (conv_pktgen _); try constructor. apply eth_len_map. reflexivity.
  - discriminate.
Qed.

Lemma fn_eth_len slots :
  (forall es, unicast_eth slots = Some es -> eth_len_ok es) /\ (forall es, broadcast_eth slots = Some es -> eth_len_ok es)
  /\ (forall es, dns_host_eth slots = Some es -> eth_len_ok es).
Proof.
  split; [|split]; apply plan_total_len; intros es E.
  - destruct (unicast_plan slots) as [[r ws]| | |]; try discriminate E. injection E as <-. apply eth_len_map. reflexivity.
  - destruct slots as [|a [|b [|c [|d [|? ?]]]]]; try discriminate E. destruct (conv_sock a); try discriminate E.
    injection E as <-. repeat constructor.
  - destruct (dns_host_plan slots) as [[r ws]| | |]; try discriminate E. injection E as <-. apply eth_len_map. reflexivity.
Qed.

(** a framed run next to its raw twin: packet by packet the raw one is the framed one minus its first 14
    bytes, and those 14 bytes are the designated header *)
Definition raw_of (eth : bytes) (pf pr : packet) : Prop :=
  pk_body pr = skipn 14 (pk_body pf) /\ firstn 14 (pk_body pf) = eth /\ pk_hr pr = pk_hr pf.

Theorem valT_raw_relation es vf vr : eth_len_ok es -> valT false true (Some es) vf vr ->
  exists pf pr, conv_pktgen vf = Ok pf /\ conv_pktgen vr = Ok pr /\ Forall3 raw_of es pf pr.
Proof.
  intros L H. destruct (valT_conv _ _ _ _ _ H) as (pf & pr & E1 & E2 & F). exists pf, pr. split; [exact E1|]. split; [exact E2|].
  clear H E1 E2. unfold eth_len_ok in L. induction F as [|eth p1 p2 le l1 l2 Hp F IH]; [constructor|].
  apply Forall_cons_iff in L. destruct L as (L1 & L2). constructor; [|apply IH, L2].
  exact (pktT_raw_relation eth p1 p2 L1 Hp).
Qed.

(* ------------------------------------------------------------------ the vocabulary, spelled out *)
Lemma orel_iff {A B} (R : A -> B -> Prop) x y :
  orel R x y <-> match x, y with
                 | Ok a, Ok b => R a b | Err e1, Err e2 => e1 = e2 | Panic s1, Panic s2 => s1 = s2
                 | OutOfFuel, OutOfFuel => True | _, _ => False
                 end.
Proof.
  split.
  - intros H. destruct H; [assumption|reflexivity|reflexivity|exact I].
  - destruct x, y; intros H; try contradiction H; try (subst; constructor); assumption.
Qed.

Lemma valT_iff r1 r2 pl v1 v2 :
  valT r1 r2 pl v1 v2 <->
  match pl with
  | None => v1 = v2
  | Some es => (exists eth p1 p2, es = [eth] /\ v1 = VPkt p1 /\ v2 = VPkt p2 /\ pktT r1 r2 eth p1 p2)
               \/ (exists ps1 ps2, v1 = VPktGen ps1 /\ v2 = VPktGen ps2 /\ Forall3 (pktT r1 r2) es ps1 ps2)
  end.
Proof.
  split.
  - intros H. destruct H.
    + left. exists eth, p1, p2. repeat split. assumption.
    + right. exists ps1, ps2. repeat split. assumption.
    + reflexivity.
  - destruct pl as [es|].
    + intros [(eth & p1 & p2 & -> & -> & -> & H)|(ps1 & ps2 & -> & -> & H)]; constructor; assumption.
    + intros ->. constructor.
Qed.

Lemma Forall3_iff {A B C} (R : A -> B -> C -> Prop) la lb lc :
  Forall3 R la lb lc <-> match la, lb, lc with
                         | [], [], [] => True
                         | a :: ra, b :: rb, c :: rc => R a b c /\ Forall3 R ra rb rc
                         | _, _, _ => False
                         end.
Proof.
  split.
  - intros H. destruct H; [exact I|split; assumption].
  - destruct la, lb, lc; intros H; try contradiction H; [constructor|destruct H; constructor; assumption].
Qed.
