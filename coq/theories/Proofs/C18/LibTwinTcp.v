(** C18 at the level the interpreter executes, part 2: TCP.  Two flows that differ only in their raw flag
    ([flowT]) answer every method of the TcpFlow class the same way: the same error or panic, or packets that are
    pairwise [framed r1 eth l3] / [framed r2 eth l3] for one datagram [l3] and the uniform Ethernet header [eth]
    of the sending side's addresses; the flows written back are twins again.  A method that returns no packet
    (client_hdr, client_raw_segment, client_hole ...) returns the very same value. *)
From RS Require Import Base.Bytes Base.Outcome Bind.Types Pkt.Csum Pkt.Hdrs Pkt.Packet Ez.Tcp
  Interp.Val Interp.Eval Lib.LibBase Lib.StdLib Lib.Ipv4Lib
  Proofs.Tactics Proofs.C18.Framing Proofs.C18.LibTwinBase
  Proofs.C08.LibTac Proofs.C03.LibCalls Proofs.C03.LibTcpOps Proofs.C03.LibTcp Proofs.C02.LibIp Proofs.C02.LibIpTcp.
From RSGen Require Import Catalogue.
From Coq Require Import Lia.
Open Scope N_scope.

Definition seg_raw (r : bool) (s : tcp_seg) : tcp_seg :=
  {| ts_raw := r; ts_eth := ts_eth s; ts_ip := ts_ip s; ts_tcp := ts_tcp s; ts_payload := ts_payload s;
     ts_rcv_nxt := ts_rcv_nxt s; ts_data_len := ts_data_len s; ts_extra := ts_extra s |}.
Definition flow_raw (r : bool) (f : tcp_flow) : tcp_flow :=
  {| tf_cl := tf_cl f; tf_sv := tf_sv f; tf_cl_seq := tf_cl_seq f; tf_sv_seq := tf_sv_seq f; tf_raw := r |}.

Lemma flow_raw_id f : flow_raw (tf_raw f) f = f. Proof. destruct f; reflexivity. Qed.

(** segments equal but for the raw flag, with Ethernet header [eth] *)
Definition segT (r1 r2 : bool) (eth : bytes) (s1 s2 : tcp_seg) : Prop :=
  exists s, eth_ser (ts_eth s) = eth /\ s1 = seg_raw r1 s /\ s2 = seg_raw r2 s.
(** flows equal but for the raw flag, between sockets [cl] and [sv] *)
Definition flowT (r1 r2 : bool) (cl sv : sock) (f1 f2 : tcp_flow) : Prop :=
  exists f, tf_cl f = cl /\ tf_sv f = sv /\ f1 = flow_raw r1 f /\ f2 = flow_raw r2 f.

(** the header of a frame sent by the client (server) side *)
Definition side_eth (cl sv : sock) (client : bool) : bytes :=
  if client then eth_for (fst cl) (fst sv) else eth_for (fst sv) (fst cl).

Lemma flowT_intro f1 f2 :
  tf_cl f1 = tf_cl f2 -> tf_sv f1 = tf_sv f2 -> tf_cl_seq f1 = tf_cl_seq f2 -> tf_sv_seq f1 = tf_sv_seq f2 ->
  flowT (tf_raw f1) (tf_raw f2) (tf_cl f1) (tf_sv f1) f1 f2.
Proof.
  destruct f1, f2. cbn. intros -> -> -> ->. eexists {| tf_cl := _; tf_sv := _; tf_cl_seq := _; tf_sv_seq := _; tf_raw := false |}.
  repeat split.
Qed.

Lemma flowT_raws r1 r2 cl sv f1 f2 : flowT r1 r2 cl sv f1 f2 ->
  tf_raw f1 = r1 /\ tf_raw f2 = r2 /\ tf_cl f1 = cl /\ tf_sv f1 = sv /\ tf_cl f2 = cl /\ tf_sv f2 = sv.
Proof. intros (f & <- & <- & -> & ->). repeat split. Qed.

Section Twin.
Variables (r1 r2 : bool) (cl sv : sock).
Notation segT := (segT r1 r2).
Notation flowT := (flowT r1 r2 cl sv).
Notation pktT := (pktT r1 r2).

Lemma side_cl f1 f2 : flowT f1 f2 -> segT (side_eth cl sv true) (flow_cl f1) (flow_cl f2).
Proof. intros (f & <- & <- & -> & ->). exists (flow_cl f). repeat split. Qed.
Lemma side_sv f1 f2 : flowT f1 f2 -> segT (side_eth cl sv false) (flow_sv f1) (flow_sv f2).
Proof. intros (f & <- & <- & -> & ->). exists (flow_sv f). repeat split. Qed.

Definition keepT (g : tcp_seg -> tcp_seg) : Prop := forall eth s1 s2, segT eth s1 s2 -> segT eth (g s1) (g s2).
Lemma kt_syn : keepT seg_syn. Proof. intros eth s1 s2 (s & E & -> & ->). exists (seg_syn s). repeat split. exact E. Qed.
Lemma kt_rst : keepT seg_rst. Proof. intros eth s1 s2 (s & E & -> & ->). exists (seg_rst s). repeat split. exact E. Qed.
Lemma kt_ack : keepT seg_ack. Proof. intros eth s1 s2 (s & E & -> & ->). exists (seg_ack s). repeat split. exact E. Qed.
Lemma kt_syn_ack : keepT seg_syn_ack. Proof. intros eth s1 s2 (s & E & -> & ->). exists (seg_syn_ack s). repeat split. exact E. Qed.
Lemma kt_push : keepT seg_push. Proof. intros eth s1 s2 (s & E & -> & ->). exists (seg_push s). repeat split. exact E. Qed.
Lemma kt_fin_ack : keepT seg_fin_ack. Proof. intros eth s1 s2 (s & E & -> & ->). exists (seg_fin_ack s). repeat split. exact E. Qed.
Lemma kt_frag_off off : keepT (fun s => seg_frag_off s off).
Proof. intros eth s1 s2 (s & E & -> & ->). exists (seg_frag_off s off). repeat split. exact E. Qed.

Lemma seg_append_raw r s b : seg_append_data (seg_raw r s) b = omap (seg_raw r) (seg_append_data s b).
Proof.
  unfold seg_append_data, seg_update_tot_len, omap. cbn [ts_data_len seg_raw].
  destruct (cadd two32 _ (ts_data_len s) (wrap32 (len b))); reflexivity.
Qed.
Lemma omap_segT eth r1' r2' (x : outcome tcp_seg) :
  (forall s, x = Ok s -> eth_ser (ts_eth s) = eth) ->
  orel (LibTwinTcp.segT r1' r2' eth) (omap (seg_raw r1') x) (omap (seg_raw r2') x).
Proof.
  intros K. unfold omap. destruct x; cbn [obind]; constructor. exists a. split; [apply K; reflexivity|split; reflexivity].
Qed.
Lemma seg_append_twin eth s1 s2 b : segT eth s1 s2 -> orel (segT eth) (seg_append_data s1 b) (seg_append_data s2 b).
Proof.
  intros (s & E & -> & ->). rewrite !seg_append_raw. apply omap_segT. intros s' H.
  revert H. unfold seg_append_data, seg_update_tot_len. destruct (cadd _ _ _ _); cbn [obind]; try discriminate.
  intros H. apply Ok_inj in H. subst s'. exact E.
Qed.

Lemma seg_push_bytes_twin eth s1 s2 b : segT eth s1 s2 -> orel (segT eth) (seg_push_bytes s1 b) (seg_push_bytes s2 b).
Proof. intros H. unfold seg_push_bytes. apply seg_append_twin, kt_push, H. Qed.

Lemma seg_csum_raw r s : seg_tcp_csum (seg_raw r s) = omap (seg_raw r) (seg_tcp_csum s).
Proof.
  unfold seg_tcp_csum, seg_csum_len, omap. cbn [ts_ip ts_tcp ts_payload ts_data_len seg_raw].
  destruct (cadd _ _ _ _); cbn [obind]; try reflexivity.
  destruct (cadd _ _ _ _); reflexivity.
Qed.
Lemma seg_csum_twin eth s1 s2 : segT eth s1 s2 -> orel (segT eth) (seg_tcp_csum s1) (seg_tcp_csum s2).
Proof.
  intros (s & E & -> & ->). rewrite !seg_csum_raw. apply omap_segT. intros s' H.
  revert H. unfold seg_tcp_csum. destruct (cadd _ _ _ _); cbn [obind]; try discriminate.
  destruct (cadd _ _ _ _); cbn [obind]; try discriminate.
  intros H. apply Ok_inj in H. subst s'. exact E.
Qed.

Lemma seg_consumed_twin eth s1 s2 : segT eth s1 s2 -> seg_seq_consumed s1 = seg_seq_consumed s2.
Proof. intros (s & E & -> & ->). reflexivity. Qed.

Lemma seg_packet_twin eth s1 s2 : segT eth s1 s2 -> pktT eth (seg_packet s1) (seg_packet s2).
Proof. intros (s & E & -> & ->). exists (seg_l3_bytes s). unfold seg_packet, seg_bytes, framed. cbn [ts_raw ts_eth seg_raw]. rewrite E. split; reflexivity. Qed.

Lemma seg_tcpseg_twin eth s1 s2 : segT eth s1 s2 -> seg_tcpseg s1 = seg_tcpseg s2.
Proof. intros (s & E & -> & ->). reflexivity. Qed.

Lemma cl_update_twin f1 f2 n : flowT f1 f2 -> flowT (flow_cl_update f1 n) (flow_cl_update f2 n).
Proof. intros (f & <- & <- & -> & ->). exists (flow_cl_update f n). repeat split. Qed.
Lemma sv_update_twin f1 f2 n : flowT f1 f2 -> flowT (flow_sv_update f1 n) (flow_sv_update f2 n).
Proof. intros (f & <- & <- & -> & ->). exists (flow_sv_update f n). repeat split. Qed.

Definition txR (eth : bytes) (a b : tcp_flow * packet) : Prop := flowT (fst a) (fst b) /\ pktT eth (snd a) (snd b).

Lemma cl_tx_twin eth f1 f2 s1 s2 : flowT f1 f2 -> segT eth s1 s2 -> orel (txR eth) (flow_cl_tx f1 s1) (flow_cl_tx f2 s2).
Proof.
  intros Hf Hs. unfold flow_cl_tx. rewrite (seg_consumed_twin _ _ _ Hs). osame.
  eapply orel_bind; [apply seg_csum_twin, Hs|]. intros x y Hab. constructor.
  split; [apply cl_update_twin, Hf|apply seg_packet_twin, Hab].
Qed.
Lemma sv_tx_twin eth f1 f2 s1 s2 : flowT f1 f2 -> segT eth s1 s2 -> orel (txR eth) (flow_sv_tx f1 s1) (flow_sv_tx f2 s2).
Proof.
  intros Hf Hs. unfold flow_sv_tx. rewrite (seg_consumed_twin _ _ _ Hs). osame.
  eapply orel_bind; [apply seg_csum_twin, Hs|]. intros x y Hab. constructor.
  split; [apply sv_update_twin, Hf|apply seg_packet_twin, Hab].
Qed.

(** flow operations: twins again and packets for the plan [pl] of sending sides *)
Definition genR (pl : list bool) (a b : tcp_flow * list packet) : Prop :=
  flowT (fst a) (fst b) /\ Forall3 pktT (map (side_eth cl sv) pl) (snd a) (snd b).

Ltac tx_step lem :=
  eapply orel_bind; [eapply lem; [eassumption|]|];
  [|let a := fresh "a" in let b := fresh "b" in let Hf := fresh "Hf" in let Hp := fresh "Hp" in
    intros [? ?] [? ?] [Hf Hp]; cbn [fst snd] in Hf, Hp].

Lemma chain3_twin (tx1 tx2 tx3 : tcp_flow -> tcp_seg -> outcome (tcp_flow * packet)) mk1 mk2 mk3 c1 c2 c3 f1 f2 :
  (forall eth g1 g2 s1 s2, flowT g1 g2 -> segT eth s1 s2 -> orel (txR eth) (tx1 g1 s1) (tx1 g2 s2)) ->
  (forall eth g1 g2 s1 s2, flowT g1 g2 -> segT eth s1 s2 -> orel (txR eth) (tx2 g1 s1) (tx2 g2 s2)) ->
  (forall eth g1 g2 s1 s2, flowT g1 g2 -> segT eth s1 s2 -> orel (txR eth) (tx3 g1 s1) (tx3 g2 s2)) ->
  (forall g1 g2, flowT g1 g2 -> segT (side_eth cl sv c1) (mk1 g1) (mk1 g2)) ->
  (forall g1 g2, flowT g1 g2 -> segT (side_eth cl sv c2) (mk2 g1) (mk2 g2)) ->
  (forall g1 g2, flowT g1 g2 -> segT (side_eth cl sv c3) (mk3 g1) (mk3 g2)) ->
  flowT f1 f2 ->
  orel (genR [c1; c2; c3])
    (do (g1, p1) <- tx1 f1 (mk1 f1); do (g2, p2) <- tx2 g1 (mk2 g1); do (g3, p3) <- tx3 g2 (mk3 g2); Ok (g3, [p1; p2; p3]))
    (do (g1, p1) <- tx1 f2 (mk1 f2); do (g2, p2) <- tx2 g1 (mk2 g1); do (g3, p3) <- tx3 g2 (mk3 g2); Ok (g3, [p1; p2; p3])).
Proof.
  intros T1 T2 T3 M1 M2 M3 Hf.
  eapply orel_bind; [apply T1; [exact Hf|apply M1, Hf]|]. intros [g1 p1] [g1' p1'] [Hg1 Hp1]. cbn [fst snd] in Hg1, Hp1.
  eapply orel_bind; [apply T2; [exact Hg1|apply M2, Hg1]|]. intros [g2 p2] [g2' p2'] [Hg2 Hp2]. cbn [fst snd] in Hg2, Hp2.
  eapply orel_bind; [apply T3; [exact Hg2|apply M3, Hg2]|]. intros [g3 p3] [g3' p3'] [Hg3 Hp3]. cbn [fst snd] in Hg3, Hp3.
  constructor. split; [exact Hg3|]. cbn [fst snd map]. repeat (constructor; [assumption|]). constructor.
Qed.

Lemma open_twin f1 f2 : flowT f1 f2 -> orel (genR [true; false; true]) (flow_open f1) (flow_open f2).
Proof.
  intros Hf. unfold flow_open.
  apply (chain3_twin flow_cl_tx flow_sv_tx flow_cl_tx (fun f => seg_syn (flow_cl f)) (fun f => seg_syn_ack (flow_sv f))
           (fun f => seg_ack (flow_cl f)) true false true); try exact Hf;
    try (intros; first [apply cl_tx_twin | apply sv_tx_twin]; assumption).
  - intros g1 g2 Hg. apply kt_syn, side_cl, Hg.
  - intros g1 g2 Hg. apply kt_syn_ack, side_sv, Hg.
  - intros g1 g2 Hg. apply kt_ack, side_cl, Hg.
Qed.
Lemma client_close_twin f1 f2 : flowT f1 f2 -> orel (genR [true; false; true]) (flow_client_close f1) (flow_client_close f2).
Proof.
  intros Hf. unfold flow_client_close.
  apply (chain3_twin flow_cl_tx flow_sv_tx flow_cl_tx (fun f => seg_fin_ack (flow_cl f)) (fun f => seg_fin_ack (flow_sv f))
           (fun f => seg_ack (flow_cl f)) true false true); try exact Hf;
    try (intros; first [apply cl_tx_twin | apply sv_tx_twin]; assumption).
  - intros g1 g2 Hg. apply kt_fin_ack, side_cl, Hg.
  - intros g1 g2 Hg. apply kt_fin_ack, side_sv, Hg.
  - intros g1 g2 Hg. apply kt_ack, side_cl, Hg.
Qed.
Lemma server_close_twin f1 f2 : flowT f1 f2 -> orel (genR [false; true; false]) (flow_server_close f1) (flow_server_close f2).
Proof.
  intros Hf. unfold flow_server_close.
  apply (chain3_twin flow_sv_tx flow_cl_tx flow_sv_tx (fun f => seg_fin_ack (flow_sv f)) (fun f => seg_fin_ack (flow_cl f))
           (fun f => seg_ack (flow_sv f)) false true false); try exact Hf;
    try (intros; first [apply cl_tx_twin | apply sv_tx_twin]; assumption).
  - intros g1 g2 Hg. apply kt_fin_ack, side_sv, Hg.
  - intros g1 g2 Hg. apply kt_fin_ack, side_cl, Hg.
  - intros g1 g2 Hg. apply kt_ack, side_sv, Hg.
Qed.

Lemma flow_seg_twin (c : bool) f1 f2 b off : flowT f1 f2 ->
  orel (segT (side_eth cl sv c)) ((if c then flow_cl_seg else flow_sv_seg) f1 b off) ((if c then flow_cl_seg else flow_sv_seg) f2 b off).
Proof.
  intros Hf. destruct c; unfold flow_cl_seg, flow_sv_seg; apply seg_push_bytes_twin, (kt_frag_off off);
    [apply side_cl|apply side_sv]; exact Hf.
Qed.

Lemma message_twin (c : bool) f1 f2 b (sa : bool) off : flowT f1 f2 ->
  orel (genR (c :: (if sa then [negb c] else []) : list bool))
    ((if c then flow_client_message else flow_server_message) f1 b sa off)
    ((if c then flow_client_message else flow_server_message) f2 b sa off).
Proof.
  intros Hf. destruct c; unfold flow_client_message, flow_server_message.
  - eapply orel_bind; [apply (flow_seg_twin true), Hf|]. intros s1 s2 Hs.
    eapply orel_bind; [apply cl_tx_twin; [exact Hf|exact Hs]|]. intros [g1 p1] [g1' p1'] [Hg1 Hp1]. cbn [fst snd] in Hg1, Hp1.
    destruct sa.
    + eapply orel_bind; [apply sv_tx_twin; [exact Hg1|apply kt_ack, side_sv, Hg1]|].
      intros [g2 p2] [g2' p2'] [Hg2 Hp2]. cbn [fst snd] in Hg2, Hp2.
      constructor. split; [exact Hg2|]. cbn [fst snd map negb]. repeat (constructor; [assumption|]). constructor.
    + constructor. split; [exact Hg1|]. cbn [fst snd map]. repeat (constructor; [assumption|]). constructor.
  - eapply orel_bind; [apply (flow_seg_twin false), Hf|]. intros s1 s2 Hs.
    eapply orel_bind; [apply sv_tx_twin; [exact Hf|exact Hs]|]. intros [g1 p1] [g1' p1'] [Hg1 Hp1]. cbn [fst snd] in Hg1, Hp1.
    destruct sa.
    + eapply orel_bind; [apply cl_tx_twin; [exact Hg1|apply kt_ack, side_cl, Hg1]|].
      intros [g2 p2] [g2' p2'] [Hg2 Hp2]. cbn [fst snd] in Hg2, Hp2.
      constructor. split; [exact Hg2|]. cbn [fst snd map negb]. repeat (constructor; [assumption|]). constructor.
    + constructor. split; [exact Hg1|]. cbn [fst snd map]. repeat (constructor; [assumption|]). constructor.
Qed.

Lemma data_segment_twin (c : bool) f1 f2 b : flowT f1 f2 ->
  orel (fun a b => flowT (fst a) (fst b) /\ segT (side_eth cl sv c) (snd a) (snd b))
    ((if c then flow_client_data_segment else flow_server_data_segment) f1 b)
    ((if c then flow_client_data_segment else flow_server_data_segment) f2 b).
Proof.
  intros Hf. destruct c; unfold flow_client_data_segment, flow_server_data_segment.
  - eapply orel_bind; [apply (flow_seg_twin true), Hf|]. intros s1 s2 Hs.
    rewrite (seg_consumed_twin _ _ _ Hs). osame.
    eapply orel_bind; [apply seg_csum_twin, Hs|]. intros s1' s2' Hs'. constructor.
    split; [apply cl_update_twin, Hf|exact Hs'].
  - eapply orel_bind; [apply (flow_seg_twin false), Hf|]. intros s1 s2 Hs.
    rewrite (seg_consumed_twin _ _ _ Hs). osame.
    eapply orel_bind; [apply seg_csum_twin, Hs|]. intros s1' s2' Hs'. constructor.
    split; [apply sv_update_twin, Hf|exact Hs'].
Qed.

Lemma ack_twin (c : bool) f1 f2 : flowT f1 f2 ->
  orel (segT (side_eth cl sv c)) ((if c then flow_client_ack else flow_server_ack) f1) ((if c then flow_client_ack else flow_server_ack) f2).
Proof.
  intros Hf. destruct c; unfold flow_client_ack, flow_server_ack; apply seg_csum_twin, kt_ack; [apply side_cl|apply side_sv]; exact Hf.
Qed.

Lemma reset_twin (c : bool) f1 f2 : flowT f1 f2 ->
  orel (pktT (side_eth cl sv c)) ((if c then flow_client_reset else flow_server_reset) f1) ((if c then flow_client_reset else flow_server_reset) f2).
Proof.
  intros Hf. destruct c; unfold flow_client_reset, flow_server_reset.
  - eapply orel_bind; [apply seg_csum_twin, kt_rst, side_cl, Hf|]. intros s1 s2 Hs. constructor. apply seg_packet_twin, Hs.
  - eapply orel_bind; [apply seg_csum_twin, kt_rst, side_sv, Hf|]. intros s1 s2 Hs. constructor. apply seg_packet_twin, Hs.
Qed.

Lemma hdr_twin (c : bool) f1 f2 d : flowT f1 f2 ->
  orel (fun a b => flowT (fst a) (fst b) /\ snd a = snd b)
    ((if c then flow_client_hdr else flow_server_hdr) f1 d) ((if c then flow_client_hdr else flow_server_hdr) f2 d).
Proof.
  intros Hf. pose proof Hf as (f & Ecl & Esv & -> & ->).
  destruct c; unfold flow_client_hdr, flow_server_hdr; cbv zeta.
  - change (seg_seq_consumed (seg_push (flow_cl (flow_raw r2 f)))) with (seg_seq_consumed (seg_push (flow_cl (flow_raw r1 f)))).
    osame. osame. constructor. split; [apply cl_update_twin, Hf|reflexivity].
  - change (seg_seq_consumed (seg_push (flow_sv (flow_raw r2 f)))) with (seg_seq_consumed (seg_push (flow_sv (flow_raw r1 f)))).
    osame. osame. constructor. split; [apply sv_update_twin, Hf|reflexivity].
Qed.

Lemma hole_twin (c : bool) f1 f2 n : flowT f1 f2 ->
  flowT ((if c then flow_client_hole else flow_server_hole) f1 n) ((if c then flow_client_hole else flow_server_hole) f2 n).
Proof. intros Hf. destruct c; [apply cl_update_twin|apply sv_update_twin]; exact Hf. Qed.

(** push_state / body / pop_state *)
Lemma with_override_twin {A} (Q : A -> A -> Prop) f1 f2 client sq ak (k1 k2 : tcp_flow -> outcome (tcp_flow * A)) :
  flowT f1 f2 ->
  (forall g1 g2, flowT g1 g2 -> orel (fun a b => flowT (fst a) (fst b) /\ Q (snd a) (snd b)) (k1 g1) (k2 g2)) ->
  orel (fun a b => flowT (fst a) (fst b) /\ Q (snd a) (snd b)) (with_override f1 client sq ak k1) (with_override f2 client sq ak k2).
Proof.
  intros (f & Ecl & Esv & -> & ->) K. unfold with_override. cbv zeta.
  eapply orel_bind.
  - apply K. exists (fst (flow_push_state f (fst (if client then (sq, ak) else (ak, sq))) (snd (if client then (sq, ak) else (ak, sq))))).
    split; [exact Ecl|]. split; [exact Esv|]. split; reflexivity.
  - intros [g1 v1] [g2 v2] [(g & Ecl' & Esv' & Eg1 & Eg2) Hq]. cbn [fst snd] in Eg1, Eg2. subst g1 g2. cbn [fst snd] in Hq |- *. constructor. cbn [fst snd]. split; [|exact Hq].
    eexists (flow_pop_state g _). split; [exact Ecl'|]. split; [exact Esv'|]. split; reflexivity.
Qed.

End Twin.

(* ------------------------------------------------------------------ the methods *)
Definition tcp_eth_plan (cl sv : sock) (name : string) (slots : list val) : option (list bytes) :=
  if existsb (String.eqb name) tcp_pkt_names
  then plan_total (option_map (fun pl => map (fun cf => side_eth cl sv (fst cf)) pl) (tcp_plan name slots))
  else None.

(** result of a method on the twin heaps: the receivers are replaced by twins, the values are related *)
Definition tcp_resT (r1 r2 : bool) (cl sv : sock) (a : nat) (h1 h2 : heap) (pl : option (list bytes))
  (x y : val * heap) : Prop :=
  exists f1' f2', snd x = set_nth h1 a (OTcp f1') /\ snd y = set_nth h2 a (OTcp f2') /\ flowT r1 r2 cl sv f1' f2'
    /\ valT r1 r2 pl (fst x) (fst y).

Lemma run_twin r1 r2 cl sv a h1 h2 pl (k1 k2 : outcome (tcp_flow * val)) :
  orel (fun x y => flowT r1 r2 cl sv (fst x) (fst y) /\ valT r1 r2 pl (snd x) (snd y)) k1 k2 ->
  orel (tcp_resT r1 r2 cl sv a h1 h2 pl)
    (do (f', v) <- k1; Ok (v, set_nth h1 a (OTcp f'))) (do (f', v) <- k2; Ok (v, set_nth h2 a (OTcp f'))).
Proof.
  intros H. eapply orel_bind; [exact H|]. intros [g1 v1] [g2 v2] [Hg Hv]. cbn [fst snd] in Hg, Hv.
  constructor. exists g1, g2. cbn [fst snd]. repeat split; assumption.
Qed.

Lemma map_side_eth cl sv (l : list bool) :
  map (side_eth cl sv) l = map (fun cf : bool * N => side_eth cl sv (fst cf)) (map (fun c => (c, 0)) l).
Proof. rewrite map_map. reflexivity. Qed.

Ltac slots_cases :=
  repeat match goal with
  | |- orel _ (match ?l with [] => _ | _ :: _ => _ end) _ => destruct l; try (constructor; fail)
  end.

Ltac tcp_enter_twin Hn1 Hn2 :=
  exec_unfold; cbn [oorel];
  rewrite (take_this_some _ _ _ Hn1), (take_this_some _ _ _ Hn2); cbn [obind]; cbv beta iota.

Theorem tcp_method_twin e ms name key slots extra h1 h2 a f1 f2 r1 r2 cl sv :
  assoc tcp_class class_table = Some ms -> In (name, key) ms ->
  nth_error h1 a = Some (OTcp f1) -> nth_error h2 a = Some (OTcp f2) -> flowT r1 r2 cl sv f1 f2 ->
  oorel (tcp_resT r1 r2 cl sv a h1 h2 (tcp_eth_plan cl sv name slots))
    (exec e key (Some a) slots extra h1) (exec e key (Some a) slots extra h2).
Proof.
  intros Hms Hin Hn1 Hn2 Hf. vm_compute in Hms. apply Some_inj in Hms. subst ms.
  cbn [In] in Hin.
  repeat (destruct Hin as [Hin|Hin]; [apply pair_equal_spec in Hin; destruct Hin as [<- <-]|]); [..|contradiction Hin].
  - (* open *) tcp_enter_twin Hn1 Hn2. apply run_twin.
    eapply orel_bind; [apply open_twin, Hf|]. intros [g1 p1] [g2 p2] [Hg Hp]. cbn [fst snd] in Hg, Hp. constructor.
    split; [exact Hg|]. cbn [snd]. apply valT_gen. exact Hp.
  - (* client_message *) tcp_enter_twin Hn1 Hn2. apply run_twin. slots_cases. do 5 osame.
    unfold tcp_eth_plan, tcp_plan, tcp_msg_plan. cbn [existsb tcp_pkt_names orb String.eqb Ascii.eqb Bool.eqb]. rewrite E, E2. cbn [option_map plan_total].
    apply with_override_twin; [exact Hf|]. intros g1 g2 Hg.
    eapply orel_bind; [apply (message_twin r1 r2 cl sv true), Hg|]. intros [k1 p1] [k2 p2] [Hk Hp]. cbn [fst snd] in Hk, Hp. constructor.
    split; [exact Hk|]. cbn [snd]. apply valT_gen. unfold msg_plan. destruct a0; exact Hp.
  - (* server_message *) tcp_enter_twin Hn1 Hn2. apply run_twin. slots_cases. do 5 osame.
    unfold tcp_eth_plan, tcp_plan, tcp_msg_plan. cbn [existsb tcp_pkt_names orb String.eqb Ascii.eqb Bool.eqb]. rewrite E, E2. cbn [option_map plan_total].
    apply with_override_twin; [exact Hf|]. intros g1 g2 Hg.
    eapply orel_bind; [apply (message_twin r1 r2 cl sv false), Hg|]. intros [k1 p1] [k2 p2] [Hk Hp]. cbn [fst snd] in Hk, Hp. constructor.
    split; [exact Hk|]. cbn [snd]. apply valT_gen. unfold msg_plan. destruct a0; exact Hp.
  - (* client_segment *) tcp_enter_twin Hn1 Hn2. apply run_twin. slots_cases. do 3 osame.
    apply with_override_twin; [exact Hf|]. intros g1 g2 Hg.
    eapply orel_bind; [apply (data_segment_twin r1 r2 cl sv true), Hg|]. intros [k1 s1] [k2 s2] [Hk Hs]. cbn [fst snd] in Hk, Hs. constructor.
    split; [exact Hk|]. cbn [snd]. apply valT_pkt. apply seg_packet_twin, Hs.
  - (* server_segment *) tcp_enter_twin Hn1 Hn2. apply run_twin. slots_cases. do 3 osame.
    apply with_override_twin; [exact Hf|]. intros g1 g2 Hg.
    eapply orel_bind; [apply (data_segment_twin r1 r2 cl sv false), Hg|]. intros [k1 s1] [k2 s2] [Hk Hs]. cbn [fst snd] in Hk, Hs. constructor.
    split; [exact Hk|]. cbn [snd]. apply valT_pkt. apply seg_packet_twin, Hs.
  - (* client_raw_segment *) tcp_enter_twin Hn1 Hn2. apply run_twin. slots_cases. do 3 osame.
    apply with_override_twin; [exact Hf|]. intros g1 g2 Hg.
    eapply orel_bind; [apply (data_segment_twin r1 r2 cl sv true), Hg|]. intros [k1 s1] [k2 s2] [Hk Hs]. cbn [fst snd] in Hk, Hs. constructor.
    split; [exact Hk|]. cbn [snd]. rewrite (seg_tcpseg_twin _ _ _ _ _ Hs). apply valT_same.
  - (* server_raw_segment *) tcp_enter_twin Hn1 Hn2. apply run_twin. slots_cases. do 3 osame.
    apply with_override_twin; [exact Hf|]. intros g1 g2 Hg.
    eapply orel_bind; [apply (data_segment_twin r1 r2 cl sv false), Hg|]. intros [k1 s1] [k2 s2] [Hk Hs]. cbn [fst snd] in Hk, Hs. constructor.
    split; [exact Hk|]. cbn [snd]. rewrite (seg_tcpseg_twin _ _ _ _ _ Hs). apply valT_same.
  - (* client_hdr *) tcp_enter_twin Hn1 Hn2. apply run_twin. slots_cases. osame.
    eapply orel_bind; [apply (hdr_twin r1 r2 cl sv true), Hf|]. intros [k1 b1] [k2 b2] [Hk Hb]. cbn [fst snd] in Hk, Hb. subst b2. constructor.
    split; [exact Hk|apply valT_same].
  - (* server_hdr *) tcp_enter_twin Hn1 Hn2. apply run_twin. slots_cases. osame.
    eapply orel_bind; [apply (hdr_twin r1 r2 cl sv false), Hf|]. intros [k1 b1] [k2 b2] [Hk Hb]. cbn [fst snd] in Hk, Hb. subst b2. constructor.
    split; [exact Hk|apply valT_same].
  - (* client_ack *) tcp_enter_twin Hn1 Hn2. apply run_twin. slots_cases. do 2 osame.
    apply with_override_twin; [exact Hf|]. intros g1 g2 Hg.
    eapply orel_bind; [apply (ack_twin r1 r2 cl sv true), Hg|]. intros s1 s2 Hs. constructor.
    split; [exact Hg|]. cbn [snd]. apply valT_pkt. apply seg_packet_twin, Hs.
  - (* server_ack *) tcp_enter_twin Hn1 Hn2. apply run_twin. slots_cases. do 2 osame.
    apply with_override_twin; [exact Hf|]. intros g1 g2 Hg.
    eapply orel_bind; [apply (ack_twin r1 r2 cl sv false), Hg|]. intros s1 s2 Hs. constructor.
    split; [exact Hg|]. cbn [snd]. apply valT_pkt. apply seg_packet_twin, Hs.
  - (* client_hole *) tcp_enter_twin Hn1 Hn2. apply run_twin. slots_cases. osame. constructor.
    split; [apply (hole_twin r1 r2 cl sv true), Hf|apply valT_same].
  - (* server_hole *) tcp_enter_twin Hn1 Hn2. apply run_twin. slots_cases. osame. constructor.
    split; [apply (hole_twin r1 r2 cl sv false), Hf|apply valT_same].
  - (* client_close *) tcp_enter_twin Hn1 Hn2. apply run_twin.
    eapply orel_bind; [apply client_close_twin, Hf|]. intros [g1 p1] [g2 p2] [Hg Hp]. cbn [fst snd] in Hg, Hp. constructor.
    split; [exact Hg|]. cbn [snd]. apply valT_gen. exact Hp.
  - (* server_close *) tcp_enter_twin Hn1 Hn2. apply run_twin.
    eapply orel_bind; [apply server_close_twin, Hf|]. intros [g1 p1] [g2 p2] [Hg Hp]. cbn [fst snd] in Hg, Hp. constructor.
    split; [exact Hg|]. cbn [snd]. apply valT_gen. exact Hp.
  - (* client_reset *) tcp_enter_twin Hn1 Hn2. apply run_twin.
    eapply orel_bind; [apply (reset_twin r1 r2 cl sv true), Hf|]. intros p1 p2 Hp. constructor.
    split; [exact Hf|]. cbn [snd]. apply valT_pkt. exact Hp.
  - (* server_reset *) tcp_enter_twin Hn1 Hn2. apply run_twin.
    eapply orel_bind; [apply (reset_twin r1 r2 cl sv false), Hf|]. intros p1 p2 Hp. constructor.
    split; [exact Hf|]. cbn [snd]. apply valT_pkt. exact Hp.
Qed.
