(** C18: Ethernet framing is uniform, raw mode removes exactly the Ethernet header. *)
From RS Require Import Base.Bytes Base.Outcome Pkt.Csum Pkt.Hdrs Pkt.Packet Ez.Tcp Ez.Udp Ez.Icmp Ez.Ip4 Ez.Gre
  Interp.Val Lib.LibBase Lib.MiscLib Spec.Wire Proofs.BytesLemmas Proofs.C02.IpLemmas Proofs.C02.TcpIp Proofs.C02.OtherIp
  Proofs.Tactics.
From Coq Require Import ZArith Lia ZifyBool ZifyNat ZifyN.
Open Scope N_scope.

(** the one Ethernet header every IP-level builder uses: 00:02:<dst> 00:02:<src> 0800 *)
Definition eth_for (src dst : N) : bytes := mac_of_ip dst ++ mac_of_ip src ++ [8; 0].
Definition eth_bcast_for (src : N) : bytes := mac_bcast ++ mac_of_ip src ++ [8; 0].

Lemma eth_new_ser src dst : eth_ser (eth_new (mac_of_ip src) (mac_of_ip dst) ETH_IPV4) = eth_for src dst.
Proof. reflexivity. Qed.

Lemma length_eth_for s d : length (eth_for s d) = 14%nat. Proof. reflexivity. Qed.

(** a frame is either the IP datagram (raw) or the uniform header followed by it *)
Definition framed (raw : bool) (eth l3 : bytes) : bytes := if raw then l3 else eth ++ l3.

Lemma framed_raw_skip14 eth l3 : length eth = 14%nat -> framed true eth l3 = skipn 14 (framed false eth l3).
Proof. intros H. unfold framed. rewrite skipn_app, H, Nat.sub_diag. rewrite skipn_all2 by lia. reflexivity. Qed.

Lemma framed_first14 eth l3 : length eth = 14%nat -> firstn 14 (framed false eth l3) = eth.
Proof. intros H. unfold framed. apply firstn_app_exact. exact H. Qed.

(* ---------------- TCP ---------------- *)
Definition seg_eth_ok (src dst : N) (s : tcp_seg) : Prop := eth_ser (ts_eth s) = eth_for src dst.

Lemma seg_new_eth src dst sn rn raw : seg_eth_ok (fst src) (fst dst) (seg_new src dst sn rn raw).
Proof. reflexivity. Qed.

Lemma seg_ops_keep_eth a b s : seg_eth_ok a b s ->
  seg_eth_ok a b (seg_syn s) /\ seg_eth_ok a b (seg_rst s) /\ seg_eth_ok a b (seg_ack s) /\ seg_eth_ok a b (seg_syn_ack s)
  /\ seg_eth_ok a b (seg_push s) /\ seg_eth_ok a b (seg_fin_ack s) /\ (forall off, seg_eth_ok a b (seg_frag_off s off)).
Proof. intros H. repeat split; try exact H. intros off. exact H. Qed.

Lemma seg_append_keep_eth a b s bs s' : seg_eth_ok a b s -> seg_append_data s bs = Ok s' -> seg_eth_ok a b s'.
Proof.
  intros H. unfold seg_append_data, seg_update_tot_len.
  destruct (cadd two32 _ _ _); cbn [obind]; try discriminate.
  intros E. ok_inv E. exact H.
Qed.

Lemma seg_csum_keep_eth a b s s' : seg_eth_ok a b s -> seg_tcp_csum s = Ok s' -> seg_eth_ok a b s' /\ ts_raw s' = ts_raw s.
Proof.
  intros H. unfold seg_tcp_csum. destruct (cadd _ _ _ _); cbn [obind]; try discriminate.
  destruct (cadd _ _ _ _); cbn [obind]; try discriminate. intros E. ok_inv E. split; [exact H|reflexivity].
Qed.

(** every segment: frame = framed raw (uniform header) (IP datagram) *)
Theorem seg_bytes_framed a b s : seg_eth_ok a b s -> seg_bytes s = framed (ts_raw s) (eth_for a b) (seg_l3_bytes s).
Proof. intros H. unfold seg_bytes, framed. rewrite H. reflexivity. Qed.

(* ---------------- UDP ---------------- *)
Theorem udp_addressed_eth raw s t b d :
  udp_push (udp_dst (udp_src (udp_new raw) s) t) b = Ok d ->
  udp_bytes d = framed raw (eth_for (fst s) (fst t)) (udp_l3_bytes d)
  /\ udp_bytes (udp_broadcast d) = framed raw (eth_bcast_for (fst s)) (udp_l3_bytes d).
Proof.
  intros E. destruct (udp_push_fields _ _ _ E) as (R & _).
  unfold udp_push in E. ok_inv E.
  split; reflexivity.
Qed.

(** the options applied after the payload keep the frame header *)
Lemma udp_options_keep_eth d :
  (forall off, ud_eth (udp_frag_off d off) = ud_eth d /\ ud_raw (udp_frag_off d off) = ud_raw d) /\
  (forall a, ud_eth (udp_srcip d a) = ud_eth d /\ ud_raw (udp_srcip d a) = ud_raw d) /\
  (forall d', udp_csum d = Ok d' -> ud_eth d' = ud_eth d /\ ud_raw d' = ud_raw d).
Proof.
  split; [|split]; try (intros; split; reflexivity).
  intros d'. unfold udp_csum. destruct (cadd _ _ _ _); cbn [obind]; try discriminate.
  destruct (cadd _ _ _ _); cbn [obind]; try discriminate. intros E. ok_inv E. split; reflexivity.
Qed.

Theorem udp_bytes_framed d : udp_bytes d = framed (ud_raw d) (eth_ser (ud_eth d)) (udp_l3_bytes d).
Proof. reflexivity. Qed.

(* ---------------- ICMP, IP datagrams / fragments, GRE family ---------------- *)
Theorem icmp_dgram_framed src dst raw typ id seq b p :
  icmp_dgram src dst raw typ id seq b = Ok p ->
  exists l3, pk_body p = framed raw (eth_for src dst) l3
    /\ forall raw' p', icmp_dgram src dst raw' typ id seq b = Ok p' -> pk_body p' = framed raw' (eth_for src dst) l3.
Proof.
  unfold icmp_dgram.
  intros E. ok_inv E. eexists. split; [reflexivity|]. intros raw' p' E'. ok_inv E'. reflexivity.
Qed.

Theorem ipdgram_framed iph payload raw off mf p :
  ipdgram iph payload raw off mf = Ok p ->
  exists l3, pk_body p = framed raw (eth_for (ip_src iph) (ip_dst iph)) l3
    /\ forall raw' p', ipdgram iph payload raw' off mf = Ok p' -> pk_body p' = framed raw' (eth_for (ip_src iph) (ip_dst iph)) l3.
Proof.
  unfold ipdgram.
  intros E. ok_inv E. eexists. split; [reflexivity|]. intros raw' p' E'. ok_inv E'. reflexivity.
Qed.

Theorem gre_bytes_framed g : gre_bytes g =
  framed (gr_raw g) (eth_ser (gr_eth g))
         (ip_ser (gr_ip g) ++ gr_hdr g ++ (match gr_seq g with Some n => be32 n | None => [] end) ++ gr_rest g).
Proof. reflexivity. Qed.

Lemma gre_new_eth src dst flags proto raw g :
  gre_new src dst flags proto raw = Ok g -> eth_ser (gr_eth g) = eth_for src dst /\ gr_raw g = raw.
Proof.
  unfold gre_new. destruct (negb _).
  - intros E. ok_inv E. split; reflexivity.
  - intros E. ok_inv E. split; reflexivity.
Qed.
Lemma gre_push_keep g b g' : gre_push g b = Ok g' -> gr_eth g' = gr_eth g /\ gr_raw g' = gr_raw g.
Proof. unfold gre_push. intros E. ok_inv E. split; reflexivity. Qed.

(* ---------------- eth::frame and eth::from_ip ---------------- *)
Theorem eth_frame_wire_order s d et data h :
  len s = 6 -> len d = 6 -> et < 65536 ->
  eth_frame_fn [VStr s; VStr d; VU16 et] [VStr data] h = Ok (VPkt (pkt_of_body (d ++ s ++ be16 et ++ data)), h).
Proof.
  intros Hs Hd He. unfold eth_frame_fn, conv_buf, conv_u16, conv_int, omap, join_extra, wrap16.
  cbn [obind omapM join]. rewrite (N.mod_small et) by lia.
  rewrite Hs, Hd. change (6 =? 6) with true. cbn [negb obind omapM join conv_buf].
  unfold eth_ser, eth_new. cbn [eth_dst eth_src eth_proto]. rewrite <- ?app_assoc. reflexivity.
Qed.

Theorem eth_frame_rejects_bad_address s d et data h :
  len s <> 6 \/ len d <> 6 -> eth_frame_fn [VStr s; VStr d; VU16 et] [VStr data] h = Err ERuntime.
Proof.
  intros H. unfold eth_frame_fn, conv_buf, conv_u16, conv_int, omap, join_extra. cbn [obind omapM join].
  destruct (len s =? 6) eqn:E1; cbn [negb]; [|reflexivity].
  destruct (len d =? 6) eqn:E2; cbn [negb]; [|reflexivity].
  apply N.eqb_eq in E1, E2. tauto.
Qed.

Theorem eth_from_ip_is_mac a h : eth_from_ip_fn [VIp4 a] [] h = Ok (VStr ([0; 2] ++ be32 a), h).
Proof. reflexivity. Qed.
