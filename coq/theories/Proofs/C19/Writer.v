(** C19: BufWriter never loses, reorders or duplicates bytes -- facts that hold for every limit. *)
From RS Require Import Base.Bytes Base.Outcome Pkt.Pcap Interp.Io Proofs.BytesLemmas Proofs.C19.Loops.
From Coq Require Import ZArith Lia ZifyBool ZifyNat ZifyN.
Ltac Zify.zify_post_hook ::= Z.div_mod_to_equations.
Open Scope N_scope.

(** everything the writer has accepted and not lost: file content followed by the buffered bytes *)
Definition stream (w : bufw) : bytes := bw_file w ++ bw_buf w.

Definition is_prefix (a b : bytes) : Prop := exists rest, b = a ++ rest.

Lemma is_prefix_refl a : is_prefix a a.
Proof. exists []. rewrite app_nil_r. reflexivity. Qed.
Lemma is_prefix_app a b : is_prefix a (a ++ b).
Proof. exists b. reflexivity. Qed.
Lemma is_prefix_trans a b c : is_prefix a b -> is_prefix b c -> is_prefix a c.
Proof. intros [x ->] [y ->]. exists (x ++ y). rewrite app_assoc. reflexivity. Qed.
Lemma is_prefix_app_r a b c : is_prefix a b -> is_prefix a (b ++ c).
Proof. intros H. eapply is_prefix_trans; [exact H|apply is_prefix_app]. Qed.
Lemma is_prefix_app_l a b c : is_prefix b c -> is_prefix (a ++ b) (a ++ c).
Proof. intros [x ->]. exists x. rewrite app_assoc. reflexivity. Qed.
Lemma is_prefix_takeN n (c : bytes) : is_prefix (takeN n c) c.
Proof. exists (dropN n c). symmetry. apply takeN_dropN. Qed.
Lemma is_prefix_len a b : is_prefix a b -> len a <= len b.
Proof. intros [x ->]. rewrite len_app. lia. Qed.
Lemma is_prefix_same_len a b : is_prefix a b -> len b <= len a -> a = b.
Proof.
  intros [x ->] H. rewrite len_app in H. assert (E : len x = 0) by lia.
  apply len_zero_nil in E. subst. rewrite app_nil_r. reflexivity.
Qed.

Ltac split5 := split; [|split; [|split; [|split]]].

Definition io_res_ok (r : outcome unit) : Prop := r = Ok tt \/ r = Err EIo.

Section Writer.
Variable cap : N.
Variable limit : option N.

(** the file never grows beyond the limit *)
Definition within (f : bytes) : Prop := match limit with None => True | Some L => len f <= L end.

(** *** flush_buf *)
Lemma flush_buf_facts w r w' : flush_buf limit w = (r, w') ->
  io_res_ok r
  /\ stream w' = stream w
  /\ is_prefix (bw_file w) (bw_file w')
  /\ (r = Ok tt -> bw_buf w' = [] /\ bw_file w' = stream w)
  /\ (within (bw_file w) -> within (bw_file w')).
Proof.
  rewrite flush_buf_closed. unfold flush_spec, stream. destruct w as [f b]. cbn [bw_file bw_buf].
  destruct b as [|x b0].
  - intros E. inversion E; subst. cbn [bw_file bw_buf]. rewrite app_nil_r.
    repeat split; try (left; reflexivity); try apply is_prefix_refl; auto.
  - set (b := x :: b0). destruct (fits limit f b) eqn:Ef; intros E; inversion E; subst; cbn [bw_file bw_buf].
    + rewrite app_nil_r. repeat split; try (left; reflexivity); try apply is_prefix_app.
      unfold within. unfold fits in Ef. destruct limit as [L|]; [|trivial]. intros _. rewrite len_app. lia.
    + repeat split; try (right; reflexivity); try apply is_prefix_app; try discriminate.
      * rewrite <- app_assoc, takeN_dropN. reflexivity.
      * unfold within, fits, room in *. destruct limit as [L|]; [|trivial]. intros Hw.
        rewrite len_app, len_takeN. lia.
Qed.

(** *** File::write_all *)
Lemma file_write_all_facts f c r f' : file_write_all (length c) limit f c = (r, f') ->
  io_res_ok r
  /\ (exists k, f' = f ++ takeN k c)
  /\ (r = Ok tt -> f' = f ++ c)
  /\ (within f -> within f').
Proof.
  rewrite file_write_all_closed by lia. unfold file_write_all_spec.
  destruct c as [|x c0].
  - intros E; inversion E; subst. repeat split; try (left; reflexivity); auto.
    + exists 0. rewrite takeN_0, app_nil_r. reflexivity.
    + intros _. rewrite app_nil_r. reflexivity.
  - set (c := x :: c0). destruct (fits limit f c) eqn:Ef; intros E; inversion E; subst.
    + repeat split; try (left; reflexivity); auto.
      * exists (len c). rewrite takeN_all by lia. reflexivity.
      * unfold within. unfold fits in Ef. destruct limit as [L|]; [|trivial]. intros _. rewrite len_app. lia.
    + repeat split; try (right; reflexivity); try discriminate.
      * exists (room limit f). reflexivity.
      * unfold within, fits, room in *. destruct limit as [L|]; [|trivial]. intros Hw.
        rewrite len_app, len_takeN. lia.
Qed.

(** *** BufWriter::write_all *)
Lemma bw_write_all_facts w c r w' : bw_write_all cap limit w c = (r, w') ->
  io_res_ok r
  /\ (exists k, stream w' = stream w ++ takeN k c)
  /\ is_prefix (bw_file w) (bw_file w')
  /\ (r = Ok tt -> stream w' = stream w ++ c)
  /\ (within (bw_file w) -> within (bw_file w')).
Proof.
  unfold bw_write_all.
  assert (Hbuf : forall w0, let w1 := to_buffer w0 c in
            (exists k, stream w1 = stream w0 ++ takeN k c) /\ is_prefix (bw_file w0) (bw_file w1)
            /\ stream w1 = stream w0 ++ c /\ (within (bw_file w0) -> within (bw_file w1))).
  { intros w0. unfold to_buffer, stream. cbn [bw_file bw_buf]. rewrite app_assoc.
    repeat split; try apply is_prefix_refl; auto.
    exists (len c). rewrite takeN_all by lia. reflexivity. }
  destruct (len c <? spare cap w) eqn:E1.
  { intros E; inversion E; subst. destruct (Hbuf w) as (H1 & H2 & H3 & H4).
    split5; [left; reflexivity|exact H1|exact H2|intros _; exact H3|exact H4]. }
  unfold write_all_cold.
  destruct (spare cap w <? len c) eqn:E2.
  - (* flush first *)
    destruct (flush_buf limit w) as [r1 w1] eqn:Efl.
    destruct (flush_buf_facts _ _ _ Efl) as (Hr1 & Hs1 & Hp1 & Hok1 & Hw1).
    destruct r1 as [[]|e| |].
    + destruct (Hok1 eq_refl) as (Hb1 & Hf1).
      destruct (cap <=? len c).
      * destruct (file_write_all (length c) limit (bw_file w1) c) as [r2 f2] eqn:Efw.
        destruct (file_write_all_facts _ _ _ _ Efw) as (Hr2 & (k & Hk) & Hok2 & Hw2).
        intros E; inversion E; subst r w'.
        assert (Hst : forall x, stream {| bw_file := bw_file w1 ++ x; bw_buf := bw_buf w1 |} = stream w ++ x).
        { intros x. unfold stream. cbn [bw_file bw_buf]. rewrite Hb1, app_nil_r, Hf1. reflexivity. }
        split5.
        -- exact Hr2.
        -- exists k. rewrite Hk. apply Hst.
        -- cbn [bw_file]. eapply is_prefix_trans; [exact Hp1|]. rewrite Hk. apply is_prefix_app.
        -- intros Eok. rewrite (Hok2 Eok). apply Hst.
        -- cbn [bw_file]. auto.
      * intros E; inversion E; subst r w'. destruct (Hbuf w1) as (H1 & H2 & H3 & H4).
        rewrite Hs1 in H1, H3.
        split5; [left; reflexivity|exact H1|eapply is_prefix_trans; [exact Hp1|exact H2]|intros _; exact H3|auto].
    + intros E; inversion E; subst r w'.
      split5; [exact Hr1|exists 0; rewrite takeN_0, app_nil_r; exact Hs1|exact Hp1|discriminate|exact Hw1].
    + destruct Hr1 as [Hr1|Hr1]; discriminate.
    + destruct Hr1 as [Hr1|Hr1]; discriminate.
  - destruct (cap <=? len c) eqn:E3.
    + destruct (file_write_all (length c) limit (bw_file w) c) as [r2 f2] eqn:Efw.
      destruct (file_write_all_facts _ _ _ _ Efw) as (Hr2 & (k & Hk) & Hok2 & Hw2).
      (* len c = spare and cap <= len c: the buffer is empty (or the chunk is) *)
      assert (Hb : bw_buf w = [] \/ c = []).
      { unfold spare in E1, E2. destruct (bw_buf w) as [|y b0]; [left; reflexivity|right].
        apply len_zero_nil. pose proof (len_pos_cons y b0). lia. }
      assert (Hst : forall j, stream {| bw_file := bw_file w ++ takeN j c; bw_buf := bw_buf w |} = stream w ++ takeN j c).
      { intros j. unfold stream. cbn [bw_file bw_buf]. destruct Hb as [Hb|Hb]; rewrite Hb.
        - rewrite !app_nil_r. reflexivity.
        - unfold takeN. rewrite firstn_nil, !app_nil_r. reflexivity. }
      intros E; inversion E; subst r w'.
      split5.
      * exact Hr2.
      * exists k. rewrite Hk. apply Hst.
      * cbn [bw_file]. rewrite Hk. apply is_prefix_app.
      * intros Eok. rewrite (Hok2 Eok). rewrite <- (takeN_all (len c) c) at 1 by lia.
        rewrite Hst. rewrite takeN_all by lia. reflexivity.
      * cbn [bw_file]. exact Hw2.
    + intros E; inversion E; subst r w'. destruct (Hbuf w) as (H1 & H2 & H3 & H4).
      split5; [left; reflexivity|exact H1|exact H2|intros _; exact H3|exact H4].
Qed.

End Writer.
