(** C19 (d): where a write fault at offset L is reported -- at the first operation after which a
    fault-free run would have more than L bytes in the file. *)
From RS Require Import Base.Bytes Base.Outcome Pkt.Pcap Interp.Io Proofs.BytesLemmas Proofs.C19.Loops
  Proofs.C19.Writer Proofs.C19.Session.
From Coq Require Import ZArith Lia ZifyBool ZifyNat ZifyN.
Ltac Zify.zify_post_hook ::= Z.div_mod_to_equations.
Open Scope N_scope.

Section Report.
Variable cap : N.
Variable L : N.

Definition occ_of (w : bufw) : N * N := (len (bw_file w), len (bw_buf w)).

(** one write_all against the fault-free occupancy *)
Lemma step_sim w c : len (bw_file w) <= L ->
  let sb' := occ_step cap (occ_of w) (len c) in
  if L <? fst sb' then exists w', bw_write_all cap (Some L) w c = (Err EIo, w')
  else exists w', bw_write_all cap (Some L) w c = (Ok tt, w') /\ occ_of w' = sb'.
Proof.
  intros Hs. unfold occ_of, occ_step, bw_write_all, write_all_cold, spare.
  destruct w as [f b]. cbn [bw_file bw_buf] in *.
  destruct (len c <? cap - len b) eqn:E1; cbn [fst].
  { replace (L <? len f) with false by lia. eexists. split; [reflexivity|].
    cbn [to_buffer bw_file bw_buf]. rewrite len_app. reflexivity. }
  destruct (cap - len b <? len c) eqn:E2.
  - (* flush first *)
    rewrite flush_buf_closed. cbn [bw_file bw_buf]. unfold flush_spec.
    destruct b as [|y b0].
    + (* nothing buffered *)
      replace (len (@nil N)) with 0 in * by reflexivity. replace (len f + 0) with (len f) by lia.
      destruct (cap <=? len c) eqn:E3; cbn [fst bw_file bw_buf].
      * rewrite file_write_all_closed by lia. unfold file_write_all_spec.
        destruct c as [|z c0].
        -- replace (len (@nil N)) with 0 by reflexivity. replace (L <? len f + 0) with false by lia.
           eexists. split; [reflexivity|]. cbn [bw_file bw_buf]. f_equal. unfold len; cbn [length]; lia.
        -- set (c := z :: c0) in *. cbn [fits]. destruct (L <? len f + len c) eqn:E4.
           ++ replace (len f + len c <=? L) with false by lia. eexists. reflexivity.
           ++ replace (len f + len c <=? L) with true by lia. eexists. split; [reflexivity|].
              cbn [bw_file bw_buf]. rewrite len_app. reflexivity.
      * replace (L <? len f) with false by lia. eexists. split; [reflexivity|].
        cbn [to_buffer bw_file bw_buf app]. reflexivity.
    + set (b := y :: b0) in *. cbn [fits].
      destruct (len f + len b <=? L) eqn:Efit.
      * destruct (cap <=? len c) eqn:E3; cbn [fst bw_file bw_buf].
        -- rewrite file_write_all_closed by lia. unfold file_write_all_spec.
           destruct c as [|z c0].
           ++ replace (len (@nil N)) with 0 by reflexivity. replace (L <? len f + len b + 0) with false by lia.
              eexists. split; [reflexivity|]. cbn [bw_file bw_buf]. rewrite len_app. f_equal. unfold len; cbn [length]; lia.
           ++ set (c := z :: c0) in *. cbn [fits]. rewrite len_app.
              destruct (L <? len f + len b + len c) eqn:E4.
              ** replace (len f + len b + len c <=? L) with false by lia. eexists. reflexivity.
              ** replace (len f + len b + len c <=? L) with true by lia. eexists. split; [reflexivity|].
                 cbn [bw_file bw_buf]. rewrite !len_app. reflexivity.
        -- replace (L <? len f + len b) with false by lia. eexists. split; [reflexivity|].
           cbn [to_buffer bw_file bw_buf app]. rewrite len_app. reflexivity.
      * (* the flush itself fails *)
        destruct (cap <=? len c); cbn [fst].
        -- replace (L <? len f + len b + len c) with true by lia. eexists. reflexivity.
        -- replace (L <? len f + len b) with true by lia. eexists. reflexivity.
  - destruct (cap <=? len c) eqn:E3; cbn [fst bw_file bw_buf].
    + rewrite file_write_all_closed by lia. unfold file_write_all_spec.
      destruct c as [|z c0].
      * replace (len (@nil N)) with 0 by reflexivity. replace (L <? len f + 0) with false by lia.
        eexists. split; [reflexivity|]. cbn [bw_file bw_buf]. f_equal. lia.
      * set (c := z :: c0) in *. cbn [fits]. destruct (L <? len f + len c) eqn:E4.
        -- replace (len f + len c <=? L) with false by lia. eexists. reflexivity.
        -- replace (len f + len c <=? L) with true by lia. eexists. split; [reflexivity|].
           cbn [bw_file bw_buf]. rewrite len_app. reflexivity.
    + replace (L <? len f) with false by lia. eexists. split; [reflexivity|].
      cbn [to_buffer bw_file bw_buf]. rewrite len_app. reflexivity.
Qed.


Lemma flush_sim w : len (bw_file w) <= L ->
  if L <? len (bw_file w) + len (bw_buf w) then exists w', bw_flush (Some L) w = (Err EIo, w')
  else exists w', bw_flush (Some L) w = (Ok tt, w').
Proof.
  intros Hs. unfold bw_flush. rewrite flush_buf_closed. unfold flush_spec. destruct w as [f b]. cbn [bw_file bw_buf] in *.
  destruct b as [|y b0].
  - replace (len (@nil N)) with 0 by reflexivity. replace (L <? len f + 0) with false by lia. eexists; reflexivity.
  - set (b := y :: b0). cbn [fits]. destruct (L <? len f + len b) eqn:E.
    + replace (len f + len b <=? L) with false by lia. eexists; reflexivity.
    + replace (len f + len b <=? L) with true by lia. eexists; reflexivity.
Qed.

Definition report_of_sizes (sizes : list N) (op : nat) : io_outcome :=
  match first_above L sizes op with Some i => IoFailedAt i | None => IoDone end.

(** records, then the explicit flush *)
Definition finish (w : bufw) (op : nat) (recs : list bytes) : io_outcome * bufw :=
  match write_records cap (Some L) w op recs with
  | (IoDone, w1) =>
    match bw_flush (Some L) w1 with
    | (Ok _, w') => (IoDone, w')
    | (OutOfFuel, w') => (IoFuel, w')
    | (_, w') => (IoFailedAt (op + length recs), w')
    end
  | x => x
  end.

Lemma finish_sim : forall recs w op, len (bw_file w) <= L ->
  fst (finish w op recs) = report_of_sizes (occ_sizes cap (occ_of w) (map len recs)) op.
Proof.
  induction recs as [|r rest IH]; intros w op Hs; unfold finish, report_of_sizes.
  - cbn [write_records map occ_sizes first_above occ_of fst snd length].
    pose proof (flush_sim w Hs) as Hf.
    destruct (L <? len (bw_file w) + len (bw_buf w)); destruct Hf as (w' & ->); cbn [fst]; [|reflexivity].
    f_equal. lia.
  - cbn [write_records map occ_sizes first_above].
    pose proof (step_sim w r Hs) as Hst. cbv zeta in Hst.
    destruct (L <? fst (occ_step cap (occ_of w) (len r))) eqn:E.
    + destruct Hst as (w' & ->). reflexivity.
    + destruct Hst as (w' & -> & Hocc).
      assert (Hs' : len (bw_file w') <= L) by (rewrite <- Hocc in E; unfold occ_of in E at 1; cbn [fst] in E; lia).
      specialize (IH w' (S op) Hs'). unfold finish, report_of_sizes in IH. rewrite Hocc in IH. rewrite <- IH.
      cbn [length]. replace (op + S (length rest))%nat with (S op + length rest)%nat by lia. reflexivity.
Qed.

(** (d) the report point *)
Theorem report_point recs :
  io_out (session_io cap (Some L) true recs EndFlush) = report_of_sizes (pushed_sizes cap recs) 0.
Proof.
  unfold session_io, run_writer, pushed_sizes, report_of_sizes, pw_create.
  cbn [occ_sizes first_above].
  assert (H0 : len (bw_file bw_new) <= L) by (unfold len; cbn; lia).
  pose proof (step_sim bw_new pcap_ghdr H0) as Hst. cbv zeta in Hst.
  change (occ_of bw_new) with (0, 0) in Hst.
  destruct (L <? fst (occ_step cap (0, 0) (len pcap_ghdr))) eqn:E.
  - destruct Hst as (w' & ->). reflexivity.
  - destruct Hst as (w0 & -> & Hocc).
    assert (Hs0 : len (bw_file w0) <= L) by (rewrite <- Hocc in E; unfold occ_of in E; cbn [fst] in E; lia).
    pose proof (finish_sim recs w0 1 Hs0) as Hf. unfold finish, report_of_sizes in Hf. rewrite Hocc in Hf.
    rewrite <- Hf. clear Hf.
    destruct (write_records cap (Some L) w0 1 recs) as [o1 w1].
    destruct o1; try reflexivity.
    destruct (bw_flush (Some L) w1) as [r2 w2]. destruct r2 as [[]|e| |]; reflexivity.
Qed.

End Report.

(** *** arithmetic of the occupancy *)
Lemma occ_step_sum cap s b l : let sb' := occ_step cap (s, b) l in
  fst sb' + snd sb' = s + b + l /\ s <= fst sb'.
Proof.
  unfold occ_step. destruct (l <? cap - b); cbn [fst snd]; [lia|].
  destruct (cap - b <? l); destruct (cap <=? l); cbn [fst snd]; lia.
Qed.

Fixpoint sumN (l : list N) : N := match l with [] => 0 | x :: r => x + sumN r end.

Lemma occ_sizes_bound cap : forall lens s b,
  Forall (fun x => s <= x <= s + b + sumN lens) (occ_sizes cap (s, b) lens)
  /\ last (occ_sizes cap (s, b) lens) 0 = s + b + sumN lens.
Proof.
  induction lens as [|l r IH]; intros s b; cbn [occ_sizes sumN fst snd].
  - split; [constructor; [lia|constructor]|cbn [last]; lia].
  - pose proof (occ_step_sum cap s b l) as Hs. cbv zeta in Hs.
    destruct (occ_step cap (s, b) l) as [s' b'] eqn:E. cbn [fst snd] in *.
    destruct (IH s' b') as (Hall & Hlast). split.
    + constructor; [lia|]. eapply Forall_impl; [|exact Hall]. cbn beta. intros x Hx. lia.
    + assert (Hne : occ_sizes cap (s', b') r <> []) by (destruct r; cbn [occ_sizes]; discriminate).
      destruct (occ_sizes cap (s', b') r) as [|z zs] eqn:Eo; [congruence|].
      cbn [last] in *. rewrite Hlast. lia.
Qed.

Lemma first_above_none L : forall l i, first_above L l i = None <-> Forall (fun x => x <= L) l.
Proof.
  induction l as [|x r IH]; intros i; cbn [first_above].
  - split; [constructor|reflexivity].
  - destruct (L <? x) eqn:E.
    + split; [discriminate|]. intros H. inversion H; subst. lia.
    + rewrite IH. split; [intros H; constructor; [lia|exact H]|intros H; inversion H; assumption].
Qed.

(** the index returned is that of the first size above L *)
Lemma first_above_some L : forall l i k, first_above L l i = Some k ->
  (i <= k)%nat /\ L < nth (k - i) l 0 /\ forall j, (j < k - i)%nat -> nth j l 0 <= L.
Proof.
  induction l as [|x r IH]; intros i k; cbn [first_above]; [discriminate|].
  destruct (L <? x) eqn:E.
  - intros H; inversion H; subst. replace (k - k)%nat with 0%nat by lia. cbn [nth].
    split; [lia|]. split; [lia|]. intros j Hj. lia.
  - intros H. destruct (IH _ _ H) as (Hle & Hgt & Hbefore).
    split; [lia|]. replace (k - i)%nat with (S (k - S i)) by lia. cbn [nth]. split; [exact Hgt|].
    intros j Hj. destruct j as [|j]; [lia|]. apply Hbefore. lia.
Qed.

Lemma sumN_map_len (recs : list bytes) : sumN (map len recs) = len (concat recs).
Proof.
  induction recs as [|r rest IH]; cbn [map sumN concat]; [reflexivity|]. rewrite len_app, IH. reflexivity.
Qed.

Lemma pushed_sizes_total cap recs :
  Forall (fun x => x <= len (full_file recs)) (pushed_sizes cap recs)
  /\ last (pushed_sizes cap recs) 0 = len (full_file recs).
Proof.
  unfold pushed_sizes, full_file.
  destruct (occ_sizes_bound cap (len pcap_ghdr :: map len recs) 0 0) as (Hall & Hlast).
  cbn [sumN] in Hall, Hlast. rewrite sumN_map_len in Hall, Hlast. rewrite len_app.
  split; [|rewrite Hlast; lia].
  eapply Forall_impl; [|exact Hall]. cbn beta. intros x Hx. lia.
Qed.

(** (b, converse) a limit at or beyond the complete size is no fault at all *)
Theorem roomy_limit_done cap L recs : len (full_file recs) <= L ->
  io_out (session_io cap (Some L) true recs EndFlush) = IoDone.
Proof.
  intros HL. rewrite report_point. unfold report_of_sizes.
  destruct (pushed_sizes_total cap recs) as (Hall & _).
  assert (E : first_above L (pushed_sizes cap recs) 0 = None).
  { apply first_above_none. eapply Forall_impl; [|exact Hall]. cbn beta. intros x Hx. lia. }
  rewrite E. reflexivity.
Qed.

(** *** no limit: every operation succeeds *)
Lemma bw_write_all_nolimit cap w c : exists w', bw_write_all cap None w c = (Ok tt, w').
Proof.
  unfold bw_write_all, write_all_cold.
  destruct (len c <? spare cap w); [eexists; reflexivity|].
  assert (Hfl : forall w0, exists w1, flush_buf None w0 = (Ok tt, w1)).
  { intros w0. rewrite flush_buf_closed. unfold flush_spec. destruct (bw_buf w0); cbn [fits]; eexists; reflexivity. }
  assert (Hdirect : forall w1, exists w',
    (if cap <=? len c
     then let (r2, f2) := file_write_all (length c) None (bw_file w1) c in (r2, {| bw_file := f2; bw_buf := bw_buf w1 |})
     else (Ok tt, to_buffer w1 c)) = (Ok tt, w')).
  { intros w1. destruct (cap <=? len c); [|eexists; reflexivity].
    rewrite file_write_all_closed by lia. unfold file_write_all_spec. destruct c; cbn [fits]; eexists; reflexivity. }
  destruct (spare cap w <? len c).
  - destruct (Hfl w) as (w1 & ->). apply Hdirect.
  - apply Hdirect.
Qed.

Theorem no_limit_done cap recs : io_out (session_io cap None true recs EndFlush) = IoDone.
Proof.
  unfold session_io, run_writer, pw_create.
  destruct (bw_write_all_nolimit cap bw_new pcap_ghdr) as (w0 & ->).
  assert (Hrec : forall recs w op, exists w', write_records cap None w op recs = (IoDone, w')).
  { clear. induction recs as [|r rest IH]; intros w op; cbn [write_records]; [eexists; reflexivity|].
    destruct (bw_write_all_nolimit cap w r) as (w1 & ->). apply IH. }
  destruct (Hrec recs w0 1%nat) as (w1 & ->).
  unfold bw_flush. rewrite flush_buf_closed. unfold flush_spec. destruct (bw_buf w1); cbn [fits]; reflexivity.
Qed.
