(** C19: the pipeline with the fallible BufWriter is the fault-free trace replayed through the
    BufWriter -- the interpreter is deterministic up to the first failing write, and what is reported
    then depends only on the records written so far and the location current at the failing write. *)
From RS Require Import Base.Bytes Base.Outcome Base.Utf8 Bind.Types Pkt.Packet Pkt.Pcap
  Lex.Tokens Lex.Scanner Parse.Automaton Interp.Val Interp.Ast Interp.Eval Interp.Cli Interp.Io Interp.IoRun
  Lib.LibBase Proofs.C19.Loops Proofs.C19.Writer Proofs.C19.Session.
Open Scope N_scope.

Definition wstate {S A} (x : wres S A) : S :=
  match x with WOk _ _ w | WErr _ _ w | WWriteErr _ w | WPanic _ _ w => w end.
Definition wmap {S T A} (x : wres S A) (t : T) : wres T A :=
  match x with
  | WOk a p _ => WOk a p t | WErr e p _ => WErr e p t | WWriteErr p _ => WWriteErr p t | WPanic s p _ => WPanic s p t
  end.
Definition is_werr {S A} (x : wres S A) : bool := match x with WWriteErr _ _ => true | _ => false end.

Definition ic_state {S} (x : io_cli_result S) : S :=
  match x with IcOk _ w | IcErr _ _ _ w | IcWriteErr _ _ w | IcPanic _ _ w => w end.

Section Pipeline.
Variable functions : list funcdef.
Variable classes : list (string * list (string * string)).
Variable modules : list (string * list (string * symbol)).
Variable exec : string -> option nat -> list val -> list val -> heap -> option libres.
Variable cap : N.
Variable limit : option N.

Notation putA := (bw_put cap limit).
Notation replay := (replay_events cap limit).

(** *** replaying a concatenation *)
Lemma replay_app : forall a b w,
  replay w (a ++ b) =
  match replay w a with
  | inl (inl w') => replay w' b
  | x => x
  end.
Proof.
  induction a as [|[l c] a IH]; intros b w; cbn [app replay_events]; [reflexivity|].
  destruct (bw_write_all cap limit w c) as [r w1]. destruct r as [[]|e|s|]; try reflexivity. apply IH.
Qed.

(** *** statements: the interpreter with the BufWriter against the interpreter with the recorder *)
Definition sim_w {A} (w : bufw) (evs : list event) (xa : wres bufw A) (xr : wres (list event) A) : Prop :=
  is_werr xr = false /\
  exists new, wstate xr = rev new ++ evs /\
    match replay w new with
    | inl (inl w') => xa = wmap xr w'
    | inl (inr (l, w')) => exists p', xa = WWriteErr p' w' /\ p_loc p' = l
    | inr w' => exists p', xa = WPanic "model: out of fuel" p' w'
    end.

Lemma sim_w_same {A} w evs (r : res A) : sim_w w evs (wlift r w) (wlift r evs).
Proof.
  split; [destruct r; reflexivity|]. exists []. split; [destruct r; reflexivity|].
  cbn [replay_events]. destruct r; reflexivity.
Qed.

Lemma write_all_sim : forall ps p w evs,
  sim_w w evs (write_all_io bufw putA p w ps) (write_all_io (list event) rec_put p evs ps).
Proof.
  induction ps as [|k r IH]; intros p w evs; cbn [write_all_io].
  - split; [reflexivity|]. exists []. split; reflexivity.
  - destruct (write_packet (p_now p) k) as [[b k']|e|s|].
    2,3,4: (split; [reflexivity|]; exists []; split; reflexivity).
    unfold rec_put at 1. unfold bw_put at 1.
    destruct (bw_write_all cap limit w b) as [r1 w1] eqn:Ew.
    (* the recorder's side, whatever the BufWriter does *)
    assert (HR : forall w2, sim_w w2 ((p_loc p, b) :: evs)
                   (write_all_io bufw putA (add_out p b) w2 r)
                   (write_all_io (list event) rec_put (add_out p b) ((p_loc p, b) :: evs) r)) by (intros; apply IH).
    destruct (HR w1) as (Hne & new & Hst & Hrep).
    split; [exact Hne|]. exists ((p_loc p, b) :: new).
    split; [rewrite Hst; cbn [rev]; rewrite <- app_assoc; reflexivity|].
    cbn [replay_events]. rewrite Ew.
    destruct r1 as [[]|e|s|].
    + exact Hrep.
    + exists (add_out p b). split; reflexivity.
    + exists (add_out p b). split; reflexivity.
    + exists (add_out p b). split; reflexivity.
Qed.

Lemma emit_val_sim p w evs v :
  sim_w w evs (emit_val_io bufw putA p w v) (emit_val_io (list event) rec_put p evs v).
Proof.
  destruct v as [|b|n|n|n|n|a|a pt|b|addr|key|addr key|k|ks|ns]; cbn [emit_val_io];
    try apply (sim_w_same w evs (ROk tt (add_warning p))).
  - apply (sim_w_same w evs (ROk tt p)).
  - destruct (update_time p (pkt_bit_time k)) as [[] p'|e p'|s p'] eqn:E.
    + apply write_all_sim.
    + apply (sim_w_same w evs (RErr e p')).
    + apply (sim_w_same w evs (RPanic s p')).
  - destruct (advance_all p ks) as [[] p'|e p'|s p'] eqn:E.
    + apply write_all_sim.
    + apply (sim_w_same w evs (RErr e p')).
    + apply (sim_w_same w evs (RPanic s p')).
  - apply sim_w_same.
Qed.

Notation add_stmtA := (add_stmt_io functions classes modules exec bufw putA).
Notation add_stmtR := (add_stmt_io functions classes modules exec (list event) rec_put).
Notation add_stmtsA := (add_stmts_io functions classes modules exec bufw putA).
Notation add_stmtsR := (add_stmts_io functions classes modules exec (list event) rec_put).

Lemma add_stmt_sim p w evs s : sim_w w evs (add_stmtA p w s) (add_stmtR p evs s).
Proof.
  destruct s as [l name|l x e|e]; cbn [add_stmt_io]; try apply sim_w_same.
  destruct (eval functions classes modules exec p e) as [v p'|e' p'|s' p'].
  - apply emit_val_sim.
  - apply (sim_w_same w evs (RErr e' p')).
  - apply (sim_w_same w evs (RPanic s' p')).
Qed.

Lemma add_stmts_sim : forall ss p w evs, sim_w w evs (add_stmtsA p w ss) (add_stmtsR p evs ss).
Proof.
  induction ss as [|s r IH]; intros p w evs; cbn [add_stmts_io].
  - split; [reflexivity|]. exists []. split; reflexivity.
  - destruct (add_stmt_sim p w evs s) as (Hne & new1 & Hst1 & Hrep1).
    destruct (add_stmtR p evs s) as [[] p1 evs1|e p1 evs1|p1 evs1|s1 p1 evs1] eqn:ER; cbn [wstate is_werr] in *;
      try discriminate.
    + (* the statement succeeded for the recorder: the rest runs *)
      destruct (replay w new1) as [[w1|[l w1]]|w1] eqn:Erep.
      * cbn [wmap] in Hrep1. rewrite Hrep1.
        destruct (IH p1 w1 evs1) as (Hne2 & new2 & Hst2 & Hrep2).
        split; [exact Hne2|]. exists (new1 ++ new2).
        split; [rewrite Hst2, Hst1, rev_app_distr, <- app_assoc; reflexivity|].
        rewrite replay_app, Erep. exact Hrep2.
      * destruct Hrep1 as (p' & -> & Hl).
        destruct (IH p1 w evs1) as (Hne2 & new2 & Hst2 & _).
        split; [exact Hne2|]. exists (new1 ++ new2).
        split; [rewrite Hst2, Hst1, rev_app_distr, <- app_assoc; reflexivity|].
        rewrite replay_app, Erep. exists p'. split; [reflexivity|exact Hl].
      * destruct Hrep1 as (p' & ->).
        destruct (IH p1 w evs1) as (Hne2 & new2 & Hst2 & _).
        split; [exact Hne2|]. exists (new1 ++ new2).
        split; [rewrite Hst2, Hst1, rev_app_distr, <- app_assoc; reflexivity|].
        rewrite replay_app, Erep. exists p'. reflexivity.
    + split; [reflexivity|]. exists new1. split; [exact Hst1|].
      destruct (replay w new1) as [[w1|[l w1]]|w1]; [cbn [wmap] in Hrep1; rewrite Hrep1; reflexivity| |].
      * destruct Hrep1 as (p' & -> & Hl). exists p'. split; [reflexivity|exact Hl].
      * destruct Hrep1 as (p' & ->). exists p'. reflexivity.
    + split; [reflexivity|]. exists new1. split; [exact Hst1|].
      destruct (replay w new1) as [[w1|[l w1]]|w1]; [cbn [wmap] in Hrep1; rewrite Hrep1; reflexivity| |].
      * destruct Hrep1 as (p' & -> & Hl). exists p'. split; [reflexivity|exact Hl].
      * destruct Hrep1 as (p' & ->). exists p'. reflexivity.
Qed.

(** *** process_file: verdicts *)
Definition te_of (x : io_cli_result (list event)) : trace_end := snd (trace_of x).

Definition sim_c (w : bufw) (evs : list event) (xa : io_cli_result bufw) (xr : io_cli_result (list event)) : Prop :=
  exists new, ic_state xr = rev new ++ evs
    /\ verdict_of_run limit xa = replay_run cap limit w (new, te_of xr).

Lemma sim_c_err w evs e l p : sim_c w evs (IcErr e l p w) (IcErr e l p evs).
Proof. exists []. split; reflexivity. Qed.
Lemma sim_c_panic w evs s p : sim_c w evs (IcPanic s p w) (IcPanic s p evs).
Proof. exists []. split; reflexivity. Qed.

Lemma final_flush_sim p w evs :
  sim_c w evs (final_flush bufw (bw_flush limit) p w) (final_flush (list event) rec_fin p evs).
Proof.
  exists []. split; [reflexivity|]. unfold final_flush, rec_fin, replay_run. cbn [fst snd replay_events te_of trace_of].
  destruct (bw_flush limit w) as [r w']. destruct r as [[]|e|s|]; reflexivity.
Qed.

Notation run_stmtsA := (run_stmts_io functions classes modules exec bufw putA).
Notation run_stmtsR := (run_stmts_io functions classes modules exec (list event) rec_put).

Lemma replay_run_app w new1 new2 te :
  replay_run cap limit w (new1 ++ new2, te) =
  match replay w new1 with
  | inl (inl w') => replay_run cap limit w' (new2, te)
  | inl (inr (l, w')) => (StErr l EIo, Some (bw_file (bw_drop limit w')), true)
  | inr w' => (StPanic "model: out of fuel", Some (bw_file (bw_drop limit w')), false)
  end.
Proof.
  unfold replay_run. cbn [fst snd]. rewrite replay_app.
  destruct (replay w new1) as [[w1|[l w1]]|w1]; reflexivity.
Qed.

Lemma run_stmts_sim ss kA kR :
  (forall p' w' evs', sim_c w' evs' (kA p' w') (kR p' evs')) ->
  forall p w evs, sim_c w evs (run_stmtsA p w ss kA) (run_stmtsR p evs ss kR).
Proof.
  intros Hk p w evs. unfold run_stmts_io.
  destruct (add_stmts_sim ss p w evs) as (Hne & new1 & Hst1 & Hrep1).
  destruct (add_stmtsR p evs ss) as [[] p1 evs1|e p1 evs1|p1 evs1|s1 p1 evs1] eqn:ER; cbn [wstate is_werr] in *;
    try discriminate.
  - destruct (replay w new1) as [[w1|[l w1]]|w1] eqn:Erep.
    + cbn [wmap] in Hrep1. rewrite Hrep1.
      destruct (Hk p1 w1 evs1) as (new2 & Hst2 & Hv).
      exists (new1 ++ new2). split; [rewrite Hst2, Hst1, rev_app_distr, <- app_assoc; reflexivity|].
      rewrite replay_run_app, Erep. exact Hv.
    + destruct Hrep1 as (p' & -> & Hl).
      destruct (Hk p1 w evs1) as (new2 & Hst2 & _).
      exists (new1 ++ new2). split; [rewrite Hst2, Hst1, rev_app_distr, <- app_assoc; reflexivity|].
      rewrite replay_run_app, Erep. cbn [verdict_of_run]. rewrite Hl. reflexivity.
    + destruct Hrep1 as (p' & ->).
      destruct (Hk p1 w evs1) as (new2 & Hst2 & _).
      exists (new1 ++ new2). split; [rewrite Hst2, Hst1, rev_app_distr, <- app_assoc; reflexivity|].
      rewrite replay_run_app, Erep. reflexivity.
  - exists new1. split; [exact Hst1|]. rewrite <- (app_nil_r new1), replay_run_app.
    destruct (replay w new1) as [[w1|[l w1]]|w1].
    + cbn [wmap] in Hrep1. rewrite Hrep1. reflexivity.
    + destruct Hrep1 as (p' & -> & Hl). cbn [verdict_of_run]. rewrite Hl. reflexivity.
    + destruct Hrep1 as (p' & ->). reflexivity.
  - exists new1. split; [exact Hst1|]. rewrite <- (app_nil_r new1), replay_run_app.
    destruct (replay w new1) as [[w1|[l w1]]|w1].
    + cbn [wmap] in Hrep1. rewrite Hrep1. reflexivity.
    + destruct Hrep1 as (p' & -> & Hl). cbn [verdict_of_run]. rewrite Hl. reflexivity.
    + destruct Hrep1 as (p' & ->). reflexivity.
Qed.

Notation linesA := (process_lines_io functions classes modules exec bufw putA (bw_flush limit)).
Notation linesR := (process_lines_io functions classes modules exec (list event) rec_put rec_fin).

Lemma process_lines_sim : forall lines lno lx ps p w evs,
  sim_c w evs (linesA lno lines lx ps p w) (linesR lno lines lx ps p evs).
Proof.
  induction lines as [|line rest IH]; intros lno lx ps p w evs; cbn [process_lines_io].
  - destruct (feed ps eof_token) as [ps'|e|s|].
    + destruct (get_results ps') as [ss ps'']. apply run_stmts_sim. intros. apply final_flush_sim.
    + apply sim_c_err.
    + apply sim_c_panic.
    + apply sim_c_panic.
  - destruct (negb (utf8_valid line)); [apply sim_c_err|].
    destruct (lex_line lx lno line) as [lx' toks].
    destruct toks as [ts|e|s|]; [|apply sim_c_err|apply sim_c_panic|apply sim_c_panic].
    destruct (feed_line ps ts) as [[ps'|e|s|]|[e l]]; [|apply sim_c_err|apply sim_c_panic|apply sim_c_panic|apply sim_c_err].
    destruct (get_results ps') as [ss ps'']. apply run_stmts_sim. intros. apply IH.
Qed.

(** the verdict of a run with the BufWriter is the recorder's trace replayed through it *)
Theorem process_input_replay input w0 :
  verdict_of_run limit (process_input functions classes modules exec bufw putA (bw_flush limit) input w0) =
  replay_run cap limit w0
    (trace_of (process_input functions classes modules exec (list event) rec_put rec_fin input [])).
Proof.
  assert (H : sim_c w0 [] (process_input functions classes modules exec bufw putA (bw_flush limit) input w0)
                          (process_input functions classes modules exec (list event) rec_put rec_fin input [])).
  { unfold process_input. destruct input; try apply sim_c_err. apply process_lines_sim. }
  destruct H as (new & Hst & Hv). rewrite Hv. f_equal.
  rewrite app_nil_r in Hst. unfold te_of.
  destruct (process_input functions classes modules exec (list event) rec_put rec_fin input []) as [p s|e l p s|l p s|site p s];
    cbn [ic_state trace_of fst snd] in *; rewrite Hst, rev_involutive; reflexivity.
Qed.

End Pipeline.
