(** C19: the CLI's report for a session (BufWriter::new: capacity 8192), and the pre-fix protocol. *)
From RS Require Import Base.Bytes Base.Outcome Pkt.Pcap Lex.Tokens Interp.Io Proofs.BytesLemmas Proofs.C19.Loops
  Proofs.C19.Writer Proofs.C19.Session Proofs.C19.ReportPoint.
From Coq Require Import ZArith Lia ZifyBool ZifyNat ZifyN.
Ltac Zify.zify_post_hook ::= Z.div_mod_to_equations.
Open Scope N_scope.

Definition reports_failure (r : report) : Prop :=
  says_ok r = false /\ panics r = false /\ rp_exit r <> 0.

Lemma cli_report_failure keep l e file : reports_failure (cli_report keep (StErr l e) file).
Proof. unfold reports_failure, cli_report. destruct keep; cbn; repeat split; lia. Qed.

Lemma session_cases keep limit create_ok recs :
  let o := io_out (session_io CAP limit create_ok recs EndFlush) in
  let f := io_file (session_io CAP limit create_ok recs EndFlush) in
  (o = IoDone /\ session keep limit create_ok recs = cli_report keep StOk f)
  \/ (o <> IoDone /\ session keep limit create_ok recs = cli_report keep (StErr nil_loc EIo) f).
Proof.
  cbv zeta. unfold session.
  destruct (session_io_outcomes CAP limit create_ok recs EndFlush) as [E|[E|(k & E & _)]]; rewrite E; cbn [status_of_io].
  - left. split; reflexivity.
  - right. split; [discriminate|reflexivity].
  - right. split; [discriminate|reflexivity].
Qed.

(** (a) *)
Theorem fail_safe keep L create_ok recs : L < len (full_file recs) ->
  reports_failure (session keep (Some L) create_ok recs).
Proof.
  intros HL. destruct (session_cases keep (Some L) create_ok recs) as [(Ho & _)|(_ & ->)].
  - exfalso. exact (fail_safe_io CAP L create_ok recs HL Ho).
  - apply cli_report_failure.
Qed.

Theorem create_failure_reported keep limit recs :
  reports_failure (session keep limit false recs)
  /\ rp_file (session keep limit false recs) = None.
Proof.
  unfold session, session_io. cbn [io_out io_file status_of_io].
  split; [apply cli_report_failure|]. unfold cli_report. destruct keep; reflexivity.
Qed.

(** (b) *)
Theorem ok_is_complete keep limit create_ok recs : says_ok (session keep limit create_ok recs) = true ->
  rp_file (session keep limit create_ok recs) = Some (full_file recs)
  /\ rp_exit (session keep limit create_ok recs) = 0
  /\ rp_delete_diag (session keep limit create_ok recs) = false.
Proof.
  intros Hok. destruct (session_cases keep limit create_ok recs) as [(Ho & E)|(_ & E)]; rewrite E in *.
  - rewrite (ok_complete CAP limit create_ok recs Ho). cbn. repeat split.
  - exfalso. unfold says_ok, cli_report in Hok. destruct keep; cbn in Hok; discriminate.
Qed.

Theorem no_fault_ok keep limit recs :
  (limit = None \/ exists L, limit = Some L /\ len (full_file recs) <= L) ->
  says_ok (session keep limit true recs) = true.
Proof.
  intros H. assert (Ho : io_out (session_io CAP limit true recs EndFlush) = IoDone).
  { destruct H as [->|(L & -> & HL)]; [apply no_limit_done|apply roomy_limit_done; exact HL]. }
  unfold session. rewrite Ho. reflexivity.
Qed.

(** what is left at the output path after a failed run *)
Theorem failed_output keep limit create_ok recs : says_ok (session keep limit create_ok recs) = false ->
  match rp_file (session keep limit create_ok recs) with
  | None => True
  | Some f => keep = true /\ is_prefix f (full_file recs) /\ match limit with Some L => len f <= L | None => True end
  end.
Proof.
  intros Hno. destruct (session_cases keep limit create_ok recs) as [(Ho & E)|(_ & E)]; rewrite E in *.
  - unfold says_ok, cli_report in Hno. cbn in Hno. discriminate.
  - unfold cli_report. destruct keep; cbn [rp_file]; [|exact I].
    destruct (io_file (session_io CAP limit create_ok recs EndFlush)) as [f|] eqn:Ef; [|exact I].
    destruct (file_is_prefix CAP limit create_ok recs EndFlush f Ef) as (Hp & Hw).
    split; [reflexivity|]. split; [exact Hp|exact Hw].
Qed.

(** (d) at the level of the report *)
Theorem report_point_session L recs :
  io_out (session_io CAP (Some L) true recs EndFlush) =
  match first_above L (pushed_sizes CAP recs) 0 with Some i => IoFailedAt i | None => IoDone end.
Proof. apply report_point. Qed.

(** *** the protocol before the fix (D21) *)

Lemma old_all_buffered limit : forall recs w op,
  len (bw_buf w) + len (concat recs) < CAP ->
  write_records_old CAP limit w op recs = (IoDone, {| bw_file := bw_file w; bw_buf := bw_buf w ++ concat recs |}).
Proof.
  unfold CAP. induction recs as [|r rest IH]; intros w op H; cbn [write_records_old concat].
  - rewrite app_nil_r. destruct w; reflexivity.
  - cbn [concat] in H. rewrite len_app in H. unfold bw_write_all, spare.
    assert (Hlt : len r <? 8192 - len (bw_buf w) = true) by lia. rewrite Hlt.
    rewrite IH; cbn [to_buffer bw_file bw_buf]; [rewrite <- app_assoc; reflexivity|rewrite len_app; lia].
Qed.

(** an output that fits the buffer is never reported as failed, wherever the fault lies; the file is
    silently cut at the limit *)
Theorem old_small_always_ok keep L recs : len (full_file recs) < CAP ->
  says_ok (session_old keep (Some L) true recs) = true
  /\ rp_file (session_old keep (Some L) true recs) = Some (takeN L (full_file recs)).
Proof.
  intros H. unfold session_old, session_io_old, pw_create, full_file in *. rewrite len_app in H.
  unfold bw_write_all, spare. cbn [bw_new bw_buf]. pose proof old_all_buffered as Hold. unfold CAP in *.
  assert (Hlt : len pcap_ghdr <? 8192 - len (@nil N) = true) by (unfold len at 2; cbn [length]; lia). rewrite Hlt.
  change (to_buffer bw_new pcap_ghdr) with {| bw_file := []; bw_buf := pcap_ghdr |}.
  rewrite Hold by (cbn [bw_buf]; lia).
  cbn [to_buffer bw_file bw_buf app io_out io_file status_of_io cli_report says_ok rp_status rp_file].
  split; [reflexivity|]. f_equal.
  unfold bw_drop. rewrite flush_buf_closed. cbn [bw_file bw_buf]. unfold flush_spec.
  assert (Hlen : len (pcap_ghdr ++ concat recs) = len pcap_ghdr + len (concat recs)) by apply len_app.
  remember (pcap_ghdr ++ concat recs) as b eqn:Eb. clear Eb.
  destruct b as [|x b0]; [cbn [snd bw_file]; unfold takeN; rewrite firstn_nil; reflexivity|].
  set (b := x :: b0) in *. cbn [fits room].
  replace (len (@nil N)) with 0 by reflexivity.
  destruct (0 + len b <=? L) eqn:E; cbn [snd bw_file app].
  - rewrite takeN_all by lia. reflexivity.
  - replace (L - 0) with L by lia. reflexivity.
Qed.

(** (e) a concrete witness: one 60-byte frame, fault at byte 30: "ok", exit 0, 30 of 100 bytes *)
Theorem old_protocol_claims_success :
  exists recs L, says_ok (session_old false (Some L) true recs) = true
    /\ rp_exit (session_old false (Some L) true recs) = 0
    /\ exists f, rp_file (session_old false (Some L) true recs) = Some f /\ len f < len (full_file recs)
    /\ reports_failure (session false (Some L) true recs).
Proof.
  exists [pcap_rec_hdr 0 60 ++ repeat 7 60], 30.
  split; [vm_compute; reflexivity|]. split; [vm_compute; reflexivity|].
  eexists. split; [vm_compute; reflexivity|]. split; [vm_compute; reflexivity|].
  unfold reports_failure. repeat split; vm_compute; congruence.
Qed.

(** and with a large output the pre-fix protocol panics *)
Theorem old_protocol_panics :
  exists recs L, panics (session_old false (Some L) true recs) = true.
Proof.
  exists [repeat 7 (N.to_nat 9000)], 100. vm_compute. reflexivity.
Qed.
