(** C19: the writer protocol -- prefix safety, completeness of an Ok run, fail-safety (any limit). *)
From RS Require Import Base.Bytes Base.Outcome Pkt.Pcap Interp.Io Proofs.BytesLemmas Proofs.C19.Loops
  Proofs.C19.Writer.
From Coq Require Import ZArith Lia ZifyBool ZifyNat ZifyN.
Ltac Zify.zify_post_hook ::= Z.div_mod_to_equations.
Open Scope N_scope.

(** the complete output *)
Definition full_file (recs : list bytes) : bytes := pcap_ghdr ++ concat recs.

Lemma file_prefix_stream w : is_prefix (bw_file w) (stream w).
Proof. apply is_prefix_app. Qed.

Section Session.
Variable cap : N.
Variable limit : option N.

Notation within := (within limit).

(** outcomes of the fixed protocol *)
Definition plain_outcome (o : io_outcome) (lo hi : nat) : Prop :=
  o = IoDone \/ exists k, o = IoFailedAt k /\ (lo <= k < hi)%nat.

Lemma write_records_facts : forall recs w op o w',
  write_records cap limit w op recs = (o, w') ->
  plain_outcome o op (op + length recs)
  /\ is_prefix (stream w') (stream w ++ concat recs)
  /\ is_prefix (bw_file w) (bw_file w')
  /\ (o = IoDone -> stream w' = stream w ++ concat recs)
  /\ (within (bw_file w) -> within (bw_file w')).
Proof.
  induction recs as [|r rest IH]; intros w op o w' E; cbn [write_records] in E.
  - inversion E; subst. cbn [concat]. rewrite app_nil_r.
    split5; [left; reflexivity|apply is_prefix_refl|apply is_prefix_refl|reflexivity|auto].
  - destruct (bw_write_all cap limit w r) as [r1 w1] eqn:Ew.
    destruct (bw_write_all_facts _ _ _ _ _ _ Ew) as (Hr1 & (k & Hk) & Hp1 & Hok1 & Hw1).
    cbn [concat length].
    destruct Hr1 as [->| ->].
    + destruct (IH _ _ _ _ E) as (Ho & Hpre & Hpf & Hdone & Hwi).
      rewrite (Hok1 eq_refl), <- app_assoc in Hpre, Hdone.
      split5.
      * destruct Ho as [Ho|(j & Ho & Hj)]; [left; exact Ho|right; exists j; split; [exact Ho|lia]].
      * exact Hpre.
      * eapply is_prefix_trans; [exact Hp1|exact Hpf].
      * exact Hdone.
      * auto.
    + inversion E; subst o w'.
      split5.
      * right. exists op. split; [reflexivity|lia].
      * rewrite Hk. apply is_prefix_app_l. apply is_prefix_app_r. apply is_prefix_takeN.
      * exact Hp1.
      * discriminate.
      * exact Hw1.
Qed.

Lemma pw_create_facts r w0 : pw_create cap limit = (r, w0) ->
  io_res_ok r /\ is_prefix (stream w0) pcap_ghdr /\ (r = Ok tt -> stream w0 = pcap_ghdr) /\ within (bw_file w0).
Proof.
  unfold pw_create. intros E.
  destruct (bw_write_all_facts _ _ _ _ _ _ E) as (Hr & (k & Hk) & _ & Hok & Hw).
  unfold stream at 2 in Hk. unfold stream at 2 in Hok. cbn [bw_new bw_file bw_buf app] in Hk, Hok.
  split; [exact Hr|]. split; [rewrite Hk; apply is_prefix_takeN|]. split; [exact Hok|].
  apply Hw. unfold Writer.within. cbn [bw_new bw_file]. destruct limit; [|exact I]. unfold len. cbn [length]. lia.
Qed.

(** the state in which the run stops *)
Theorem run_writer_facts recs e o w : run_writer cap limit recs e = (o, w) ->
  plain_outcome o 0 (2 + length recs)
  /\ is_prefix (stream w) (full_file recs)
  /\ within (bw_file w)
  /\ (o = IoDone -> stream w = full_file recs)
  /\ (o = IoDone -> e = EndFlush -> bw_buf w = []).
Proof.
  unfold run_writer, full_file.
  destruct (pw_create cap limit) as [r0 w0] eqn:Ec.
  destruct (pw_create_facts _ _ Ec) as (Hr0 & Hp0 & Hok0 & Hw0).
  destruct Hr0 as [->| ->].
  2:{ intros E; inversion E; subst o w.
      split5; [right; exists 0%nat; split; [reflexivity|lia]|apply is_prefix_app_r; exact Hp0|exact Hw0|discriminate|discriminate]. }
  specialize (Hok0 eq_refl).
  destruct (write_records cap limit w0 1 recs) as [o1 w1] eqn:Er.
  destruct (write_records_facts _ _ _ _ _ Er) as (Ho1 & Hpre1 & _ & Hdone1 & Hwi1).
  rewrite Hok0 in Hpre1, Hdone1. specialize (Hwi1 Hw0).
  destruct Ho1 as [->|(k & -> & Hk)].
  2:{ intros E; inversion E; subst o w.
      split5; [right; exists k; split; [reflexivity|lia]|exact Hpre1|exact Hwi1|discriminate|discriminate]. }
  specialize (Hdone1 eq_refl).
  destruct e.
  - unfold bw_flush. destruct (flush_buf limit w1) as [r2 w2] eqn:Ef.
    destruct (flush_buf_facts _ _ _ _ Ef) as (Hr2 & Hs2 & _ & Hok2 & Hw2).
    destruct Hr2 as [->| ->]; intros E; inversion E; subst o w.
    + destruct (Hok2 eq_refl) as (Hb & Hf).
      split5; [left; reflexivity|rewrite Hs2, Hdone1; apply is_prefix_refl|auto|intros _; rewrite Hs2; exact Hdone1|intros _ _; exact Hb].
    + split5; [right; exists (S (length recs)); split; [reflexivity|lia]|rewrite Hs2, Hdone1; apply is_prefix_refl|auto|discriminate|discriminate].
  - intros E; inversion E; subst o w.
    split5; [left; reflexivity|rewrite Hdone1; apply is_prefix_refl|exact Hwi1|intros _; exact Hdone1|discriminate].
Qed.

Lemma bw_drop_facts w : stream (bw_drop limit w) = stream w /\ is_prefix (bw_file w) (bw_file (bw_drop limit w))
  /\ (within (bw_file w) -> within (bw_file (bw_drop limit w)))
  /\ (bw_buf w = [] -> bw_drop limit w = w).
Proof.
  unfold bw_drop. destruct (flush_buf limit w) as [r w'] eqn:E. cbn [snd].
  destruct (flush_buf_facts _ _ _ _ E) as (_ & Hs & Hp & _ & Hw).
  split; [exact Hs|]. split; [exact Hp|]. split; [exact Hw|].
  intros Hb. rewrite flush_buf_closed in E. destruct w as [f b]. cbn [bw_buf bw_file] in *. subst b.
  cbn [flush_spec] in E. inversion E. reflexivity.
Qed.

(** (c) prefix safety: whenever the run stops -- after any number of records, with or without the
    final flush, before and after the writer is dropped -- the file holds a prefix of the complete
    output: nothing is reordered, duplicated or invented, also across short writes *)
Theorem prefix_safety recs1 recs2 e o w : run_writer cap limit recs1 e = (o, w) ->
  is_prefix (bw_file w) (full_file (recs1 ++ recs2))
  /\ is_prefix (bw_file (bw_drop limit w)) (full_file (recs1 ++ recs2)).
Proof.
  intros E. destruct (run_writer_facts _ _ _ _ E) as (_ & Hp & _ & _ & _).
  assert (Hfull : is_prefix (full_file recs1) (full_file (recs1 ++ recs2))).
  { unfold full_file. rewrite concat_app, app_assoc. apply is_prefix_app. }
  destruct (bw_drop_facts w) as (Hs & _ & _ & _).
  split.
  - eapply is_prefix_trans; [apply file_prefix_stream|]. eapply is_prefix_trans; [exact Hp|exact Hfull].
  - eapply is_prefix_trans; [apply file_prefix_stream|]. rewrite Hs. eapply is_prefix_trans; [exact Hp|exact Hfull].
Qed.

(** the session never runs out of fuel and never panics *)
Theorem session_io_outcomes create_ok recs e :
  let o := io_out (session_io cap limit create_ok recs e) in
  o = IoDone \/ o = IoCreateFailed \/ exists k, o = IoFailedAt k /\ (k <= S (length recs))%nat.
Proof.
  unfold session_io. destruct create_ok; [|right; left; reflexivity].
  destruct (run_writer cap limit recs e) as [o w] eqn:E. cbn [io_out].
  destruct (run_writer_facts _ _ _ _ E) as ([->|(k & -> & Hk)] & _).
  - left; reflexivity.
  - right; right. exists k. split; [reflexivity|lia].
Qed.

(** (b) completeness: a run that reports Ok has written the complete file *)
Theorem ok_complete create_ok recs :
  io_out (session_io cap limit create_ok recs EndFlush) = IoDone ->
  io_file (session_io cap limit create_ok recs EndFlush) = Some (full_file recs).
Proof.
  unfold session_io. destruct create_ok; [|discriminate].
  destruct (run_writer cap limit recs EndFlush) as [o w] eqn:E. cbn [io_out io_file]. intros ->.
  destruct (run_writer_facts _ _ _ _ E) as (_ & _ & _ & Hs & Hb).
  specialize (Hs eq_refl). specialize (Hb eq_refl eq_refl).
  destruct (bw_drop_facts w) as (_ & _ & _ & Hd). rewrite (Hd Hb).
  unfold stream in Hs. rewrite Hb, app_nil_r in Hs. rewrite Hs. reflexivity.
Qed.

(** whatever is left in the file is a prefix of the complete output and respects the limit *)
Theorem file_is_prefix create_ok recs e f :
  io_file (session_io cap limit create_ok recs e) = Some f ->
  is_prefix f (full_file recs) /\ within f.
Proof.
  unfold session_io. destruct create_ok; [|discriminate].
  destruct (run_writer cap limit recs e) as [o w] eqn:E. cbn [io_file]. intros Ef. inversion Ef; subst f.
  destruct (run_writer_facts _ _ _ _ E) as (_ & Hp & Hw & _ & _).
  destruct (bw_drop_facts w) as (Hs & _ & Hwd & _).
  split; [|auto].
  eapply is_prefix_trans; [apply file_prefix_stream|]. rewrite Hs. exact Hp.
Qed.

End Session.

(** (a) fail-safe: if the limit is below the size of the complete output the run does not report Ok *)
Theorem fail_safe_io cap L create_ok recs :
  L < len (full_file recs) ->
  io_out (session_io cap (Some L) create_ok recs EndFlush) <> IoDone.
Proof.
  intros HL Hdone.
  pose proof (ok_complete cap (Some L) create_ok recs Hdone) as Hf.
  destruct (file_is_prefix cap (Some L) create_ok recs EndFlush _ Hf) as (_ & Hw).
  unfold Writer.within in Hw. lia.
Qed.
