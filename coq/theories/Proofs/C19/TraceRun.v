(** C19: the recorder's trace is the fault-free run of Interp/Cli.v -- same outcome, and the records
    are exactly the chunks of [p_out]. *)
From RS Require Import Base.Bytes Base.Outcome Base.Utf8 Bind.Types Bind.Binder Pkt.Packet Pkt.Pcap
  Lex.Tokens Lex.Scanner Parse.Automaton Interp.Val Interp.Ast Interp.Eval Interp.Cli Interp.Io Interp.IoRun
  Lib.LibBase Proofs.C01.EvalPreserves Proofs.C19.Pipeline.
Open Scope N_scope.

Definition res_prog {A} (r : res A) : prog := match r with ROk _ p | RErr _ p | RPanic _ p => p end.

(** [r] leaves the output as it is in [p], whatever its outcome *)
Definition quiet {A} (r : res A) (p : prog) : Prop := p_out (res_prog r) = p_out p.

Lemma quiet_lift {A} p (x : outcome A) : quiet (lift p x) p.
Proof. destruct x; reflexivity. Qed.

Lemma quiet_rbind {A B} (x : res A) (f : A -> prog -> res B) p :
  quiet x p -> (forall a p', p_out p' = p_out p -> quiet (f a p') p') -> quiet (rbind x f) p.
Proof.
  intros Hx Hf. destruct x as [a p'|e p'|s p']; cbn [rbind]; unfold quiet in *; cbn [res_prog] in *; try exact Hx.
  rewrite (Hf a p' Hx). exact Hx.
Qed.

Lemma quiet_trans {A} (r : res A) p q : p_out p = p_out q -> quiet r p -> quiet r q.
Proof. unfold quiet. congruence. Qed.

Section TraceRun.
Variable functions : list funcdef.
Variable classes : list (string * list (string * string)).
Variable modules : list (string * list (string * symbol)).
Variable exec : string -> option nat -> list val -> list val -> heap -> option libres.

Notation eval := (eval functions classes modules exec).
Notation call := (call functions exec).
Notation add_stmt := (add_stmt functions classes modules exec).
Notation add_stmts := (add_stmts functions classes modules exec).

Lemma call_quiet p key this args : quiet (call p key this args) p.
Proof.
  unfold Eval.call. destruct (find_func functions key) as [f|]; [|reflexivity].
  apply quiet_rbind; [apply quiet_lift|]. intros [slots extra] p' Hp'.
  destruct (exec key this slots extra (p_heap p')) as [r|]; [|reflexivity].
  apply quiet_rbind.
  - eapply quiet_trans; [|apply quiet_lift]. reflexivity.
  - intros [v h] p'' Hp''. destruct (vtype_eqb (val_type v) (fd_ret f)); unfold quiet; cbn [res_prog]; reflexivity.
Qed.

Theorem eval_quiet e : forall p, quiet (eval p e) p.
Proof.
  induction e as [|l v0|l ms cs|l ms cs args IH|a b IHa IHb] using expr_ind'; intros p; cbn [Eval.eval].
  - reflexivity.
  - reflexivity.
  - eapply quiet_trans; [|apply quiet_lift]. reflexivity.
  - eapply quiet_trans with (p := set_loc p l); [reflexivity|].
    apply quiet_rbind; [apply quiet_lift|]. intros callee p1 Hp1.
    assert (Hargs : forall (q : prog),
      quiet ((fix eval_args (p0 : prog) (l0 : list (option string * expr)) {struct l0} : res (list (option string * val)) :=
         match l0 with
         | [] => ROk [] p0
         | (n, a) :: r => rbind (eval p0 a) (fun v1 p2 => rbind (eval_args p2 r) (fun vs1 p3 => ROk ((n, v1) :: vs1) p3))
         end) q args) q).
    { clear - IH. induction args as [|[n a] r IHr]; intros q; [reflexivity|].
      inversion IH as [|? ? Ha Hr]; subst. cbn [snd] in Ha.
      apply quiet_rbind; [apply Ha|]. intros v1 p2 Hp2.
      apply quiet_rbind; [apply IHr; exact Hr|]. intros vs1 p3 Hp3. reflexivity. }
    destruct callee; try reflexivity.
    + apply quiet_rbind; [apply Hargs|]. intros vs p2 Hp2. apply call_quiet.
    + apply quiet_rbind; [apply Hargs|]. intros vs p2 Hp2. apply call_quiet.
  - apply quiet_rbind; [apply IHa|]. intros va p1 Hp1.
    destruct (negb (vtype_eqb (val_type va) TIp4)); [reflexivity|].
    apply quiet_rbind; [apply IHb|]. intros vb p2 Hp2.
    destruct (negb (is_integral (val_type vb))); [reflexivity|].
    eapply quiet_trans with (p := set_loc p2 (p_loc p1)); [reflexivity|].
    apply quiet_rbind; [apply quiet_lift|]. intros ip p3 Hp3.
    apply quiet_rbind; [apply quiet_lift|]. intros port p4 Hp4.
    destruct (65535 <? port); reflexivity.
Qed.

Lemma update_time_quiet p ns : quiet (update_time p ns) p.
Proof. unfold update_time. destruct (p_now p + ns <? two64); reflexivity. Qed.

Lemma advance_all_quiet : forall ks p, quiet (advance_all p ks) p.
Proof.
  induction ks as [|k r IH]; intros p; cbn [advance_all]; [reflexivity|].
  apply quiet_rbind; [apply update_time_quiet|]. intros [] p' Hp'. apply IH.
Qed.

Lemma add_stmt_quiet_import p l name : quiet (add_stmt p (SImport l name)) p.
Proof.
  cbn [Eval.add_stmt]. destruct (assoc name (p_imports (set_loc p l))); [reflexivity|].
  destruct (assoc EmptyString modules) as [syms|]; [|reflexivity].
  destruct (assoc name syms) as [[path|k|k|d]|]; reflexivity.
Qed.

Lemma add_stmt_quiet_assign p l x e : quiet (add_stmt p (SAssign l x e)) p.
Proof.
  cbn [Eval.add_stmt]. destruct (assoc x (p_regs (set_loc p l))); [reflexivity|].
  eapply quiet_trans with (p := set_loc p l); [reflexivity|].
  apply quiet_rbind; [apply eval_quiet|]. intros v p' Hp'. reflexivity.
Qed.

(** *** the recorder against the pure interpreter *)
Definition pure_of {A} (x : wres (list event) A) : option (res A) :=
  match x with
  | WOk a p _ => Some (ROk a p) | WErr e p _ => Some (RErr e p) | WPanic s p _ => Some (RPanic s p)
  | WWriteErr _ _ => None
  end.
Definition wprog {S A} (x : wres S A) : prog :=
  match x with WOk _ p _ | WErr _ p _ | WWriteErr p _ | WPanic _ p _ => p end.

(** the recorder's list and [p_out] hold the same chunks (both most recent first) *)
Definition inv (p : prog) (evs : list event) : Prop := map snd evs = p_out p.

Definition agrees {A} (r : res A) (x : wres (list event) A) (p : prog) (evs : list event) : Prop :=
  pure_of x = Some r /\ (inv p evs -> inv (wprog x) (wstate x)).

Lemma agrees_lift {A} (r : res A) p evs : quiet r p -> agrees r (wlift r evs) p evs.
Proof.
  intros Hq. split; [destruct r; reflexivity|]. unfold inv, quiet in *. intros Hi.
  destruct r; cbn [wlift wprog wstate res_prog] in *; congruence.
Qed.

Lemma write_all_agrees : forall ps p evs,
  agrees (write_all p ps) (write_all_io (list event) rec_put p evs ps) p evs.
Proof.
  induction ps as [|k r IH]; intros p evs; cbn [write_all write_all_io].
  - split; [reflexivity|]. intros Hi; exact Hi.
  - destruct (write_packet (p_now p) k) as [[b k']|e|s|]; cbn [lift rbind].
    + unfold rec_put at 1. destruct (IH (add_out p b) ((p_loc p, b) :: evs)) as (Hp & Hi).
      split; [exact Hp|]. intros Hinv. apply Hi. unfold inv in *. cbn [map snd add_out p_out]. rewrite Hinv. reflexivity.
    + split; [reflexivity|]. intros Hi; exact Hi.
    + split; [reflexivity|]. intros Hi; exact Hi.
    + split; [reflexivity|]. intros Hi; exact Hi.
Qed.

Lemma agrees_trans {A} (r : res A) x p q evs : p_out q = p_out p -> agrees r x q evs -> agrees r x p evs.
Proof. intros Hq (H1 & H2). split; [exact H1|]. intros Hi. apply H2. unfold inv in *. congruence. Qed.

Lemma emit_val_agrees p evs v : agrees (emit_val p v) (emit_val_io (list event) rec_put p evs v) p evs.
Proof.
  destruct v as [|b|n|n|n|n|a|a pt|b|addr|key|addr key|k|ks|ns]; cbn [emit_val emit_val_io];
    try apply (agrees_lift (ROk tt (add_warning p)) p evs eq_refl).
  - apply (agrees_lift (ROk tt p) p evs eq_refl).
  - pose proof (update_time_quiet p (pkt_bit_time k)) as Hq.
    destruct (update_time p (pkt_bit_time k)) as [[] p'|e p'|s p']; cbn [rbind].
    + eapply agrees_trans; [exact Hq|]. apply write_all_agrees.
    + apply (agrees_lift (RErr e p') p evs Hq).
    + apply (agrees_lift (RPanic s p') p evs Hq).
  - pose proof (advance_all_quiet ks p) as Hq.
    destruct (advance_all p ks) as [[] p'|e p'|s p']; cbn [rbind].
    + eapply agrees_trans; [exact Hq|]. apply write_all_agrees.
    + apply (agrees_lift (RErr e p') p evs Hq).
    + apply (agrees_lift (RPanic s p') p evs Hq).
  - apply agrees_lift. apply update_time_quiet.
Qed.

Notation add_stmtR := (add_stmt_io functions classes modules exec (list event) rec_put).
Notation add_stmtsR := (add_stmts_io functions classes modules exec (list event) rec_put).

Lemma add_stmt_agrees p evs s : agrees (add_stmt p s) (add_stmtR p evs s) p evs.
Proof.
  destruct s as [l name|l x e|e].
  - apply agrees_lift. apply add_stmt_quiet_import.
  - apply agrees_lift. apply add_stmt_quiet_assign.
  - cbn [Eval.add_stmt add_stmt_io]. pose proof (eval_quiet e p) as Hq.
    destruct (eval p e) as [v p'|e' p'|s' p']; cbn [rbind].
    + eapply agrees_trans; [exact Hq|]. apply emit_val_agrees.
    + exact (agrees_lift (RErr e' p' : res unit) p evs Hq).
    + exact (agrees_lift (RPanic s' p' : res unit) p evs Hq).
Qed.

Lemma add_stmts_agrees : forall ss p evs, agrees (add_stmts p ss) (add_stmtsR p evs ss) p evs.
Proof.
  induction ss as [|s r IH]; intros p evs; cbn [Eval.add_stmts add_stmts_io].
  - split; [reflexivity|]. intros Hi; exact Hi.
  - destruct (add_stmt_agrees p evs s) as (Hp & Hi).
    destruct (add_stmtR p evs s) as [[] p1 evs1|e p1 evs1|p1 evs1|s1 p1 evs1]; cbn [pure_of] in Hp; inversion Hp as [Hr];
      cbn [rbind wprog wstate] in *.
    + destruct (IH p1 evs1) as (Hp2 & Hi2). split; [exact Hp2|]. intros Hinv. apply Hi2. apply Hi. exact Hinv.
    + split; [reflexivity|exact Hi].
    + split; [reflexivity|exact Hi].
Qed.

(** *** process_file *)
Definition cli_of (x : io_cli_result (list event)) : option cli_result :=
  match x with
  | IcOk p _ => Some (CliOk p) | IcErr e l p _ => Some (CliErr e l p) | IcPanic s _ _ => Some (CliPanic s)
  | IcWriteErr _ _ _ => None
  end.
Definition ic_prog {S} (x : io_cli_result S) : prog :=
  match x with IcOk p _ | IcErr _ _ p _ | IcWriteErr _ p _ | IcPanic _ p _ => p end.

Definition agrees_c (r : cli_result) (x : io_cli_result (list event)) (p : prog) (evs : list event) : Prop :=
  cli_of x = Some r /\ (inv p evs -> inv (ic_prog x) (ic_state x)).

Notation run_stmts := (run_stmts functions classes modules exec).
Notation run_stmtsR := (run_stmts_io functions classes modules exec (list event) rec_put).

Lemma run_stmts_agrees ss k kR :
  (forall p' evs', agrees_c (k p') (kR p' evs') p' evs') ->
  forall p evs, agrees_c (run_stmts p ss k) (run_stmtsR p evs ss kR) p evs.
Proof.
  intros Hk p evs. unfold Cli.run_stmts, run_stmts_io.
  destruct (add_stmts_agrees ss p evs) as (Hp & Hi).
  destruct (add_stmtsR p evs ss) as [[] p1 evs1|e p1 evs1|p1 evs1|s1 p1 evs1]; cbn [pure_of] in Hp; inversion Hp as [Hr];
    cbn [wprog wstate] in *.
  - destruct (Hk p1 evs1) as (Hc & Hi2). split; [exact Hc|]. intros Hinv. apply Hi2. apply Hi. exact Hinv.
  - split; [reflexivity|exact Hi].
  - split; [reflexivity|exact Hi].
Qed.

Notation lines := (process_lines functions classes modules exec).
Notation linesR := (process_lines_io functions classes modules exec (list event) rec_put rec_fin).

Lemma process_lines_agrees : forall ls lno lx ps p evs,
  agrees_c (lines lno ls lx ps p) (linesR lno ls lx ps p evs) p evs.
Proof.
  assert (Hsame : forall r x p evs, cli_of x = Some r -> ic_prog x = p -> ic_state x = evs -> agrees_c r x p evs).
  { intros r x p evs H1 H2 H3. split; [exact H1|]. rewrite H2, H3. intros Hi; exact Hi. }
  induction ls as [|line rest IH]; intros lno lx ps p evs; cbn [process_lines process_lines_io].
  - destruct (feed ps eof_token) as [ps'|e|s|]; try (apply Hsame; reflexivity).
    destruct (get_results ps') as [ss ps'']. apply run_stmts_agrees. intros p' evs'.
    unfold final_flush, rec_fin. apply Hsame; reflexivity.
  - destruct (negb (utf8_valid line)); [apply Hsame; reflexivity|].
    destruct (lex_line lx lno line) as [lx' toks].
    destruct toks as [ts|e|s|]; try (apply Hsame; reflexivity).
    destruct (feed_line ps ts) as [[ps'|e|s|]|[e l]]; try (apply Hsame; reflexivity).
    destruct (get_results ps') as [ss ps'']. apply run_stmts_agrees. intros p' evs'. apply IH.
Qed.

(** the trace of a source against process_file *)
Theorem trace_is_process_file src :
  let x := process_input functions classes modules exec (list event) rec_put rec_fin (InSrc src) [] in
  cli_of x = Some (process_file functions classes modules exec src)
  /\ map snd (ic_state x) = p_out (ic_prog x).
Proof.
  cbv zeta. unfold process_input, process_file.
  destruct (process_lines_agrees (split_lines src) 1 lexer_init parser_init prog_init []) as (Hc & Hi).
  split; [exact Hc|]. apply Hi. reflexivity.
Qed.

End TraceRun.
