(** C19: the verdict of the pipeline is the outcome of the writer session over the records of the
    fault-free trace, with the location of the failing record looked up in the trace. *)
From RS Require Import Base.Bytes Base.Outcome Bind.Types Pkt.Pcap Lex.Tokens Interp.Val Interp.Io Interp.IoRun
  Lib.LibBase Proofs.BytesLemmas Proofs.C19.Loops Proofs.C19.Writer Proofs.C19.Session Proofs.C19.ReportPoint
  Proofs.C19.Report Proofs.C19.Pipeline.
From Coq Require Import ZArith Lia ZifyBool ZifyNat ZifyN.
Open Scope N_scope.

Definition ending_of (te : trace_end) : ending := match te with TeOk => EndFlush | _ => EndAbort end.
Definition status_of_end (te : trace_end) : status :=
  match te with TeOk => StOk | TeErr e l => StErr l e | TePanic s => StPanic s end.
(** location reported for a failure of operation k: the header write (0) and the final flush (n+1)
    carry none, the k-th record carries the location current when it was written *)
Definition op_loc (evs : list event) (k : nat) : loc :=
  match k with O => nil_loc | S j => nth j (map fst evs) nil_loc end.

Definition verdict_of_session (evs : list event) (te : trace_end) (r : io_result) : verdict :=
  match io_out r with
  | IoDone => (status_of_end te, io_file r, false)
  | IoFailedAt k => (StErr (op_loc evs k) EIo, io_file r, true)
  | IoCreateFailed => (StErr nil_loc EIo, io_file r, false)
  | IoFuel | IoPanicAt _ => (StPanic "model: out of fuel", io_file r, false)
  end.

Section Link.
Variable cap : N.
Variable limit : option N.

Lemma replay_write_records : forall evs w op,
  match replay_events cap limit w evs with
  | inl (inl w') => write_records cap limit w op (map snd evs) = (IoDone, w')
  | inl (inr (l, w')) => exists k, write_records cap limit w op (map snd evs) = (IoFailedAt (op + k), w')
                                   /\ nth k (map fst evs) nil_loc = l
  | inr w' => write_records cap limit w op (map snd evs) = (IoFuel, w')
  end.
Proof.
  induction evs as [|[l b] r IH]; intros w op; cbn [replay_events map snd fst write_records]; [reflexivity|].
  destruct (bw_write_all cap limit w b) as [r1 w1]. destruct r1 as [[]|e|s|].
  - specialize (IH w1 (S op)). destruct (replay_events cap limit w1 r) as [[w'|[l' w']]|w']; [exact IH| |exact IH].
    destruct IH as (k & Hk & Hl). exists (S k). split; [rewrite Hk; f_equal; f_equal; lia|exact Hl].
  - exists 0%nat. split; [f_equal; f_equal; lia|reflexivity].
  - exists 0%nat. split; [f_equal; f_equal; lia|reflexivity].
  - reflexivity.
Qed.

Theorem replay_is_session create_ok evs te :
  replay_file cap limit create_ok (Some (evs, te)) =
  verdict_of_session evs te (session_io cap limit create_ok (map snd evs) (ending_of te)).
Proof.
  unfold replay_file, session_io, verdict_of_session. destruct create_ok; cbn [negb]; [|reflexivity].
  unfold run_writer. destruct (pw_create cap limit) as [r0 w0]. destruct r0 as [[]|e|s|]; try reflexivity.
  unfold replay_run. cbn [fst snd].
  pose proof (replay_write_records evs w0 1) as H.
  destruct (replay_events cap limit w0 evs) as [[w'|[l w']]|w'].
  - rewrite H. destruct te as [|e l|s]; cbn [ending_of status_of_end]; try reflexivity.
    destruct (bw_flush limit w') as [r2 w2]. destruct r2 as [[]|e|s|]; cbn [io_out io_file]; try reflexivity.
    + rewrite map_length. cbn [op_loc]. rewrite nth_overflow by (rewrite map_length; lia). reflexivity.
    + rewrite map_length. cbn [op_loc]. rewrite nth_overflow by (rewrite map_length; lia). reflexivity.
  - destruct H as (k & -> & Hl). cbn [io_out io_file plus op_loc]. rewrite Hl. reflexivity.
  - rewrite H. reflexivity.
Qed.

End Link.
